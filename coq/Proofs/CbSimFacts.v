(** GLOBAL soundness of the long-branch repair [check_branches] (C03): whenever the original code
    halts (falls off its end), the repaired code halts in the SAME state -- registers, flags,
    memory -- on the executor [crun] / [halts] of Model/OptSimCF.v and on [Sem.run].

    [window_gen] generalises the window theorem of Proofs/OptSimCFFacts.v to windows of DIFFERENT
    lengths: [A ++ D ++ T] becomes [A ++ M ++ T]; [D] contains no label (so it is entered only at
    its top); the labels of [M] are fresh (so no branch of the old run can target them, and every
    old label is found again, [find_lbl_shift], where [shift] sends it); from the top of the
    window every halting run leaves [D] at a position and in a state that [M] reaches too
    ([enters_alike]).  No condition on the instructions: states are equal, not merely related.
    [enters_mid3], [enters_mid5]: the three-line and the five-line repair enter and leave like the
    branch, resp. the pair "Bxx l; BEQ l", they replace, for every state.  [repair_step_sound],
    [cb_loop_sound]: one repair, then the iteration, the freshness of ".fixN"/".fixupN" being
    [CbFacts.lab_bound].  Theorems: [check_branches_sound], [check_branches_run] (on [Sem.run]),
    and the pipeline [pipeline_sound], [pipeline_run]: [check_branches (fst (optimize c))]. *)
From Coq Require Import String Ascii List Bool NArith ZArith Lia Arith.
From CC Require Import Base.Str Asm.Lines M6502.Isa Asm.Operand M6502.Sem
     Model.CheckBranches Model.CbSpec Model.Optimize Model.OptSem Model.OptSim Model.OptSimCF Model.CbSim
     Proofs.CbFacts Proofs.OptSimFacts Proofs.OptSimCFFacts.
From CC Require Proofs.OptFacts Proofs.GenLoopsFacts.
Import ListNotations.
Open Scope nat_scope.
Open Scope list_scope.

(** * Labels and positions when the window changes length *)

Lemma lbls_all_labels (c : code) : lbls c = all_labels c.
Proof.
  induction c as [|x c IH]; [reflexivity|].
  destruct x; cbn [lbls]; unfold all_labels; cbn [flat_map app]; fold (all_labels c); rewrite IH; reflexivity.
Qed.

Lemma find_lbl_not_in (l : string) (a : code) : ~ In l (all_labels a) -> find_lbl l a = None.
Proof. rewrite <- lbls_all_labels. apply find_lbl_none. Qed.

Lemma find_lbl_nolabels (l : string) (a : code) : all_labels a = [] -> find_lbl l a = None.
Proof. intros H. apply find_lbl_not_in. rewrite H. intros []. Qed.

Lemma find_lbl_in (l : string) (a : code) (k : nat) : find_lbl l a = Some k -> In l (all_labels a).
Proof.
  intros H. apply find_lbl_nth in H. apply nth_error_In in H.
  unfold all_labels. apply in_flat_map. exists (Lbl l). split; [exact H|left; reflexivity].
Qed.

Section Shift.
  Variables (A D M T : code).
  Hypothesis HD : all_labels D = [].
  Hypothesis FRESH : forall l, In l (all_labels M) -> ~ In l (all_labels (A ++ D ++ T)).

  Let c := A ++ D ++ T.
  Let c' := A ++ M ++ T.
  Let sh := shift (length A) (length D) (length M).

  Lemma sh_lo (p : nat) : p < length A + length D -> sh p = p.
  Proof. intros H. unfold sh, shift. apply Nat.ltb_lt in H. rewrite H. reflexivity. Qed.

  Lemma sh_hi (p : nat) : length A + length D <= p -> sh p = p - length D + length M.
  Proof. intros H. unfold sh, shift. apply Nat.ltb_ge in H. rewrite H. reflexivity. Qed.

  Lemma sh_len : sh (length c) = length c'.
  Proof. unfold c, c'. rewrite sh_hi; rewrite !app_length; lia. Qed.

  (** a label of the old code is found in the new code, where it has gone *)
  Lemma find_lbl_shift (l : string) (k : nat) :
    find_lbl l c = Some k ->
    find_lbl l c' = Some (sh k) /\ (k < length A \/ length A + length D <= k).
  Proof.
    intros H. assert (NM : find_lbl l M = None).
    { apply find_lbl_not_in. intros I. exact (FRESH l I (find_lbl_in l c k H)). }
    unfold c, c' in *. rewrite find_lbl_app in H |- *.
    destruct (find_lbl l A) as [j|] eqn:FA.
    - inversion H; subst j. pose proof (find_lbl_lt l A k FA) as L.
      split; [|left; exact L]. rewrite sh_lo by lia. reflexivity.
    - rewrite find_lbl_app in H |- *. rewrite (find_lbl_nolabels l D HD) in H. rewrite NM.
      destruct (find_lbl l T) as [j|]; cbn [option_map] in H |- *; [|discriminate H].
      inversion H; subst k. split; [|right; lia]. rewrite sh_hi by lia. f_equal. lia.
  Qed.

  Lemma nth_shift (p : nat) :
    p < length A \/ length A + length D <= p -> nth_error c' (sh p) = nth_error c p.
  Proof.
    unfold c, c'. intros [H|H].
    - rewrite sh_lo by lia. rewrite !nth_error_app1 by lia. reflexivity.
    - rewrite sh_hi by lia. rewrite !(nth_error_app2 A) by lia. rewrite !nth_error_app2 by lia.
      f_equal. lia.
  Qed.

  Lemma sh_S (p : nat) : p < length A \/ length A + length D <= p -> D <> [] -> sh (S p) = S (sh p).
  Proof.
    intros [H|H] NE.
    - assert (0 < length D) by (destruct D; [congruence|cbn; lia]).
      rewrite !sh_lo by lia. reflexivity.
    - rewrite !sh_hi by lia. lia.
  Qed.

  (** * The generalised window theorem: windows of different lengths *)
  Variable cfg : config.
  Hypothesis NE : D <> [].
  Hypothesis ENTRY : enters_alike cfg A D M T.

  Lemma window_gen_sim : forall n p s fin,
    crun cfg c n p s = Some (length c, fin) ->
    p <= length A \/ length A + length D <= p ->
    exists n', crun cfg c' n' (sh p) s = Some (length c', fin).
  Proof.
    induction n as [n IHn] using lt_wf_ind. intros p s fin H OUT.
    assert (LD : 0 < length D) by (destruct D; [congruence|cbn; lia]).
    destruct (Nat.eq_dec p (length A)) as [->|NEQ].
    - destruct (ENTRY n s fin H) as (m & k & s1 & j & LT & OK & C & C').
      destruct (IHn m LT k s1 fin C OK) as (n' & Hn').
      exists (j + n'). rewrite crun_add. rewrite sh_lo by lia. fold c'. unfold c' in *. rewrite C'.
      exact Hn'.
    - assert (OUT' : p < length A \/ length A + length D <= p) by lia.
      destruct n as [|n].
      { cbn [crun] in H. inversion H; subst. exists 0. cbn [crun]. rewrite sh_len. reflexivity. }
      cbn [crun] in H. pose proof (nth_shift p OUT') as NTH.
      assert (STEP : forall s1 p1, crun cfg c n p1 s1 = Some (length c, fin) ->
                p1 <= length A \/ length A + length D <= p1 ->
                (forall n', crun cfg c' (S n') (sh p) s = crun cfg c' n' (sh p1) s1) ->
                exists n', crun cfg c' n' (sh p) s = Some (length c', fin)).
      { intros s1 p1 H1 O1 HX. destruct (IHn n (Nat.lt_succ_diag_r n) p1 s1 fin H1 O1) as (n' & Hn').
        exists (S n'). rewrite HX. exact Hn'. }
      assert (SUCC : S p <= length A \/ length A + length D <= S p) by lia.
      destruct (nth_error c p) as [[l|i|tx sz|cm|]|] eqn:NC; try discriminate H.
      + apply (STEP s (S p) H SUCC). intros n'. cbn [crun]. rewrite NTH, (sh_S p OUT' NE). reflexivity.
      + destruct (parse_operand (i_mn i) (i_op i)) as [op|] eqn:P; [|discriminate H].
        destruct (exec cfg (i_mn i) op s) as [s1 c1 f1|w1] eqn:X1; [|discriminate H].
        destruct f1 as [|l|g| |]; try discriminate H.
        * apply (STEP s1 (S p) H SUCC). intros n'. cbn [crun].
          rewrite NTH, P, X1, (sh_S p OUT' NE). reflexivity.
        * destruct (find_lbl l c) as [k|] eqn:F; [|discriminate H].
          destruct (find_lbl_shift l k F) as [F' OK].
          apply (STEP s1 k H ltac:(lia)). intros n'. cbn [crun]. rewrite NTH, P, X1, F'. reflexivity.
      + apply (STEP s (S p) H SUCC). intros n'. cbn [crun]. rewrite NTH, (sh_S p OUT' NE). reflexivity.
      + apply (STEP s (S p) H SUCC). intros n'. cbn [crun]. rewrite NTH, (sh_S p OUT' NE). reflexivity.
  Qed.

  Theorem window_gen : forall s s', halts cfg c s s' -> halts cfg c' s s'.
  Proof.
    intros s s' (n & H).
    destruct (window_gen_sim n 0 s s' H ltac:(left; lia)) as (n' & H').
    exists n'. rewrite sh_lo in H'; [exact H'|].
    destruct D; [congruence|cbn; lia].
  Qed.
End Shift.

(** * Conditional branches and JMP, one step *)

Lemma exec_cond (cfg : config) (m : mnem) (l : string) (s : mstate) :
  is_cond_branch m = true ->
  exec cfg m (OLbl l) s = if branch_taken m s then XOk s 3%N (FGoto l) else XOk s 2%N FNext.
Proof. destruct m; intros H; try discriminate H; reflexivity. Qed.

Lemma exec_cond_none (cfg : config) (m : mnem) (s : mstate) :
  is_cond_branch m = true -> exists w, exec cfg m ONone s = XFault w.
Proof. destruct m; intros H; try discriminate H; eexists; reflexivity. Qed.

Lemma parse_label (m : mnem) (l : string) :
  takes_label m = true -> String.eqb l "" = false -> parse_operand m l = Some (OLbl l).
Proof. intros T E. unfold parse_operand. rewrite E, T. reflexivity. Qed.

Lemma parse_empty (m : mnem) : parse_operand m "" = Some ONone.
Proof. reflexivity. Qed.

Lemma cond_takes_label (m : mnem) : is_cond_branch m = true -> takes_label m = true.
Proof. destruct m; intros H; try discriminate H; reflexivity. Qed.

Lemma inv_mn_taken (m : mnem) (s : mstate) :
  is_cond_branch m = true -> branch_taken (inv_mn m) s = negb (branch_taken m s).
Proof.
  destruct m; intros H; try discriminate H; cbn [inv_mn branch_taken]; try reflexivity;
    rewrite negb_involutive; reflexivity.
Qed.

(** a conditional branch in a halting run: it has a label, and the run goes on at its target or at
    the next line *)
Lemma crun_branch_inv (cfg : config) (c : code) (n p : nat) (s fin : mstate) (b : instr) :
  nth_error c p = Some (Ins b) -> is_cond_branch (i_mn b) = true ->
  crun cfg c (S n) p s = Some (length c, fin) ->
  String.eqb (i_op b) "" = false /\
  if branch_taken (i_mn b) s
  then exists k, find_lbl (i_op b) c = Some k /\ crun cfg c n k s = Some (length c, fin)
  else crun cfg c n (S p) s = Some (length c, fin).
Proof.
  intros NTH CB H. cbn [crun] in H. rewrite NTH in H.
  destruct (String.eqb (i_op b) "") eqn:E.
  - apply String.eqb_eq in E. rewrite E, parse_empty in H.
    destruct (exec_cond_none cfg (i_mn b) s CB) as [w X]. rewrite X in H. discriminate H.
  - split; [reflexivity|].
    rewrite (parse_label _ _ (cond_takes_label _ CB) E), (exec_cond cfg _ _ s CB) in H.
    destruct (branch_taken (i_mn b) s); [|exact H].
    destruct (find_lbl (i_op b) c) as [k|]; [|discriminate H]. eauto.
Qed.

Lemma crun_branch (cfg : config) (c : code) (n p : nat) (s : mstate) (b : instr) :
  nth_error c p = Some (Ins b) -> is_cond_branch (i_mn b) = true -> String.eqb (i_op b) "" = false ->
  crun cfg c (S n) p s =
  if branch_taken (i_mn b) s
  then match find_lbl (i_op b) c with Some k => crun cfg c n k s | None => None end
  else crun cfg c n (S p) s.
Proof.
  intros NTH CB E. cbn [crun]. rewrite NTH, (parse_label _ _ (cond_takes_label _ CB) E), (exec_cond cfg _ _ s CB).
  destruct (branch_taken (i_mn b) s); reflexivity.
Qed.

Lemma crun_jmp (cfg : config) (c : code) (n p : nat) (s : mstate) (l : string) :
  nth_error c p = Some (mk_jmp l) -> String.eqb l "" = false ->
  crun cfg c (S n) p s = match find_lbl l c with Some k => crun cfg c n k s | None => None end.
Proof.
  intros NTH E. cbn [crun]. rewrite NTH. cbn [mk_jmp i_mn i_op].
  rewrite (parse_label JMP l eq_refl E). reflexivity.
Qed.

Lemma crun_lbl (cfg : config) (c : code) (n p : nat) (s : mstate) (l : string) :
  nth_error c p = Some (Lbl l) -> crun cfg c (S n) p s = crun cfg c n (S p) s.
Proof. intros NTH. cbn [crun]. rewrite NTH. reflexivity. Qed.

Lemma fixl_nonempty (n : N) : String.eqb (fixl n) "" = false.
Proof. reflexivity. Qed.
Lemma fixup_nonempty (n : N) : String.eqb (fixup n) "" = false.
Proof. reflexivity. Qed.

Lemma nth_mid (A M T : code) (i : nat) :
  i < length M -> nth_error (A ++ M ++ T) (i + length A) = nth_error M i.
Proof.
  intros H. rewrite nth_error_app2 by lia. rewrite nth_error_app1 by lia. f_equal. lia.
Qed.

Lemma find_lbl_mid (l : string) (A M T : code) (i : nat) :
  ~ In l (all_labels A) -> find_lbl l M = Some i -> find_lbl l (A ++ M ++ T) = Some (i + length A).
Proof.
  intros NA F. rewrite find_lbl_app, (find_lbl_not_in l A NA), find_lbl_app, F. cbn [option_map].
  f_equal. lia.
Qed.

Lemma not_in_app_l (l : string) (A B : code) : ~ In l (all_labels (A ++ B)) -> ~ In l (all_labels A).
Proof. intros H I. apply H. rewrite all_labels_app. apply in_or_app. left. exact I. Qed.

(** * The two repairs enter and leave like what they replace *)

Lemma enters_mid3 (cfg : config) (A T : code) (b : instr) (n : N) :
  is_cond_branch (i_mn b) = true ->
  ~ In (fixl n) (all_labels (A ++ [Ins b] ++ T)) ->
  enters_alike cfg A [Ins b] (mid3 n b) T.
Proof.
  intros CB FR k s fin H.
  assert (HD : all_labels [Ins b] = []) by reflexivity.
  assert (FRESH : forall l, In l (all_labels (mid3 n b)) -> ~ In l (all_labels (A ++ [Ins b] ++ T))).
  { intros l I. rewrite all_labels_mid3 in I. destruct I as [<-|[]]. exact FR. }
  set (c := A ++ [Ins b] ++ T) in *. set (c' := A ++ mid3 n b ++ T).
  assert (NB : nth_error c (length A) = Some (Ins b)).
  { unfold c. rewrite nth_error_app2 by lia. rewrite Nat.sub_diag. reflexivity. }
  assert (N0 : nth_error c' (length A) = Some (mk_branch (inv_mn (i_mn b)) (fixl n)))
    by (exact (nth_mid A (mid3 n b) T 0 ltac:(cbn; lia))).
  assert (N1 : nth_error c' (S (length A)) = Some (mk_jmp (i_op b)))
    by (exact (nth_mid A (mid3 n b) T 1 ltac:(cbn; lia))).
  assert (N2 : nth_error c' (S (S (length A))) = Some (Lbl (fixl n)))
    by (exact (nth_mid A (mid3 n b) T 2 ltac:(cbn; lia))).
  assert (FL : find_lbl (fixl n) c' = Some (S (S (length A)))).
  { apply (find_lbl_mid (fixl n) A (mid3 n b) T 2); [exact (not_in_app_l _ _ _ FR)|].
    cbn [mid3 mk_branch mk_jmp find_lbl]. rewrite String.eqb_refl. reflexivity. }
  assert (LEN : length A < length c) by (unfold c; rewrite !app_length; cbn; lia).
  destruct k as [|k]; [cbn [crun] in H; inversion H; lia|].
  destruct (crun_branch_inv cfg c k (length A) s fin b NB CB H) as [E R].
  assert (CB' : is_cond_branch (i_mn (mkI (inv_mn (i_mn b)) (fixl n) 2%N (Some 3%N) 2%N false)) = true)
    by (apply inv_mn_cond; exact CB).
  pose proof (crun_branch cfg c' 1 (length A) s _ N0 CB' (fixl_nonempty n)) as S0.
  cbn [i_mn i_op] in S0. rewrite (inv_mn_taken _ s CB) in S0.
  destruct (branch_taken (i_mn b) s).
  - destruct R as (t & F & C). destruct (find_lbl_shift A [Ins b] (mid3 n b) T HD FRESH _ t F) as [F' OK]. fold c' in F'.
    exists k, t, s, 2. split; [lia|]. split; [cbn [length] in *; lia|]. split; [exact C|].
    fold c'. rewrite S0. cbn [negb]. rewrite (crun_jmp cfg c' 0 _ s _ N1 E), F'. reflexivity.
  - exists k, (S (length A)), s, 2. split; [lia|]. split; [cbn [length]; lia|]. split; [exact R|].
    fold c'. rewrite S0. cbn [negb]. rewrite FL. rewrite (crun_lbl cfg c' 0 _ s _ N2). cbn [crun].
    f_equal. f_equal. unfold shift. change (length (mid3 n b)) with 3. cbn [length].
    destruct (Nat.ltb_spec (S (length A)) (length A + 1)); lia.
Qed.

Lemma enters_mid5 (cfg : config) (A T : code) (b i2 : instr) (n : N) :
  is_cond_branch (i_mn b) = true -> i_mn i2 = BEQ -> i_op i2 = i_op b ->
  ~ In (fixl n) (all_labels (A ++ [Ins b; Ins i2] ++ T)) ->
  ~ In (fixup n) (all_labels (A ++ [Ins b; Ins i2] ++ T)) ->
  enters_alike cfg A [Ins b; Ins i2] (mid5 n b) T.
Proof.
  intros CB M2 O2 FR FU k s fin H.
  assert (HD : all_labels [Ins b; Ins i2] = []) by reflexivity.
  assert (FRESH : forall l, In l (all_labels (mid5 n b)) -> ~ In l (all_labels (A ++ [Ins b; Ins i2] ++ T))).
  { intros l I. rewrite all_labels_mid5 in I. destruct I as [<-|[<-|[]]]; assumption. }
  set (c := A ++ [Ins b; Ins i2] ++ T) in *. set (c' := A ++ mid5 n b ++ T).
  assert (NB : nth_error c (length A) = Some (Ins b)).
  { unfold c. rewrite nth_error_app2 by lia. rewrite Nat.sub_diag. reflexivity. }
  assert (NB2 : nth_error c (S (length A)) = Some (Ins i2)).
  { unfold c. rewrite nth_error_app2 by lia. replace (S (length A) - length A) with 1 by lia. reflexivity. }
  assert (N0 : nth_error c' (length A) = Some (mk_branch_prot BEQ (fixup n)))
    by (exact (nth_mid A (mid5 n b) T 0 ltac:(cbn; lia))).
  assert (N1 : nth_error c' (S (length A)) = Some (mk_branch (inv_mn (i_mn b)) (fixl n)))
    by (exact (nth_mid A (mid5 n b) T 1 ltac:(cbn; lia))).
  assert (N2 : nth_error c' (S (S (length A))) = Some (Lbl (fixup n)))
    by (exact (nth_mid A (mid5 n b) T 2 ltac:(cbn; lia))).
  assert (N3 : nth_error c' (S (S (S (length A)))) = Some (mk_jmp (i_op b)))
    by (exact (nth_mid A (mid5 n b) T 3 ltac:(cbn; lia))).
  assert (N4 : nth_error c' (S (S (S (S (length A))))) = Some (Lbl (fixl n)))
    by (exact (nth_mid A (mid5 n b) T 4 ltac:(cbn; lia))).
  assert (FUL : find_lbl (fixup n) c' = Some (S (S (length A)))).
  { apply (find_lbl_mid (fixup n) A (mid5 n b) T 2); [exact (not_in_app_l _ _ _ FU)|].
    cbn [mid5 mk_branch mk_branch_prot mk_jmp find_lbl]. rewrite String.eqb_refl. reflexivity. }
  assert (FL : find_lbl (fixl n) c' = Some (S (S (S (S (length A)))))).
  { apply (find_lbl_mid (fixl n) A (mid5 n b) T 4); [exact (not_in_app_l _ _ _ FR)|].
    cbn [mid5 mk_branch mk_branch_prot mk_jmp find_lbl].
    assert (X : String.eqb (fixup n) (fixl n) = false).
    { apply String.eqb_neq. intros E. symmetry in E. exact (fixl_ne_fixup _ _ E). }
    rewrite X, String.eqb_refl. reflexivity. }
  assert (LEN : S (length A) < length c) by (unfold c; rewrite !app_length; cbn; lia).
  destruct k as [|k]; [cbn [crun] in H; inversion H; lia|].
  destruct (crun_branch_inv cfg c k (length A) s fin b NB CB H) as [E R].
  assert (CB1 : is_cond_branch (i_mn (mkI (inv_mn (i_mn b)) (fixl n) 2%N (Some 3%N) 2%N false)) = true)
    by (apply inv_mn_cond; exact CB).
  assert (CB0 : is_cond_branch (i_mn (mkI BEQ (fixup n) 2%N (Some 3%N) 2%N true)) = true) by reflexivity.
  (* the new code, line by line *)
  assert (S0 : forall j, crun cfg c' (S j) (length A) s =
               if fZ s then crun cfg c' j (S (S (length A))) s else crun cfg c' j (S (length A)) s).
  { intros j. rewrite (crun_branch cfg c' j (length A) s _ N0 CB0 (fixup_nonempty n)).
    cbn [i_mn i_op branch_taken]. rewrite FUL. reflexivity. }
  assert (S1 : forall j, crun cfg c' (S j) (S (length A)) s =
               if branch_taken (i_mn b) s then crun cfg c' j (S (S (length A))) s
               else crun cfg c' j (S (S (S (S (length A))))) s).
  { intros j. rewrite (crun_branch cfg c' j _ s _ N1 CB1 (fixl_nonempty n)).
    cbn [i_mn i_op]. rewrite (inv_mn_taken _ s CB), FL. destruct (branch_taken (i_mn b) s); reflexivity. }
  assert (S23 : forall j t, find_lbl (i_op b) c' = Some t ->
                crun cfg c' (S (S j)) (S (S (length A))) s = crun cfg c' j t s).
  { intros j t F. rewrite (crun_lbl cfg c' _ _ s _ N2), (crun_jmp cfg c' j _ s _ N3 E), F. reflexivity. }
  assert (SHD : shift (length A) (length [Ins b; Ins i2]) (length (mid5 n b)) (S (S (length A)))
                = S (S (S (S (S (length A)))))).
  { unfold shift. change (length (mid5 n b)) with 5. cbn [length].
    destruct (Nat.ltb_spec (S (S (length A))) (length A + 2)); lia. }
  destruct (branch_taken (i_mn b) s) eqn:TB.
  - (* the first branch is taken *)
    destruct R as (t & F & C). destruct (find_lbl_shift A [Ins b; Ins i2] (mid5 n b) T HD FRESH _ t F) as [F' OK]. fold c' in F'.
    destruct (fZ s) eqn:Z.
    + exists k, t, s, 3. split; [lia|]. split; [cbn [length] in *; lia|]. split; [exact C|].
      fold c'. rewrite S0, (S23 0 _ F'). reflexivity.
    + exists k, t, s, 4. split; [lia|]. split; [cbn [length] in *; lia|]. split; [exact C|].
      fold c'. rewrite S0, S1, (S23 0 _ F'). reflexivity.
  - (* not taken: the BEQ decides *)
    destruct k as [|k]; [cbn [crun] in R; inversion R; lia|].
    assert (CB2 : is_cond_branch (i_mn i2) = true) by (rewrite M2; reflexivity).
    destruct (crun_branch_inv cfg c k (S (length A)) s fin i2 NB2 CB2 R) as [_ R2].
    rewrite M2, O2 in R2. cbn [branch_taken] in R2.
    destruct (fZ s) eqn:Z.
    + destruct R2 as (t & F & C).
      destruct (find_lbl_shift A [Ins b; Ins i2] (mid5 n b) T HD FRESH _ t F) as [F' OK]. fold c' in F'.
      exists k, t, s, 3. split; [lia|]. split; [cbn [length] in *; lia|]. split; [exact C|].
      fold c'. rewrite S0, (S23 0 _ F'). reflexivity.
    + exists k, (S (S (length A))), s, 3. split; [lia|]. split; [cbn [length]; lia|]. split; [exact R2|].
      fold c'. rewrite S0, S1. rewrite (crun_lbl cfg c' 0 _ s _ N4). cbn [crun]. rewrite SHD. reflexivity.
Qed.

(** * One repair, then the iteration *)

Lemma repair_step_sound (cfg : config) (c : code) (pre : list line) (b : instr) (tail : list line)
      (n : N) (mid tail' : list line) :
  scan (length c + 2) [] c = SFar pre b tail -> repair (n + 1) b tail = (mid, tail') ->
  lab_bound c n ->
  forall s s', halts cfg c s s' -> halts cfg (rev pre ++ mid ++ tail') s s'.
Proof.
  intros SC RP LB s s' H.
  destruct (cb_step _ _ _ _ _ _ _ SC RP) as [EC [CB [[-> ->]|(i2 & -> & M2 & O2 & ->)]]].
  - assert (EC' : c = rev pre ++ [Ins b] ++ tail) by (rewrite EC; reflexivity).
    assert (FR : forall l, In l (all_labels (mid3 (n + 1) b)) -> ~ In l (all_labels (rev pre ++ [Ins b] ++ tail))).
    { intros l I. rewrite <- EC'. rewrite all_labels_mid3 in I.
      apply (lab_bound_fresh c n [fixl (n + 1)] l LB); [left; reflexivity|exact I]. }
    rewrite EC' in H.
    apply (window_gen (rev pre) [Ins b] (mid3 (n + 1) b) tail eq_refl FR cfg ltac:(discriminate)); [|exact H].
    apply enters_mid3; [exact CB|]. apply FR. rewrite all_labels_mid3. left. reflexivity.
  - assert (EC' : c = rev pre ++ [Ins b; Ins i2] ++ tail') by (rewrite EC; reflexivity).
    assert (FR : forall l, In l (all_labels (mid5 (n + 1) b)) ->
                 ~ In l (all_labels (rev pre ++ [Ins b; Ins i2] ++ tail'))).
    { intros l I. rewrite <- EC'. rewrite all_labels_mid5 in I.
      apply (lab_bound_fresh c n [fixup (n + 1); fixl (n + 1)] l LB); [right; reflexivity|exact I]. }
    rewrite EC' in H.
    apply (window_gen (rev pre) [Ins b; Ins i2] (mid5 (n + 1) b) tail' eq_refl FR cfg ltac:(discriminate));
      [|exact H].
    apply enters_mid5; try assumption; apply FR; rewrite all_labels_mid5; cbn [In]; auto.
Qed.

Lemma cb_loop_sound (cfg : config) : forall fuel c nfix c' n',
  cb_loop fuel c nfix = CbOk c' n' -> lab_bound c nfix ->
  forall s s', halts cfg c s s' -> halts cfg c' s s'.
Proof.
  induction fuel as [|f IH]; intros c nfix c' n' H LB s s' HH; [discriminate H|].
  cbn [cb_loop] in H.
  destruct (scan (length c + 2) [] c) as [|pre b tail|] eqn:Es.
  - inversion H; subst. exact HH.
  - destruct (repair (nfix + 1) b tail) as [mid tail'] eqn:Er.
    apply (IH _ _ _ _ H).
    + destruct (cb_step_gen _ _ _ _ _ _ _ Es Er) as (D & X & Hc & HD & _ & _ & HM & _ & HX & _).
      subst c. exact (lab_bound_step _ _ _ _ _ _ HD HM HX LB).
    + exact (repair_step_sound cfg c pre b tail nfix mid tail' Es Er LB s s' HH).
  - discriminate H.
Qed.

(** the repaired code halts whenever the original does, in the same state: registers, flags,
    memory *)
Theorem check_branches_sound : forall cfg c c' n s s',
  no_fix_labels c -> check_branches c = CbOk c' n ->
  halts cfg c s s' -> halts cfg c' s s'.
Proof.
  intros cfg c c' n s s' NF CBK H. unfold check_branches in CBK.
  apply (cb_loop_sound cfg _ _ _ _ _ CBK); [|exact H].
  intros l Hl. left. apply NF. exact Hl.
Qed.
Print Assumptions check_branches_sound.

(** * On [Sem.run] *)

Lemma cf_ok_branch (cfg : config) (m : mnem) (l : string) (cy : N) (alt : option N) (nb : N) (p : bool) :
  is_cond_branch m = true -> cf_ins_ok cfg (mkI m l cy alt nb p) = true.
Proof. destruct m; intros H; try discriminate H; reflexivity. Qed.

Lemma cf_ok_mid3 (cfg : config) (n : N) (b : instr) :
  is_cond_branch (i_mn b) = true -> cf_ok cfg (mid3 n b) = true.
Proof.
  intros CB. unfold cf_ok, mid3, mk_branch, mk_jmp. cbn [forallb cf_line_ok].
  rewrite (cf_ok_branch cfg _ _ _ _ _ _ (inv_mn_cond _ CB)). reflexivity.
Qed.

Lemma cf_ok_mid5 (cfg : config) (n : N) (b : instr) :
  is_cond_branch (i_mn b) = true -> cf_ok cfg (mid5 n b) = true.
Proof.
  intros CB. unfold cf_ok, mid5, mk_branch, mk_branch_prot, mk_jmp. cbn [forallb cf_line_ok].
  rewrite (cf_ok_branch cfg _ _ _ _ _ _ (inv_mn_cond _ CB)). reflexivity.
Qed.

Definition parses (c : code) : Prop :=
  forall i, In (Ins i) c -> parse_operand (i_mn i) (i_op i) <> None.

Lemma parse_takes_label (m : mnem) (l : string) : takes_label m = true -> parse_operand m l <> None.
Proof. intros T. unfold parse_operand. rewrite T. destruct (String.eqb l ""); discriminate. Qed.

Lemma parses_mid (n : N) (b : instr) (M : code) :
  is_cond_branch (i_mn b) = true -> M = mid3 n b \/ M = mid5 n b -> parses M.
Proof.
  intros CB [-> | ->] i Hi; cbn [mid3 mid5 mk_branch mk_branch_prot mk_jmp In] in Hi;
    repeat (destruct Hi as [Hi|Hi]; [inversion Hi; subst i; cbn [i_mn i_op]; apply parse_takes_label;
                                     try reflexivity; apply cond_takes_label; apply inv_mn_cond; exact CB|]);
    try discriminate Hi; destruct Hi.
Qed.

Lemma cb_loop_struct (cfg : config) : forall fuel c nfix c' n',
  cb_loop fuel c nfix = CbOk c' n' -> cf_ok cfg c = true -> parses c ->
  cf_ok cfg c' = true /\ parses c'.
Proof.
  induction fuel as [|f IH]; intros c nfix c' n' H OK PA; [discriminate H|].
  cbn [cb_loop] in H.
  destruct (scan (length c + 2) [] c) as [|pre b tail|] eqn:Es.
  - inversion H; subst. auto.
  - destruct (repair (nfix + 1) b tail) as [mid tail'] eqn:Er.
    apply (IH _ _ _ _ H).
    + destruct (cb_step_gen _ _ _ _ _ _ _ Es Er) as (D & X & Hc & _ & _ & (D' & ED) & _ & _ & _ & HM).
      destruct (cb_step _ _ _ _ _ _ _ Es Er) as [_ [CB _]].
      subst c. apply cf_ok_app in OK. destruct OK as [O1 O2]. apply cf_ok_app in O2.
      apply cf_ok_app. split; [exact O1|]. apply cf_ok_app. split; [|exact (proj2 O2)].
      destruct HM as [-> | ->]; [apply cf_ok_mid3|apply cf_ok_mid5]; exact CB.
    + destruct (cb_step_gen _ _ _ _ _ _ _ Es Er) as (D & X & Hc & _ & _ & _ & _ & _ & _ & HM).
      destruct (cb_step _ _ _ _ _ _ _ Es Er) as [_ [CB _]].
      subst c. intros i Hi. apply in_app_or in Hi. destruct Hi as [Hi|Hi].
      * apply PA. apply in_or_app. left. exact Hi.
      * apply in_app_or in Hi. destruct Hi as [Hi|Hi].
        -- exact (parses_mid (nfix + 1) b mid CB HM i Hi).
        -- apply PA. apply in_or_app. right. apply in_or_app. right. exact Hi.
  - discriminate H.
Qed.

Theorem check_branches_run : forall cfg c c' n s s',
  no_fix_labels c -> cf_ok cfg c = true -> check_branches c = CbOk c' n ->
  GenLoopsFacts.halts_to cfg c s s' -> GenLoopsFacts.halts_to cfg c' s s'.
Proof.
  intros cfg c c' n s s' NF OK CBK HT. pose proof HT as (sl & SL & _).
  destruct (cb_loop_struct cfg _ _ _ _ _ CBK OK (fun i Hi => slines_parse c sl i SL Hi)) as [OK' PA'].
  destruct (slines_some c' PA') as [sl' SL'].
  apply (halts_halts_to cfg c' sl' s s' SL' OK').
  exact (check_branches_sound cfg c c' n s s' NF CBK (halts_to_halts cfg c s s' OK HT)).
Qed.
Print Assumptions check_branches_run.

(** * The pipeline: what is emitted for a function body at -O1 *)

Theorem pipeline_sound : forall cfg c c2 n s s',
  ports cfg = [] -> bytes_ok s -> cf_ok cfg c = true -> NoDup (lbls c) -> rb_free c = true ->
  no_fix_labels c -> check_branches (fst (optimize c)) = CbOk c2 n ->
  halts cfg c s s' ->
  exists s'', halts cfg c2 s s'' /\ eq_state s'' s'.
Proof.
  intros cfg c c2 n s s' HP HB OK ND RB NF CBK H.
  destruct (optimize_cf_sound cfg c s s' HP HB OK ND RB H) as (s1 & H1 & E).
  exists s1. split; [|exact E].
  apply (check_branches_sound cfg (fst (optimize c)) c2 n s s1); [|exact CBK|exact H1].
  intros l Hl. apply NF. rewrite <- lbls_all_labels in Hl |- *.
  rewrite <- (proj2 (rws_struct cfg _ _ _ (OptFacts.optimize_rws c))). exact Hl.
Qed.
Print Assumptions pipeline_sound.

Theorem pipeline_run : forall cfg c c2 n s s',
  ports cfg = [] -> bytes_ok s -> cf_ok cfg c = true -> NoDup (lbls c) -> rb_free c = true ->
  no_fix_labels c -> check_branches (fst (optimize c)) = CbOk c2 n ->
  GenLoopsFacts.halts_to cfg c s s' ->
  exists s'', GenLoopsFacts.halts_to cfg c2 s s'' /\ eq_state s'' s'.
Proof.
  intros cfg c c2 n s s' HP HB OK ND RB NF CBK HT.
  destruct (optimize_cf_run cfg c s s' HP HB OK ND RB HT) as (s1 & H1 & E).
  exists s1. split; [|exact E].
  apply (check_branches_run cfg (fst (optimize c)) c2 n s s1); [| |exact CBK|exact H1].
  - intros l Hl. apply NF. rewrite <- lbls_all_labels in Hl |- *.
    rewrite <- (proj2 (rws_struct cfg _ _ _ (OptFacts.optimize_rws c))). exact Hl.
  - exact (proj1 (rws_struct cfg _ _ _ (OptFacts.optimize_rws c)) OK).
Qed.
Print Assumptions pipeline_run.

(** * Non-vacuity: far branches really repaired, both versions executed *)

#[local] Open Scope string_scope.
#[local] Open Scope list_scope.

(** a forward branch over 65 "INC w" (130 bytes): repaired with the three-line shape; the branch
    is not taken here (A = 9), the 65 increments are executed, at shifted positions *)
Definition cb_code : code :=
  [sim_ins LDA "w"; sim_ins BEQ "far"] ++ repeat (sim_ins INC "w") 65 ++ [Lbl "far"; sim_ins LDX "#2"].

Definition cb_of (c : code) : code := match check_branches c with CbOk c' _ => c' | _ => [] end.

Example cb_code_repaired :
  exists c', check_branches cb_code = CbOk c' 1%N /\ length cb_code = 69 /\ length c' = 71 /\
             firstn 5 c' = [sim_ins LDA "w"; mk_branch BNE ".fix1"; mk_jmp "far"; Lbl ".fix1"; sim_ins INC "w"].
Proof. vm_compute. eexists. repeat split; reflexivity. Qed.

Example check_branches_sound_example :
  no_fix_labels cb_code /\
  exists c' s', check_branches cb_code = CbOk c' 1%N /\
                halts sim_cfg cb_code sim_state s' /\ halts sim_cfg c' sim_state s' /\
                rA s' = 9%Z /\ rX s' = 2%Z /\ mget (mem s') 128 = 74%Z.
Proof.
  assert (NF : no_fix_labels cb_code).
  { intros l Hl. vm_compute in Hl. destruct Hl as [<-|[]]. reflexivity. }
  split; [exact NF|].
  destruct (check_branches cb_code) as [c' n| |] eqn:CBK; try (vm_compute in CBK; discriminate CBK).
  assert (n = 1%N) by (vm_compute in CBK; inversion CBK; reflexivity). subst n.
  destruct (crun sim_cfg cb_code 69 0 sim_state) as [[pc s']|] eqn:E; [|vm_compute in E; discriminate E].
  assert (PC : pc = length cb_code) by (vm_compute in E; inversion E; reflexivity). subst pc.
  assert (H : halts sim_cfg cb_code sim_state s') by (exists 69; exact E).
  exists c', s'. split; [reflexivity|]. split; [exact H|].
  split; [exact (check_branches_sound sim_cfg cb_code c' 1%N sim_state s' NF CBK H)|].
  vm_compute in E. inversion E. vm_compute. repeat split; reflexivity.
Qed.
Print Assumptions check_branches_sound_example.

(** the pair "BCC far; BEQ far" ("lower or equal"): repaired with the five-line shape, the BEQ
    protected; BCC is taken here (1 < 2) *)
Definition cb_pair_code : code :=
  [sim_ins LDA "#1"; sim_ins CMP "#2"; sim_ins BCC "far"; sim_ins BEQ "far"]
  ++ repeat (sim_ins INC "w") 65 ++ [Lbl "far"; sim_ins LDX "#2"].

Example cb_pair_example :
  exists c' s', check_branches cb_pair_code = CbOk c' 1%N /\
    firstn 7 c' = [sim_ins LDA "#1"; sim_ins CMP "#2"; mk_branch_prot BEQ ".fixup1"; mk_branch BCS ".fix1";
                   Lbl ".fixup1"; mk_jmp "far"; Lbl ".fix1"] /\
    halts sim_cfg cb_pair_code sim_state s' /\ halts sim_cfg c' sim_state s' /\
    rX s' = 2%Z /\ mget (mem s') 128 = 9%Z.
Proof.
  assert (NF : no_fix_labels cb_pair_code).
  { intros l Hl. vm_compute in Hl. destruct Hl as [<-|[]]. reflexivity. }
  destruct (check_branches cb_pair_code) as [c' n| |] eqn:CBK; try (vm_compute in CBK; discriminate CBK).
  assert (n = 1%N) by (vm_compute in CBK; inversion CBK; reflexivity). subst n.
  destruct (crun sim_cfg cb_pair_code 5 0 sim_state) as [[pc s']|] eqn:E; [|vm_compute in E; discriminate E].
  assert (PC : pc = length cb_pair_code) by (vm_compute in E; inversion E; reflexivity). subst pc.
  assert (H : halts sim_cfg cb_pair_code sim_state s') by (exists 5; exact E).
  exists c', s'. split; [reflexivity|]. split; [vm_compute in CBK; inversion CBK; reflexivity|].
  split; [exact H|].
  split; [exact (check_branches_sound sim_cfg cb_pair_code c' 1%N sim_state s' NF CBK H)|].
  vm_compute in E. inversion E. vm_compute. split; reflexivity.
Qed.

(** the pipeline: [optimize] removes two instructions, [check_branches] repairs the branch *)
Definition pipe_code : code :=
  [sim_ins LDA "#0"; sim_ins STA "w"; sim_ins LDA "w"; sim_ins BNE "far"]
  ++ repeat (sim_ins INC "w") 65 ++ [Lbl "far"; sim_ins LDX "#2"; sim_ins LDX "#2"].

Example pipeline_sound_example :
  snd (optimize pipe_code) = 2%N /\
  exists c2 s' s'', check_branches (fst (optimize pipe_code)) = CbOk c2 1%N /\ length c2 = 74 /\
    halts sim_cfg pipe_code sim_state s' /\ halts sim_cfg c2 sim_state s'' /\ eq_state s'' s' /\
    rX s' = 2%Z /\ mget (mem s') 128 = 65%Z.
Proof.
  split; [vm_compute; reflexivity|].
  assert (OK : cf_ok sim_cfg pipe_code = true) by (vm_compute; reflexivity).
  assert (ND : NoDup (lbls pipe_code)) by (apply NoDup_compute; vm_compute; reflexivity).
  assert (RB : rb_free pipe_code = true) by (vm_compute; reflexivity).
  assert (NF : no_fix_labels pipe_code).
  { intros l Hl. vm_compute in Hl. destruct Hl as [<-|[]]. reflexivity. }
  destruct (check_branches (fst (optimize pipe_code))) as [c2 n| |] eqn:CBK;
    try (vm_compute in CBK; discriminate CBK).
  assert (n = 1%N) by (vm_compute in CBK; inversion CBK; reflexivity). subst n.
  destruct (crun sim_cfg pipe_code 72 0 sim_state) as [[pc s']|] eqn:E; [|vm_compute in E; discriminate E].
  assert (PC : pc = length pipe_code) by (vm_compute in E; inversion E; reflexivity). subst pc.
  assert (H : halts sim_cfg pipe_code sim_state s') by (exists 72; exact E).
  destruct (pipeline_sound sim_cfg pipe_code c2 1%N sim_state s' eq_refl sim_state_bytes OK ND RB NF CBK H)
    as (s'' & H2 & Q).
  exists c2, s', s''. split; [reflexivity|]. split; [vm_compute in CBK; inversion CBK; reflexivity|].
  split; [exact H|]. split; [exact H2|]. split; [exact Q|].
  vm_compute in E. inversion E. vm_compute. split; reflexivity.
Qed.
Print Assumptions pipeline_sound_example.
