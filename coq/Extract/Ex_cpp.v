(** Extraction of the preprocessor model (engine "cpp"). *)
From Coq Require Import ExtrOcamlBasic ExtrOcamlString.
From CC Require Import Base.Str Model.Cpp Model.StrLit Model.Calc.
Extraction Language OCaml.
Extraction "../build/ocaml/cpp_model.ml" run_cpp replace_all evaluate compile_quoted_string decode quoted_character calc.
