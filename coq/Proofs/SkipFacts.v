(** C07, the repaired behaviour: the text and the directives of a group that is not selected
    raise no errors.  An unterminated string literal, an unknown directive and a missing
    #if / #elif expression are errors only where the text is selected (resp. where the
    expression decides something).

    [scan_parts] (Model/ScanSpec.v) gives what the scanner hands to the line processor whichever
    way the scan of the line ended: with [ScanOk], or at a string literal that never closes
    ([ScanUnterminated], which carries the text that precedes the opening quote). *)
From Coq Require Import String Ascii List Bool Arith NArith Lia.
From CC Require Import Base.Str Model.Cpp Model.CondSpec Model.ScanSpec Proofs.CondFacts.
Import ListNotations.
Open Scope list_scope.
Open Scope string_scope.

(** ** vocabulary *)

(** the directives that are dispatched on the trimmed scanner output BEFORE macro substitution *)
Definition early_directive (t : string) : bool :=
  starts_with "#ifdef" t || starts_with "#ifndef" t || starts_with "#undef" t || starts_with "#define" t.

(** the directive names recognised after macro substitution *)
Definition known_directive (name : string) : bool :=
  existsb (String.eqb name) ["#include"; "#if"; "#elif"; "#else"; "#endif"; "#error"].

(** the scanner result [r] is used by the line processor, in conditional state [st], with these
    parts: always for [ScanOk]; for [ScanUnterminated] only when [st] is not Active *)
Definition scan_gives (st : cstate) (r : scan_res) (out : string) (ins : bool) (sc : scan_state) : Prop :=
  r = ScanOk out ins sc \/ (st <> Active /\ r = ScanUnterminated out ins sc).

Lemma scan_gives_not_active : forall st r out ins sc,
    st <> Active -> scan_parts r = (out, ins, sc) -> scan_gives st r out ins sc.
Proof.
  intros st r out ins sc Hst Hp. destruct r as [o i s|o i s]; cbn [scan_parts] in Hp; inversion Hp; subst.
  - left. reflexivity.
  - right. split; [exact Hst|reflexivity].
Qed.

Lemma hash_prefix_false : forall z t, starts_with "#" t = false -> starts_with (String "#" z) t = false.
Proof. intros z t Hh. exact (starts_with_prefix_false "#" z t Hh). Qed.

Lemma early_directive_hash : forall t, starts_with "#" t = false -> early_directive t = false.
Proof.
  intros t Hh. unfold early_directive.
  rewrite (hash_prefix_false "ifdef" _ Hh), (hash_prefix_false "ifndef" _ Hh),
    (hash_prefix_false "undef" _ Hh), (hash_prefix_false "define" _ Hh).
  reflexivity.
Qed.

(** ** the scanner result and [line_step] *)

(** the line goes on with the scanner's parts *)
Lemma line_step_scan_gives : forall rec fs fname inc asm p line buf out ins sc,
    scan_gives (p_state p) (scan_line asm buf (c_scan (p_ctx p))) out ins sc ->
    line_step rec fs fname inc asm p line buf = line_body rec fs fname inc p line buf out ins sc.
Proof.
  intros rec fs fname inc asm p line buf out ins sc [Hs|[Hst Hs]]; unfold line_step; rewrite Hs.
  - reflexivity.
  - rewrite (not_active _ Hst). reflexivity.
Qed.

Lemma line_step_not_active : forall rec fs fname inc asm p line buf out ins sc,
    p_state p <> Active ->
    scan_parts (scan_line asm buf (c_scan (p_ctx p))) = (out, ins, sc) ->
    line_step rec fs fname inc asm p line buf = line_body rec fs fname inc p line buf out ins sc.
Proof.
  intros rec fs fname inc asm p line buf out ins sc Hst Hp.
  apply line_step_scan_gives, scan_gives_not_active; assumption.
Qed.

(** an unterminated string literal in SELECTED text is (still) an error, whatever else the line
    contains *)
Theorem unterminated_string_selected_is_error : forall rec fs fname inc asm p line buf out ins sc,
    p_state p = Active ->
    scan_line asm buf (c_scan (p_ctx p)) = ScanUnterminated out ins sc ->
    line_step rec fs fname inc asm p line buf = PErr (mkErr ESyntax fname line inc "Unterminated string").
Proof.
  intros rec fs fname inc asm p line buf out ins sc Hst Hs.
  unfold line_step. rewrite Hs, Hst. reflexivity.
Qed.
Print Assumptions unterminated_string_selected_is_error.

(** ... and it is the only way [line_step] gives this answer from the scanner: in a state that
    is not Active an unterminated literal alone never stops the line (see below) *)

(** ** text of a group that is not selected never raises an error *)

(** THE REPAIR.  In a state that is not Active, a line whose scanner output is not a directive
    line -- its trimmed text does not start with "#", before and after macro substitution (the
    model, like the code, looks for "#ifdef/#ifndef/#undef/#define" before substitution and for
    the other directives after it) -- is processed without error and leaves everything but the
    scanner state as it is: output text, line table, macros, conditional state and stack.
    Whatever the line contains: string literals closed or not, comments closed or not, any
    scanner state (in particular no hypothesis about an unfinished block comment is needed: a
    line that is entirely inside a comment has [ins = false] and is dropped as well). *)
Theorem skipped_text_never_errors : forall rec fs fname inc asm p line buf out ins sc,
    p_state p <> Active ->
    scan_parts (scan_line asm buf (c_scan (p_ctx p))) = (out, ins, sc) ->
    starts_with "#" (trim out) = false ->
    starts_with "#" (trim (replace_all_c (c_macros (p_ctx p)) out)) = false ->
    line_step rec fs fname inc asm p line buf = POk (set_scan p sc).
Proof.
  intros rec fs fname inc asm p line buf out ins sc Hst Hp Hh Hh2.
  rewrite (line_step_not_active rec fs fname inc asm p line buf out ins sc Hst Hp).
  unfold line_body. cbv zeta.
  destruct ins; cbn [negb]; [|reflexivity].
  change (p_state (set_scan p sc)) with (p_state p).
  change (c_macros (p_ctx (set_scan p sc))) with (c_macros (p_ctx p)).
  rewrite !(hash_blanks_nohash out Hh).
  rewrite (hash_prefix_false "ifdef" _ Hh), (hash_prefix_false "ifndef" _ Hh),
    (hash_prefix_false "undef" _ Hh), (hash_prefix_false "define" _ Hh).
  rewrite Hh2, (not_active _ Hst). reflexivity.
Qed.
Print Assumptions skipped_text_never_errors.

(** the same, spelt out: no error, and only the scanner state may have changed *)
Corollary skipped_text_keeps_everything : forall rec fs fname inc asm p line buf out ins sc,
    p_state p <> Active ->
    scan_parts (scan_line asm buf (c_scan (p_ctx p))) = (out, ins, sc) ->
    starts_with "#" (trim out) = false ->
    starts_with "#" (trim (replace_all_c (c_macros (p_ctx p)) out)) = false ->
    exists p', line_step rec fs fname inc asm p line buf = POk p'
               /\ p_out p' = p_out p /\ p_map p' = p_map p
               /\ c_macros (p_ctx p') = c_macros (p_ctx p)
               /\ p_state p' = p_state p /\ p_stack p' = p_stack p
               /\ c_scan (p_ctx p') = sc.
Proof.
  intros rec fs fname inc asm p line buf out ins sc Hst Hp Hh Hh2.
  exists (set_scan p sc). split; [apply (skipped_text_never_errors _ _ _ _ _ _ _ _ out ins); assumption|].
  repeat split.
Qed.
Print Assumptions skipped_text_keeps_everything.

(** with no macro defined substitution is the identity: one hypothesis is enough *)
Corollary skipped_text_never_errors_no_macros : forall rec fs fname inc asm p line buf out ins sc,
    p_state p <> Active ->
    c_macros (p_ctx p) = [] ->
    scan_parts (scan_line asm buf (c_scan (p_ctx p))) = (out, ins, sc) ->
    starts_with "#" (trim out) = false ->
    line_step rec fs fname inc asm p line buf = POk (set_scan p sc).
Proof.
  intros rec fs fname inc asm p line buf out ins sc Hst Hms Hp Hh.
  apply (skipped_text_never_errors _ _ _ _ _ _ _ _ out ins); try assumption.
  rewrite Hms, replace_all_c_nil. exact Hh.
Qed.
Print Assumptions skipped_text_never_errors_no_macros.

(** the second hypothesis of [skipped_text_never_errors] cannot be dropped: macro substitution
    runs on skipped lines too and may produce a directive ([inactive_not_inert_with_macros] in
    Proofs/CondFacts.v: "x" defined as "#endif" closes the group) *)

(** ** unknown directives *)

(** ([hash_blanks out]: the scanned text once the blanks between a leading '#' and the directive
    name are removed; [directive_name_arg]: '#' and the letters that follow, then the argument.)
    In a state that is not Active, a line that is none of the directives the machine knows
    (not one of the four early ones before substitution, and after substitution either no
    directive at all or a directive with another name: #pragma, #warning, #line ...) is
    ignored.  This contains [skipped_text_never_errors]. *)
Theorem skipped_unknown_directive_ignored : forall rec fs fname inc asm p line buf out ins sc,
    p_state p <> Active ->
    scan_parts (scan_line asm buf (c_scan (p_ctx p))) = (out, ins, sc) ->
    early_directive (trim (hash_blanks out)) = false ->
    known_directive (fst (directive_name_arg (trim (replace_all_c (c_macros (p_ctx p)) (hash_blanks out))))) = false ->
    line_step rec fs fname inc asm p line buf = POk (set_scan p sc).
Proof.
  intros rec fs fname inc asm p line buf out ins sc Hst Hp He Hk.
  rewrite (line_step_not_active rec fs fname inc asm p line buf out ins sc Hst Hp).
  unfold line_body. cbv zeta.
  destruct ins; cbn [negb]; [|reflexivity].
  change (p_state (set_scan p sc)) with (p_state p).
  change (c_macros (p_ctx (set_scan p sc))) with (c_macros (p_ctx p)).
  unfold early_directive in He.
  apply orb_false_iff in He. destruct He as [He H4].
  apply orb_false_iff in He. destruct He as [He H3].
  apply orb_false_iff in He. destruct He as [H1 H2].
  rewrite H1, H2, H3, H4.
  destruct (starts_with "#" (trim (replace_all_c (c_macros (p_ctx p)) (hash_blanks out)))).
  2:{ rewrite (not_active _ Hst). reflexivity. }
  destruct (directive_name_arg (trim (replace_all_c (c_macros (p_ctx p)) (hash_blanks out)))) as [name arg].
  cbn [fst] in Hk. unfold known_directive in Hk. cbn [existsb] in Hk.
  repeat (apply orb_false_iff in Hk; destruct Hk as [?Hn Hk]).
  rewrite Hn, Hn0, Hn1, Hn2, Hn3, Hn4, (not_active _ Hst). reflexivity.
Qed.
Print Assumptions skipped_unknown_directive_ignored.

(** in selected text an unknown directive is (still) an error *)
Theorem unknown_directive_selected_is_error : forall rec fs fname inc asm p line buf out sc,
    p_state p = Active ->
    scan_line asm buf (c_scan (p_ctx p)) = ScanOk out true sc ->
    early_directive (trim (hash_blanks out)) = false ->
    starts_with "#" (trim (replace_all_c (c_macros (p_ctx p)) (hash_blanks out))) = true ->
    known_directive (fst (directive_name_arg (trim (replace_all_c (c_macros (p_ctx p)) (hash_blanks out))))) = false ->
    line_step rec fs fname inc asm p line buf
    = PErr (mkErr ESyntax fname line inc "Unrecognised preprocessor directive").
Proof.
  intros rec fs fname inc asm p line buf out sc Hst Hs He Hh Hk.
  unfold line_step. rewrite Hs. unfold line_body. cbv zeta. cbn [negb].
  change (p_state (set_scan p sc)) with (p_state p).
  change (c_macros (p_ctx (set_scan p sc))) with (c_macros (p_ctx p)).
  unfold early_directive in He.
  apply orb_false_iff in He. destruct He as [He H4].
  apply orb_false_iff in He. destruct He as [He H3].
  apply orb_false_iff in He. destruct He as [H1 H2].
  rewrite H1, H2, H3, H4, Hh.
  destruct (directive_name_arg (trim (replace_all_c (c_macros (p_ctx p)) (hash_blanks out)))) as [name arg].
  cbn [fst] in Hk. unfold known_directive in Hk. cbn [existsb] in Hk.
  repeat (apply orb_false_iff in Hk; destruct Hk as [?Hn Hk]).
  rewrite Hn, Hn0, Hn1, Hn2, Hn3, Hn4, Hst. reflexivity.
Qed.
Print Assumptions unknown_directive_selected_is_error.

(** ** #if and #elif without an expression *)

(** a trimmed line whose directive name is [name] starts with [name] *)
Lemma split_once_app : forall pat s l r, split_once pat s = Some (l, r) -> s = l ++ pat ++ r.
Proof.
  intros pat. induction s as [|a s IHs]; intros l r Hs; rewrite split_once_eq in Hs.
  - destruct (starts_with pat "") eqn:Hp; [|discriminate].
    inversion Hs; subst. destruct (starts_with_inv _ _ Hp) as [x Hx].
    destruct pat; [reflexivity|discriminate].
  - destruct (starts_with pat (String a s)) eqn:Hp.
    + inversion Hs; subst. destruct (starts_with_inv _ _ Hp) as [x Hx].
      rewrite Hx at 2. clear Hp. revert Hx. generalize (String a s). intros u Hu. subst u.
      cbn [append]. f_equal. clear. induction pat as [|c pat IH]; [reflexivity|exact IH].
    + destruct (split_once pat s) as [[b t]|] eqn:Hs2; [|discriminate].
      inversion Hs; subst. cbn [append]. rewrite <- (IHs b r eq_refl). reflexivity.
Qed.

Lemma directive_name_hash : forall t z arg,
    directive_name_arg t = (String "#" z, arg) -> starts_with "#" t = true.
Proof.
  intros t z arg Hd. unfold directive_name_arg in Hd.
  assert (Hb : exists y, t = before "//" t ++ y).
  { unfold before. destruct (split_once "//" t) as [[b r]|] eqn:Hs.
    - apply split_once_app in Hs. exists ("//" ++ r). exact Hs.
    - exists "". symmetry. apply app_empty_r. }
  destruct Hb as [y Hy].
  destruct (before "//" t) as [|h r]; [discriminate|].
  cbv beta iota zeta in Hd. destruct (take_alpha r) as [w rest]. inversion Hd; subst h.
  rewrite Hy. reflexivity.
Qed.

(** #if in a state that is not Active: the state is pushed and becomes Skip, whether an
    expression follows or not ([arg = None]: no error "Expected expression after `#if`") and
    whatever the expression is (it is not evaluated) *)
Theorem skipped_if_pushes_skip : forall rec fs fname inc asm p line buf out sc arg,
    p_state p <> Active ->
    scan_parts (scan_line asm buf (c_scan (p_ctx p))) = (out, true, sc) ->
    early_directive (trim (hash_blanks out)) = false ->
    directive_name_arg (trim (replace_all_c (c_macros (p_ctx p)) (hash_blanks out))) = ("#if", arg) ->
    line_step rec fs fname inc asm p line buf
    = POk (set_state (set_scan p sc) Skip (p_state p :: p_stack p)).
Proof.
  intros rec fs fname inc asm p line buf out sc arg Hst Hp He Hd.
  rewrite (line_step_not_active rec fs fname inc asm p line buf out true sc Hst Hp).
  unfold line_body. cbv zeta. cbn [negb].
  change (p_state (set_scan p sc)) with (p_state p).
  change (c_macros (p_ctx (set_scan p sc))) with (c_macros (p_ctx p)).
  change (p_stack (set_scan p sc)) with (p_stack p).
  unfold early_directive in He.
  apply orb_false_iff in He. destruct He as [He H4].
  apply orb_false_iff in He. destruct He as [He H3].
  apply orb_false_iff in He. destruct He as [H1 H2].
  rewrite H1, H2, H3, H4, (directive_name_hash _ _ _ Hd), Hd.
  cbn [String.eqb Ascii.eqb Bool.eqb andb].
  rewrite (not_active _ Hst). reflexivity.
Qed.
Print Assumptions skipped_if_pushes_skip.

(** the instance asked for *)
Corollary skipped_if_without_expression : forall rec fs fname inc asm p line buf out sc,
    p_state p <> Active ->
    scan_parts (scan_line asm buf (c_scan (p_ctx p))) = (out, true, sc) ->
    early_directive (trim (hash_blanks out)) = false ->
    directive_name_arg (trim (replace_all_c (c_macros (p_ctx p)) (hash_blanks out))) = ("#if", None) ->
    line_step rec fs fname inc asm p line buf
    = POk (set_state (set_scan p sc) Skip (p_state p :: p_stack p)).
Proof. intros. eapply skipped_if_pushes_skip; eassumption. Qed.
Print Assumptions skipped_if_without_expression.

(** where the expression decides (state Active) its absence is (still) an error *)
Theorem if_without_expression_selected_is_error : forall rec fs fname inc asm p line buf out sc,
    p_state p = Active ->
    scan_line asm buf (c_scan (p_ctx p)) = ScanOk out true sc ->
    early_directive (trim (hash_blanks out)) = false ->
    directive_name_arg (trim (replace_all_c (c_macros (p_ctx p)) (hash_blanks out))) = ("#if", None) ->
    line_step rec fs fname inc asm p line buf
    = PErr (mkErr ESyntax fname line inc "Expected expression after `#if`").
Proof.
  intros rec fs fname inc asm p line buf out sc Hst Hs He Hd.
  unfold line_step. rewrite Hs. unfold line_body. cbv zeta. cbn [negb].
  change (p_state (set_scan p sc)) with (p_state p).
  change (c_macros (p_ctx (set_scan p sc))) with (c_macros (p_ctx p)).
  unfold early_directive in He.
  apply orb_false_iff in He. destruct He as [He H4].
  apply orb_false_iff in He. destruct He as [He H3].
  apply orb_false_iff in He. destruct He as [H1 H2].
  rewrite H1, H2, H3, H4, (directive_name_hash _ _ _ Hd), Hd.
  cbn [String.eqb Ascii.eqb Bool.eqb andb].
  rewrite Hst. reflexivity.
Qed.
Print Assumptions if_without_expression_selected_is_error.

(** #elif in a state that is not Inactive (a branch of the group was already taken, or the whole
    group is skipped): the state becomes Skip, the stack is kept, whether an expression follows or
    not ([arg = None]: no error "Expected expression after `#elif`") and whatever it is.
    The state may be Active here, where an unterminated literal is an error: hence [scan_gives]
    ([ScanOk], or [ScanUnterminated] in a state that is not Active). *)
Theorem elif_not_inactive_skips : forall rec fs fname inc asm p line buf out sc arg,
    p_state p <> Inactive ->
    scan_gives (p_state p) (scan_line asm buf (c_scan (p_ctx p))) out true sc ->
    early_directive (trim (hash_blanks out)) = false ->
    directive_name_arg (trim (replace_all_c (c_macros (p_ctx p)) (hash_blanks out))) = ("#elif", arg) ->
    line_step rec fs fname inc asm p line buf = POk (set_state (set_scan p sc) Skip (p_stack p)).
Proof.
  intros rec fs fname inc asm p line buf out sc arg Hst Hg He Hd.
  rewrite (line_step_scan_gives rec fs fname inc asm p line buf out true sc Hg).
  unfold line_body. cbv zeta. cbn [negb].
  change (p_state (set_scan p sc)) with (p_state p).
  change (c_macros (p_ctx (set_scan p sc))) with (c_macros (p_ctx p)).
  change (p_stack (set_scan p sc)) with (p_stack p).
  unfold early_directive in He.
  apply orb_false_iff in He. destruct He as [He H4].
  apply orb_false_iff in He. destruct He as [He H3].
  apply orb_false_iff in He. destruct He as [H1 H2].
  rewrite H1, H2, H3, H4, (directive_name_hash _ _ _ Hd), Hd.
  cbn [String.eqb Ascii.eqb Bool.eqb andb].
  assert (Hni : cstate_eqb (p_state p) Inactive = false)
    by (destruct (p_state p); try reflexivity; contradiction).
  rewrite Hni. reflexivity.
Qed.
Print Assumptions elif_not_inactive_skips.

(** the instance asked for, in a skipped group *)
Corollary skipped_elif_without_expression : forall rec fs fname inc asm p line buf out sc,
    p_state p = Skip ->
    scan_parts (scan_line asm buf (c_scan (p_ctx p))) = (out, true, sc) ->
    early_directive (trim (hash_blanks out)) = false ->
    directive_name_arg (trim (replace_all_c (c_macros (p_ctx p)) (hash_blanks out))) = ("#elif", None) ->
    line_step rec fs fname inc asm p line buf = POk (set_state (set_scan p sc) Skip (p_stack p)).
Proof.
  intros rec fs fname inc asm p line buf out sc Hst Hp He Hd.
  apply (elif_not_inactive_skips rec fs fname inc asm p line buf out sc None); try assumption.
  - rewrite Hst. discriminate.
  - apply scan_gives_not_active; [rewrite Hst; discriminate|exact Hp].
Qed.
Print Assumptions skipped_elif_without_expression.

(** where the expression decides (state Inactive: no branch taken yet) its absence is (still)
    an error *)
Theorem elif_without_expression_inactive_is_error : forall rec fs fname inc asm p line buf out sc,
    p_state p = Inactive ->
    scan_parts (scan_line asm buf (c_scan (p_ctx p))) = (out, true, sc) ->
    early_directive (trim (hash_blanks out)) = false ->
    directive_name_arg (trim (replace_all_c (c_macros (p_ctx p)) (hash_blanks out))) = ("#elif", None) ->
    line_step rec fs fname inc asm p line buf
    = PErr (mkErr ESyntax fname line inc "Expected expression after `#elif`").
Proof.
  intros rec fs fname inc asm p line buf out sc Hst Hp He Hd.
  assert (Hna : p_state p <> Active) by (rewrite Hst; discriminate).
  rewrite (line_step_not_active rec fs fname inc asm p line buf out true sc Hna Hp).
  unfold line_body. cbv zeta. cbn [negb].
  change (p_state (set_scan p sc)) with (p_state p).
  change (c_macros (p_ctx (set_scan p sc))) with (c_macros (p_ctx p)).
  unfold early_directive in He.
  apply orb_false_iff in He. destruct He as [He H4].
  apply orb_false_iff in He. destruct He as [He H3].
  apply orb_false_iff in He. destruct He as [H1 H2].
  rewrite H1, H2, H3, H4, (directive_name_hash _ _ _ Hd), Hd.
  cbn [String.eqb Ascii.eqb Bool.eqb andb].
  rewrite Hst. reflexivity.
Qed.
Print Assumptions elif_without_expression_inactive_is_error.

(** ** examples *)

(** the report: an apostrophe-and-quote line and a directive of another compiler inside "#if 0" *)
Example skipped_group_example :
  match run_cpp [] "m.c" [] (map (fun l => l ++ nl)
        ["#if 0"; "this isn't ""closed"; "#pragma once"; "#endif"; "ok"]) with
  | POk p => p_out p = "ok" ++ nl /\ p_map p = [("m.c", 5%N, None)] /\ p_state p = Active /\ p_stack p = []
             /\ c_scan (p_ctx p) = mkScan false 0 []
  | PErr _ => False
  end.
Proof. vm_compute. repeat split; reflexivity. Qed.

(** the same lines in selected text: the error is still there, on line 1 *)
Example unterminated_selected_example :
  run_cpp [] "m.c" [] (map (fun l => l ++ nl) ["this isn't ""closed"; "#pragma once"; "ok"])
  = PErr (mkErr ESyntax "m.c" 1 None "Unterminated string")
  /\ run_cpp [] "m.c" [] (map (fun l => l ++ nl) ["#pragma once"; "ok"])
     = PErr (mkErr ESyntax "m.c" 1 None "Unrecognised preprocessor directive").
Proof. vm_compute. split; reflexivity. Qed.

(** #if / #elif without expression (directly, or through a macro with an empty body) inside a
    group that is not selected; a directive that follows an unterminated literal's line start
    still counts (the #endif below closes the group although a quote follows it) *)
Example skipped_if_elif_example :
  match run_cpp [] "m.c" [("E", "")] (map (fun l => l ++ nl)
        ["#if 0"; "#if E"; "x"; "#elif"; "y"; "#endif"; "#endif ""open"; "ok"]) with
  | POk p => p_out p = "ok" ++ nl /\ p_state p = Active /\ p_stack p = []
  | PErr _ => False
  end.
Proof. vm_compute. repeat split; reflexivity. Qed.

(** ... while the same directives are errors where the expression decides *)
Example if_elif_selected_example :
  run_cpp [] "m.c" [("E", "")] (map (fun l => l ++ nl) ["#if E"; "x"; "#endif"])
  = PErr (mkErr ESyntax "m.c" 1 None "Expected expression after `#if`")
  /\ run_cpp [] "m.c" [] (map (fun l => l ++ nl) ["#if 0"; "x"; "#elif"; "y"; "#endif"])
     = PErr (mkErr ESyntax "m.c" 3 None "Expected expression after `#elif`")
  /\ match run_cpp [] "m.c" [] (map (fun l => l ++ nl) ["#if 1"; "x"; "#elif"; "y"; "#endif"]) with
     | POk p => p_out p = "x" ++ nl
     | PErr _ => False
     end.
Proof. vm_compute. repeat split; reflexivity. Qed.

(** what the scanner hands over at an unterminated literal: the text before the quote; literals
    closed earlier on the line stay recorded *)
Example scan_unterminated_parts :
  scan_line false ("#endif ""open" ++ nl) (mkScan false 0 []) = ScanUnterminated "#endif " true (mkScan false 0 [])
  /\ scan_line false ("a ""b"" c ""d" ++ nl) (mkScan false 3 []) = ScanUnterminated "a @3@ c " true (mkScan false 4 ["b"]).
Proof. vm_compute. split; reflexivity. Qed.

(** ** blanks after the '#', and directive names that end at the first non-letter *)

(** "# else" is #else: the group that was not selected ends there *)
Example blank_after_hash_else_example :
  match run_cpp [] "m.c" [] (map (fun l => l ++ nl) ["#if 0"; "A"; "# else"; "B"; "#endif"; "tail"]) with
  | POk p => p_out p = "B" ++ nl ++ "tail" ++ nl /\ p_state p = Active /\ p_stack p = []
  | PErr _ => False
  end.
Proof. vm_compute. repeat split; reflexivity. Qed.

(** "#if!FOO" is an #if: inside a group that is not selected it counts as an opener, and its
    #endif closes it, not the outer group *)
Example nested_if_bang_example :
  match run_cpp [] "m.c" [] (map (fun l => l ++ nl) ["#if 0"; "#if!FOO"; "x"; "#endif"; "#endif"; "tail"]) with
  | POk p => p_out p = "tail" ++ nl /\ p_state p = Active /\ p_stack p = []
  | PErr _ => False
  end.
Proof. vm_compute. repeat split; reflexivity. Qed.

(** "#if!N" with N defined as 1 is "#if !1": the else branch is selected *)
Example if_bang_defined_example :
  match run_cpp [] "m.c" [("N", "1")] (map (fun l => l ++ nl) ["#if!N"; "a"; "#else"; "b"; "#endif"]) with
  | POk p => p_out p = "b" ++ nl
  | PErr _ => False
  end
  /\ match run_cpp [] "m.c" [("N", "0")] (map (fun l => l ++ nl) ["#if!N"; "a"; "#else"; "b"; "#endif"]) with
     | POk p => p_out p = "a" ++ nl
     | PErr _ => False
     end
  (* "#if(A)" is #if with the argument "(A)", which reaches the evaluator (it knows no
     parentheses; the line used to be an unknown directive) *)
  /\ run_cpp [] "m.c" [("A", "1")] (map (fun l => l ++ nl) ["#if(A)"; "a"; "#endif"])
     = PErr (mkErr ESyntax "m.c" 1 None "Expected term, found nothing").
Proof. vm_compute. repeat split; reflexivity. Qed.
