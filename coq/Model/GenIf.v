(** COMPOSITIONAL control-flow templates of the code generator at -O0, 8-bit unsigned conditions:
    [if (a OP b) S;], [if (a OP b) S1; else S2;], [while (a OP b) S;] for OP in == != < >= > <=,
    the right operand a variable or a constant, the statements S ARBITRARY code.

    The condition is lowered to: load of the left operand, CMP with the right operand, and the
    branch skeleton that jumps to the label given when the condition is FALSE.  The skeleton is
    exactly GenTables' [branch_seq (negate_op o) false lbl here] (the generator negates the
    operator and calls [generate_branch_instruction]); the listing confirms it:
      ==  : BNE lbl            (negated: !=)         <   : BCS lbl           (negated: >=)
      !=  : BEQ lbl            (negated: ==)         >=  : BCC lbl           (negated: <)
      >   : BCC lbl; BEQ lbl   (negated: <=)
      <=  : BEQ here (protected); BCS lbl; here:     (negated: >, with the fresh ".ifhereN" label)

    [.._at] are the sequences as functions of the labels themselves (what the theorems of
    Proofs/GenIfFacts.v are about: they only need the labels non-empty, distinct, and not defined
    by the bodies); [cond_code], [if_tpl], [ifelse_tpl], [while_tpl] instantiate the labels as the
    compiler does in the listing: an [if] numbered [n] uses [.ifendN] / [.elseN] and its condition
    takes the next local label number, [.ifhere(N+1)]; a [while] numbered [n] uses [.whileN] /
    [.whileendN] (the loops have their own counter) and, in the listing, [.ifhereN].

    The [Example]s pin the templates to the listing, line for line (the listing itself is compared
    with the real compiler by a separate script); [show] does not print the "protected" mark, the
    [iprot_NN] examples give the protected lines. *)
From Coq Require Import String Ascii List Bool NArith ZArith.
From CC Require Import Base.Str Asm.Lines Model.GenTables Model.GenTemplates Model.GenLoops.
Import ListNotations.
Open Scope string_scope.
Open Scope list_scope.

(** an 8-bit unsigned comparison: two variables, or a variable and a constant *)
Inductive cond8 :=
| CVar (o : relop) (x y : string)       (* x o y *)
| CConst (o : relop) (x : string) (k : Z).   (* x o k *)

Definition cond_op (c : cond8) : relop :=
  match c with CVar o _ _ | CConst o _ _ => o end.

(** the text of the right operand *)
Definition cond_rhs (c : cond8) : string :=
  match c with CVar _ _ y => y | CConst _ _ k => imm k end.
Definition cond_lhs (c : cond8) : string :=
  match c with CVar _ x _ | CConst _ x _ => x end.

(** load, compare, and jump to [lbl] when the condition is FALSE; [here] is the fresh label the
    [<=] case needs *)
Definition cond_code_at (c : cond8) (lbl here : string) : code :=
  [ins LDA (cond_lhs c); ins CMP (cond_rhs c)] ++ branch_seq (negate_op (cond_op c)) false lbl here.

Definition if_tpl_at (c : cond8) (body : code) (lend here : string) : code :=
  cond_code_at c lend here ++ body ++ [Lbl lend].

Definition ifelse_tpl_at (c : cond8) (body1 body2 : code) (lelse lend here : string) : code :=
  cond_code_at c lelse here ++ body1 ++ [ins JMP lend; Lbl lelse] ++ body2 ++ [Lbl lend].

Definition while_tpl_at (c : cond8) (body : code) (lhead lend here : string) : code :=
  [Lbl lhead] ++ cond_code_at c lend here ++ body ++ [ins JMP lhead; Lbl lend].

(** with the compiler's labels *)
Definition cond_code (c : cond8) (lbl : string) (n : N) : code :=
  cond_code_at c lbl (lname ".ifhere" n).

Definition if_tpl (c : cond8) (body : code) (n : N) : code :=
  if_tpl_at c body (lname ".ifend" n) (lname ".ifhere" (n + 1)).

Definition ifelse_tpl (c : cond8) (body1 body2 : code) (n : N) : code :=
  ifelse_tpl_at c body1 body2 (lname ".else" n) (lname ".ifend" n) (lname ".ifhere" (n + 1)).

Definition while_tpl (c : cond8) (body : code) (n : N) : code :=
  while_tpl_at c body (lname ".while" n) (lname ".whileend" n) (lname ".ifhere" n).

Lemma if_tpl_cond : forall c body n,
  if_tpl c body n = cond_code c (lname ".ifend" n) (n + 1) ++ body ++ [Lbl (lname ".ifend" n)].
Proof. reflexivity. Qed.
Lemma ifelse_tpl_cond : forall c body1 body2 n,
  ifelse_tpl c body1 body2 n
  = cond_code c (lname ".else" n) (n + 1) ++ body1
    ++ [ins JMP (lname ".ifend" n); Lbl (lname ".else" n)] ++ body2 ++ [Lbl (lname ".ifend" n)].
Proof. reflexivity. Qed.
Lemma while_tpl_cond : forall c body n,
  while_tpl c body n
  = [Lbl (lname ".while" n)] ++ cond_code c (lname ".whileend" n) n ++ body
    ++ [ins JMP (lname ".while" n); Lbl (lname ".whileend" n)].
Proof. reflexivity. Qed.

(** the bodies of the listing: [dst = k;] *)
Definition assign8 (dst : string) (k : Z) : code := [ins LDA (imm k); ins STA dst].

(** which lines carry the protected flag *)
Definition is_prot (l : line) : bool :=
  match l with Ins i => i_prot i | _ => false end.

(** * The 24 listings *)
(** if (a == b) c = 1; *)
Example ilisting_01 : map show (if_tpl (CVar REq "a" "b") (assign8 "c" 1) 1) =
  ["LDA a"; "CMP b"; "BNE .ifend1"; "LDA #1"; "STA c"; ".ifend1:"].
Proof. vm_compute. reflexivity. Qed.

(** if (a == b) c = 1; else c = 2; *)
Example ilisting_02 : map show (ifelse_tpl (CVar REq "a" "b") (assign8 "c" 1) (assign8 "c" 2) 1) =
  ["LDA a"; "CMP b"; "BNE .else1"; "LDA #1"; "STA c"; "JMP .ifend1"; ".else1:"; "LDA #2"; "STA c"; ".ifend1:"].
Proof. vm_compute. reflexivity. Qed.

(** if (a == 5) c = 1; else c = 2; *)
Example ilisting_03 : map show (ifelse_tpl (CConst REq "a" 5) (assign8 "c" 1) (assign8 "c" 2) 1) =
  ["LDA a"; "CMP #5"; "BNE .else1"; "LDA #1"; "STA c"; "JMP .ifend1"; ".else1:"; "LDA #2"; "STA c"; ".ifend1:"].
Proof. vm_compute. reflexivity. Qed.

(** while (a == b) a++; *)
Example ilisting_04 : map show (while_tpl (CVar REq "a" "b") (template (SInc8 "a")) 1) =
  [".while1:"; "LDA a"; "CMP b"; "BNE .whileend1"; "INC a"; "JMP .while1"; ".whileend1:"].
Proof. vm_compute. reflexivity. Qed.

(** if (a != b) c = 1; *)
Example ilisting_05 : map show (if_tpl (CVar RNeq "a" "b") (assign8 "c" 1) 1) =
  ["LDA a"; "CMP b"; "BEQ .ifend1"; "LDA #1"; "STA c"; ".ifend1:"].
Proof. vm_compute. reflexivity. Qed.

(** if (a != b) c = 1; else c = 2; *)
Example ilisting_06 : map show (ifelse_tpl (CVar RNeq "a" "b") (assign8 "c" 1) (assign8 "c" 2) 1) =
  ["LDA a"; "CMP b"; "BEQ .else1"; "LDA #1"; "STA c"; "JMP .ifend1"; ".else1:"; "LDA #2"; "STA c"; ".ifend1:"].
Proof. vm_compute. reflexivity. Qed.

(** if (a != 5) c = 1; else c = 2; *)
Example ilisting_07 : map show (ifelse_tpl (CConst RNeq "a" 5) (assign8 "c" 1) (assign8 "c" 2) 1) =
  ["LDA a"; "CMP #5"; "BEQ .else1"; "LDA #1"; "STA c"; "JMP .ifend1"; ".else1:"; "LDA #2"; "STA c"; ".ifend1:"].
Proof. vm_compute. reflexivity. Qed.

(** while (a != b) a++; *)
Example ilisting_08 : map show (while_tpl (CVar RNeq "a" "b") (template (SInc8 "a")) 1) =
  [".while1:"; "LDA a"; "CMP b"; "BEQ .whileend1"; "INC a"; "JMP .while1"; ".whileend1:"].
Proof. vm_compute. reflexivity. Qed.

(** if (a < b) c = 1; *)
Example ilisting_09 : map show (if_tpl (CVar RLt "a" "b") (assign8 "c" 1) 1) =
  ["LDA a"; "CMP b"; "BCS .ifend1"; "LDA #1"; "STA c"; ".ifend1:"].
Proof. vm_compute. reflexivity. Qed.

(** if (a < b) c = 1; else c = 2; *)
Example ilisting_10 : map show (ifelse_tpl (CVar RLt "a" "b") (assign8 "c" 1) (assign8 "c" 2) 1) =
  ["LDA a"; "CMP b"; "BCS .else1"; "LDA #1"; "STA c"; "JMP .ifend1"; ".else1:"; "LDA #2"; "STA c"; ".ifend1:"].
Proof. vm_compute. reflexivity. Qed.

(** if (a < 5) c = 1; else c = 2; *)
Example ilisting_11 : map show (ifelse_tpl (CConst RLt "a" 5) (assign8 "c" 1) (assign8 "c" 2) 1) =
  ["LDA a"; "CMP #5"; "BCS .else1"; "LDA #1"; "STA c"; "JMP .ifend1"; ".else1:"; "LDA #2"; "STA c"; ".ifend1:"].
Proof. vm_compute. reflexivity. Qed.

(** while (a < b) a++; *)
Example ilisting_12 : map show (while_tpl (CVar RLt "a" "b") (template (SInc8 "a")) 1) =
  [".while1:"; "LDA a"; "CMP b"; "BCS .whileend1"; "INC a"; "JMP .while1"; ".whileend1:"].
Proof. vm_compute. reflexivity. Qed.

(** if (a >= b) c = 1; *)
Example ilisting_13 : map show (if_tpl (CVar RGte "a" "b") (assign8 "c" 1) 1) =
  ["LDA a"; "CMP b"; "BCC .ifend1"; "LDA #1"; "STA c"; ".ifend1:"].
Proof. vm_compute. reflexivity. Qed.

(** if (a >= b) c = 1; else c = 2; *)
Example ilisting_14 : map show (ifelse_tpl (CVar RGte "a" "b") (assign8 "c" 1) (assign8 "c" 2) 1) =
  ["LDA a"; "CMP b"; "BCC .else1"; "LDA #1"; "STA c"; "JMP .ifend1"; ".else1:"; "LDA #2"; "STA c"; ".ifend1:"].
Proof. vm_compute. reflexivity. Qed.

(** if (a >= 5) c = 1; else c = 2; *)
Example ilisting_15 : map show (ifelse_tpl (CConst RGte "a" 5) (assign8 "c" 1) (assign8 "c" 2) 1) =
  ["LDA a"; "CMP #5"; "BCC .else1"; "LDA #1"; "STA c"; "JMP .ifend1"; ".else1:"; "LDA #2"; "STA c"; ".ifend1:"].
Proof. vm_compute. reflexivity. Qed.

(** while (a >= b) a++; *)
Example ilisting_16 : map show (while_tpl (CVar RGte "a" "b") (template (SInc8 "a")) 1) =
  [".while1:"; "LDA a"; "CMP b"; "BCC .whileend1"; "INC a"; "JMP .while1"; ".whileend1:"].
Proof. vm_compute. reflexivity. Qed.

(** if (a > b) c = 1; *)
Example ilisting_17 : map show (if_tpl (CVar RGt "a" "b") (assign8 "c" 1) 1) =
  ["LDA a"; "CMP b"; "BCC .ifend1"; "BEQ .ifend1"; "LDA #1"; "STA c"; ".ifend1:"].
Proof. vm_compute. reflexivity. Qed.

(** if (a > b) c = 1; else c = 2; *)
Example ilisting_18 : map show (ifelse_tpl (CVar RGt "a" "b") (assign8 "c" 1) (assign8 "c" 2) 1) =
  ["LDA a"; "CMP b"; "BCC .else1"; "BEQ .else1"; "LDA #1"; "STA c"; "JMP .ifend1"; ".else1:"; "LDA #2"; "STA c"; ".ifend1:"].
Proof. vm_compute. reflexivity. Qed.

(** if (a > 5) c = 1; else c = 2; *)
Example ilisting_19 : map show (ifelse_tpl (CConst RGt "a" 5) (assign8 "c" 1) (assign8 "c" 2) 1) =
  ["LDA a"; "CMP #5"; "BCC .else1"; "BEQ .else1"; "LDA #1"; "STA c"; "JMP .ifend1"; ".else1:"; "LDA #2"; "STA c"; ".ifend1:"].
Proof. vm_compute. reflexivity. Qed.

(** while (a > b) a++; *)
Example ilisting_20 : map show (while_tpl (CVar RGt "a" "b") (template (SInc8 "a")) 1) =
  [".while1:"; "LDA a"; "CMP b"; "BCC .whileend1"; "BEQ .whileend1"; "INC a"; "JMP .while1"; ".whileend1:"].
Proof. vm_compute. reflexivity. Qed.

(** if (a <= b) c = 1; *)
Example ilisting_21 : map show (if_tpl (CVar RLte "a" "b") (assign8 "c" 1) 1) =
  ["LDA a"; "CMP b"; "BEQ .ifhere2"; "BCS .ifend1"; ".ifhere2:"; "LDA #1"; "STA c"; ".ifend1:"].
Proof. vm_compute. reflexivity. Qed.

(** if (a <= b) c = 1; else c = 2; *)
Example ilisting_22 : map show (ifelse_tpl (CVar RLte "a" "b") (assign8 "c" 1) (assign8 "c" 2) 1) =
  ["LDA a"; "CMP b"; "BEQ .ifhere2"; "BCS .else1"; ".ifhere2:"; "LDA #1"; "STA c"; "JMP .ifend1"; ".else1:"; "LDA #2"; "STA c"; ".ifend1:"].
Proof. vm_compute. reflexivity. Qed.

(** if (a <= 5) c = 1; else c = 2; *)
Example ilisting_23 : map show (ifelse_tpl (CConst RLte "a" 5) (assign8 "c" 1) (assign8 "c" 2) 1) =
  ["LDA a"; "CMP #5"; "BEQ .ifhere2"; "BCS .else1"; ".ifhere2:"; "LDA #1"; "STA c"; "JMP .ifend1"; ".else1:"; "LDA #2"; "STA c"; ".ifend1:"].
Proof. vm_compute. reflexivity. Qed.

(** while (a <= b) a++; *)
Example ilisting_24 : map show (while_tpl (CVar RLte "a" "b") (template (SInc8 "a")) 1) =
  [".while1:"; "LDA a"; "CMP b"; "BEQ .ifhere1"; "BCS .whileend1"; ".ifhere1:"; "INC a"; "JMP .while1"; ".whileend1:"].
Proof. vm_compute. reflexivity. Qed.

(** * The protected lines: the [BEQ .ifhere] of the [<=] forms only *)
Example iprot_01 : map show (filter is_prot (if_tpl (CVar REq "a" "b") (assign8 "c" 1) 1)) = [].
Proof. vm_compute. reflexivity. Qed.

Example iprot_02 : map show (filter is_prot (ifelse_tpl (CVar REq "a" "b") (assign8 "c" 1) (assign8 "c" 2) 1)) = [].
Proof. vm_compute. reflexivity. Qed.

Example iprot_03 : map show (filter is_prot (ifelse_tpl (CConst REq "a" 5) (assign8 "c" 1) (assign8 "c" 2) 1)) = [].
Proof. vm_compute. reflexivity. Qed.

Example iprot_04 : map show (filter is_prot (while_tpl (CVar REq "a" "b") (template (SInc8 "a")) 1)) = [].
Proof. vm_compute. reflexivity. Qed.

Example iprot_05 : map show (filter is_prot (if_tpl (CVar RNeq "a" "b") (assign8 "c" 1) 1)) = [].
Proof. vm_compute. reflexivity. Qed.

Example iprot_06 : map show (filter is_prot (ifelse_tpl (CVar RNeq "a" "b") (assign8 "c" 1) (assign8 "c" 2) 1)) = [].
Proof. vm_compute. reflexivity. Qed.

Example iprot_07 : map show (filter is_prot (ifelse_tpl (CConst RNeq "a" 5) (assign8 "c" 1) (assign8 "c" 2) 1)) = [].
Proof. vm_compute. reflexivity. Qed.

Example iprot_08 : map show (filter is_prot (while_tpl (CVar RNeq "a" "b") (template (SInc8 "a")) 1)) = [].
Proof. vm_compute. reflexivity. Qed.

Example iprot_09 : map show (filter is_prot (if_tpl (CVar RLt "a" "b") (assign8 "c" 1) 1)) = [].
Proof. vm_compute. reflexivity. Qed.

Example iprot_10 : map show (filter is_prot (ifelse_tpl (CVar RLt "a" "b") (assign8 "c" 1) (assign8 "c" 2) 1)) = [].
Proof. vm_compute. reflexivity. Qed.

Example iprot_11 : map show (filter is_prot (ifelse_tpl (CConst RLt "a" 5) (assign8 "c" 1) (assign8 "c" 2) 1)) = [].
Proof. vm_compute. reflexivity. Qed.

Example iprot_12 : map show (filter is_prot (while_tpl (CVar RLt "a" "b") (template (SInc8 "a")) 1)) = [].
Proof. vm_compute. reflexivity. Qed.

Example iprot_13 : map show (filter is_prot (if_tpl (CVar RGte "a" "b") (assign8 "c" 1) 1)) = [].
Proof. vm_compute. reflexivity. Qed.

Example iprot_14 : map show (filter is_prot (ifelse_tpl (CVar RGte "a" "b") (assign8 "c" 1) (assign8 "c" 2) 1)) = [].
Proof. vm_compute. reflexivity. Qed.

Example iprot_15 : map show (filter is_prot (ifelse_tpl (CConst RGte "a" 5) (assign8 "c" 1) (assign8 "c" 2) 1)) = [].
Proof. vm_compute. reflexivity. Qed.

Example iprot_16 : map show (filter is_prot (while_tpl (CVar RGte "a" "b") (template (SInc8 "a")) 1)) = [].
Proof. vm_compute. reflexivity. Qed.

Example iprot_17 : map show (filter is_prot (if_tpl (CVar RGt "a" "b") (assign8 "c" 1) 1)) = [].
Proof. vm_compute. reflexivity. Qed.

Example iprot_18 : map show (filter is_prot (ifelse_tpl (CVar RGt "a" "b") (assign8 "c" 1) (assign8 "c" 2) 1)) = [].
Proof. vm_compute. reflexivity. Qed.

Example iprot_19 : map show (filter is_prot (ifelse_tpl (CConst RGt "a" 5) (assign8 "c" 1) (assign8 "c" 2) 1)) = [].
Proof. vm_compute. reflexivity. Qed.

Example iprot_20 : map show (filter is_prot (while_tpl (CVar RGt "a" "b") (template (SInc8 "a")) 1)) = [].
Proof. vm_compute. reflexivity. Qed.

Example iprot_21 : map show (filter is_prot (if_tpl (CVar RLte "a" "b") (assign8 "c" 1) 1)) = ["BEQ .ifhere2"].
Proof. vm_compute. reflexivity. Qed.

Example iprot_22 : map show (filter is_prot (ifelse_tpl (CVar RLte "a" "b") (assign8 "c" 1) (assign8 "c" 2) 1)) = ["BEQ .ifhere2"].
Proof. vm_compute. reflexivity. Qed.

Example iprot_23 : map show (filter is_prot (ifelse_tpl (CConst RLte "a" 5) (assign8 "c" 1) (assign8 "c" 2) 1)) = ["BEQ .ifhere2"].
Proof. vm_compute. reflexivity. Qed.

Example iprot_24 : map show (filter is_prot (while_tpl (CVar RLte "a" "b") (template (SInc8 "a")) 1)) = ["BEQ .ifhere1"].
Proof. vm_compute. reflexivity. Qed.
