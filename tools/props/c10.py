"""C10 — compile-time constant expressions evaluate as in C.

proof   : Props/C10.v on Model/Calc.v (pest's Pratt algorithm with the calculator's table): every
          pair of binary operators is grouped as C groups it for all operand values (no exception
          since the repair of the == / relational level); unary operators bind tightest;
          comparisons and logical operators yield 0/1; truncating division rejected on zero; ?: for
          plain operands (nested in the middle operand: refuted, known finding)
corr-M  : the real calculator (values of `const` initialisers, array sizes) vs the extracted model
          on random token sequences and on all operator pairs
corr-S  : a reference C evaluator (C precedence/associativity, 32-bit) on random expression trees
          printed with minimal parentheses; literals in decimal/hex/octal/character form; and constant
          sub-expressions folded inside statements vs the same reference truncated to 16 bits
"""
import re
import os
import shutil
from lib.common import *

LEVEL = 'proof'
THEOREMS = ['C10_pairs_grouped_as_C', 'C10_eq_rel_precedence_fixed', 'C10_unary_binds_tightest', 'C10_truth_values',
            'C10_not_is_logical', 'C10_division', 'C10_ternary_correct', 'C10_ternary_nested_refuted',
            'C10_calc_groups_as_C', 'C10_redundant_parens', 'C10_calc_groups_as_C_np', 'C10_div_zero_general', 'C10_calc_groups_as_C_example']

BINOPS = ['*', '/', '+', '-', '<<', '>>', '<', '<=', '>', '>=', '==', '!=', '&', '^', '|', '&&', '||']
C_PREC = {'*': 12, '/': 12, '+': 11, '-': 11, '<<': 10, '>>': 10, '<': 9, '<=': 9, '>': 9, '>=': 9, '==': 8, '!=': 8,
          '&': 7, '^': 6, '|': 5, '&&': 4, '||': 3}


def wrap32(v):
    v &= 0xffffffff
    return v - (1 << 32) if v & 0x80000000 else v


class Undefined(Exception):
    pass


def c_eval(t):
    k = t[0]
    if k == 'num':
        return t[1]
    if k == 'un':
        v = c_eval(t[2])
        if t[1] == '-':
            r = -v
        elif t[1] == '!':
            r = 0 if v else 1
        else:
            r = ~v
        if not (-2 ** 31 <= r < 2 ** 31):
            raise Undefined()
        return r
    if k == 'tern':
        return c_eval(t[2]) if c_eval(t[1]) else c_eval(t[3])
    a, b = c_eval(t[2]), c_eval(t[3])
    o = t[1]
    if o == '*':
        r = a * b
    elif o == '/':
        if b == 0:
            raise ZeroDivisionError()
        r = abs(a) // abs(b) * (1 if (a < 0) == (b < 0) else -1)
    elif o == '+':
        r = a + b
    elif o == '-':
        r = a - b
    elif o == '<<':
        if not (0 <= b < 31) or a < 0:
            raise Undefined()
        r = a << b
    elif o == '>>':
        if not (0 <= b < 32) or a < 0:
            raise Undefined()
        r = a >> b
    elif o == '<':
        r = int(a < b)
    elif o == '<=':
        r = int(a <= b)
    elif o == '>':
        r = int(a > b)
    elif o == '>=':
        r = int(a >= b)
    elif o == '==':
        r = int(a == b)
    elif o == '!=':
        r = int(a != b)
    elif o == '&':
        r = a & b
    elif o == '^':
        r = a ^ b
    elif o == '|':
        r = a | b
    elif o == '&&':
        r = int(bool(a) and bool(b))
    else:
        r = int(bool(a) or bool(b))
    if not (-2 ** 31 <= r < 2 ** 31):
        raise Undefined()
    return r


def eager_shift(t):
    """does an EAGER evaluation meet a shift whose count is outside 0..31 somewhere?"""
    if t[0] == 'num':
        return False
    if any(eager_shift(y) for y in t[1:] if isinstance(y, tuple)):
        return True
    if t[0] == 'bin' and t[1] in ('<<', '>>'):
        try:
            return not (0 <= c_eval(t[3]) < 32)
        except Exception:
            return True
    return False


def eager_divzero(t):
    """does an EAGER evaluation (both arms of ?:, && and || evaluated) divide by zero somewhere?"""
    if t[0] == 'num':
        return False
    if any(eager_divzero(y) for y in t[1:] if isinstance(y, tuple)):
        return True
    if t[0] == 'bin' and t[1] == '/':
        try:
            return c_eval(t[3]) == 0
        except Exception:
            return True
    return False


def gen_tree(rng, depth, ternary=True):
    if depth <= 0 or rng.random() < 0.3:
        return ('num', rng.choice([0, 1, 2, 3, 5, 7, 8, 15, 16, 100, 255, 256, 1000, 65535, rng.randrange(0, 70000)]))
    k = rng.random()
    if k < 0.12:
        return ('un', rng.choice(['-', '!', '~']), gen_tree(rng, depth - 1, ternary))
    if k < 0.2 and ternary:
        return ('tern', gen_tree(rng, depth - 1, False), gen_tree(rng, depth - 1, False), gen_tree(rng, depth - 1, True))
    return ('bin', rng.choice(BINOPS), gen_tree(rng, depth - 1, ternary), gen_tree(rng, depth - 1, ternary))


def num_text(rng, n):
    k = rng.random()
    if k < 0.6 or n < 0:
        return str(n)
    if k < 0.8:
        return hex(n)
    if k < 0.9 and n > 0:
        return '0' + oct(n)[2:] if n >= 8 else str(n)
    if 32 < n < 127 and chr(n) not in '\'\\"':
        return "'%s'" % chr(n)
    return str(n)


def prec_of(t):
    if t[0] == 'bin':
        return C_PREC[t[1]]
    if t[0] == 'tern':
        return 1
    if t[0] == 'un':
        return 13
    return 14


def c_print(rng, t, toks=None):
    """minimal parentheses by C's rules; also returns the token list for the model"""
    k = t[0]
    if k == 'num':
        return num_text(rng, t[1]), [str(t[1])]

    def sub(x, need):
        s, tk = c_print(rng, x)
        if prec_of(x) < need:
            return '(' + s + ')', ['('] + tk + [')']
        return s, tk
    if k == 'un':
        s, tk = sub(t[2], 13)
        if t[1] == '-' and s.startswith('-'):
            s = ' ' + s
        return t[1] + s, ['u' + t[1]] + tk
    if k == 'tern':
        c, tc = sub(t[1], 3)
        a, ta = sub(t[2], 2)
        b, tb = sub(t[3], 1)
        return '%s ? %s : %s' % (c, a, b), tc + ['?'] + ta + [':'] + tb
    p = C_PREC[t[1]]
    l, tl = sub(t[2], p)
    r, tr = sub(t[3], p + 1)
    return '%s %s %s' % (l, t[1], r), tl + [t[1]] + tr


def has_nested_middle_ternary(t):
    if t[0] == 'tern':
        def contains_tern(x):
            return x[0] == 'tern' or any(contains_tern(y) for y in x[1:] if isinstance(y, tuple))
        return contains_tern(t[2]) or any(has_nested_middle_ternary(y) for y in t[1:] if isinstance(y, tuple))
    return any(has_nested_middle_ternary(y) for y in t[1:] if isinstance(y, tuple))


def has_eq_rel(t):
    """an == or != whose right operand is an unparenthesised relational expression in C's tree"""
    if t[0] == 'bin' and t[1] in ('==', '!=') and t[3][0] == 'bin' and t[3][1] in ('<', '<=', '>', '>='):
        return True
    return any(has_eq_rel(y) for y in t[1:] if isinstance(y, tuple))


def run_calc_model(jobs):
    drv = ocaml_driver('cpp')
    d = os.path.join('/dev/shm', 'calc.%d' % os.getpid())
    os.makedirs(d, exist_ok=True)
    try:
        fn = os.path.join(d, 'calc.txt')
        with open(fn, 'w') as f:
            for jid, toks in jobs.items():
                f.write('calc %s %s\n' % (jid, ' '.join(toks)))
        rc, out = sh(['bash', '-c', 'ulimit -s unlimited; exec "$0" "$1"', drv, fn], check=False, timeout=3600)
        if rc != 0:
            raise HarnessError('cpp.native (calc) failed: ' + out[-1000:])
        res = {}
        for l in out.splitlines():
            if l.startswith('@calc '):
                f = l.split(' ')
                res[f[1]] = ('ok', int(f[3])) if f[2] == 'ok' else (f[2],)
        return res
    finally:
        shutil.rmtree(d, ignore_errors=True)


def run(ctx):
    quick = ctx.tier == 'quick'
    rng = ctx.rng
    ctx.proof_stage('Props.C10', THEOREMS)
    n_expr = 2500 if quick else 60000
    exprs = {}
    for i in range(n_expr):
        t = gen_tree(rng, rng.choice([1, 2, 3, 4, 6]))
        text, toks = c_print(rng, t)
        exprs['e%d' % i] = (t, text, toks)
    # all operator pairs, a few operand triples
    k = 0
    for o1 in BINOPS:
        for o2 in BINOPS:
            for (a, b, c) in [(7, 2, 3), (1, 1, 0), (0, 5, 2)]:
                exprs['p%d' % k] = (None, '%d %s %d %s %d' % (a, o1, b, o2, c), [str(a), o1, str(b), o2, str(c)])
                k += 1
    # witnesses of the known deviations
    exprs['w_eq_rel'] = (('bin', '==', ('num', 2), ('bin', '<', ('num', 1), ('num', 1))), '2 == 1 < 1', ['2', '==', '1', '<', '1'])
    exprs['w_nested_ternary'] = (('tern', ('num', 0), ('tern', ('num', 0), ('num', 1), ('num', 2)), ('num', 3)), '0 ? 0 ? 1 : 2 : 3',
                                 ['0', '?', '0', '?', '1', ':', '2', ':', '3'])
    # the ?: encoding uses 0x7eaddead as "no value": a literal with that value is taken for it
    exprs['w_sentinel'] = (('tern', ('num', 1), ('num', 2125323949), ('num', 5)), '1 ? 2125323949 : 5', ['1', '?', '2125323949', ':', '5'])
    jobs = ''.join(compile_job(eid, 'const short v = %s;\nvoid main() { }\n' % text, args=['-O0'], want=['vars'])
                   for eid, (t, text, toks) in exprs.items())
    res = dict(zip(exprs.keys(), run_ccv(jobs)))
    model = run_calc_model({eid: toks for eid, (t, text, toks) in exprs.items()})
    cm = []
    viol = []
    decided = 0
    outcome = {}
    known = {f.get('witness'): f for f in ctx.findings if f.get('status') == 'open'}
    for eid, (t, text, toks) in exprs.items():
        r = res[eid]
        if r['status'] == 'ok':
            v = [x for x in r['vars'] if x['name'] == 'v'][0]['def']
            impl = ('ok', v[1]) if v and isinstance(v[1], int) else ('other', v)
        elif r['status'] == 'err':
            msg = r['err'].get('msg', '')
            impl = ('divzero',) if 'Division by zero' in msg else (('shift',) if 'Shift count out of range' in msg else ('err', msg))
        else:
            impl = (r['status'], r.get('msg'))
        outcome[impl[0]] = outcome.get(impl[0], 0) + 1
        m = model.get(eid)
        if impl != m and impl[0] in ('ok', 'divzero', 'shift'):
            cm.append({'expr': text, 'tokens': toks, 'impl': impl, 'model': m})
        elif impl[0] not in ('ok', 'divzero', 'shift') and m and m[0] == 'ok':
            cm.append({'expr': text, 'tokens': toks, 'impl': impl, 'model': m})
        if t is None:
            continue
        try:
            want = ('ok', c_eval(t))
        except ZeroDivisionError:
            want = ('divzero',)
        except Undefined:
            continue
        if impl == ('shift',) and eager_shift(t):
            # same for a shift count out of range in an arm C would not evaluate: rejected, not mis-evaluated
            outcome['rejected_unevaluated_shift'] = outcome.get('rejected_unevaluated_shift', 0) + 1
            continue
        if impl == ('divzero',) and want != ('divzero',) and eager_divzero(t):
            # the calculator evaluates both arms of ?: / && / ||: a division by zero in an arm C would
            # not evaluate is REJECTED (never given a wrong value): counted, not a violation
            outcome['rejected_unevaluated_divzero'] = outcome.get('rejected_unevaluated_divzero', 0) + 1
            continue
        decided += 1
        if impl != want:
            fid = None
            if eid in known:
                fid = known[eid]
            elif has_nested_middle_ternary(t) and 'w_nested_ternary' in known:
                fid = known['w_nested_ternary']
            elif has_eq_rel(t) and 'w_eq_rel' in known:
                fid = known['w_eq_rel']
            if fid:
                ctx.known_finding(fid['id'], fid['text'])
                continue
            viol.append({'id': eid, 'why': 'constant expression evaluates to %s, C gives %s' % (impl, want), 'expression': text})
    # constants folded inside statements
    fold = {}
    for i in range(600 if quick else 15000):
        # (a third of them with ?: — not nested in a middle operand, which the statement grammar rejects)
        t = gen_tree(rng, rng.choice([1, 2, 3]), ternary=(i % 3 == 2))
        if has_nested_middle_ternary(t):
            t = gen_tree(rng, 2, ternary=False)
        text, toks = c_print(rng, t)
        fold['f%d' % i] = (t, text)
    # fixed: every kind of constant operand under every truth-valued operator, the 0/1 then moved or carried into the
    # high byte by constant arithmetic (the low and the high byte of a folded statement are computed in two passes)
    Nn = lambda v: ('num', v)
    opnds = [Nn(2), Nn(0), ('tern', Nn(1), Nn(2), Nn(3)), ('tern', Nn(0), Nn(2), Nn(0)), ('un', '-', Nn(1)), ('un', '~', Nn(0)), ('bin', '+', Nn(1), Nn(1)),
             ('bin', '<<', Nn(1), Nn(1)), ('un', '!', Nn(0))]
    truths = [lambda x: ('bin', '==', x, Nn(2)), lambda x: ('bin', '!=', x, Nn(2)), lambda x: ('bin', '<', x, Nn(3)), lambda x: ('un', '!', x),
              lambda x: ('bin', '&&', x, Nn(1)), lambda x: ('bin', '||', x, Nn(0)), lambda x: ('bin', '>=', Nn(2), x)]
    carries = [lambda t_: ('bin', '*', t_, Nn(256)), lambda t_: ('bin', '<<', t_, Nn(8)), lambda t_: ('bin', '+', t_, Nn(255)), lambda t_: ('bin', '-', Nn(0), t_),
               lambda t_: ('bin', '*', Nn(1000), t_), lambda t_: ('bin', '-', Nn(256), t_), lambda t_: ('bin', '|', ('bin', '<<', t_, Nn(9)), t_)]
    fk = 0
    for o_ in opnds:
        for tr_ in truths:
            for ca_ in carries:
                t = ca_(tr_(o_))
                text, toks = c_print(rng, t)
                fold['w%d' % fk] = (t, text)
                fk += 1
    # the same expressions with some literals spelled as NAMED constants (const short K = literal): folded the same way
    decls = {fid: '' for fid in fold}
    for fid, (t, text) in list(fold.items()):
        if rng.random() < 0.5:
            names = []

            def sub(mo):
                if rng.random() < 0.5:
                    return mo.group(0)
                names.append(mo.group(0))
                return 'K%d' % (len(names) - 1)
            text2 = re.sub(r'\b(0[xX][0-9a-fA-F]+|\d+)\b', sub, text)
            if names:
                fold[fid + 'n'] = (t, text2)
                decls[fid + 'n'] = ''.join('const short K%d = %s;\n' % (i, n) for i, n in enumerate(names))
    fj = ''.join(compile_job(fid, '%sshort v;\nvoid main() { v = %s; }\n' % (decls[fid], text), args=['-O0'], want=['funcs']) for fid, (t, text) in fold.items())
    fres = dict(zip(fold.keys(), run_ccv(fj)))
    fdec = 0
    frej = {}
    for fid, (t, text) in fold.items():
        r = fres[fid]
        try:
            want = c_eval(t) & 0xffff
        except (ZeroDivisionError, Undefined):
            continue
        if r['status'] != 'ok':
            msg = (r.get('err') or {}).get('msg') or r['status']
            frej[msg[:50]] = frej.get(msg[:50], 0) + 1
            if r['status'] in ('panic', 'hang'):
                viol.append({'id': fid, 'why': 'crash while folding a constant: %s' % r.get('msg'), 'expression': 'v = %s;' % text})
            continue
        lines = [l for f in r['funcs'] if f['name'] == 'main' for l in f['gen'] if l[0] == 'I']
        # expected shape: LDA #lo ; STA v ; LDA #hi ; STA v+1  (or a shared LDA when lo == hi)
        imm = None
        lo = hi = None
        ok_shape = True
        for l in lines:
            if l[1] == 'LDA' and re.fullmatch(r'#\d+', l[6]):
                imm = int(l[6][1:])
            elif l[1] == 'STA' and l[6] == 'v':
                lo = imm
            elif l[1] == 'STA' and l[6] == 'v+1':
                hi = imm
            else:
                ok_shape = False
        if not ok_shape or lo is None or hi is None:
            frej['not folded'] = frej.get('not folded', 0) + 1
            continue
        fdec += 1
        got = lo + 256 * hi
        if got != want:
            if has_eq_rel(t) and 'w_eq_rel' in known:
                ctx.known_finding(known['w_eq_rel']['id'], known['w_eq_rel']['text'])
                continue
            viol.append({'id': fid, 'why': 'folded constant is %d, C gives %d (mod 65536)' % (got, want), 'expression': decls[fid] + 'v = %s;' % text})
    # sizeof: every operand form, in a statement and in a calculator position, blanks inside the parentheses included
    SZ = [('char', 1), (' char ', 1), ('char ', 1), ('short', 2), ('short int', 2), ('short  int', 2), ('int', 2), ('char *', 2), ('char*', 2),
          ('arr', 10), ('arr[0]', 1), ('arr[X]', 1), ('sa', 6), ('sa[1]', 2), ('c', 1), ('s', 2), ('p', 2), ('p[0]', 1), ('tab', 4), ('tab[1]', 1)]
    szj = []
    for k_, (opnd, want) in enumerate(SZ):
        decl = 'char arr[10]; short sa[3]; char c; short s; char *p; const char tab[4] = {1, 2, 3, 4}; short v;\n'
        szj.append(('sz%d' % k_, decl + 'void main() { v = sizeof(%s); }\n' % opnd, want, 'v = sizeof(%s);' % opnd))
        if '[' not in opnd:
            szj.append(('szc%d' % k_, decl + 'const char t2[2] = {sizeof(%s), 0};\nvoid main() { v = t2[0]; }\n' % opnd, want, 'const char t2[2] = {sizeof(%s), 0};' % opnd))
    sres = run_ccv(''.join(compile_job(i_, src, args=['-O0'], want=['funcs', 'vars']) for (i_, src, w_, t_) in szj))
    szdec = 0
    for (i_, src, want, text), r in zip(szj, sres):
        if r['status'] != 'ok':
            frej['sizeof: ' + ((r.get('err') or {}).get('msg') or r['status'])[:40]] = 1
            if r['status'] in ('panic', 'hang') or ' ' in text.split('sizeof(')[1].split(')')[0].strip() or text.split('sizeof(')[1].split(')')[0] != text.split('sizeof(')[1].split(')')[0].strip():
                # a spelling that differs from an accepted one only by blanks must be accepted too
                base = text.replace('( ', '(').replace(' )', ')').replace('  ', ' ')
                if r['status'] in ('panic', 'hang') or base != text:
                    viol.append({'id': i_, 'why': 'sizeof operand rejected: %s' % ((r.get('err') or {}).get('msg') or r['status']), 'expression': text})
            continue
        got = None
        if i_.startswith('szc'):
            t2 = [v_ for v_ in r['vars'] if v_['name'] == 't2']
            got = t2[0]['def'][1][0] if t2 and t2[0]['def'] else None
        else:
            lines = [l for f in r['funcs'] if f['name'] == 'main' for l in f['gen'] if l[0] == 'I']
            imm = None
            for l in lines:
                if l[1] == 'LDA' and re.fullmatch(r'#\d+', l[6]):
                    imm = int(l[6][1:])
                elif l[1] == 'STA' and l[6] == 'v':
                    got = imm
        szdec += 1
        if got != want:
            viol.append({'id': i_, 'why': 'sizeof gives %s, C gives %d' % (got, want), 'expression': text})
    ctx.cov['correspondence']['corr-S sizeof table'] = {'forms': len(szj), 'decided': szdec}
    ctx.cov['evaluations'] = len(exprs) + len(fold)
    ctx.cov['distinct_nontrivial'] = decided + fdec
    ctx.cov['correspondence']['corr-M calculator'] = {'expressions': len(exprs), 'mismatches': len(cm), 'outcomes': outcome,
                                                       'operator_pairs_exhaustive': len(BINOPS) ** 2}
    ctx.cov['correspondence']['corr-S reference C evaluator'] = {'decided_expressions': decided, 'folded_statements_decided': fdec,
                                                                  'fold_rejections': frej, 'violations': len(viol)}
    ctx.sample({'expression': list(exprs.values())[3][1], 'tokens': list(exprs.values())[3][2]})
    for v in viol[:3]:
        ctx.violation('constexpr', v)
    if cm and not viol:
        ctx.violation_noinput('Model/Calc.v no longer matches parse_calc on %d expressions; first: %s' % (len(cm), json.dumps(cm[0])[:1500]),
                              'corr-M:calc')
    ctx.cov['rule'] = ('random expression trees (depth <= 6) over * / + - << >> < <= > >= == != & ^ | && || unary - ! ~ and ?:, printed '
                       'with minimal parentheses by C\'s rules, literals in decimal, hex, octal and character form; all 289 operator pairs; '
                       'the same kind of expressions inside statements (folding); decided = C defines the value (no overflow, no bad shift)')
    ctx.cov['trusted_base'] = ['Coq 8.16.1 kernel', 'extraction of Model/Calc.v', 'harness ccv', 'Python reference c_eval / minimal-parenthesis printer']
    ctx.assumptions = ['32-bit wrapping as in a release build (a debug build panics on overflow: C16)', 'sizeof: a fixed table of operand forms (types with every blank placement, scalars, arrays, elements, pointers) in statements and calculator positions']
