(** Specification-side definitions for the GLOBAL simulation theorem of the peephole optimiser on
    straight-line code (C02): straight-line execution of a line list, the syntactic side condition
    on the code, and the invariant of the zipper walk.  Proofs in Proofs/OptSimFacts.v. *)
From Coq Require Import String Ascii List Bool NArith ZArith.
From CC Require Import Base.Str Asm.Lines M6502.Isa Asm.Operand M6502.Sem
     Model.Optimize Model.OptSpec Model.OptSem.
Import ListNotations.
Open Scope Z_scope.

(** * Straight-line execution of a line list *)

(** mnemonics of straight-line code: no branch, no JMP/JSR/RTS/RTI, no stack operation *)
Definition plain (m : mnem) : bool :=
  match m with
  | BCC | BCS | BEQ | BMI | BNE | BPL | JMP | JSR | RTS | RTI | PHA | PLA | PHP | PLP => false
  | _ => true
  end.

(** execute the lines one after the other and fall off the end: comments and removed lines are
    skipped, every instruction must parse, execute without fault and fall through; a label or an
    inline-assembly line is not straight-line code.  [None] = any of these fails. *)
Fixpoint exec_straight (cfg : config) (c : code) (s : mstate) : option mstate :=
  match c with
  | [] => Some s
  | Ins i :: r =>
      match parse_operand (i_mn i) (i_op i) with
      | Some op =>
          match exec cfg (i_mn i) op s with
          | XOk s' _ FNext => exec_straight cfg r s'
          | _ => None
          end
      | None => None
      end
  | Cmt _ :: r | Dummy :: r => exec_straight cfg r s
  | _ => None
  end.

(** * The side condition: a boolean scan of the code *)

(** operands: none, an immediate, "sym+k", "sym+k,X", or "sym+k,Y" with sym+k at or above $100
    (so that LDX/STX, which have a wrapping zp,Y mode, and LDA/STA, which have not, address the
    same cell); no "(p),Y", no label *)
Definition operand_ok (cfg : config) (o : operand) : bool :=
  match o with
  | ONone | OImm _ => true
  | OMem y k IxY => match layout cfg y with Some a0 => 256 <=? a0 + k | None => false end
  | OMem _ _ _ => true
  | OInd _ _ | OLbl _ => false
  end.

Definition ins_ok (cfg : config) (i : instr) : bool :=
  match parse_operand (i_mn i) (i_op i) with
  | Some o => operand_ok cfg o
  | None => false
  end.

Definition skip_line (l : line) : bool :=
  match l with Cmt _ | Dummy => true | _ => false end.

Definition line_ok (cfg : config) (l : line) : bool :=
  match l with
  | Ins i => plain (i_mn i) && ins_ok cfg i
  | Cmt _ | Dummy => true
  | Lbl _ | Inl _ _ => false
  end.

(** straight-line code all of whose operands are of the simple forms above *)
Definition straight_ok (cfg : config) (c : code) : bool := forallb (line_ok cfg) c.

(** * The invariant of the walk

    The walk is read as a sequence of rewritings of the whole code: in every zipper state the
    code [z_code z] still executes from the initial state [s0] to a state equal ([eq_state]) to the
    final state [sF] of the original code, and the knowledge [z_k z] is sound for the state reached
    just after [z_f z] in THAT execution (the optimised text, not the original). *)

(** the register part of the knowledge *)
Definition kregs (k : know) : know := mkK (k_acc k) (k_x k) (k_y k) FUnknown.

(** every operand string the knowledge records is of the simple forms *)
Definition know_ops_ok (cfg : config) (k : know) : Prop :=
  forall o op, k_acc k = Some o \/ k_x k = Some o \/ k_y k = Some o ->
               parse_operand LDA o = Some op -> operand_ok cfg op = true.

(** just after the swap of "LDA o; SEC" the flags component of the knowledge is stale (it says
    "N/Z describe A" although N/Z are those before the LDA); harmless, because A is recorded as
    unknown, so that the LDA, now second, is kept and redefines it.  In that one situation only
    the register part of the knowledge is claimed. *)
Definition pswap (z : zst) : bool :=
  is_flag_setter (i_mn (z_f z)) &&
  match z_rest z with
  | Ins i :: _ => mnem_eqb (i_mn i) LDA && match k_acc (z_k z) with None => true | Some _ => false end
  | _ => false
  end.

Definition Inv (cfg : config) (s0 sF : mstate) (z : zst) : Prop :=
  plain (i_mn (z_f z)) = true /\ ins_ok cfg (z_f z) = true /\
  forallb skip_line (z_mid z) = true /\
  straight_ok cfg (z_rest z) = true /\
  know_ops_ok cfg (z_k z) /\
  exists s1 s2 sE,
    exec_straight cfg (rev (z_pre z)) s0 = Some s1 /\ bytes_ok s1 /\
    steps_to cfg (z_f z) s1 s2 /\
    know_sound cfg (if pswap z then kregs (z_k z) else z_k z) s2 /\
    exec_straight cfg (rev (z_mid z) ++ z_rest z) s2 = Some sE /\
    eq_state sE sF.
