(** Executable semantics of the C subset cc6502 accepts (the specification side of C01, C15,
    C17, C18).  [int] is 16 bits, [char] 8 bits; values are computed with C's integer promotions.

    The compiler evaluates expressions whose operands are all chars in 8 bits.  For an
    assignment to a char this is C's result; where an 8-bit intermediate that overflowed feeds a
    width-sensitive operator (>>, /, a comparison, a logical operator, an index, a switch) it is
    not.  Every value therefore carries a taint bit "C's value does not fit the 8-bit type the
    compiler computes it in"; a tainted value reaching a width-sensitive consumer makes the run
    [Undecided] instead of guessing which of the two meanings the property intends. *)
From Coq Require Import String Ascii List Bool NArith ZArith.
Import ListNotations.
Open Scope Z_scope.

Inductive cty := TU8 | TS8 | TU16 | TS16 | TPtr.   (* TPtr: pointer to char, a 16-bit address *)

Inductive binop := Add | Sub | BAnd | BOr | BXor | Shl | Shr | Mul | Div
                 | OEq | ONe | OLt | OLe | OGt | OGe | LAnd | LOr.
Inductive unop := Neg | BNot | LNot.
Inductive inck := PreInc | PostInc | PreDec | PostDec.

Inductive expr :=
| ENum (n : Z)
| EVar (x : string)
| EIdx (a : string) (i : expr)
| EBin (op : binop) (l r : expr)
| EUn (op : unop) (e : expr)
| EInc (k : inck) (lv : expr)
| EAsg (op : option binop) (lv e : expr)
| ECall (f : string) (args : list expr)
| ETern (c a b : expr)
| EAddr (x : string).      (* &x *)

Inductive stmt :=
| SExpr (e : expr)
| SIf (c : expr) (s1 : stmt) (s2 : option stmt)
| SWhile (c : expr) (b : stmt)
| SDo (b : stmt) (c : expr)
| SFor (i c u : option expr) (b : stmt)
| SBlock (l : list stmt)
| SSwitch (e : expr) (cases : list (list Z * list stmt)) (dflt : option (list stmt))
| SBreak | SContinue
| SReturn (e : option expr)
| SLoad (e : expr) | SStore (e : expr) | SStrobe (x : string) | SCsleep (n : Z) | SAsm (t : string).

Record vinfo := mkV { v_ty : cty; v_len : option Z; v_const : bool; v_addr : Z }.   (* v_addr: where the layout puts it *)

Record func := mkF { f_name : string; f_params : list string; f_ret : option cty; f_body : list stmt }.

Record program := mkP {
  p_vars : list (string * vinfo);
  p_funcs : list func;
  p_main : list stmt
}.

(** ** stores: association lists keyed by (name, index); absent cells read 0 *)
Definition store := list (string * Z * Z).
Fixpoint sget (s : store) (x : string) (i : Z) : Z :=
  match s with
  | [] => 0
  | (y, j, v) :: r => if String.eqb x y && (i =? j) then v else sget r x i
  end.
Fixpoint sset (s : store) (x : string) (i : Z) (v : Z) : store :=
  match s with
  | [] => [(x, i, v)]
  | (y, j, w) :: r => if String.eqb x y && (i =? j) then (y, j, v) :: r else (y, j, w) :: sset r x i v
  end.

Fixpoint lookup {A} (x : string) (l : list (string * A)) : option A :=
  match l with
  | [] => None
  | (y, a) :: r => if String.eqb x y then Some a else lookup x r
  end.

Fixpoint find_fn (x : string) (l : list func) : option func :=
  match l with
  | [] => None
  | f :: r => if String.eqb x (f_name f) then Some f else find_fn x r
  end.

(** ** integer model *)
Definition wrap_u (bits v : Z) : Z := v mod 2 ^ bits.
Definition wrap_s (bits v : Z) : Z :=
  let m := v mod 2 ^ bits in if m <? 2 ^ (bits - 1) then m else m - 2 ^ bits.

Definition norm (t : cty) (v : Z) : Z :=
  match t with
  | TU8 => wrap_u 8 v | TS8 => wrap_s 8 v | TU16 | TPtr => wrap_u 16 v | TS16 => wrap_s 16 v
  end.

(** how the compiler computes a value: in 8 bits (unsigned / signed) or in 16 bits *)
Inductive wclass := W8u | W8s | W16u | W16s | WLit.

Definition wclass_of (t : cty) : wclass :=
  match t with TU8 => W8u | TS8 => W8s | TU16 | TPtr => W16u | TS16 => W16s end.

Record value := mkVal { val : Z; wc : wclass; taint : bool }.

Definition fits (w : wclass) (v : Z) : bool :=
  match w with
  | W8u => (0 <=? v) && (v <=? 255)
  | W8s => (-128 <=? v) && (v <=? 127)
  | _ => true
  end.

(** class of a binary result: 16 bits as soon as one operand is; a literal adapts *)
Definition join (a b : wclass) : wclass :=
  match a, b with
  | W16u, _ | _, W16u => W16u
  | W16s, _ | _, W16s => W16s
  | WLit, x | x, WLit => x
  | W8s, W8s => W8s
  | _, _ => W8u
  end.

(** C arithmetic on 16-bit [int] / [unsigned] *)
Definition c_norm (w : wclass) (v : Z) : Z :=
  match w with W16u => wrap_u 16 v | _ => wrap_s 16 v end.

Definition mk (w : wclass) (v : Z) (t : bool) : value :=
  let v' := c_norm w v in mkVal v' w (t || negb (fits w v')).

Definition lit_class (n : Z) : wclass := if (n <? -32768) || (32767 <? n) then W16u else WLit.

Definition b2z (b : bool) : Z := if b then 1 else 0.

Inductive outcome (A : Type) :=
| Ok (a : A)
| Undecided            (* meaning depends on 8-bit vs promoted evaluation *)
| Unsupported (why : string)
| Fuel.
Arguments Ok {A}. Arguments Undecided {A}. Arguments Unsupported {A}. Arguments Fuel {A}.

Definition bind {A B} (o : outcome A) (f : A -> outcome B) : outcome B :=
  match o with
  | Ok a => f a
  | Undecided => Undecided
  | Unsupported w => Unsupported w
  | Fuel => Fuel
  end.
Notation "'do' x <- a ; b" := (bind a (fun x => b)) (at level 200, x pattern, a at level 100, b at level 200).

(** a width-sensitive consumer refuses tainted values *)
Definition clean (v : value) : outcome Z := if taint v then Undecided else Ok (val v).

Definition arith (op : binop) (a b : value) : outcome value :=
  let w := join (wc a) (wc b) in
  let t := taint a || taint b in
  match op with
  | Add => Ok (mk w (val a + val b) t)
  | Sub => Ok (mk w (val a - val b) t)
  | BAnd => Ok (mk w (Z.land (val a) (val b)) t)
  | BOr => Ok (mk w (Z.lor (val a) (val b)) t)
  | BXor => Ok (mk w (Z.lxor (val a) (val b)) t)
  | Mul => Ok (mk w (val a * val b) t)
  | Shl =>
      do k <- clean b;
      if (k <? 0) || (15 <? k) then Unsupported "shift count" else
      Ok (mk (join (wc a) WLit) (val a * 2 ^ k) (taint a))
  | Shr =>
      do x <- clean a; do k <- clean b;
      if (k <? 0) || (15 <? k) then Unsupported "shift count" else
      (* C leaves the right shift of a negative value to the implementation (C99 6.5.7p5) *)
      if x <? 0 then Undecided else
      Ok (mk (join (wc a) WLit) (x / 2 ^ k) false)
  | Div =>
      do x <- clean a; do y <- clean b;
      if y =? 0 then Unsupported "division by zero" else Ok (mk w (Z.quot x y) false)
  | OEq => do x <- clean a; do y <- clean b; Ok (mkVal (b2z (x =? y)) WLit false)
  | ONe => do x <- clean a; do y <- clean b; Ok (mkVal (b2z (negb (x =? y))) WLit false)
  | OLt => do x <- clean a; do y <- clean b; Ok (mkVal (b2z (x <? y)) WLit false)
  | OLe => do x <- clean a; do y <- clean b; Ok (mkVal (b2z (x <=? y)) WLit false)
  | OGt => do x <- clean a; do y <- clean b; Ok (mkVal (b2z (y <? x)) WLit false)
  | OGe => do x <- clean a; do y <- clean b; Ok (mkVal (b2z (y <=? x)) WLit false)
  | LAnd | LOr => Unsupported "logical operator evaluated strictly"
  end.

Inductive event :=
| EvLoad (v : Z) | EvStore (x : string) | EvStrobe (x : string) | EvSleep (n : Z) | EvAsm (t : string).

(** [st_steps]: remaining budget of loop iterations and calls (a global step bound; the [fuel]
    arguments below only bound the nesting depth) *)
Record state := mkSt { st_mem : store; st_trace : list event; st_steps : N }.

Definition tick (s : state) : option state :=
  if N.eqb (st_steps s) 0 then None else Some (mkSt (st_mem s) (st_trace s) (N.pred (st_steps s))).

Inductive ctl := CNormal | CBreak | CContinue | CReturn (v : option value).

Section Exec.
  Variable prog : program.

  Definition var_info (x : string) : option vinfo :=
    if String.eqb x "X" || String.eqb x "Y" then Some (mkV TU8 None false (-1))
    else lookup x (p_vars prog).

  Definition read_cell (s : state) (x : string) (i : Z) (vi : vinfo) : value :=
    let raw := sget (st_mem s) x i in
    mkVal (norm (v_ty vi) raw) (wclass_of (v_ty vi)) false.

  (** [store(x)] writes the accumulator, whose contents C does not define, into x: the cell is
      POISONED (recorded in the store under the reserved name "!x") until it is assigned again;
      reading a poisoned cell is [Undecided] *)
  Definition pkey (x : string) : string := String "!"%char x.
  Definition poisoned (s : state) (x : string) (i : Z) : bool := negb (sget (st_mem s) (pkey x) i =? 0).
  Definition poison (s : state) (x : string) (i : Z) : state :=
    mkSt (sset (st_mem s) (pkey x) i 1) (st_trace s) (st_steps s).

  Definition read_cell_o (s : state) (x : string) (i : Z) (vi : vinfo) : outcome value :=
    if poisoned s x i then Undecided else Ok (read_cell s x i vi).

  Definition write_cell (s : state) (x : string) (i : Z) (vi : vinfo) (v : Z) : state :=
    let m := sset (st_mem s) x i (norm (v_ty vi) v) in
    mkSt (if poisoned s x i then sset m (pkey x) i 0 else m) (st_trace s) (st_steps s).

  (** the char cell an address denotes: the variable of the layout whose extent contains it *)
  Fixpoint cell_at (vars : list (string * vinfo)) (a : Z) : option (string * Z * vinfo) :=
    match vars with
    | [] => None
    | (y, vi) :: r =>
        let n := match v_len vi with Some k => k | None => 1 end in
        match v_ty vi with
        | TU8 | TS8 =>
            if (0 <=? v_addr vi) && (v_addr vi <=? a) && (a <? v_addr vi + n) then Some (y, a - v_addr vi, vi)
            else cell_at r a
        | _ => cell_at r a
        end
    end.

  (** resolve an lvalue to (name, index, info); the index must be clean and in bounds *)
  Definition lv_target (eval : expr -> state -> outcome (value * state)) (lv : expr) (s : state)
    : outcome (string * Z * vinfo * state) :=
    match lv with
    | EVar x =>
        match var_info x with
        | Some vi => match v_len vi with
                     | None => Ok (x, 0, vi, s)
                     | Some _ => Unsupported "array used as a scalar"
                     end
        | None => Unsupported "unknown variable"
        end
    | EIdx a ie =>
        match var_info a with
        | Some vi =>
            match v_len vi with
            | Some n =>
                do r <- eval ie s;
                let '(iv, s1) := r in
                do i <- clean iv;
                if (0 <=? i) && (i <? n) then Ok (a, i, vi, s1) else Unsupported "index out of bounds"
            | None =>
                match v_ty vi with
                | TPtr =>
                    (* p[i]: the char at address p + i, wherever the layout says that is *)
                    do r <- eval ie s;
                    let '(iv, s1) := r in
                    do i <- clean iv;
                    match cell_at (p_vars prog) (wrap_u 16 (sget (st_mem s1) a 0 + i)) with
                    | Some (y, j, vy) => Ok (y, j, vy, s1)
                    | None => Unsupported "pointer outside the variables"
                    end
                | _ => Unsupported "indexing a scalar"
                end
            end
        | None => Unsupported "unknown array"
        end
    | _ => Unsupported "not an lvalue"
    end.

  Fixpoint eval (fuel : nat) (e : expr) (s : state) {struct fuel} : outcome (value * state) :=
    match fuel with
    | O => Fuel
    | S f =>
        let ev := eval f in
        match e with
        | ENum n => Ok (mkVal (c_norm (lit_class n) n) (lit_class n) false, s)
        | EAddr x =>
            match var_info x with
            | Some vi => if 0 <=? v_addr vi then Ok (mkVal (v_addr vi) W16u false, s) else Unsupported "address of a register"
            | None => Unsupported "unknown variable"
            end
        | EVar x =>
            match var_info x with
            | Some vi =>
                match v_len vi with
                | Some _ => Ok (mkVal (v_addr vi) W16u false, s)      (* an array name is its address *)
                | None => do t <- lv_target ev e s;
                          let '(x', i, vi', s1) := t in
                          do v <- read_cell_o s1 x' i vi'; Ok (v, s1)
                end
            | None => Unsupported "unknown variable"
            end
        | EIdx _ _ =>
            do t <- lv_target ev e s;
            let '(x, i, vi, s1) := t in
            do v <- read_cell_o s1 x i vi; Ok (v, s1)
        | EBin LAnd l r =>
            do a <- ev l s; let '(va, s1) := a in
            do x <- clean va;
            if x =? 0 then Ok (mkVal 0 WLit false, s1)
            else (do b <- ev r s1; let '(vb, s2) := b in
                  do y <- clean vb; Ok (mkVal (b2z (negb (y =? 0))) WLit false, s2))
        | EBin LOr l r =>
            do a <- ev l s; let '(va, s1) := a in
            do x <- clean va;
            if negb (x =? 0) then Ok (mkVal 1 WLit false, s1)
            else (do b <- ev r s1; let '(vb, s2) := b in
                  do y <- clean vb; Ok (mkVal (b2z (negb (y =? 0))) WLit false, s2))
        | EBin op l r =>
            do a <- ev l s; let '(va, s1) := a in
            do b <- ev r s1; let '(vb, s2) := b in
            do v <- arith op va vb; Ok (v, s2)
        | EUn Neg a =>
            do r <- ev a s; let '(va, s1) := r in
            Ok (mk (join (wc va) WLit) (- val va) (taint va), s1)
        | EUn BNot a =>
            do r <- ev a s; let '(va, s1) := r in
            Ok (mk (join (wc va) WLit) (- val va - 1) (taint va), s1)
        | EUn LNot a =>
            do r <- ev a s; let '(va, s1) := r in
            do x <- clean va; Ok (mkVal (b2z (x =? 0)) WLit false, s1)
        | EInc k lv =>
            do t <- lv_target ev lv s;
            let '(x, i, vi, s1) := t in
            do old <- read_cell_o s1 x i vi;
            let d := match k with PreInc | PostInc => 1 | _ => -1 end in
            let s2 := write_cell s1 x i vi (val old + d) in
            let nw := read_cell s2 x i vi in
            Ok (match k with PreInc | PreDec => nw | _ => old end, s2)
        | EAsg None lv r =>
            do t <- lv_target ev lv s;
            let '(x, i, vi, s1) := t in
            do b <- ev r s1; let '(vb, s2) := b in
            if v_const vi then Unsupported "assignment to const" else
            let s3 := write_cell s2 x i vi (val vb) in
            Ok (read_cell s3 x i vi, s3)
        | EAsg (Some op) lv r =>
            do t <- lv_target ev lv s;
            let '(x, i, vi, s1) := t in
            do b <- ev r s1; let '(vb, s2) := b in
            if v_const vi then Unsupported "assignment to const" else
            do cur <- read_cell_o s2 x i vi;
            do v <- arith op cur vb;
            (* the compiler computes x op= e in the width of x *)
            if taint v && match op with Shr | Div => true | _ => false end then Undecided else
            let s3 := write_cell s2 x i vi (val v) in
            Ok (read_cell s3 x i vi, s3)
        | ETern c a b =>
            do r <- ev c s; let '(vc, s1) := r in
            do x <- clean vc;
            if negb (x =? 0) then ev a s1 else ev b s1
        | ECall fn args =>
            match find_fn fn (p_funcs prog) with
            | None => Unsupported "unknown function"
            | Some fd =>
                (* arguments left to right into the callee's (static) parameters *)
                let fix pass (ps : list string) (as_ : list expr) (s : state) : outcome state :=
                  match ps, as_ with
                  | [], [] => Ok s
                  | p :: ps', a :: as' =>
                      do r <- ev a s; let '(va, s1) := r in
                      match var_info p with
                      | Some vi => pass ps' as' (write_cell s1 p 0 vi (val va))
                      | None => Unsupported "unknown parameter"
                      end
                  | _, _ => Unsupported "arity"
                  end in
                match tick s with None => Fuel | Some s =>
                do s1 <- pass (f_params fd) args s;
                do r <- exec_list f (f_body fd) s1;
                let '(c, s2) := r in
                match c, f_ret fd with
                | CReturn (Some v), Some rt =>
                    Ok (mkVal (norm rt (val v)) (wclass_of rt) false, s2)
                | _, None => Ok (mkVal 0 WLit false, s2)
                | _, Some _ => Unsupported "missing return value"
                end end
            end
        end
    end

  with exec (fuel : nat) (st : stmt) (s : state) {struct fuel} : outcome (ctl * state) :=
    match fuel with
    | O => Fuel
    | S f =>
        match st with
        | SExpr e => do r <- eval f e s; Ok (CNormal, snd r)
        | SIf c a b =>
            do r <- eval f c s; let '(vc, s1) := r in
            do x <- clean vc;
            if negb (x =? 0) then exec f a s1
            else match b with Some b' => exec f b' s1 | None => Ok (CNormal, s1) end
        | SWhile c b =>
            match tick s with None => Fuel | Some s =>
            do r <- eval f c s; let '(vc, s1) := r in
            do x <- clean vc;
            if x =? 0 then Ok (CNormal, s1) else
            do q <- exec f b s1; let '(k, s2) := q in
            match k with
            | CBreak => Ok (CNormal, s2)
            | CReturn v => Ok (CReturn v, s2)
            | _ => exec f (SWhile c b) s2
            end end
        | SDo b c =>
            match tick s with None => Fuel | Some s =>
            do q <- exec f b s; let '(k, s1) := q in
            match k with
            | CBreak => Ok (CNormal, s1)
            | CReturn v => Ok (CReturn v, s1)
            | _ =>
                do r <- eval f c s1; let '(vc, s2) := r in
                do x <- clean vc;
                if x =? 0 then Ok (CNormal, s2) else exec f (SDo b c) s2
            end end
        | SFor i c u b =>
            do s0 <- match i with Some e => (do r <- eval f e s; Ok (snd r)) | None => Ok s end;
            for_loop f c u b s0
        | SBlock l => exec_list f l s
        | SSwitch e cases dflt =>
            do r <- eval f e s; let '(ve, s1) := r in
            do x <- clean ve;
            (* fall-through: run from the first matching case to the end / a break *)
            let fix find (cs : list (list Z * list stmt)) : option (list stmt) :=
              match cs with
              | [] => None
              | (vals, body) :: rest =>
                  if existsb (fun v => v =? x) vals
                  then Some (body ++ flat_map snd rest ++ match dflt with Some d => d | None => [] end)
                  else find rest
              end in
            let body := match find cases with
                        | Some b => b
                        | None => match dflt with Some d => d | None => [] end
                        end in
            do q <- exec_list f body s1; let '(k, s2) := q in
            match k with
            | CBreak => Ok (CNormal, s2)
            | other => Ok (other, s2)
            end
        | SBreak => Ok (CBreak, s)
        | SContinue => Ok (CContinue, s)
        | SReturn None => Ok (CReturn None, s)
        | SReturn (Some e) => do r <- eval f e s; Ok (CReturn (Some (fst r)), snd r)
        | SLoad e =>
            do r <- eval f e s; let '(v, s1) := r in
            Ok (CNormal, mkSt (st_mem s1) (EvLoad (val v) :: st_trace s1) (st_steps s1))
        | SStore e =>
            match e with
            | EVar x =>
                match var_info x with
                | Some vi =>
                    match v_len vi with
                    | None => let s1 := poison s x 0 in
                              Ok (CNormal, mkSt (st_mem s1) (EvStore x :: st_trace s1) (st_steps s1))
                    | Some _ => Unsupported "store to an array"
                    end
                | None => Ok (CNormal, mkSt (st_mem s) (EvStore x :: st_trace s) (st_steps s))
                end
            | _ => Unsupported "store to a non-variable"
            end
        | SStrobe x => Ok (CNormal, mkSt (st_mem s) (EvStrobe x :: st_trace s) (st_steps s))
        | SCsleep n => Ok (CNormal, mkSt (st_mem s) (EvSleep n :: st_trace s) (st_steps s))
        | SAsm t => Ok (CNormal, mkSt (st_mem s) (EvAsm t :: st_trace s) (st_steps s))
        end
    end

  with for_loop (fuel : nat) (c u : option expr) (b : stmt) (s : state) {struct fuel}
    : outcome (ctl * state) :=
    match fuel with
    | O => Fuel
    | S f =>
        match tick s with None => Fuel | Some s =>
        do go <- match c with
                 | None => Ok (true, s)
                 | Some e => (do r <- eval f e s; let '(vc, s1) := r in
                              do x <- clean vc; Ok (negb (x =? 0), s1))
                 end;
        let '(cont, s1) := go in
        if negb cont then Ok (CNormal, s1) else
        do q <- exec f b s1; let '(k, s2) := q in
        match k with
        | CBreak => Ok (CNormal, s2)
        | CReturn v => Ok (CReturn v, s2)
        | _ =>
            do s3 <- match u with Some e => (do r <- eval f e s2; Ok (snd r)) | None => Ok s2 end;
            for_loop f c u b s3
        end end
    end

  with exec_list (fuel : nat) (l : list stmt) (s : state) {struct fuel} : outcome (ctl * state) :=
    match fuel with
    | O => Fuel
    | S f =>
        match l with
        | [] => Ok (CNormal, s)
        | st :: r =>
            do q <- exec f st s; let '(k, s1) := q in
            match k with
            | CNormal => exec_list f r s1
            | other => Ok (other, s1)
            end
        end
    end.

  Definition run_main (fuel : nat) (steps : N) (s0 : store) : outcome state :=
    do r <- exec_list fuel (p_main prog) (mkSt s0 [] steps);
    Ok (mkSt (st_mem (snd r)) (rev (st_trace (snd r))) (st_steps (snd r))).
End Exec.
