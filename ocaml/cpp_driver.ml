(* Driver of the extracted preprocessor model.  Reads @cpp records (tools/lib/common.py cpp_job):
     @cpp <id> / def <hexname> <hexvalue> / file <hexname> <hexcontent> / name <hex> / src <hex> / @end
   prints one line per record:
     @cppr <id> ok <hex output> | file:line:incfile:incline ... | <hex literal> ...
     @cppr <id> err <syntax|compiler> <hexfile> <line> <hexincfile|-> <incline> <hexmsg>          *)
open Cpp_model

let rec int_of_pos = function XH -> 1 | XO p -> 2 * int_of_pos p | XI p -> 2 * int_of_pos p + 1
let int_of_n = function N0 -> 0 | Npos p -> int_of_pos p
let explode (s : string) : char list = List.init (String.length s) (String.get s)
let implode l = let b = Buffer.create 64 in List.iter (Buffer.add_char b) l; Buffer.contents b
let unhex s =
  if s = "-" then "" else
  String.init (String.length s / 2) (fun i -> Char.chr (int_of_string ("0x" ^ String.sub s (2 * i) 2)))
let hex s =
  if s = "" then "-" else begin
    let b = Buffer.create (2 * String.length s) in
    String.iter (fun c -> Buffer.add_string b (Printf.sprintf "%02x" (Char.code c))) s;
    Buffer.contents b end

(* physical lines as read_line returns them *)
let split_lines (s : string) : string list =
  let n = String.length s in
  let rec go i acc =
    if i >= n then List.rev acc
    else match String.index_from_opt s i '\n' with
      | Some j -> go (j + 1) (String.sub s i (j - i + 1) :: acc)
      | None -> List.rev (String.sub s i (n - i) :: acc) in
  go 0 []

type job = { mutable id : string; mutable defs : (string * string) list; mutable files : (string * string) list;
             mutable name : string; mutable src : string }
let fresh () = { id = ""; defs = []; files = []; name = "main.c"; src = "" }

let run (j : job) =
  let fs = List.rev_map (fun (n, c) -> (explode n, List.map explode (split_lines c))) j.files in
  let defs = List.rev_map (fun (n, v) -> (explode n, explode v)) j.defs in
  let r = try Some (run_cpp fs (explode j.name) defs (List.map explode (split_lines j.src))) with Stack_overflow -> None in
  match r with
  | None -> Printf.printf "@cppr %s overflow\n" j.id
  | Some (POk p) ->
      let lits = List.rev p.p_ctx.c_scan.sc_lits in
      Printf.printf "@cppr %s ok %s | %s | %s\n" j.id (hex (implode p.p_out))
        (String.concat " " (List.rev_map (fun ((f, l), inc) ->
             Printf.sprintf "%s:%d:%s" (hex (implode f)) (int_of_n l)
               (match inc with Some (g, k) -> Printf.sprintf "%s:%d" (hex (implode g)) (int_of_n k) | None -> "-:0")) p.p_map))
        (String.concat " " (List.map (fun l -> hex (implode l)) lits))
  | Some (PErr e) ->
      Printf.printf "@cppr %s err %s %s %d %s %d %s\n" j.id
        (match e.er_kind with ESyntax -> "syntax" | ECompiler -> "compiler")
        (hex (implode e.er_file)) (int_of_n e.er_line)
        (match e.er_inc with Some (g, _) -> hex (implode g) | None -> "-")
        (match e.er_inc with Some (_, k) -> int_of_n k | None -> 0)
        (hex (implode e.er_msg))

let () =
  let ic = open_in Sys.argv.(1) in
  let cur = ref (fresh ()) in
  (try
     while true do
       let l = input_line ic in
       match String.split_on_char ' ' l with
       | "calc" :: id :: toks ->
           (* tokens: numbers, ( ), binary operator spellings, unary as u- u! u~ *)
           let rec pos_of_int i = if i = 1 then XH else if i land 1 = 0 then XO (pos_of_int (i lsr 1)) else XI (pos_of_int (i lsr 1)) in
           let z_of_int i = if i = 0 then Z0 else if i > 0 then Zpos (pos_of_int i) else Zneg (pos_of_int (-i)) in
           let rec int_of_pos = function XH -> 1 | XO p -> 2 * int_of_pos p | XI p -> 2 * int_of_pos p + 1 in
           let int_of_z = function Z0 -> 0 | Zpos p -> int_of_pos p | Zneg p -> - (int_of_pos p) in
           let rec parse (l : string list) : tok list * string list =
             match l with
             | [] -> ([], [])
             | ")" :: r -> ([], r)
             | "(" :: r -> let (inner, r') = parse r in let (rest, r'') = parse r' in (TParen inner :: rest, r'')
             | t :: r ->
                 let tk = match t with
                   | "*" -> TBin OMul | "/" -> TBin ODiv | "+" -> TBin OAdd | "-" -> TBin OSub | "<<" -> TBin OShl
                   | ">>" -> TBin OShr | "&&" -> TBin OLAnd | "||" -> TBin OLOr | "&" -> TBin OAnd | "^" -> TBin OXor
                   | "|" -> TBin OOr | ">=" -> TBin OGte | ">" -> TBin OGt | "<=" -> TBin OLte | "<" -> TBin OLt
                   | "==" -> TBin OEq | "!=" -> TBin ONeq | "?" -> TBin OQ | ":" -> TBin OColon
                   | "u-" -> TUn UNeg | "u!" -> TUn UNot | "u~" -> TUn UBNot
                   | n -> TNum (z_of_int (int_of_string n)) in
                 let (rest, r') = parse r in (tk :: rest, r') in
           let (ts, _) = parse (List.filter (fun x -> x <> "") toks) in
           (match calc ts with
            | COk v -> Printf.printf "@calc %s ok %d\n" id (int_of_z v)
            | CDivZero -> Printf.printf "@calc %s divzero\n" id
            | CShift -> Printf.printf "@calc %s shift\n" id
            | CStuck -> Printf.printf "@calc %s stuck\n" id)
       | "dec" :: id :: pieces ->
           let r = compile_quoted_string (List.map (fun p -> explode (unhex p)) (List.filter (fun x -> x <> "") pieces)) in
           Printf.printf "@dec %s %s\n" id (hex (implode r))
       | "chr" :: id :: p :: _ ->
           (match quoted_character (explode (unhex p)) with
            | Some c -> Printf.printf "@chr %s %d\n" id (Char.code c)
            | None -> Printf.printf "@chr %s none\n" id)
       | "@cpp" :: id :: _ -> cur := fresh (); (!cur).id <- id
       | "@end" :: _ -> run !cur; cur := fresh ()
       | "def" :: n :: v :: _ -> (!cur).defs <- (unhex n, unhex v) :: (!cur).defs
       | "file" :: n :: c :: _ -> (!cur).files <- (unhex n, unhex c) :: (!cur).files
       | "name" :: n :: _ -> (!cur).name <- unhex n
       | "src" :: s :: _ -> (!cur).src <- unhex s
       | _ -> ()
     done
   with End_of_file -> ());
  close_in ic
