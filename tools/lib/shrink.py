"""Delta-debugging of generated programs at AST level: all one-step reductions of the current
program are evaluated in one batch; the first one that still fails is kept."""
import copy


def _stmt_lists(prog):
    """yields (container_list, path description) for every statement list in the program"""
    out = []

    def walk_list(lst):
        out.append(lst)
        for s in lst:
            walk_stmt(s)

    def walk_stmt(s):
        k = s[0]
        if k == 'block':
            walk_list(s[1])
        elif k == 'if':
            walk_stmt(s[2])
            if s[3] is not None:
                walk_stmt(s[3])
        elif k in ('while',):
            walk_stmt(s[2])
        elif k == 'do':
            walk_stmt(s[1])
        elif k == 'for':
            walk_stmt(s[4])
        elif k == 'switch':
            for vals, body in s[2]:
                walk_list(body)
            if s[3] is not None:
                walk_list(s[3])
    walk_list(prog.main)
    for f in prog.funcs:
        walk_list(f['body'])
    return out


def _sub_exprs(e):
    k = e[0]
    if k == 'bin':
        return [e[2], e[3]]
    if k == 'un':
        return [e[2]]
    if k == 'tern':
        return [e[2], e[3]]
    if k == 'call':
        return [('num', 1)] + list(e[2])
    if k == 'idx':
        return [('num', 1)]
    return []


def candidates(prog):
    """list of reduced copies of prog (each differing by one reduction step)"""
    res = []
    lists = _stmt_lists(prog)
    for li, lst in enumerate(lists):
        for si in range(len(lst)):
            # 1. delete the statement
            p2 = copy.deepcopy(prog)
            l2 = _stmt_lists(p2)[li]
            del l2[si]
            res.append(p2)
            s = lst[si]
            k = s[0]
            repl = []
            if k == 'if':
                repl.append([s[2]])
                if s[3] is not None:
                    repl.append([s[3]])
                    repl.append([('if', s[1], s[2], None)])
            elif k == 'while':
                repl.append([s[2]])
            elif k == 'do':
                repl.append([s[1]])
            elif k == 'for':
                repl.append([s[4]])
                if s[1] is not None:
                    repl.append([('expr', s[1]), s[4]])
            elif k == 'block':
                repl.append(list(s[1]))
            elif k == 'switch':
                for vals, body in s[2]:
                    repl.append([x for x in body if x[0] != 'break'])
            elif k == 'expr':
                e = s[1]
                if e[0] == 'asg':
                    for sub in _sub_exprs(e[3]):
                        repl.append([('expr', ('asg', e[1], e[2], sub))])
                    if e[1] != '=':
                        repl.append([('expr', ('asg', '=', e[2], e[3]))])
                    if e[3][0] != 'num':
                        repl.append([('expr', ('asg', e[1], e[2], ('num', 1)))])
            elif k == 'return' and s[1] is not None:
                for sub in _sub_exprs(s[1]):
                    repl.append([('return', sub)])
            for r in repl:
                p2 = copy.deepcopy(prog)
                l2 = _stmt_lists(p2)[li]
                l2[si:si + 1] = copy.deepcopy(r)
                res.append(p2)
            # condition simplification
            if k in ('if', 'while') and s[1][0] == 'bin' and s[1][1] in ('&&', '||'):
                for sub in (s[1][2], s[1][3]):
                    p2 = copy.deepcopy(prog)
                    l2 = _stmt_lists(p2)[li]
                    t = list(l2[si])
                    t[1] = copy.deepcopy(sub)
                    l2[si] = tuple(t)
                    res.append(p2)
    # drop unused functions
    for fi in range(len(prog.funcs)):
        p2 = copy.deepcopy(prog)
        del p2.funcs[fi]
        res.append(p2)
    # drop globals one by one (the compile fails if still used: candidate rejected)
    for gi in range(len(prog.globals)):
        p2 = copy.deepcopy(prog)
        del p2.globals[gi]
        res.append(p2)
    return res


def size_of(prog):
    return len(prog.source())


def shrink(prog, fails_batch, max_rounds=60):
    """fails_batch(list of progs) -> list of bool"""
    cur = prog
    for _ in range(max_rounds):
        cands = candidates(cur)
        cands = [c for c in cands if size_of(c) < size_of(cur)]
        if not cands:
            break
        cands.sort(key=size_of)
        verdicts = fails_batch(cands)
        nxt = None
        for c, v in zip(cands, verdicts):
            if v:
                nxt = c
                break
        if nxt is None:
            break
        cur = nxt
    return cur
