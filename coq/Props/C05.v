(** C05 — output is a deterministic function of source and options: the ordering logic.
    A HashMap iteration is an arbitrary permutation of the table.  Statements only
    (proofs: Proofs/OrderFacts.v; model: Model/Order.v). *)
From Coq Require Import String List Bool Arith Sorting.Permutation.
From CC Require Import Model.Order Proofs.OrderFacts.
Import ListNotations.

(** distinct order numbers => the sorted sequence does not depend on the iteration order *)
Theorem C05_sort_perm_invariant : forall l1 l2 : list entry,
  Permutation l1 l2 -> NoDup (map snd l1) -> sort_by_order l1 = sort_by_order l2.
Proof. exact sort_perm_invariant. Qed.

(** every declaration history (prototypes, re-declarations included) gives distinct order numbers *)
Theorem C05_build_orders_distinct : forall ks, NoDup (map snd (build ks)).
Proof. exact build_orders_distinct. Qed.

(** hence, whatever the hash seed, functions and variables come out in first-declaration order *)
Theorem C05_first_declaration_order : forall ks (l : list entry),
  Permutation l (build ks) -> map fst (sort_by_order l) = nodup_first ks.
Proof. exact build_sorted_is_first_declaration_order. Qed.

(** the stable sort really is stable (ties keep the iteration order: that is why ties are fatal) *)
Theorem C05_sort_stable : forall n l,
  filter (fun x => Nat.eqb (snd x) n) (sort_by_order l) = filter (fun x => Nat.eqb (snd x) n) l.
Proof. exact sort_by_order_stable. Qed.

(** the repaired defect: with the old length-based re-insertion, "prototype f; define f; define g"
    gives f and g the same number and two iteration orders give two outputs *)
Example C05_old_reinsertion_refuted :
  exists l1 l2, Permutation l1 (build_old ["f"; "f"; "g"]%string) /\
                Permutation l2 (build_old ["f"; "f"; "g"]%string) /\
                map fst (sort_by_order l1) <> map fst (sort_by_order l2).
Proof. exact old_reinsertion_order_depends_on_iteration. Qed.
