(** C10 — compile-time constant expressions evaluate as in C.  Model: Model/Calc.v (pest's Pratt
    algorithm with the calculator's table), tied to parse_calc by tools/props/c10.py. *)
From Coq Require Import String List Bool ZArith Lia.
From CC Require Import Model.Calc Model.CalcSpec Proofs.CalcFacts.
Import ListNotations.
Open Scope Z_scope.

Definition seq2 (o1 o2 : bop) (a b c : Z) : cres :=
  if c_groups_left o1 o2
  then match apply_bin o1 a b with COk v => apply_bin o2 v c | e => e end
  else match apply_bin o2 b c with COk v => apply_bin o1 a v | e => e end.

(** for every pair of binary operators (289 pairs) and all operand values, "a o1 b o2 c" is
    grouped as C groups it (since the repair of the equality/relational level: no exception) *)
Theorem C10_pairs_grouped_as_C : forall o1 o2 a b c,
  is_ternary o1 = false -> is_ternary o2 = false ->
  calc [TNum a; TBin o1; TNum b; TBin o2; TNum c] = seq2 o1 o2 a b c.
Proof.
  intros o1 o2 a b c H1 H2.
  destruct o1; try discriminate H1; destruct o2; try discriminate H2.
  all: unfold calc, seq2, c_groups_left; cbn -[apply_bin].
  all: repeat match goal with |- context [apply_bin ?o ?x ?y] => destruct (apply_bin o x y) end; try reflexivity.
Qed.

(** the former deviation is gone: 2 == 1 < 1 is 2 == (1 < 1) = 0, as in C *)
Theorem C10_eq_rel_precedence_fixed :
  calc [TNum 2; TBin OEq; TNum 1; TBin OLt; TNum 1] = COk 0 /\ seq2 OEq OLt 2 1 1 = COk 0.
Proof. split; vm_compute; reflexivity. Qed.

(** unary operators bind tighter than every binary operator *)
Theorem C10_unary_binds_tightest : forall u o a b,
  is_ternary o = false ->
  calc [TUn u; TNum a; TBin o; TNum b] = apply_bin o (apply_un u a) b.
Proof.
  intros u o a b H. destruct o; try discriminate H; unfold calc; cbn -[apply_bin apply_un]; destruct (apply_bin _ _ _); reflexivity.
Qed.

(** comparison and logical operators (including !) yield 0 or 1 *)
Theorem C10_truth_values : forall o a b v,
  In o [OGte; OGt; OLte; OLt; OEq; ONeq; OLAnd; OLOr] -> apply_bin o a b = COk v -> v = 0 \/ v = 1.
Proof.
  intros o a b v H E. cbn in H.
  repeat (destruct H as [<- | H]; [cbn in E; injection E as <-; match goal with |- context [b2z ?x] => destruct x end; auto|]).
  destruct H.
Qed.
Theorem C10_not_is_logical : forall a, apply_un UNot a = if a =? 0 then 1 else 0.
Proof. intros a. unfold apply_un, b2z. reflexivity. Qed.

(** truncating division, rejected when the divisor is zero *)
Theorem C10_division : forall a b, apply_bin ODiv a b = if b =? 0 then CDivZero else COk (wrap32 (Z.quot a b)).
Proof. reflexivity. Qed.

(** c ? a : b *)
Theorem C10_ternary_correct : forall c a b,
  a <> sentinel -> calc [TNum c; TBin OQ; TNum a; TBin OColon; TNum b] = COk (if c =? 0 then b else a).
Proof.
  intros c a b H. unfold calc. cbn -[Z.eqb sentinel].
  destruct (c =? 0) eqn:E; cbn -[Z.eqb sentinel].
  - rewrite Z.eqb_refl. reflexivity.
  - destruct (a =? sentinel) eqn:E2; [apply Z.eqb_eq in E2; contradiction | reflexivity].
Qed.

(** known finding: a conditional nested in the middle operand (0 ? 0 ? 1 : 2 : 3 is 3 in C) *)
Theorem C10_ternary_nested_refuted :
  calc [TNum 0; TBin OQ; TNum 0; TBin OQ; TNum 1; TBin OColon; TNum 2; TBin OColon; TNum 3] = COk 2.
Proof. vm_compute. reflexivity. Qed.

(** ** the general statement (Model/CalcSpec.v, Proofs/CalcFacts.v): every expression built from
    numbers, the three prefix operators and the 17 binary operators other than ? and : — of any
    size and nesting, written as C's grammar requires (parentheses where a left operand's top
    operator is lower, a right operand's lower or equal, a prefix operand's binary) and with any
    further parentheses the programmer adds — is evaluated by the calculator, with the fuel it
    really uses, to the value (or the error) that C's grouping gives *)
Theorem C10_calc_groups_as_C : forall e, no_ternary e -> calc (lin e) = ceval e.
Proof. exact calc_lin. Qed.

(** redundant parentheses do not matter *)
Theorem C10_redundant_parens : forall e, no_ternary e -> calc (lin (EPar e)) = calc (lin e).
Proof. exact calc_lin_par. Qed.

(** the unparser read as "needs parentheses" is the same function *)
Theorem C10_calc_groups_as_C_np : forall e, no_ternary e -> calc (lin_np e) = ceval e.
Proof. exact calc_lin_np. Qed.

(** a zero divisor anywhere is reported, not folded *)
Theorem C10_div_zero_general : forall l r a,
  no_ternary l -> no_ternary r -> ceval l = COk a -> ceval r = COk 0 ->
  calc (lin (EBin ODiv l r)) = CDivZero.
Proof. exact calc_lin_div_zero. Qed.

(** non-vacuity: 1 + 2 * 3 - (4 - 5) << 1 == 7 | 8 *)
Theorem C10_calc_groups_as_C_example :
  no_ternary ex7 /\ calc (lin ex7) = COk 8 /\ ceval ex7 = COk 8.
Proof. exact (conj ex7_no_ternary ex7_both_ways). Qed.
