(** POINTER operations (Model/GenPtr.v) on the executable 6502 semantics (M6502/Sem.v): for ALL
    byte-valued machine states, [ports cfg = []], [Sem.run] halts normally ([halts_to]) and the
    final state is what the C statement says.

    The layout hypotheses, explicit in every statement:
      [zp_ptr cfg p pp]      the pointer [p] occupies the two consecutive ZERO-PAGE cells [pp], [pp+1]
                             ([exec] resolves [(p),Y] only when [pp < 255]: [eff_addr], [OInd]);
      [tmp_wf cfg pp pt]     the scratch cell [cctmp] is at [pt], outside the stack page, not a cell
                             of the pointer;  [ptr_wf] = both;
      [var_wf cfg x px pp pt]  the 8-bit variable [x] is at [px], outside the stack page, not a cell
                             of the pointer, not the scratch cell;
      [no_self_alias pp pt t]  THE ALIASING HYPOTHESIS: the cell [t] the pointer designates (its
                             16-bit value plus the index, mod 65536) is none of [pp], [pp+1], [pt].
                             It MAY be the cell of any variable or array element.
    [ptr_val st pp] = lo + 256 * hi of the two cells of the pointer; [ptr_at m pp y] = the cell
    [(p),Y] designates when Y = [y]: [(ptr_val + y) mod 65536].

    [deref_load_correct]    [dst = *p;]     dst' = mem[(p)]; Y restored (X, S kept); only [dst] and
                            [cctmp] changed
    [deref_store_correct]   [*p = src;]     mem'[(p)] = src (variable or constant); only that cell
                            and [cctmp] changed
    [idx_load_correct], [idx_store_correct]      the constant-index forms [p[k]]
    [idx_y_load_correct], [idx_y_store_correct]  Y is the index: no parking, no aliasing hypothesis
    [addr_of_correct], [ptr_copy_correct]        [p = &x;] / [p = arr;]: [ptr_val] = the address;
                            [q = p;]
    [addr_of_deref_correct], [addr_of_idx_load_correct]   [p = &x; dst = *p;]: dst' = x;
                            [p = arr; dst = p[k];]: dst' = arr[k] (no aliasing hypothesis on the
                            state: the layout says where [p] points)
    [ptr_inc_correct], [ptr_dec_correct], [ptr_add_correct]   (v + 1), (v - 1), (v + k) mod 65536
    [deref_inc_correct], [deref_add_correct], [deref_plus_correct]   [( *p )++;], [*p += k;],
                            [dst = *p + y;]
    [if_deref_tpl_correct]  [if ( *p ) B] for ANY body [B] (specification on byte-valued states, no
                            RTS / RTI, the end label fresh): when the designated cell is not 0 the
                            body runs from a state with Y RESTORED; when it is 0 control arrives
                            at the end label in [deref_tested st pt 0]: Y = 0
    [if_deref_taken_correct], [if_deref_zero_y_lost], [if_deref_zero_y_changed]   the two halves
                            for the body [dst = k;]: the listing does NOT restore Y when [*p] = 0
    [if_deref_y_not_restored]   the Coq-checked witness of that defect: the exact listing run by
                            [Sem.run] on a concrete state with Y = 7 ends with Y = 0
    and the closed forms of the 17 listings under one layout hypothesis [ptr_layout]
    ([plisting_NN_correct]), satisfiable ([cfg_ptr_layout]). *)
From Coq Require Import String Ascii List Bool Arith NArith ZArith Lia ZifyBool.
From CC Require Import Base.Str Asm.Lines M6502.Isa Asm.Operand M6502.Sem
  Model.OptSem Proofs.OptSemFacts Model.GenTemplates Proofs.GenTemplatesFacts
  Proofs.GenCmp16Facts Model.GenLoops Proofs.GenLoopsFacts Model.GenTables Proofs.GenTablesFacts
  Model.GenIf Proofs.GenIfFacts Model.GenPtr.
Import ListNotations.
Open Scope string_scope.
Open Scope list_scope.
Open Scope Z_scope.

Ltac Zify.zify_post_hook ::= Z.div_mod_to_equations.

(** * Operand texts: [#<x], [#>x], [(p),Y] *)

Lemma pstr_length_app : forall a b, String.length (a ++ b) = (String.length a + String.length b)%nat.
Proof.
  induction a as [|c a IH]; intros b; [reflexivity|]. cbn [append String.length]. rewrite IH. reflexivity.
Qed.
Print Assumptions pstr_length_app.

Lemma pstring_take_app : forall a b, string_take (String.length a) (a ++ b) = a.
Proof.
  induction a as [|c a IH]; intros b; [reflexivity|].
  cbn [append String.length string_take]. rewrite IH. reflexivity.
Qed.
Print Assumptions pstring_take_app.

Lemma pstrip_suffix_app : forall b suf, strip_suffix suf (b ++ suf) = Some b.
Proof.
  intros b suf. unfold strip_suffix.
  assert (He : ends_with suf (b ++ suf) = true).
  { unfold ends_with. rewrite rev_string_app.
    generalize (rev_string suf) (rev_string b). intros x y.
    induction x as [|c x IH]; [reflexivity|]. cbn [append starts_with].
    rewrite Ascii.eqb_refl. exact IH. }
  rewrite He. rewrite pstr_length_app. rewrite Nat.add_sub. rewrite pstring_take_app. reflexivity.
Qed.
Print Assumptions pstrip_suffix_app.

Lemma parse_sym_ident : forall v, v <> ""%string -> all_ident v = true -> parse_sym_off v = Some (v, 0).
Proof.
  intros v Hne Hid. unfold parse_sym_off. rewrite (ident_no_plus _ Hid).
  destruct (String.eqb_spec v ""); [contradiction|reflexivity].
Qed.
Print Assumptions parse_sym_ident.

Lemma parse_paren_ident : forall c r, is_ident_char c = true ->
  parse_paren_sym_off (String c r) = parse_sym_off (String c r).
Proof.
  intros c r H. destruct c as [b0 b1 b2 b3 b4 b5 b6 b7].
  destruct b0, b1, b2, b3, b4, b5, b6, b7; try reflexivity; vm_compute in H; discriminate H.
Qed.
Print Assumptions parse_paren_ident.

(** [p] is a pointer symbol: a plain symbol whose indirect text denotes [(p),Y] *)
Definition ptr_name (p : string) : Prop :=
  var_name p /\
  forall m, takes_label m = false -> parse_operand m (ind p) = Some (OInd p 0).

(** [x] is a symbol whose address bytes can be taken *)
Definition sym_name (x : string) : Prop :=
  forall m, takes_label m = false ->
    parse_operand m (immlo x) = Some (OImm (ILo x 0)) /\
    parse_operand m (immhi x) = Some (OImm (IHi x 0)).

Theorem ident_ptr_name : forall v, v <> ""%string -> all_ident v = true -> ptr_name v.
Proof.
  intros v Hne Hid. split; [apply ident_var_name; assumption|].
  intros m Hm. rewrite parse_operand_eq, Hm. unfold ind. cbn [append].
  change (String.eqb (String "(" (v ++ "),Y")) "") with false. cbv iota.
  change (Ascii.eqb "("%char "#"%char) with false.
  change (Ascii.eqb "("%char "("%char) with true. cbv iota.
  unfold parse_ind. rewrite pstrip_suffix_app. rewrite (parse_sym_ident v Hne Hid). reflexivity.
Qed.
Print Assumptions ident_ptr_name.

Theorem ident_sym_name : forall v, v <> ""%string -> all_ident v = true -> sym_name v.
Proof.
  intros v Hne Hid m Hm.
  assert (Hp : parse_paren_sym_off v = Some (v, 0)).
  { destruct v as [|c r]; [contradiction|].
    pose proof Hid as Hid'. cbn [all_ident] in Hid'. apply andb_true_iff in Hid'.
    rewrite (parse_paren_ident c r (proj1 Hid')). apply parse_sym_ident; assumption. }
  split; rewrite parse_operand_eq, Hm; unfold immlo, immhi; cbn [append].
  - change (String.eqb (String "#" (String "<" v)) "") with false. cbv iota.
    change (Ascii.eqb "#"%char "#"%char) with true. cbv iota.
    cbn [parse_imm]. rewrite Hp. reflexivity.
  - change (String.eqb (String "#" (String ">" v)) "") with false. cbv iota.
    change (Ascii.eqb "#"%char "#"%char) with true. cbv iota.
    cbn [parse_imm]. rewrite Hp. reflexivity.
Qed.
Print Assumptions ident_sym_name.

Lemma pn_var : forall p, ptr_name p -> var_name p.
Proof. intros p H. exact (proj1 H). Qed.
Print Assumptions pn_var.
Lemma pn_ind : forall p m, ptr_name p -> takes_label m = false ->
  parse_operand m (ind p) = Some (OInd p 0).
Proof. intros p m H Hm. exact (proj2 H m Hm). Qed.
Print Assumptions pn_ind.
Lemma sn_lo : forall x m, sym_name x -> takes_label m = false ->
  parse_operand m (immlo x) = Some (OImm (ILo x 0)).
Proof. intros x m H Hm. exact (proj1 (H m Hm)). Qed.
Print Assumptions sn_lo.
Lemma sn_hi : forall x m, sym_name x -> takes_label m = false ->
  parse_operand m (immhi x) = Some (OImm (IHi x 0)).
Proof. intros x m H Hm. exact (proj2 (H m Hm)). Qed.
Print Assumptions sn_hi.

Lemma cctmp_var_name : var_name cctmp.
Proof. apply ident_var_name; [discriminate|reflexivity]. Qed.
Print Assumptions cctmp_var_name.

(** * One-step lemmas: the indirect indexed mode and the address immediates *)

(** the 16-bit value of the pointer at [pp] and the cell [(p),Y] designates when Y = [y] *)
Definition ptr_val (st : mstate) (pp : Z) : Z := word (mem st) pp.
Definition ptr_at (m : memory) (pp y : Z) : Z := (word m pp + y) mod 65536.

Definition ind_cross (s : mstate) (pp : Z) : bool :=
  negb ((word (mem s) pp + rY s) / 256 =? word (mem s) pp / 256).

Lemma eff_addr_ind : forall cfg m s p pp, ports cfg = [] ->
  layout cfg p = Some pp -> 0 <= pp -> pp + 1 < 256 ->
  eff_addr cfg m s (OInd p 0) = Some (ptr_at (mem s) pp (rY s), IndY, ind_cross s pp).
Proof.
  intros cfg m s p pp Hp Hl H0 H1. unfold eff_addr, ptr_at, ind_cross, word. rewrite Hl, Hp.
  rewrite Z.add_0_r. cbn [read_addr].
  destruct (Z.ltb_spec pp 255); [reflexivity|lia].
Qed.
Print Assumptions eff_addr_ind.

Lemma exec_rd_ind : forall cfg m s p pp, ports cfg = [] -> is_rd m = true ->
  layout cfg p = Some pp -> 0 <= pp -> pp + 1 < 256 ->
  exec cfg m (OInd p 0) s
  = XOk (rd_sem m s (mget (mem s) (ptr_at (mem s) pp (rY s)))) (cyc m IndY (ind_cross s pp)) FNext.
Proof.
  intros cfg m s p pp Hp Hm Hl H0 H1.
  pose proof (eff_addr_ind cfg m s p pp Hp Hl H0 H1) as He.
  destruct m; try discriminate Hm; unfold exec, read_operand; rewrite He, Hp; reflexivity.
Qed.
Print Assumptions exec_rd_ind.

Lemma exec_st_ind : forall cfg m s p pp, ports cfg = [] -> is_st m = true ->
  layout cfg p = Some pp -> 0 <= pp -> pp + 1 < 256 ->
  exec cfg m (OInd p 0) s
  = XOk (set_mem s (mset (mem s) (ptr_at (mem s) pp (rY s)) (st_reg m s)))
        (cyc m IndY (ind_cross s pp)) FNext.
Proof.
  intros cfg m s p pp Hp Hm Hl H0 H1.
  pose proof (eff_addr_ind cfg m s p pp Hp Hl H0 H1) as He.
  destruct m; try discriminate Hm; unfold exec, write_operand; rewrite He, Hp; reflexivity.
Qed.
Print Assumptions exec_st_ind.

Lemma exec_rd_immlo : forall cfg m s x px, is_rd m = true -> layout cfg x = Some px ->
  exec cfg m (OImm (ILo x 0)) s = XOk (rd_sem m s (byte px)) (base_cycles m Imm) FNext.
Proof.
  intros cfg m s x px Hm Hl.
  destruct m; try discriminate Hm; unfold exec, read_operand, imm_value; rewrite Hl, Z.add_0_r;
    reflexivity.
Qed.
Print Assumptions exec_rd_immlo.

Lemma exec_rd_immhi : forall cfg m s x px, is_rd m = true -> layout cfg x = Some px ->
  exec cfg m (OImm (IHi x 0)) s = XOk (rd_sem m s (byte (px / 256))) (base_cycles m Imm) FNext.
Proof.
  intros cfg m s x px Hm Hl.
  destruct m; try discriminate Hm; unfold exec, read_operand, imm_value; rewrite Hl, Z.add_0_r;
    reflexivity.
Qed.
Print Assumptions exec_rd_immhi.

(** * Well-formed layouts, the aliasing hypothesis *)

(** the pointer [p] occupies the two consecutive ZERO-PAGE cells [pp], [pp+1] (the indirect
    indexed mode takes its base address from page zero only) *)
Definition zp_ptr (cfg : config) (p : string) (pp : Z) : Prop :=
  ptr_name p /\ layout cfg p = Some pp /\ 0 <= pp /\ pp + 1 < 256.

(** the scratch cell [cctmp] is at [pt]: not a cell of the pointer, outside the stack page *)
Definition tmp_wf (cfg : config) (pp pt : Z) : Prop :=
  layout cfg cctmp = Some pt /\ 0 <= pt < 65536 /\ ~ (256 <= pt < 512) /\
  pt <> pp /\ pt <> pp + 1.

Definition ptr_wf (cfg : config) (p : string) (pp pt : Z) : Prop :=
  zp_ptr cfg p pp /\ tmp_wf cfg pp pt.

(** an 8-bit variable [x] at [px]: not a cell of the pointer, not the scratch cell, outside the
    stack page *)
Definition var_wf (cfg : config) (x : string) (px pp pt : Z) : Prop :=
  var_name x /\ layout cfg x = Some px /\ 0 <= px < 65536 /\ ~ (256 <= px < 512) /\
  px <> pp /\ px <> pp + 1 /\ px <> pt.

(** THE ALIASING HYPOTHESIS: the cell [t] the pointer designates is none of the pointer's own two
    cells nor the scratch cell.  (It MAY be the cell of any variable, of an array element, of
    another pointer: that is the point of a pointer.) *)
Definition no_self_alias (pp pt t : Z) : Prop := t <> pp /\ t <> pp + 1 /\ t <> pt.

(** * Tactics *)

Ltac pparse_tac :=
  first [ apply parse_empty
        | apply vn_lo; [assumption|reflexivity]
        | apply vn_hi; [assumption|reflexivity]
        | apply pn_ind; [assumption|reflexivity]
        | apply sn_lo; [assumption|reflexivity]
        | apply sn_hi; [assumption|reflexivity]
        | apply parse_imm_num; [reflexivity|lia]
        | apply parse_lbl; [reflexivity|assumption] ].

Ltac pslines_tac :=
  repeat first [ apply slines_nil
               | eapply slines_ins; [pparse_tac|]
               | eapply slines_lbl ].

Ltac pxstep :=
  first
  [ xstep
  | erewrite xf_next by (first
      [ apply exec_rd_ind; [assumption|reflexivity|eassumption|lia|lia]
      | apply exec_st_ind; [assumption|reflexivity|eassumption|lia|lia]
      | apply exec_rd_immlo; [reflexivity|eassumption]
      | apply exec_rd_immhi; [reflexivity|eassumption] ]) ].

Ltac ptr_unfold :=
  cbn [idx_load deref_load idx_store deref_store idx_y_load idx_y_store deref_add deref_inc
       deref_plus if_deref_tpl addr_of_tpl park src_text assign8 app].

Ltac prun_tac :=
  eapply runs_to_intro with (n := 30%nat);
  [ ptr_unfold; pslines_tac
  | cbn [fwd_ok targets In]; tauto
  | repeat pxstep; reflexivity ].

Ltac wf_destruct :=
  repeat match goal with
  | H : ptr_wf _ _ _ _ |- _ => destruct H as [? ?]
  | H : zp_ptr _ _ _ |- _ =>
      let N := fresh "Np" in let L := fresh "Lp" in let R0 := fresh "Rp" in let R1 := fresh "Rp'" in
      destruct H as (N & L & R0 & R1); pose proof (pn_var _ N)
  | H : tmp_wf _ _ _ |- _ =>
      let L := fresh "Lt" in let R := fresh "Rt" in let S := fresh "St" in
      let D0 := fresh "Dt" in let D1 := fresh "Dt'" in
      destruct H as (L & R & S & D0 & D1)
  | H : var_wf _ _ _ _ _ |- _ =>
      let N := fresh "Nv" in let L := fresh "Lv" in let R := fresh "Rv" in let S := fresh "Sv" in
      let D0 := fresh "Dv" in let D1 := fresh "Dv'" in let D2 := fresh "Dv''" in
      destruct H as (N & L & R & S & D0 & D1 & D2)
  | H : no_self_alias _ _ _ |- _ =>
      let A0 := fresh "Al" in let A1 := fresh "Al'" in let A2 := fresh "Al''" in
      destruct H as (A0 & A1 & A2)
  end;
  pose proof cctmp_var_name.

Lemma word_range : forall st p, bytes_ok st -> 0 <= word (mem st) p < 65536.
Proof.
  intros st p (_ & _ & _ & _ & HM). unfold word.
  pose proof (HM p). pose proof (HM (p + 1)). lia.
Qed.
Print Assumptions word_range.

Lemma ptr_at_range : forall m pp y, 0 <= ptr_at m pp y < 65536.
Proof. intros m pp y. unfold ptr_at. apply Z.mod_pos_bound. lia. Qed.
Print Assumptions ptr_at_range.

Lemma word_mset_other : forall m a v p, a <> p -> a <> p + 1 -> 0 <= a -> 0 <= p ->
  word (mset m a v) p = word m p.
Proof.
  intros m a v p H0 H1 Ha Hp. unfold word. rewrite !mget_mset_other by lia. reflexivity.
Qed.
Print Assumptions word_mset_other.

Lemma ptr_at_mset_other : forall m a v p y, a <> p -> a <> p + 1 -> 0 <= a -> 0 <= p ->
  ptr_at (mset m a v) p y = ptr_at m p y.
Proof. intros. unfold ptr_at. rewrite word_mset_other by assumption. reflexivity. Qed.
Print Assumptions ptr_at_mset_other.

Ltac pmem_simp :=
  repeat match goal with
  | |- context [mget (mset ?m ?a ?v) ?b] =>
      first [ rewrite (mget_mset_eq m a b v) by lia
            | rewrite (mget_mset_other m a b v) by lia ]
  end.

Ltac ptr_ranges :=
  repeat match goal with
  | |- context [ptr_at ?m ?p ?y] =>
      lazymatch goal with
      | _ : 0 <= ptr_at m p y < 65536 |- _ => fail
      | _ => pose proof (ptr_at_range m p y)
      end
  end.

(** the pointer is not touched by the writes to other cells; constants are bytes *)
Ltac pnorm :=
  rewrite ?ptr_at_mset_other by lia; rewrite ?word_mset_other by lia;
  repeat match goal with |- context [byte ?k] => rewrite (byte_small k) by lia end;
  ptr_ranges.

Ltac pfin_tac :=
  repeat match goal with |- _ /\ _ => split end;
  try reflexivity;
  try (let a := fresh "a" in let Ha := fresh "Ha" in let Hn := fresh "Hn" in
       intros a Ha Hn; cbn [In] in Hn; pmem_simp; reflexivity);
  try (pmem_simp; unfold byte; reflexivity).

Theorem idx_load_correct : forall cfg dst p k pd pp pt st,
  ports cfg = [] -> ptr_wf cfg p pp pt -> var_wf cfg dst pd pp pt -> 0 <= k < 256 ->
  bytes_ok st ->
  no_self_alias pp pt (ptr_at (mem st) pp k) ->
  exists st', halts_to cfg (idx_load dst p k) st st' /\
    mget (mem st') pd = mget (mem st) (ptr_at (mem st) pp k) /\
    only_changes [pd; pt] st st' /\ keeps_xys st st'.
Proof.
  intros cfg dst p k pd pp pt st Hp Wp Wd Rk Hb Hal. wf_destruct.
  eexists. split; [apply runs_to_halts_to; prun_tac|]. post_tac. pnorm. pfin_tac.
Qed.
Print Assumptions idx_load_correct.

Lemma ptr_at_zero : forall st pp, bytes_ok st -> ptr_at (mem st) pp 0 = ptr_val st pp.
Proof.
  intros st pp Hb. unfold ptr_at, ptr_val. rewrite Z.add_0_r.
  apply Z.mod_small. apply word_range. exact Hb.
Qed.
Print Assumptions ptr_at_zero.

(** ** [dst = *p;] *)
Theorem deref_load_correct : forall cfg dst p pd pp pt st,
  ports cfg = [] -> ptr_wf cfg p pp pt -> var_wf cfg dst pd pp pt ->
  bytes_ok st ->
  no_self_alias pp pt (ptr_val st pp) ->
  exists st', halts_to cfg (deref_load dst p) st st' /\
    mget (mem st') pd = mget (mem st) (ptr_val st pp) /\
    only_changes [pd; pt] st st' /\ keeps_xys st st'.
Proof.
  intros cfg dst p pd pp pt st Hp Wp Wd Hb Hal.
  rewrite <- (ptr_at_zero st pp Hb) in *.
  apply (idx_load_correct cfg dst p 0 pd pp pt st Hp Wp Wd ltac:(lia) Hb Hal).
Qed.
Print Assumptions deref_load_correct.

(** ** stores through the pointer *)

(** the source of a parked store: a variable as above, or a byte constant *)
Definition src_wf (cfg : config) (s : src8) (pp pt : Z) : Prop :=
  match s with
  | SVar x => exists px, var_wf cfg x px pp pt
  | SConst k => 0 <= k < 256
  end.

(** the source of a store without parking: any variable, or a byte constant *)
Definition src_ok (cfg : config) (s : src8) : Prop :=
  match s with
  | SVar x => var_at cfg x
  | SConst k => 0 <= k < 256
  end.

Definition src_val (cfg : config) (s : src8) (st : mstate) : Z :=
  match s with SVar x => var_val cfg x st | SConst k => k end.

Theorem idx_store_correct : forall cfg p k src pp pt st,
  ports cfg = [] -> ptr_wf cfg p pp pt -> src_wf cfg src pp pt -> 0 <= k < 256 ->
  bytes_ok st ->
  no_self_alias pp pt (ptr_at (mem st) pp k) ->
  exists st', halts_to cfg (idx_store p k src) st st' /\
    mget (mem st') (ptr_at (mem st) pp k) = src_val cfg src st /\
    only_changes [ptr_at (mem st) pp k; pt] st st' /\ keeps_xys st st'.
Proof.
  intros cfg p k src pp pt st Hp Wp Ws Rk Hb Hal.
  destruct src as [x|c]; cbn [src_wf src_val] in *.
  - destruct Ws as (px & Wx). wf_destruct. unfold var_val. rewrite Lv.
    eexists. split; [apply runs_to_halts_to; prun_tac|]. post_tac. pnorm. pfin_tac.
  - wf_destruct.
    eexists. split; [apply runs_to_halts_to; prun_tac|]. post_tac. pnorm. pfin_tac.
Qed.
Print Assumptions idx_store_correct.

(** [*p = src;] *)
Theorem deref_store_correct : forall cfg p src pp pt st,
  ports cfg = [] -> ptr_wf cfg p pp pt -> src_wf cfg src pp pt ->
  bytes_ok st ->
  no_self_alias pp pt (ptr_val st pp) ->
  exists st', halts_to cfg (deref_store p src) st st' /\
    mget (mem st') (ptr_val st pp) = src_val cfg src st /\
    only_changes [ptr_val st pp; pt] st st' /\ keeps_xys st st'.
Proof.
  intros cfg p src pp pt st Hp Wp Ws Hb Hal.
  rewrite <- (ptr_at_zero st pp Hb) in *.
  apply (idx_store_correct cfg p 0 src pp pt st Hp Wp Ws ltac:(lia) Hb Hal).
Qed.
Print Assumptions deref_store_correct.

(** ** Y is the index: no parking, no aliasing hypothesis *)
Theorem idx_y_load_correct : forall cfg dst p pd pp st,
  ports cfg = [] -> zp_ptr cfg p pp ->
  var_name dst -> layout cfg dst = Some pd -> 0 <= pd < 65536 ->
  exists st', halts_to cfg (idx_y_load dst p) st st' /\
    mget (mem st') pd = mget (mem st) (ptr_at (mem st) pp (rY st)) /\
    only_changes [pd] st st' /\ keeps_xys st st'.
Proof.
  intros cfg dst p pd pp st Hp Wp Nd Ld Rd. wf_destruct.
  eexists. split; [apply runs_to_halts_to; prun_tac|]. post_tac. pnorm. pfin_tac.
Qed.
Print Assumptions idx_y_load_correct.

Theorem idx_y_store_correct : forall cfg p src pp st,
  ports cfg = [] -> zp_ptr cfg p pp -> src_ok cfg src ->
  exists st', halts_to cfg (idx_y_store p src) st st' /\
    mget (mem st') (ptr_at (mem st) pp (rY st)) = src_val cfg src st /\
    only_changes [ptr_at (mem st) pp (rY st)] st st' /\ keeps_xys st st'.
Proof.
  intros cfg p src pp st Hp Wp Ws.
  destruct src as [x|c]; cbn [src_ok src_val] in *.
  - destruct Ws as (Nx & px & Lx & Rx). wf_destruct. unfold var_val. rewrite Lx.
    eexists. split; [apply runs_to_halts_to; prun_tac|]. post_tac. pnorm. pfin_tac.
  - wf_destruct.
    eexists. split; [apply runs_to_halts_to; prun_tac|]. post_tac. pnorm. pfin_tac.
Qed.
Print Assumptions idx_y_store_correct.

(** ** [p = &x;] / [p = arr;]: the pointer holds the address of the symbol *)

Lemma word_addr : forall m pp px, 0 <= pp -> 0 <= px < 65536 ->
  word (mset (mset m pp (byte px)) (pp + 1) (byte (px / 256))) pp = px.
Proof.
  intros m pp px Hpp Hpx. unfold word. rewrite mget_mset_same.
  rewrite mget_mset_other by lia. rewrite mget_mset_same. unfold byte. lia.
Qed.
Print Assumptions word_addr.

Theorem addr_of_correct : forall cfg p x pp px st,
  ports cfg = [] -> var_name p -> sym_name x ->
  layout cfg p = Some pp -> layout cfg x = Some px ->
  0 <= pp -> pp + 1 < 65536 -> 0 <= px < 65536 ->
  exists st', halts_to cfg (addr_of_tpl p x) st st' /\
    ptr_val st' pp = px /\
    only_changes [pp; pp + 1] st st' /\ keeps_xys st st'.
Proof.
  intros cfg p x pp px st Hp Np Nx Lp Lx Rp Rp' Rx.
  eexists. split; [apply runs_to_halts_to; prun_tac|]. post_tac. unfold ptr_val. state_simp.
  split; [apply word_addr; lia|]. pfin_tac.
Qed.
Print Assumptions addr_of_correct.

(** [q = p;] *)
Theorem ptr_copy_correct : forall cfg q p pq pp st,
  ports cfg = [] -> var_name q -> var_name p ->
  layout cfg q = Some pq -> layout cfg p = Some pp ->
  0 <= pq -> pq + 1 < 65536 -> 0 <= pp -> pp + 1 < 65536 -> pq <> pp + 1 ->
  exists st', halts_to cfg (ptr_copy_tpl q p) st st' /\
    ptr_val st' pq = ptr_val st pp /\
    only_changes [pq; pq + 1] st st' /\ keeps_xys st st'.
Proof.
  intros cfg q p pq pp st Hp Nq Np Lq Lp Rq Rq' Rp Rp' Hne.
  destruct (copy16_correct cfg q p pq pp st Hp Nq Np Lq Lp Rq Rq' Rp Rp' Hne)
    as (st' & Hr & _ & _ & Hw & Hf).
  exists st'. split; [apply runs_to_halts_to; exact Hr|]. split; [exact Hw|exact Hf].
Qed.
Print Assumptions ptr_copy_correct.

(** ** address-of, then a load through the pointer: [p = arr; dst = p[k];] reads [arr[k]] *)
Theorem addr_of_idx_load_correct : forall cfg p x dst k px pd pp pt st,
  ports cfg = [] -> ptr_wf cfg p pp pt -> sym_name x -> layout cfg x = Some px ->
  0 <= px -> 0 <= k < 256 -> px + k < 65536 ->
  var_wf cfg dst pd pp pt ->
  no_self_alias pp pt (px + k) ->
  exists st', halts_to cfg (addr_of_tpl p x ++ idx_load dst p k) st st' /\
    mget (mem st') pd = mget (mem st) (px + k) /\
    ptr_val st' pp = px /\
    only_changes [pp; pp + 1; pd; pt] st st' /\ keeps_xys st st'.
Proof.
  intros cfg p x dst k px pd pp pt st Hp Wp Nx Lx Rx Rk Rxk Wd Hal. wf_destruct.
  eexists. split; [apply runs_to_halts_to; prun_tac|]. post_tac. unfold ptr_val. state_simp.
  pnorm.
  assert (E : forall y, ptr_at (mset (mset (mem st) pp (byte px)) (pp + 1) (px / 256)) pp y
                        = (px + y) mod 65536).
  { intros y. unfold ptr_at, word. pmem_simp. unfold byte. f_equal. lia. }
  rewrite !E in *. rewrite (Z.mod_small (px + k)) in * by lia.
  split; [pmem_simp; reflexivity|].
  split; [unfold word; pmem_simp; unfold byte; lia|]. pfin_tac.
Qed.
Print Assumptions addr_of_idx_load_correct.

(** [p = &x; dst = *p;]: [dst] holds [x] *)
Theorem addr_of_deref_correct : forall cfg p x dst px pd pp pt st,
  ports cfg = [] -> ptr_wf cfg p pp pt -> sym_name x ->
  var_wf cfg x px pp pt -> var_wf cfg dst pd pp pt ->
  exists st', halts_to cfg (addr_of_tpl p x ++ deref_load dst p) st st' /\
    mget (mem st') pd = mget (mem st) px /\
    ptr_val st' pp = px /\
    only_changes [pp; pp + 1; pd; pt] st st' /\ keeps_xys st st'.
Proof.
  intros cfg p x dst px pd pp pt st Hp Wp Nx Wx Wd.
  destruct Wx as (_ & Lx & Rx & _ & D0 & D1 & D2).
  destruct (addr_of_idx_load_correct cfg p x dst 0 px pd pp pt st Hp Wp Nx Lx ltac:(lia) ltac:(lia)
              ltac:(lia) Wd) as (st' & Hr & Hv & Hf).
  { rewrite Z.add_0_r. repeat split; assumption. }
  rewrite Z.add_0_r in Hv. exists st'. split; [exact Hr|]. split; [exact Hv|exact Hf].
Qed.
Print Assumptions addr_of_deref_correct.

(** ** pointer arithmetic: the 16-bit forms, element size 1 *)
Theorem ptr_inc_correct : forall cfg p lbl pp st,
  ports cfg = [] -> var_name p -> lbl <> ""%string -> layout cfg p = Some pp ->
  0 <= pp -> pp + 1 < 65536 -> bytes_ok st ->
  exists st', halts_to cfg (ptr_inc p lbl) st st' /\
    ptr_val st' pp = (ptr_val st pp + 1) mod 65536 /\
    only_changes [pp; pp + 1] st st' /\ keeps_xys st st'.
Proof.
  intros cfg p lbl pp st Hp Np Hl Lp Rp Rp' Hb.
  destruct (inc16_correct cfg p lbl pp st Hp Np Hl Lp Rp Rp' Hb) as (st' & Hr & Hf).
  exists st'. split; [apply runs_to_halts_to; exact Hr|exact Hf].
Qed.
Print Assumptions ptr_inc_correct.

Theorem ptr_dec_correct : forall cfg p lbl pp st,
  ports cfg = [] -> var_name p -> lbl <> ""%string -> layout cfg p = Some pp ->
  0 <= pp -> pp + 1 < 65536 -> bytes_ok st ->
  exists st', halts_to cfg (ptr_dec p lbl) st st' /\
    ptr_val st' pp = (ptr_val st pp - 1) mod 65536 /\
    only_changes [pp; pp + 1] st st' /\ keeps_xys st st'.
Proof.
  intros cfg p lbl pp st Hp Np Hl Lp Rp Rp' Hb.
  destruct (dec16_correct cfg p lbl pp st Hp Np Hl Lp Rp Rp' Hb) as (st' & Hr & Hf).
  exists st'. split; [apply runs_to_halts_to; exact Hr|exact Hf].
Qed.
Print Assumptions ptr_dec_correct.

Theorem ptr_add_correct : forall cfg p k pp st,
  ports cfg = [] -> var_name p -> layout cfg p = Some pp ->
  0 <= pp -> pp + 1 < 65536 -> 0 <= k < 65536 -> bytes_ok st ->
  exists st', halts_to cfg (ptr_add p k) st st' /\
    ptr_val st' pp = (ptr_val st pp + k) mod 65536 /\
    only_changes [pp; pp + 1] st st' /\ keeps_xys st st'.
Proof.
  intros cfg p k pp st Hp Np Lp Rp Rp' Rk Hb.
  destruct (addconst16_correct cfg p k pp st Hp Np Lp Rp Rp' Rk Hb) as (st' & Hr & Hf).
  exists st'. split; [apply runs_to_halts_to; exact Hr|exact Hf].
Qed.
Print Assumptions ptr_add_correct.

(** ** [*p += k;], [( *p )++;], [dst = *p + y;] *)
Theorem deref_add_correct : forall cfg p k pp pt st,
  ports cfg = [] -> ptr_wf cfg p pp pt -> 0 <= k < 256 -> bytes_ok st ->
  no_self_alias pp pt (ptr_val st pp) ->
  exists st', halts_to cfg (deref_add p k) st st' /\
    mget (mem st') (ptr_val st pp) = (mget (mem st) (ptr_val st pp) + k) mod 256 /\
    only_changes [ptr_val st pp; pt] st st' /\ keeps_xys st st'.
Proof.
  intros cfg p k pp pt st Hp Wp Rk Hb Hal.
  rewrite <- (ptr_at_zero st pp Hb) in *. wf_destruct.
  eexists. split; [apply runs_to_halts_to; prun_tac|]. post_tac. pnorm. pfin_tac.
Qed.
Print Assumptions deref_add_correct.

(** [( *p )++;]: the designated cell is incremented mod 256 *)
Theorem deref_inc_correct : forall cfg p pp pt st,
  ports cfg = [] -> ptr_wf cfg p pp pt -> bytes_ok st ->
  no_self_alias pp pt (ptr_val st pp) ->
  exists st', halts_to cfg (deref_inc p) st st' /\
    mget (mem st') (ptr_val st pp) = (mget (mem st) (ptr_val st pp) + 1) mod 256 /\
    only_changes [ptr_val st pp; pt] st st' /\ keeps_xys st st'.
Proof.
  intros cfg p pp pt st Hp Wp Hb Hal.
  apply (deref_add_correct cfg p 1 pp pt st Hp Wp ltac:(lia) Hb Hal).
Qed.
Print Assumptions deref_inc_correct.

Theorem deref_plus_correct : forall cfg dst p y pd py pp pt st,
  ports cfg = [] -> ptr_wf cfg p pp pt -> var_wf cfg dst pd pp pt -> var_wf cfg y py pp pt ->
  bytes_ok st ->
  no_self_alias pp pt (ptr_val st pp) ->
  exists st', halts_to cfg (deref_plus dst p y) st st' /\
    mget (mem st') pd = (mget (mem st) (ptr_val st pp) + mget (mem st) py) mod 256 /\
    only_changes [pd; pt] st st' /\ keeps_xys st st'.
Proof.
  intros cfg dst p y pd py pp pt st Hp Wp Wd Wy Hb Hal.
  rewrite <- (ptr_at_zero st pp Hb) in *. wf_destruct.
  eexists. split; [apply runs_to_halts_to; prun_tac|]. post_tac. pnorm. pfin_tac.
Qed.
Print Assumptions deref_plus_correct.

(** * The condition [if ( *p ) B]

    As emitted, the [BEQ] to the end label precedes the [LDY cctmp]: Y is restored only on the
    path into the body. *)

(** the state after [STY cctmp; LDY #0; LDA (p),Y] when the designated cell holds [v]: this is the
    state at the end label when [v = 0] (Y = 0: the parked value is NOT restored) ... *)
Definition deref_tested (st : mstate) (pt v : Z) : mstate :=
  set_nz (set_a (set_nz (set_y (set_mem st (mset (mem st) pt (rY st))) 0) 0) v) v.
(** ... and the state in which the body starts when [v <> 0]: Y restored *)
Definition deref_restored (st : mstate) (pt v : Z) : mstate :=
  set_nz (set_y (deref_tested st pt v) (rY st)) (rY st).

(** the assembled head of the template *)
Definition sderef_head (p lbl : string) : list sline :=
  [SIns STY (OMem cctmp 0 IxNone) false cctmp;
   SIns LDY (OImm (INum 0)) false (imm 0);
   SIns LDA (OInd p 0) false (ind p);
   sbr BEQ lbl false;
   SIns LDY (OMem cctmp 0 IxNone) false cctmp].

Lemma slines_if_deref : forall p B slB lbl, ptr_name p -> lbl <> ""%string ->
  slines_of B = Some slB ->
  slines_of (if_deref_tpl p B lbl) = Some (sderef_head p lbl ++ slB ++ [SLbl lbl]).
Proof.
  intros p B slB lbl Np Hl HB. unfold if_deref_tpl. pose proof cctmp_var_name.
  apply slines_app; [unfold sderef_head, sbr; pslines_tac|].
  apply slines_app; [exact HB|reflexivity].
Qed.
Print Assumptions slines_if_deref.

Lemma deref_restored_bytes_ok : forall st pt v, bytes_ok st -> 0 <= v < 256 ->
  bytes_ok (deref_restored st pt v).
Proof.
  intros st pt v (HA & HX & HY & HS & HM) Hv.
  unfold deref_restored, deref_tested, set_nz, set_y, set_a, set_mem.
  cbn [rA rX rY rS fN fV fZ fC mem].
  apply bytes_ok_mk; try assumption. intros a. apply mget_mset_bytes; [apply HM|exact HY].
Qed.
Print Assumptions deref_restored_bytes_ok.

Lemma if_deref_reach : forall cfg p lbl slB pp pt N (R : mstate -> mstate -> Prop) st,
  ports cfg = [] -> ptr_wf cfg p pp pt ->
  no_ret_s slB -> ~ In lbl (sdefs slB) -> bytes_ok st ->
  no_self_alias pp pt (ptr_val st pp) ->
  (mget (mem st) (ptr_val st pp) <> 0 ->
     exists st', sl_halts cfg slB N (deref_restored st pt (mget (mem st) (ptr_val st pp))) st' /\
                 R (deref_restored st pt (mget (mem st) (ptr_val st pp))) st') ->
  reach cfg (sderef_head p lbl ++ slB ++ [SLbl lbl]) 0 st
    (fun (_ pc' : nat) (s' : mstate) =>
      pc' = length (sderef_head p lbl ++ slB ++ [SLbl lbl]) /\
      if mget (mem st) (ptr_val st pp) =? 0
      then s' = deref_tested st pt 0
      else R (deref_restored st pt (mget (mem st) (ptr_val st pp))) s').
Proof.
  intros cfg p lbl slB pp pt N R st Hp Wp Hnr Fl Hb Hal Hbody.
  rewrite <- (ptr_at_zero st pp Hb) in *. wf_destruct.
  remember (sderef_head p lbl ++ slB ++ [SLbl lbl]) as sl eqn:Esl.
  assert (E3 : sl = (sderef_head p lbl ++ slB) ++ SLbl lbl :: [])
    by (subst sl; rewrite <- !app_assoc; reflexivity).
  assert (Hlen : length sl = S (length (sderef_head p lbl ++ slB)))
    by (rewrite E3, app_length; cbn [length]; lia).
  assert (Hkl : find_label lbl sl 0 = Some (length (sderef_head p lbl ++ slB))).
  { rewrite E3. apply find_label_mid. rewrite sdefs_app. cbn [sderef_head sbr sdefs app]. exact Fl. }
  assert (Hn : forall i, (i < 5)%nat -> nth_error sl i = nth_error (sderef_head p lbl) i).
  { intros i Hi. subst sl. apply nth_error_app1. cbn [sderef_head length]. exact Hi. }
  eapply reach_next; [rewrite Hn by lia; reflexivity
                     |apply exec_st_mem; [assumption|reflexivity|eassumption|lia]|].
  eapply reach_next; [rewrite Hn by lia; reflexivity|apply exec_rd_imm; reflexivity|].
  eapply reach_next; [rewrite Hn by lia; reflexivity
                     |apply exec_rd_ind; [assumption|reflexivity|eassumption|lia|lia]|].
  state_simp. change (byte 0) with 0. pose proof (ptr_at_range (mem st) pp 0) as RT.
  rewrite ptr_at_mset_other by lia. rewrite (mget_mset_other (mem st) pt) by lia.
  set (T := ptr_at (mem st) pp 0) in *. set (v := mget (mem st) T) in *.
  fold (deref_tested st pt v).
  eapply reach_branch; [rewrite Hn by lia; reflexivity|reflexivity|exact Hkl|].
  cbn [branch_taken]. unfold deref_tested at 1. cbn [fZ set_nz].
  destruct (v =? 0) eqn:Ev.
  - apply Z.eqb_eq in Ev. rewrite Ev.
    eapply reach_lbl_mid; [exact E3|reflexivity|].
    apply reach_stop. split; [rewrite Hlen; reflexivity|reflexivity].
  - apply Z.eqb_neq in Ev. destruct (Hbody Ev) as (st' & Hh & HR).
    eapply reach_next; [rewrite Hn by lia; reflexivity
                       |apply exec_rd_mem; [assumption|reflexivity|eassumption|lia]|].
    rewrite Z.add_0_r. cbn [rd_sem].
    replace (mget (mem (deref_tested st pt v)) pt) with (rY st)
      by (unfold deref_tested; cbn [mem set_nz set_a set_y set_mem]; rewrite mget_mset_same;
          reflexivity).
    fold (deref_restored st pt v). apply reach_seq.
    eapply (reach_body cfg sl slB (sderef_head p lbl) [SLbl lbl] 5 N _ st');
      [exact Esl|reflexivity|exact Hh|exact Hnr| |].
    + intros l _ Hin. cbn [sderef_head sbr sdefs] in Hin. exact Hin.
    + intros n1 Hn1. cbv beta.
      eapply reach_lbl_mid; [exact E3|rewrite app_length; reflexivity|].
      apply reach_stop. split; [rewrite Hlen, app_length; reflexivity|exact HR].
Qed.
Print Assumptions if_deref_reach.

(** ** [if_deref_tpl_correct]: any body

    The body [B] has the specification [R] on byte-valued states, contains no RTS / RTI and does
    not define the label of the template.  Then [if ( *p ) B] halts normally from any byte-valued
    [st] satisfying the aliasing hypothesis, and
      - if the designated cell is NOT 0: [R mid st'] where [mid = deref_restored ...] is the state
        in which the body starts: Y RESTORED, X, S as in [st], memory that of [st] but for the
        scratch cell ([deref_restored_spec]);
      - if it is 0: the final state is [deref_tested st pt 0]: Y = 0, the parked value is NOT
        restored ([deref_tested_spec]). *)
Theorem if_deref_tpl_correct : forall cfg p B lbl pp pt (R : mstate -> mstate -> Prop) st,
  ports cfg = [] -> ptr_wf cfg p pp pt -> lbl <> ""%string ->
  no_ret B -> fresh_in lbl B ->
  (forall s, bytes_ok s -> exists s', halts_to cfg B s s' /\ R s s') ->
  bytes_ok st ->
  no_self_alias pp pt (ptr_val st pp) ->
  exists st', halts_to cfg (if_deref_tpl p B lbl) st st' /\
    (if mget (mem st) (ptr_val st pp) =? 0
     then st' = deref_tested st pt 0
     else R (deref_restored st pt (mget (mem st) (ptr_val st pp))) st').
Proof.
  intros cfg p B lbl pp pt R st Hp Wp Hl Hnr Fl HB Hb Hal.
  destruct (HB st Hb) as (s0 & (slB & HslB & _) & _).
  unfold fresh_in in Fl. rewrite <- (slines_defs _ _ HslB) in Fl.
  pose proof (proj1 (proj1 Wp)) as Np.
  assert (Hv : 0 <= mget (mem st) (ptr_val st pp) < 256) by (apply Hb).
  pose proof (deref_restored_bytes_ok st pt _ Hb Hv) as Hbm.
  destruct (HB _ Hbm) as (st1 & Hh1 & HR1).
  destruct (halts_to_sl_halts _ _ _ _ _ HslB Hh1) as (N & HN).
  eapply halts_to_reach; [apply (slines_if_deref p B slB lbl Np Hl HslB)|].
  apply (if_deref_reach cfg p lbl slB pp pt N R st Hp Wp (slines_no_ret _ _ HslB Hnr) Fl Hb Hal).
  intros _. exists st1. split; [exact HN|exact HR1].
Qed.
Print Assumptions if_deref_tpl_correct.

(** where the body starts: Y, X, S of [st]; memory of [st] but for the scratch cell *)
Lemma deref_restored_spec : forall st pt v,
  rY (deref_restored st pt v) = rY st /\ rX (deref_restored st pt v) = rX st /\
  rS (deref_restored st pt v) = rS st /\ rA (deref_restored st pt v) = v /\
  mem (deref_restored st pt v) = mset (mem st) pt (rY st).
Proof. intros st pt v. repeat split; reflexivity. Qed.
Print Assumptions deref_restored_spec.

(** where control arrives when the designated cell is 0: Y = 0 *)
Lemma deref_tested_spec : forall st pt v,
  rY (deref_tested st pt v) = 0 /\ rX (deref_tested st pt v) = rX st /\
  rS (deref_tested st pt v) = rS st /\ rA (deref_tested st pt v) = v /\
  mem (deref_tested st pt v) = mset (mem st) pt (rY st).
Proof. intros st pt v. repeat split; reflexivity. Qed.
Print Assumptions deref_tested_spec.

(** ** [if ( *p ) dst = k;]: the two halves *)

(** the designated cell is not 0: the body runs, Y is restored *)
Theorem if_deref_taken_correct : forall cfg p dst k lbl pd pp pt st,
  ports cfg = [] -> ptr_wf cfg p pp pt -> lbl <> ""%string ->
  var_wf cfg dst pd pp pt -> 0 <= k < 256 ->
  bytes_ok st ->
  no_self_alias pp pt (ptr_val st pp) ->
  mget (mem st) (ptr_val st pp) <> 0 ->
  exists st', halts_to cfg (if_deref_tpl p (assign8 dst k) lbl) st st' /\
    mget (mem st') pd = k /\
    only_changes [pd; pt] st st' /\ keeps_xys st st'.
Proof.
  intros cfg p dst k lbl pd pp pt st Hp Wp Hl Wd Rk Hb Hal Hv.
  pose proof Wd as (Nd & Ld & Rd & _ & _ & _ & Dt).
  pose proof Wp as (_ & (_ & Rt & _)).
  destruct (if_deref_tpl_correct cfg p (assign8 dst k) lbl pp pt
              (fun s s' => mget (mem s') pd = k /\ only_changes [pd] s s' /\ keeps_xys s s') st
              Hp Wp Hl (assign8_no_ret _ _) (assign8_fresh _ _ _)
              (fun s _ => match assign8_correct cfg dst k pd s Hp Nd Ld Rd Rk with
                          | ex_intro _ s' (conj Hr HP) =>
                              ex_intro _ s' (conj (runs_to_halts_to _ _ _ _ Hr) HP)
                          end) Hb Hal) as (st' & Hr & HP).
  exists st'. split; [exact Hr|].
  destruct (Z.eqb_spec (mget (mem st) (ptr_val st pp)) 0) as [E|_]; [contradiction|].
  destruct HP as (Hk & Hoc & Kx & Ky & Ks).
  destruct (deref_restored_spec st pt (mget (mem st) (ptr_val st pp))) as (Ey & Ex & Es & _ & Em).
  split; [exact Hk|]. split.
  - intros a Ha Hn. cbn [In] in Hn. rewrite (Hoc a Ha) by (cbn [In]; tauto).
    rewrite Em. apply mget_mset_other; lia.
  - repeat split; congruence.
Qed.
Print Assumptions if_deref_taken_correct.

(** the designated cell is 0: control falls to the end label with Y = 0: the value of Y parked
    in [cctmp] is lost (it is still in [cctmp]); nothing else changed *)
Theorem if_deref_zero_y_lost : forall cfg p dst k lbl pd pp pt st,
  ports cfg = [] -> ptr_wf cfg p pp pt -> lbl <> ""%string ->
  var_wf cfg dst pd pp pt -> 0 <= k < 256 ->
  bytes_ok st ->
  no_self_alias pp pt (ptr_val st pp) ->
  mget (mem st) (ptr_val st pp) = 0 ->
  exists st', halts_to cfg (if_deref_tpl p (assign8 dst k) lbl) st st' /\
    rY st' = 0 /\ mget (mem st') pt = rY st /\
    rX st' = rX st /\ rS st' = rS st /\ only_changes [pt] st st'.
Proof.
  intros cfg p dst k lbl pd pp pt st Hp Wp Hl Wd Rk Hb Hal Hv.
  pose proof Wd as (Nd & Ld & Rd & _ & _ & _ & Dt).
  pose proof Wp as (_ & (_ & Rt & _)).
  destruct (if_deref_tpl_correct cfg p (assign8 dst k) lbl pp pt
              (fun s s' => mget (mem s') pd = k /\ only_changes [pd] s s' /\ keeps_xys s s') st
              Hp Wp Hl (assign8_no_ret _ _) (assign8_fresh _ _ _)
              (fun s _ => match assign8_correct cfg dst k pd s Hp Nd Ld Rd Rk with
                          | ex_intro _ s' (conj Hr HP) =>
                              ex_intro _ s' (conj (runs_to_halts_to _ _ _ _ Hr) HP)
                          end) Hb Hal) as (st' & Hr & HP).
  exists st'. split; [exact Hr|]. rewrite Hv in HP. cbn [Z.eqb] in HP. subst st'.
  unfold deref_tested. cbn [rY rX rS mem set_nz set_a set_y set_mem].
  split; [reflexivity|]. split; [apply mget_mset_same|]. split; [reflexivity|]. split; [reflexivity|].
  intros a Ha Hn. cbn [In] in Hn. apply mget_mset_other; lia.
Qed.
Print Assumptions if_deref_zero_y_lost.

(** in particular, whenever Y is not 0 on entry, the statement does NOT preserve Y *)
Corollary if_deref_zero_y_changed : forall cfg p dst k lbl pd pp pt st,
  ports cfg = [] -> ptr_wf cfg p pp pt -> lbl <> ""%string ->
  var_wf cfg dst pd pp pt -> 0 <= k < 256 ->
  bytes_ok st ->
  no_self_alias pp pt (ptr_val st pp) ->
  mget (mem st) (ptr_val st pp) = 0 -> rY st <> 0 ->
  exists st', halts_to cfg (if_deref_tpl p (assign8 dst k) lbl) st st' /\ ~ keeps_xys st st'.
Proof.
  intros cfg p dst k lbl pd pp pt st Hp Wp Hl Wd Rk Hb Hal Hv Hy.
  destruct (if_deref_zero_y_lost cfg p dst k lbl pd pp pt st Hp Wp Hl Wd Rk Hb Hal Hv)
    as (st' & Hr & Ey & _).
  exists st'. split; [exact Hr|]. intros (_ & Ky & _). congruence.
Qed.
Print Assumptions if_deref_zero_y_changed.

(** * The listings: [unsigned char a, b, c; unsigned char arr[8]; unsigned char *p, *q;]

    One well-formedness hypothesis on the layout, then the closed form of every pinned listing
    ([plisting_NN] of Model/GenPtr.v) with the compiler's own names and label. *)

Fixpoint all_sat (P : Z -> Prop) (l : list Z) : Prop :=
  match l with [] => True | x :: r => P x /\ all_sat P r end.
Fixpoint distinct (l : list Z) : Prop :=
  match l with [] => True | x :: r => all_sat (fun y => x <> y) r /\ distinct r end.

(** [a], [b], [c] at [pa], [pb], [pc]; [arr] at [parr .. parr+7]; [p] at [pp], [pp+1]; [q] at [pq],
    [pq+1]; the scratch cell at [pt]:
      - [p] and [q] occupy two consecutive ZERO-PAGE cells each;
      - all cells are addresses outside the stack page;
      - the cells of a, b, c, cctmp, p, q are pairwise distinct, and none is a cell of [arr]. *)
Definition ptr_layout (cfg : config) (pa pb pc parr pp pq pt : Z) : Prop :=
  ports cfg = [] /\
  layout cfg "a" = Some pa /\ layout cfg "b" = Some pb /\ layout cfg "c" = Some pc /\
  layout cfg "arr" = Some parr /\ layout cfg "p" = Some pp /\ layout cfg "q" = Some pq /\
  layout cfg cctmp = Some pt /\
  (0 <= pp /\ pp + 1 < 256) /\ (0 <= pq /\ pq + 1 < 256) /\
  all_sat (fun x => 0 <= x < 65536 /\ ~ (256 <= x < 512)) [pa; pb; pc; pt] /\
  (0 <= parr /\ parr + 8 <= 65536 /\ ~ (parr < 512 /\ 256 < parr + 8)) /\
  distinct [pa; pb; pc; pt; pp; pp + 1; pq; pq + 1] /\
  all_sat (fun x => x < parr \/ parr + 8 <= x) [pa; pb; pc; pt; pp; pp + 1; pq; pq + 1].

Lemma ptr_names_listing :
  ptr_name "p" /\ ptr_name "q" /\ var_name "a" /\ var_name "b" /\ var_name "c" /\
  sym_name "a" /\ sym_name "arr".
Proof.
  repeat match goal with |- _ /\ _ => split end;
    first [ apply ident_ptr_name; [discriminate|reflexivity]
          | apply ident_var_name; [discriminate|reflexivity]
          | apply ident_sym_name; [discriminate|reflexivity] ].
Qed.
Print Assumptions ptr_names_listing.

Ltac lay H :=
  let Hp := fresh "Hp" in
  destruct H as (Hp & La & Lb & Lc & Larr & Lp & Lq & Lt & Zp & Zq & Hrange & Harr & Hdist & Hoff);
  cbn [all_sat distinct] in Hrange, Hdist, Hoff;
  destruct ptr_names_listing as (Np & Nq & Na & Nb & Nc & Sa & Sarr).

Lemma ptr_layout_p : forall cfg pa pb pc parr pp pq pt,
  ptr_layout cfg pa pb pc parr pp pq pt ->
  ports cfg = [] /\ ptr_wf cfg "p" pp pt /\ ptr_wf cfg "q" pq pt /\
  var_wf cfg "a" pa pp pt /\ var_wf cfg "b" pb pp pt /\ var_wf cfg "c" pc pp pt /\
  (layout cfg "arr" = Some parr /\ 0 <= parr /\ parr + 8 <= 65536) /\
  (forall i, 0 <= i < 8 -> no_self_alias pp pt (parr + i)) /\
  pq <> pp + 1.
Proof.
  intros cfg pa pb pc parr pp pq pt H. lay H.
  assert (Warr : forall i, 0 <= i < 8 -> no_self_alias pp pt (parr + i)).
  { clear Hdist Hrange. intros i Hi. unfold no_self_alias. lia. }
  repeat match goal with K : _ /\ _ |- _ => destruct K end.
  unfold ptr_wf, zp_ptr, tmp_wf, var_wf.
  repeat match goal with |- _ /\ _ => split end; try assumption.
  apply not_eq_sym. assumption.
Qed.
Print Assumptions ptr_layout_p.

Ltac lay_p H :=
  let W := fresh "W" in
  pose proof (ptr_layout_p _ _ _ _ _ _ _ _ H) as W;
  pose proof W as (_ & ((_ & Lp & Rp & Rp') & _) & ((_ & Lq & Rq & Rq') & _) & (_ & La & Ra & _) & _);
  destruct W as (Hp & Wp & Wq & Wa & Wb & Wc & (Larr & Rarr & Rarr') & Warr & Dqp);
  destruct ptr_names_listing as (Np & Nq & Na & Nb & Nc & Sa & Sarr);
  pose proof (proj1 Np) as Vp; pose proof (proj1 Nq) as Vq.

(** p = &a;  /  p = arr; *)
Corollary plisting_01_correct : forall cfg pa pb pc parr pp pq pt st,
  ptr_layout cfg pa pb pc parr pp pq pt ->
  exists st', halts_to cfg (addr_of_tpl "p" "a") st st' /\
    ptr_val st' pp = pa /\ only_changes [pp; pp + 1] st st' /\ keeps_xys st st'.
Proof.
  intros cfg pa pb pc parr pp pq pt st H. lay_p H.
  apply addr_of_correct; try assumption; lia.
Qed.
Print Assumptions plisting_01_correct.

Corollary plisting_02_correct : forall cfg pa pb pc parr pp pq pt st,
  ptr_layout cfg pa pb pc parr pp pq pt ->
  exists st', halts_to cfg (addr_of_tpl "p" "arr") st st' /\
    ptr_val st' pp = parr /\ only_changes [pp; pp + 1] st st' /\ keeps_xys st st'.
Proof.
  intros cfg pa pb pc parr pp pq pt st H. lay_p H.
  apply addr_of_correct; try assumption; lia.
Qed.
Print Assumptions plisting_02_correct.

(** q = p; *)
Corollary plisting_03_correct : forall cfg pa pb pc parr pp pq pt st,
  ptr_layout cfg pa pb pc parr pp pq pt ->
  exists st', halts_to cfg (ptr_copy_tpl "q" "p") st st' /\
    ptr_val st' pq = ptr_val st pp /\ only_changes [pq; pq + 1] st st' /\ keeps_xys st st'.
Proof.
  intros cfg pa pb pc parr pp pq pt st H. lay_p H.
  apply ptr_copy_correct; try assumption; lia.
Qed.
Print Assumptions plisting_03_correct.

(** a = *p; *)
Corollary plisting_04_correct : forall cfg pa pb pc parr pp pq pt st,
  ptr_layout cfg pa pb pc parr pp pq pt -> bytes_ok st ->
  no_self_alias pp pt (ptr_val st pp) ->
  exists st', halts_to cfg (deref_load "a" "p") st st' /\
    mget (mem st') pa = mget (mem st) (ptr_val st pp) /\
    only_changes [pa; pt] st st' /\ keeps_xys st st'.
Proof.
  intros cfg pa pb pc parr pp pq pt st H Hb Hal. lay_p H.
  apply deref_load_correct; assumption.
Qed.
Print Assumptions plisting_04_correct.

(** *p = a;  /  *p = 5; *)
Corollary plisting_05_correct : forall cfg pa pb pc parr pp pq pt st,
  ptr_layout cfg pa pb pc parr pp pq pt -> bytes_ok st ->
  no_self_alias pp pt (ptr_val st pp) ->
  exists st', halts_to cfg (deref_store "p" (SVar "a")) st st' /\
    mget (mem st') (ptr_val st pp) = mget (mem st) pa /\
    only_changes [ptr_val st pp; pt] st st' /\ keeps_xys st st'.
Proof.
  intros cfg pa pb pc parr pp pq pt st H Hb Hal. lay_p H.
  destruct (deref_store_correct cfg "p" (SVar "a") pp pt st Hp Wp
              (ex_intro _ pa Wa) Hb Hal) as (st' & Hr & Hv & Hf).
  exists st'. split; [exact Hr|]. split; [|exact Hf].
  etransitivity; [exact Hv|]. cbn [src_val]. unfold var_val. rewrite La. reflexivity.
Qed.
Print Assumptions plisting_05_correct.

Corollary plisting_06_correct : forall cfg pa pb pc parr pp pq pt st,
  ptr_layout cfg pa pb pc parr pp pq pt -> bytes_ok st ->
  no_self_alias pp pt (ptr_val st pp) ->
  exists st', halts_to cfg (deref_store "p" (SConst 5)) st st' /\
    mget (mem st') (ptr_val st pp) = 5 /\
    only_changes [ptr_val st pp; pt] st st' /\ keeps_xys st st'.
Proof.
  intros cfg pa pb pc parr pp pq pt st H Hb Hal. lay_p H.
  apply (deref_store_correct cfg "p" (SConst 5) pp pt st Hp Wp ltac:(cbn; lia) Hb Hal).
Qed.
Print Assumptions plisting_06_correct.

(** a = p[Y];  /  p[Y] = a; *)
Corollary plisting_07_correct : forall cfg pa pb pc parr pp pq pt st,
  ptr_layout cfg pa pb pc parr pp pq pt ->
  exists st', halts_to cfg (idx_y_load "a" "p") st st' /\
    mget (mem st') pa = mget (mem st) ((ptr_val st pp + rY st) mod 65536) /\
    only_changes [pa] st st' /\ keeps_xys st st'.
Proof.
  intros cfg pa pb pc parr pp pq pt st H. lay_p H.
  apply (idx_y_load_correct cfg "a" "p" pa pp st Hp (proj1 Wp) Na La Ra).
Qed.
Print Assumptions plisting_07_correct.

Corollary plisting_08_correct : forall cfg pa pb pc parr pp pq pt st,
  ptr_layout cfg pa pb pc parr pp pq pt ->
  exists st', halts_to cfg (idx_y_store "p" (SVar "a")) st st' /\
    mget (mem st') ((ptr_val st pp + rY st) mod 65536) = mget (mem st) pa /\
    only_changes [(ptr_val st pp + rY st) mod 65536] st st' /\ keeps_xys st st'.
Proof.
  intros cfg pa pb pc parr pp pq pt st H. lay_p H.
  destruct (idx_y_store_correct cfg "p" (SVar "a") pp st Hp (proj1 Wp)
              (conj Na (ex_intro _ pa (conj La Ra)))) as (st' & Hr & Hv & Hf).
  exists st'. split; [exact Hr|]. split; [|exact Hf].
  etransitivity; [exact Hv|]. cbn [src_val]. unfold var_val. rewrite La. reflexivity.
Qed.
Print Assumptions plisting_08_correct.

(** a = p[2];  /  p[2] = a; *)
Corollary plisting_09_correct : forall cfg pa pb pc parr pp pq pt st,
  ptr_layout cfg pa pb pc parr pp pq pt -> bytes_ok st ->
  no_self_alias pp pt ((ptr_val st pp + 2) mod 65536) ->
  exists st', halts_to cfg (idx_load "a" "p" 2) st st' /\
    mget (mem st') pa = mget (mem st) ((ptr_val st pp + 2) mod 65536) /\
    only_changes [pa; pt] st st' /\ keeps_xys st st'.
Proof.
  intros cfg pa pb pc parr pp pq pt st H Hb Hal. lay_p H.
  apply (idx_load_correct cfg "a" "p" 2 pa pp pt st Hp Wp Wa ltac:(lia) Hb Hal).
Qed.
Print Assumptions plisting_09_correct.

Corollary plisting_10_correct : forall cfg pa pb pc parr pp pq pt st,
  ptr_layout cfg pa pb pc parr pp pq pt -> bytes_ok st ->
  no_self_alias pp pt ((ptr_val st pp + 2) mod 65536) ->
  exists st', halts_to cfg (idx_store "p" 2 (SVar "a")) st st' /\
    mget (mem st') ((ptr_val st pp + 2) mod 65536) = mget (mem st) pa /\
    only_changes [(ptr_val st pp + 2) mod 65536; pt] st st' /\ keeps_xys st st'.
Proof.
  intros cfg pa pb pc parr pp pq pt st H Hb Hal. lay_p H.
  destruct (idx_store_correct cfg "p" 2 (SVar "a") pp pt st Hp Wp
              (ex_intro _ pa Wa) ltac:(lia) Hb Hal) as (st' & Hr & Hv & Hf).
  exists st'. split; [exact Hr|]. split; [|exact Hf].
  etransitivity; [exact Hv|]. cbn [src_val]. unfold var_val. rewrite La. reflexivity.
Qed.
Print Assumptions plisting_10_correct.

(** p++;  p--;  p += 3; *)
Corollary plisting_11_correct : forall cfg pa pb pc parr pp pq pt st,
  ptr_layout cfg pa pb pc parr pp pq pt -> bytes_ok st ->
  exists st', halts_to cfg (ptr_inc "p" ".ifend1") st st' /\
    ptr_val st' pp = (ptr_val st pp + 1) mod 65536 /\
    only_changes [pp; pp + 1] st st' /\ keeps_xys st st'.
Proof.
  intros cfg pa pb pc parr pp pq pt st H Hb. lay_p H.
  apply ptr_inc_correct; try assumption; try lia. discriminate.
Qed.
Print Assumptions plisting_11_correct.

Corollary plisting_12_correct : forall cfg pa pb pc parr pp pq pt st,
  ptr_layout cfg pa pb pc parr pp pq pt -> bytes_ok st ->
  exists st', halts_to cfg (ptr_dec "p" ".ifend1") st st' /\
    ptr_val st' pp = (ptr_val st pp - 1) mod 65536 /\
    only_changes [pp; pp + 1] st st' /\ keeps_xys st st'.
Proof.
  intros cfg pa pb pc parr pp pq pt st H Hb. lay_p H.
  apply ptr_dec_correct; try assumption; try lia. discriminate.
Qed.
Print Assumptions plisting_12_correct.

Corollary plisting_13_correct : forall cfg pa pb pc parr pp pq pt st,
  ptr_layout cfg pa pb pc parr pp pq pt -> bytes_ok st ->
  exists st', halts_to cfg (ptr_add "p" 3) st st' /\
    ptr_val st' pp = (ptr_val st pp + 3) mod 65536 /\
    only_changes [pp; pp + 1] st st' /\ keeps_xys st st'.
Proof.
  intros cfg pa pb pc parr pp pq pt st H Hb. lay_p H.
  apply ptr_add_correct; try assumption; lia.
Qed.
Print Assumptions plisting_13_correct.

(** ( *p )++;  /  *p += 2; *)
Corollary plisting_14_correct : forall cfg pa pb pc parr pp pq pt st,
  ptr_layout cfg pa pb pc parr pp pq pt -> bytes_ok st ->
  no_self_alias pp pt (ptr_val st pp) ->
  exists st', halts_to cfg (deref_inc "p") st st' /\
    mget (mem st') (ptr_val st pp) = (mget (mem st) (ptr_val st pp) + 1) mod 256 /\
    only_changes [ptr_val st pp; pt] st st' /\ keeps_xys st st'.
Proof.
  intros cfg pa pb pc parr pp pq pt st H Hb Hal. lay_p H.
  apply (deref_inc_correct cfg "p" pp pt st Hp Wp Hb Hal).
Qed.
Print Assumptions plisting_14_correct.

Corollary plisting_15_correct : forall cfg pa pb pc parr pp pq pt st,
  ptr_layout cfg pa pb pc parr pp pq pt -> bytes_ok st ->
  no_self_alias pp pt (ptr_val st pp) ->
  exists st', halts_to cfg (deref_add "p" 2) st st' /\
    mget (mem st') (ptr_val st pp) = (mget (mem st) (ptr_val st pp) + 2) mod 256 /\
    only_changes [ptr_val st pp; pt] st st' /\ keeps_xys st st'.
Proof.
  intros cfg pa pb pc parr pp pq pt st H Hb Hal. lay_p H.
  apply (deref_add_correct cfg "p" 2 pp pt st Hp Wp ltac:(lia) Hb Hal).
Qed.
Print Assumptions plisting_15_correct.

(** if ( *p ) c = 1;  the designated cell is not 0: [c] = 1, Y restored *)
Corollary plisting_16_taken : forall cfg pa pb pc parr pp pq pt st,
  ptr_layout cfg pa pb pc parr pp pq pt -> bytes_ok st ->
  no_self_alias pp pt (ptr_val st pp) ->
  mget (mem st) (ptr_val st pp) <> 0 ->
  exists st', halts_to cfg (if_deref_tpl "p" (assign8 "c" 1) ".ifend1") st st' /\
    mget (mem st') pc = 1 /\ only_changes [pc; pt] st st' /\ keeps_xys st st'.
Proof.
  intros cfg pa pb pc parr pp pq pt st H Hb Hal Hv. lay_p H.
  apply (if_deref_taken_correct cfg "p" "c" 1 ".ifend1" pc pp pt st Hp Wp
           ltac:(discriminate) Wc ltac:(lia) Hb Hal Hv).
Qed.
Print Assumptions plisting_16_taken.

(** ... the designated cell is 0: Y = 0 at [.ifend1], whatever it was *)
Corollary plisting_16_zero_y_lost : forall cfg pa pb pc parr pp pq pt st,
  ptr_layout cfg pa pb pc parr pp pq pt -> bytes_ok st ->
  no_self_alias pp pt (ptr_val st pp) ->
  mget (mem st) (ptr_val st pp) = 0 ->
  exists st', halts_to cfg (if_deref_tpl "p" (assign8 "c" 1) ".ifend1") st st' /\
    rY st' = 0 /\ mget (mem st') pt = rY st /\
    rX st' = rX st /\ rS st' = rS st /\ only_changes [pt] st st'.
Proof.
  intros cfg pa pb pc parr pp pq pt st H Hb Hal Hv. lay_p H.
  apply (if_deref_zero_y_lost cfg "p" "c" 1 ".ifend1" pc pp pt st Hp Wp
           ltac:(discriminate) Wc ltac:(lia) Hb Hal Hv).
Qed.
Print Assumptions plisting_16_zero_y_lost.

(** a = *p + b; *)
Corollary plisting_17_correct : forall cfg pa pb pc parr pp pq pt st,
  ptr_layout cfg pa pb pc parr pp pq pt -> bytes_ok st ->
  no_self_alias pp pt (ptr_val st pp) ->
  exists st', halts_to cfg (deref_plus "a" "p" "b") st st' /\
    mget (mem st') pa = (mget (mem st) (ptr_val st pp) + mget (mem st) pb) mod 256 /\
    only_changes [pa; pt] st st' /\ keeps_xys st st'.
Proof.
  intros cfg pa pb pc parr pp pq pt st H Hb Hal. lay_p H.
  apply (deref_plus_correct cfg "a" "p" "b" pa pb pp pt st Hp Wp Wa Wb Hb Hal).
Qed.
Print Assumptions plisting_17_correct.

(** [p = &a; b = *p;]: [b] = [a];   [p = arr; b = p[2];]: [b] = [arr[2]].
    No aliasing hypothesis: the layout says where [p] points. *)
Corollary addr_of_a_deref : forall cfg pa pb pc parr pp pq pt st,
  ptr_layout cfg pa pb pc parr pp pq pt ->
  exists st', halts_to cfg (addr_of_tpl "p" "a" ++ deref_load "b" "p") st st' /\
    mget (mem st') pb = mget (mem st) pa /\ ptr_val st' pp = pa /\
    only_changes [pp; pp + 1; pb; pt] st st' /\ keeps_xys st st'.
Proof.
  intros cfg pa pb pc parr pp pq pt st H. lay_p H.
  apply (addr_of_deref_correct cfg "p" "a" "b" pa pb pp pt st Hp Wp
           Sa Wa Wb).
Qed.
Print Assumptions addr_of_a_deref.

Corollary addr_of_arr_idx : forall cfg pa pb pc parr pp pq pt st,
  ptr_layout cfg pa pb pc parr pp pq pt ->
  exists st', halts_to cfg (addr_of_tpl "p" "arr" ++ idx_load "b" "p" 2) st st' /\
    mget (mem st') pb = mget (mem st) (parr + 2) /\ ptr_val st' pp = parr /\
    only_changes [pp; pp + 1; pb; pt] st st' /\ keeps_xys st st'.
Proof.
  intros cfg pa pb pc parr pp pq pt st H. lay_p H.
  apply (addr_of_idx_load_correct cfg "p" "arr" "b" 2 parr pb pp pt st Hp Wp Sarr Larr);
    try lia; try assumption. apply Warr. lia.
Qed.
Print Assumptions addr_of_arr_idx.

(** * A concrete layout: the hypotheses are satisfiable; the defect, run

    a, b, c at 128, 129, 130; arr at 131 .. 138; p at 140, 141; q at 142, 143; cctmp at 144 *)
Definition cfg_ptr : config :=
  mkCfg (fun y =>
    if String.eqb y "a" then Some 128 else if String.eqb y "b" then Some 129
    else if String.eqb y "c" then Some 130 else if String.eqb y "arr" then Some 131
    else if String.eqb y "p" then Some 140 else if String.eqb y "q" then Some 142
    else if String.eqb y "cctmp" then Some 144 else None) [].

Lemma cfg_ptr_layout : ptr_layout cfg_ptr 128 129 130 131 140 142 144.
Proof.
  unfold ptr_layout. cbn [all_sat distinct].
  repeat match goal with |- _ /\ _ => split end; try reflexivity; try lia.
Qed.
Print Assumptions cfg_ptr_layout.

(** A = 0, X = 1, Y = [y], S = 255; a, b, c = [va], [vb], [vc]; arr[i] = 10 + i; p = [vp] *)
Definition st_ptr (va vb vc y vp : Z) : mstate :=
  mkS 0 1 y 255 false false false false
    (mset (mset (mset (mset (mset (mset (mset (mset (mset (mset (mset (mset (mset mem_empty
       128 va) 129 vb) 130 vc) 131 10) 132 11) 133 12) 134 13) 135 14) 136 15) 137 16) 138 17)
       140 (vp mod 256)) 141 (vp / 256)).

(** the final a, b, c, the pointer, X, Y, S *)
Definition run_ptr (c : code) (st : mstate) : option (Z * Z * Z * Z * Z * Z * Z) :=
  match slines_of c with
  | Some sl =>
      match Sem.run cfg_ptr [] (fun _ _ => None) (fun _ _ => None) 40 "f" sl 0 [] st [] 0%N with
      | Halt s' _ _ =>
          Some (mget (mem s') 128, mget (mem s') 129, mget (mem s') 130, word (mem s') 140,
                rX s', rY s', rS s')
      | _ => None
      end
  | None => None
  end.

(** [p = &a; b = *p;] and [p = arr; b = p[2];] with Y = 7 *)
Example run_addr_of_a_deref :
  run_ptr (addr_of_tpl "p" "a" ++ deref_load "b" "p") (st_ptr 42 0 0 7 0)
  = Some (42, 42, 0, 128, 1, 7, 255).
Proof. vm_compute. reflexivity. Qed.
Print Assumptions run_addr_of_a_deref.
Example run_addr_of_arr_idx :
  run_ptr (addr_of_tpl "p" "arr" ++ idx_load "b" "p" 2) (st_ptr 42 0 0 7 0)
  = Some (42, 12, 0, 131, 1, 7, 255).
Proof. vm_compute. reflexivity. Qed.
Print Assumptions run_addr_of_arr_idx.

(** [p++] across a page: 0x01FF + 1 = 0x0200;  [p--]: 0x0200 - 1 = 0x01FF *)
Example run_ptr_inc_carry :
  run_ptr (ptr_inc "p" ".ifend1") (st_ptr 0 0 0 7 511) = Some (0, 0, 0, 512, 1, 7, 255).
Proof. vm_compute. reflexivity. Qed.
Print Assumptions run_ptr_inc_carry.
Example run_ptr_dec_borrow :
  run_ptr (ptr_dec "p" ".ifend1") (st_ptr 0 0 0 7 512) = Some (0, 0, 0, 511, 1, 7, 255).
Proof. vm_compute. reflexivity. Qed.
Print Assumptions run_ptr_dec_borrow.

(** [( *p )++] with p = &a, a = 255: wraps to 0 *)
Example run_deref_inc_wrap :
  run_ptr (deref_inc "p") (st_ptr 255 0 0 7 128) = Some (0, 0, 0, 128, 1, 7, 255).
Proof. vm_compute. reflexivity. Qed.
Print Assumptions run_deref_inc_wrap.

(** THE DEFECT, on the exact listing [if ( *p ) c = 1;] ([plisting_16]), p = &a, Y = 7 on entry:
      - a = 5: the body runs, c = 1, Y = 7 on exit;
      - a = 0: the [BEQ .ifend1] jumps over [LDY cctmp]: Y = 0 on exit, the 7 is lost. *)
Example if_deref_y_restored_when_taken :
  run_ptr (if_deref_tpl "p" (assign8 "c" 1) ".ifend1") (st_ptr 5 0 0 7 128)
  = Some (5, 0, 1, 128, 1, 7, 255).
Proof. vm_compute. reflexivity. Qed.
Print Assumptions if_deref_y_restored_when_taken.

Example if_deref_y_not_restored :
  run_ptr (if_deref_tpl "p" (assign8 "c" 1) ".ifend1") (st_ptr 0 0 0 7 128)
  = Some (0, 0, 0, 128, 1, 0, 255).
Proof. vm_compute. reflexivity. Qed.
Print Assumptions if_deref_y_not_restored.

Lemma st_ptr_bytes_ok : forall va vb vc y vp,
  0 <= va < 256 -> 0 <= vb < 256 -> 0 <= vc < 256 -> 0 <= y < 256 -> 0 <= vp < 65536 ->
  bytes_ok (st_ptr va vb vc y vp).
Proof.
  intros va vb vc y vp Ha Hb Hc Hy Hp. apply bytes_ok_mk; try lia.
  repeat (apply mget_mset_bytes; [|lia]). intros b. rewrite mget_empty. lia.
Qed.
Print Assumptions st_ptr_bytes_ok.

(** the same as a statement about [halts_to] and [keeps_xys]: on a byte-valued state satisfying
    the layout and aliasing hypotheses, the listing halts and does NOT keep Y *)
Theorem if_deref_y_not_restored_halts :
  exists st st', bytes_ok st /\ no_self_alias 140 144 (ptr_val st 140) /\
    halts_to cfg_ptr (if_deref_tpl "p" (assign8 "c" 1) ".ifend1") st st' /\
    rY st = 7 /\ rY st' = 0 /\ ~ keeps_xys st st'.
Proof.
  pose (st := st_ptr 0 0 0 7 128).
  assert (Hb : bytes_ok st) by (apply st_ptr_bytes_ok; lia).
  assert (Hal : no_self_alias 140 144 (ptr_val st 140)) by (vm_compute; repeat split; discriminate).
  destruct (plisting_16_zero_y_lost cfg_ptr 128 129 130 131 140 142 144 st cfg_ptr_layout Hb Hal
              ltac:(vm_compute; reflexivity)) as (st' & Hr & Hy & _).
  exists st, st'. split; [exact Hb|]. split; [exact Hal|]. split; [exact Hr|].
  split; [reflexivity|]. split; [exact Hy|].
  intros (_ & Ky & _). rewrite Hy in Ky. discriminate Ky.
Qed.
Print Assumptions if_deref_y_not_restored_halts.
