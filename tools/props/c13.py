"""C13 — emitted assembly always assembles.

proof   : Props/C13.v: asm() accepts a load/store/ALU/compare with a data operand only when the
          6502 has a mode for it; inline renaming keeps labels unique and targets defined
          (injective suffixing); branch repair and optimiser keep labels unique / in place
corr-M  : asm() whole-domain correspondence (shared with C04); append_code unit correspondence
corr-S  : the Coq-extracted assembler front end (Model/WfCode.v: mode table, label table per
          function, references defined, no duplicates, symbols known) on every function of
          label-heavy generated programs at every level
"""
from lib.common import *
from lib.asmcorr import *
from lib.asmsel import *
from lib.gen_c import gen_program, nested_inline_program
from lib.pipeline import *
from lib.coexec import make_layout, LayoutError

LEVEL = 'proof'


def theorems():
    import re
    return re.findall(r'^Theorem (\w+)', open(os.path.join(COQ, 'Props', 'C13.v')).read(), re.M)


GOTO_PROGRAMS = {
    'goto_plain': 'char a; void main() { a = 0; again: a++; if (a != 5) goto again; }',
    'goto_fwd': 'char a, b; void main() { if (a) goto out; b = 1; out: b++; }',
    'goto_loop': 'char a, b; void main() { for (a = 0; a != 3; a++) { if (b) goto done; b = a; } done: b = 2; }',
    # rejected since 13a88c5; if ever accepted again, the undefined / duplicate label shows up in the output
    'goto_undefined': 'void main() { goto nowhere; }',
    'goto_duplicate': 'void main() { a: X = 0; a: Y = 0; goto a; }',
    'goto_other_function': 'void f() { there: X = 1; } void main() { f(); goto there; }',
    'goto_nested': 'char a; void main() { while (a) { switch (a) { case 1: goto out; default: a--; } } out: a = 1; }',
}
# a label in every nesting position (plain, inside each kind of compound statement) x what precedes it in the block
# (nothing, an unconditional return, a break / continue, an infinite loop, another goto) x a goto from before or after
# it: legal C jumps into and out of statements; every goto must find its label in the emitted function.  Also as
# an inline function expanded twice.
LABEL_PROGRAMS = {}
_holders = [('plain', 'lab: a++;'), ('block', '{ a--; lab: a++; }'), ('dowhile', 'do { lab: a--; } while (a);'), ('while', 'while (a) { lab: a--; }'),
            ('for', 'for (b = 0; b != 2; b++) { lab: a++; }'), ('if', 'if (b) { lab: a++; }'), ('else', 'if (b) a = 2; else { lab: a++; }'),
            ('switch', 'switch (b) { case 1: a = 2; lab: a++; break; default: a = 3; }'), ('ifstmt', 'if (b) lab: a++;'), ('nested', 'while (a) { if (b) { lab: a--; } a--; }'),
            ('ifbreak', 'while (a) { if (b) lab: break; a--; }'), ('labelled_loop', 'lab: while (a) a--;'), ('twice', '{ lab: a++; } b++;')]
_befores = [('none', ''), ('return', 'return;'), ('goto2', 'goto end;'), ('forever', 'while (1) { if (a) goto lab; a++; }'), ('stmt', 'a = 5;')]
for _hn, _h in _holders:
    for _bn, _b in _befores:
        for _gn, _pre, _post in (('fwd', 'if (X) goto lab;', ''), ('back', '', 'if (Y) goto lab;'), ('both', 'if (X) goto lab;', 'Y--; if (Y) goto lab;')):
            _body = '%s %s %s %s end: b = 9;' % (_pre, _b, _h, _post)
            LABEL_PROGRAMS['label_%s_%s_%s' % (_hn, _bn, _gn)] = 'unsigned char a, b; void main() { %s }' % _body
            if _bn in ('none', 'return') and _gn == 'fwd':
                LABEL_PROGRAMS['label_inl_%s_%s' % (_hn, _bn)] = 'unsigned char a, b; inline void f() { %s } void main() { f(); a = 1; f(); }' % _body
# things that are not places to write to, on the left of every assigning operator: an error or code that assembles
# (never a store or read-modify-write instruction with an immediate operand)
LVALUE_PROGRAMS = {}
_lv = [('addr', 'char x;', '&x'), ('array', 'char arr[4];', 'arr'), ('const_array', 'const char tab[2] = {1, 2};', 'tab'), ('short_array', 'short sa[2];', 'sa'),
       ('const_ptr', 'char *const R = 0x80;', 'R'), ('const_scalar', 'const char K = 3;', 'K'), ('literal', 'char x;', '5'), ('ptr_array', 'char *pa[2];', 'pa'),
       ('function', 'void g() { X = 1; }', 'g'), ('string', 'char x;', '"ab"')]
_ops = ['%s = 5;', '%s++;', '++%s;', '%s--;', '%s += 2;', '%s -= 1;', '%s <<= 1;', '%s >>= 1;', '%s &= 3;', '%s |= 1;', 'X = (%s = 2);', 'X = %s++;', 'store(%s);',
        '%s = X;', '%s = Y;']
for _n, _d, _l in _lv:
    for _j, _o in enumerate(_ops):
        LVALUE_PROGRAMS['lvalue_%s_%d' % (_n, _j)] = '%s void main() { %s }' % (_d, _o % _l)
# functions that are reached only through the body of an inline function (the JSR lands in the caller)
LINK_PROGRAMS = {
    'link_through_inline': 'unsigned char x; void tick() { x++; } inline void step() { tick(); } void main() { step(); }',
    'link_through_inline2': 'unsigned char x; void tick() { x++; } inline void step() { tick(); } inline void outer() { step(); x--; } void main() { outer(); outer(); }',
    'link_through_inline_dead_first': 'char s; void h() { s++; } inline void f() { h(); X = 1; } void helper() { f(); } void main() { f(); }',
    'link_through_inline_two_callers': 'char s; void h() { s++; } inline void f() { h(); } void g() { f(); } void main() { g(); f(); }',
    'link_interrupt_through_inline': 'char s; void h() { s++; } inline void f() { h(); } void interrupt irq() { f(); } void main() { s = 0; }',
}
# continue / break reached through a switch nested in each kind of loop: the jump target must be defined
LOOP_EXIT_PROGRAMS = {}
for _li, (_lname, _loop) in enumerate((('for', 'for (a = 0; a != 3; a++) { %s }'), ('while', 'while (a != 3) { a++; %s }'),
                                        ('do', 'do { a++; %s } while (a != 3);'))):
    for _bi, _body in enumerate(('switch (b) { case 1: continue; case 2: b = 3; }', 'switch (b) { case 1: break; default: continue; }',
                                 'switch (b) { case 1: if (c) continue; b = 2; break; }', 'if (b) continue; switch (b) { case 1: continue; }',
                                 'switch (b) { case 1: switch (c) { case 2: continue; } b = 1; }', 'if (b) { if (c) break; continue; }')):
        LOOP_EXIT_PROGRAMS['loopexit_%s_%d' % (_lname, _bi)] = 'unsigned char a, b, c; void main() { %s }' % (_loop % _body)
# every pair of comparison forms (8/16 bits, each operator, signed/unsigned) joined by && / || or used one after
# the other, in each statement context: the local labels of the two lowerings must not collide
COND_PROGRAMS = {}
_conds = ['s %s 1000' % o for o in ('<=', '>', '<', '>=', '==', '!=')] + ['s <= t', 's > t', 'ss <= st', 'ss > 5', 'a <= b', 'a > b', 'a', '!s', 'sa > sb']
_k = 0
for _c1 in _conds:
    for _c2 in _conds:
        for _j in ('&&', '||', ';'):
            if _j == ';':
                _bodies = ['if (%s) x = 1; if (%s) x = 2;' % (_c1, _c2), 'while (%s) s += 2; while (%s) t += 3;' % (_c1, _c2),
                           'do { a++; } while (%s); if (%s) x = 1; else x = 2;' % (_c1, _c2)]
            else:
                _e = '%s %s %s' % (_c1, _j, _c2)
                _bodies = ['if (%s) x = 1;' % _e, 'while (%s) s += 2;' % _e, 'do { a++; } while (%s);' % _e, 'for (x = 0; %s; x++) a++;' % _e]
            _b = _bodies[_k % len(_bodies)]
            COND_PROGRAMS['cond%d' % _k] = 'unsigned short s, t; short ss, st; unsigned char a, b, x; signed char sa, sb;\nvoid main() { %s }\n' % _b
            _k += 1
# user labels that coincide with generated local labels (known finding F-C13-user-label, when listed)
CLASH_PROGRAMS = {
    'clash_for': 'char a; void main() { for (a = 0; a != 3; a++) { } goto for1; for1: a = 1; }',
    'clash_ifend': 'char a; void main() { if (a) a = 2; goto ifend1; ifend1: a = 1; }',
}


def wf_pass(ctx, srcs, levels):
    comp = compile_variants(srcs, {O: [O] for O in levels}, want=('vars', 'funcs', 'tree'))
    recs = {}
    link_bad = []
    for pid, vs in comp.items():
        for O, r in vs.items():
            if r['status'] != 'ok':
                continue
            # the text that is assembled holds the functions in use (and no others): every JSR of an emitted function
            # must name one of them (or the trampoline of a banked one)
            if 'inuse' in r:
                inuse = set(r['inuse'])
                for f in r['funcs']:
                    if f['name'] in inuse and not f.get('inline'):
                        for l in f.get('final') or []:
                            if l[0] == 'I' and l[1] == 'JSR':
                                tgt = l[6][4:] if l[6].startswith('Call') and l[6] not in inuse and l[6][4:] in inuse else l[6]
                                if tgt not in inuse:
                                    link_bad.append({'why': 'JSR %s in %s, but %s is not among the functions that are emitted' % (l[6], f['name'], l[6]),
                                                     'id': pid, 'program': srcs[pid], 'level': O, 'function': f['name'], 'lines': norm_lines(f['final'])})
            try:
                lay = make_layout(r['vars'], [f['name'] for f in r.get('funcs', [])])
            except LayoutError:
                continue
            # inline functions are only ever emitted inside their callers (their own body keeps JMP .endof)
            funcs = {f['name']: norm_lines(f['final']) for f in r['funcs'] if f.get('final') is not None and not f.get('inline')}
            recs['%s@%s' % (pid, O)] = (lay, funcs)
    rep = run_wf(wf_records(recs)) if recs else {}
    bad = []
    nfun = 0
    stats = {'labels': 0, 'branches': 0, 'inline_blocks': 0, 'fixes': 0}
    for key, fs in rep.items():
        for fn, d in fs.items():
            nfun += 1
            lines = recs[key][1][fn]
            stats['labels'] += sum(1 for l in lines if l[0] == 'L')
            stats['branches'] += sum(1 for l in lines if l[0] == 'I' and l[1] in MN_BRANCH + ['JMP'])
            stats['inline_blocks'] += sum(1 for l in lines if l[0] == 'L' and l[1].startswith('.endofinline'))
            stats['fixes'] += sum(1 for l in lines if l[0] == 'L' and l[1].startswith('.fix'))
            problems = []
            if d['illegal']:
                problems.append('instructions with no 6502 addressing mode at lines ' + ','.join(d['illegal']))
            if d['dup']:
                problems.append('labels defined twice: ' + ','.join(d['dup']))
            if d['undef']:
                problems.append('referenced labels not defined: ' + ','.join(d['undef']))
            if d['unknown']:
                problems.append('unknown symbol / unparsable operand at lines ' + ','.join(d['unknown']))
            if problems:
                bad.append({'why': '; '.join(problems), 'id': key.split('@')[0], 'program': srcs[key.split('@')[0]],
                            'level': key.split('@')[1], 'function': fn, 'lines': lines})
    return bad + link_bad, nfun, stats


def matrix_programs():
    """one statement per program: every (element type x index form x operator) of array accesses, so that
    each combination the compiler accepts is assembled (a rejected combination is a rejection)"""
    out = {}
    k = 0
    for ty, decl in (('u8', 'unsigned char arr[8];'), ('s16', 'short arr[4];'), ('u16', 'unsigned short arr[4];'),
                     ('ptr', 'char *arr[2];'), ('sc8', 'superchip unsigned char arr[8];')):
        for ix in ('X', 'Y', '1', 'i'):
            head = '%s unsigned char i, v; short w;\n' % decl
            stmts = []
            for op in ('=', '+=', '-=', '&=', '|=', '^='):
                for rhs in ('3', 'v', 'w', 'arr[%s]' % ix):
                    stmts.append('arr[%s] %s %s;' % (ix, op, rhs))
            for op in ('<<=', '>>='):
                for n in (1, 2, 7, 8):
                    stmts.append('arr[%s] %s %d;' % (ix, op, n))
            stmts += ['arr[%s]++;' % ix, 'arr[%s]--;' % ix, '++arr[%s];' % ix, '--arr[%s];' % ix,
                      'v = arr[%s];' % ix, 'w = arr[%s];' % ix, 'v = arr[%s] + 1;' % ix, 'w = arr[%s] + w;' % ix, 'v = arr[%s] >> 8;' % ix,
                      'v = arr[%s] << 1;' % ix, 'if (arr[%s]) v = 1;' % ix, 'if (arr[%s] == 3) v = 1;' % ix, 'if (arr[%s] < w) v = 1;' % ix,
                      'X = arr[%s];' % ix, 'Y = arr[%s];' % ix, 'arr[%s] = X;' % ix, 'arr[%s] = Y;' % ix, 'v = -arr[%s];' % ix, 'v = ~arr[%s];' % ix]
            for st in stmts:
                if ty == 'ptr' and ('>>' in st or '<<' in st):
                    continue
                out['mx%d' % k] = head + 'void main() { %s }\n' % st
                k += 1
    return out


def run(ctx):
    quick = ctx.tier == 'quick'
    rng = ctx.rng
    ctx.proof_stage('Props.C13', theorems())
    # corr-M: asm() domain and append_code units
    total, mism, table, vars_ = run_domain(schemes=('4K',) if quick else ('4K', '3E', '3EP'))
    ctx.cov['evaluations'] += total
    ctx.cov['correspondence']['corr-M asm() domain'] = {'cells': total, 'mismatches': len(mism), 'exhaustive': True}
    cases = [('a%d' % i, 'append:%d' % rng.choice([0, 1, 2, 9, 10, 11, 99, 100, 12345]), gen_opt_list(rng)) for i in range(800 if quick else 20000)]
    n, amism, impl, model = compare_units(cases)
    ctx.cov['evaluations'] += n
    ctx.cov['correspondence']['corr-M append_code'] = {'cases': n, 'mismatches': len(amism)}
    # corr-S
    levels = ['-O0', '-O1'] if quick else ['-O0', '-O1', '-O2', '-O3']
    n_prog = 300 if quick else 6000
    srcs = {}
    for i in range(n_prog):
        o = [dict(inline=True, calls=True), dict(inline=True, max_stmts=40, max_depth=3), dict(superchip=True, hw=True),
             dict(inline=True, bait=True, max_stmts=25)][i % 4]
        srcs['p%d' % i] = gen_program(rng, o).source()
    for i in range(60 if quick else 1500):
        srcs['n%d' % i] = nested_inline_program(rng)
    srcs.update(matrix_programs())
    srcs.update(GOTO_PROGRAMS)
    srcs.update(CLASH_PROGRAMS)
    srcs.update(LOOP_EXIT_PROGRAMS)
    srcs.update(LABEL_PROGRAMS)
    srcs.update(LINK_PROGRAMS)
    srcs.update(LVALUE_PROGRAMS)
    srcs.update(COND_PROGRAMS)
    bad, nfun, stats = wf_pass(ctx, srcs, levels)
    # a conditional branch further than 127 bytes from its label is text the assembler rejects: spans around the
    # limit (tools/lib/gen_c.py long_programs), displacements with the sizes the assembler gives
    from lib.gen_c import long_programs
    from lib.pipeline import real_size_range_problems, compile_variants
    lp = long_programs()
    lcomp = compile_variants({k: p.source() for k, p in lp.items()}, {O: [O] for O in levels})
    rp, rchecked = real_size_range_problems(lcomp)
    stats['branches_measured_with_assembled_sizes'] = rchecked
    for x in rp:
        pid = x['id'].split('@')[0]
        bad.append({'id': pid, 'why': x['why'], 'program': lp[pid].source(), 'level': x['id'].split('@')[1]})
    ctx.cov['programs'] = len(srcs)
    ctx.cov['distinct_nontrivial'] = stats['inline_blocks'] + stats['fixes']
    ctx.cov['correspondence']['corr-S assembler front end'] = dict(stats, functions=nfun, rejected=len(bad))
    ctx.sample({'program': list(srcs.values())[1][:500]})
    known = {f['witness']: f for f in ctx.findings if f.get('status') == 'open' and f.get('witness')}
    reported = 0
    for b in bad:
        f = known.get(b['id'])
        if f is not None:
            ctx.known_finding(f['id'], f['text'])
            continue
        if reported < 3:
            ctx.violation('wf', b)
            reported += 1
    if (mism or amism) and not reported:
        mm = mism or amism
        ctx.violation_noinput('model vs code correspondence broke (asm() domain: %d, append_code: %d); first: %s'
                              % (len(mism), len(amism), json.dumps(mm[0])[:1500]), 'corr-M:asm_sel/append_code')
    ctx.cov['rule'] = ('programs with inline functions called from several sites and from other inline functions, long functions '
                       '(branch repairs), switch inside loops, goto; non-trivial = number of inline expansions + repairs checked')
    ctx.cov['trusted_base'] = ['Coq 8.16.1 kernel', 'extraction of Model/WfCode.v, Model/AsmSel.v, Model/InlineRename.v', 'harness ccv + hook',
                               'M6502/Isa.v opcode table', 'labels are function-local (DASM SUBROUTINE scoping); function and variable names are global symbols']
    ctx.assumptions = ['inline assembly text is not assembled', 'symbols: variables, functions, cctmp, DUMMY as laid out by tools/lib/coexec.py']
