"""C09 — string and character literals are stored byte-exact.

proof   : Props/C09.v: escape decoding = C's on well-formed literal bodies, exactly one NUL after the
          concatenated pieces, character constants; the scanner records a literal body verbatim
          whatever it contains (//, /*, */, #, @, macro names) and replaces it by an opaque marker
corr-M  : (a) literal extraction: cpp::process vs Model/Cpp.v (literal lists, exact);
          (b) decoding: bytes the real compiler stores (initialisers, pointer tables, call arguments,
          asm text, character constants) vs Model/StrLit.v applied to the extracted pieces; all 256
          characters after a backslash
corr-S  : C's decoding (reference c_decode) of the generated literal bodies vs the stored bytes
"""
import re
import os
import shutil
from lib.common import *
from lib.cppcorr import *

LEVEL = 'proof'
C_ESC = {'n': 10, 'r': 13, 't': 9, 'a': 7, 'b': 8, 'f': 12, 'v': 11, '0': 0, '\\': 92, '"': 34, "'": 39}


def theorems():
    p = os.path.join(COQ, 'Props', 'C09.v')
    return re.findall(r'^Theorem (\w+)', open(p).read(), re.M) if os.path.exists(p) else []


def unsplice(b):
    """the literal body as the scanner sees it: line splices are removed before extraction"""
    return b.replace('\\\n', '')


def rand_body(rng, maxlen=8, tricky=True):
    """-> (source body text, decoded bytes)"""
    parts = []
    out = []
    atoms = [('a', [97]), ('Z', [90]), (' ', [32]), ('0', [48]), ('%', [37]), ('#', [35]), ('@', [64]), ('@1@', [64, 49, 64]),
             ('//', [47, 47]), ('/*', [47, 42]), ('*/', [42, 47]), ('FOO', [70, 79, 79]), ('N', [78]), (';', [59]), ("'", [39]),
             ('#define', list(b'#define')), ('{', [123]), (',', [44]),
             # characters of 2, 3 and 4 bytes: the bytes of the source text are stored as they are, next to escapes too
             ('\u00e9', [0xc3, 0xa9]), ('\u00f1', [0xc3, 0xb1]), ('\u20ac', [0xe2, 0x82, 0xac]), ('\U0001f600', [0xf0, 0x9f, 0x98, 0x80])]
    for _ in range(rng.randrange(0, maxlen)):
        if rng.random() < 0.3:
            e = rng.choice(list(C_ESC.keys()))
            if e == '"' and not tricky:
                continue
            parts.append('\\' + e)
            out.append(C_ESC[e])
        else:
            t, b = rng.choice(atoms)
            parts.append(t)
            out.extend(b)
        if tricky and rng.random() < 0.12:
            # a line splice inside the literal (after any character, including an escaped backslash):
            # translation phase 2 removes backslash-newline, the bytes do not change
            parts.append('\\\n')
    return ''.join(parts), out


def model_decode(jobs):
    """jobs: {id: [pieces]} -> {id: [bytes]} through the extracted StrLit model"""
    drv = ocaml_driver('cpp')
    d = os.path.join('/dev/shm', 'dec.%d' % os.getpid())
    os.makedirs(d, exist_ok=True)
    try:
        fn = os.path.join(d, 'dec.txt')
        with open(fn, 'w') as f:
            for jid, pieces in jobs.items():
                f.write('dec %s %s\n' % (jid, ' '.join(hx(p) for p in pieces)))
        rc, out = sh([drv, fn], check=False, timeout=3600)
        if rc != 0:
            raise HarnessError('cpp.native (dec) failed: ' + out[-1000:])
        res = {}
        for l in out.splitlines():
            if l.startswith('@dec '):
                f = l.split(' ')
                res[f[1]] = list(bytes.fromhex(f[2])) if f[2] != '-' else []
        return res
    finally:
        shutil.rmtree(d, ignore_errors=True)


def run(ctx):
    quick = ctx.tier == 'quick'
    rng = ctx.rng
    th = theorems()
    if th:
        ctx.proof_stage('Props.C09', th)
    # ---- (a) literal extraction corr-M on general preprocessor inputs
    n_gen = 1500 if quick else 30000
    cases = [gen_case(rng, 'g%d' % i) for i in range(n_gen)]
    n, mism, impl, model = compare(cases)
    ctx.cov['evaluations'] = n
    ctx.cov['correspondence']['corr-M literal extraction'] = {'cases': n, 'mismatches': len(mism)}
    # ---- (b)+(S) stored bytes
    n_prog = 600 if quick else 12000
    srcs = {}
    expect = {}
    for i in range(n_prog):
        lines = ['#define FOO 77', '#define N 3']
        exp = {}
        pieces = {}
        k = 0
        # initialisers, with adjacent literals
        for j in range(rng.randrange(1, 4)):
            nlit = rng.choice([1, 1, 2, 3])
            bodies = [rand_body(rng) for _ in range(nlit)]
            name = 's%d' % j
            sep = rng.choice([' ', '  ', ' /* c */ ', '\\\n'])
            # a piece may be spelled through an object-like macro whose body is the literal (VERSION, EOL ...):
            # literals are then numbered in another order than they are used
            spelled = []
            for pi_, (b, _) in enumerate(bodies):
                if rng.random() < 0.25 and '\n' not in b:
                    mname = 'LM%d_%d' % (j, pi_)
                    lines.insert(2, '#define %s "%s"' % (mname, b))
                    spelled.append(mname)
                else:
                    spelled.append('"%s"' % b)
            if sep == '\\\n' and any(not x.startswith('"') for x in spelled):
                sep = ' '
            decl = 'const char %s[] = %s; // "x"' % (name, sep.join(spelled))
            # directive handling around literals: skipped groups holding literals of their own must not
            # disturb the literals of the selected text
            w = rng.random()
            skipped = 'const char sk%d[] = "%s";' % (j, rand_body(rng, 4)[0])
            if w < 0.15:
                lines += ['#ifdef UNDEFINED_Q', skipped, '#endif', decl]
            elif w < 0.30:
                lines += ['#if 1', decl, '#else', skipped, '#endif']
            elif w < 0.40:
                lines += ['#ifndef FOO', skipped, '#else', decl, '#endif']
            else:
                lines.append(decl)
            exp[name] = sum((o for _, o in bodies), []) + [0]
            pieces[name] = [unsplice(b) for b, _ in bodies]
        # pointer table
        tb = [rand_body(rng) for _ in range(rng.randrange(1, 4))]
        lines.append('const char *tab[%d] = {%s};' % (len(tb), ', '.join('"%s"' % b for b, _ in tb)))
        exp['@table'] = [o + [0] for _, o in tb]
        pieces['@table'] = [[unsplice(b)] for b, _ in tb]
        # call arguments and character constants
        ab = [rand_body(rng) for _ in range(rng.randrange(1, 3))]
        lines.append('char cc; void f(char *p%s) { cc = p[Y]; }' % (', char *q' if len(ab) == 2 else ''))
        chars = []
        stm = []
        for _ in range(rng.randrange(1, 4)):
            if rng.random() < 0.5:
                e = rng.choice([x for x in C_ESC if x != '"'])
                chars.append(("'\\%s'" % e, C_ESC[e]))
            else:
                c = rng.choice('aZ09 #@/*;{')
                chars.append(("'%s'" % c, ord(c)))
            stm.append('cc = %s;' % chars[-1][0])
        asm_body = rand_body(rng, 5, tricky=False)
        if len(ab) == 2 and rng.random() < 0.5:
            # the two literals in two nested parts of ONE expression (two calls, or a parenthesised literal)
            lines.append('char h(char *p) { return p[Y]; }')
            call = rng.choice(['cc = h("%s") + h("%s");', 'cc = h(("%s")) + h("%s");', 'cc = h("%s"), cc = h(("%s"));']) % (ab[0][0], ab[1][0])
            lines.append('void main() { %s %s asm("%s"); }' % (call, ' '.join(stm), asm_body[0]))
        else:
            lines.append('void main() { f(%s); %s asm("%s"); }' % (', '.join('"%s"' % b for b, _ in ab), ' '.join(stm), asm_body[0]))
        exp['@args'] = [o + [0] for _, o in ab]
        pieces['@args'] = [[unsplice(b)] for b, _ in ab]
        exp['@chars'] = [v for _, v in chars]
        exp['@asm'] = asm_body[1]
        pieces['@asm'] = [asm_body[0]]
        srcs['p%d' % i] = '\n'.join(lines) + '\n'
        expect['p%d' % i] = (exp, pieces)
    # every character after a backslash (exhaustive over the printable ASCII range the source can hold)
    esc_src = {}
    for code in range(32, 127):
        ch = chr(code)
        if ch == '"':
            continue
        esc_src['e%d' % code] = 'const char s0[] = "x\\%sy";\nvoid main() { }\n' % ch
    jobs = ''.join(compile_job(pid, s, args=['-O0'], want=['vars', 'funcs', 'lits']) for pid, s in list(srcs.items()) + list(esc_src.items()))
    res = dict(zip(list(srcs.keys()) + list(esc_src.keys()), run_ccv(jobs)))
    viol = []
    cm = []
    dec_jobs = {}
    checked = 0
    rejected = {}
    for pid in srcs:
        r = res[pid]
        exp, pieces = expect[pid]
        if r['status'] != 'ok':
            msg = (r.get('err') or {}).get('msg') or r['status']
            rejected[msg] = rejected.get(msg, 0) + 1
            if r['status'] in ('panic', 'hang'):
                viol.append({'why': 'crash on a literal-bearing program: %s' % r.get('msg'), 'program': srcs[pid]})
            elif msg == 'Unterminated string':
                # every literal of these programs is a well-formed C literal
                viol.append({'why': 'a well-formed string literal is reported as unterminated', 'program': srcs[pid]})
            continue
        vars_ = {v['name']: v for v in r['vars']}
        stored = {}
        for name, e in exp.items():
            if name.startswith('@'):
                continue
            got = vars_[name]['def'][1] if name in vars_ and vars_[name]['def'] else None
            stored[name] = got
            checked += 1
            dec_jobs['%s/%s' % (pid, name)] = pieces[name]
            if got != e:
                viol.append({'why': 'bytes stored for %s differ from the literal decoded by C\'s rules' % name, 'expected': e, 'got': got,
                             'program': srcs[pid]})
        # table + args: literal variables cctmpN in order of appearance
        tmps = [v for v in r['vars'] if v['name'].startswith('cctmp')]
        want = exp['@table'] + exp['@args']
        pcs = pieces['@table'] + pieces['@args']
        got = [v['def'][1] for v in tmps]
        for k_, (w, p_) in enumerate(zip(want, pcs)):
            dec_jobs['%s/tmp%d' % (pid, k_)] = p_
        checked += len(want)
        if sorted(map(tuple, got)) != sorted(map(tuple, want)):
            viol.append({'why': 'literal variables of the pointer table / call arguments differ', 'expected': want, 'got': got, 'program': srcs[pid]})
        # character constants: immediates in main, in order
        imms = [int(l[6][1:]) for f in r['funcs'] if f['name'] == 'main' for l in f['gen'] if l[0] == 'I' and l[1] == 'LDA' and re.fullmatch(r'#\d+', l[6])]
        if imms[:len(exp['@chars'])] != exp['@chars'] and [x for x in imms if x in exp['@chars']][:len(exp['@chars'])] != exp['@chars']:
            viol.append({'why': 'character constants compile to other codes', 'expected': exp['@chars'], 'got': imms, 'program': srcs[pid]})
        asm_lines = [l[2] for f in r['funcs'] if f['name'] == 'main' for l in f['gen'] if l[0] == 'N']
        dec_jobs['%s/asm' % pid] = pieces['@asm']
        # (the dump carries the line as text: the expected bytes are read as UTF-8 like the source)
        want_asm = bytes(exp['@asm']).decode('utf-8', 'replace')
        if not asm_lines or asm_lines[-1].rstrip('\x00') != want_asm.rstrip('\x00'):
            viol.append({'why': 'asm() text differs from the decoded literal', 'expected': want_asm, 'got': asm_lines, 'program': srcs[pid]})
        expect[pid] = (exp, pieces, stored, got)
    # exhaustive escapes
    esc_bad = []
    for code in range(32, 127):
        k = 'e%d' % code
        if k not in res:
            continue
        r = res[k]
        ch = chr(code)
        want = C_ESC.get(ch)
        if r['status'] != 'ok':
            continue
        got = [v for v in r['vars'] if v['name'] == 's0'][0]['def'][1]
        dec_jobs[k] = ['x\\%sy' % ch]
        if want is not None and got != [120, want, 121, 0]:
            esc_bad.append({'why': 'escape \\%s decodes to %s, C says %d' % (ch, got[1:-2], want), 'program': esc_src[k]})
        expect[k] = got
    viol += esc_bad
    # corr-M decode: stored bytes = model(compile_quoted_string pieces)
    md = model_decode(dec_jobs)
    for jid, pcs in dec_jobs.items():
        pid, _, name = jid.partition('/')
        if pid.startswith('e'):
            if md.get(jid) != expect[pid]:
                cm.append({'id': jid, 'pieces': pcs, 'impl': expect[pid], 'model': md.get(jid)})
            continue
        if pid not in expect or len(expect[pid]) < 4:
            continue
        exp, pieces, stored, tmpgot = expect[pid]
        if name in stored:
            if md.get(jid) != stored[name]:
                cm.append({'id': jid, 'pieces': pcs, 'impl': stored[name], 'model': md.get(jid)})
        elif name.startswith('tmp'):
            if md.get(jid) not in tmpgot:
                cm.append({'id': jid, 'pieces': pcs, 'impl': tmpgot, 'model': md.get(jid)})
    # which label holds which literal: the k-th literal USED by main (in evaluation order) must be the table whose
    # bytes are that literal's, whatever number it got; fixed programs with 0..12 and 97..101 literals created before
    # an expression that uses two or three of them
    link = {}
    for n in list(range(0, 13)) + [97, 98, 99, 100, 101]:
        tab = 'const char *tab[%d] = {%s};\n' % (n, ', '.join('"t%d"' % i for i in range(n))) if n else ''
        link['link_call_%d' % n] = (tab + 'char cc; void show(char *p, char *q) { cc = p[Y]; }\nvoid main() { show("left", "right"); }\n', ['left', 'right'])
        link['link_three_%d' % n] = (tab + 'char cc; void show3(char *p, char *q, char *r) { cc = p[Y]; }\nvoid main() { show3("one", "two", "three"); }\n',
                                     ['one', 'two', 'three'])
        link['link_local_%d' % n] = (tab + 'char cc; void show(char *p, char *q) { cc = p[Y]; }\nvoid main() { char *a = "first"; show(a, "second"); }\n',
                                     ['first', 'second'])
    lres = run_ccv(''.join(compile_job(k, v[0], args=['-O0'], want=['vars', 'funcs']) for k, v in link.items()))
    nlink = 0
    for (k, (src_, order)), r in zip(link.items(), lres):
        if r['status'] != 'ok':
            continue
        tabs = {v['name']: v['def'][1] for v in r['vars'] if v['name'].startswith('cctmp') and v.get('def')}
        used = []
        for f in r['funcs']:
            if f['name'] == 'main':
                for l in f['gen']:
                    m_ = re.fullmatch(r'#<\(?(cctmp\d+)\)?', l[6]) if l[0] == 'I' else None
                    if m_ and m_.group(1) not in used:
                        used.append(m_.group(1))
        got_ = [bytes(b for b in tabs.get(u, []) if b).decode('latin1') for u in used]
        nlink += 1
        if got_ != order:
            viol.append({'why': 'the labels used by the expression hold other literals than the ones written there (in evaluation order)',
                         'expected': order, 'got': got_, 'labels': used, 'program': src_})
    ctx.cov['correspondence']['corr-S literal labels'] = {'programs': nlink}
    ctx.cov['programs'] = len(srcs) + len(esc_src)
    ctx.cov['evaluations'] += len(dec_jobs)
    ctx.cov['distinct_nontrivial'] = checked
    ctx.cov['correspondence']['corr-M decode'] = {'literals': len(dec_jobs), 'mismatches': len(cm), 'escape_characters_exhaustive': [32, 126]}
    ctx.cov['correspondence']['corr-S stored bytes vs C'] = {'programs': len(srcs), 'literals_checked': checked, 'violations': len(viol),
                                                             'rejected_programs': rejected}
    ctx.sample({'program': list(srcs.values())[0][:700]})
    for v in viol[:3]:
        ctx.violation('literal', v)
    mm = mism + cm
    if mm and not viol:
        ctx.violation_noinput('model vs code correspondence broke (extraction: %d, decoding: %d); first: %s'
                              % (len(mism), len(cm), json.dumps(mm[0])[:2000]), 'corr-M:cpp/strlit')
    ctx.cov['rule'] = ('literal bodies over an alphabet rich in " \\ / * # @ and macro names, every escape, 1-3 adjacent literals, in '
                       'initialisers, pointer tables, call arguments, asm() and character constants; all printable characters after a '
                       'backslash exhaustively; non-trivial = stored byte strings compared')
    ctx.cov['trusted_base'] = ['Coq 8.16.1 kernel', 'extraction of Model/Cpp.v and Model/StrLit.v', 'hook cpp_process', 'harness ccv', 'Python reference c_decode']
    ctx.assumptions = ['ASCII source; octal/hex escapes are not part of the property', 'literals the scanner rejects (e.g. a\\\\\\"b) are rejections, counted, not violations']
