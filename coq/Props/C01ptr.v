(** C01 — emitted 6502 code computes what the C source says: POINTER operations.
    The exact -O0 output of the compiler for seventeen statements over
    [unsigned char a, b, c; unsigned char arr[8]; unsigned char *p, *q;] (Model/GenPtr.v,
    [plisting_NN], compared with the real compiler by tools/props) is run on the executable 6502
    semantics: for ALL byte-valued states, [Sem.run] halts normally ([halts_to]) and the state is
    what the C statement says, under explicit hypotheses: the pointer occupies two consecutive
    ZERO-PAGE cells ([zp_ptr]), the cells of the variables, of the pointer and of the scratch cell
    [cctmp] are distinct and outside the stack page ([ptr_wf], [var_wf]), and the cell the pointer
    designates is none of the pointer's own two cells nor [cctmp] ([no_self_alias]: it MAY be any
    variable or array element).
    One statement is FALSE of the emitted code and is stated as such: [if ( *p ) c = 1;] does not
    restore Y when [*p] is 0 ([C01_ptr_if_deref_zero_y_lost], [C01_ptr_if_deref_y_not_restored]).
    Statements only; proofs in Proofs/GenPtrFacts.v. *)
From Coq Require Import String List Bool NArith ZArith Lia.
From CC Require Import Base.Str Asm.Lines M6502.Isa Asm.Operand M6502.Sem Model.OptSem
  Model.GenTemplates Proofs.GenTemplatesFacts Proofs.GenCmp16Facts Model.GenLoops
  Proofs.GenLoopsFacts Model.GenTables Model.GenIf Proofs.GenIfFacts Model.GenPtr Proofs.GenPtrFacts.
Import ListNotations.
Open Scope string_scope.
Open Scope list_scope.
Open Scope Z_scope.

(** [dst = *p;]: dst holds the byte the pointer designates; Y (parked in cctmp) is restored, X and S
    are kept; only dst and cctmp changed *)
Theorem C01_ptr_deref_load : forall cfg dst p pd pp pt st,
  ports cfg = [] -> ptr_wf cfg p pp pt -> var_wf cfg dst pd pp pt ->
  bytes_ok st ->
  no_self_alias pp pt (ptr_val st pp) ->
  exists st', halts_to cfg (deref_load dst p) st st' /\
    mget (mem st') pd = mget (mem st) (ptr_val st pp) /\
    only_changes [pd; pt] st st' /\ keeps_xys st st'.
Proof. exact deref_load_correct. Qed.
Print Assumptions C01_ptr_deref_load.

(** [*p = src;]: the designated cell holds the source (a variable or a constant); only that cell and
    cctmp changed; Y restored *)
Theorem C01_ptr_deref_store : forall cfg p src pp pt st,
  ports cfg = [] -> ptr_wf cfg p pp pt -> src_wf cfg src pp pt ->
  bytes_ok st ->
  no_self_alias pp pt (ptr_val st pp) ->
  exists st', halts_to cfg (deref_store p src) st st' /\
    mget (mem st') (ptr_val st pp) = src_val cfg src st /\
    only_changes [ptr_val st pp; pt] st st' /\ keeps_xys st st'.
Proof. exact deref_store_correct. Qed.
Print Assumptions C01_ptr_deref_store.

(** the constant-index forms [dst = p[k];] / [p[k] = src;]: the cell at (p) + k mod 65536 *)
Theorem C01_ptr_idx_load : forall cfg dst p k pd pp pt st,
  ports cfg = [] -> ptr_wf cfg p pp pt -> var_wf cfg dst pd pp pt -> 0 <= k < 256 ->
  bytes_ok st ->
  no_self_alias pp pt (ptr_at (mem st) pp k) ->
  exists st', halts_to cfg (idx_load dst p k) st st' /\
    mget (mem st') pd = mget (mem st) (ptr_at (mem st) pp k) /\
    only_changes [pd; pt] st st' /\ keeps_xys st st'.
Proof. exact idx_load_correct. Qed.
Print Assumptions C01_ptr_idx_load.

Theorem C01_ptr_idx_store : forall cfg p k src pp pt st,
  ports cfg = [] -> ptr_wf cfg p pp pt -> src_wf cfg src pp pt -> 0 <= k < 256 ->
  bytes_ok st ->
  no_self_alias pp pt (ptr_at (mem st) pp k) ->
  exists st', halts_to cfg (idx_store p k src) st st' /\
    mget (mem st') (ptr_at (mem st) pp k) = src_val cfg src st /\
    only_changes [ptr_at (mem st) pp k; pt] st st' /\ keeps_xys st st'.
Proof. exact idx_store_correct. Qed.
Print Assumptions C01_ptr_idx_store.

(** Y is the index ([dst = p[Y];] / [p[Y] = src;]): no parking, no aliasing hypothesis *)
Theorem C01_ptr_idx_y_load : forall cfg dst p pd pp st,
  ports cfg = [] -> zp_ptr cfg p pp ->
  var_name dst -> layout cfg dst = Some pd -> 0 <= pd < 65536 ->
  exists st', halts_to cfg (idx_y_load dst p) st st' /\
    mget (mem st') pd = mget (mem st) (ptr_at (mem st) pp (rY st)) /\
    only_changes [pd] st st' /\ keeps_xys st st'.
Proof. exact idx_y_load_correct. Qed.
Print Assumptions C01_ptr_idx_y_load.

Theorem C01_ptr_idx_y_store : forall cfg p src pp st,
  ports cfg = [] -> zp_ptr cfg p pp -> src_ok cfg src ->
  exists st', halts_to cfg (idx_y_store p src) st st' /\
    mget (mem st') (ptr_at (mem st) pp (rY st)) = src_val cfg src st /\
    only_changes [ptr_at (mem st) pp (rY st)] st st' /\ keeps_xys st st'.
Proof. exact idx_y_store_correct. Qed.
Print Assumptions C01_ptr_idx_y_store.

(** [p = &x;] / [p = arr;]: the 16-bit value of the pointer is the address of the symbol; [q = p;] *)
Theorem C01_ptr_addr_of : forall cfg p x pp px st,
  ports cfg = [] -> var_name p -> sym_name x ->
  layout cfg p = Some pp -> layout cfg x = Some px ->
  0 <= pp -> pp + 1 < 65536 -> 0 <= px < 65536 ->
  exists st', halts_to cfg (addr_of_tpl p x) st st' /\
    ptr_val st' pp = px /\
    only_changes [pp; pp + 1] st st' /\ keeps_xys st st'.
Proof. exact addr_of_correct. Qed.
Print Assumptions C01_ptr_addr_of.

Theorem C01_ptr_ptr_copy : forall cfg q p pq pp st,
  ports cfg = [] -> var_name q -> var_name p ->
  layout cfg q = Some pq -> layout cfg p = Some pp ->
  0 <= pq -> pq + 1 < 65536 -> 0 <= pp -> pp + 1 < 65536 -> pq <> pp + 1 ->
  exists st', halts_to cfg (ptr_copy_tpl q p) st st' /\
    ptr_val st' pq = ptr_val st pp /\
    only_changes [pq; pq + 1] st st' /\ keeps_xys st st'.
Proof. exact ptr_copy_correct. Qed.
Print Assumptions C01_ptr_ptr_copy.

(** address-of composed with a load: after [p = &x; dst = *p;] dst = x; after [p = arr; dst = p[k];]
    dst = arr[k] *)
Theorem C01_ptr_addr_of_deref : forall cfg p x dst px pd pp pt st,
  ports cfg = [] -> ptr_wf cfg p pp pt -> sym_name x ->
  var_wf cfg x px pp pt -> var_wf cfg dst pd pp pt ->
  exists st', halts_to cfg (addr_of_tpl p x ++ deref_load dst p) st st' /\
    mget (mem st') pd = mget (mem st) px /\
    ptr_val st' pp = px /\
    only_changes [pp; pp + 1; pd; pt] st st' /\ keeps_xys st st'.
Proof. exact addr_of_deref_correct. Qed.
Print Assumptions C01_ptr_addr_of_deref.

Theorem C01_ptr_addr_of_idx_load : forall cfg p x dst k px pd pp pt st,
  ports cfg = [] -> ptr_wf cfg p pp pt -> sym_name x -> layout cfg x = Some px ->
  0 <= px -> 0 <= k < 256 -> px + k < 65536 ->
  var_wf cfg dst pd pp pt ->
  no_self_alias pp pt (px + k) ->
  exists st', halts_to cfg (addr_of_tpl p x ++ idx_load dst p k) st st' /\
    mget (mem st') pd = mget (mem st) (px + k) /\
    ptr_val st' pp = px /\
    only_changes [pp; pp + 1; pd; pt] st st' /\ keeps_xys st st'.
Proof. exact addr_of_idx_load_correct. Qed.
Print Assumptions C01_ptr_addr_of_idx_load.

(** pointer arithmetic: (v + 1), (v - 1), (v + k) mod 65536 *)
Theorem C01_ptr_ptr_inc : forall cfg p lbl pp st,
  ports cfg = [] -> var_name p -> lbl <> ""%string -> layout cfg p = Some pp ->
  0 <= pp -> pp + 1 < 65536 -> bytes_ok st ->
  exists st', halts_to cfg (ptr_inc p lbl) st st' /\
    ptr_val st' pp = (ptr_val st pp + 1) mod 65536 /\
    only_changes [pp; pp + 1] st st' /\ keeps_xys st st'.
Proof. exact ptr_inc_correct. Qed.
Print Assumptions C01_ptr_ptr_inc.

Theorem C01_ptr_ptr_dec : forall cfg p lbl pp st,
  ports cfg = [] -> var_name p -> lbl <> ""%string -> layout cfg p = Some pp ->
  0 <= pp -> pp + 1 < 65536 -> bytes_ok st ->
  exists st', halts_to cfg (ptr_dec p lbl) st st' /\
    ptr_val st' pp = (ptr_val st pp - 1) mod 65536 /\
    only_changes [pp; pp + 1] st st' /\ keeps_xys st st'.
Proof. exact ptr_dec_correct. Qed.
Print Assumptions C01_ptr_ptr_dec.

Theorem C01_ptr_ptr_add : forall cfg p k pp st,
  ports cfg = [] -> var_name p -> layout cfg p = Some pp ->
  0 <= pp -> pp + 1 < 65536 -> 0 <= k < 65536 -> bytes_ok st ->
  exists st', halts_to cfg (ptr_add p k) st st' /\
    ptr_val st' pp = (ptr_val st pp + k) mod 65536 /\
    only_changes [pp; pp + 1] st st' /\ keeps_xys st st'.
Proof. exact ptr_add_correct. Qed.
Print Assumptions C01_ptr_ptr_add.

(** [( *p )++;]: the designated cell is incremented mod 256; [*p += k;]; [dst = *p + y;] *)
Theorem C01_ptr_deref_inc : forall cfg p pp pt st,
  ports cfg = [] -> ptr_wf cfg p pp pt -> bytes_ok st ->
  no_self_alias pp pt (ptr_val st pp) ->
  exists st', halts_to cfg (deref_inc p) st st' /\
    mget (mem st') (ptr_val st pp) = (mget (mem st) (ptr_val st pp) + 1) mod 256 /\
    only_changes [ptr_val st pp; pt] st st' /\ keeps_xys st st'.
Proof. exact deref_inc_correct. Qed.
Print Assumptions C01_ptr_deref_inc.

Theorem C01_ptr_deref_add : forall cfg p k pp pt st,
  ports cfg = [] -> ptr_wf cfg p pp pt -> 0 <= k < 256 -> bytes_ok st ->
  no_self_alias pp pt (ptr_val st pp) ->
  exists st', halts_to cfg (deref_add p k) st st' /\
    mget (mem st') (ptr_val st pp) = (mget (mem st) (ptr_val st pp) + k) mod 256 /\
    only_changes [ptr_val st pp; pt] st st' /\ keeps_xys st st'.
Proof. exact deref_add_correct. Qed.
Print Assumptions C01_ptr_deref_add.

Theorem C01_ptr_deref_plus : forall cfg dst p y pd py pp pt st,
  ports cfg = [] -> ptr_wf cfg p pp pt -> var_wf cfg dst pd pp pt -> var_wf cfg y py pp pt ->
  bytes_ok st ->
  no_self_alias pp pt (ptr_val st pp) ->
  exists st', halts_to cfg (deref_plus dst p y) st st' /\
    mget (mem st') pd = (mget (mem st) (ptr_val st pp) + mget (mem st) py) mod 256 /\
    only_changes [pd; pt] st st' /\ keeps_xys st st'.
Proof. exact deref_plus_correct. Qed.
Print Assumptions C01_ptr_deref_plus.

(** the condition [if ( *p ) B], any body: not 0: the body runs from a state with Y restored; 0: the
    final state is [deref_tested st pt 0], where Y = 0 (the parked value is NOT restored) *)
Theorem C01_ptr_if_deref_tpl : forall cfg p B lbl pp pt (R : mstate -> mstate -> Prop) st,
  ports cfg = [] -> ptr_wf cfg p pp pt -> lbl <> ""%string ->
  no_ret B -> fresh_in lbl B ->
  (forall s, bytes_ok s -> exists s', halts_to cfg B s s' /\ R s s') ->
  bytes_ok st ->
  no_self_alias pp pt (ptr_val st pp) ->
  exists st', halts_to cfg (if_deref_tpl p B lbl) st st' /\
    (if mget (mem st) (ptr_val st pp) =? 0
     then st' = deref_tested st pt 0
     else R (deref_restored st pt (mget (mem st) (ptr_val st pp))) st').
Proof. exact if_deref_tpl_correct. Qed.
Print Assumptions C01_ptr_if_deref_tpl.

(** the two halves for the body [dst = k;] *)
Theorem C01_ptr_if_deref_taken : forall cfg p dst k lbl pd pp pt st,
  ports cfg = [] -> ptr_wf cfg p pp pt -> lbl <> ""%string ->
  var_wf cfg dst pd pp pt -> 0 <= k < 256 ->
  bytes_ok st ->
  no_self_alias pp pt (ptr_val st pp) ->
  mget (mem st) (ptr_val st pp) <> 0 ->
  exists st', halts_to cfg (if_deref_tpl p (assign8 dst k) lbl) st st' /\
    mget (mem st') pd = k /\
    only_changes [pd; pt] st st' /\ keeps_xys st st'.
Proof. exact if_deref_taken_correct. Qed.
Print Assumptions C01_ptr_if_deref_taken.

Theorem C01_ptr_if_deref_zero_y_lost : forall cfg p dst k lbl pd pp pt st,
  ports cfg = [] -> ptr_wf cfg p pp pt -> lbl <> ""%string ->
  var_wf cfg dst pd pp pt -> 0 <= k < 256 ->
  bytes_ok st ->
  no_self_alias pp pt (ptr_val st pp) ->
  mget (mem st) (ptr_val st pp) = 0 ->
  exists st', halts_to cfg (if_deref_tpl p (assign8 dst k) lbl) st st' /\
    rY st' = 0 /\ mget (mem st') pt = rY st /\
    rX st' = rX st /\ rS st' = rS st /\ only_changes [pt] st st'.
Proof. exact if_deref_zero_y_lost. Qed.
Print Assumptions C01_ptr_if_deref_zero_y_lost.

Theorem C01_ptr_if_deref_zero_y_changed : forall cfg p dst k lbl pd pp pt st,
  ports cfg = [] -> ptr_wf cfg p pp pt -> lbl <> ""%string ->
  var_wf cfg dst pd pp pt -> 0 <= k < 256 ->
  bytes_ok st ->
  no_self_alias pp pt (ptr_val st pp) ->
  mget (mem st) (ptr_val st pp) = 0 -> rY st <> 0 ->
  exists st', halts_to cfg (if_deref_tpl p (assign8 dst k) lbl) st st' /\ ~ keeps_xys st st'.
Proof. exact if_deref_zero_y_changed. Qed.
Print Assumptions C01_ptr_if_deref_zero_y_changed.

(** every C identifier is a pointer / symbol name *)
Theorem C01_ptr_ident_ptr_name : forall v, v <> ""%string -> all_ident v = true -> ptr_name v.
Proof. exact ident_ptr_name. Qed.
Print Assumptions C01_ptr_ident_ptr_name.

Theorem C01_ptr_ident_sym_name : forall v, v <> ""%string -> all_ident v = true -> sym_name v.
Proof. exact ident_sym_name. Qed.
Print Assumptions C01_ptr_ident_sym_name.

(** the closed forms of the 17 listings ([plisting_NN] of Model/GenPtr.v), compiler names and label,
    under the single layout hypothesis [ptr_layout] *)
Theorem C01_ptr_plisting_01 : forall cfg pa pb pc parr pp pq pt st,
  ptr_layout cfg pa pb pc parr pp pq pt ->
  exists st', halts_to cfg (addr_of_tpl "p" "a") st st' /\
    ptr_val st' pp = pa /\ only_changes [pp; pp + 1] st st' /\ keeps_xys st st'.
Proof. exact plisting_01_correct. Qed.
Print Assumptions C01_ptr_plisting_01.

Theorem C01_ptr_plisting_02 : forall cfg pa pb pc parr pp pq pt st,
  ptr_layout cfg pa pb pc parr pp pq pt ->
  exists st', halts_to cfg (addr_of_tpl "p" "arr") st st' /\
    ptr_val st' pp = parr /\ only_changes [pp; pp + 1] st st' /\ keeps_xys st st'.
Proof. exact plisting_02_correct. Qed.
Print Assumptions C01_ptr_plisting_02.

Theorem C01_ptr_plisting_03 : forall cfg pa pb pc parr pp pq pt st,
  ptr_layout cfg pa pb pc parr pp pq pt ->
  exists st', halts_to cfg (ptr_copy_tpl "q" "p") st st' /\
    ptr_val st' pq = ptr_val st pp /\ only_changes [pq; pq + 1] st st' /\ keeps_xys st st'.
Proof. exact plisting_03_correct. Qed.
Print Assumptions C01_ptr_plisting_03.

Theorem C01_ptr_plisting_04 : forall cfg pa pb pc parr pp pq pt st,
  ptr_layout cfg pa pb pc parr pp pq pt -> bytes_ok st ->
  no_self_alias pp pt (ptr_val st pp) ->
  exists st', halts_to cfg (deref_load "a" "p") st st' /\
    mget (mem st') pa = mget (mem st) (ptr_val st pp) /\
    only_changes [pa; pt] st st' /\ keeps_xys st st'.
Proof. exact plisting_04_correct. Qed.
Print Assumptions C01_ptr_plisting_04.

Theorem C01_ptr_plisting_05 : forall cfg pa pb pc parr pp pq pt st,
  ptr_layout cfg pa pb pc parr pp pq pt -> bytes_ok st ->
  no_self_alias pp pt (ptr_val st pp) ->
  exists st', halts_to cfg (deref_store "p" (SVar "a")) st st' /\
    mget (mem st') (ptr_val st pp) = mget (mem st) pa /\
    only_changes [ptr_val st pp; pt] st st' /\ keeps_xys st st'.
Proof. exact plisting_05_correct. Qed.
Print Assumptions C01_ptr_plisting_05.

Theorem C01_ptr_plisting_06 : forall cfg pa pb pc parr pp pq pt st,
  ptr_layout cfg pa pb pc parr pp pq pt -> bytes_ok st ->
  no_self_alias pp pt (ptr_val st pp) ->
  exists st', halts_to cfg (deref_store "p" (SConst 5)) st st' /\
    mget (mem st') (ptr_val st pp) = 5 /\
    only_changes [ptr_val st pp; pt] st st' /\ keeps_xys st st'.
Proof. exact plisting_06_correct. Qed.
Print Assumptions C01_ptr_plisting_06.

Theorem C01_ptr_plisting_07 : forall cfg pa pb pc parr pp pq pt st,
  ptr_layout cfg pa pb pc parr pp pq pt ->
  exists st', halts_to cfg (idx_y_load "a" "p") st st' /\
    mget (mem st') pa = mget (mem st) ((ptr_val st pp + rY st) mod 65536) /\
    only_changes [pa] st st' /\ keeps_xys st st'.
Proof. exact plisting_07_correct. Qed.
Print Assumptions C01_ptr_plisting_07.

Theorem C01_ptr_plisting_08 : forall cfg pa pb pc parr pp pq pt st,
  ptr_layout cfg pa pb pc parr pp pq pt ->
  exists st', halts_to cfg (idx_y_store "p" (SVar "a")) st st' /\
    mget (mem st') ((ptr_val st pp + rY st) mod 65536) = mget (mem st) pa /\
    only_changes [(ptr_val st pp + rY st) mod 65536] st st' /\ keeps_xys st st'.
Proof. exact plisting_08_correct. Qed.
Print Assumptions C01_ptr_plisting_08.

Theorem C01_ptr_plisting_09 : forall cfg pa pb pc parr pp pq pt st,
  ptr_layout cfg pa pb pc parr pp pq pt -> bytes_ok st ->
  no_self_alias pp pt ((ptr_val st pp + 2) mod 65536) ->
  exists st', halts_to cfg (idx_load "a" "p" 2) st st' /\
    mget (mem st') pa = mget (mem st) ((ptr_val st pp + 2) mod 65536) /\
    only_changes [pa; pt] st st' /\ keeps_xys st st'.
Proof. exact plisting_09_correct. Qed.
Print Assumptions C01_ptr_plisting_09.

Theorem C01_ptr_plisting_10 : forall cfg pa pb pc parr pp pq pt st,
  ptr_layout cfg pa pb pc parr pp pq pt -> bytes_ok st ->
  no_self_alias pp pt ((ptr_val st pp + 2) mod 65536) ->
  exists st', halts_to cfg (idx_store "p" 2 (SVar "a")) st st' /\
    mget (mem st') ((ptr_val st pp + 2) mod 65536) = mget (mem st) pa /\
    only_changes [(ptr_val st pp + 2) mod 65536; pt] st st' /\ keeps_xys st st'.
Proof. exact plisting_10_correct. Qed.
Print Assumptions C01_ptr_plisting_10.

Theorem C01_ptr_plisting_11 : forall cfg pa pb pc parr pp pq pt st,
  ptr_layout cfg pa pb pc parr pp pq pt -> bytes_ok st ->
  exists st', halts_to cfg (ptr_inc "p" ".ifend1") st st' /\
    ptr_val st' pp = (ptr_val st pp + 1) mod 65536 /\
    only_changes [pp; pp + 1] st st' /\ keeps_xys st st'.
Proof. exact plisting_11_correct. Qed.
Print Assumptions C01_ptr_plisting_11.

Theorem C01_ptr_plisting_12 : forall cfg pa pb pc parr pp pq pt st,
  ptr_layout cfg pa pb pc parr pp pq pt -> bytes_ok st ->
  exists st', halts_to cfg (ptr_dec "p" ".ifend1") st st' /\
    ptr_val st' pp = (ptr_val st pp - 1) mod 65536 /\
    only_changes [pp; pp + 1] st st' /\ keeps_xys st st'.
Proof. exact plisting_12_correct. Qed.
Print Assumptions C01_ptr_plisting_12.

Theorem C01_ptr_plisting_13 : forall cfg pa pb pc parr pp pq pt st,
  ptr_layout cfg pa pb pc parr pp pq pt -> bytes_ok st ->
  exists st', halts_to cfg (ptr_add "p" 3) st st' /\
    ptr_val st' pp = (ptr_val st pp + 3) mod 65536 /\
    only_changes [pp; pp + 1] st st' /\ keeps_xys st st'.
Proof. exact plisting_13_correct. Qed.
Print Assumptions C01_ptr_plisting_13.

Theorem C01_ptr_plisting_14 : forall cfg pa pb pc parr pp pq pt st,
  ptr_layout cfg pa pb pc parr pp pq pt -> bytes_ok st ->
  no_self_alias pp pt (ptr_val st pp) ->
  exists st', halts_to cfg (deref_inc "p") st st' /\
    mget (mem st') (ptr_val st pp) = (mget (mem st) (ptr_val st pp) + 1) mod 256 /\
    only_changes [ptr_val st pp; pt] st st' /\ keeps_xys st st'.
Proof. exact plisting_14_correct. Qed.
Print Assumptions C01_ptr_plisting_14.

Theorem C01_ptr_plisting_15 : forall cfg pa pb pc parr pp pq pt st,
  ptr_layout cfg pa pb pc parr pp pq pt -> bytes_ok st ->
  no_self_alias pp pt (ptr_val st pp) ->
  exists st', halts_to cfg (deref_add "p" 2) st st' /\
    mget (mem st') (ptr_val st pp) = (mget (mem st) (ptr_val st pp) + 2) mod 256 /\
    only_changes [ptr_val st pp; pt] st st' /\ keeps_xys st st'.
Proof. exact plisting_15_correct. Qed.
Print Assumptions C01_ptr_plisting_15.

Theorem C01_ptr_plisting_16_taken : forall cfg pa pb pc parr pp pq pt st,
  ptr_layout cfg pa pb pc parr pp pq pt -> bytes_ok st ->
  no_self_alias pp pt (ptr_val st pp) ->
  mget (mem st) (ptr_val st pp) <> 0 ->
  exists st', halts_to cfg (if_deref_tpl "p" (assign8 "c" 1) ".ifend1") st st' /\
    mget (mem st') pc = 1 /\ only_changes [pc; pt] st st' /\ keeps_xys st st'.
Proof. exact plisting_16_taken. Qed.
Print Assumptions C01_ptr_plisting_16_taken.

Theorem C01_ptr_plisting_16_zero_y_lost : forall cfg pa pb pc parr pp pq pt st,
  ptr_layout cfg pa pb pc parr pp pq pt -> bytes_ok st ->
  no_self_alias pp pt (ptr_val st pp) ->
  mget (mem st) (ptr_val st pp) = 0 ->
  exists st', halts_to cfg (if_deref_tpl "p" (assign8 "c" 1) ".ifend1") st st' /\
    rY st' = 0 /\ mget (mem st') pt = rY st /\
    rX st' = rX st /\ rS st' = rS st /\ only_changes [pt] st st'.
Proof. exact plisting_16_zero_y_lost. Qed.
Print Assumptions C01_ptr_plisting_16_zero_y_lost.

Theorem C01_ptr_plisting_17 : forall cfg pa pb pc parr pp pq pt st,
  ptr_layout cfg pa pb pc parr pp pq pt -> bytes_ok st ->
  no_self_alias pp pt (ptr_val st pp) ->
  exists st', halts_to cfg (deref_plus "a" "p" "b") st st' /\
    mget (mem st') pa = (mget (mem st) (ptr_val st pp) + mget (mem st) pb) mod 256 /\
    only_changes [pa; pt] st st' /\ keeps_xys st st'.
Proof. exact plisting_17_correct. Qed.
Print Assumptions C01_ptr_plisting_17.

Theorem C01_ptr_addr_of_a_deref : forall cfg pa pb pc parr pp pq pt st,
  ptr_layout cfg pa pb pc parr pp pq pt ->
  exists st', halts_to cfg (addr_of_tpl "p" "a" ++ deref_load "b" "p") st st' /\
    mget (mem st') pb = mget (mem st) pa /\ ptr_val st' pp = pa /\
    only_changes [pp; pp + 1; pb; pt] st st' /\ keeps_xys st st'.
Proof. exact addr_of_a_deref. Qed.
Print Assumptions C01_ptr_addr_of_a_deref.

Theorem C01_ptr_addr_of_arr_idx : forall cfg pa pb pc parr pp pq pt st,
  ptr_layout cfg pa pb pc parr pp pq pt ->
  exists st', halts_to cfg (addr_of_tpl "p" "arr" ++ idx_load "b" "p" 2) st st' /\
    mget (mem st') pb = mget (mem st) (parr + 2) /\ ptr_val st' pp = parr /\
    only_changes [pp; pp + 1; pb; pt] st st' /\ keeps_xys st st'.
Proof. exact addr_of_arr_idx. Qed.
Print Assumptions C01_ptr_addr_of_arr_idx.

(** the layout hypothesis is satisfiable; the defect of [if ( *p ) c = 1;], run: Y = 7 on entry,
    *p = 0: Y = 0 on exit (known open defect of the compiler; this is its Coq-checked witness) *)
Theorem C01_ptr_cfg_ptr_layout : ptr_layout cfg_ptr 128 129 130 131 140 142 144.
Proof. exact cfg_ptr_layout. Qed.
Print Assumptions C01_ptr_cfg_ptr_layout.

Theorem C01_ptr_if_deref_y_not_restored :
  run_ptr (if_deref_tpl "p" (assign8 "c" 1) ".ifend1") (st_ptr 0 0 0 7 128)
  = Some (0, 0, 0, 128, 1, 0, 255).
Proof. exact if_deref_y_not_restored. Qed.
Print Assumptions C01_ptr_if_deref_y_not_restored.

Theorem C01_ptr_if_deref_y_restored_when_taken :
  run_ptr (if_deref_tpl "p" (assign8 "c" 1) ".ifend1") (st_ptr 5 0 0 7 128)
  = Some (5, 0, 1, 128, 1, 7, 255).
Proof. exact if_deref_y_restored_when_taken. Qed.
Print Assumptions C01_ptr_if_deref_y_restored_when_taken.

Theorem C01_ptr_if_deref_y_not_restored_halts :
  exists st st', bytes_ok st /\ no_self_alias 140 144 (ptr_val st 140) /\
    halts_to cfg_ptr (if_deref_tpl "p" (assign8 "c" 1) ".ifend1") st st' /\
    rY st = 7 /\ rY st' = 0 /\ ~ keeps_xys st st'.
Proof. exact if_deref_y_not_restored_halts. Qed.
Print Assumptions C01_ptr_if_deref_y_not_restored_halts.
