(** Specification-side definitions for the GLOBAL soundness of the long-branch repair
    [check_branches] (C03), on the executor [crun] / [halts] of Model/OptSimCF.v.
    Proofs in Proofs/CbSimFacts.v. *)
From Coq Require Import String Ascii List Bool NArith ZArith Arith.
From CC Require Import Base.Str Asm.Lines M6502.Isa Asm.Operand M6502.Sem
     Model.CheckBranches Model.CbSpec Model.OptSim Model.OptSimCF.
Import ListNotations.
Open Scope nat_scope.
Open Scope list_scope.

(** a window of [d] lines at position [a] is replaced by one of [m] lines: where a position
    outside the window (at most [a], or at least [a + d]) goes *)
Definition shift (a d m p : nat) : nat := if p <? a + d then p else p - d + m.

(** no label of the code looks like one the repair creates (".fix..") *)
Definition no_fix_labels (c : code) : Prop :=
  forall l, In l (all_labels c) -> is_fix_label l = false.

(** replacing the window [D] by [M] in [A ++ D ++ T] is sound when, from the top of [D], every
    halting run leaves [D] at a position and in a state that [M] reaches too (position shifted) *)
Definition enters_alike (cfg : config) (A D M T : code) : Prop :=
  forall n s fin,
    crun cfg (A ++ D ++ T) n (length A) s = Some (length (A ++ D ++ T), fin) ->
    exists m k s1 j,
      m < n /\ (k <= length A \/ length A + length D <= k) /\
      crun cfg (A ++ D ++ T) m k s1 = Some (length (A ++ D ++ T), fin) /\
      crun cfg (A ++ M ++ T) j (length A) s = Some (shift (length A) (length D) (length M) k, s1).
