(** C14 — inlining is transparent: the structural half (see tools/props/c14.py for what is
    co-executed).  Statements only. *)
From Coq Require Import String Ascii List Bool NArith ZArith.
From CC Require Import Base.Str Asm.Lines Model.Optimize Model.OptSpec Model.InlineRename Proofs.OptFacts.
Import ListNotations.

(** the optimiser never moves or changes a label (so an inlined block keeps its entry/exit labels) *)
Theorem C14_optimize_noninstr_fixed : forall (c : code) (k : nat) (l : line),
  nth_error c k = Some l -> is_ins l = false -> nth_error (fst (optimize c)) k = Some l.
Proof. exact optimize_noninstr_fixed. Qed.

(** inlining appends exactly the renamed body and the exit label; nothing of the caller changes *)
Theorem C14_push_code_shape : forall dst body n,
  push_code dst body n = dst ++ map (rename_line n) body ++ [Lbl (".endofinline" ++ string_of_N n)%string].
Proof. intros. unfold push_code, append_code. rewrite <- app_assoc. reflexivity. Qed.

(** renaming keeps every instruction except the operand (and protection) of branches and jumps *)
Theorem C14_rename_keeps_instructions : forall n i,
  renames_operand (i_mn i) = false -> rename_line n (Ins i) = Ins i.
Proof. intros n i H. unfold rename_line. rewrite H. reflexivity. Qed.

From CC Require Import Model.CbSpec Model.WfCode Proofs.InlineFacts.

(** labels of the inlined body are exactly the suffixed labels; its branch targets likewise *)
Theorem C14_rename_labels : forall n c, all_labels (map (rename_line n) c) = map (suffix_of n) (all_labels c).
Proof. exact rename_labels. Qed.
Theorem C14_rename_targets : forall n c, local_targets (map (rename_line n) c) = map (suffix_of n) (local_targets c).
Proof. exact rename_targets. Qed.

(** the renaming is injective: two expansions (any counters, nested or not) never share a label *)
Theorem C14_suffix_inj : forall n1 n2 l1 l2,
  suffix_of n1 l1 = suffix_of n2 l2 -> n1 = n2 /\ l1 = l2.
Proof. exact suffix_of_inj. Qed.

(** control flow of the inlined body stays inside the block; its return lands on the exit label *)
Theorem C14_push_code_closed : forall (dst body : code) (n : N),
  (forall t, In t (local_targets body) -> In t (all_labels body) \/ t = ".endof"%string) ->
  forall t, In t (local_targets (map (rename_line n) body)) ->
            In t (all_labels (map (rename_line n) body ++ [Lbl (".endofinline" ++ string_of_N n)%string])).
Proof. exact push_code_closed. Qed.
