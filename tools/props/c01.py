"""C01 — emitted 6502 code computes what the C source says.

proof   : Props/C01.v: 39 lowering templates (assignments, 8/16-bit arithmetic, ++/--, shifts, zero/sign
          extension) proved on Sem.run to compute the C value for all states; the 6502 flag semantics of CMP; the branch sequences the generator emits
          for == != < > <= >= reach their label exactly when the relation holds (unsigned: all bytes;
          signed: when the subtraction does not overflow — the overflow case is refuted: known
          finding); the negation / operand-swap tables; the compare-with-zero shortcut
corr-M  : the branch skeleton the real generator emits for every (operator x signedness x statement
          kind) cell vs Model/GenTables.v, exhaustively
corr-S  : seeded programs of the whole accepted subset are compiled at -O0 (the generator alone)
          and -O1, laid out, and CO-EXECUTED on the extracted 6502 semantics against the extracted C
          semantics (Src/CSem.v) from many initial states; every variable, X and Y are compared.
          A failing program is minimised; it is attributed to a known finding only if its MINIMISED
          form has the finding's feature; anything else is a violation.
partial : the generator itself is not modelled beyond its decision tables: programs are explored,
          not quantified
"""
import re
from lib.common import *
from lib.gen_c import gen_program, directed_programs, long_programs, Prog
from lib.oracle import *
from lib.features import features
from lib.gentab import run_gentab
from lib.gentpl import run_gentpl

LEVEL = 'proof'

# generator profile in which the compiler is expected to be right (known-finding features are
# explored by a second, smaller pass so that a regression inside them is still seen as "known")
CLEAN = dict(signed=False, shorts=False, ternary=True, calls=True, hw=False)


def theorems():
    p = os.path.join(COQ, 'Props', 'C01.v')
    return re.findall(r'^Theorem (\w+)', open(p).read(), re.M) if os.path.exists(p) else []


def attribute(ctx, feats, findings):
    """the first open finding all of whose required features are present"""
    for f in findings:
        need = set(f.get('features', []))
        if need and need <= feats:
            return f
    return None


def renamed_programs(quick):
    import copy
    from lib.gen_c import RENAMES
    out = {}
    for n, (k, p) in enumerate(directed_programs().items()):
        if k.startswith('R_') or k.startswith('Q_'):
            continue      # (precedence / constant-operand shapes: the names play no part there)
        for r in ([n % len(RENAMES)] if quick and not k.startswith('N_') else range(len(RENAMES))):
            q = copy.deepcopy(p)
            q.rename = RENAMES[r]
            out['%s~r%d' % (k, r)] = q
    return out


def run(ctx):
    quick = ctx.tier == 'quick'
    rng = ctx.rng
    th = theorems()
    if th:
        ctx.proof_stage('Props.C01', th)
    for extra in ('C01loops', 'C01ctl', 'C01call', 'C01truth', 'C01ptr', 'C01elem'):
        pl = os.path.join(COQ, 'Props', extra + '.v')
        if os.path.exists(pl):
            ctx.proof_stage('Props.' + extra, re.findall(r'^Theorem (\w+)', open(pl).read(), re.M))
    findings = [f for f in ctx.findings if f.get('status') == 'open']
    # corr-M: the generator's comparison lowering vs Model/GenTables.v, every cell
    ncell, tab_mism, _ = run_gentab()
    ctx.cov['correspondence']['corr-M generator comparison tables'] = {'cells': ncell, 'mismatches': len(tab_mism), 'exhaustive': True}
    ctx.cov['evaluations'] = ncell
    # corr-M: the lowering templates of Model/GenTemplates.v vs what the generator emits
    ntpl, tpl_mism = run_gentpl()
    ctx.cov['correspondence']['corr-M generator lowering templates'] = {'templates': ntpl, 'mismatches': len(tpl_mism), 'exhaustive': True}
    ctx.cov['evaluations'] += ntpl
    tab_mism = tab_mism + tpl_mism
    ncell += ntpl
    stats = {}
    viol = []
    shrunk_budget = 12 if quick else 120
    nprog = 0
    for (label, opts, n, levels) in [
            ('core', dict(signed=False, shorts=False), 500 if quick else 12000, ['-O0', '-O1']),
            ('full', dict(bait=True, bait_p=0.15), 250 if quick else 8000, ['-O0'] if quick else ['-O0', '-O1']),
            ('bait', dict(bait=True, inline=True, shorts='always', bait_p=0.4), 200 if quick else 5000, ['-O1'] if quick else ['-O0', '-O1']),
            ('ptr', dict(pointers=True, signed=False, shorts=False, bait=True, bait_p=0.15), 200 if quick else 5000, ['-O1'] if quick else ['-O0', '-O1']),
            ('hw', dict(hw=True, signed=False, bait=True, bait_p=0.3), 150 if quick else 4000, ['-O1'] if quick else ['-O0', '-O1']),
            # the fixed enumeration of the bait families: the same programs every run
            ('directed', None, 0, ['-O0', '-O1'] if quick else ['-O0', '-O1', '-O2', '-O3']),
            # the fixed enumeration of branch spans around 128 bytes (repaired branches must still decide as C does)
            ('long', None, 0, ['-O1'] if quick else ['-O0', '-O1']),
            # the directed programs with their variables and functions called like a keyword followed by more
            # letters (gen_c.RENAMES): the names must not change the meaning
            ('renamed', None, 0, ['-O1'] if quick else ['-O0', '-O1'])]:
        progs = ({'%s%d' % (label, i): gen_program(rng, opts) for i in range(n)} if label not in ('directed', 'long', 'renamed')
                 else renamed_programs(quick) if label == 'renamed'
                 else (directed_programs() if label == 'directed'
                       # (arrays of 16-bit elements are laid out low bytes first, then high bytes: the harness does not
                       # map them to C values; those programs are for the range checks of C03 / C13 only)
                       else {k: v for k, v in long_programs().items() if not k.startswith('L_sarr')}))
        nprog += len(progs)
        for O in levels:
            res = c_vs_machine(progs, [O], 12 if quick else 32, rng)
            for pid, o in res.items():
                key = label + ':' + O
                stats.setdefault(key, {})
                st = stats[key]
                st['compile-' + o['status']] = st.get('compile-' + o['status'], 0) + 1
                if o['status'] in ('panic', 'hang'):
                    continue       # C16's business
                for (k, v, d) in o['cases']:
                    st[v] = st.get(v, 0) + 1
                bad = failing(o)
                if not bad:
                    continue
                k, v, d = bad[0]
                ns = name_states(o['meta']['layout'], [o['meta']['states'][k]])[0]
                # quick attribution on the unshrunk program avoids minimising the bulk of known failures
                f0 = features(progs[pid])
                cand = attribute(ctx, f0, findings)
                if cand is not None and shrunk_budget <= 0:
                    ctx.known_finding(cand['id'], cand['text'])
                    continue
                small = progs[pid]
                if shrunk_budget > 0:
                    shrunk_budget -= 1
                    small = shrink_c01(progs[pid], [O], ns, rng)
                fs = features(small)
                f = attribute(ctx, fs, findings)
                if f is not None:
                    ctx.known_finding(f['id'], f['text'])
                    continue
                viol.append({'why': 'emitted code and C semantics disagree (%s): %s' % (v, d), 'level': O, 'profile': label,
                             'minimised_program': small.source(), 'features': sorted(fs), 'original_program': o['src'],
                             'initial': {kk: vv for kk, vv in ns.items()},
                             # (cells and initial values are given under the plain names; the program text carries these)
                             'renaming': getattr(small, 'rename', None)})
    agree = sum(st.get('agree', 0) for st in stats.values())
    ctx.cov['programs'] = nprog
    ctx.cov['evaluations'] += sum(sum(v for k, v in st.items() if not k.startswith('compile-')) for st in stats.values())
    ctx.cov['distinct_nontrivial'] = agree
    ctx.cov['traces_validated_against_impl'] = agree
    ctx.cov['correspondence']['corr-S C semantics vs emitted code'] = stats
    ctx.sample({'program': gen_program(random.Random(ctx.seed), dict()).source()[:800]})
    for v in viol[:3]:
        ctx.violation('c01', v)
    if tab_mism and not viol:
        ctx.violation_noinput('Model/GenTables.v / GenTemplates.v no longer match the generator on %d of %d cells; first: %s'
                              % (len(tab_mism), ncell, json.dumps(tab_mism[0])[:1500]), 'corr-M:gen_tables')
    ctx.cov['rule'] = ('tools/lib/gen_c.py: globals of char/signed char/short/array/const table/pointer to char (&v, array names, *p, p[i]), X and Y, arithmetic, bitwise, shifts, '
                       'comparisons, logical operators, ternary, assignment forms, ++/--, if/else, for/while/do, switch with fall-through, '
                       'calls with arguments and results, inline functions; bounded loops; 12 (quick) / 32 (thorough) initial states per '
                       'program biased to boundary bytes and all flag patterns; non-trivial = executions on which C semantics and machine agree '
                       'on every variable, X and Y (undecided/unsupported runs are counted separately)')
    ctx.cov['trusted_base'] = ['Coq 8.16.1 kernel', 'extraction of M6502/Sem.v and Src/CSem.v', 'harness ccv', 'layout and builder conventions (tools/lib/coexec.py, pipeline.py)',
                               'Src/CSem.v as the meaning of the C subset (16-bit int; runs whose meaning depends on 8-bit vs promoted evaluation are undecided)',
                               'feature-based attribution of failures to known findings on MINIMISED programs (tools/lib/features.py)']
    ctx.assumptions = ['the generator (4 400 lines) is not modelled: only its decision tables are; programs are explored, not quantified: partial',
                       'array indices out of bounds and evaluation-order dependent expressions are not generated / not decided']
