"""Compile generated programs with the real compiler (through ccv) in several variants and
co-execute the variants on the extracted 6502 semantics from the same initial states."""
from .common import *
from .coexec import *


def compile_variants(sources, variants, want=('vars', 'funcs'), extra_files=()):
    """sources: {pid: text or {variant: text}}; variants: {vname: [args]}.
    -> {pid: {vname: result-json}}"""
    jobs = []
    keys = []
    for pid, src in sources.items():
        for vn, args in variants.items():
            text = src[vn] if isinstance(src, dict) else src
            jobs.append(compile_job('%s@%s' % (pid, vn), text, args=args, want=want, files=extra_files))
            keys.append((pid, vn))
    res = run_ccv(''.join(jobs), tag='cv')
    out = {}
    for (pid, vn), r in zip(keys, res):
        out.setdefault(pid, {})[vn] = r
    return out


RTS_LINE = ('I', 'RTS', 0, 1, 6, None, '')


def funcs_of(r, stage='final'):
    """function bodies as dumped, each followed by the RTS the builder writes after it
    (src/tests/build.rs: write_function then "\tRTS"); inline functions are never called"""
    return {f['name']: norm_lines(f[stage]) + [RTS_LINE]
            for f in r.get('funcs', []) if f.get(stage) is not None}


def coexec(compiled, nstates, rng, fuel=300000, stage='final', layout_from=None, with_trace=False, small_index=False):
    """compiled: {pid: {vname: result-json (status ok)}}.  All variants of a program are run from
    the same initial states under the same layout (the variables of the first variant unless
    layout_from names one).  -> {pid: {'layout', 'states', 'runs': {vname: {k: run}}}}"""
    text = []
    meta = {}
    for pid, vs in compiled.items():
        names = list(vs.keys())
        ref = vs[layout_from or names[0]]
        try:
            lay = make_layout(ref['vars'], [f['name'] for f in ref.get('funcs', [])])
        except LayoutError:
            continue
        if small_index:
            # X, Y and index-like variables start inside the arrays of the generated programs: an out-of-range
            # subscript may alias anything (DUMMY, cctmp, the stack), which no property is about
            from .oracle import small_index_states
            states = small_index_states(rng, lay, nstates)
        else:
            states = gen_states(rng, lay, nstates)
        meta[pid] = {'layout': lay, 'states': states, 'watch': None}
        for vn in names:
            t, watch = prog_record('%s@%s' % (pid, vn), funcs_of(vs[vn], stage), lay, states, fuel=fuel)
            meta[pid]['watch'] = watch
            text.append(t)
    runs = run_sem(''.join(text)) if text else {}
    out = {}
    for pid, m in meta.items():
        out[pid] = dict(m)
        out[pid]['runs'] = {vn: runs.get('%s@%s' % (pid, vn), {}) for vn in compiled[pid].keys()}
    return out


def describe_state(lay, st, watch):
    inv = {}
    for n, addrs in lay['cells'].items():
        for i, a in enumerate(addrs):
            inv[a] = n if len(addrs) == 1 else '%s[%d]' % (n, i)
    return {'A': st['A'], 'X': st['X'], 'Y': st['Y'], 'flags': st['flags'],
            'mem': {inv.get(a, str(a)): v for a, v in st['cells'].items()}}


def describe_run(lay, r, watch):
    inv = {}
    for n, addrs in lay['cells'].items():
        for i, a in enumerate(addrs):
            inv[a] = n if len(addrs) == 1 else '%s[%d]' % (n, i)
    d = {k: r.get(k) for k in ('tag', 'A', 'X', 'Y', 'why', 'fn', 'pc', 'cycles')}
    if 'cells' in r:
        d['mem'] = {inv.get(a, str(a)): v for a, v in zip(watch, r['cells'])}
    return d


def asm_size_problems(decl, funcs):
    """decl: {tag: declared size} of the asm statements of the source (tags occur in their text);
    funcs: {name: final lines}.  Every emitted inline-assembly line must carry the declared size of
    the statement(s) whose tag it contains (pieces without a tag must be 0 bytes).  -> problems"""
    import re
    out = []
    for fn, lines in funcs.items():
        for k, l in enumerate(lines):
            if l[0] != 'N':
                continue
            tags = re.findall(r'tg\d+', l[2])
            want = sum(decl.get(t, 0) for t in tags)
            got = l[1] if l[1] is not None else 3
            if got != want:
                out.append('%s line %d: inline assembly %r is recorded with %s bytes, the source declares %d' % (fn, k, l[2][:40], l[1], want))
    return out


def with_declared_asm_sizes(decl, lines):
    """the same lines with every inline-assembly line given the size its source statement declares"""
    import re
    out = []
    for l in lines:
        if l[0] == 'N':
            tags = re.findall(r'tg\d+', l[2])
            if tags:
                l = ('N', sum(decl.get(t, 0) for t in tags), l[2])
        out.append(l)
    return out


def real_size_range_problems(compiled, levels=None):
    """compiled: {pid: {variant: compile result with 'vars' and 'funcs'}} -> list of problems: conditional
    branches whose displacement, recomputed with the sizes a 6502 ASSEMBLER gives each instruction (the
    extracted encoder of Model/WfCode.v under a layout of the program's variables), is outside -128..127.
    Unlike a computation with the compiler's own nb_bytes this also sees a branch left unrepaired
    because some instruction was counted too small."""
    from .asmsel import wf_records, run_wf
    from .coexec import make_layout, LayoutError
    recs = {}
    for pid, vs in compiled.items():
        for O, r in vs.items():
            if r.get('status') != 'ok' or (levels and O not in levels):
                continue
            try:
                lay = make_layout(r['vars'], [f['name'] for f in r.get('funcs', [])])
            except LayoutError:
                continue
            funcs = {f['name']: norm_lines(f['final']) for f in r['funcs'] if f.get('final') is not None and not f.get('inline')}
            recs['%s@%s' % (pid, O)] = (lay, funcs)
    rep = run_wf(wf_records(recs)) if recs else {}
    out = []
    checked = 0
    for key, fs in rep.items():
        for fn, d in fs.items():
            lines = [list(l) for l in recs[key][1][fn]]
            for b in d.get('bad', []):
                k, claimed, real = [int(x) for x in b.split(':')]
                lines[k][3] = real
            addr = []
            a = 0
            for l in lines:
                addr.append(a)
                if l[0] == 'I':
                    a += l[3]
                elif l[0] == 'N':
                    a += l[1]
            pos = {}
            for i, l in enumerate(lines):
                if l[0] == 'L':
                    pos.setdefault(l[1], []).append(i)
            for i, l in enumerate(lines):
                if l[0] == 'I' and l[1] in ('BCC', 'BCS', 'BEQ', 'BMI', 'BNE', 'BPL') and len(pos.get(l[6], [])) == 1:
                    checked += 1
                    disp = addr[pos[l[6]][0]] - (addr[i] + l[3])
                    if disp < -128 or disp > 127:
                        out.append({'id': key, 'function': fn, 'why': 'branch %s %s at line %d of %s is %d bytes away from its label (sizes as assembled)' % (l[1], l[6], i, fn, disp)})
                        break
    return out, checked
