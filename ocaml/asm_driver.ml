(* Driver of the extracted assembly-level models.  Reads the same @unit job text as the Rust
   harness (tools/lib/common.py: unit_job) on a file and prints one block per job:
     @res <id> <status> <ret> <size>
     <lines, same encoding>
     @end                                                                              *)
open Asm_model

let rec n_of_int (i : int) : n = if i <= 0 then N0 else Npos (pos_of_int i)
and pos_of_int i =
  if i = 1 then XH
  else if i land 1 = 0 then XO (pos_of_int (i lsr 1))
  else XI (pos_of_int (i lsr 1))

let rec int_of_pos = function
  | XH -> 1
  | XO p -> 2 * int_of_pos p
  | XI p -> 2 * int_of_pos p + 1

let int_of_n = function N0 -> 0 | Npos p -> int_of_pos p

let explode (s : string) : char list = List.init (String.length s) (String.get s)
let implode (l : char list) : string = String.init (List.length l) (List.nth l)
let implode l =
  let b = Buffer.create 16 in
  List.iter (Buffer.add_char b) l;
  Buffer.contents b

let unhex s =
  if s = "-" then ""
  else begin
    let n = String.length s / 2 in
    String.init n (fun i -> Char.chr (int_of_string ("0x" ^ String.sub s (2 * i) 2)))
  end

let hex s =
  if s = "" then "-"
  else begin
    let b = Buffer.create (2 * String.length s) in
    String.iter (fun c -> Buffer.add_string b (Printf.sprintf "%02x" (Char.code c))) s;
    Buffer.contents b
  end

let parse_line (l : string) : line option =
  match String.split_on_char ' ' l with
  | "I" :: m :: p :: nb :: cy :: alt :: op :: _ ->
      (match mnem_of_name (explode m) with
       | None -> None
       | Some mn ->
           Some (Ins { i_mn = mn; i_op = explode (unhex op);
                       i_cycles = n_of_int (int_of_string cy);
                       i_alt = (if alt = "-" then None else Some (n_of_int (int_of_string alt)));
                       i_bytes = n_of_int (int_of_string nb);
                       i_prot = (p = "1") }))
  | "L" :: s :: _ -> Some (Lbl (explode (unhex s)))
  | "N" :: sz :: s :: _ -> Some (Inl (explode (unhex s), n_of_int (int_of_string sz)))
  | "C" :: s :: _ -> Some (Cmt (explode (unhex s)))
  | "D" :: _ -> Some Dummy
  | _ -> None

let print_line (l : line) : string =
  match l with
  | Ins i ->
      Printf.sprintf "I %s %d %d %d %s %s" (implode (mnem_name i.i_mn))
        (if i.i_prot then 1 else 0) (int_of_n i.i_bytes) (int_of_n i.i_cycles)
        (match i.i_alt with None -> "-" | Some a -> string_of_int (int_of_n a))
        (hex (implode i.i_op))
  | Lbl s -> "L " ^ hex (implode s)
  | Inl (s, n) -> Printf.sprintf "N %d %s" (int_of_n n) (hex (implode s))
  | Cmt s -> "C " ^ hex (implode s)
  | Dummy -> "D"

let run_job id op (lines : line list) =
  let out status ret c =
    Printf.printf "@res %s %s %s %d\n" id status ret (int_of_n (size_bytes c));
    List.iter (fun l -> print_endline (print_line l)) c;
    print_endline "@end"
  in
  if op = "opt" then begin
    match optimize_opt lines with
    | Some (c, n) -> out "ok" (string_of_int (int_of_n n)) c
    | None -> out "outoffuel" "-" lines
  end else if op = "cb" then begin
    match check_branches lines with
    | CbOk (c, n) -> out "ok" (string_of_int (int_of_n n)) c
    | CbPanic -> out "panic" "-" []
    | CbOutOfFuel -> out "outoffuel" "-" []
  end else if op = "optcb" then begin
    match optimize_opt lines with
    | None -> out "outoffuel" "-" lines
    | Some (c, n) ->
        (match check_branches c with
         | CbOk (c2, n2) -> out "ok" (Printf.sprintf "%d,%d" (int_of_n n) (int_of_n n2)) c2
         | CbPanic -> out "panic" "-" []
         | CbOutOfFuel -> out "outoffuel" "-" [])
  end else if String.length op > 7 && String.sub op 0 7 = "append:" then begin
    let n = int_of_string (String.sub op 7 (String.length op - 7)) in
    out "ok" "-" (append_code [] lines (n_of_int n))
  end else if String.length op > 7 && String.sub op 0 7 = "csleep:" then begin
    let n = int_of_string (String.sub op 7 (String.length op - 7)) in
    let z = if n = 0 then Z0 else if n > 0 then Zpos (pos_of_int n) else Zneg (pos_of_int (-n)) in
    match csleep_code z with
    | Some l -> out "ok" "-" (List.map (fun i -> Ins i) l)
    | None -> out "error" "-" []
  end else
    out "ok" "-" lines

let () =
  let ic = open_in Sys.argv.(1) in
  let cur = ref None in
  let acc = ref [] in
  (try
     while true do
       let l = input_line ic in
       if String.length l > 0 && l.[0] = '@' then begin
         if l = "@end" then begin
           (match !cur with
            | Some (id, op) -> run_job id op (List.rev !acc)
            | None -> ());
           cur := None;
           acc := []
         end else begin
           match String.split_on_char ' ' l with
           | "@unit" :: id :: op :: _ -> cur := Some (id, op); acc := []
           | _ -> cur := None
         end
       end else begin
         match !cur with
         | Some _ -> (match parse_line l with Some x -> acc := x :: !acc | None -> ())
         | None -> ()
       end
     done
   with End_of_file -> ());
  close_in ic
