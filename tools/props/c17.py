"""C17 — split-port cartridge RAM is read and written through the right ports.

proof   : Props/C17.v on Model/AsmSel.v (the model of asm(), compared exhaustively with the code):
          for a superchip variable every store mnemonic is given the write address and every other
          mnemonic the read address (+$80); 3E / 3E+ on-chip RAM likewise (+$400 / +$200 on stores);
          ordinary variables get no offset; on the 6502 semantics with split ports a value written
          through the write port is read back through the read port, and any read-modify-write faults
corr-M  : asm() vs Model/AsmSel.v over the whole domain (all three schemes)
corr-S  : programs in which random subsets of the variables are `superchip` are compiled and
          CO-EXECUTED on the extracted 6502 semantics with the split-port memory model switched on
          (a read of a write port, a write to a read port or a read-modify-write is a fault); there
          must be no fault, and the final state must equal that of the same program without the
          keyword (ordinary variables unaffected, same computation)
"""
import re
from lib.common import *
from lib.asmsel import run_domain
from lib.gen_c import gen_program
from lib.pipeline import *
from lib.coexec import *
from lib.features import features
from lib.shrink import shrink
from lib.csem import cprog_record, run_csem
import copy

LEVEL = 'proof'


def theorems():
    p = os.path.join(COQ, 'Props', 'C17.v')
    return re.findall(r'^Theorem (\w+)', open(p).read(), re.M) if os.path.exists(p) else []


def strip_superchip(p):
    q = copy.deepcopy(p)
    q.globals = [(t, n, init, alen, '') for (t, n, init, alen, qual) in q.globals]
    return q


def pointer_programs(rng, n):
    """pointer VARIABLES living in split-port RAM: ++/--/+= on the pointer itself (16 bits, no
    read-modify-write instruction allowed), a copy to an ordinary pointer, no dereference (the
    pointer's value is arbitrary)"""
    from lib.gen_c import Prog
    out = {}
    V = lambda x: ('var', x)
    for i in range(n):
        p = Prog()
        p.globals = [('unsigned char *', 'p', None, None, 'superchip'), ('unsigned char *', 'q', None, None, rng.choice(['', 'superchip'])),
                     ('unsigned char', 'a', None, None, rng.choice(['', 'superchip'])), ('unsigned char', 'i', None, None, '')]
        p.funcs = []
        st = []
        for _ in range(rng.randrange(1, 4)):
            k = rng.randrange(7)
            tgt = V(rng.choice(['p', 'p', 'q']))
            if k < 3:
                st.append(('expr', ('inc', rng.choice(['x++', '++x', 'x--', '--x']), tgt)))
            elif k == 3:
                st.append(('expr', ('asg', '=', V('q'), V('p'))))
            elif k == 4:
                st.append(('for', ('asg', '=', V('i'), ('num', 0)), ('bin', '!=', V('i'), ('num', rng.randrange(1, 4))), ('inc', 'x++', V('i')),
                           ('block', [('expr', ('inc', rng.choice(['x++', 'x--']), tgt))])))
            elif k == 5:
                st.append(('if', V('a'), ('block', [('expr', ('inc', rng.choice(['x++', 'x--']), tgt))]), None))
            else:
                st.append(('expr', ('asg', '=', V('p'), V('q'))))
        p.main = st
        out['ptr%d' % i] = p
    return out


def value_programs():
    """a FIXED enumeration: the VALUE of an expression with a side effect on a split-port object, in every place that
    consumes it (a return, an assignment, an argument, a condition): post-increments are carried out after the value
    has been taken, through the accumulator on such an object"""
    from lib.gen_c import Prog
    out = {}
    V = lambda x: ('var', x)
    N = lambda x: ('num', x)
    objs = [('v', V('v')), ('el2', ('idx', 'arr', N(2))), ('elx', ('idx', 'arr', V('X'))), ('ely', ('idx', 'arr', V('Y')))]
    effs = [('post++', lambda o: ('inc', 'x++', o)), ('post--', lambda o: ('inc', 'x--', o)), ('pre++', lambda o: ('inc', '++x', o)),
            ('+=2', lambda o: ('asg', '+=', o, N(2))), ('=a', lambda o: ('asg', '=', o, V('b')))]
    for on, o in objs:
        for en, e in effs:
            for q in ('superchip', ''):
                def mk(name, main, funcs=()):
                    p = Prog()
                    p.globals = [('unsigned char', 'v', None, None, q), ('unsigned char', 'arr', None, 8, q), ('unsigned char', 'a', None, None, ''),
                                 ('unsigned char', 'b', None, None, ''), ('unsigned char', 'r', None, None, 'superchip' if q else '')]
                    p.funcs = [dict(f) for f in funcs]
                    p.main = list(main)
                    out['val_%s_%s_%s_%s' % (name, on, en, 's' if q else 'o')] = p
                f = dict(name='get', ret='unsigned char', params=[], inline=False, body=[('return', e(o))])
                fi = dict(f, inline=True)
                g = dict(name='put', ret='void', params=[('unsigned char', 'x')], inline=False, body=[('expr', ('asg', '=', V('r'), V('x')))])
                mk('ret', [('expr', ('asg', '=', V('a'), ('call', 'get', [])))], funcs=[f])
                mk('retinl', [('expr', ('asg', '=', V('a'), ('call', 'get', [])))], funcs=[fi])
                mk('retadd', [('expr', ('asg', '=', V('a'), ('bin', '+', ('call', 'get', []), N(1))))], funcs=[f])
                mk('asg', [('expr', ('asg', '=', V('a'), e(o)))])
                mk('asgr', [('expr', ('asg', '=', V('r'), e(o)))])
                mk('arg', [('expr', ('call', 'put', [e(o)]))], funcs=[g])
                mk('cond', [('if', e(o), ('block', [('expr', ('asg', '=', V('a'), N(1)))]), ('block', [('expr', ('asg', '=', V('a'), N(2)))]))])
    return out


def wide_programs():
    """a FIXED enumeration: every 16-bit operation form on a split-port variable (signed and unsigned): shifts by
    1..7, += / -= constants with and without carry, ++/--, copies, comparisons feeding a store"""
    from lib.gen_c import Prog
    out = {}
    V = lambda x: ('var', x)
    N = lambda x: ('num', x)
    k = 0
    for ty in ('short', 'unsigned short'):
        stmts = []
        for n in range(1, 8):
            stmts.append(('expr', ('asg', '>>=', V('s'), N(n))))
            stmts.append(('expr', ('asg', '<<=', V('s'), N(n))))
        for c in (1, 255, 256, 300, 0x7fff):
            stmts.append(('expr', ('asg', '+=', V('s'), N(c))))
            stmts.append(('expr', ('asg', '-=', V('s'), N(c))))
        stmts += [('expr', ('inc', 'x++', V('s'))), ('expr', ('inc', 'x--', V('s'))), ('expr', ('asg', '=', V('s'), V('t'))),
                  ('expr', ('asg', '=', V('s'), ('bin', '+', V('t'), V('s')))), ('expr', ('asg', '=', V('s'), ('bin', '-', V('s'), V('t')))),
                  ('expr', ('asg', '=', V('a'), ('bin', '>>', V('s'), N(8)))), ('expr', ('asg', '=', V('s'), V('a'))),
                  ('if', ('bin', '<', V('s'), V('t')), ('block', [('expr', ('asg', '=', V('a'), N(1)))]), ('block', [('expr', ('asg', '=', V('a'), N(2)))]))]
        for st in stmts:
            for tq in ('superchip', ''):
                p = Prog()
                p.globals = [(ty, 's', None, None, 'superchip'), (ty, 't', None, None, tq), ('unsigned char', 'a', None, None, '')]
                p.funcs = []
                p.main = [st]
                out['w%d' % k] = p
                k += 1
    return out


def twin_results(progs, O, nstates, rng):
    """-> {pid: (verdict, detail, meta)}; verdict in agree | FAULT | DIFF | rejected"""
    srcs = {k: {'sc': p.source(), 'plain': strip_superchip(p).source()} for k, p in progs.items()}
    comp = compile_variants(srcs, {'sc': [O], 'plain': [O]})
    out = {}
    text = []
    meta = {}
    for pid, vs in comp.items():
        if vs['sc']['status'] != 'ok' or vs['plain']['status'] != 'ok':
            out[pid] = ('rejected', (vs['sc']['status'], vs['plain']['status'], vs['sc'].get('err')), None)
            continue
        try:
            lay_sc = make_layout(vs['sc']['vars'], [f['name'] for f in vs['sc']['funcs']])
            lay_pl = make_layout(vs['plain']['vars'], [f['name'] for f in vs['plain']['funcs']])
        except LayoutError:
            continue
        states_sc = gen_states(rng, lay_sc, nstates)
        for k, st in enumerate(states_sc):
            if k % 4 != 3:
                st['X'] = rng.randrange(8)
                st['Y'] = rng.randrange(8)
        # the same named initial values under the other layout
        inv = {a: (n, i) for n, addrs in lay_sc['cells'].items() for i, a in enumerate(addrs)}
        states_pl = []
        for st in states_sc:
            cells = {}
            for a, v in st['cells'].items():
                n, i = inv[a]
                if n in lay_pl['cells']:
                    cells[lay_pl['cells'][n][i]] = v
            states_pl.append(dict(st, cells=cells))
        t1, w1 = prog_record(pid + '@sc', funcs_of(vs['sc']), lay_sc, states_sc, fuel=60000)
        t2, w2 = prog_record(pid + '@plain', funcs_of(vs['plain']), lay_pl, states_pl, fuel=60000)
        text.append(t1 + t2)
        meta[pid] = (lay_sc, lay_pl, states_sc, w1, w2)
    runs = run_sem(''.join(text)) if text else {}
    # the C semantics decides which initial states are meaningful (no out-of-bounds index, ...)
    ctext = []
    for pid, (lay_sc, lay_pl, states, w1, w2) in meta.items():
        t, _ = cprog_record(pid, progs[pid], lay_sc, states)
        ctext.append(t)
    cr = run_csem(''.join(ctext)) if ctext else {}
    for pid, (lay_sc, lay_pl, states, w1, w2) in meta.items():
        verdict = ('agree', None)
        for k in range(len(states)):
            c = cr.get(pid, {}).get(k)
            if c is None or c['tag'] != 'ok':
                continue
            a = runs.get(pid + '@sc', {}).get(k)
            b = runs.get(pid + '@plain', {}).get(k)
            if a is None or b is None:
                raise HarnessError('missing run')
            if a['tag'] == 'fault' and b['tag'] != 'fault':
                # an INDEXED access through the right port that leaves the port region is an index out
                # of range (the ordinary twin silently reads / writes past its array): not a port matter
                ins = None
                try:
                    ins = funcs_of(comp[pid]['sc'])[a.get('fn')][a.get('pc')]
                except Exception:
                    pass
                if ins is not None and ins[0] == 'I':
                    mo = re.match(r'^\(?(\w+)(?:\+(\d+))?\)?(,X|,Y)$', ins[6].replace(' ', ''))
                    if mo:
                        off = int(mo.group(2) or 0)
                        store = ins[1] in ('STA', 'STX', 'STY')
                        if (store and off < 128) or (not store and off >= 128 and ins[1] not in ('INC', 'DEC', 'ASL', 'LSR', 'ROL', 'ROR')):
                            oob = True
                            continue
                verdict = ('FAULT', {'why': a.get('why'), 'function': a.get('fn'), 'line': a.get('pc'), 'instruction': ins,
                                     'initial': describe_state(lay_sc, states[k], w1)})
                break
            if a['tag'] == 'halt' and b['tag'] == 'halt':
                va = {n: [a['cells'][w1.index(x)] for x in addrs] for n, addrs in lay_sc['cells'].items()}
                vb = {n: [b['cells'][w2.index(x)] for x in addrs] for n, addrs in lay_pl['cells'].items()}
                if (a['X'], a['Y']) != (b['X'], b['Y']) or any(va[n] != vb.get(n) for n in va if n in vb):
                    verdict = ('DIFF', {'initial': describe_state(lay_sc, states[k], w1),
                                        'superchip': describe_run(lay_sc, a, w1), 'ordinary': describe_run(lay_pl, b, w2)})
                    break
            elif a['tag'] != b['tag']:
                verdict = ('DIFF', {'superchip': a['tag'], 'ordinary': b['tag'], 'initial': describe_state(lay_sc, states[k], w1)})
                break
        out[pid] = (verdict[0], verdict[1], srcs[pid])
    return out


def run(ctx):
    quick = ctx.tier == 'quick'
    rng = ctx.rng
    th = theorems()
    if th:
        ctx.proof_stage('Props.C17', th)
    total, mism, table, vars_ = run_domain(schemes=('4K', '3E', '3EP'))
    ctx.cov['evaluations'] = total
    ctx.cov['correspondence']['corr-M asm() domain'] = {'cells': total, 'mismatches': len(mism), 'exhaustive': True,
                                                         'split_port_variables': [v['name'] for v in vars_ if v['memory'] in ('Superchip',) or v['memory'].startswith('MemoryOnChip')]}
    # corr-M: the split-port lowering templates of Model/GenSplit.v (proved correct in Props/C17.v) vs -O0 output
    from lib.gentpl import run_gentpl
    ntpl, tpl_mism = run_gentpl()
    tpl_mism = [m for m in tpl_mism if m['id'].startswith('slisting')]
    ctx.cov['correspondence']['corr-M split-port lowering templates'] = {'templates': 25, 'mismatches': len(tpl_mism), 'exhaustive': True}
    # corr-S (structural): under the 3E and 3E+ schemes every bank holds RAM behind two ports: a store to a `bankN`
    # variable goes to its address + 1024 (3E) / + 512 (3E+), a load to its address; bank 0 included
    sch_bad = []
    nsch = 0
    for sch, dflag, woff in (('3E', '__3E__', 1024), ('3E+', '__3E_PLUS__', 512)):
        for bank in (0, 1, 2, 7):
            src_ = ('bank%d char v; bank%d char t[4]; bank%d short w; char a;\n'
                    'void main() { v = 1; a = v; t[X] = a; a = t[X]; t[1] = 3; a = t[2]; v++; w = 300; a = w >> 8; v = v + a; }\n' % (bank, bank, bank))
            for O in ('-O0', '-O1'):
                r_ = run_ccv(compile_job('sch', src_, args=[O, '-D', dflag], want=['funcs']))[0]
                if r_['status'] != 'ok':
                    continue
                nsch += 1
                for f_ in r_['funcs']:
                    for l_ in f_.get('final') or []:
                        if l_[0] != 'I' or not re.match(r'(v|t|w)\b', l_[6]):
                            continue
                        m_ = re.match(r'(v|t|w)(?:\+(\d+))?(,X|,Y)?$', l_[6])
                        off_ = int(m_.group(2) or 0) if m_ else 0
                        is_store = l_[1] in ('STA', 'STX', 'STY')
                        if l_[1] in ('INC', 'DEC', 'ASL', 'LSR', 'ROL', 'ROR'):
                            sch_bad.append({'why': 'read-modify-write instruction %s %s on split-port memory (%s)' % (l_[1], l_[6], sch), 'program': src_, 'level': O})
                        elif is_store != (off_ >= woff):
                            sch_bad.append({'why': '%s %s under %s: a %s must %suse the write port (+%d)' % (l_[1], l_[6], sch, 'store' if is_store else 'load',
                                                                                                      '' if is_store else 'not ', woff),
                                            'program': src_, 'level': O, 'defines': dflag})
    ctx.cov['correspondence']['corr-S on-chip RAM ports (3E, 3E+)'] = {'compilations': nsch, 'violations': len(sch_bad)}
    findings = [f for f in ctx.findings if f.get('status') == 'open']
    n_prog = 400 if quick else 8000
    stats = {}
    viol = []
    budget = 10 if quick else 80
    for O in (['-O1'] if quick else ['-O0', '-O1']):
        progs = {'p%d' % i: gen_program(rng, dict(superchip=True, signed=(i % 3 == 0), shorts=(i % 2 == 0), bait=(i % 4 == 0)))
                 for i in range(n_prog)}
        progs = {k: p for k, p in progs.items() if any(q for (_, _, _, _, q) in p.globals)}
        progs.update(pointer_programs(rng, 60 if quick else 1500))
        progs.update(wide_programs())
        progs.update(value_programs())
        res = twin_results(progs, O, 8 if quick else 24, rng)
        for pid, (v, d, src) in res.items():
            stats[v] = stats.get(v, 0) + 1
            if v not in ('FAULT', 'DIFF'):
                continue
            small = progs[pid]
            if budget > 0:
                budget -= 1

                def batch(cands, O=O, v=v):
                    ps = {'c%d' % i: c for i, c in enumerate(cands) if any(q for (_, _, _, _, q) in c.globals)}
                    if not ps:
                        return [False] * len(cands)
                    try:
                        r = twin_results(ps, O, 6, random.Random(7))
                    except Exception:
                        return [False] * len(cands)
                    return [('c%d' % i) in r and r['c%d' % i][0] == v for i in range(len(cands))]
                small = shrink(progs[pid], batch, max_rounds=40)
            fs = features(small)
            att = None
            for f in findings:
                need = set(f.get('features', []))
                if need and need <= fs:
                    att = f
                    break
            if att:
                ctx.known_finding(att['id'], att['text'])
                continue
            viol.append({'why': 'split-port access fault' if v == 'FAULT' else 'final state differs from the same program with ordinary variables',
                         'detail': d, 'level': O, 'minimised_program': small.source(), 'features': sorted(fs), 'original': src})
    ctx.cov['programs'] = n_prog
    ctx.cov['distinct_nontrivial'] = stats.get('agree', 0)
    ctx.cov['traces_validated_against_impl'] = stats.get('agree', 0)
    ctx.cov['correspondence']['corr-S split-port co-execution'] = stats
    ctx.sample({'program': gen_program(random.Random(ctx.seed), dict(superchip=True)).source()[:600]})
    for v in sch_bad[:2]:
        ctx.violation('ports', v)
    for v in viol[:3]:
        ctx.violation('ports', v)
    if mism and not viol:
        ctx.violation_noinput('Model/AsmSel.v no longer matches asm() on %d cells; first: %s' % (len(mism), json.dumps(mism[0])[:1500]), 'corr-M:asm_sel')
    elif tpl_mism and not viol:
        ctx.violation_noinput('Model/GenSplit.v no longer matches the generator on %d split-port templates; first: %s' % (len(tpl_mism), json.dumps(tpl_mism[0])[:1500]), 'corr-M:gen_split')
    ctx.cov['rule'] = ('generated programs whose char/short/array variables are randomly declared superchip: assignment, compound assignment, '
                       '++/--, shifts, indexing, comparison, parameter passing; co-executed with the split-port memory model on; '
                       'non-trivial = programs with no fault and the same final state as their ordinary-variable twin')
    ctx.cov['trusted_base'] = ['Coq 8.16.1 kernel', 'extraction of Model/AsmSel.v and M6502/Sem.v (split-port read_addr/write_addr)', 'hook asm_probe', 'harness ccv',
                               'layout: superchip write port $1000-$107F, read port $1080-$10FF (tools/lib/coexec.py)']
    ctx.assumptions = ['3E / 3E+ on-chip RAM is covered by the model theorem and the exhaustive asm() correspondence only (no co-execution: bank switching hardware is not modelled)']
