(** C01 — emitted 6502 code computes what the C source says: ELEMENTS of arrays of 16-bit objects
    (the forms the generator was repaired for: before, [sarr[2]++] and [pa[1] += 1] updated the
    low byte only).  An array of [n] 16-bit objects is [n] low bytes followed by [n] high bytes.
    The exact -O0 output for eleven statements over
    [short sarr[4]; unsigned char *pa[2]; unsigned char a;] (Model/GenElem.v, [elisting_NN]) is
    run on the executable 6502 semantics: for ALL byte-valued states, the [2n] cells of the array
    consecutive and outside the stack page ([arr16_wf]), [Sem.run] halts normally and element [k]
    holds the C value as a 16-bit number; every other cell and X, Y, S are unchanged.
    Statements only; proofs in Proofs/GenElemFacts.v. *)
From Coq Require Import String List Bool NArith ZArith Lia.
From CC Require Import Base.Str Asm.Lines M6502.Isa Asm.Operand M6502.Sem Model.OptSem
  Model.GenTemplates Proofs.GenTemplatesFacts Model.GenSplit Proofs.GenSplitFacts
  Proofs.GenCmp16Facts Model.GenLoops Proofs.GenLoopsFacts Model.GenElem Proofs.GenElemFacts.
Import ListNotations.
Open Scope string_scope.
Open Scope list_scope.
Open Scope Z_scope.

Theorem C01_elem_inc : forall cfg base n k lbl pb st,
  ports cfg = [] -> arr16_wf cfg base pb n -> 0 <= k < n -> lbl <> ""%string -> bytes_ok st ->
  exists st', halts_to cfg (elem_inc base n k lbl) st st' /\
    elem_val (mem st') pb n k = (elem_val (mem st) pb n k + 1) mod 65536 /\
    only_changes [pb + k; pb + n + k] st st' /\ keeps_xys st st'.
Proof. exact elem_inc_correct. Qed.
Print Assumptions C01_elem_inc.

Theorem C01_elem_dec : forall cfg base n k lbl pb st,
  ports cfg = [] -> arr16_wf cfg base pb n -> 0 <= k < n -> lbl <> ""%string -> bytes_ok st ->
  exists st', halts_to cfg (elem_dec base n k lbl) st st' /\
    elem_val (mem st') pb n k = (elem_val (mem st) pb n k - 1) mod 65536 /\
    only_changes [pb + k; pb + n + k] st st' /\ keeps_xys st st'.
Proof. exact elem_dec_correct. Qed.
Print Assumptions C01_elem_dec.

Theorem C01_elem_add_const : forall cfg base n k c pb st,
  ports cfg = [] -> arr16_wf cfg base pb n -> 0 <= k < n -> 0 <= c < 65536 -> bytes_ok st ->
  exists st', halts_to cfg (elem_add_const base n k c) st st' /\
    elem_val (mem st') pb n k = (elem_val (mem st) pb n k + c) mod 65536 /\
    only_changes [pb + k; pb + n + k] st st' /\ keeps_xys st st'.
Proof. exact elem_add_const_correct. Qed.
Print Assumptions C01_elem_add_const.

Theorem C01_elem_sub_const : forall cfg base n k c pb st,
  ports cfg = [] -> arr16_wf cfg base pb n -> 0 <= k < n -> 0 <= c < 65536 -> bytes_ok st ->
  exists st', halts_to cfg (elem_sub_const base n k c) st st' /\
    elem_val (mem st') pb n k = (elem_val (mem st) pb n k - c) mod 65536 /\
    only_changes [pb + k; pb + n + k] st st' /\ keeps_xys st st'.
Proof. exact elem_sub_const_correct. Qed.
Print Assumptions C01_elem_sub_const.

Theorem C01_elem_store_const : forall cfg base n k c pb st,
  ports cfg = [] -> arr16_wf cfg base pb n -> 0 <= k < n -> 0 <= c < 65536 ->
  exists st', halts_to cfg (elem_store_const base n k c) st st' /\
    elem_val (mem st') pb n k = c /\
    only_changes [pb + k; pb + n + k] st st' /\ keeps_xys st st'.
Proof. exact elem_store_const_correct. Qed.
Print Assumptions C01_elem_store_const.

Theorem C01_elem_hi_load : forall cfg dst base n k pb pd st,
  ports cfg = [] -> arr16_wf cfg base pb n -> 0 <= k < n ->
  var_name dst -> layout cfg dst = Some pd -> 0 <= pd < 65536 -> bytes_ok st ->
  exists st', halts_to cfg (elem_hi_load dst base n k) st st' /\
    mget (mem st') pd = elem_val (mem st) pb n k / 256 /\
    only_changes [pd] st st' /\ keeps_xys st st'.
Proof. exact elem_hi_load_correct. Qed.
Print Assumptions C01_elem_hi_load.

Theorem C01_elem_inc_x : forall cfg base n lbl pb st,
  ports cfg = [] -> arr16_wf cfg base pb n -> rX st < n -> lbl <> ""%string -> bytes_ok st ->
  exists st', halts_to cfg (elem_inc_x base n lbl) st st' /\
    elem_val (mem st') pb n (rX st) = (elem_val (mem st) pb n (rX st) + 1) mod 65536 /\
    only_changes [pb + rX st; pb + n + rX st] st st' /\ keeps_xys st st'.
Proof. exact elem_inc_x_correct. Qed.
Print Assumptions C01_elem_inc_x.

Theorem C01_elem_other : forall st st' pb n k j,
  only_changes [pb + k; pb + n + k] st st' -> 0 <= pb -> 0 <= k < n -> 0 <= j < n -> j <> k ->
  elem_val (mem st') pb n j = elem_val (mem st) pb n j.
Proof. exact elem_other. Qed.
Print Assumptions C01_elem_other.

Theorem C01_elisting_01 : forall cfg ps st,
  ports cfg = [] -> arr16_wf cfg "sarr" ps 4 -> bytes_ok st ->
  exists st', halts_to cfg (elem_inc "sarr" 4 2 ".ifend1") st st' /\
    elem_val (mem st') ps 4 2 = (elem_val (mem st) ps 4 2 + 1) mod 65536 /\
    only_changes [ps + 2; ps + 4 + 2] st st' /\ keeps_xys st st'.
Proof. exact elisting_01_correct. Qed.
Print Assumptions C01_elisting_01.

Theorem C01_elisting_02 : forall cfg ps st,
  ports cfg = [] -> arr16_wf cfg "sarr" ps 4 -> bytes_ok st ->
  exists st', halts_to cfg (elem_dec "sarr" 4 1 ".ifend1") st st' /\
    elem_val (mem st') ps 4 1 = (elem_val (mem st) ps 4 1 - 1) mod 65536 /\
    only_changes [ps + 1; ps + 4 + 1] st st' /\ keeps_xys st st'.
Proof. exact elisting_02_correct. Qed.
Print Assumptions C01_elisting_02.

Theorem C01_elisting_03 : forall cfg pq st,
  ports cfg = [] -> arr16_wf cfg "pa" pq 2 -> bytes_ok st ->
  exists st', halts_to cfg (elem_inc "pa" 2 1 ".ifend1") st st' /\
    elem_val (mem st') pq 2 1 = (elem_val (mem st) pq 2 1 + 1) mod 65536 /\
    only_changes [pq + 1; pq + 2 + 1] st st' /\ keeps_xys st st'.
Proof. exact elisting_03_correct. Qed.
Print Assumptions C01_elisting_03.

Theorem C01_elisting_04 : forall cfg pq st,
  ports cfg = [] -> arr16_wf cfg "pa" pq 2 -> bytes_ok st ->
  exists st', halts_to cfg (elem_dec "pa" 2 0 ".ifend1") st st' /\
    elem_val (mem st') pq 2 0 = (elem_val (mem st) pq 2 0 - 1) mod 65536 /\
    only_changes [pq + 0; pq + 2 + 0] st st' /\ keeps_xys st st'.
Proof. exact elisting_04_correct. Qed.
Print Assumptions C01_elisting_04.

Theorem C01_elisting_05 : forall cfg ps st,
  ports cfg = [] -> arr16_wf cfg "sarr" ps 4 -> bytes_ok st ->
  exists st', halts_to cfg (elem_add_const "sarr" 4 2 1) st st' /\
    elem_val (mem st') ps 4 2 = (elem_val (mem st) ps 4 2 + 1) mod 65536 /\
    only_changes [ps + 2; ps + 4 + 2] st st' /\ keeps_xys st st'.
Proof. exact elisting_05_correct. Qed.
Print Assumptions C01_elisting_05.

Theorem C01_elisting_06 : forall cfg ps st,
  ports cfg = [] -> arr16_wf cfg "sarr" ps 4 -> bytes_ok st ->
  exists st', halts_to cfg (elem_add_const "sarr" 4 1 300) st st' /\
    elem_val (mem st') ps 4 1 = (elem_val (mem st) ps 4 1 + 300) mod 65536 /\
    only_changes [ps + 1; ps + 4 + 1] st st' /\ keeps_xys st st'.
Proof. exact elisting_06_correct. Qed.
Print Assumptions C01_elisting_06.

Theorem C01_elisting_07 : forall cfg pq st,
  ports cfg = [] -> arr16_wf cfg "pa" pq 2 -> bytes_ok st ->
  exists st', halts_to cfg (elem_add_const "pa" 2 1 1) st st' /\
    elem_val (mem st') pq 2 1 = (elem_val (mem st) pq 2 1 + 1) mod 65536 /\
    only_changes [pq + 1; pq + 2 + 1] st st' /\ keeps_xys st st'.
Proof. exact elisting_07_correct. Qed.
Print Assumptions C01_elisting_07.

Theorem C01_elisting_08 : forall cfg pq st,
  ports cfg = [] -> arr16_wf cfg "pa" pq 2 -> bytes_ok st ->
  exists st', halts_to cfg (elem_sub_const "pa" 2 0 300) st st' /\
    elem_val (mem st') pq 2 0 = (elem_val (mem st) pq 2 0 - 300) mod 65536 /\
    only_changes [pq + 0; pq + 2 + 0] st st' /\ keeps_xys st st'.
Proof. exact elisting_08_correct. Qed.
Print Assumptions C01_elisting_08.

Theorem C01_elisting_09 : forall cfg ps st,
  ports cfg = [] -> arr16_wf cfg "sarr" ps 4 -> rX st < 4 -> bytes_ok st ->
  exists st', halts_to cfg (elem_inc_x "sarr" 4 ".ifend1") st st' /\
    elem_val (mem st') ps 4 (rX st) = (elem_val (mem st) ps 4 (rX st) + 1) mod 65536 /\
    only_changes [ps + rX st; ps + 4 + rX st] st st' /\ keeps_xys st st'.
Proof. exact elisting_09_correct. Qed.
Print Assumptions C01_elisting_09.

Theorem C01_elisting_10 : forall cfg ps st,
  ports cfg = [] -> arr16_wf cfg "sarr" ps 4 ->
  exists st', halts_to cfg (elem_store_const "sarr" 4 3 1000) st st' /\
    elem_val (mem st') ps 4 3 = 1000 /\
    only_changes [ps + 3; ps + 4 + 3] st st' /\ keeps_xys st st'.
Proof. exact elisting_10_correct. Qed.
Print Assumptions C01_elisting_10.

Theorem C01_elisting_11 : forall cfg ps pa st,
  ports cfg = [] -> arr16_wf cfg "sarr" ps 4 ->
  layout cfg "a" = Some pa -> 0 <= pa < 65536 -> bytes_ok st ->
  exists st', halts_to cfg (elem_hi_load "a" "sarr" 4 2) st st' /\
    mget (mem st') pa = elem_val (mem st) ps 4 2 / 256 /\
    only_changes [pa] st st' /\ keeps_xys st st'.
Proof. exact elisting_11_correct. Qed.
Print Assumptions C01_elisting_11.

Theorem C01_cfg_elem_wf : arr16_wf cfg_elem "sarr" 128 4 /\ arr16_wf cfg_elem "pa" 136 2.
Proof. exact cfg_elem_wf. Qed.
Print Assumptions C01_cfg_elem_wf.

Theorem C01_elem_inc_old_refuted :
  run_elem (elem_inc_old "sarr" 2) 128 4 2 (st_elem 130 134 255 0) = Some 0 /\
  run_elem (elem_inc "sarr" 4 2 ".ifend1") 128 4 2 (st_elem 130 134 255 0) = Some 256.
Proof. exact elem_inc_old_refuted. Qed.
Print Assumptions C01_elem_inc_old_refuted.

Theorem C01_elem_add_old_refuted :
  run_elem (elem_add_old "pa" 1 1) 136 2 1 (st_elem 137 139 255 0) = Some 0 /\
  run_elem (elem_add_const "pa" 2 1 1) 136 2 1 (st_elem 137 139 255 0) = Some 256.
Proof. exact elem_add_old_refuted. Qed.
Print Assumptions C01_elem_add_old_refuted.

Theorem C01_run_elem_inc_x :
  run_elem (elem_inc_x "sarr" 4 ".ifend1") 128 4 1 (st_elem 129 133 255 1) = Some 512.
Proof. exact run_elem_inc_x. Qed.
Print Assumptions C01_run_elem_inc_x.
