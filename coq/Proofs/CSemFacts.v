(** Source-level equivalences of the C-subset semantics (Src/CSem.v) used by property C15:
    commuting the operands of + * & | ^ never changes the result, [x + 1] is an increment,
    [a < b] is [b > a]. *)
From Coq Require Import String List Bool NArith ZArith Lia.
From CC Require Import Src.CSem.
Import ListNotations.
Open Scope Z_scope.

(** the width class of a binary result does not depend on the order of the operands *)
Theorem join_comm : forall a b, join a b = join b a.
Proof. destruct a, b; reflexivity. Qed.
Print Assumptions join_comm.

Theorem join_assoc : forall a b c, join a (join b c) = join (join a b) c.
Proof. destruct a, b, c; reflexivity. Qed.
Print Assumptions join_assoc.

Theorem join_idem : forall a, join a a = a.
Proof. destruct a; reflexivity. Qed.
Print Assumptions join_idem.

Theorem join_lit_r : forall a, join a WLit = a.
Proof. destruct a; reflexivity. Qed.
Print Assumptions join_lit_r.

Theorem join_lit_l : forall a, join WLit a = a.
Proof. destruct a; reflexivity. Qed.
Print Assumptions join_lit_l.

(** commuting the operands of + & | ^ * : same value, same class, same taint; no restriction on
    the classes is needed because [join] is commutative *)
Theorem arith_comm : forall op a b, In op [Add; BAnd; BOr; BXor; Mul] -> arith op a b = arith op b a.
Proof.
  intros op a b Hin. cbn [In] in Hin.
  destruct Hin as [H|[H|[H|[H|[H|H]]]]]; try contradiction; subst op; unfold arith;
    rewrite (join_comm (wc a) (wc b)), (orb_comm (taint a) (taint b)).
  - rewrite (Z.add_comm (val a) (val b)). reflexivity.
  - rewrite (Z.land_comm (val a) (val b)). reflexivity.
  - rewrite (Z.lor_comm (val a) (val b)). reflexivity.
  - rewrite (Z.lxor_comm (val a) (val b)). reflexivity.
  - rewrite (Z.mul_comm (val a) (val b)). reflexivity.
Qed.
Print Assumptions arith_comm.

(** == and != commute as well *)
Theorem arith_eq_comm : forall op a b, In op [OEq; ONe] -> arith op a b = arith op b a.
Proof.
  intros op a b Hin. cbn [In] in Hin.
  destruct Hin as [H|[H|H]]; try contradiction; subst op; unfold arith, clean, bind;
    destruct (taint a), (taint b); try reflexivity; rewrite (Z.eqb_sym (val a) (val b)); reflexivity.
Qed.
Print Assumptions arith_eq_comm.

(** the other operators do not commute *)
Example arith_sub_not_comm :
  arith Sub (mkVal 1 WLit false) (mkVal 0 WLit false) <> arith Sub (mkVal 0 WLit false) (mkVal 1 WLit false).
Proof. vm_compute. discriminate. Qed.
Print Assumptions arith_sub_not_comm.

Theorem arith_add_one_is_inc : forall a, taint a = false ->
  arith Add a (mkVal 1 WLit false) = Ok (mk (join (wc a) WLit) (val a + 1) false).
Proof.
  intros a Hclean. unfold arith. cbn [val wc taint]. rewrite Hclean. reflexivity.
Qed.
Print Assumptions arith_add_one_is_inc.

(** without the cleanliness hypothesis the taint is propagated *)
Theorem arith_add_one_gen : forall a,
  arith Add a (mkVal 1 WLit false) = Ok (mk (wc a) (val a + 1) (taint a)).
Proof.
  intros a. unfold arith. cbn [val wc taint]. rewrite join_lit_r, orb_false_r. reflexivity.
Qed.
Print Assumptions arith_add_one_gen.

Theorem rel_swap : forall a b, arith OLt a b = arith OGt b a /\ arith OLe a b = arith OGe b a.
Proof.
  intros a b. unfold arith, clean, bind. destruct (taint a), (taint b); split; reflexivity.
Qed.
Print Assumptions rel_swap.

Theorem rel_swap' : forall a b, arith OGt a b = arith OLt b a /\ arith OGe a b = arith OLe b a.
Proof.
  intros a b. unfold arith, clean, bind. destruct (taint a), (taint b); split; reflexivity.
Qed.
Print Assumptions rel_swap'.
