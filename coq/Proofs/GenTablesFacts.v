(** Facts about the comparison-lowering tables of the generator (Model/GenTables.v): the flags
    after CMP, correctness of the emitted branch sequences w.r.t. the 6502 semantics
    ([branch_taken], through [frag_flow]) for unsigned comparisons, for signed comparisons under
    the no-overflow hypothesis (and the refutation without it), the CMP-less comparison with 0,
    and the negation / operand-swap tables. *)
From Coq Require Import String List Bool NArith ZArith Lia ZifyBool.
From CC Require Import Base.Str Asm.Lines M6502.Isa Asm.Operand M6502.Sem Model.CheckBranches
  Model.CbSpec Model.GenTables.
Import ListNotations.
Open Scope Z_scope.

Ltac Zify.zify_post_hook ::= Z.div_mod_to_equations.

(** * G1: the flags after CMP *)

Lemma cmp_fC : forall s a b, fC (cmp s a b) = (b <=? a).
Proof.
  intros s a b. unfold cmp, set_nz, set_c; cbn [fC].
  destruct (Z.leb_spec 0 (a - b)), (Z.leb_spec b a); try reflexivity; lia.
Qed.
Print Assumptions cmp_fC.

Lemma cmp_fZ : forall s a b, 0 <= a < 256 -> 0 <= b < 256 -> fZ (cmp s a b) = (a =? b).
Proof.
  intros s a b Ha Hb. unfold cmp, set_nz, set_c, byte; cbn [fZ].
  destruct (Z.eqb_spec ((a - b) mod 256) 0), (Z.eqb_spec a b); try reflexivity; lia.
Qed.
Print Assumptions cmp_fZ.

Lemma cmp_fN : forall s a b, fN (cmp s a b) = bit7 (byte (a - b)).
Proof. intros s a b. reflexivity. Qed.
Print Assumptions cmp_fN.

Theorem cmp_flags_spec : forall s a b, 0 <= a < 256 -> 0 <= b < 256 ->
  fC (cmp s a b) = (b <=? a) /\ fZ (cmp s a b) = (a =? b) /\ fN (cmp s a b) = bit7 (byte (a - b)).
Proof.
  intros s a b Ha Hb. split; [apply cmp_fC | split; [apply cmp_fZ; assumption | apply cmp_fN]].
Qed.
Print Assumptions cmp_flags_spec.

(** the N flag after CMP is the sign of the signed difference when that difference fits 8 bits *)
Lemma cmp_fN_signed : forall s a b, 0 <= a < 256 -> 0 <= b < 256 ->
  -128 <= sgn a - sgn b <= 127 ->
  fN (cmp s a b) = (sgn a <? sgn b).
Proof.
  intros s a b Ha Hb Hnov. rewrite cmp_fN. revert Hnov. unfold bit7, byte, sgn.
  destruct (Z.ltb_spec a 128), (Z.ltb_spec b 128); intros Hnov;
    match goal with |- (128 <=? ?x) = (?y <? ?z) =>
      destruct (Z.leb_spec 128 x), (Z.ltb_spec y z); try reflexivity; lia end.
Qed.
Print Assumptions cmp_fN_signed.

Lemma sgn_eqb : forall a b, 0 <= a < 256 -> 0 <= b < 256 -> (sgn a =? sgn b) = (a =? b).
Proof.
  intros a b Ha Hb. unfold sgn.
  destruct (Z.ltb_spec a 128), (Z.ltb_spec b 128);
    match goal with |- (?x =? ?y) = _ =>
      destruct (Z.eqb_spec x y), (Z.eqb_spec a b); try reflexivity; lia end.
Qed.
Print Assumptions sgn_eqb.

(** * the control flow of the emitted sequences in terms of the flags, for ANY machine state *)

(** the condition under which [branch_seq o signed] jumps to [label] *)
Definition seq_cond (o : relop) (signed : bool) (st : mstate) : bool :=
  match o with
  | REq => fZ st
  | RNeq => negb (fZ st)
  | RLt => if signed then fN st else negb (fC st)
  | RGt => negb (fZ st) && (if signed then negb (fN st) else fC st)
  | RLte => (if signed then fN st else negb (fC st)) || fZ st
  | RGte => if signed then negb (fN st) else fC st
  end.

Lemma eqb_here_label : forall label here : string, label <> here -> String.eqb here label = false.
Proof. intros label here Hne. apply String.eqb_neq. congruence. Qed.

(** one-step equations for [frag_flow] / [drop_to_label]: the fragments are unfolded by rewriting
    (reducing [frag_flow] on a fragment guarded by a stuck string comparison blows up) *)
Lemma ff_nil : forall f st, frag_flow (S f) st [] = ExitFall.
Proof. reflexivity. Qed.
Lemma ff_lbl : forall f st l r, frag_flow (S f) st (Lbl l :: r) = frag_flow f st r.
Proof. reflexivity. Qed.
Lemma ff_br : forall f st m l p r, is_cond_branch m = true ->
  frag_flow (S f) st (br m l p :: r)
  = if branch_taken m st
    then match drop_to_label l r with Some r' => frag_flow f st r' | None => ExitLabel l end
    else frag_flow f st r.
Proof. intros f st m l p r Hm. cbn [frag_flow br i_mn i_op]. rewrite Hm. reflexivity. Qed.
Lemma dl_nil : forall l, drop_to_label l [] = None.
Proof. reflexivity. Qed.
Lemma dl_br : forall l m l' p r, drop_to_label l (br m l' p :: r) = drop_to_label l r.
Proof. reflexivity. Qed.
Lemma dl_lbl_eq : forall l r, drop_to_label l (Lbl l :: r) = Some r.
Proof. intros l r. cbn [drop_to_label defines]. rewrite String.eqb_refl. reflexivity. Qed.
Lemma dl_lbl_ne : forall l l' r, String.eqb l' l = false ->
  drop_to_label l (Lbl l' :: r) = drop_to_label l r.
Proof. intros l l' r Hne. cbn [drop_to_label defines]. rewrite Hne. reflexivity. Qed.

Ltac ff_step :=
  first [ rewrite ff_nil | rewrite ff_lbl | rewrite ff_br by reflexivity
        | rewrite dl_nil | rewrite dl_br | rewrite dl_lbl_eq | rewrite dl_lbl_ne by assumption ].

Lemma branch_seq_flow : forall o signed st label here, label <> here ->
  frag_flow 8 st (branch_seq o signed label here)
  = if seq_cond o signed st then ExitLabel label else ExitFall.
Proof.
  intros o signed st label here Hne.
  pose proof (eqb_here_label label here Hne) as Hhl.
  destruct o, signed; cbn [branch_seq seq_cond]; repeat ff_step; cbn [branch_taken];
    destruct (fZ st), (fN st), (fC st); reflexivity.
Qed.
Print Assumptions branch_seq_flow.

(** the condition under which [branch_seq_alt o signed] jumps to [label] *)
Definition alt_cond (o : relop) (signed : bool) (st : mstate) : bool :=
  match o with
  | REq => fZ st
  | RNeq => negb (fZ st)
  | RLt => fN st
  | RGt => if signed then negb (fZ st) && negb (fN st) else false
  | RLte => (if signed then fN st else false) || fZ st
  | RGte => negb (fN st)
  end.

Lemma branch_seq_alt_flow : forall o signed st label here, label <> here ->
  frag_flow 8 st (branch_seq_alt o signed label here)
  = if alt_cond o signed st then ExitLabel label else ExitFall.
Proof.
  intros o signed st label here Hne.
  pose proof (eqb_here_label label here Hne) as Hhl.
  destruct o, signed; cbn [branch_seq_alt alt_cond app]; repeat ff_step; cbn [branch_taken];
    destruct (fZ st), (fN st); reflexivity.
Qed.
Print Assumptions branch_seq_alt_flow.

(** decide every integer comparison in the goal, then finish by computation or arithmetic *)
Ltac split_cmps :=
  repeat match goal with
  | |- context [Z.leb ?x ?y] => destruct (Z.leb_spec x y)
  | |- context [Z.ltb ?x ?y] => destruct (Z.ltb_spec x y)
  | |- context [Z.eqb ?x ?y] => destruct (Z.eqb_spec x y)
  end;
  cbn; try reflexivity; exfalso; lia.

(** * G2: unsigned comparisons *)
Theorem branch_seq_unsigned_correct : forall o s a b label here,
  0 <= a < 256 -> 0 <= b < 256 -> label <> here ->
  frag_flow 8 (cmp s a b) (branch_seq o false label here)
  = if rel_holds o a b then ExitLabel label else ExitFall.
Proof.
  intros o s a b label here Ha Hb Hne.
  rewrite (branch_seq_flow o false (cmp s a b) label here Hne).
  assert (Hc : seq_cond o false (cmp s a b) = rel_holds o a b).
  { destruct o; cbn [seq_cond rel_holds];
      rewrite ?cmp_fC, ?(cmp_fZ s a b Ha Hb); split_cmps. }
  rewrite Hc. reflexivity.
Qed.
Print Assumptions branch_seq_unsigned_correct.

(** * G3: signed comparisons, provided the subtraction does not overflow 8 bits *)
Theorem branch_seq_signed_correct : forall o s a b label here,
  0 <= a < 256 -> 0 <= b < 256 -> label <> here ->
  -128 <= sgn a - sgn b <= 127 ->
  frag_flow 8 (cmp s a b) (branch_seq o true label here)
  = if rel_holds o (sgn a) (sgn b) then ExitLabel label else ExitFall.
Proof.
  intros o s a b label here Ha Hb Hne Hnov.
  rewrite (branch_seq_flow o true (cmp s a b) label here Hne).
  assert (Hc : seq_cond o true (cmp s a b) = rel_holds o (sgn a) (sgn b)).
  { destruct o; cbn [seq_cond rel_holds];
      rewrite ?(cmp_fN_signed s a b Ha Hb Hnov), ?(cmp_fZ s a b Ha Hb), <- ?(sgn_eqb a b Ha Hb);
      generalize (sgn a) (sgn b); intros x y; split_cmps. }
  rewrite Hc. reflexivity.
Qed.
Print Assumptions branch_seq_signed_correct.

(** * G4: the known defect: without the no-overflow hypothesis the signed sequence is wrong.
    a = 128 (i.e. -128), b = 1, "<": C says -128 < 1 holds, the emitted BMI is not taken
    (128 - 1 = 127 has bit 7 clear) and control falls through. *)
Definition st0 : mstate := mkS 0 0 0 255 false false false false mem_empty.

Example branch_seq_signed_refuted :
  0 <= 128 < 256 /\ 0 <= 1 < 256 /\ "label"%string <> "here"%string /\
  rel_holds RLt (sgn 128) (sgn 1) = true /\
  frag_flow 8 (cmp st0 128 1) (branch_seq RLt true "label" "here") = ExitFall /\
  ~ (-128 <= sgn 128 - sgn 1 <= 127).
Proof.
  repeat split; try (vm_compute; congruence); try discriminate.
  vm_compute. intros [H _]. apply H. reflexivity.
Qed.
Print Assumptions branch_seq_signed_refuted.

(** the general statement (G3 without the hypothesis) is therefore false *)
Theorem branch_seq_signed_needs_no_overflow :
  ~ (forall o s a b label here, 0 <= a < 256 -> 0 <= b < 256 -> label <> here ->
       frag_flow 8 (cmp s a b) (branch_seq o true label here)
       = if rel_holds o (sgn a) (sgn b) then ExitLabel label else ExitFall).
Proof.
  intros H.
  specialize (H RLt st0 128 1 "label"%string "here"%string).
  assert (H1 : 0 <= 128 < 256) by lia. assert (H2 : 0 <= 1 < 256) by lia.
  assert (H3 : "label"%string <> "here"%string) by discriminate.
  specialize (H H1 H2 H3). vm_compute in H. discriminate H.
Qed.
Print Assumptions branch_seq_signed_needs_no_overflow.

(** and the failure is not confined to "<": every ordering operator has an overflow witness *)
Example branch_seq_signed_refuted_all_orderings :
  frag_flow 8 (cmp st0 128 1) (branch_seq RLt true "label" "here") = ExitFall
    /\ rel_holds RLt (sgn 128) (sgn 1) = true /\
  frag_flow 8 (cmp st0 128 1) (branch_seq RLte true "label" "here") = ExitFall
    /\ rel_holds RLte (sgn 128) (sgn 1) = true /\
  frag_flow 8 (cmp st0 1 128) (branch_seq RGt true "label" "here") = ExitFall
    /\ rel_holds RGt (sgn 1) (sgn 128) = true /\
  frag_flow 8 (cmp st0 1 128) (branch_seq RGte true "label" "here") = ExitFall
    /\ rel_holds RGte (sgn 1) (sgn 128) = true.
Proof. vm_compute. repeat split; reflexivity. Qed.
Print Assumptions branch_seq_signed_refuted_all_orderings.

(** * G5: comparison with the constant 0 without CMP; the flags describe the loaded byte [v] *)

Lemma set_nz_fN : forall s v, fN (set_nz s v) = (128 <=? v).
Proof. reflexivity. Qed.
Lemma set_nz_fZ : forall s v, fZ (set_nz s v) = (v =? 0).
Proof. reflexivity. Qed.

Theorem branch_seq_alt_signed_correct : forall o s v label here, 0 <= v < 256 -> label <> here ->
  frag_flow 8 (set_nz s v) (branch_seq_alt o true label here)
  = if rel_holds o (sgn v) 0 then ExitLabel label else ExitFall.
Proof.
  intros o s v label here Hv Hne.
  rewrite (branch_seq_alt_flow o true (set_nz s v) label here Hne).
  assert (Hc : alt_cond o true (set_nz s v) = rel_holds o (sgn v) 0).
  { destruct o; cbn [alt_cond rel_holds]; rewrite ?set_nz_fN, ?set_nz_fZ; unfold sgn;
      destruct (Z.ltb_spec v 128); split_cmps. }
  rewrite Hc. reflexivity.
Qed.
Print Assumptions branch_seq_alt_signed_correct.

(** which unsigned cells of the alt table are right: ==, != and <= (v <= 0 iff v = 0) *)
Definition alt_unsigned_ok (o : relop) : bool :=
  match o with REq | RNeq | RLte => true | RLt | RGt | RGte => false end.

Theorem branch_seq_alt_unsigned_correct : forall o s v label here,
  alt_unsigned_ok o = true -> 0 <= v < 256 -> label <> here ->
  frag_flow 8 (set_nz s v) (branch_seq_alt o false label here)
  = if rel_holds o v 0 then ExitLabel label else ExitFall.
Proof.
  intros o s v label here Hok Hv Hne.
  rewrite (branch_seq_alt_flow o false (set_nz s v) label here Hne).
  assert (Hc : alt_cond o false (set_nz s v) = rel_holds o v 0).
  { destruct o; try discriminate Hok; cbn [alt_cond rel_holds];
      rewrite ?set_nz_fN, ?set_nz_fZ; split_cmps. }
  rewrite Hc. reflexivity.
Qed.
Print Assumptions branch_seq_alt_unsigned_correct.

(** the three other cells are wrong:
    - "<" : unsigned v < 0 never holds, but BMI is taken for v = 128;
    - ">" : unsigned v > 0 holds for v = 1, but the sequence [BEQ here; here:] never branches;
    - ">=": unsigned v >= 0 always holds, but BPL is not taken for v = 128. *)
Example branch_seq_alt_unsigned_lt_refuted :
  rel_holds RLt 128 0 = false /\
  frag_flow 8 (set_nz st0 128) (branch_seq_alt RLt false "label" "here") = ExitLabel "label".
Proof. vm_compute. split; reflexivity. Qed.
Print Assumptions branch_seq_alt_unsigned_lt_refuted.

Example branch_seq_alt_unsigned_gt_refuted :
  rel_holds RGt 1 0 = true /\
  frag_flow 8 (set_nz st0 1) (branch_seq_alt RGt false "label" "here") = ExitFall.
Proof. vm_compute. split; reflexivity. Qed.
Print Assumptions branch_seq_alt_unsigned_gt_refuted.

(** stronger: the unsigned ">" alt sequence never reaches [label], whatever the state *)
Theorem branch_seq_alt_unsigned_gt_never_branches : forall st label here, label <> here ->
  frag_flow 8 st (branch_seq_alt RGt false label here) = ExitFall.
Proof.
  intros st label here Hne. rewrite (branch_seq_alt_flow RGt false st label here Hne). reflexivity.
Qed.
Print Assumptions branch_seq_alt_unsigned_gt_never_branches.

Example branch_seq_alt_unsigned_gte_refuted :
  rel_holds RGte 128 0 = true /\
  frag_flow 8 (set_nz st0 128) (branch_seq_alt RGte false "label" "here") = ExitFall.
Proof. vm_compute. split; reflexivity. Qed.
Print Assumptions branch_seq_alt_unsigned_gte_refuted.

(** the cell-by-cell verdict: the unsigned alt sequence for [o] is correct for all bytes
    exactly when [alt_unsigned_ok o] *)
Theorem branch_seq_alt_unsigned_cells : forall o,
  (forall s v label here, 0 <= v < 256 -> label <> here ->
     frag_flow 8 (set_nz s v) (branch_seq_alt o false label here)
     = if rel_holds o v 0 then ExitLabel label else ExitFall)
  <-> alt_unsigned_ok o = true.
Proof.
  intros o. split.
  - intros H. destruct o; try reflexivity; exfalso.
    + specialize (H st0 128 "label"%string "here"%string).
      assert (H1 : 0 <= 128 < 256) by lia.
      assert (H3 : "label"%string <> "here"%string) by discriminate.
      specialize (H H1 H3). vm_compute in H. discriminate H.
    + specialize (H st0 1 "label"%string "here"%string).
      assert (H1 : 0 <= 1 < 256) by lia.
      assert (H3 : "label"%string <> "here"%string) by discriminate.
      specialize (H H1 H3). vm_compute in H. discriminate H.
    + specialize (H st0 128 "label"%string "here"%string).
      assert (H1 : 0 <= 128 < 256) by lia.
      assert (H3 : "label"%string <> "here"%string) by discriminate.
      specialize (H H1 H3). vm_compute in H. discriminate H.
  - intros Hok s v label here Hv Hne.
    apply branch_seq_alt_unsigned_correct; assumption.
Qed.
Print Assumptions branch_seq_alt_unsigned_cells.

(** the unsigned alt sequences for "<" and ">=" are right on the bytes below 128 only *)
Theorem branch_seq_alt_unsigned_small : forall o s v label here,
  o <> RGt -> 0 <= v < 128 -> label <> here ->
  frag_flow 8 (set_nz s v) (branch_seq_alt o false label here)
  = if rel_holds o v 0 then ExitLabel label else ExitFall.
Proof.
  intros o s v label here Ho Hv Hne.
  rewrite (branch_seq_alt_flow o false (set_nz s v) label here Hne).
  assert (Hc : alt_cond o false (set_nz s v) = rel_holds o v 0).
  { destruct o; try congruence; cbn [alt_cond rel_holds];
      rewrite ?set_nz_fN, ?set_nz_fZ; split_cmps. }
  rewrite Hc. reflexivity.
Qed.
Print Assumptions branch_seq_alt_unsigned_small.

(** * G6: the negation and operand-swap tables *)
Theorem negate_op_correct : forall o a b, rel_holds (negate_op o) a b = negb (rel_holds o a b).
Proof. intros o a b. destruct o; cbn [negate_op rel_holds]; split_cmps. Qed.
Print Assumptions negate_op_correct.

Theorem switch_op_correct : forall o a b, rel_holds (switch_op o) b a = rel_holds o a b.
Proof. intros o a b. destruct o; cbn [switch_op rel_holds]; split_cmps. Qed.
Print Assumptions switch_op_correct.

Theorem negate_op_involutive : forall o, negate_op (negate_op o) = o.
Proof. destruct o; reflexivity. Qed.
Print Assumptions negate_op_involutive.

Theorem switch_op_involutive : forall o, switch_op (switch_op o) = o.
Proof. destruct o; reflexivity. Qed.
Print Assumptions switch_op_involutive.
