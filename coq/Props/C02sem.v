(** C02 — the semantic half: the optimiser's register knowledge and each of its rewrite rules are
    sound with respect to the executable 6502 semantics (M6502/Sem.v).  Statements only; proofs in
    Proofs/OptSemFacts.v.  The extra hypotheses are the side conditions the proofs forced; each has a
    [..._refuted] example in Proofs/OptSemFacts.v showing it cannot be dropped.  A removed load
    either leaves the whole state as it was (the knowledge says which register N and Z describe),
    or rests on a look-ahead, and then the instruction(s) looked at behave the same whatever N and Z
    are ([C02_removal_dead]).

    GLOBAL statement, for straight-line code (end of this file; definitions in Model/OptSim.v,
    proofs in Proofs/OptSimFacts.v): executing [fst (optimize c)] gives the same final state as
    executing [c] -- registers, stack pointer, the four flags, memory
    ([C02_optimize_straight_sound]; on [Sem.run]: [C02_optimize_straight_run]).

    GLOBAL statement, for code with labels, conditional branches and JMP, loops included
    (definitions in Model/OptSimCF.v, proofs in Proofs/OptSimCFFacts.v): whenever the original
    halts, the optimised code halts in the same state ([C02_optimize_cf_sound]; on [Sem.run]:
    [C02_optimize_cf_run]) -- provided the known-compare rule (remove_both) does not fire
    ([rb_free]): that rule is unsound as it stands, the removed compare also sets the carry
    ([C02_cmp_rule_changes_c]).

    GLOBAL statement, for whole PROGRAMS with calls and returns (definitions in
    Model/OptSimCall.v, proofs in Proofs/OptSimCallFacts.v): every function optimised; whenever
    [Sem.run_function] of [main] halts on the original program it halts on the optimised one, in
    an equal state ([C02_optimize_program_run]; on the program semantics [phalts]:
    [C02_optimize_program_sound]); calls nest to any depth.  What is NOT proved: stack operations
    (PHA/PLA/PHP/PLP), RTI, inline assembly; the known-compare rule ([rb_free]); the converse
    direction (the optimised program halts only if the original does). *)
From Coq Require Import String Ascii List Bool NArith ZArith.
From CC Require Import Base.Str Asm.Lines M6502.Isa Asm.Operand M6502.Sem
     Model.Optimize Model.OptSem Model.OptSim Model.OptSimCF
     Model.CheckBranches Model.OptSimCall
     Proofs.OptSemFacts Proofs.OptSimFacts Proofs.OptSimCFFacts.
From CC Require Proofs.OptSimCallFacts.
From CC Require Proofs.GenTemplatesFacts Proofs.GenLoopsFacts.
Import ListNotations.

Theorem C02_transfer_sound : forall cfg k i ahead s s',
  ports cfg = [] -> bytes_ok s ->
  (i_mn i = PHA \/ i_mn i = PHP -> know_off_stack cfg k s) ->
  ind_legal i -> xfer_no_zp_y cfg k i ->
  know_sound cfg k s -> steps_to cfg i s s' ->
  snd (transfer k i ahead) = false ->
  know_sound cfg (fst (transfer k i ahead)) s'.
Proof. exact transfer_sound. Qed.

(** when [transfer] asks for the removal of the load, the knowledge it returns is sound for the
    state in which the load is not executed *)
Theorem C02_transfer_removed_sound : forall cfg k i ahead s,
  know_sound cfg k s -> snd (transfer k i ahead) = true ->
  know_sound cfg (fst (transfer k i ahead)) s.
Proof. exact transfer_removed_sound. Qed.

Theorem C02_redundant_load_sound : forall cfg k i s s',
  ports cfg = [] -> know_sound cfg k s -> steps_to cfg i s s' ->
  (i_mn i = LDA /\ k_acc k = Some (i_op i)) \/ (i_mn i = LDX /\ k_x k = Some (i_op i)) \/
  (i_mn i = LDY /\ k_y k = Some (i_op i)) ->
  eq_mod_nz s' s /\
  ((i_mn i = LDA /\ k_flags k = FA) \/ (i_mn i = LDX /\ k_flags k = FX) \/
   (i_mn i = LDY /\ k_flags k = FY) -> eq_state s' s).
Proof. exact redundant_load_sound. Qed.

Theorem C02_removal_sound : forall cfg k i ahead s s',
  ports cfg = [] -> know_sound cfg k s -> steps_to cfg i s s' ->
  snd (transfer k i ahead) = true ->
  eq_mod_nz s' s /\
  (eq_state s' s \/ (i_mn i = LDA /\ lda_lookahead ahead = true) \/
   ((i_mn i = LDX \/ i_mn i = LDY) /\ ldxy_lookahead ahead = true)).
Proof. exact removal_sound. Qed.

Theorem C02_defines_nz_dead : forall cfg m op s1 s2,
  defines_nz m = true -> eq_mod_nz s1 s2 ->
  outcome_eq (exec cfg m op s1) (exec cfg m op s2).
Proof. exact defines_nz_dead. Qed.

Theorem C02_store_keeps_eq_mod_nz : forall cfg m op s1 s2,
  is_store m -> eq_mod_nz s1 s2 ->
  outcome_eq_mod_nz (exec cfg m op s1) (exec cfg m op s2).
Proof. exact store_keeps_eq_mod_nz. Qed.

Theorem C02_store_then_defines_nz_dead : forall cfg m1 op1 m2 op2 s1 s2,
  is_store m1 -> defines_nz m2 = true -> eq_mod_nz s1 s2 ->
  outcome_eq (then_exec cfg (exec cfg m1 op1 s1) m2 op2) (then_exec cfg (exec cfg m1 op1 s2) m2 op2).
Proof. exact store_then_defines_nz_dead. Qed.

Theorem C02_ldxy_lookahead_dead : forall cfg ahead s1 s2,
  ldxy_lookahead ahead = true -> eq_mod_nz s1 s2 ->
  exists j, next_ins ahead = Some j /\ defines_nz (i_mn j) = true /\
            forall op, outcome_eq (exec cfg (i_mn j) op s1) (exec cfg (i_mn j) op s2).
Proof. exact ldxy_lookahead_dead. Qed.

Theorem C02_lda_lookahead_dead : forall cfg ahead s1 s2,
  lda_lookahead ahead = true -> eq_mod_nz s1 s2 ->
  exists j1 t, ahead = Ins j1 :: t /\
    ((i_mn j1 = CMP /\
      forall op, outcome_eq (exec cfg (i_mn j1) op s1) (exec cfg (i_mn j1) op s2)) \/
     (i_mn j1 = STA /\ exists j2, next_ins t = Some j2 /\ is_load (i_mn j2) = true /\
      forall op1 op2,
        outcome_eq (then_exec cfg (exec cfg (i_mn j1) op1 s1) (i_mn j2) op2)
                   (then_exec cfg (exec cfg (i_mn j1) op1 s2) (i_mn j2) op2))).
Proof. exact lda_lookahead_dead. Qed.

Theorem C02_removal_dead : forall cfg k i ahead s s',
  ports cfg = [] -> know_sound cfg k s -> steps_to cfg i s s' ->
  snd (transfer k i ahead) = true ->
  eq_mod_nz s' s /\
  (eq_state s' s \/
   (exists j, next_ins ahead = Some j /\ defines_nz (i_mn j) = true /\
      forall op, outcome_eq (exec cfg (i_mn j) op s') (exec cfg (i_mn j) op s)) \/
   (exists j1 j2 t, ahead = Ins j1 :: t /\ i_mn j1 = STA /\ next_ins t = Some j2 /\
      is_load (i_mn j2) = true /\
      forall op1 op2,
        outcome_eq (then_exec cfg (exec cfg (i_mn j1) op1 s') (i_mn j2) op2)
                   (then_exec cfg (exec cfg (i_mn j1) op1 s) (i_mn j2) op2))).
Proof. exact removal_dead. Qed.

(** the rule as it was before the fix (a repeated LDX removed whatever N and Z describe) is unsound *)
Theorem C02_ldx_removal_needs_flags :
  exists cfg k i s s',
    know_sound cfg k s /\ steps_to cfg i s s' /\ i_mn i = LDX /\ k_x k = Some (i_op i) /\
    ~ eq_state s' s.
Proof. exact ldx_removal_needs_flags. Qed.

Theorem C02_ldx_removal_changes_beq :
  exists cfg k i s s',
    know_sound cfg k s /\ k_flags k = FA /\ steps_to cfg i s s' /\ i_mn i = LDX /\
    k_x k = Some (i_op i) /\
    exec cfg BEQ (OLbl "l") s = XOk s 3%N (FGoto "l") /\
    exec cfg BEQ (OLbl "l") s' = XOk s' 2%N FNext /\
    snd (transfer k i [Ins (cx_ins BEQ "l")]) = false.
Proof. exact ldx_removal_changes_beq. Qed.

Theorem C02_rule_cmp_known : forall cfg k i1 i2 s op c s1,
  know_sound cfg k s -> bytes_ok s -> imm_text_injective cfg k i1 ->
  cmp_rule (k_acc k) CMP i1 i2 = true \/ cmp_rule (k_x k) CPX i1 i2 = true \/
  cmp_rule (k_y k) CPY i1 i2 = true ->
  parse_operand (i_mn i1) (i_op i1) = Some op -> exec cfg (i_mn i1) op s = XOk s1 c FNext ->
  branch_taken (i_mn i2) s1 = false /\ eq_mod_anzc s1 s.
Proof. exact rule_cmp_known. Qed.

Theorem C02_rule_ld_st : forall cfg i1 i2 s s1 s2,
  ports cfg = [] -> bytes_ok s ->
  (i_mn i1 = LDA /\ i_mn i2 = STA) \/ (i_mn i1 = LDX /\ i_mn i2 = STX) \/
  (i_mn i1 = LDY /\ i_mn i2 = STY) ->
  ind_legal i1 ->
  i_op i1 = i_op i2 -> steps_to cfg i1 s s1 -> steps_to cfg i2 s1 s2 -> eq_state s2 s1.
Proof. exact rule_ld_st. Qed.

Theorem C02_rule_sta_lda : forall cfg i1 i2 s s1 s2,
  ports cfg = [] -> i_mn i1 = STA -> i_mn i2 = LDA -> i_op i1 = i_op i2 ->
  ptr_not_hit cfg i1 s ->
  steps_to cfg i1 s s1 -> steps_to cfg i2 s1 s2 -> eq_mod_nz s2 s1.
Proof. exact rule_sta_lda. Qed.

(** as the optimiser applies them now (N/Z describe A): nothing changes at all *)
Theorem C02_rule_sta_lda_exact : forall cfg k i1 i2 s s1 s2,
  ports cfg = [] -> i_mn i1 = STA -> i_mn i2 = LDA -> i_op i1 = i_op i2 ->
  ptr_not_hit cfg i1 s ->
  know_sound cfg k s1 -> k_flags k = FA ->
  steps_to cfg i1 s s1 -> steps_to cfg i2 s1 s2 -> eq_state s2 s1.
Proof. exact rule_sta_lda_exact. Qed.

Theorem C02_rule_ora_zero_exact : forall cfg k i s s',
  bytes_ok s -> i_mn i = ORA -> i_op i = "#0"%string ->
  know_sound cfg k s -> k_flags k = FA ->
  steps_to cfg i s s' -> eq_state s' s.
Proof. exact rule_ora_zero_exact. Qed.

Theorem C02_rule_pla_pha : forall cfg i1 i2 s s1 s2,
  bytes_ok s -> i_mn i1 = PLA -> i_mn i2 = PHA ->
  steps_to cfg i1 s s1 -> steps_to cfg i2 s1 s2 -> eq_mod_anzc s2 s.
Proof. exact rule_pla_pha. Qed.

Definition C02_rule_transfer_pair := rule_transfer_pair.
Definition C02_rule_ora_zero := rule_ora_zero.
Definition C02_rule_swap_lda_carry := rule_swap_lda_carry.
Definition C02_rule_load_load := rule_load_load.

(** * The global simulation theorem on straight-line code *)

(** [exec_straight] (Model/OptSim.v) is [Sem.run] on straight-line code *)
Theorem C02_exec_straight_runs_to : forall cfg c s s',
  exec_straight cfg c s = Some s' -> GenTemplatesFacts.runs_to cfg c s s'.
Proof. exact exec_straight_runs_to. Qed.

Theorem C02_runs_to_exec_straight : forall cfg c s s',
  straight_ok cfg c = true -> GenTemplatesFacts.runs_to cfg c s s' -> exec_straight cfg c s = Some s'.
Proof. exact runs_to_exec_straight. Qed.

(** all rules: the optimised line list ends in the same state *)
Theorem C02_optimize_straight_sound : forall cfg c s s',
  ports cfg = [] -> bytes_ok s -> straight_ok cfg c = true ->
  exec_straight cfg c s = Some s' ->
  exists s'', exec_straight cfg (fst (optimize c)) s = Some s'' /\ eq_state s'' s'.
Proof. exact optimize_straight_sound. Qed.

(** the same on [Sem.run] *)
Theorem C02_optimize_straight_run : forall cfg c s s',
  ports cfg = [] -> bytes_ok s -> straight_ok cfg c = true ->
  GenTemplatesFacts.runs_to cfg c s s' ->
  exists s'', GenTemplatesFacts.runs_to cfg (fst (optimize c)) s s'' /\ eq_state s'' s'.
Proof. exact optimize_straight_run. Qed.

(** the invariant of the walk is preserved by [step] *)
Theorem C02_step_inv : forall cfg s0 sF, ports cfg = [] -> forall z,
  Inv cfg s0 sF z ->
  match step z with
  | Done c _ => exists sE, exec_straight cfg c s0 = Some sE /\ eq_state sE sF
  | Next z' => Inv cfg s0 sF z'
  end.
Proof. intros cfg s0 sF HP z. exact (step_inv cfg s0 sF HP z). Qed.

(** non-vacuity: a program on which [optimize] removes three instructions (one of them on the
    strength of the look-ahead) and swaps two *)
Theorem C02_optimize_straight_sound_example :
  ports sim_cfg = [] /\ bytes_ok sim_state /\ straight_ok sim_cfg sim_code = true /\
  exists s' s'', exec_straight sim_cfg sim_code sim_state = Some s' /\
                 exec_straight sim_cfg (fst (optimize sim_code)) sim_state = Some s'' /\
                 eq_state s'' s' /\ rA s' = 12%Z /\ rX s' = 2%Z /\ rY s' = 5%Z /\
                 mget (mem s') 128 = 12%Z.
Proof. exact optimize_straight_sound_example. Qed.

Theorem C02_sim_code_optimized :
  optimize sim_code =
  ([sim_ins CLC ""; sim_ins LDA "#3"; sim_ins ADC "w"; sim_ins STA "w"; Dummy;
    Dummy; sim_ins LDX "#2"; Cmt "y := t[x+1] + 1"; sim_ins LDY "t+1,X";
    Dummy; sim_ins INY ""], 3%N).
Proof. exact sim_code_optimized. Qed.

(** regression: the four programs on which the model, before the repairs of "STA o; LDA o",
    "ORA #0" and of the knowledge recorded with a look-ahead removal, changed the final Z flag *)
Theorem C02_sta_lda_fixed :
  nz_regression [sim_ins LDA "#0"; sim_ins LDX "#1"; sim_ins STA "w"; sim_ins LDA "w"] 0%N.
Proof. exact sta_lda_fixed. Qed.

Theorem C02_ora_zero_fixed :
  nz_regression [sim_ins LDA "#0"; sim_ins LDX "#1"; sim_ins ORA "#0"] 0%N.
Proof. exact ora_zero_fixed. Qed.

Theorem C02_lookahead_sta_fixed :
  nz_regression [sim_ins LDA "#0"; sim_ins LDX "#1"; sim_ins LDA "#0"; sim_ins STA "w";
                 sim_ins LDA "#0"] 1%N.
Proof. exact lookahead_sta_fixed. Qed.

Theorem C02_lookahead_ldy_fixed :
  nz_regression [sim_ins LDY "#5"; sim_ins LDA "#0"; sim_ins TAX ""; sim_ins LDY "#5";
                 sim_ins TXA ""; sim_ins LDY "#5"] 2%N.
Proof. exact lookahead_ldy_fixed. Qed.

(** the ",Y" clause of [straight_ok] cannot be dropped *)
Definition C02_zp_y_changes_a := zp_y_changes_a.

(** * The global simulation theorem on code with labels and branches *)

(** [halts] (Model/OptSimCF.v) is [Sem.run] *)
Theorem C02_halts_halts_to : forall cfg c sl s s',
  slines_of c = Some sl -> cf_ok cfg c = true -> halts cfg c s s' -> GenLoopsFacts.halts_to cfg c s s'.
Proof. exact halts_halts_to. Qed.

Theorem C02_halts_to_halts : forall cfg c s s',
  cf_ok cfg c = true -> GenLoopsFacts.halts_to cfg c s s' -> halts cfg c s s'.
Proof. exact halts_to_halts. Qed.

(** replacing a label-free window by one that behaves alike preserves halting and the final state *)
Theorem C02_window : forall cfg (L W W' R : code),
  nobar W = true -> nobar W' = true -> length W = length W' ->
  cf_ok cfg (L ++ W' ++ R) = true ->
  (forall s r k, bytes_ok s -> bexec cfg W s = Some r ->
     dest (L ++ W ++ R) (length L + length W) r = Some k ->
     exists r', bexec cfg W' s = Some r' /\ dest (L ++ W ++ R) (length L + length W) r' = Some k /\
                eq_state (bst r') (bst r)) ->
  cf_equiv cfg (L ++ W ++ R) (L ++ W' ++ R).
Proof. exact window. Qed.

(** labels, conditional branches, JMP, loops: the optimised code halts in the same state *)
Theorem C02_optimize_cf_sound : forall cfg c s s',
  ports cfg = [] -> bytes_ok s -> cf_ok cfg c = true -> NoDup (lbls c) -> rb_free c = true ->
  halts cfg c s s' ->
  exists s'', halts cfg (fst (optimize c)) s s'' /\ eq_state s'' s'.
Proof. exact optimize_cf_sound. Qed.

(** the same on [Sem.run] *)
Theorem C02_optimize_cf_run : forall cfg c s s',
  ports cfg = [] -> bytes_ok s -> cf_ok cfg c = true -> NoDup (lbls c) -> rb_free c = true ->
  GenLoopsFacts.halts_to cfg c s s' ->
  exists s'', GenLoopsFacts.halts_to cfg (fst (optimize c)) s s'' /\ eq_state s'' s'.
Proof. exact optimize_cf_run. Qed.

(** non-vacuity: a loop; the swap and "STA w; LDA w" fire inside it, a repeated load and a JMP to
    the next line go *)
Theorem C02_optimize_cf_sound_example :
  ports sim_cfg = [] /\ bytes_ok sim_state /\ cf_ok sim_cfg cf_code = true /\
  NoDup (lbls cf_code) /\ rb_free cf_code = true /\
  exists s' s'', halts sim_cfg cf_code sim_state s' /\
                 halts sim_cfg (fst (optimize cf_code)) sim_state s'' /\
                 eq_state s'' s' /\ rA s' = 6%Z /\ rX s' = 0%Z /\ rY s' = 1%Z /\
                 mget (mem s') 128 = 6%Z.
Proof. exact optimize_cf_sound_example. Qed.

Definition C02_cf_code_optimized := cf_code_optimized.

(** [rb_free] cannot be dropped: the known-compare rule removes a compare whose carry is read *)
Theorem C02_cmp_rule_changes_c :
  exists c s' s'',
    cf_ok sim_cfg c = true /\ NoDup (lbls c) /\ rb_free c = false /\
    halts sim_cfg c sim_state s' /\ halts sim_cfg (fst (optimize c)) sim_state s'' /\
    rA s' = 3%Z /\ rA s'' = 2%Z.
Proof. exact cmp_rule_changes_c. Qed.

(** [NoDup (lbls c)] cannot be dropped *)
Theorem C02_duplicate_label_changes_x :
  exists c s' s'',
    cf_ok sim_cfg c = true /\ rb_free c = true /\
    halts sim_cfg c sim_state s' /\ halts sim_cfg (fst (optimize c)) sim_state s'' /\
    rX s' = 0%Z /\ rX s'' = 1%Z.
Proof. exact duplicate_label_changes_x. Qed.

(** * The global simulation theorem on whole programs, with calls and returns *)

(** one body, the calls answered by any oracle that respects equality of states *)
Theorem C02_optimize_call_equiv : forall Or cfg c,
  OptSimCallFacts.oracle_ok Or -> ports cfg = [] -> cfc_ok cfg c = true -> NoDup (lbls c) -> rb_free c = true ->
  cfc_equiv Or cfg c (fst (optimize c)).
Proof. exact OptSimCallFacts.optimize_call_equiv. Qed.

(** the program semantics [phalts] is [Sem.run_function] with its stack of frames *)
Theorem C02_phalts_run_halts : forall cfg P main s s',
  all_bodies (fun c => cfc_ok cfg c = true) P -> (exists sp, sprog_of P = Some sp) ->
  phalts cfg P main s s' -> run_halts cfg P main s s'.
Proof. exact OptSimCallFacts.phalts_run_halts. Qed.

Theorem C02_run_halts_phalts : forall cfg P main s s',
  all_bodies (fun c => cfc_ok cfg c = true) P ->
  run_halts cfg P main s s' -> phalts cfg P main s s'.
Proof. exact OptSimCallFacts.run_halts_phalts. Qed.

(** every function optimised: the program halts in an equal state *)
Theorem C02_optimize_program_sound : forall cfg P main s s',
  ports cfg = [] -> bytes_ok s -> all_bodies (OptSimCallFacts.opt_ok cfg) P ->
  phalts cfg P main s s' ->
  exists s'', phalts cfg (opt_prog P) main s s'' /\ eq_state s'' s'.
Proof. exact OptSimCallFacts.optimize_program_sound. Qed.

Theorem C02_optimize_program_run : forall cfg P main s s',
  ports cfg = [] -> bytes_ok s -> all_bodies (OptSimCallFacts.opt_ok cfg) P ->
  run_halts cfg P main s s' ->
  exists s'', run_halts cfg (opt_prog P) main s s'' /\ eq_state s'' s'.
Proof. exact OptSimCallFacts.optimize_program_run. Qed.

(** non-vacuity: three functions, calls nested two deep; the reload of X after the call stays,
    the redundant load inside the callee goes; both programs executed by [Sem.run_function] *)
Definition C02_call_prog_optimized := OptSimCallFacts.call_prog_optimized.
Definition C02_call_prog_runs := OptSimCallFacts.call_prog_runs.

Theorem C02_optimize_program_example :
  ports sim_cfg = [] /\ bytes_ok sim_state /\ all_bodies (OptSimCallFacts.opt_ok sim_cfg) OptSimCallFacts.call_prog /\
  exists s' s'', run_halts sim_cfg OptSimCallFacts.call_prog "main" sim_state s' /\
                 run_halts sim_cfg (opt_prog OptSimCallFacts.call_prog) "main" sim_state s'' /\
                 eq_state s'' s' /\ rX s' = 5%Z /\ mget (mem s') 128 = 10%Z.
Proof. exact OptSimCallFacts.optimize_program_example. Qed.
