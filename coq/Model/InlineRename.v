(** Model of [AssemblyCode::append_code] (label suffixing of an inlined body) and of
    [GeneratorState::push_code] (src/generate/generate_asm.rs). *)
From Coq Require Import String Ascii List Bool NArith.
From CC Require Import Base.Str Asm.Lines.
Import ListNotations.
Open Scope string_scope.
Open Scope list_scope.

Definition inline_suffix (n : N) : string := ("inline" ++ string_of_N n)%string.

Definition renames_operand (m : mnem) : bool :=
  match m with BCC | BCS | BEQ | BMI | BNE | BPL | JMP => true | _ => false end.

Definition rename_line (n : N) (l : line) : line :=
  match l with
  | Lbl s => Lbl (s ++ inline_suffix n)%string
  | Ins i =>
      if renames_operand (i_mn i)
      then Ins (mkI (i_mn i) (i_op i ++ inline_suffix n)%string (i_cycles i) (i_alt i) (i_bytes i) (i_prot i))
      else l
  | _ => l
  end.

(** [dst.append_code(src, n)] *)
Definition append_code (dst src : code) (n : N) : code := dst ++ map (rename_line n) src.

(** [push_code]: the counter has already been incremented to [n] *)
Definition push_code (dst body : code) (n : N) : code :=
  append_code dst body n ++ [Lbl (".endofinline" ++ string_of_N n)%string].
