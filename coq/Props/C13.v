(** C13 — emitted assembly always assembles.  Statements only. *)
From Coq Require Import String Ascii List Bool NArith ZArith.
From CC Require Import Base.Str Asm.Lines M6502.Isa Asm.Operand Model.Optimize Model.OptSpec
     Model.CheckBranches Model.CbSpec Proofs.OptFacts Proofs.CbFacts.
Import ListNotations.

(** the optimiser leaves every label where it is (so uniqueness and definedness are untouched) *)
Theorem C13_optimize_keeps_labels : forall c : code, labels_of (fst (optimize c)) = labels_of c.
Proof. exact optimize_keeps_labels. Qed.

(** ... and every instruction it keeps was emitted by the generator: legality is preserved *)
Theorem C13_optimize_instrs_subset : forall (c : code) (i : instr),
  In (Ins i) (fst (optimize c)) -> In (Ins i) c.
Proof. exact optimize_instrs_subset. Qed.

(** long-branch repair: labels stay unique, none disappears, every new target is defined *)
Theorem C13_repair_labels : forall (c c' : code) (n : N),
  check_branches c = CbOk c' n ->
  (forall l, In l (all_labels c) -> is_fix_label l = false) ->
  NoDup (all_labels c) ->
  NoDup (all_labels c')
  /\ (forall l, In l (all_labels c) -> In l (all_labels c'))
  /\ (forall t, In t (branch_targets c') -> In t (branch_targets c) \/ In t (all_labels c')).
Proof. exact cb_labels. Qed.
