(** Extraction of the C-subset semantics (engine "csem"). *)
From Coq Require Import ExtrOcamlBasic ExtrOcamlString.
From CC Require Import Src.CSem.
Extraction Language OCaml.
Extraction "../build/ocaml/csem_model.ml" run_main mkP mkF mkV sset sget norm poisoned.
