(** Loop templates of the code generator at -O0: for eight C loop statements over
    [unsigned char a, b, c, i;] (and the register variables [X], [Y]) the exact instruction
    sequence the compiler emits, as a function of the variable names, of the number the compiler
    appends to the local labels of the statement ([.for1], [.forupdate1], [.forend1], ...) and,
    for the counted loop on [Y], of the constant bound.

    Unlike the statement templates of Model/GenTemplates.v these sequences contain BACKWARD
    branches.  [ltemplate_at] is the sequence as a function of the labels themselves (what the
    correctness proofs of Proofs/GenLoopsFacts.v are about: they only need the labels to be
    non-empty and distinct); [ltemplate] instantiates the labels as the compiler does.

    The [Example]s at the end pin [ltemplate] to the listing, line for line (the listing itself is
    compared with the real compiler by a separate script). *)
From Coq Require Import String Ascii List Bool NArith ZArith.
From CC Require Import Base.Str Asm.Lines Model.GenTemplates.
Import ListNotations.
Open Scope string_scope.
Open Scope list_scope.

Inductive lschema :=
| LForNe (i b a : string) (n : N)         (* for (i = 0; i != b; i++) a++; *)
| LWhileNe (i b a : string) (n : N)       (* while (i != b) { a++; i++; } *)
| LDoDec (a i : string) (n : N)           (* do { a++; i--; } while (i != 0); *)
| LForXDown (b a c : string) (n : N)      (* for (X = b; X != 0; X--) a += c; *)
| LForLtCont (i b a c : string) (n : N)   (* for (i = 0; i < b; i++) { if (a == c) continue; a++; } *)
| LWhileBrk (i b a : string) (n : N)      (* while (i) { i--; if (i == b) break; a++; } *)
| LDoX (a c : string) (n : N)             (* do { a += c; X--; } while (X); *)
| LForYUp (k : Z) (a : string) (n : N).   (* for (Y = 0; Y != k; Y++) a++; *)

(** the labels of a loop statement: the loop head, the [continue] target, the [break] target *)
Record llabels := mkLL { l_head : string; l_cont : string; l_end : string }.

(** a local label: a prefix and the statement's number *)
Definition lname (p : string) (n : N) : string := (p ++ string_of_N n)%string.

Definition for_labels (n : N) : llabels :=
  mkLL (lname ".for" n) (lname ".forupdate" n) (lname ".forend" n).
Definition while_labels (n : N) : llabels :=
  mkLL (lname ".while" n) (lname ".while" n) (lname ".whileend" n).
Definition dowhile_labels (n : N) : llabels :=
  mkLL (lname ".dowhile" n) (lname ".dowhile" n) (lname ".dowhileend" n).

(** [v += x] *)
Definition add_assign (v x : string) : code := [ins LDA v; ins CLC ""; ins ADC x; ins STA v].

(** the sequences, as functions of the labels *)
Definition for_ne_code (i b a : string) (l : llabels) : code :=
  [ins LDA (imm 0); ins STA i; ins LDA i; ins CMP b; ins BEQ (l_end l); Lbl (l_head l); ins INC a; Lbl (l_cont l); ins INC i; ins LDA i; ins CMP b; ins BNE (l_head l); Lbl (l_end l)].

Definition while_ne_code (i b a : string) (l : llabels) : code :=
  [Lbl (l_head l); ins LDA i; ins CMP b; ins BEQ (l_end l); ins INC a; ins INC i; ins JMP (l_head l); Lbl (l_end l)].

Definition do_dec_code (a i : string) (l : llabels) : code :=
  [Lbl (l_head l); ins INC a; ins DEC i; ins BNE (l_head l); Lbl (l_end l)].

Definition for_x_down_code (b a c : string) (l : llabels) : code :=
  [ins LDX b; ins BEQ (l_end l); Lbl (l_head l)] ++ add_assign a c ++
  [Lbl (l_cont l); ins DEX ""; ins BNE (l_head l); Lbl (l_end l)].

Definition for_lt_cont_code (i b a c : string) (l : llabels) : code :=
  [ins LDA (imm 0); ins STA i; ins LDA i; ins CMP b; ins BCS (l_end l); Lbl (l_head l); ins LDA a; ins CMP c; ins BEQ (l_cont l); ins INC a; Lbl (l_cont l); ins INC i; ins LDA i; ins CMP b; ins BCC (l_head l); Lbl (l_end l)].

Definition while_brk_code (i b a : string) (l : llabels) : code :=
  [Lbl (l_head l); ins LDA i; ins BEQ (l_end l); ins DEC i; ins LDA i; ins CMP b; ins BEQ (l_end l); ins INC a; ins JMP (l_head l); Lbl (l_end l)].

Definition do_x_code (a c : string) (l : llabels) : code :=
  [Lbl (l_head l)] ++ add_assign a c ++ [ins DEX ""; ins BNE (l_head l); Lbl (l_end l)].

Definition for_y_up_code (k : Z) (a : string) (l : llabels) : code :=
  [ins LDY (imm 0); ins CPY (imm k); ins BEQ (l_end l); Lbl (l_head l); ins INC a; Lbl (l_cont l); ins INY ""; ins CPY (imm k); ins BNE (l_head l); Lbl (l_end l)].

(** the labels the compiler gives the statement *)
Definition llabels_of (t : lschema) : llabels :=
  match t with
  | LForNe _ _ _ n | LForXDown _ _ _ n | LForLtCont _ _ _ _ n | LForYUp _ _ n => for_labels n
  | LWhileNe _ _ _ n | LWhileBrk _ _ _ n => while_labels n
  | LDoDec _ _ n | LDoX _ _ n => dowhile_labels n
  end.

Definition ltemplate_at (t : lschema) (l : llabels) : code :=
  match t with
  | LForNe i b a _ => for_ne_code i b a l
  | LWhileNe i b a _ => while_ne_code i b a l
  | LDoDec a i _ => do_dec_code a i l
  | LForXDown b a c _ => for_x_down_code b a c l
  | LForLtCont i b a c _ => for_lt_cont_code i b a c l
  | LWhileBrk i b a _ => while_brk_code i b a l
  | LDoX a c _ => do_x_code a c l
  | LForYUp k a _ => for_y_up_code k a l
  end.

Definition ltemplate (t : lschema) : code := ltemplate_at t (llabels_of t).

(** * The 8 listings *)
(** for (i = 0; i != b; i++) a++; *)
Example llisting_01 : map show (ltemplate (LForNe "i" "b" "a" 1)) =
  ["LDA #0"; "STA i"; "LDA i"; "CMP b"; "BEQ .forend1"; ".for1:"; "INC a"; ".forupdate1:"; "INC i"; "LDA i"; "CMP b"; "BNE .for1"; ".forend1:"].
Proof. vm_compute. reflexivity. Qed.

(** while (i != b) { a++; i++; } *)
Example llisting_02 : map show (ltemplate (LWhileNe "i" "b" "a" 1)) =
  [".while1:"; "LDA i"; "CMP b"; "BEQ .whileend1"; "INC a"; "INC i"; "JMP .while1"; ".whileend1:"].
Proof. vm_compute. reflexivity. Qed.

(** do { a++; i--; } while (i != 0); *)
Example llisting_03 : map show (ltemplate (LDoDec "a" "i" 1)) =
  [".dowhile1:"; "INC a"; "DEC i"; "BNE .dowhile1"; ".dowhileend1:"].
Proof. vm_compute. reflexivity. Qed.

(** for (X = b; X != 0; X--) a += c; *)
Example llisting_04 : map show (ltemplate (LForXDown "b" "a" "c" 1)) =
  ["LDX b"; "BEQ .forend1"; ".for1:"; "LDA a"; "CLC "; "ADC c"; "STA a"; ".forupdate1:"; "DEX "; "BNE .for1"; ".forend1:"].
Proof. vm_compute. reflexivity. Qed.

(** for (i = 0; i < b; i++) { if (a == c) continue; a++; } *)
Example llisting_05 : map show (ltemplate (LForLtCont "i" "b" "a" "c" 1)) =
  ["LDA #0"; "STA i"; "LDA i"; "CMP b"; "BCS .forend1"; ".for1:"; "LDA a"; "CMP c"; "BEQ .forupdate1"; "INC a"; ".forupdate1:"; "INC i"; "LDA i"; "CMP b"; "BCC .for1"; ".forend1:"].
Proof. vm_compute. reflexivity. Qed.

(** while (i) { i--; if (i == b) break; a++; } *)
Example llisting_06 : map show (ltemplate (LWhileBrk "i" "b" "a" 1)) =
  [".while1:"; "LDA i"; "BEQ .whileend1"; "DEC i"; "LDA i"; "CMP b"; "BEQ .whileend1"; "INC a"; "JMP .while1"; ".whileend1:"].
Proof. vm_compute. reflexivity. Qed.

(** do { a += c; X--; } while (X); *)
Example llisting_07 : map show (ltemplate (LDoX "a" "c" 1)) =
  [".dowhile1:"; "LDA a"; "CLC "; "ADC c"; "STA a"; "DEX "; "BNE .dowhile1"; ".dowhileend1:"].
Proof. vm_compute. reflexivity. Qed.

(** for (Y = 0; Y != 4; Y++) a++; *)
Example llisting_08 : map show (ltemplate (LForYUp 4 "a" 1)) =
  ["LDY #0"; "CPY #4"; "BEQ .forend1"; ".for1:"; "INC a"; ".forupdate1:"; "INY "; "CPY #4"; "BNE .for1"; ".forend1:"].
Proof. vm_compute. reflexivity. Qed.
