"""C14 — inlining is transparent.

proof   : Props/C14.v: the label suffixing of append_code is injective (labels stay unique for any
          number of expansions and nested expansions) and closed (every branch of the inlined body,
          including the return jump, lands inside the inlined block); the optimiser never moves the
          block's labels.  The behavioural simulation (spliced body vs JSR/RTS) is NOT proved: partial
corr-M  : AssemblyCode::append_code vs Model/InlineRename.v on arbitrary bodies and counters
corr-S  : every program is compiled with and without the inline keyword (all eligible functions,
          and random subsets), all levels; both are co-executed from the same states on the
          extracted 6502 semantics: final variables, X, Y must agree
"""
import re
from lib.common import *
from lib.asmcorr import *
from lib.gen_c import gen_program, nested_inline_program
from lib.pipeline import *
from lib.coexec import observable

LEVEL = 'proof'


def theorems():
    return re.findall(r'^Theorem (\w+)', open(os.path.join(COQ, 'Props', 'C14.v')).read(), re.M)


FIXED = {
    'early_return': ('inline char f(char x) { if (x == 3) return 7; if (x > 100) return x - 100; return x + 1; } char a, b; '
                     'void main() { a = f(b); b = f(a) + f(3); }'),
    'loop_body': ('char s; inline void g(char n) { for (X = 0; X != n; X++) s += X; } char a; void main() { g(3); g(a & 3); }'),
    'nested': ('char a, b; inline char h(char x) { return x ^ 85; } inline char k(char y) { return h(y) + h(a); } '
               'void main() { b = k(b) | k(1); }'),
}


def compare_twins(srcs, levels, nstates, rng):
    """srcs: {pid: {'inl','sub','out'}} -> (violations, nexec, nprog, ninl)"""
    viol = []
    nexec = 0
    nprog = 0
    ninl = 0
    for O in levels:
        comp = compile_variants(srcs, {'inl': [O], 'sub': [O], 'out': [O]}, want=('vars', 'funcs', 'tree'))
        ok = {}
        for pid, vs in comp.items():
            sts = {vn: r['status'] for vn, r in vs.items()}
            if all(s == 'ok' for s in sts.values()):
                ok[pid] = vs
                ninl += sum(1 for f in vs['inl']['funcs'] for l in (f.get('final') or []) if l[0] == 'L' and l[1].startswith('.endofinline'))
            elif 'ok' in sts.values() and vs['out']['status'] == 'ok':
                e = {vn: (r['status'], (r.get('err') or {}).get('msg')) for vn, r in vs.items()}
                # declaring a function inline may legitimately be refused (e.g. defined after use)
                pass
        nprog += len(ok)
        # transparent also for the assembler: a conditional branch of an expansion out of reach (with the sizes an
        # assembler gives the instructions) while the out-of-line spelling is fine
        probs, _ = real_size_range_problems(ok)
        bad = {}
        for pr in probs:
            pid_, vn_ = pr['id'].rsplit('@', 1)
            bad.setdefault(pid_, {})[vn_] = pr
        for pid_, b_ in bad.items():
            if 'out' not in b_:
                vn_ = sorted(b_)[0]
                viol.append({'pid': pid_, 'why': 'only the inlined form has a conditional branch out of range: ' + b_[vn_]['why'], 'level': O, 'variant': vn_,
                             'with_inline': srcs[pid_][vn_], 'without_inline': srcs[pid_]['out']})
        # ... and for the linker: a JSR of an emitted function to a function that is not among the functions in use
        for pid_, vs_ in ok.items():
            def dangling(r_):
                if 'inuse' not in r_:
                    return []
                iu = set(r_['inuse'])
                return sorted(set(l[6] for f in r_['funcs'] if f['name'] in iu and not f.get('inline') for l in (f.get('final') or [])
                                  if l[0] == 'I' and l[1] == 'JSR' and l[6] not in iu and not (l[6].startswith('Call') and l[6][4:] in iu)))
            d_out = dangling(vs_['out'])
            for vn_ in ('inl', 'sub'):
                d_ = dangling(vs_[vn_])
                if d_ and not d_out:
                    viol.append({'pid': pid_, 'why': 'only the inlined form calls functions that are not emitted: %s' % d_, 'level': O, 'variant': vn_,
                                 'with_inline': srcs[pid_][vn_], 'without_inline': srcs[pid_]['out']})
                    break
        ce = coexec(ok, nstates, rng, layout_from='out', with_trace=True)
        for pid, m in ce.items():
            base = m['runs']['out']
            for vn in ('inl', 'sub'):
                for k in range(len(m['states'])):
                    a, b = base.get(k), m['runs'][vn].get(k)
                    if a is None or b is None:
                        raise HarnessError('missing co-execution result')
                    nexec += 1
                    # inline assembly lines and protected (hardware / timing) instructions executed, in order;
                    # branch events are left out: the expansion clears the protection of renamed branches
                    ev = lambda r: [e for e in (r.get('trace') or []) if not re.match(r'I(BCC|BCS|BEQ|BMI|BNE|BPL|JMP)', e)]
                    if observable(a) != observable(b) or (a['tag'] == 'halt' and ev(a) != ev(b)):
                        viol.append({'pid': pid, 'why': 'final state differs with and without the inline keyword' if observable(a) != observable(b) else
                                            'the sequence of inline-assembly lines / protected instructions executed differs with and without the inline keyword: %s vs %s' % (ev(a), ev(b)),
                                     'level': O, 'variant': vn,
                                     'with_inline': srcs[pid][vn], 'without_inline': srcs[pid]['out'],
                                     'initial': describe_state(m['layout'], m['states'][k], m['watch']),
                                     'out_of_line': describe_run(m['layout'], a, m['watch']),
                                     'inlined': describe_run(m['layout'], b, m['watch'])})
                        break
                else:
                    continue
                break
    return viol, nexec, nprog, ninl


def run(ctx):
    quick = ctx.tier == 'quick'
    rng = ctx.rng
    ctx.proof_stage('Props.C14', theorems())
    cases = [('a%d' % i, 'append:%d' % rng.choice([0, 1, 2, 9, 10, 11, 99, 100, 4294967295]), gen_opt_list(rng, maxlen=30))
             for i in range(1500 if quick else 40000)]
    n, amism, impl, model = compare_units(cases)
    ctx.cov['evaluations'] += n
    ctx.cov['correspondence']['corr-M append_code'] = {'cases': n, 'mismatches': len(amism)}
    levels = ['-O0', '-O1'] if quick else ['-O0', '-O1', '-O2', '-O3']
    n_prog = 400 if quick else 8000
    srcs = {}
    progobj = {}
    for i in range(n_prog):
        p = gen_program(rng, dict(inline=True, calls=True, bait=(i % 4 == 0), signed=(i % 2 == 0)))
        if not any(f.get('inline') for f in p.funcs):
            for f in p.funcs:
                f['inline'] = True
        if not p.funcs:
            continue
        with_src = p.source()
        subset = p.source()
        # every subset: also a variant where only some functions keep the keyword
        names = [f['name'] for f in p.funcs if f.get('inline')]
        keep = set(n_ for n_ in names if rng.random() < 0.5)
        for f in p.funcs:
            f['_was'] = f.get('inline')
            f['inline'] = f['name'] in keep
        subset = p.source()
        for f in p.funcs:
            f['inline'] = False
        without = p.source()
        srcs['p%d' % i] = {'inl': with_src, 'sub': subset, 'out': without}
        for f in p.funcs:
            f['inline'] = f.pop('_was')
        progobj['p%d' % i] = p
    for k, s in FIXED.items():
        srcs[k] = {'inl': s, 'sub': s, 'out': s.replace('inline ', '')}
    # early returns in front of a tail made of asm() statements only
    for i in range(40 if quick else 800):
        tail = ' '.join('asm("nop ; e%d_%d");' % (i, j) for j in range(rng.randrange(1, 3)))
        body = rng.choice(['if (a) return;', 'if (a == 1) return; if (b) return;', 'while (a) { a--; if (b) return; }'])
        pre = rng.choice(['', 'b++;', 'asm("nop ; p%d");' % i])
        s_ = 'unsigned char a, b;\ninline void f() { %s %s %s }\nvoid main() { f(); %s }\n' % (pre, body, tail, rng.choice(['', 'f();', 'b = 1;']))
        srcs['e%d' % i] = {'inl': s_, 'sub': s_, 'out': s_.replace('inline ', '')}
    # functions whose LAST instruction is not a load of their result (post-increment, a call, a
    # store), wrapped 0..2 times, used as a truth value: the caller must test the accumulator itself
    for i in range(80 if quick else 2000):
        ret = rng.choice(['return v++;', 'return v--;', 'return w = v;', 'v++; return w;', 'return v + 1;', 'return t[X];', 'return v & 3;',
                          'if (v) return w++; return v;', 'return v++ + 1;'])
        kw = lambda: rng.choice(['inline ', 'inline ', ''])
        L = ['unsigned char v, r, w; unsigned char t[4];', '%sunsigned char next() { %s }' % (kw(), ret)]
        top = 'next'
        for d in range(rng.choice([0, 1, 1, 2])):
            L.append('%sunsigned char wrap%d() { return %s(); }' % (kw(), d, top))
            top = 'wrap%d' % d
        use = rng.choice(['if (%s()) r = 1;', 'if (!%s()) r = 1;', 'if (%s() == 0) r = 1; else r = 2;', 'if (%s() != 0) r = 1;',
                          'r = %s() ? 2 : 3;', 'do { r++; } while (%s() && r != 5);', 'if (%s() && w) r = 1;', 'if (w || %s()) r = 1;',
                          'if (%s() > 0) r = 1;', 'for (r = 0; %s() != 0 && r != 4; r++) w++;'])
        s_ = '\n'.join(L) + '\nvoid main() { %s }\n' % (use % top)
        if 'inline ' not in s_:
            s_ = s_.replace('unsigned char next()', 'inline unsigned char next()')
        srcs['r%d' % i] = {'inl': s_, 'sub': s_, 'out': s_.replace('inline ', '')}
    # the fixed enumeration of call-result shapes (tools/lib/gen_c.py, family D), with and without inlining
    from lib.gen_c import directed_programs
    for k, p_ in directed_programs().items():
        if k.startswith('D_'):
            s_in = p_.source()
            if 'inline ' not in s_in:
                s_in = s_in.replace('unsigned char cnt()', 'inline unsigned char cnt()').replace('unsigned char wrap()', 'inline unsigned char wrap()')
            srcs['d' + k] = {'inl': s_in, 'sub': s_in, 'out': s_in.replace('inline ', '')}
    # long inline bodies with an early return (tools/lib/gen_c.py long_programs)
    from lib.gen_c import long_programs
    for k, p_ in long_programs().items():
        if k.startswith('L_inlret') and k.endswith('_1'):
            s_in = p_.source()
            srcs['l' + k] = {'inl': s_in, 'sub': s_in, 'out': s_in.replace('inline ', '')}
    # functions reached only through inline functions, inlined in several callers (dead ones first)
    for k_, s_in in (('dead_first', 'char s; void h() { s++; } inline void f() { h(); X = 1; } void helper() { f(); } void main() { f(); }'),
                     ('two_callers', 'char s; void h() { s++; } inline void f() { h(); } void g() { f(); } void main() { g(); f(); }'),
                     ('nested', 'char s; void h() { s++; } inline void f() { h(); } inline void o() { f(); s--; } void d1() { o(); } void main() { o(); o(); }'),
                     ('only_inline', 'unsigned char x; void tick() { x++; } inline void step() { tick(); } void main() { step(); }')):
        srcs['link_' + k_] = {'inl': s_in, 'sub': s_in, 'out': s_in.replace('inline ', '')}
    # nested inlining, each level expanded several times
    for i in range(60 if quick else 1500):
        s = nested_inline_program(rng)
        srcs['n%d' % i] = {'inl': s, 'sub': s, 'out': s.replace('inline ', '')}
    viol, nexec, nprog, ninl = compare_twins(srcs, levels, 12 if quick else 32, rng)
    # a difference may be a known C01-class defect taking a different shape in the two variants:
    # minimise (generated programs only), attribute by feature
    from lib.shrink import shrink
    from lib.features import features
    import copy
    open_f = [f for f in ctx.findings if f.get('status') == 'open' and f.get('features')]
    kept = []
    budget = 6 if quick else 40
    for v in viol:
        p0 = progobj.get(v.get('pid'))
        if p0 is None or budget <= 0:
            kept.append(v)
            continue
        budget -= 1
        lv = v['level']

        def twin(c):
            q = copy.deepcopy(c)
            for f in q.funcs:
                f['inline'] = False
            return {'inl': c.source(), 'sub': c.source(), 'out': q.source()}

        def batch(cands, lv=lv):
            ss = {'c%d' % i: twin(c) for i, c in enumerate(cands) if any(f.get('inline') for f in c.funcs)}
            if not ss:
                return [False] * len(cands)
            try:
                vv, _, _, _ = compare_twins(ss, [lv], 10, random.Random(9))
            except Exception:
                return [False] * len(cands)
            bad = set(x['pid'] for x in vv)
            return [('c%d' % i) in bad for i in range(len(cands))]
        small = p0
        if batch([small])[0]:
            small = shrink(small, batch, max_rounds=40)
        fs = features(small)
        att = [f for f in open_f if set(f['features']) <= fs]
        if att:
            ctx.known_finding(att[0]['id'], att[0]['text'])
            continue
        v['minimised_program'] = small.source()
        v['features'] = sorted(fs)
        kept.append(v)
    viol = kept
    ctx.cov['programs'] = len(srcs)
    ctx.cov['distinct_nontrivial'] = ninl
    ctx.cov['traces_validated_against_impl'] = nexec
    ctx.cov['correspondence']['corr-S inline vs out-of-line'] = {'program_level_pairs': nprog, 'executions_compared': nexec,
                                                                  'inline_expansions_seen': ninl, 'different': len(viol)}
    ctx.sample({'with_inline': list(srcs.values())[0]['inl'][:600]})
    for v in viol[:3]:
        ctx.violation('inline', v)
    if amism and not viol:
        ctx.violation_noinput('Model/InlineRename.v no longer matches AssemblyCode::append_code on %d inputs; first: %s'
                              % (len(amism), json.dumps(amism[0])[:1500]), 'corr-M:append_code')
    ctx.cov['rule'] = ('seeded programs whose helper functions are all / partly / not marked inline, several call sites, calls from '
                       'other inline functions, early returns, loops in bodies, results used inside larger expressions; '
                       'non-trivial = number of inline expansions in the compared code')
    ctx.cov['trusted_base'] = ['Coq 8.16.1 kernel', 'extraction of Model/InlineRename.v and M6502/Sem.v', 'harness ccv',
                               'builder convention: an out-of-line function is followed by RTS (src/tests/build.rs)']
    ctx.assumptions = ['the simulation theorem (inlined body vs JSR) is not proved; behaviour is compared by co-execution only: partial']
