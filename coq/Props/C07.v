(** C07 — conditional compilation keeps exactly the active text.  Statements only.
    (The general theorem over all well-nested trees is in Proofs/CondFacts.v when present; the
    statements below are the pinned facts about the evaluator.) *)
From Coq Require Import String Ascii List Bool NArith.
From CC Require Import Base.Str Model.Cpp.
Import ListNotations.
Open Scope string_scope.

(** numbers in #if are C integer constants: any non-zero value holds, == compares the values *)
Theorem C07_evaluate_numbers : evaluate "2" = EvOk true "" /\ evaluate "2 == 3" = EvOk false "".
Proof. split; vm_compute; reflexivity. Qed.

(** ! gives 0 or 1; hexadecimal and octal constants are read as such; malformed ones are rejected *)
Theorem C07_evaluate_number_forms :
  evaluate "!2" = EvOk false "" /\ evaluate "!!2 == 1" = EvOk true ""
  /\ evaluate "0x10 == 16" = EvOk true "" /\ evaluate "010 == 8" = EvOk true ""
  /\ evaluate "08" = EvErr "Invalid number".
Proof. vm_compute. repeat split; reflexivity. Qed.

(** a concrete nested arrangement: only the selected branches survive, inert directives ignored *)
Theorem C07_example_nested :
  match run_cpp [] "m.c" [] (map (fun l => l ++ nl)
        ["#if 1"; "a;"; "#if 0"; "#error no"; "#define a broken"; "#elif 1"; "b;"; "#else"; "c;"; "#endif";
         "#else"; "d;"; "#include <nofile.h>"; "#endif"; "e;"]) with
  | POk p => p_out p = "a;" ++ nl ++ "b;" ++ nl ++ "e;" ++ nl /\ p_stack p = [] /\ c_macros (p_ctx p) = []
  | PErr _ => False
  end.
Proof. vm_compute. repeat split; reflexivity. Qed.

From CC Require Import Model.CondSpec Proofs.CondFacts.

(** THE PROPERTY, for every well-nested tree (any depth and width, #if / #ifdef / #ifndef heads,
    any number of #elif, optional #else; conditions valued by the model's own evaluator; ordinary
    lines anywhere, #define/#undef/#include/#error lines in unselected regions): the text that
    reaches the compiler is exactly the text of the selected branches, the macro table is
    untouched, the machine is back in its initial state, one table entry per surviving line *)
Theorem C07_cond_machine_correct : forall (fname : string) (t : list item),
  tree_ok t ->
  exists p, run_cpp [] fname [] (flatten t) = POk p
            /\ p_out p = String.concat "" (spec_active t)
            /\ c_macros (p_ctx p) = []
            /\ p_state p = Active /\ p_stack p = []
            /\ List.length (p_map p) = List.length (spec_active t).
Proof. exact cond_machine_correct. Qed.

(** directives and ordinary lines in an unselected region change nothing (any include table, any
    macros that do not rewrite the line itself) *)
Theorem C07_inactive_is_inert : forall rec fs fname inc asm p line l,
  plain_ok l = true \/ inert_ok l = true ->
  sc_in_comment (c_scan (p_ctx p)) = false ->
  replace_all_c (c_macros (p_ctx p)) l = l ->
  p_state p <> Active ->
  line_step rec fs fname inc asm p line l = POk p.
Proof. exact inactive_is_inert. Qed.

(** #define and #undef are inert in unselected regions whatever macros exist *)
Theorem C07_inactive_define_undef_inert : forall rec fs fname inc asm p line l,
  one_line l = true -> text_ok l = true ->
  is_directive "#define" (trim l) || is_directive "#undef" (trim l) = true ->
  sc_in_comment (c_scan (p_ctx p)) = false ->
  p_state p <> Active ->
  line_step rec fs fname inc asm p line l = POk p.
Proof. exact inactive_define_undef_inert. Qed.

(** * the text and the directives of a group that is not selected raise no errors
    (the repaired defect: an apostrophe-and-quote text line and a #pragma inside an "#if 0" group
    stopped the compilation) *)
From CC Require Import Model.ScanSpec Proofs.SkipFacts.

(** In a state that is not Active, a line whose scanner output ([scan_parts]: the parts the
    scanner hands over whether the scan ended normally or at a string literal that never
    closes) is not a directive line -- its trimmed text does not start with "#", before and
    after macro substitution -- is processed without error and changes nothing but the scanner
    state.  Whatever the line contains (unterminated string literals included) and whatever the
    scanner state is (no hypothesis about an unfinished block comment is needed). *)
Theorem C07_skipped_text_never_errors : forall rec fs fname inc asm p line buf out ins sc,
  p_state p <> Active ->
  scan_parts (scan_line asm buf (c_scan (p_ctx p))) = (out, ins, sc) ->
  starts_with "#" (trim out) = false ->
  starts_with "#" (trim (replace_all_c (c_macros (p_ctx p)) out)) = false ->
  line_step rec fs fname inc asm p line buf = POk (set_scan p sc).
Proof. exact skipped_text_never_errors. Qed.

(** spelt out: same output text, line table, macros, conditional state and stack *)
Theorem C07_skipped_text_keeps_everything : forall rec fs fname inc asm p line buf out ins sc,
  p_state p <> Active ->
  scan_parts (scan_line asm buf (c_scan (p_ctx p))) = (out, ins, sc) ->
  starts_with "#" (trim out) = false ->
  starts_with "#" (trim (replace_all_c (c_macros (p_ctx p)) out)) = false ->
  exists p', line_step rec fs fname inc asm p line buf = POk p'
             /\ p_out p' = p_out p /\ p_map p' = p_map p
             /\ c_macros (p_ctx p') = c_macros (p_ctx p)
             /\ p_state p' = p_state p /\ p_stack p' = p_stack p
             /\ c_scan (p_ctx p') = sc.
Proof. exact skipped_text_keeps_everything. Qed.

(** an unterminated string literal in SELECTED text is still an error *)
Theorem C07_unterminated_string_selected_is_error : forall rec fs fname inc asm p line buf out ins sc,
  p_state p = Active ->
  scan_line asm buf (c_scan (p_ctx p)) = ScanUnterminated out ins sc ->
  line_step rec fs fname inc asm p line buf = PErr (mkErr ESyntax fname line inc "Unterminated string").
Proof. exact unterminated_string_selected_is_error. Qed.

(** a directive the machine does not know (#pragma ...) is ignored in a state that is not Active
    ([hash_blanks out]: the scanned text without the blanks between a leading '#' and the
    directive name; [directive_name_arg]: '#' and the letters that follow it, then the argument) *)
Theorem C07_skipped_unknown_directive_ignored : forall rec fs fname inc asm p line buf out ins sc,
  p_state p <> Active ->
  scan_parts (scan_line asm buf (c_scan (p_ctx p))) = (out, ins, sc) ->
  early_directive (trim (hash_blanks out)) = false ->
  known_directive (fst (directive_name_arg (trim (replace_all_c (c_macros (p_ctx p)) (hash_blanks out))))) = false ->
  line_step rec fs fname inc asm p line buf = POk (set_scan p sc).
Proof. exact skipped_unknown_directive_ignored. Qed.

(** ... and still an error in selected text *)
Theorem C07_unknown_directive_selected_is_error : forall rec fs fname inc asm p line buf out sc,
  p_state p = Active ->
  scan_line asm buf (c_scan (p_ctx p)) = ScanOk out true sc ->
  early_directive (trim (hash_blanks out)) = false ->
  starts_with "#" (trim (replace_all_c (c_macros (p_ctx p)) (hash_blanks out))) = true ->
  known_directive (fst (directive_name_arg (trim (replace_all_c (c_macros (p_ctx p)) (hash_blanks out))))) = false ->
  line_step rec fs fname inc asm p line buf
  = PErr (mkErr ESyntax fname line inc "Unrecognised preprocessor directive").
Proof. exact unknown_directive_selected_is_error. Qed.

(** #if in a state that is not Active: pushed, Skip -- with or without an expression
    ([arg = None]), which is not looked at *)
Theorem C07_skipped_if_pushes_skip : forall rec fs fname inc asm p line buf out sc arg,
  p_state p <> Active ->
  scan_parts (scan_line asm buf (c_scan (p_ctx p))) = (out, true, sc) ->
  early_directive (trim (hash_blanks out)) = false ->
  directive_name_arg (trim (replace_all_c (c_macros (p_ctx p)) (hash_blanks out))) = ("#if", arg) ->
  line_step rec fs fname inc asm p line buf
  = POk (set_state (set_scan p sc) Skip (p_state p :: p_stack p)).
Proof. exact skipped_if_pushes_skip. Qed.

Theorem C07_if_without_expression_selected_is_error : forall rec fs fname inc asm p line buf out sc,
  p_state p = Active ->
  scan_line asm buf (c_scan (p_ctx p)) = ScanOk out true sc ->
  early_directive (trim (hash_blanks out)) = false ->
  directive_name_arg (trim (replace_all_c (c_macros (p_ctx p)) (hash_blanks out))) = ("#if", None) ->
  line_step rec fs fname inc asm p line buf
  = PErr (mkErr ESyntax fname line inc "Expected expression after `#if`").
Proof. exact if_without_expression_selected_is_error. Qed.

(** #elif in a state that is not Inactive: Skip, same stack -- with or without an expression *)
Theorem C07_elif_not_inactive_skips : forall rec fs fname inc asm p line buf out sc arg,
  p_state p <> Inactive ->
  scan_gives (p_state p) (scan_line asm buf (c_scan (p_ctx p))) out true sc ->
  early_directive (trim (hash_blanks out)) = false ->
  directive_name_arg (trim (replace_all_c (c_macros (p_ctx p)) (hash_blanks out))) = ("#elif", arg) ->
  line_step rec fs fname inc asm p line buf = POk (set_state (set_scan p sc) Skip (p_stack p)).
Proof. exact elif_not_inactive_skips. Qed.

Theorem C07_elif_without_expression_inactive_is_error : forall rec fs fname inc asm p line buf out sc,
  p_state p = Inactive ->
  scan_parts (scan_line asm buf (c_scan (p_ctx p))) = (out, true, sc) ->
  early_directive (trim (hash_blanks out)) = false ->
  directive_name_arg (trim (replace_all_c (c_macros (p_ctx p)) (hash_blanks out))) = ("#elif", None) ->
  line_step rec fs fname inc asm p line buf
  = PErr (mkErr ESyntax fname line inc "Expected expression after `#elif`").
Proof. exact elif_without_expression_inactive_is_error. Qed.

(** the reported input, and the same lines in selected text *)
Example C07_skipped_group_example :
  match run_cpp [] "m.c" [] (map (fun l => l ++ nl)
        ["#if 0"; "this isn't ""closed"; "#pragma once"; "#endif"; "ok"]) with
  | POk p => p_out p = "ok" ++ nl
  | PErr _ => False
  end.
Proof. vm_compute. reflexivity. Qed.

Example C07_unterminated_selected_example :
  run_cpp [] "m.c" [] (map (fun l => l ++ nl) ["this isn't ""closed"; "#pragma once"; "ok"])
  = PErr (mkErr ESyntax "m.c" 1 None "Unterminated string").
Proof. vm_compute. reflexivity. Qed.

(** blanks after the '#' and directive names that end at the first non-letter *)
Example C07_blank_after_hash_else_example :
  match run_cpp [] "m.c" [] (map (fun l => l ++ nl) ["#if 0"; "A"; "# else"; "B"; "#endif"; "tail"]) with
  | POk p => p_out p = "B" ++ nl ++ "tail" ++ nl /\ p_state p = Active /\ p_stack p = []
  | PErr _ => False
  end.
Proof. exact blank_after_hash_else_example. Qed.

Example C07_nested_if_bang_example :
  match run_cpp [] "m.c" [] (map (fun l => l ++ nl) ["#if 0"; "#if!FOO"; "x"; "#endif"; "#endif"; "tail"]) with
  | POk p => p_out p = "tail" ++ nl /\ p_state p = Active /\ p_stack p = []
  | PErr _ => False
  end.
Proof. exact nested_if_bang_example. Qed.

Example C07_if_bang_defined_example :
  match run_cpp [] "m.c" [("N", "1")] (map (fun l => l ++ nl) ["#if!N"; "a"; "#else"; "b"; "#endif"]) with
  | POk p => p_out p = "b" ++ nl
  | PErr _ => False
  end.
Proof. exact (proj1 if_bang_defined_example). Qed.

(** the evaluator is C's on expressions over 0, 1, ! and == *)
Theorem C07_evaluate_bool_correct : forall e : bexp, evaluate (print e) = EvOk (value e) "".
Proof. exact evaluate_bool_correct. Qed.

(** the evaluator is C's on chains [u1 == u2 == ... == uk] (left associative) of constants below
    2^63, printed in decimal, under any number of prefix [!]: the condition holds exactly when
    the C value ([value_n]: [!x] is 1 when x is 0, else 0; [a == b] is 1 when equal, else 0) is
    not 0 *)
Theorem C07_evaluate_int_correct : forall e : nexp,
  small_n e -> evaluate (print_n e) = EvOk (negb (N.eqb (value_n e) 0)) "".
Proof. exact evaluate_int_correct. Qed.

(** a printed decimal below 2^63 is read back as itself (never as an octal or hexadecimal) *)
Theorem C07_parse_c_int_print_dec : forall n : N, (n < 2 ^ 63)%N -> parse_c_int (print_dec n) = Some n.
Proof. exact parse_c_int_print_dec. Qed.

(** non-vacuity of tree_ok: a nested example with inert directives in dead regions *)
Example C07_tree_ok_example :
  tree_ok [Plain ("a" ++ nl);
           group (HIf "0") [Inert ("#error boom" ++ nl); Plain ("b" ++ nl)]
                 [("1 == 1", [Plain ("c" ++ nl); group (HIfdef "X") [Plain ("d" ++ nl)] [] (Some [Plain ("e" ++ nl)])]);
                  ("1", [Inert ("#define X 1" ++ nl); Plain ("f" ++ nl)])]
                 (Some [Plain ("g" ++ nl)]);
           Plain ("h" ++ nl)].
Proof. vm_compute. split; reflexivity. Qed.
