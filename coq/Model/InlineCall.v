(** The two spellings of a function that may be inlined.

    The compiler generates the code of [inline void f() { ... }] with [return;] spelled
    [JMP .endof]; at a call [GeneratorState::push_code] (Model/InlineRename.v) copies that body into
    the caller, labels and branch operands suffixed [inlineN] (so [.endof] becomes the fresh exit
    label [.endofinlineN], which [push_code] appends).  Without [inline] the same function is
    generated with [return;] spelled [RTS], the call is [JSR f], and the harness (as the builder
    does) appends one more [RTS] line to the function ([harness_fun] of Model/GenCall.v).

    [ret_of_endof body]: the out-of-line form of the inline body [body]: every unprotected
    [JMP .endof] replaced by [RTS]; nothing else differs (the two listings below are the exact
    -O0 output of the compiler for the two spellings of the same function).
    [inl_form body]: the inline form as [push_code] receives it: the body itself. *)
From Coq Require Import String Ascii List Bool NArith ZArith.
From CC Require Import Base.Str Asm.Lines Model.InlineRename Model.GenTemplates Model.GenLoops
  Model.GenIf Model.GenCtl Model.GenCall.
Import ListNotations.
Open Scope string_scope.
Open Scope list_scope.

(** the line [JMP .endof], not protected *)
Definition is_endof_jmp (l : line) : bool :=
  match l with
  | Ins i =>
      match i_mn i with
      | JMP => String.eqb (i_op i) ".endof" && negb (i_prot i)
      | _ => false
      end
  | _ => false
  end.

Definition ret_line (l : line) : line := if is_endof_jmp l then ins RTS "" else l.

Definition ret_of_endof (body : code) : code := map ret_line body.

Definition inl_form (body : code) : code := body.

(** what is in the program table for the out-of-line spelling *)
Definition out_of_line (body : code) : code := harness_fun (ret_of_endof body).

(** * The example: [inline void f() { if (a) return; c = 1; }   void main() { f(); b = 2; }]
    (the exact -O0 output of the compiler for the two spellings) *)

(** the code of [f] when declared [inline] *)
Definition ex_f_inline : code :=
  [ins LDA "a"; ins BEQ ".ifend1"; ins JMP ".endof"; Lbl ".ifend1"; ins LDA (imm 1); ins STA "c"].

Example ex_f_inline_listing : map show ex_f_inline =
  ["LDA a"; "BEQ .ifend1"; "JMP .endof"; ".ifend1:"; "LDA #1"; "STA c"].
Proof. vm_compute. reflexivity. Qed.

(** ... and without [inline] *)
Example ex_f_call_listing : map show (ret_of_endof ex_f_inline) =
  ["LDA a"; "BEQ .ifend1"; "RTS "; ".ifend1:"; "LDA #1"; "STA c"].
Proof. vm_compute. reflexivity. Qed.

(** [main] with [f] inlined (counter 1) ... *)
Definition ex_main_inline : code := push_code [] (inl_form ex_f_inline) 1 ++ assign8 "b" 2.

Example ex_main_inline_listing : map show ex_main_inline =
  ["LDA a"; "BEQ .ifend1inline1"; "JMP .endofinline1"; ".ifend1inline1:"; "LDA #1"; "STA c";
   ".endofinline1:"; "LDA #2"; "STA b"].
Proof. vm_compute. reflexivity. Qed.

(** ... and with the call *)
Definition ex_main_call : code := call_tpl "f" [] ++ assign8 "b" 2.

Example ex_main_call_listing : map show ex_main_call = ["JSR f"; "LDA #2"; "STA b"].
Proof. vm_compute. reflexivity. Qed.
