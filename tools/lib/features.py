"""Syntactic features of generated programs, used to attribute a failing program to a known finding
(a finding names the feature its defect needs; a failing program is attributed to it only if its
MINIMISED form still has that feature)."""

RELOPS = ('==', '!=', '<', '<=', '>', '>=')
ORDER = ('<', '<=', '>', '>=')


def walk_expr(e, f, ctx=None):
    if not isinstance(e, tuple):
        return
    f(e, ctx)
    k = e[0]
    if k in ('bin',):
        walk_expr(e[2], f, e)
        walk_expr(e[3], f, e)
    elif k == 'un':
        walk_expr(e[2], f, e)
    elif k == 'idx':
        walk_expr(e[2], f, e)
    elif k == 'inc':
        walk_expr(e[2], f, e)
    elif k == 'asg':
        walk_expr(e[2], f, e)
        walk_expr(e[3], f, e)
    elif k == 'call':
        for a in e[2]:
            walk_expr(a, f, e)
    elif k == 'tern':
        walk_expr(e[1], f, e)
        walk_expr(e[2], f, e)
        walk_expr(e[3], f, e)


def walk_stmts(stmts, fe, fs=None):
    for s in stmts:
        if not isinstance(s, tuple):
            continue
        if fs:
            fs(s)
        k = s[0]
        if k == 'expr':
            walk_expr(s[1], fe)
        elif k == 'block':
            walk_stmts(s[1], fe, fs)
        elif k == 'if':
            # `if (c) break;` / `if (c) continue;` without else branch straight to the loop's label when c HOLDS:
            # the condition is not negated there
            bare_jump = s[3] is None and s[2] in (('break',), ('continue',))
            walk_expr(s[1], fe, ('cond', 'pos' if bare_jump else 'neg'))
            walk_stmts([s[2]], fe, fs)
            if s[3] is not None:
                walk_stmts([s[3]], fe, fs)
        elif k == 'while':
            walk_expr(s[1], fe, ('cond', 'neg'))
            walk_stmts([s[2]], fe, fs)
        elif k == 'do':
            walk_stmts([s[1]], fe, fs)
            walk_expr(s[2], fe, ('cond', 'pos'))
        elif k == 'for':
            for x in s[1:4]:
                if x is not None:
                    # the condition of a for loop is tested negated before the first pass and as it is after each update
                    walk_expr(x, fe, ('cond', 'both') if x is s[2] else None)
            walk_stmts([s[4]], fe, fs)
        elif k == 'switch':
            walk_expr(s[1], fe)
            for vals, body in s[2]:
                walk_stmts(body, fe, fs)
            if s[3] is not None:
                walk_stmts(s[3], fe, fs)
        elif k == 'return' and s[1] is not None:
            walk_expr(s[1], fe)
        elif k in ('load', 'store'):
            walk_expr(s[1], fe)


def contains(e, pred):
    found = []

    def f(x, parent):
        if pred(x):
            found.append(x)
    walk_expr(e, f)
    return bool(found)


def const_value(e):
    """the exact (unbounded) value of an expression made of literals only, None otherwise"""
    if e[0] == 'num':
        return e[1]
    if e[0] == 'un' and e[1] in ('-', '~'):
        v = const_value(e[2])
        return None if v is None else (-v if e[1] == '-' else ~v)
    if e[0] == 'bin' and e[1] in ('+', '-', '*', '<<', '|', '&', '^'):
        a, b = const_value(e[2]), const_value(e[3])
        if a is None or b is None or (e[1] == '<<' and not 0 <= b < 32):
            return None
        return {'+': a + b, '-': a - b, '*': a * b, '<<': a << b if e[1] == '<<' else 0, '|': a | b, '&': a & b, '^': a ^ b}[e[1]]
    return None


def features(prog):
    """-> set of feature tags of a lib.gen_c.Prog"""
    ty = {}
    for (t, n, init, alen, qual) in prog.globals:
        base = 'u8'
        if 'short' in t:
            base = 'u16' if 'unsigned' in t else 's16'
        elif 'signed char' in t and 'unsigned' not in t:
            base = 's8'
        ty[n] = (base, alen is not None, 'superchip' in (qual or ''))
    for f in prog.funcs:
        for (t, n) in f['params']:
            ty[n] = ('u8', False, False)
    feats = set()

    def etype(e):
        """'s8' 'u8' 's16' 'u16' 'lit' for simple operands"""
        if e[0] == 'num':
            return 'lit'
        if e[0] == 'var':
            if e[1] in ('X', 'Y'):
                return 'u8'
            return ty.get(e[1], ('u8',))[0]
        if e[0] == 'idx':
            return 'u8'
        if e[0] == 'bin' and e[1] in RELOPS + ('&&', '||'):
            return 'lit'
        if e[0] in ('bin',):
            a, b = etype(e[2]), etype(e[3])
            for w in ('u16', 's16'):
                if w in (a, b):
                    return w
            if a == 's8' and b in ('s8', 'lit') or b == 's8' and a == 'lit':
                return 's8'
            return 'u8' if (a != 'lit' or b != 'lit') else 'lit'
        if e[0] == 'un':
            return etype(e[2])
        if e[0] == 'call':
            return 'u8'
        if e[0] == 'tern':
            return etype(e[2])
        return 'u8'

    def complex_(e):
        return e[0] not in ('num', 'var')

    def fe(e, parent):
        k = e[0]
        if k == 'bin' and e[1] in RELOPS:
            a, b = etype(e[2]), etype(e[3])
            if 's8' in (a, b):
                feats.add('cmp_signed8')
                if 'u8' in (a, b):
                    feats.add('cmp_mixed_sign8')
            if 's16' in (a, b) or 'u16' in (a, b):
                feats.add('cmp_16')
                if 's16' in (a, b):
                    feats.add('cmp_signed16')
            if e[1] in ORDER and ((e[3][0] == 'num' and e[3][1] == 0) or (e[2][0] == 'num' and e[2][1] == 0)):
                # the wrong cells of the CMP-less comparison with 0 (theorem C01_zero_compare_unsigned_cells)
                # are < > >= AFTER the generator's negation: an if/while/for condition is negated,
                # a do-while condition is not; elsewhere (&&, ||, !, ?:, value) it depends
                op = e[1] if e[3][0] == 'num' else {'<': '>', '>': '<', '<=': '>=', '>=': '<='}[e[1]]
                if parent is not None and parent[0] == 'cond' and len(parent) > 1:
                    effs = []
                    if parent[1] in ('neg', 'both'):
                        effs.append({'<': '>=', '>=': '<', '>': '<=', '<=': '>'}[op])
                    if parent[1] in ('pos', 'both'):
                        effs.append(op)
                    if any(eff in ('<', '>', '>=') for eff in effs):
                        feats.add('cmp_order_zero')
                else:
                    feats.add('cmp_order_zero')
            if e[2][0] == 'idx' or e[3][0] == 'idx':
                feats.add('cmp_indexed')
            if e[2][0] == 'var' and e[2][1] in ('X', 'Y') or e[3][0] == 'var' and e[3][1] in ('X', 'Y'):
                feats.add('cmp_register')
            if complex_(e[2]) or complex_(e[3]):
                feats.add('cmp_complex_operand')
            if e[2][0] == 'num':
                feats.add('cmp_const_left')
        if k == 'bin' and e[1] == '>>' and e[2][0] != 'var' and \
                contains(e[2], lambda x: x[0] == 'var' and ty.get(x[1], ('u8',))[0] == 's8') and \
                contains(e[2], lambda x: (x[0] == 'var' and (x[1] in ('X', 'Y') or ty.get(x[1], ('u8',))[0] == 'u8')) or x[0] == 'idx'):
            feats.add('shr_mixed_sign8')
        if k == 'bin' and e[1] in ('>>', '/', '<', '<=', '>', '>=', '==', '!=', '&&', '||'):
            # an all-literal operand whose exact value does not fit 16 bits, consumed by an operator that sees the
            # high bits: the compiler folds literals in 32 bits, C's int here has 16
            def wide(x):
                v_ = const_value(x)
                return v_ is not None and x[0] != 'num' and not -32768 <= v_ <= 65535
            if contains(e[2], wide) or contains(e[3], wide):
                feats.add('const_wider_than_16')
        if k == 'bin' and e[1] in ('<<', '>>'):
            feats.add('shift')
            if contains(e[2], lambda x: x[0] == 'bin' and x[1] in ('<<', '>>')):
                feats.add('shift_nested')
            if etype(e[2]) in ('s16', 'u16'):
                feats.add('shift_16')
            if complex_(e[2]):
                feats.add('shift_complex')
            if etype(e[2]) == 's8':
                feats.add('shift_signed8')
        if k == 'call' and parent is not None and parent[0] in ('bin', 'un', 'tern'):
            feats.add('call_in_expr')
        if k == 'call' and any(complex_(a) for a in e[2]):
            feats.add('call_complex_arg')
        if k == 'tern':
            feats.add('ternary')
            if parent is not None and parent[0] in ('bin', 'un'):
                feats.add('ternary_in_expr')
        if k == 'un' and e[1] == '!':
            feats.add('lnot')
            if parent is None or parent[0] != 'cond':
                feats.add('lnot_value')
        if k == 'un' and e[1] in ('-', '~'):
            feats.add('unary_' + ('neg' if e[1] == '-' else 'bnot'))
        if k == 'asg':
            lt = etype(e[2])
            rt = etype(e[3])
            if lt in ('s16', 'u16'):
                feats.add('assign_16')
                if e[1] == '=' and e[2][0] == 'var' and contains(e[3], lambda x: x[0] == 'bin' and x[1] == '<<' and x[3] == ('num', 8)
                                                                 and contains(x[2], lambda y: y == e[2])):
                    feats.add('shl8_self_assign')
                if e[3][0] == 'bin' and e[3][1] in ('<<', '>>') and etype(e[3][2]) in ('u8', 's8'):
                    feats.add('assign16_shift8')
                # a value whose LOW byte is a compile-time constant (x << 8, a constant) added to / subtracted from
                # another one in a 16-bit assignment: the low bytes are folded, the carry into the high byte is not
                if e[3][0] == 'bin' and e[3][1] in ('+', '-') and any(
                        x[0] == 'bin' and x[1] == '<<' and x[3] == ('num', 8) for x in (e[3][2], e[3][3])):
                    feats.add('shl8_operand_16bit_sum')
                if rt == 's8':
                    feats.add('assign16_from_signed8')
                if e[1] in ('<<=', '>>='):
                    feats.add('shift_assign_16')
                if e[3][0] == 'un':
                    feats.add('assign16_unary')
            if e[1] in ('<<=', '>>=') and lt in ('s8',):
                feats.add('shift_assign_signed8')
            if lt == 's8' or rt == 's8':
                feats.add('signed8')
            if e[2][0] == 'idx':
                feats.add('assign_indexed')
                if complex_(e[3]):
                    feats.add('assign_indexed_complex')
            if e[2][0] == 'var' and e[2][1] in ('X', 'Y') and complex_(e[3]):
                feats.add('assign_reg_complex')
        if k == 'inc':
            if etype(e[2]) in ('s16', 'u16'):
                feats.add('inc_16')
            if e[2][0] == 'idx':
                feats.add('inc_indexed')
        if k == 'bin' and e[1] in ('&&', '||'):
            feats.add('logic')
            if parent is None or parent[0] != 'cond':
                pass
        if k in ('deref', 'addr') or (k == 'idx' and e[1] in ('p', 'q')):
            feats.add('pointer')
        if k == 'var' and ty.get(e[1], ('', False, False))[2]:
            feats.add('superchip')
        if k == 'idx' and ty.get(e[1], ('', False, False))[2]:
            feats.add('superchip')

    def has_deref(e):
        return contains(e, lambda x: x[0] == 'deref' or (x[0] == 'idx' and x[1] in ('p', 'q') and x[2][0] == 'num'))

    def uses_y(e):
        return contains(e, lambda x: x == ('var', 'Y'))

    def fs(s):
        # a dereference parks Y in cctmp and loads 0 into it for the duration of the statement
        if s[0] == 'expr' and has_deref(s[1]) and uses_y(s[1]):
            feats.add('deref_with_y')
        if s[0] in ('if', 'while') and has_deref(s[1]):
            feats.add('deref_in_cond')
        if s[0] == 'do' and has_deref(s[2]):
            feats.add('deref_in_cond')
        if s[0] == 'for' and s[2] is not None and has_deref(s[2]):
            feats.add('deref_in_cond')
        if s[0] == 'return' and s[1] is not None and has_deref(s[1]) and uses_y(s[1]):
            feats.add('deref_with_y')
        if s[0] == 'expr' and contains(s[1], lambda x: x[0] == 'tern' and has_deref(x[1])):
            feats.add('deref_in_cond')
        if s[0] == 'expr' and contains(s[1], lambda x: x[0] == 'bin' and x[1] in ('&&', '||', '==', '!=', '<', '>', '<=', '>=') and has_deref(x)):
            feats.add('deref_in_cond')
        if s[0] in ('expr', 'return') and s[1] is not None and has_deref(s[1]) and contains(s[1], lambda x: x[0] == 'call'):
            feats.add('deref_with_call')
        if s[0] == 'switch':
            feats.add('switch')
        if s[0] in ('while', 'do', 'for'):
            feats.add('loop')
        if s[0] in ('load', 'store', 'strobe', 'csleep', 'asm'):
            feats.add('hw')
    walk_stmts(prog.main, fe, fs)
    for f in prog.funcs:
        walk_stmts(f['body'], fe, fs)
        if f.get('inline'):
            feats.add('inline')
    if prog.funcs:
        feats.add('functions')
    return feats
