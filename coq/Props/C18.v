(** C18 — timing and hardware-access statements are emitted exactly.  Statements only. *)
From Coq Require Import String Ascii List Bool NArith ZArith.
From CC Require Import Base.Str Asm.Lines M6502.Isa Asm.Operand M6502.Sem
     Model.Optimize Model.OptSpec Model.Csleep Proofs.OptFacts Proofs.CsleepFacts.
Import ListNotations.
Open Scope Z_scope.

(** csleep(n): exactly n cycles whatever the state; A, X, Y, SP, C, V and every memory cell
    except DUMMY ($2d, a TIA strobe address) and the free stack byte below SP are unchanged *)
Theorem C18_csleep_cycles : forall (cfg : config) (n : Z) (code : list instr) (s : mstate),
  layout cfg "DUMMY"%string = Some 45 -> ports cfg = [] -> 0 <= rS s < 256 ->
  csleep_code n = Some code ->
  exists s', run_straight cfg code s = Some (s', Z.to_N n) /\ frame_ok s s'.
Proof. exact csleep_cycles. Qed.

(** every instruction of a csleep sequence is protected from the optimiser *)
Theorem C18_csleep_protected : forall n code i,
  csleep_code n = Some code -> In i code -> i_prot i = true.
Proof.
  intros n code i H Hin. pose proof (csleep_domain _ _ H) as D.
  destruct D as [-> | [-> | [-> | [-> | [-> | [-> | [-> | [-> | ->]]]]]]]];
    cbv in H; injection H as <-; cbn in Hin;
    repeat (destruct Hin as [<- | Hin]; [reflexivity|]); destruct Hin.
Qed.

(** the optimiser neither removes, duplicates nor reorders protected instructions and inline
    assembly (for code without protected SEC/CLC and protected immediate compares: true of
    everything the generator emits, and checked on every compiled function by the corr-S stage) *)
Theorem C18_optimize_keeps_marked : forall c : code,
  no_protected_carry_ops c -> no_protected_imm_compare c ->
  marked (fst (optimize c)) = marked c.
Proof. exact optimize_keeps_marked. Qed.

(** an inline-assembly line stays where it is *)
Theorem C18_inline_fixed : forall (c : code) (k : nat) (t : string) (s : N),
  nth_error c k = Some (Inl t s) ->
  exists c1 c2 r1 r2, c = c1 ++ Inl t s :: c2 /\ length c1 = k /\
                      fst (optimize c) = r1 ++ Inl t s :: r2 /\ length r1 = k.
Proof. exact optimize_inline_barrier. Qed.

(** the hypothesis of keeps_marked cannot simply be dropped: a protected immediate compare is
    removed by the known-immediate rule (not emitted by the generator) *)
Example C18_keeps_marked_needs_hypothesis :
  marked (fst (optimize cx_marked_cmp)) <> marked cx_marked_cmp.
Proof. vm_compute. discriminate. Qed.

(** * inlining *)
From CC Require Import Model.InlineRename Proofs.InlineFacts.

(** inlining keeps the [protected] flag (and the mnemonic, cycles and size) of every instruction
    of the inlined body: a protected branch/JMP of the body is still protected in the expansion
    (only its operand text gets the suffix) *)
Theorem C18_inline_keeps_protection : forall (n : N) (i : instr),
  exists i', rename_line n (Ins i) = Ins i' /\ i_mn i' = i_mn i /\ i_prot i' = i_prot i /\
             i_cycles i' = i_cycles i /\ i_alt i' = i_alt i /\ i_bytes i' = i_bytes i /\
             i_op i' = if renames_operand (i_mn i) then suffix_of n (i_op i) else i_op i.
Proof. exact rename_ins_shape. Qed.

Theorem C18_inline_keeps_is_marked : forall (n : N) (l : line),
  is_marked (rename_line n l) = is_marked l.
Proof. exact rename_is_marked. Qed.

(** inlining neither removes, duplicates nor reorders protected instructions and inline assembly *)
Theorem C18_inline_keeps_marked : forall (dst body : code) (n : N),
  marked (push_code dst body n) = marked dst ++ map (rename_line n) (marked body).
Proof. exact push_code_marked. Qed.
