(** Correctness of the statement templates for variables in split-port cartridge RAM
    (Model/GenSplit.v) on the executable 6502 semantics (M6502/Sem.v), in the style of
    Proofs/GenTemplatesFacts.v.

    The memory model (M6502/Sem.v): [ports cfg] lists (write_base, read_base, size); the cell is
    stored in [mem] at its WRITE address; a read through the read port at [a + 128] returns
    [mget (mem s) a]; a read through the write port or a write through the read port is a fault,
    and so is every read-modify-write instruction on either port.

    Shape of the theorems:

      forall cfg names addresses st,
        split_cfg cfg ->                   (ports cfg = [($1000, $1080, 128)])
        split_name v ...                   (the names are C identifiers: non-empty, letters,
                                            digits, underscores; all operand texts then parse)
        layout cfg v = Some pv ...         (where the variables live)
        in_wport pv                        (8-bit split-port variable: its symbol is an address
                                            of the WRITE window $1000..$107F)
        in_wport pv -> in_wport (pv + 1)   (16-bit: both cells inside the window)
        in_wport pa -> in_wport (pa + n - 1), 0 <= X < n   (array of n cells, index in range)
        ordinary px                        (an ordinary variable: 0 <= px < $1000, below both
                                            windows; page zero in particular)
        bytes_ok st ->                     (only where the arithmetic needs byte-valued cells)
        exists st',
          runs_to cfg (stemplate T) st st' ([Sem.run] halts normally in st': no fault, hence no
                                            access through the wrong port)
          /\ <the cell of the destination holds the C value>
          /\ only_changes [cells of dst] st st'
          /\ keeps_xys st st'.

    "The value of the variable v" is [mget (mem s) pv], the physical cell, which is what a load
    through the read port returns ([split_read_is_cell]) and what a store through the write port
    sets ([split_write_sets_cell]).

    The reason the templates exist: the ordinary lowering [INC v] faults ([inc_split_faults],
    [inc_split_run_faults], [inc_split_never_runs]). *)
From Coq Require Import String Ascii List Bool Arith NArith ZArith Lia ZifyBool.
From CC Require Import Base.Str Asm.Lines M6502.Isa Asm.Operand M6502.Sem
  Model.OptSem Model.CheckBranches Model.CbSpec Proofs.CbFacts Proofs.OptSemFacts
  Model.GenTemplates Proofs.GenTemplatesFacts Model.GenSplit.
Import ListNotations.
Open Scope string_scope.
Open Scope list_scope.
Open Scope Z_scope.

Ltac Zify.zify_post_hook ::= Z.div_mod_to_equations.

(** * Operand texts *)

(** a C identifier *)
Definition split_name (v : string) : Prop := v <> ""%string /\ all_ident v = true.

Fixpoint all_dig (s : string) : bool :=
  match s with
  | EmptyString => true
  | String c r => is_digit c && all_dig r
  end.

Lemma all_dig_app : forall a b, all_dig (a ++ b) = all_dig a && all_dig b.
Proof.
  induction a as [|c a IH]; intros b; [reflexivity|].
  cbn [append all_dig]. rewrite IH. rewrite andb_assoc. reflexivity.
Qed.

Lemma all_dig_rev : forall s, all_dig s = true -> all_dig (rev_string s) = true.
Proof.
  induction s as [|c s IH]; intros H; [reflexivity|].
  cbn [all_dig] in H. apply andb_true_iff in H. destruct H as [Hc Hs].
  rewrite rev_string_cons. rewrite all_dig_app. rewrite (IH Hs). cbn [all_dig].
  rewrite Hc. reflexivity.
Qed.

Lemma rev_string_nonempty : forall s, s <> ""%string -> rev_string s <> ""%string.
Proof.
  intros s H. destruct s as [|c s]; [contradiction|].
  rewrite rev_string_cons. destruct (rev_string s); discriminate.
Qed.

Lemma dec_digits_all_dig : forall f n acc,
  all_dig acc = true -> all_dig (dec_digits f n acc) = true.
Proof.
  induction f as [|f IH]; intros n acc H; [exact H|].
  rewrite dec_digits_S.
  assert (Hd : (n mod 10 < 10)%N) by (apply N.mod_lt; lia).
  destruct (digit_char _ Hd) as [Hdig _].
  destruct (N.eqb (n / 10) 0); [|apply IH]; cbn [all_dig]; rewrite Hdig, H; reflexivity.
Qed.

Lemma string_of_N_all_dig : forall n, all_dig (string_of_N n) = true.
Proof. intros n. unfold string_of_N. apply dec_digits_all_dig. reflexivity. Qed.

Lemma string_of_N_nonempty : forall n, string_of_N n <> ""%string.
Proof.
  intros n H. pose proof (string_of_N_starts n) as Hs. rewrite H in Hs. discriminate Hs.
Qed.

Lemma digit_neq : forall a q, is_digit a = true -> is_digit q = false -> Ascii.eqb q a = false.
Proof.
  intros a q Ha Hq. destruct (Ascii.eqb_spec q a) as [E|E]; [|reflexivity].
  subst q. congruence.
Qed.

(** a text that ends in a digit does not end in ",X" or ",Y" *)
Lemma no_index_digits : forall p d q, all_dig d = true -> d <> ""%string -> is_digit q = false ->
  starts_with (String q ",") (rev_string (p ++ d)) = false.
Proof.
  intros p d q Hd Hne Hq. rewrite rev_string_app.
  pose proof (all_dig_rev d Hd) as Hr. pose proof (rev_string_nonempty d Hne) as Hn.
  destruct (rev_string d) as [|a t]; [contradiction|].
  cbn [all_dig] in Hr. apply andb_true_iff in Hr. destruct Hr as [Ha _].
  cbn [append starts_with]. rewrite (digit_neq a q Ha Hq). reflexivity.
Qed.

Lemma str_length_app : forall a b, String.length (a ++ b) = (String.length a + String.length b)%nat.
Proof. induction a as [|c a IH]; intros b; [reflexivity|]. cbn [append String.length]. rewrite IH. reflexivity. Qed.

Lemma string_take_app : forall a b, string_take (String.length a) (a ++ b) = a.
Proof. induction a as [|c a IH]; intros b; [reflexivity|]. cbn [append String.length string_take]. rewrite IH. reflexivity. Qed.

Lemma strip_suffix_app : forall b suf, strip_suffix suf (b ++ suf) = Some b.
Proof.
  intros b suf. unfold strip_suffix.
  assert (He : ends_with suf (b ++ suf) = true).
  { unfold ends_with. rewrite rev_string_app.
    generalize (rev_string suf) (rev_string b). intros x y.
    induction x as [|c x IH]; [reflexivity|]. cbn [append starts_with].
    rewrite Ascii.eqb_refl. exact IH. }
  rewrite He. rewrite str_length_app. rewrite Nat.add_sub. rewrite string_take_app. reflexivity.
Qed.

(** the offset part of "sym+digits" *)
Lemma sym_off_digits : forall (y : string) r, starts_digit r = true ->
  match r with
  | String "-"%char k' =>
      match parse_dec k' with Some n => Some (y, (- Z.of_N n)%Z) | None => None end
  | _ => match parse_dec r with Some n => Some (y, Z.of_N n) | None => None end
  end = match parse_dec r with Some n => Some (y, Z.of_N n) | None => None end.
Proof.
  intros y r H. destruct r as [|c r']; [discriminate H|].
  cbn [starts_digit] in H.
  destruct c as [b0 b1 b2 b3 b4 b5 b6 b7].
  destruct b0, b1, b2, b3, b4, b5, b6, b7; try reflexivity; discriminate H.
Qed.

(** what the parser needs to know of a text "sym" / "sym+k" *)
Definition base_text (b v : string) (k : Z) : Prop :=
  (exists c r, b = String c r /\ is_ident_char c = true) /\
  ends_with ",X" b = false /\ ends_with ",Y" b = false /\
  parse_sym_off b = Some (v, k).

Lemma sym_base_text : forall v k, split_name v -> 0 <= k -> base_text (sym v k) v k.
Proof.
  intros v k [Hne Hid] Hk. unfold sym. destruct (Z.eqb_spec k 0) as [E|E].
  - subst k. destruct v as [|c r]; [contradiction|].
    pose proof Hid as Hid'. cbn [all_ident] in Hid'. apply andb_true_iff in Hid'.
    split; [exists c, r; split; [reflexivity|exact (proj1 Hid')]|].
    split; [apply (ident_no_index _ "X"%char Hid)|].
    split; [apply (ident_no_index _ "Y"%char Hid)|].
    unfold parse_sym_off. rewrite (ident_no_plus _ Hid). reflexivity.
  - rewrite (string_of_Z_nonneg k Hk).
    pose proof (string_of_N_starts (Z.to_N k)) as Hs.
    pose proof (string_of_N_all_dig (Z.to_N k)) as Hd.
    pose proof (string_of_N_nonempty (Z.to_N k)) as Hn.
    pose proof (parse_string_of_N (Z.to_N k)) as Hp.
    change ("+" ++ string_of_N (Z.to_N k))%string with (String "+" (string_of_N (Z.to_N k))).
    split.
    { destruct v as [|c r]; [contradiction|].
      cbn [all_ident] in Hid. apply andb_true_iff in Hid.
      exists c, (r ++ String "+" (string_of_N (Z.to_N k)))%string. split; [reflexivity|exact (proj1 Hid)]. }
    assert (Hsplit : (v ++ String "+" (string_of_N (Z.to_N k)))%string
                     = ((v ++ "+") ++ string_of_N (Z.to_N k))%string).
    { rewrite str_app_assoc. reflexivity. }
    split; [unfold ends_with; rewrite Hsplit; apply no_index_digits; [exact Hd|exact Hn|reflexivity]|].
    split; [unfold ends_with; rewrite Hsplit; apply no_index_digits; [exact Hd|exact Hn|reflexivity]|].
    unfold parse_sym_off. rewrite (ident_split_plus v _ Hid).
    destruct (String.eqb_spec v "") as [Ev|_]; [contradiction|].
    rewrite (sym_off_digits v _ Hs).
    unfold parse_dec. destruct (string_of_N (Z.to_N k)) as [|c r]; [discriminate Hs|].
    rewrite Hp. rewrite Z2N.id by exact Hk. reflexivity.
Qed.

Lemma parse_base : forall m b v k, takes_label m = false -> base_text b v k ->
  parse_operand m b = Some (OMem v k IxNone).
Proof.
  intros m b v k Hm ((c & r & Eb & Hc) & Hx & Hy & Hp).
  rewrite parse_operand_eq, Hm. subst b.
  change (String.eqb (String c r) "") with false. cbv iota.
  rewrite (ident_char_neq' c "#"%char Hc eq_refl), (ident_char_neq' c "("%char Hc eq_refl).
  unfold parse_mem. rewrite (strip_suffix_none _ _ Hx), (strip_suffix_none _ _ Hy).
  rewrite Hp. reflexivity.
Qed.

Definition ix_of (r : ireg) : index := match r with RegX => IxX | RegY => IxY end.

Lemma parse_base_idx : forall m b v k rg, takes_label m = false -> base_text b v k ->
  parse_operand m (idx b rg) = Some (OMem v k (ix_of rg)).
Proof.
  intros m b v k rg Hm ((c & r & Eb & Hc) & Hx & Hy & Hp).
  rewrite parse_operand_eq, Hm. unfold idx.
  assert (E1 : exists r', (b ++ match rg with RegX => ",X" | RegY => ",Y" end)%string = String c r').
  { subst b. eexists. cbn [append]. reflexivity. }
  destruct E1 as (r' & E1).
  assert (Hnot : String.eqb (b ++ match rg with RegX => ",X" | RegY => ",Y" end) "" = false).
  { rewrite E1. reflexivity. }
  rewrite Hnot. rewrite E1 at 1. cbv iota.
  rewrite (ident_char_neq' c "#"%char Hc eq_refl), (ident_char_neq' c "("%char Hc eq_refl).
  unfold parse_mem. destruct rg.
  - rewrite strip_suffix_app. rewrite Hp. reflexivity.
  - assert (Hn : strip_suffix ",X" (b ++ ",Y") = None).
    { apply strip_suffix_none. unfold ends_with. rewrite rev_string_app. reflexivity. }
    rewrite Hn. rewrite strip_suffix_app. rewrite Hp. reflexivity.
Qed.

Lemma parse_sym : forall m v k, split_name v -> takes_label m = false -> 0 <= k ->
  parse_operand m (sym v k) = Some (OMem v k IxNone).
Proof. intros m v k Hv Hm Hk. apply parse_base; [exact Hm|apply sym_base_text; assumption]. Qed.

Lemma parse_sym_idx : forall m v k rg, split_name v -> takes_label m = false -> 0 <= k ->
  parse_operand m (idx (sym v k) rg) = Some (OMem v k (ix_of rg)).
Proof. intros m v k rg Hv Hm Hk. apply parse_base_idx; [exact Hm|apply sym_base_text; assumption]. Qed.

(** an ordinary variable is printed as its name *)
Lemma parse_name : forall m v, split_name v -> takes_label m = false ->
  parse_operand m v = Some (OMem v 0 IxNone).
Proof. intros m v Hv Hm. exact (parse_sym m v 0 Hv Hm ltac:(lia)). Qed.

Lemma split_name_var_name : forall v, split_name v -> var_name v.
Proof. intros v [Hne Hid]. apply ident_var_name; assumption. Qed.

(** the names of the listing *)
Lemma split_names_listing :
  split_name "a" /\ split_name "c" /\ split_name "d" /\ split_name "s" /\ split_name "t" /\
  split_name "p" /\ split_name "arr".
Proof. repeat match goal with |- _ /\ _ => split end; (split; [discriminate|reflexivity]). Qed.

(** * The split-port configuration and its one-step lemmas *)

(** the superchip: write window $1000..$107F, read window $1080..$10FF *)
Definition split_cfg (cfg : config) : Prop := ports cfg = [(4096, 4224, 128)].
(** an address of the write window: where the symbol of a split-port variable points *)
Definition in_wport (a : Z) : Prop := 4096 <= a < 4224.
(** an ordinary RAM address, below both windows (page zero in particular) *)
Definition ordinary (a : Z) : Prop := 0 <= a < 4096.

Ltac port_tac :=
  unfold read_addr, write_addr, in_range;
  repeat match goal with
  | |- context [Z.leb ?x ?y] => destruct (Z.leb_spec x y)
  | |- context [Z.ltb ?x ?y] => destruct (Z.ltb_spec x y)
  end;
  cbn [andb]; try (exfalso; lia); try reflexivity; try (f_equal; lia).

Lemma rd_port : forall cfg a, split_cfg cfg -> in_wport a ->
  read_addr (ports cfg) (a + 128) = Some a.
Proof. intros cfg a Hp Ha. rewrite Hp. unfold in_wport in Ha. port_tac. Qed.
Lemma wr_port : forall cfg a, split_cfg cfg -> in_wport a ->
  write_addr (ports cfg) a = Some a.
Proof. intros cfg a Hp Ha. rewrite Hp. unfold in_wport in Ha. port_tac. Qed.
Lemma rd_ord : forall cfg a, split_cfg cfg -> ordinary a -> read_addr (ports cfg) a = Some a.
Proof. intros cfg a Hp Ha. rewrite Hp. unfold ordinary in Ha. port_tac. Qed.
Lemma wr_ord : forall cfg a, split_cfg cfg -> ordinary a -> write_addr (ports cfg) a = Some a.
Proof. intros cfg a Hp Ha. rewrite Hp. unfold ordinary in Ha. port_tac. Qed.
(** the wrong port *)
Lemma rd_wport_faults : forall cfg a, split_cfg cfg -> in_wport a -> read_addr (ports cfg) a = None.
Proof. intros cfg a Hp Ha. rewrite Hp. unfold in_wport in Ha. port_tac. Qed.
Lemma wr_rport_faults : forall cfg a, split_cfg cfg -> in_wport a ->
  write_addr (ports cfg) (a + 128) = None.
Proof. intros cfg a Hp Ha. rewrite Hp. unfold in_wport in Ha. port_tac. Qed.

(** ** plain operands *)

(** a load (or ALU read) of "v+128+j" returns the physical cell [v+j] *)
Lemma exec_rd_split : forall cfg m s y j a0, split_cfg cfg -> is_rd m = true ->
  layout cfg y = Some a0 -> in_wport (a0 + j) ->
  exec cfg m (OMem y (128 + j) IxNone) s
  = XOk (rd_sem m s (mget (mem s) (a0 + j))) (cyc m (amode (a0 + (128 + j))) false) FNext.
Proof.
  intros cfg m s y j a0 Hp Hm Hl Ha.
  assert (Hr : 0 <= a0 + (128 + j) < 65536) by (unfold in_wport in Ha; lia).
  pose proof (eff_addr_mem cfg m s y (128 + j) a0 (is_rd_memop m Hm) Hl Hr) as He.
  assert (Hra : read_addr (ports cfg) (a0 + (128 + j)) = Some (a0 + j)).
  { replace (a0 + (128 + j)) with (a0 + j + 128) by lia. apply rd_port; assumption. }
  destruct m; try discriminate Hm; unfold exec, read_operand; rewrite He, Hra; reflexivity.
Qed.

(** a store to "v+k" sets the physical cell [v+k] *)
Lemma exec_st_split : forall cfg m s y k a0, split_cfg cfg -> is_st m = true ->
  layout cfg y = Some a0 -> in_wport (a0 + k) ->
  exec cfg m (OMem y k IxNone) s
  = XOk (set_mem s (mset (mem s) (a0 + k) (st_reg m s))) (cyc m (amode (a0 + k)) false) FNext.
Proof.
  intros cfg m s y k a0 Hp Hm Hl Ha.
  assert (Hr : 0 <= a0 + k < 65536) by (unfold in_wport in Ha; lia).
  pose proof (eff_addr_mem cfg m s y k a0 (is_st_memop m Hm) Hl Hr) as He.
  pose proof (wr_port cfg (a0 + k) Hp Ha) as Hw.
  destruct m; try discriminate Hm; unfold exec, write_operand; rewrite He, Hw; reflexivity.
Qed.

(** ordinary variables are not affected by the ports *)
Lemma exec_rd_ord : forall cfg m s y k a0, split_cfg cfg -> is_rd m = true ->
  layout cfg y = Some a0 -> ordinary (a0 + k) ->
  exec cfg m (OMem y k IxNone) s
  = XOk (rd_sem m s (mget (mem s) (a0 + k))) (cyc m (amode (a0 + k)) false) FNext.
Proof.
  intros cfg m s y k a0 Hp Hm Hl Ha.
  assert (Hr : 0 <= a0 + k < 65536) by (unfold ordinary in Ha; lia).
  pose proof (eff_addr_mem cfg m s y k a0 (is_rd_memop m Hm) Hl Hr) as He.
  pose proof (rd_ord cfg (a0 + k) Hp Ha) as Hra.
  destruct m; try discriminate Hm; unfold exec, read_operand; rewrite He, Hra; reflexivity.
Qed.

Lemma exec_st_ord : forall cfg m s y k a0, split_cfg cfg -> is_st m = true ->
  layout cfg y = Some a0 -> ordinary (a0 + k) ->
  exec cfg m (OMem y k IxNone) s
  = XOk (set_mem s (mset (mem s) (a0 + k) (st_reg m s))) (cyc m (amode (a0 + k)) false) FNext.
Proof.
  intros cfg m s y k a0 Hp Hm Hl Ha.
  assert (Hr : 0 <= a0 + k < 65536) by (unfold ordinary in Ha; lia).
  pose proof (eff_addr_mem cfg m s y k a0 (is_st_memop m Hm) Hl Hr) as He.
  pose proof (wr_ord cfg (a0 + k) Hp Ha) as Hw.
  destruct m; try discriminate Hm; unfold exec, write_operand; rewrite He, Hw; reflexivity.
Qed.

(** ** indexed operands: absolute,X and absolute,Y *)

Definition ixval (ix : index) (s : mstate) : Z :=
  match ix with IxNone => 0 | IxX => rX s | IxY => rY s end.
Definition absmode (ix : index) : mode :=
  match ix with IxNone => Abs | IxX => AbsX | IxY => AbsY end.
(** the instructions of the templates that take an index: all have abs,X and abs,Y forms *)
Definition is_acc_rd (m : mnem) : bool :=
  match m with LDA | ADC | SBC | EOR | AND | ORA | CMP => true | _ => false end.
Definition crossed (base i : Z) : bool := negb ((base + i) / 256 =? base / 256).

Lemma is_acc_rd_rd : forall m, is_acc_rd m = true -> is_rd m = true.
Proof. intros m H. destruct m; try discriminate H; reflexivity. Qed.

Lemma eff_addr_abs : forall cfg m s y k ix a0, (is_acc_rd m = true \/ m = STA) ->
  layout cfg y = Some a0 -> 256 <= a0 + k -> 0 <= ixval ix s -> a0 + k + ixval ix s < 65536 ->
  eff_addr cfg m s (OMem y k ix)
  = Some (a0 + k + ixval ix s, absmode ix, crossed (a0 + k) (ixval ix s)).
Proof.
  intros cfg m s y k ix a0 Hm Hl Hb Hi Hr. unfold eff_addr. rewrite Hl.
  replace (a0 + k <? 256) with false by (symmetry; apply Z.ltb_ge; lia).
  assert (Hres : resolve m (shape_of (OMem y k ix)) false = Some (absmode ix)).
  { destruct Hm as [Hm|Hm]; [destruct m; try discriminate Hm|subst m]; destruct ix; reflexivity. }
  rewrite Hres. unfold crossed.
  destruct ix; cbn [absmode ixval] in *; rewrite Z.mod_small by lia; reflexivity.
Qed.

Lemma exec_rd_split_ix : forall cfg m s y j ix a0, split_cfg cfg -> is_acc_rd m = true ->
  layout cfg y = Some a0 -> in_wport (a0 + j) -> 0 <= ixval ix s ->
  in_wport (a0 + j + ixval ix s) ->
  exec cfg m (OMem y (128 + j) ix) s
  = XOk (rd_sem m s (mget (mem s) (a0 + j + ixval ix s)))
        (cyc m (absmode ix) (crossed (a0 + (128 + j)) (ixval ix s))) FNext.
Proof.
  intros cfg m s y j ix a0 Hp Hm Hl Hb Hi Ha. unfold in_wport in Hb, Ha.
  assert (He : eff_addr cfg m s (OMem y (128 + j) ix)
               = Some (a0 + (128 + j) + ixval ix s, absmode ix, crossed (a0 + (128 + j)) (ixval ix s))).
  { apply eff_addr_abs; [left; exact Hm|exact Hl|lia|exact Hi|lia]. }
  assert (Hra : read_addr (ports cfg) (a0 + (128 + j) + ixval ix s) = Some (a0 + j + ixval ix s)).
  { replace (a0 + (128 + j) + ixval ix s) with (a0 + j + ixval ix s + 128) by lia.
    apply rd_port; [exact Hp|exact Ha]. }
  destruct m; try discriminate Hm; unfold exec, read_operand; rewrite He, Hra; reflexivity.
Qed.

Lemma exec_sta_split_ix : forall cfg s y k ix a0, split_cfg cfg ->
  layout cfg y = Some a0 -> in_wport (a0 + k) -> 0 <= ixval ix s ->
  in_wport (a0 + k + ixval ix s) ->
  exec cfg STA (OMem y k ix) s
  = XOk (set_mem s (mset (mem s) (a0 + k + ixval ix s) (rA s)))
        (cyc STA (absmode ix) (crossed (a0 + k) (ixval ix s))) FNext.
Proof.
  intros cfg s y k ix a0 Hp Hl Hb Hi Ha. unfold in_wport in Hb.
  assert (He : eff_addr cfg STA s (OMem y k ix)
               = Some (a0 + k + ixval ix s, absmode ix, crossed (a0 + k) (ixval ix s))).
  { apply eff_addr_abs; [right; reflexivity|exact Hl|lia|exact Hi|unfold in_wport in Ha; lia]. }
  pose proof (wr_port cfg _ Hp Ha) as Hw.
  unfold exec, write_operand; rewrite He, Hw; reflexivity.
Qed.

(** the value of a split-port variable is its physical cell: that is what a load through the
    read port puts into A, and what a store through the write port sets *)
Corollary split_read_is_cell : forall cfg s v pv, split_cfg cfg -> layout cfg v = Some pv ->
  in_wport pv ->
  exists c, exec cfg LDA (OMem v 128 IxNone) s
            = XOk (set_nz (set_a s (mget (mem s) pv)) (mget (mem s) pv)) c FNext.
Proof.
  intros cfg s v pv Hp Hl Ha.
  pose proof (exec_rd_split cfg LDA s v 0 pv Hp eq_refl Hl) as H.
  rewrite (Z.add_0_r pv) in H. eexists. apply H. exact Ha.
Qed.

Corollary split_write_sets_cell : forall cfg s v pv, split_cfg cfg -> layout cfg v = Some pv ->
  in_wport pv ->
  exists c, exec cfg STA (OMem v 0 IxNone) s = XOk (set_mem s (mset (mem s) pv (rA s))) c FNext.
Proof.
  intros cfg s v pv Hp Hl Ha.
  pose proof (exec_st_split cfg STA s v 0 pv Hp eq_refl Hl) as H.
  rewrite (Z.add_0_r pv) in H. eexists. apply H. exact Ha.
Qed.

(** * Tactics *)

Ltac sparse_tac :=
  first [ apply parse_empty
        | apply parse_imm_num; [reflexivity|lia]
        | apply parse_sym; [assumption|reflexivity|lia]
        | apply parse_sym_idx; [assumption|reflexivity|lia]
        | apply parse_name; [assumption|reflexivity] ].

Ltac sslines_tac :=
  repeat first [ apply slines_nil | eapply slines_ins; [sparse_tac|] ].

Ltac side_tac :=
  unfold in_wport, ordinary in *;
  cbn [ixval ix_of rA rX rY rS mem set_nz set_a set_x set_y set_c set_v set_mem
       rd_sem st_reg rmw_acc_sem adc sbc];
  lia.

Ltac sxstep :=
  first
  [ rewrite xf_nil
  | erewrite xf_next by (first
      [ apply exec_clc | apply exec_sec
      | apply exec_rd_imm; reflexivity
      | apply exec_rmw_acc; reflexivity
      | apply (exec_rd_split _ _ _ _ 0); [assumption|reflexivity|eassumption|side_tac]
      | apply (exec_rd_split _ _ _ _ 1); [assumption|reflexivity|eassumption|side_tac]
      | apply exec_rd_split; [assumption|reflexivity|eassumption|side_tac]
      | apply exec_st_split; [assumption|reflexivity|eassumption|side_tac]
      | apply exec_rd_ord; [assumption|reflexivity|eassumption|side_tac]
      | apply exec_st_ord; [assumption|reflexivity|eassumption|side_tac]
      | apply (exec_rd_split_ix _ _ _ _ 0);
          [assumption|reflexivity|eassumption|side_tac|side_tac|side_tac]
      | apply exec_sta_split_ix; [assumption|eassumption|side_tac|side_tac|side_tac] ]) ].

Ltac srun_tac :=
  eapply runs_to_intro with (n := 20%nat);
  [ cbn [stemplate lcs app wlo whi rlo rhi]; sslines_tac
  | cbn [fwd_ok targets In]; tauto
  | repeat sxstep; reflexivity ].

Ltac spost_tac :=
  unfold in_wport, ordinary in *;
  unfold only_changes, keeps_xys, word; state_simp; cbn [ixval ix_of]; state_simp;
  change (byte 0) with 0; change (byte 1) with 1; rewrite ?Z.add_0_r, ?Z.sub_0_r.

(** * 8-bit templates *)

(** [c = a]: store an ordinary variable into split-port RAM *)
Theorem split_copy_in_correct : forall cfg dst x pd px st,
  split_cfg cfg -> split_name dst -> split_name x ->
  layout cfg dst = Some pd -> layout cfg x = Some px ->
  in_wport pd -> ordinary px ->
  exists st', runs_to cfg (stemplate (PCopyIn dst x)) st st' /\
    mget (mem st') pd = mget (mem st) px /\
    only_changes [pd] st st' /\ keeps_xys st st'.
Proof.
  intros cfg dst x pd px st Hp Vd Vx Ld Lx Rd Rx.
  eexists. split; [srun_tac|]. spost_tac.
  split; [mem_simp; reflexivity|frame_tac].
Qed.
Print Assumptions split_copy_in_correct.

Theorem split_inc8_correct : forall cfg v pv st,
  split_cfg cfg -> split_name v -> layout cfg v = Some pv -> in_wport pv ->
  exists st', runs_to cfg (stemplate (PInc8 v)) st st' /\
    mget (mem st') pv = (mget (mem st) pv + 1) mod 256 /\
    only_changes [pv] st st' /\ keeps_xys st st'.
Proof.
  intros cfg v pv st Hp Vv Lv Rv.
  eexists. split; [srun_tac|]. spost_tac.
  split; [mem_simp; reflexivity|frame_tac].
Qed.
Print Assumptions split_inc8_correct.

(** [a = c]: load a split-port variable into an ordinary one *)
Theorem split_copy_out_correct : forall cfg dst x pd px st,
  split_cfg cfg -> split_name dst -> split_name x ->
  layout cfg dst = Some pd -> layout cfg x = Some px ->
  ordinary pd -> in_wport px ->
  exists st', runs_to cfg (stemplate (PCopyOut dst x)) st st' /\
    mget (mem st') pd = mget (mem st) px /\
    only_changes [pd] st st' /\ keeps_xys st st'.
Proof.
  intros cfg dst x pd px st Hp Vd Vx Ld Lx Rd Rx.
  eexists. split; [srun_tac|]. spost_tac.
  split; [mem_simp; reflexivity|frame_tac].
Qed.
Print Assumptions split_copy_out_correct.

(** [c = d]: both in split-port RAM *)
Theorem split_copy_correct : forall cfg dst x pd px st,
  split_cfg cfg -> split_name dst -> split_name x ->
  layout cfg dst = Some pd -> layout cfg x = Some px ->
  in_wport pd -> in_wport px ->
  exists st', runs_to cfg (stemplate (PCopy dst x)) st st' /\
    mget (mem st') pd = mget (mem st) px /\
    only_changes [pd] st st' /\ keeps_xys st st'.
Proof.
  intros cfg dst x pd px st Hp Vd Vx Ld Lx Rd Rx.
  eexists. split; [srun_tac|]. spost_tac.
  split; [mem_simp; reflexivity|frame_tac].
Qed.
Print Assumptions split_copy_correct.

Theorem split_dec8_correct : forall cfg v pv st,
  split_cfg cfg -> split_name v -> layout cfg v = Some pv -> in_wport pv ->
  exists st', runs_to cfg (stemplate (PDec8 v)) st st' /\
    mget (mem st') pv = (mget (mem st) pv - 1) mod 256 /\
    only_changes [pv] st st' /\ keeps_xys st st'.
Proof.
  intros cfg v pv st Hp Vv Lv Rv.
  eexists. split; [srun_tac|]. spost_tac.
  split; [mem_simp; reflexivity|frame_tac].
Qed.
Print Assumptions split_dec8_correct.

(** [c += a], [a] an ordinary variable *)
Theorem split_addassign8_correct : forall cfg v x pv px st,
  split_cfg cfg -> split_name v -> split_name x ->
  layout cfg v = Some pv -> layout cfg x = Some px ->
  in_wport pv -> ordinary px ->
  exists st', runs_to cfg (stemplate (PAddAssign8 v x)) st st' /\
    mget (mem st') pv = (mget (mem st) pv + mget (mem st) px) mod 256 /\
    only_changes [pv] st st' /\ keeps_xys st st'.
Proof.
  intros cfg v x pv px st Hp Vv Vx Lv Lx Rv Rx.
  eexists. split; [srun_tac|]. spost_tac.
  split; [mem_simp; reflexivity|frame_tac].
Qed.
Print Assumptions split_addassign8_correct.

Theorem split_shl8_1_correct : forall cfg v pv st,
  split_cfg cfg -> split_name v -> layout cfg v = Some pv -> in_wport pv ->
  exists st', runs_to cfg (stemplate (PShl8_1 v)) st st' /\
    mget (mem st') pv = (2 * mget (mem st) pv) mod 256 /\
    only_changes [pv] st st' /\ keeps_xys st st'.
Proof.
  intros cfg v pv st Hp Vv Lv Rv.
  eexists. split; [srun_tac|]. spost_tac.
  split; [mem_simp; reflexivity|frame_tac].
Qed.
Print Assumptions split_shl8_1_correct.

Theorem split_shr8_1_correct : forall cfg v pv st,
  split_cfg cfg -> split_name v -> layout cfg v = Some pv -> in_wport pv ->
  exists st', runs_to cfg (stemplate (PShr8_1 v)) st st' /\
    mget (mem st') pv = mget (mem st) pv / 2 /\
    only_changes [pv] st st' /\ keeps_xys st st'.
Proof.
  intros cfg v pv st Hp Vv Lv Rv.
  eexists. split; [srun_tac|]. spost_tac.
  split; [mem_simp; reflexivity|frame_tac].
Qed.
Print Assumptions split_shr8_1_correct.

(** [c = c + d]: all operands in split-port RAM ([dst = x] and [dst = y] are allowed) *)
Theorem split_add8_correct : forall cfg dst x y pd px py st,
  split_cfg cfg -> split_name dst -> split_name x -> split_name y ->
  layout cfg dst = Some pd -> layout cfg x = Some px -> layout cfg y = Some py ->
  in_wport pd -> in_wport px -> in_wport py ->
  exists st', runs_to cfg (stemplate (PAdd8 dst x y)) st st' /\
    mget (mem st') pd = (mget (mem st) px + mget (mem st) py) mod 256 /\
    only_changes [pd] st st' /\ keeps_xys st st'.
Proof.
  intros cfg dst x y pd px py st Hp Vd Vx Vy Ld Lx Ly Rd Rx Ry.
  eexists. split; [srun_tac|]. spost_tac.
  split; [mem_simp; reflexivity|frame_tac].
Qed.
Print Assumptions split_add8_correct.

(** [c = -c] *)
Theorem split_neg8_correct : forall cfg dst x pd px st,
  split_cfg cfg -> split_name dst -> split_name x ->
  layout cfg dst = Some pd -> layout cfg x = Some px ->
  in_wport pd -> in_wport px ->
  exists st', runs_to cfg (stemplate (PNeg8 dst x)) st st' /\
    mget (mem st') pd = (256 - mget (mem st) px) mod 256 /\
    only_changes [pd] st st' /\ keeps_xys st st'.
Proof.
  intros cfg dst x pd px st Hp Vd Vx Ld Lx Rd Rx.
  eexists. split; [srun_tac|]. spost_tac.
  split; [mem_simp; arith_tac|frame_tac].
Qed.
Print Assumptions split_neg8_correct.

(** [c ^= a], [a] an ordinary variable *)
Theorem split_xorassign8_correct : forall cfg v x pv px st,
  split_cfg cfg -> split_name v -> split_name x ->
  layout cfg v = Some pv -> layout cfg x = Some px ->
  in_wport pv -> ordinary px ->
  exists st', runs_to cfg (stemplate (PXorAssign8 v x)) st st' /\
    mget (mem st') pv = Z.lxor (mget (mem st) pv) (mget (mem st) px) /\
    only_changes [pv] st st' /\ keeps_xys st st'.
Proof.
  intros cfg v x pv px st Hp Vv Vx Lv Lx Rv Rx.
  eexists. split; [srun_tac|]. spost_tac.
  split; [mem_simp; reflexivity|frame_tac].
Qed.
Print Assumptions split_xorassign8_correct.

(** * 16-bit templates: the carry goes through A and the C flag from the low to the high byte *)

Ltac sfin_tac :=
  mem_simp;
  repeat match goal with |- _ /\ _ => split end;
  try reflexivity;
  try (let a := fresh "a" in let Ha := fresh "Ha" in let Hn := fresh "Hn" in
       intros a Ha Hn; cbn [In] in Hn; mem_simp; reflexivity).

(** [s += k] *)
Theorem split_addconst16_correct : forall cfg v k pv st,
  split_cfg cfg -> split_name v -> layout cfg v = Some pv ->
  in_wport pv -> in_wport (pv + 1) -> 0 <= k < 65536 -> bytes_ok st ->
  exists st', runs_to cfg (stemplate (PAddConst16 v k)) st st' /\
    word (mem st') pv = (word (mem st) pv + k) mod 65536 /\
    only_changes [pv; pv + 1] st st' /\ keeps_xys st st'.
Proof.
  intros cfg v k pv st Hp Vv Lv Rv Rv' Rk (HA & HX & HY & HS & HM).
  eexists. split; [srun_tac|]. spost_tac. sfin_tac.
  mem_ranges HM. arith_tac.
Qed.
Print Assumptions split_addconst16_correct.

(** [s++] (and [p++]): the little-endian pair is incremented mod 65536 *)
Theorem split_inc16_correct : forall cfg v pv st,
  split_cfg cfg -> split_name v -> layout cfg v = Some pv ->
  in_wport pv -> in_wport (pv + 1) -> bytes_ok st ->
  exists st', runs_to cfg (stemplate (PInc16 v)) st st' /\
    word (mem st') pv = (word (mem st) pv + 1) mod 65536 /\
    only_changes [pv; pv + 1] st st' /\ keeps_xys st st'.
Proof.
  intros cfg v pv st Hp Vv Lv Rv Rv' Hb. rewrite stemplate_inc16.
  apply split_addconst16_correct; try assumption. lia.
Qed.
Print Assumptions split_inc16_correct.

(** [s--] (and [p--]): the borrow *)
Theorem split_dec16_correct : forall cfg v pv st,
  split_cfg cfg -> split_name v -> layout cfg v = Some pv ->
  in_wport pv -> in_wport (pv + 1) -> bytes_ok st ->
  exists st', runs_to cfg (stemplate (PDec16 v)) st st' /\
    word (mem st') pv = (word (mem st) pv - 1) mod 65536 /\
    only_changes [pv; pv + 1] st st' /\ keeps_xys st st'.
Proof.
  intros cfg v pv st Hp Vv Lv Rv Rv' (HA & HX & HY & HS & HM).
  eexists. split; [srun_tac|]. spost_tac. sfin_tac.
  mem_ranges HM. arith_tac.
Qed.
Print Assumptions split_dec16_correct.

Theorem split_shl16_1_correct : forall cfg v pv st,
  split_cfg cfg -> split_name v -> layout cfg v = Some pv ->
  in_wport pv -> in_wport (pv + 1) -> bytes_ok st ->
  exists st', runs_to cfg (stemplate (PShl16_1 v)) st st' /\
    word (mem st') pv = (2 * word (mem st) pv) mod 65536 /\
    only_changes [pv; pv + 1] st st' /\ keeps_xys st st'.
Proof.
  intros cfg v pv st Hp Vv Lv Rv Rv' (HA & HX & HY & HS & HM).
  eexists. split; [srun_tac|]. spost_tac. sfin_tac.
  mem_ranges HM. arith_tac.
Qed.
Print Assumptions split_shl16_1_correct.

Theorem split_shr16_1_correct : forall cfg v pv st,
  split_cfg cfg -> split_name v -> layout cfg v = Some pv ->
  in_wport pv -> in_wport (pv + 1) -> bytes_ok st ->
  exists st', runs_to cfg (stemplate (PShr16_1 v)) st st' /\
    word (mem st') pv = word (mem st) pv / 2 /\
    only_changes [pv; pv + 1] st st' /\ keeps_xys st st'.
Proof.
  intros cfg v pv st Hp Vv Lv Rv Rv' (HA & HX & HY & HS & HM).
  eexists. split; [srun_tac|]. spost_tac. sfin_tac.
  mem_ranges HM. arith_tac.
Qed.
Print Assumptions split_shr16_1_correct.

(** [t = s]: the destination's low cell must not be the source's high cell *)
Theorem split_copy16_correct : forall cfg dst x pd px st,
  split_cfg cfg -> split_name dst -> split_name x ->
  layout cfg dst = Some pd -> layout cfg x = Some px ->
  in_wport pd -> in_wport (pd + 1) -> in_wport px -> in_wport (px + 1) ->
  pd <> px + 1 ->
  exists st', runs_to cfg (stemplate (PCopy16 dst x)) st st' /\
    mget (mem st') pd = mget (mem st) px /\ mget (mem st') (pd + 1) = mget (mem st) (px + 1) /\
    word (mem st') pd = word (mem st) px /\
    only_changes [pd; pd + 1] st st' /\ keeps_xys st st'.
Proof.
  intros cfg dst x pd px st Hp Vd Vx Ld Lx Rd Rd' Rx Rx' Hne.
  eexists. split; [srun_tac|]. spost_tac. sfin_tac.
Qed.
Print Assumptions split_copy16_correct.

(** * Arrays in split-port RAM, index in X or Y

    [arr] has [n] cells at [pa .. pa + n - 1], all inside the write window; the index register
    holds a value below [n].  The cell accessed is [pa + index]: read through "arr+128,R", written
    through "arr,R". *)

Definition rval (r : ireg) (s : mstate) : Z := match r with RegX => rX s | RegY => rY s end.

(** [arr[R] = a] *)
Theorem split_store_idx_correct : forall cfg arr r x pa px n st,
  split_cfg cfg -> split_name arr -> split_name x ->
  layout cfg arr = Some pa -> layout cfg x = Some px ->
  in_wport pa -> pa + n <= 4224 -> 0 <= rval r st < n -> ordinary px ->
  exists st', runs_to cfg (stemplate (PStoreIdx arr r x)) st st' /\
    mget (mem st') (pa + rval r st) = mget (mem st) px /\
    only_changes [pa + rval r st] st st' /\ keeps_xys st st'.
Proof.
  intros cfg arr r x pa px n st Hp Va Vx La Lx Ra Rn Ri Rx.
  destruct r; cbn [rval] in *.
  - eexists. split; [srun_tac|]. spost_tac.
    split; [mem_simp; reflexivity|frame_tac].
  - eexists. split; [srun_tac|]. spost_tac.
    split; [mem_simp; reflexivity|frame_tac].
Qed.
Print Assumptions split_store_idx_correct.

(** [a = arr[R]] *)
Theorem split_load_idx_correct : forall cfg dst arr r pd pa n st,
  split_cfg cfg -> split_name dst -> split_name arr ->
  layout cfg dst = Some pd -> layout cfg arr = Some pa ->
  ordinary pd -> in_wport pa -> pa + n <= 4224 -> 0 <= rval r st < n ->
  exists st', runs_to cfg (stemplate (PLoadIdx dst arr r)) st st' /\
    mget (mem st') pd = mget (mem st) (pa + rval r st) /\
    only_changes [pd] st st' /\ keeps_xys st st'.
Proof.
  intros cfg dst arr r pd pa n st Hp Vd Va Ld La Rd Ra Rn Ri.
  destruct r; cbn [rval] in *.
  - eexists. split; [srun_tac|]. spost_tac.
    split; [mem_simp; reflexivity|frame_tac].
  - eexists. split; [srun_tac|]. spost_tac.
    split; [mem_simp; reflexivity|frame_tac].
Qed.
Print Assumptions split_load_idx_correct.

(** [arr[R]++] *)
Theorem split_inc_idx_correct : forall cfg arr r pa n st,
  split_cfg cfg -> split_name arr -> layout cfg arr = Some pa ->
  in_wport pa -> pa + n <= 4224 -> 0 <= rval r st < n ->
  exists st', runs_to cfg (stemplate (PIncIdx arr r)) st st' /\
    mget (mem st') (pa + rval r st) = (mget (mem st) (pa + rval r st) + 1) mod 256 /\
    only_changes [pa + rval r st] st st' /\ keeps_xys st st'.
Proof.
  intros cfg arr r pa n st Hp Va La Ra Rn Ri.
  destruct r; cbn [rval] in *.
  - eexists. split; [srun_tac|]. spost_tac.
    split; [mem_simp; reflexivity|frame_tac].
  - eexists. split; [srun_tac|]. spost_tac.
    split; [mem_simp; reflexivity|frame_tac].
Qed.
Print Assumptions split_inc_idx_correct.

(** [arr[R]--] *)
Theorem split_dec_idx_correct : forall cfg arr r pa n st,
  split_cfg cfg -> split_name arr -> layout cfg arr = Some pa ->
  in_wport pa -> pa + n <= 4224 -> 0 <= rval r st < n ->
  exists st', runs_to cfg (stemplate (PDecIdx arr r)) st st' /\
    mget (mem st') (pa + rval r st) = (mget (mem st) (pa + rval r st) - 1) mod 256 /\
    only_changes [pa + rval r st] st st' /\ keeps_xys st st'.
Proof.
  intros cfg arr r pa n st Hp Va La Ra Rn Ri.
  destruct r; cbn [rval] in *.
  - eexists. split; [srun_tac|]. spost_tac.
    split; [mem_simp; reflexivity|frame_tac].
  - eexists. split; [srun_tac|]. spost_tac.
    split; [mem_simp; reflexivity|frame_tac].
Qed.
Print Assumptions split_dec_idx_correct.

(** [arr[R] += a] *)
Theorem split_addassign_idx_correct : forall cfg arr r x pa px n st,
  split_cfg cfg -> split_name arr -> split_name x ->
  layout cfg arr = Some pa -> layout cfg x = Some px ->
  in_wport pa -> pa + n <= 4224 -> 0 <= rval r st < n -> ordinary px ->
  exists st', runs_to cfg (stemplate (PAddAssignIdx arr r x)) st st' /\
    mget (mem st') (pa + rval r st)
    = (mget (mem st) (pa + rval r st) + mget (mem st) px) mod 256 /\
    only_changes [pa + rval r st] st st' /\ keeps_xys st st'.
Proof.
  intros cfg arr r x pa px n st Hp Va Vx La Lx Ra Rn Ri Rx.
  destruct r; cbn [rval] in *.
  - eexists. split; [srun_tac|]. spost_tac.
    split; [mem_simp; reflexivity|frame_tac].
  - eexists. split; [srun_tac|]. spost_tac.
    split; [mem_simp; reflexivity|frame_tac].
Qed.
Print Assumptions split_addassign_idx_correct.

(** [arr[i] = arr[j]], constant indices *)
Theorem split_copy_elem_correct : forall cfg arr i j pa st,
  split_cfg cfg -> split_name arr -> layout cfg arr = Some pa ->
  0 <= i -> 0 <= j -> in_wport (pa + i) -> in_wport (pa + j) ->
  exists st', runs_to cfg (stemplate (PCopyElem arr i j)) st st' /\
    mget (mem st') (pa + i) = mget (mem st) (pa + j) /\
    only_changes [pa + i] st st' /\ keeps_xys st st'.
Proof.
  intros cfg arr i j pa st Hp Va La Ri Rj Rai Raj.
  eexists. split; [srun_tac|]. spost_tac.
  split; [mem_simp; reflexivity|frame_tac].
Qed.
Print Assumptions split_copy_elem_correct.

(** * Why the templates exist: the ordinary lowering faults

    For an ordinary variable [v++] is [INC v] (Model/GenTemplates.v, [SInc8]).  On a split-port
    variable every read-modify-write instruction faults, through either port: the read cycle
    goes to the write window or the write cycle to the read window. *)

Theorem rmw_split_faults : forall cfg m v pv j s,
  split_cfg cfg -> is_rmw_m m = true -> layout cfg v = Some pv -> in_wport (pv + j) ->
  exec cfg m (OMem v j IxNone) s = XFault "read-modify-write on split-port memory" /\
  exec cfg m (OMem v (128 + j) IxNone) s = XFault "read-modify-write on split-port memory".
Proof.
  intros cfg m v pv j s Hp Hm Hl Ha.
  assert (Hr1 : 0 <= pv + j < 65536) by (unfold in_wport in Ha; lia).
  assert (Hr2 : 0 <= pv + (128 + j) < 65536) by (unfold in_wport in Ha; lia).
  pose proof (eff_addr_mem cfg m s v j pv (is_rmw_memop m Hm) Hl Hr1) as He1.
  pose proof (eff_addr_mem cfg m s v (128 + j) pv (is_rmw_memop m Hm) Hl Hr2) as He2.
  pose proof (rd_wport_faults cfg (pv + j) Hp Ha) as Hf1.
  assert (Hf2 : read_addr (ports cfg) (pv + (128 + j)) = Some (pv + j)).
  { replace (pv + (128 + j)) with (pv + j + 128) by lia. apply rd_port; assumption. }
  assert (Hf3 : write_addr (ports cfg) (pv + (128 + j)) = None).
  { replace (pv + (128 + j)) with (pv + j + 128) by lia. apply wr_rport_faults; assumption. }
  split; destruct m; try discriminate Hm; unfold exec.
  all: first [rewrite He1, Hf1; reflexivity | rewrite He2, Hf2, Hf3; reflexivity].
Qed.
Print Assumptions rmw_split_faults.

Theorem inc_split_faults : forall cfg v pv s,
  split_cfg cfg -> layout cfg v = Some pv -> in_wport pv ->
  exec cfg INC (OMem v 0 IxNone) s = XFault "read-modify-write on split-port memory".
Proof.
  intros cfg v pv s Hp Hl Ha.
  assert (Ha' : in_wport (pv + 0)) by (rewrite Z.add_0_r; exact Ha).
  exact (proj1 (rmw_split_faults cfg INC v pv 0 s Hp eq_refl Hl Ha')).
Qed.
Print Assumptions inc_split_faults.

(** on [Sem.run]: the template of [v++] for an ORDINARY variable, used on a split-port one,
    assembles but the run stops with a fault at its first (only) instruction *)
Theorem inc_split_run_faults : forall cfg v pv st prog inl_sem ext_call fname fuel,
  split_cfg cfg -> split_name v -> layout cfg v = Some pv -> in_wport pv ->
  exists sl, slines_of (template (SInc8 v)) = Some sl /\
    Sem.run cfg prog inl_sem ext_call (S fuel) fname sl 0 [] st [] 0%N
    = Faulted "read-modify-write on split-port memory" fname 0%nat st.
Proof.
  intros cfg v pv st prog inl_sem ext_call fname fuel Hp Vv Lv Rv.
  exists [SIns INC (OMem v 0 IxNone) false v]. split.
  - cbn [template]. eapply slines_ins; [apply parse_name; [exact Vv|reflexivity]|apply slines_nil].
  - rewrite run_S. cbn [nth_error]. rewrite (inc_split_faults cfg v pv st Hp Lv Rv). reflexivity.
Qed.
Print Assumptions inc_split_run_faults.

Theorem inc_split_never_runs : forall cfg v pv st,
  split_cfg cfg -> split_name v -> layout cfg v = Some pv -> in_wport pv ->
  ~ exists st', runs_to cfg (template (SInc8 v)) st st'.
Proof.
  intros cfg v pv st Hp Vv Lv Rv (st' & sl & Hs & Hrun).
  destruct (inc_split_run_faults cfg v pv st [] (fun _ _ => None) (fun _ _ => None) ""%string 1%nat
              Hp Vv Lv Rv) as (sl' & Hs' & Hf).
  rewrite Hs in Hs'. inversion Hs'; subst sl'.
  assert (Hlen : (length sl < 2)%nat).
  { cbn [template] in Hs.
    rewrite (slines_ins INC v (OMem v 0 IxNone) [] [] (parse_name INC v Vv eq_refl) slines_nil) in Hs.
    inversion Hs; subst sl. cbn [length]. lia. }
  destruct (Hrun [] (fun _ _ => None) (fun _ _ => None) ""%string 2%nat Hlen) as (tr & cy & Hh).
  rewrite Hf in Hh. discriminate Hh.
Qed.
Print Assumptions inc_split_never_runs.

(** * The instances of the listing: the hypotheses are satisfiable

    A layout as the compiler assigns it: the superchip variables from $1000 up
    (c, d, s, t, p, arr[4]), the ordinary variable [a] at $80. *)
Definition cfg_split : config :=
  mkCfg (fun y =>
    if String.eqb y "a" then Some 128 else if String.eqb y "c" then Some 4096
    else if String.eqb y "d" then Some 4097 else if String.eqb y "s" then Some 4098
    else if String.eqb y "t" then Some 4100 else if String.eqb y "p" then Some 4102
    else if String.eqb y "arr" then Some 4104 else None) [(4096, 4224, 128)].

Lemma cfg_split_split : split_cfg cfg_split.
Proof. reflexivity. Qed.

Corollary slisting_inc8 : forall st,
  exists st', runs_to cfg_split (stemplate (PInc8 "c")) st st' /\
    mget (mem st') 4096 = (mget (mem st) 4096 + 1) mod 256 /\
    only_changes [4096] st st' /\ keeps_xys st st'.
Proof.
  intros st. apply (split_inc8_correct cfg_split "c" 4096 st); try reflexivity.
  - split; [discriminate|reflexivity].
  - unfold in_wport. lia.
Qed.
Print Assumptions slisting_inc8.

Corollary slisting_inc16 : forall st, bytes_ok st ->
  exists st', runs_to cfg_split (stemplate (PInc16 "s")) st st' /\
    word (mem st') 4098 = (word (mem st) 4098 + 1) mod 65536 /\
    only_changes [4098; 4098 + 1] st st' /\ keeps_xys st st'.
Proof.
  intros st Hb. apply (split_inc16_correct cfg_split "s" 4098 st); try reflexivity; try exact Hb.
  - split; [discriminate|reflexivity].
  - unfold in_wport. lia.
  - unfold in_wport. lia.
Qed.
Print Assumptions slisting_inc16.

Corollary slisting_inc_idx : forall st, 0 <= rX st < 4 ->
  exists st', runs_to cfg_split (stemplate (PIncIdx "arr" RegX)) st st' /\
    mget (mem st') (4104 + rX st) = (mget (mem st) (4104 + rX st) + 1) mod 256 /\
    only_changes [4104 + rX st] st st' /\ keeps_xys st st'.
Proof.
  intros st Hx. apply (split_inc_idx_correct cfg_split "arr" RegX 4104 4 st); try reflexivity.
  - split; [discriminate|reflexivity].
  - unfold in_wport. lia.
  - lia.
  - exact Hx.
Qed.
Print Assumptions slisting_inc_idx.

(** plain computations with [Sem.run]: the cells of [s] (physical cells $1002, $1003), then
    X, Y, S; [None] when the run does not halt normally *)
Definition st_split (slo shi : Z) : mstate :=
  mkS 0 1 2 255 false false false false (mset (mset mem_empty 4098 slo) 4099 shi).

Definition run_split (c : code) (st : mstate) : option (Z * Z * Z * Z * Z) :=
  match slines_of c with
  | Some sl =>
      match Sem.run cfg_split [] (fun _ _ => None) (fun _ _ => None) 20 "f" sl 0 [] st [] 0%N with
      | Halt s' _ _ => Some (mget (mem s') 4098, mget (mem s') 4099, rX s', rY s', rS s')
      | _ => None
      end
  | None => None
  end.

(** 0x00FF + 1 = 0x0100: the carry reaches the high byte *)
Example run_split_inc16_carry :
  run_split (stemplate (PInc16 "s")) (st_split 255 0) = Some (0, 1, 1, 2, 255).
Proof. vm_compute. reflexivity. Qed.
Example run_split_inc16_wrap :
  run_split (stemplate (PInc16 "s")) (st_split 255 255) = Some (0, 0, 1, 2, 255).
Proof. vm_compute. reflexivity. Qed.
Example run_split_dec16_borrow :
  run_split (stemplate (PDec16 "s")) (st_split 0 1) = Some (255, 0, 1, 2, 255).
Proof. vm_compute. reflexivity. Qed.
Example run_split_addconst16 :
  run_split (stemplate (PAddConst16 "s" 300)) (st_split 212 0) = Some (0, 2, 1, 2, 255).
Proof. vm_compute. reflexivity. Qed.
Example run_split_shr16 :
  run_split (stemplate (PShr16_1 "s")) (st_split 1 1) = Some (128, 0, 1, 2, 255).
Proof. vm_compute. reflexivity. Qed.
(** the templates of ORDINARY variables do not run on [s]: [INC s] / [ASL s] fault *)
Example run_split_ordinary_inc16_faults :
  run_split (template (SInc16 "s" ".ifend1")) (st_split 255 0) = None.
Proof. vm_compute. reflexivity. Qed.
Example run_split_ordinary_shl16_faults :
  run_split (template (SShl16_1 "s")) (st_split 255 0) = None.
Proof. vm_compute. reflexivity. Qed.
