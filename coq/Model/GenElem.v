(** ELEMENTS of arrays of 16-bit objects as the code generator emits them at -O0 (after the repair
    of [sarr[2]++] / [pa[1] += 1], which updated the low byte only), for the declarations
      [short sarr[4]; unsigned char *pa[2]; unsigned char a;]

    An array of [n] 16-bit objects at [base] is laid out as [n] LOW bytes followed by [n] HIGH
    bytes: element [k] is the pair of cells [base+k] (low) and [base+n+k] (high).  The operand
    texts are symbol+offset ([sym] of Model/GenSplit.v: "pa" for offset 0, "sarr+6").

    [elem_inc], [elem_dec]     [e++;] / [e--;]: the [INC / BNE / INC] and [LDA / BNE / DEC / DEC]
                               idioms of [SInc16] / [SDec16] (Model/GenTemplates.v) on the two cells
    [elem_add_const], [elem_sub_const]   [e += c;] / [e -= c;]: low byte, then high byte with the
                               carry / borrow
    [elem_store_const]         [e = c;]
    [elem_hi_load]             [dst = e >> 8;]
    [elem_inc_x]               [base[X]++;]: the same idiom, X-indexed: [INC base,X / BNE / INC base+n,X]

    The [Example]s pin the templates to the listing, line for line. *)
From Coq Require Import String Ascii List Bool NArith ZArith.
From CC Require Import Base.Str Asm.Lines Model.GenTemplates Model.GenSplit.
Import ListNotations.
Open Scope string_scope.
Open Scope list_scope.
Open Scope Z_scope.

(** the two cells of element [k] of an array of [n] 16-bit objects *)
Definition elem_lo (base : string) (k : Z) : string := sym base k.
Definition elem_hi (base : string) (n k : Z) : string := sym base (n + k).

(** the idioms on two arbitrary operands *)
Definition inc2 (lo hi lbl : string) : code := [ins INC lo; ins BNE lbl; ins INC hi; Lbl lbl].
Definition dec2 (lo hi lbl : string) : code :=
  [ins LDA lo; ins BNE lbl; ins DEC hi; Lbl lbl; ins DEC lo].
Definition addc2 (lo hi : string) (c : Z) : code :=
  [ins LDA lo; ins CLC ""; ins ADC (imm (c mod 256)); ins STA lo;
   ins LDA hi; ins ADC (imm (c / 256)); ins STA hi].
Definition subc2 (lo hi : string) (c : Z) : code :=
  [ins LDA lo; ins SEC ""; ins SBC (imm (c mod 256)); ins STA lo;
   ins LDA hi; ins SBC (imm (c / 256)); ins STA hi].

Definition elem_inc (base : string) (n k : Z) (lbl : string) : code :=
  inc2 (elem_lo base k) (elem_hi base n k) lbl.
Definition elem_dec (base : string) (n k : Z) (lbl : string) : code :=
  dec2 (elem_lo base k) (elem_hi base n k) lbl.
Definition elem_add_const (base : string) (n k c : Z) : code :=
  addc2 (elem_lo base k) (elem_hi base n k) c.
Definition elem_sub_const (base : string) (n k c : Z) : code :=
  subc2 (elem_lo base k) (elem_hi base n k) c.
Definition elem_store_const (base : string) (n k c : Z) : code :=
  [ins LDA (imm (c mod 256)); ins STA (elem_lo base k);
   ins LDA (imm (c / 256)); ins STA (elem_hi base n k)].
Definition elem_hi_load (dst base : string) (n k : Z) : code :=
  [ins LDA (elem_hi base n k); ins STA dst].
Definition elem_inc_x (base : string) (n : Z) (lbl : string) : code :=
  inc2 (idx (sym base 0) RegX) (idx (sym base n) RegX) lbl.

(** * The 11 listings *)
(** sarr[2]++; *)
Example elisting_01 : map show (elem_inc "sarr" 4 2 ".ifend1") =
  ["INC sarr+2"; "BNE .ifend1"; "INC sarr+6"; ".ifend1:"].
Proof. vm_compute. reflexivity. Qed.

(** sarr[1]--; *)
Example elisting_02 : map show (elem_dec "sarr" 4 1 ".ifend1") =
  ["LDA sarr+1"; "BNE .ifend1"; "DEC sarr+5"; ".ifend1:"; "DEC sarr+1"].
Proof. vm_compute. reflexivity. Qed.

(** pa[1]++; *)
Example elisting_03 : map show (elem_inc "pa" 2 1 ".ifend1") =
  ["INC pa+1"; "BNE .ifend1"; "INC pa+3"; ".ifend1:"].
Proof. vm_compute. reflexivity. Qed.

(** pa[0]--; *)
Example elisting_04 : map show (elem_dec "pa" 2 0 ".ifend1") =
  ["LDA pa"; "BNE .ifend1"; "DEC pa+2"; ".ifend1:"; "DEC pa"].
Proof. vm_compute. reflexivity. Qed.

(** sarr[2] += 1; *)
Example elisting_05 : map show (elem_add_const "sarr" 4 2 1) =
  ["LDA sarr+2"; "CLC "; "ADC #1"; "STA sarr+2"; "LDA sarr+6"; "ADC #0"; "STA sarr+6"].
Proof. vm_compute. reflexivity. Qed.

(** sarr[1] += 300; *)
Example elisting_06 : map show (elem_add_const "sarr" 4 1 300) =
  ["LDA sarr+1"; "CLC "; "ADC #44"; "STA sarr+1"; "LDA sarr+5"; "ADC #1"; "STA sarr+5"].
Proof. vm_compute. reflexivity. Qed.

(** pa[1] += 1; *)
Example elisting_07 : map show (elem_add_const "pa" 2 1 1) =
  ["LDA pa+1"; "CLC "; "ADC #1"; "STA pa+1"; "LDA pa+3"; "ADC #0"; "STA pa+3"].
Proof. vm_compute. reflexivity. Qed.

(** pa[0] -= 300; *)
Example elisting_08 : map show (elem_sub_const "pa" 2 0 300) =
  ["LDA pa"; "SEC "; "SBC #44"; "STA pa"; "LDA pa+2"; "SBC #1"; "STA pa+2"].
Proof. vm_compute. reflexivity. Qed.

(** sarr[X]++; *)
Example elisting_09 : map show (elem_inc_x "sarr" 4 ".ifend1") =
  ["INC sarr,X"; "BNE .ifend1"; "INC sarr+4,X"; ".ifend1:"].
Proof. vm_compute. reflexivity. Qed.

(** sarr[3] = 1000; *)
Example elisting_10 : map show (elem_store_const "sarr" 4 3 1000) =
  ["LDA #232"; "STA sarr+3"; "LDA #3"; "STA sarr+7"].
Proof. vm_compute. reflexivity. Qed.

(** a = sarr[2] >> 8; *)
Example elisting_11 : map show (elem_hi_load "a" "sarr" 4 2) =
  ["LDA sarr+6"; "STA a"].
Proof. vm_compute. reflexivity. Qed.
