(** Model of [generate_csleep_statement] (src/generate/generate_statements.rs): the instruction
    list selected for csleep(n), with the protection bit of each instruction.  [None] = the
    "Unsupported cycle sleep value" error.  (atari2600 configuration: DUMMY is the TIA address $2d) *)
From Coq Require Import String List Bool NArith ZArith.
From CC Require Import Asm.Lines.
Import ListNotations.
Open Scope string_scope.

Definition nop_p : instr := mkI NOP "" 2 None 1 true.
Definition pha_p : instr := mkI PHA "" 3 None 1 true.
Definition pla_p : instr := mkI PLA "" 3 None 1 true.
(** [asm(STA|DEC, Absolute("DUMMY", true, 0))]: zero-page operand; protected since the repair *)
Definition sta_dummy (prot : bool) : instr := mkI STA "DUMMY" 3 None 2 prot.
Definition dec_dummy (prot : bool) : instr := mkI DEC "DUMMY" 5 None 2 prot.

(** [prot] = protection bit of the STA/DEC DUMMY instructions as the code emits them *)
Definition csleep_table (prot : bool) (n : Z) : option (list instr) :=
  match n with
  | 2%Z => Some [nop_p]
  | 3%Z => Some [sta_dummy prot]
  | 4%Z => Some [nop_p; nop_p]
  | 5%Z => Some [dec_dummy prot]
  | 6%Z => Some [nop_p; nop_p; nop_p]
  | 7%Z => Some [pha_p; pla_p]
  | 8%Z => Some [nop_p; nop_p; nop_p; nop_p]
  | 9%Z => Some [dec_dummy prot; nop_p; nop_p]
  | 10%Z => Some [dec_dummy prot; dec_dummy prot]
  | _ => None
  end.

(** the code as currently emitted (after the repair that protects STA/DEC DUMMY) *)
Definition csleep_code (n : Z) : option (list instr) := csleep_table true n.
