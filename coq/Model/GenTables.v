(** The decision tables of the generator's comparison lowering
    (src/generate/generate_conditions.rs): [generate_branch_instruction] and
    [generate_branch_instruction_alt] (branch sequences after a CMP / after a load), the negation
    and operand-swap tables of [generate_condition_ex]. *)
From Coq Require Import String List Bool NArith ZArith.
From CC Require Import Base.Str Asm.Lines M6502.Isa Asm.Operand M6502.Sem Model.CheckBranches Model.CbSpec.
Import ListNotations.
Open Scope string_scope.

Inductive relop := REq | RNeq | RLt | RGt | RLte | RGte.

Definition negate_op (o : relop) : relop :=
  match o with REq => RNeq | RNeq => REq | RLt => RGte | RGte => RLt | RGt => RLte | RLte => RGt end.

(** operands exchanged: a o b  <->  b (switch o) a *)
Definition switch_op (o : relop) : relop :=
  match o with REq => REq | RNeq => RNeq | RLt => RGt | RGt => RLt | RLte => RGte | RGte => RLte end.

Definition br (m : mnem) (l : string) (prot : bool) : line := Ins (mkI m l 2 (Some 3%N) 2 prot).

(** [generate_branch_instruction op signed label]: emitted after CMP; [here] is the fresh
    ".ifhereN" label of the Gt case *)
Definition branch_seq (o : relop) (signed : bool) (label here : string) : list line :=
  match o with
  | RNeq => [br BNE label false]
  | REq => [br BEQ label false]
  | RLt => [br (if signed then BMI else BCC) label false]
  | RGt => [br BEQ here true; br (if signed then BPL else BCS) label false; Lbl here]
  | RLte => [br (if signed then BMI else BCC) label false; br BEQ label false]
  | RGte => [br (if signed then BPL else BCS) label false]
  end.

(** [generate_branch_instruction_alt]: comparison with the constant 0 without CMP (only N and Z
    are meaningful, set by the load of the left operand) *)
Definition branch_seq_alt (o : relop) (signed : bool) (label here : string) : list line :=
  match o with
  | RNeq => [br BNE label false]
  | REq => [br BEQ label false]
  | RLt => [br BMI label false]
  | RGt => br BEQ here false :: (if signed then [br BPL label false] else []) ++ [Lbl here]
  | RLte => (if signed then [br BMI label false] else []) ++ [br BEQ label false]
  | RGte => [br BPL label false]
  end.

(** meaning of the relations on integers *)
Definition rel_holds (o : relop) (a b : Z) : bool :=
  match o with
  | REq => (a =? b)%Z | RNeq => negb (a =? b)%Z
  | RLt => (a <? b)%Z | RGt => (b <? a)%Z | RLte => (a <=? b)%Z | RGte => (b <=? a)%Z
  end.

(** a byte read as a signed value *)
Definition sgn (v : Z) : Z := if (v <? 128)%Z then v else (v - 256)%Z.
