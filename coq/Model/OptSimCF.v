(** Specification-side definitions for the GLOBAL simulation theorem of the peephole optimiser on
    code WITH labels, conditional branches and JMP (one function body; no JSR/RTS/RTI, no stack
    operation, no inline assembly) (C02): an executor of line lists that follows any branch, the
    syntactic side condition, the check that the known-compare rule does not fire, and the
    invariant of the zipper walk.  Proofs in Proofs/OptSimCFFacts.v. *)
From Coq Require Import String Ascii List Bool NArith ZArith.
From CC Require Import Base.Str Asm.Lines M6502.Isa Asm.Operand M6502.Sem
     Model.Optimize Model.OptSpec Model.OptSem Model.OptSim.
Import ListNotations.
Open Scope Z_scope.

(** * Execution of a line list, following branches *)

(** position of the first definition of label [l] *)
Fixpoint find_lbl (l : string) (c : code) : option nat :=
  match c with
  | [] => None
  | Lbl x :: r => if String.eqb x l then Some O else option_map S (find_lbl l r)
  | _ :: r => option_map S (find_lbl l r)
  end.

(** [n] steps from line [pc] (a label, a comment, a removed line count for one step each, as in
    [Sem.run]); [None]: an instruction does not parse, faults, is a call or a return, a branch
    target is undefined, an inline-assembly line is met, or [pc] is past the end *)
Fixpoint crun (cfg : config) (c : code) (n : nat) (pc : nat) (s : mstate) : option (nat * mstate) :=
  match n with
  | O => Some (pc, s)
  | S n' =>
      match nth_error c pc with
      | Some (Lbl _) | Some (Cmt _) | Some Dummy => crun cfg c n' (S pc) s
      | Some (Ins i) =>
          match parse_operand (i_mn i) (i_op i) with
          | Some op =>
              match exec cfg (i_mn i) op s with
              | XOk s' _ FNext => crun cfg c n' (S pc) s'
              | XOk s' _ (FGoto l) =>
                  match find_lbl l c with
                  | Some k => crun cfg c n' k s'
                  | None => None
                  end
              | _ => None
              end
          | None => None
          end
      | _ => None
      end
  end.

(** the code, started at its first line in state [s], falls off its end in state [s'] *)
Definition halts (cfg : config) (c : code) (s s' : mstate) : Prop :=
  exists n, crun cfg c n 0 s = Some (length c, s').

(** * The side condition: a boolean scan of the code *)

(** mnemonics: the straight-line ones, the six conditional branches, JMP *)
Definition cf_mnem (m : mnem) : bool := plain m || is_cond_branch m || mnem_eqb m JMP.

(** a load must be executable (its symbol is laid out, its addressing mode exists); whether it
    is does not depend on the state, so one probe decides *)
Definition probe : mstate := mkS 0 0 0 255 false false false false mem_empty.

Definition load_wf (cfg : config) (i : instr) : bool :=
  if is_load (i_mn i) then
    match parse_operand (i_mn i) (i_op i) with
    | Some op => match exec cfg (i_mn i) op probe with XOk _ _ _ => true | XFault _ => false end
    | None => false
    end
  else true.

Definition cf_ins_ok (cfg : config) (i : instr) : bool :=
  cf_mnem (i_mn i) && (if takes_label (i_mn i) then true else ins_ok cfg i) && load_wf cfg i.

Definition cf_line_ok (cfg : config) (l : line) : bool :=
  match l with
  | Ins i => cf_ins_ok cfg i
  | Lbl _ | Cmt _ | Dummy => true
  | Inl _ _ => false
  end.

Definition cf_ok (cfg : config) (c : code) : bool := forallb (cf_line_ok cfg) c.

(** the label names, in order; they must be pairwise different (the removal of a JMP to the label
    that follows it relies on it: a branch goes to the FIRST definition) *)
Fixpoint lbls (c : code) : list string :=
  match c with
  | [] => []
  | Lbl l :: r => l :: lbls r
  | _ :: r => lbls r
  end.

(** * The known-compare rule (remove_both) does not fire

    "CMP #n; BNE l" is removed when the register is known to hold "#n": the branch is not taken,
    but the compare also sets N, Z and C, which the removal leaves as they were
    ([Proofs/OptSimCFFacts.cmp_rule_changes_c]).  The check below runs the optimiser and reports
    whether the rule ever fires. *)
Definition rb_here (z : zst) : bool :=
  match step_jmp z with
  | Done _ _ => false
  | Next z1 =>
      match step_second (z_pre z1) (z_f z1) (z_mid z1) (z_rest z1) (z_k z1) (z_removed z1) with
      | Done _ _ => false
      | Next z2 =>
          match z_rest z2 with
          | Ins i2 :: _ => fst (fst (fst (pair_rules (z_k z2) (z_f z2) i2)))
          | _ => false
          end
      end
  end.

Fixpoint run_rb_free (fuel : nat) (z : zst) : bool :=
  match fuel with
  | O => true
  | S f => negb (rb_here z) && match step z with Done _ _ => true | Next z' => run_rb_free f z' end
  end.

Definition rb_free (c : code) : bool :=
  match skip_to_ins [] c with
  | None => true
  | Some (pre, i, r) => run_rb_free (optimize_fuel c) (mkZ pre i [] r (analyse_load AlStart k_init i) 0%N)
  end.

(** * Blocks: label-free stretches of code *)

Inductive bres :=
| BFall (s : mstate)                 (* fell off the end of the block *)
| BJump (l : string) (s : mstate).   (* left it by a taken branch or a JMP to [l] *)

Fixpoint bexec (cfg : config) (w : code) (s : mstate) : option bres :=
  match w with
  | [] => Some (BFall s)
  | Ins i :: r =>
      match parse_operand (i_mn i) (i_op i) with
      | Some op =>
          match exec cfg (i_mn i) op s with
          | XOk s' _ FNext => bexec cfg r s'
          | XOk s' _ (FGoto l) => Some (BJump l s')
          | _ => None
          end
      | None => None
      end
  | Cmt _ :: r | Dummy :: r => bexec cfg r s
  | _ => None
  end.

Definition bfall (cfg : config) (w : code) (s : mstate) : option mstate :=
  match bexec cfg w s with Some (BFall s') => Some s' | _ => None end.

(** the lines of a reversed prefix that follow its last label, in program order *)
Fixpoint blk (pre : list line) : list line :=
  match pre with
  | [] => []
  | Lbl _ :: _ => []
  | x :: r => blk r ++ [x]
  end.

(** * The invariant of the walk

    As in the straight-line case the walk is a sequence of rewritings of the whole code.
    [c0] is the original code.  (i) Whenever [c0] halts, the code [z_code z] halts in an equal
    state.  (ii) The knowledge is sound after [z_f] for EVERY state in which the block that ends
    with [z_f] can be entered: knowledge is reset at labels, so what is known after [z_f] only
    depends on the lines since the last label, executed without a taken branch. *)
Definition k_none : know := mkK None None None FUnknown.

Definition cf_equiv (cfg : config) (c c' : code) : Prop :=
  forall s s', bytes_ok s -> halts cfg c s s' -> exists s'', halts cfg c' s s'' /\ eq_state s'' s'.

(** [lev = true]: only the register part of the knowledge is claimed (just after the swap) *)
Definition KInv (cfg : config) (lev : bool) (pre : list line) (f : instr) (k : know) : Prop :=
  forall t s2, bytes_ok t -> bfall cfg (blk pre ++ [Ins f]) t = Some s2 ->
               know_sound cfg (if lev then kregs k else k) s2.

Definition InvCF (cfg : config) (c0 : code) (z : zst) : Prop :=
  cf_ok cfg (z_code z) = true /\
  forallb skip_line (z_mid z) = true /\
  NoDup (lbls (z_code z)) /\
  know_ops_ok cfg (z_k z) /\
  (i_mn (z_f z) = JMP -> z_k z = k_none) /\
  cf_equiv cfg c0 (z_code z) /\
  KInv cfg (pswap z) (z_pre z) (z_f z) (z_k z).
