(** C08 — macro expansion is token-exact.  Statements only (general theorems: Proofs/MacroFacts.v
    when present). *)
From Coq Require Import String Ascii List Bool NArith.
From CC Require Import Base.Str Model.Cpp.
Import ListNotations.
Open Scope string_scope.

(** whole identifiers only: never inside a longer identifier, next to operators yes *)
Theorem C08_example_word_boundary :
  replace_all [("N", MObj "3")] "N+xN+Nx+N_+(N)+N1+-N" = "3+xN+Nx+N_+(3)+N1+-3".
Proof. vm_compute. reflexivity. Qed.

(** positional arguments, nested parentheses and nested calls *)
Theorem C08_example_function_like :
  match run_cpp [] "m.c" [] (map (fun l => l ++ nl)
        ["#define ADD(a,b) a+b"; "#define SQ(x) ((x)*(x))"; "ADD(1,(2,3))"; "SQ(ADD(p,q))"; "ADD(f((g(1))),2)"; "ADD(1)"]) with
  | POk p => p_out p = "1+(2,3)" ++ nl ++ "((p+q)*(p+q))" ++ nl ++ "f((g(1)))+2" ++ nl ++ "ADD(1)" ++ nl
  | PErr _ => False
  end.
Proof. vm_compute. reflexivity. Qed.

(** the two known deviations, on the model (known findings F-C08-...) *)
Theorem C08_param_shadow_refuted :
  match run_cpp [] "m.c" [] (map (fun l => l ++ nl) ["#define x 5"; "#define F(x) x+1"; "F(3)"]) with
  | POk p => p_out p = "5+1" ++ nl
  | PErr _ => False
  end.
Proof. vm_compute. reflexivity. Qed.

Theorem C08_dash_d_chain_refuted :
  match run_cpp [] "m.c" [("A", "1"); ("B", "A")] ["B" ++ nl] with
  | POk p => p_out p = "A" ++ nl
  | PErr _ => False
  end.
Proof. vm_compute. reflexivity. Qed.
