"""C04 — reported function size equals the assembled size.

proof   : Props/C04.v: asm() model: nb_bytes = size of the encoding the assembler selects, for the
          whole (mnemonic x operand kind x variable kind x byte x scheme) domain; the optimiser only
          deletes; the repair's instructions have their real sizes
corr-M  : asm() (through the verification hook) vs Model/AsmSel.v on the WHOLE finite domain
          (about 80 000 cells; operand text, nb_bytes, cycles, errors)
corr-S  : every function of generated programs, every level, zero-page and absolute placements:
          Coq-extracted encoder (Model/WfCode.v) re-assembles the emitted lines; the sum must equal
          size_bytes() and every nb_bytes its instruction's encoded size
"""
from lib.common import *
from lib.asmsel import *
from lib.gen_c import gen_program
from lib.pipeline import *
from lib.coexec import make_layout, LayoutError

LEVEL = 'proof'
THEOREMS = ['C04_asm_sel_size', 'C04_popnd_zp_known_addr', 'C04_asm_sel_old_size_fails', 'C04_optimize_size_le', 'C04_optimize_instrs_subset', 'C04_repair_sizes']


def boundary_programs():
    """objects at constant addresses on both sides of the zero-page boundary (and of the other
    boundaries an address classifier could use): the size of every access must be the size the
    assembler gives an operand at THAT address"""
    out = {}
    for addr in (0x00, 0x7f, 0x80, 0xfe, 0xff, 0x100, 0x101, 0x1ff, 0x200, 0xfff, 0x1000, 0x1001, 0xffff):
        for ty in ('unsigned char', 'char'):
            out['bnd_%x_%s' % (addr, ty.replace(' ', ''))] = (
                '%s *const R = 0x%x; unsigned char a, i; short s;\n'
                'void main() { *R = a; a = *R; R[1] = 3; a = R[2]; a = R[X]; R[Y] = a; strobe(R); load(*R); store(*R); '
                'if (*R) a = 1; if (R[1] == a) a = 2; (*R)++; R[1]--; *R += 2; a = *R << 1; a = R[i]; R[i] = a; s = *R; }\n' % (ty, addr))
            out['bnds_%x_%s' % (addr, ty.replace(' ', ''))] = (
                '%s *const R = 0x%x; unsigned char a;\nvoid main() { *R = a; a = R[1]; strobe(R); if (*R) a = 1; a = R[X]; R[Y] = a; }\n' % (ty, addr))
    # pointer constants defined FROM other pointer constants (another declaration, the same declaration), with
    # and without an offset, on both sides of the boundary
    for addr in (0x00, 0x7c, 0xfc, 0xff, 0x100, 0x1000):
        for off in (0, 4, 0x100):
            for same in (False, True):
                d = ('unsigned char *const P = 0x%x, *const Q = P + %d;' if same else 'unsigned char *const P = 0x%x;\nunsigned char *const Q = P + %d;') % (addr, off)
                if off == 0:
                    d = d.replace(' + 0', '')
                out['bndp_%x_%d_%d' % (addr, off, same)] = (
                    d + '\nunsigned char a;\nvoid main() { *Q = a; a = Q[1]; a = Q[X]; Q[Y] = a; Q[X] = a; X = Q[Y]; Y = Q[X]; if (Q[X]) a = 1; Q[X]++; a = *P; }\n')
    return out


def inline_asm_programs():
    """sized inline assembly inside inline functions, its text mentioning names the compiler generates or
    renames when it copies the function into a caller: the copy must keep the declared size"""
    out = {}
    k = 0
    for ref in ('.endof', '.ifend1', '.for1', 'main', 'poll', '.endofinline1', '.fix1', 'nothing'):
        for n in (0, 1, 2, 5, 8, 130):
            for shape in ('void main() { poll(); a++; }', 'void main() { if (a) { poll(); a++; } poll(); }',
                          'inline void twice() { poll(); poll(); } void main() { twice(); a++; }'):
                tag = 'tg%d' % k
                src = ('unsigned char a;\ninline void poll() { a++; asm("\\tLDA $3C\\n\\tBMI %s ; %s\\n\\tINC $81", %d); }\n%s\n'
                       % (ref, tag, n, shape))
                out['inlasm%d' % k] = (src, {tag: n})
                k += 1
    return out


def size_pass(ctx, n_prog, rng, levels, opts_list, extra=None):
    viol = []
    nfun = 0
    cells = {}
    progs = {}
    for i in range(n_prog):
        progs['p%d' % i] = gen_program(rng, opts_list[i % len(opts_list)])
    srcs = {k: p.source() for k, p in progs.items()}
    decls = {k: getattr(p, 'asm_decl', {}) for k, p in progs.items()}
    for k, v in (extra or {}).items():
        srcs[k], decls[k] = v if isinstance(v, tuple) else (v, {})
    comp = compile_variants(srcs, {O: [O] for O in levels})
    recs = {}
    info = {}
    for pid, vs in comp.items():
        for O, r in vs.items():
            if r['status'] != 'ok':
                continue
            for w in var_wf_problems(r['vars']):
                viol.append({'why': 'memory class of a constant-address object contradicts its address: ' + w['why'],
                             'program': srcs[pid], 'level': O, 'variable': w})
            try:
                lay = make_layout(r['vars'], [f['name'] for f in r.get('funcs', [])])
            except LayoutError:
                continue
            funcs = {f['name']: norm_lines(f['final']) for f in r['funcs'] if f.get('final') is not None}
            recs['%s@%s' % (pid, O)] = (lay, funcs)
            info['%s@%s' % (pid, O)] = {f['name']: f['size'] for f in r['funcs'] if f.get('final') is not None}
    rep = run_wf(wf_records(recs)) if recs else {}
    for key, fs in rep.items():
        for fn, d in fs.items():
            nfun += 1
            reported = info[key][fn]
            lines = recs[key][1][fn]
            for l in lines:
                if l[0] == 'I':
                    c = (l[1], 'imm' if l[6].startswith('#') else ('ind' if l[6].startswith('(') else ('x' if l[6].endswith(',X') else ('y' if l[6].endswith(',Y') else ('none' if not l[6] else 'mem')))), l[3])
                    cells[c] = cells.get(c, 0) + 1
            problems = []
            if d['bad']:
                problems.append('nb_bytes differs from the encoded size at lines ' + ','.join(d['bad']))
            if d['illegal']:
                problems.append('no 6502 encoding for lines ' + ','.join(d['illegal']))
            if not d['illegal'] and not d['unknown'] and d['size'] != reported:
                problems.append('size_bytes() = %d but the code assembles to %d bytes' % (reported, d['size']))
            problems += asm_size_problems(decls[key.split('@')[0]], {fn: lines})
            if problems:
                viol.append({'why': '; '.join(problems), 'program': srcs[key.split('@')[0]], 'level': key.split('@')[1],
                             'function': fn, 'lines': lines})
    return viol, nfun, cells, len(srcs)


def run(ctx):
    quick = ctx.tier == 'quick'
    rng = ctx.rng
    ctx.proof_stage('Props.C04', THEOREMS)
    total, mism, table, vars_ = run_domain()
    # hypothesis var_wf of C04_asm_sel_size, checked on what the real front end produces
    wfp = var_wf_problems(vars_)
    ctx.cov['evaluations'] += total
    ctx.cov['exhaustive'] = True
    ctx.cov['correspondence']['corr-M asm() domain'] = {'cells': total, 'mismatches': len(mism), 'exhaustive': True,
                                                         'variables': [(v['name'], v['type'], v['memory']) for v in vars_][:40]}
    ctx.cov['distinct_nontrivial'] = len(table)
    levels = ['-O0', '-O1'] if quick else ['-O0', '-O1', '-O2', '-O3']
    opts = [dict(), dict(superchip=True), dict(hw=True, inline=True, asm_sized=True), dict(bait=True, superchip=True), dict(hw=True, inline=True, asm_sized=True, calls=True, max_stmts=14)]
    viol, nfun, cells, nprog = size_pass(ctx, 300 if quick else 6000, rng, levels, opts, extra=dict(list(boundary_programs().items()) + list(inline_asm_programs().items())))
    ctx.cov['programs'] = nprog
    ctx.cov['correspondence']['corr-S sizes'] = {'functions_reassembled': nfun, 'violations': len(viol),
                                                  'instruction_cells_seen': len(cells)}
    ctx.sample({'cell': list(table.items())[0]})
    ctx.sample({'observed_cells': sorted(('%s %s %d' % k, v) for k, v in cells.items())[:25]})
    # failure search on the cells where model and code disagree: re-assemble what asm() really emitted
    if mism:
        recs = {}
        for k, m in enumerate(mism[:400]):
            a = m['impl']
            if a[0] != 'ok':
                continue
            var = m['probe'][3]
            sym = {'cctmp': 0x80, '.l1': 0xF000}
            if var:
                sym[var['name']] = 0x90 if var['memory'] == 'Zeropage' else 0x1000
            line = ('I', a[2], a[3], a[4], a[5], a[6], a[7])
            recs['cell%d' % k] = ({'sym': sym}, {'f': [line]})
        rep = run_wf(wf_records(recs)) if recs else {}
        for key, fs in rep.items():
            d = fs['f']
            if d['bad'] or d['illegal']:
                m = mism[int(key[4:])]
                viol.append({'why': 'asm() emits an instruction whose nb_bytes is not its encoded size (or that has no encoding): ' + json.dumps(d),
                             'asm_call': {'mnemonic': m['probe'][0], 'operand_kind': m['probe'][1], 'variable': m['probe'][3],
                                          'eight_bits': m['probe'][4], 'offset_or_value': m['probe'][5], 'high_byte': m['probe'][6],
                                          'scheme': m['probe'][7]},
                             'emitted': m['impl']})
    for w in wfp[:2]:
        viol.insert(0, {'why': 'memory class of a constant-address object contradicts its address (hypothesis var_wf of C04_asm_sel_size): ' + w['why'],
                        'program': DOMAIN_SRC, 'variable': w})
    for v in viol[:3]:
        ctx.violation('size', v)
    if mism and not viol:
        ctx.violation_noinput('Model/AsmSel.v no longer matches GeneratorState::asm on %d of %d cells; first: %s'
                              % (len(mism), total, json.dumps(mism[0])[:1500]), 'corr-M:asm_sel')
    ctx.cov['rule'] = ('domain: 45 mnemonics x {nothing, 6 immediates, tmp, A, label, abs(8/16 bit, offsets 0,1,3,-1), abs,X, abs,Y} '
                       'x 28 variables of every type/memory class/constness x low/high byte x schemes {4K,3E,3E+}, complete; '
                       'non-trivial/distinct = distinct (mnemonic, kind, type, memory, outcome) cells')
    ctx.cov['trusted_base'] = ['Coq 8.16.1 kernel', 'extraction of Model/AsmSel.v, Model/WfCode.v, M6502/Isa.v',
                               'verification hook cc6502::verif::asm_probe (calls asm() unchanged)', 'harness ccv',
                               'M6502/Isa.v opcode table as a datasheet transcription; DASM chooses the zero-page form when the address is < $100']
    ctx.assumptions = ['variable placement: Zeropage-class variables and cctmp below $100, every other class at or above $100 (what the linkers do)',
                       'inline assembly counted at its declared/default size (cannot be assembled here)',
                       'cells asm() emits for nonsensical pairs (label operand on LDA, JMP cctmp) are outside the theorem (predicate sensible); the corr-S pass shows the generator never requests them']
