(** C08 — macro expansion is token-exact.  Statements only (general theorems: Proofs/MacroFacts.v
    when present). *)
From Coq Require Import String Ascii List Bool NArith.
From CC Require Import Base.Str Model.Cpp.
Import ListNotations.
Open Scope string_scope.

(** whole identifiers only: never inside a longer identifier, next to operators yes *)
Theorem C08_example_word_boundary :
  replace_all [("N", MObj "3")] "N+xN+Nx+N_+(N)+N1+-N" = "3+xN+Nx+N_+(3)+N1+-3".
Proof. vm_compute. reflexivity. Qed.

(** positional arguments, nested parentheses and nested calls *)
Theorem C08_example_function_like :
  match run_cpp [] "m.c" [] (map (fun l => l ++ nl)
        ["#define ADD(a,b) a+b"; "#define SQ(x) ((x)*(x))"; "ADD(1,(2,3))"; "SQ(ADD(p,q))"; "ADD(f((g(1))),2)"; "ADD(1)"]) with
  | POk p => p_out p = "1+(2,3)" ++ nl ++ "((p+q)*(p+q))" ++ nl ++ "f((g(1)))+2" ++ nl ++ "ADD(1)" ++ nl
  | PErr _ => False
  end.
Proof. vm_compute. reflexivity. Qed.

(** the known deviation, on the model (known finding F-C08-...) *)
Theorem C08_param_shadow_refuted :
  match run_cpp [] "m.c" [] (map (fun l => l ++ nl) ["#define x 5"; "#define F(x) x+1"; "F(3)"]) with
  | POk p => p_out p = "5+1" ++ nl
  | PErr _ => False
  end.
Proof. vm_compute. reflexivity. Qed.

(** repaired: every replacement round computes its match set on the text at the beginning of
    the round, so a name brought in by a replacement is expanded in a later round *)
Theorem C08_dash_d_chain_fixed :
  match run_cpp [] "m.c" [("A", "1"); ("B", "A")] ["B" ++ nl] with
  | POk p => p_out p = "1" ++ nl
  | PErr _ => False
  end.
Proof. vm_compute. reflexivity. Qed.

Theorem C08_object_names_function_macro_fixed :
  match run_cpp [] "m.c" [] (map (fun l => l ++ nl) ["#define F(b) +1"; "#define G F"; "G(2)"]) with
  | POk p => p_out p = "+1" ++ nl
  | PErr _ => False
  end.
Proof. vm_compute. reflexivity. Qed.

From CC Require Import Model.MacroSpec Proofs.MacroFacts.

(** token exactness, for EVERY text: \bNAME\b replacement substitutes exactly the identifier
    tokens equal to the name, nothing else ... *)
Theorem C08_replace_word_token_exact : forall name value s, wordy name ->
  fst (replace_word name value s) = subst_tokens name value s.
Proof. exact replace_word_token_exact. Qed.

(** ... reports a change iff such a token exists ... *)
Theorem C08_replace_word_changed_iff : forall name value s, wordy name ->
  snd (replace_word name value s) = existsb (String.eqb name) (tokens s).
Proof. exact replace_word_changed_iff. Qed.

(** ... and never touches a longer identifier containing the name *)
Theorem C08_inside_identifier_untouched : forall name value pre post,
  wordy name -> wordy (pre ++ name ++ post) -> (pre <> "" \/ post <> "") ->
  replace_word name value (pre ++ name ++ post) = (pre ++ name ++ post, false).
Proof. exact replace_word_inside_identifier. Qed.

(** a set of object-like macros whose values mention no macro name: one simultaneous token
    substitution, complete after the rounds of replace_all *)
Theorem C08_replace_all_independent : forall (ms : list (string * string)) s,
  NoDup (map fst ms) -> (forall n v, In (n, v) ms -> wordy n) ->
  (forall n v m, In (n, v) ms -> In m (map fst ms) -> existsb (String.eqb m) (tokens v) = false) ->
  replace_all (map (fun nv => (fst nv, MObj (snd nv))) ms) s =
  String.concat "" (map (fun t => match find (fun nv => String.eqb (fst nv) t) ms with
                                  | Some nv => snd nv | None => t end) (tokens s)).
Proof. exact replace_all_independent. Qed.

(** chains: an acyclic set of object-like macros ([rank] strictly decreases from a macro to the
    macro names its value mentions) of depth below the 64-round cap is expanded completely, in
    whatever order the macros are listed: every token becomes its full recursive expansion ... *)
Theorem C08_replace_all_chain : forall (ms : list (string * string)) (rank : string -> nat) s,
  NoDup (map fst ms) -> (forall n v, In (n, v) ms -> wordy n) ->
  (forall n v t, In (n, v) ms -> In t (tokens v) -> In t (map fst ms) -> rank t < rank n) ->
  (forall n, In n (map fst ms) -> rank n < 64) ->
  replace_all (map (fun nv => (fst nv, MObj (snd nv))) ms) s = tsubst (expand_tok 64 ms) s.
Proof. exact replace_all_chain. Qed.

(** ... where the expansion of a macro name is its value with every token expanded, any other
    token is kept ... *)
Theorem C08_expand_tok_equations : forall (ms : list (string * string)) (rank : string -> nat),
  NoDup (map fst ms) -> (forall n v, In (n, v) ms -> wordy n) ->
  (forall n v t, In (n, v) ms -> In t (tokens v) -> In t (map fst ms) -> rank t < rank n) ->
  (forall n, In n (map fst ms) -> rank n < 64) ->
  (forall n v, In (n, v) ms -> expand_tok 64 ms n = tsubst (expand_tok 64 ms) v) /\
  (forall t, ~ In t (map fst ms) -> expand_tok 64 ms t = t).
Proof. exact expand_tok_equations. Qed.

(** ... and no macro name is left in the result *)
Theorem C08_replace_all_chain_closed : forall (ms : list (string * string)) (rank : string -> nat) s t,
  NoDup (map fst ms) -> (forall n v, In (n, v) ms -> wordy n) ->
  (forall n v t, In (n, v) ms -> In t (tokens v) -> In t (map fst ms) -> rank t < rank n) ->
  (forall n, In n (map fst ms) -> rank n < 64) ->
  In t (tokens (replace_all (map (fun nv => (fst nv, MObj (snd nv))) ms) s)) ->
  ~ In t (map fst ms).
Proof. exact replace_all_chain_closed. Qed.

(** the line processor calls the CAPPED driver [replace_all_c] (rounds abandoned once a round has
    left more than 64 KiB); it is the function above whenever every text that is followed by
    another round is within the cap ([rounds_within_cap], Proofs/MacroFacts.v, follows the
    recursion of [replace_rounds]) ... *)
Theorem C08_replace_all_c_small : forall ms s,
  rounds_within_cap 64 ms s s -> replace_all_c ms s = replace_all ms s.
Proof. exact replace_all_c_small. Qed.

(** ... in particular when no macro matches ... *)
Theorem C08_replace_all_c_no_change : forall ms s,
  (forall m, In m ms -> macro_matches m s = false) -> replace_all_c ms s = s.
Proof. exact replace_all_c_no_change. Qed.

(** ... or when the first round ends on a text no macro matches (no length hypothesis) ... *)
Theorem C08_replace_all_c_one_round : forall ms s r,
  fst (apply_all ms s s false) = r ->
  (forall m, In m ms -> macro_matches m r = false) ->
  replace_all_c ms s = r /\ replace_all ms s = r.
Proof. exact replace_all_c_one_round. Qed.

(** ... so independent object-like macros are one simultaneous token substitution for the capped
    driver too, whatever the length of the result *)
Theorem C08_replace_all_c_independent : forall (ms : list (string * string)) s,
  NoDup (map fst ms) -> (forall n v, In (n, v) ms -> wordy n) ->
  (forall n v m, In (n, v) ms -> In m (map fst ms) -> existsb (String.eqb m) (tokens v) = false) ->
  replace_all_c (map (fun nv => (fst nv, MObj (snd nv))) ms) s =
  String.concat "" (map (fun t => match find (fun nv => String.eqb (fst nv) t) ms with
                                  | Some nv => snd nv | None => t end) (tokens s)).
Proof. exact replace_all_c_independent. Qed.

(** chains need several rounds, hence the cap hypothesis *)
Theorem C08_replace_all_c_chain : forall (ms : list (string * string)) (rank : string -> nat) s,
  NoDup (map fst ms) -> (forall n v, In (n, v) ms -> wordy n) ->
  (forall n v t, In (n, v) ms -> In t (tokens v) -> In t (map fst ms) -> rank t < rank n) ->
  (forall n, In n (map fst ms) -> rank n < 64) ->
  rounds_within_cap 64 (map (fun nv => (fst nv, MObj (snd nv))) ms) s s ->
  replace_all_c (map (fun nv => (fst nv, MObj (snd nv))) ms) s = tsubst (expand_tok 64 ms) s.
Proof. exact replace_all_c_chain. Qed.

(** the cap does bite: a value mentioning its own name twice doubles the text at every round; the
    capped driver stops after round 16 with 131071 characters *)
Theorem C08_replace_all_c_cap_bites :
  N.of_nat (String.length (replace_all_c [("A", MObj "A A")] "A")) = 131071%N /\
  within_cap (replace_all_c [("A", MObj "A A")] "A") = false.
Proof. split; [exact (proj1 replace_all_c_cap_bites) | exact (proj1 (proj2 replace_all_c_cap_bites))]. Qed.

(** arguments are captured by position, nested parentheses (four levels) included *)
Theorem C08_capture_args_nested : forall args rest, Forall arg_ok args -> args <> [] ->
  capture_args (S (String.length (String.concat "," args ++ ")" ++ rest))) (List.length args)
               (String.concat "," args ++ ")" ++ rest) = Some (args, rest).
Proof. exact capture_args_nested. Qed.

(** and substituted by position *)
Theorem C08_expand_template_param : forall ps args p,
  NoDup ps -> List.length ps = List.length args -> In p ps -> wordy p ->
  expand_template (S (String.length ("$" ++ p))) ("$" ++ p) ps args = nth (index_of p ps) args "".
Proof. exact expand_template_param. Qed.

(** a whole call: NAME(args) becomes the instantiated template *)
Theorem C08_replace_call_whole : forall name ps tmpl args,
  wordy name -> Forall arg_ok args -> args <> [] -> List.length ps = List.length args ->
  replace_call name ps tmpl (name ++ "(" ++ String.concat "," args ++ ")")
  = (expand_template (S (String.length tmpl)) tmpl ps args, true).
Proof. exact replace_call_whole. Qed.

(** blanks (spaces and TABs) between the name of a function-like macro and the parenthesis of a
    call do not matter (repaired defect: "add (1,2)" was left unexpanded): NAME blanks (args)
    expands exactly like NAME(args).  [skip_blanks b = ""]: [b] is made of blanks and TABs *)
Theorem C08_blank_before_paren : forall name ps tmpl args b,
  wordy name -> Forall arg_ok args -> args <> [] -> List.length ps = List.length args ->
  skip_blanks b = "" ->
  replace_call name ps tmpl (name ++ b ++ "(" ++ String.concat "," args ++ ")")
  = replace_call name ps tmpl (name ++ "(" ++ String.concat "," args ++ ")").
Proof. exact replace_call_blank_before_paren. Qed.

(** the general form, at any position of the text: a hit of the call pattern *)
Theorem C08_call_pattern_hit : forall f name ps tmpl prev s b s' args rest,
  s = name ++ b ++ "(" ++ s' ->
  boundary_before prev = true -> name <> "" -> skip_blanks b = "" ->
  capture_args (String.length s) (List.length ps) s' = Some (args, rest) ->
  replace_call_aux (S f) name ps tmpl prev s =
  (expand_template (S (String.length tmpl)) tmpl ps args
     ++ fst (replace_call_aux f name ps tmpl (Some ")"%char) rest), true).
Proof. exact rca_hit_blanks. Qed.

Example C08_blank_before_paren_example :
  let TB := String (ascii_of_nat 9) "" in
  cpp_output (run_cpp [] "m.c" [] ["#define add(a,b) a+b" ++ nl; "x = add (1,2);" ++ nl]) = Some ("x = 1+2;" ++ nl)
  /\ cpp_output (run_cpp [] "m.c" [] ["#define add(a,b) a+b" ++ nl; "x = add" ++ TB ++ "(1,2);" ++ nl]) = Some ("x = 1+2;" ++ nl)
  /\ cpp_output (run_cpp [] "m.c" [] ["#define add(a,b) a+b" ++ nl; "x = add " ++ TB ++ " (1,2);" ++ nl]) = Some ("x = 1+2;" ++ nl)
  /\ cpp_output (run_cpp [] "m.c" [] ["#define add(a,b) a+b" ++ nl; "x = add(1,2);" ++ nl]) = Some ("x = 1+2;" ++ nl).
Proof. exact blank_before_paren_example. Qed.

(** a macro without parameters: blanks may also stand between the parentheses *)
Theorem C08_zero_param_blank : forall name tmpl b1 b2,
  wordy name -> skip_blanks b1 = "" -> skip_blanks b2 = "" ->
  replace_call name [] tmpl (name ++ b1 ++ "(" ++ b2 ++ ")")
  = (expand_template (S (String.length tmpl)) tmpl [] [], true).
Proof. exact replace_call_zero_param_blank. Qed.

Example C08_zero_param_blank_example :
  let TB := String (ascii_of_nat 9) "" in
  cpp_output (run_cpp [] "m.c" [] ["#define f() 7" ++ nl; "x = f( );" ++ nl]) = Some ("x = 7;" ++ nl)
  /\ cpp_output (run_cpp [] "m.c" [] ["#define f() 7" ++ nl; "x = f ( );" ++ nl]) = Some ("x = 7;" ++ nl)
  /\ cpp_output (run_cpp [] "m.c" [] ["#define f() 7" ++ nl; "x = f();" ++ nl]) = Some ("x = 7;" ++ nl)
  /\ cpp_output (run_cpp [] "m.c" [] ["#define f() 7" ++ nl; "x = f" ++ TB ++ "(" ++ TB ++ " );" ++ nl]) = Some ("x = 7;" ++ nl).
Proof. exact zero_param_blank_example. Qed.

(** what does not change: object-like macros, names without a parenthesis, other separators *)
Example C08_blank_before_paren_negative :
  cpp_output (run_cpp [] "m.c" [] ["#define A (x)" ++ nl; "A (1)" ++ nl]) = Some ("(x) (1)" ++ nl)
  /\ cpp_output (run_cpp [] "m.c" [] ["#define add(a,b) a+b" ++ nl; "y = add + 1;" ++ nl]) = Some ("y = add + 1;" ++ nl)
  /\ cpp_output (run_cpp [] "m.c" [] ["#define add(a,b) a+b" ++ nl; "y = add  ;" ++ nl]) = Some ("y = add  ;" ++ nl)
  /\ replace_call "add" ["a"; "b"] "$a+$b" ("add" ++ nl ++ "(1,2)") = ("add" ++ nl ++ "(1,2)", false)
  /\ replace_call "add" ["a"; "b"] "$a+$b" "xadd (1,2) add_ (1,2)" = ("xadd (1,2) add_ (1,2)", false)
  /\ replace_call "f" [] "7" "f(1) f(,)" = ("f(1) f(,)", false).
Proof. exact blank_before_paren_negative. Qed.

(** #undef removes exactly the named macro *)
Theorem C08_undefine_exact : forall ms n m, NoDup (map fst ms) ->
  get_macro (undefine ms n) m = if String.eqb m n then None else get_macro ms m.
Proof. exact undefine_exact. Qed.
