(** Semantic facts about inlining, on the executable 6502 semantics of [M6502/Sem.v]:

    (A) renaming the local labels of a piece of code injectively does not change its behaviour
        (the renaming keeps the [protected] flag of every instruction, so that the two traces
        have the same events in the same order; the only difference is the raw operand text
        inside the events of the renamed, protected, branch/JMP instructions);
    (B) a closed piece of code whose labels are fresh behaves inside a larger code exactly as
        it behaves standalone, until it reaches its end;
    (C) the block that [push_code] appends to its destination executes like the body it was
        made from and arrives just after the [.endofinline<n>] label.

    "Standalone" execution is given by [runb], the interpreter [run] of [Sem.v] written as the
    iteration of a one-step function, with a call depth: at depth 0, running past the last line
    is a result of its own ([BEnd]) instead of [Halt]/[Faulted].  [run_runb] shows that [runb]
    is [run] (for the depth [length stack]). *)
From Coq Require Import String Ascii List Bool NArith ZArith Lia.
From CC Require Import Base.Str Asm.Lines M6502.Isa Asm.Operand M6502.Sem.
From CC Require Import Model.InlineRename Model.CbSpec Model.WfCode.
From CC Require Import Proofs.CbFacts Proofs.InlineFacts.
Import ListNotations.
Open Scope string_scope.
Open Scope list_scope.
Open Scope nat_scope.

(** * Generic list facts *)

Lemma Forall2_nth_error_l : forall (A B : Type) (R : A -> B -> Prop) l l' n x,
  Forall2 R l l' -> nth_error l n = Some x -> exists x', nth_error l' n = Some x' /\ R x x'.
Proof.
  intros A B R l l' n x H. revert n x.
  induction H as [|a b l l' Hab H IH]; intros n x Hn.
  - destruct n; discriminate Hn.
  - destruct n as [|n]; cbn [nth_error] in *.
    + injection Hn as <-. exists b. split; [reflexivity|exact Hab].
    + apply IH. exact Hn.
Qed.

Lemma Forall2_len : forall (A B : Type) (R : A -> B -> Prop) l l',
  Forall2 R l l' -> length l = length l'.
Proof.
  intros A B R l l' H. induction H as [|a b l l' _ _ IH]; [reflexivity|].
  cbn [length]. rewrite IH. reflexivity.
Qed.

Lemma Forall2_nth_error_none : forall (A B : Type) (R : A -> B -> Prop) l l' n,
  Forall2 R l l' -> nth_error l n = None -> nth_error l' n = None.
Proof.
  intros A B R l l' n H Hn. apply nth_error_None. apply nth_error_None in Hn.
  rewrite <- (Forall2_len _ _ _ _ _ H). exact Hn.
Qed.

Lemma Forall2_map_same : forall (A B : Type) (R : A -> B -> Prop) (f : A -> B) l,
  (forall x, In x l -> R x (f x)) -> Forall2 R l (map f l).
Proof.
  intros A B R f l. induction l as [|a l IH]; intros H; cbn [map]; constructor.
  - apply H. left. reflexivity.
  - apply IH. intros x Hx. apply H. right. exact Hx.
Qed.

Lemma Forall2_refl_in : forall (A : Type) (R : A -> A -> Prop) l,
  (forall x, In x l -> R x x) -> Forall2 R l l.
Proof.
  intros A R l. induction l as [|a l IH]; intros H; constructor.
  - apply H. left. reflexivity.
  - apply IH. intros x Hx. apply H. right. exact Hx.
Qed.

Lemma filter_rev_eq : forall (A : Type) (f : A -> bool) l, filter f (rev l) = rev (filter f l).
Proof.
  intros A f l. induction l as [|a l IH]; [reflexivity|].
  cbn [rev filter]. rewrite filter_app, IH. cbn [filter].
  destruct (f a); cbn [rev]; [reflexivity|]. rewrite app_nil_r. reflexivity.
Qed.

Lemma Forall2_rev_intro : forall (A B : Type) (R : A -> B -> Prop) l l',
  Forall2 R l l' -> Forall2 R (rev l) (rev l').
Proof.
  intros A B R l l' H. induction H as [|a b l l' Hab H IH]; [constructor|].
  cbn [rev]. apply Forall2_app; [exact IH|]. constructor; [exact Hab|constructor].
Qed.

Lemma Forall2_eq_eq : forall (A : Type) (l l' : list A), Forall2 eq l l' -> l = l'.
Proof.
  intros A l l' H. induction H as [|a b l l' Hab H IH]; [reflexivity|]. rewrite Hab, IH. reflexivity.
Qed.

Lemma Forall2_mono : forall (A B : Type) (R R' : A -> B -> Prop) l l',
  (forall a b, R a b -> R' a b) -> Forall2 R l l' -> Forall2 R' l l'.
Proof.
  intros A B R R' l l' HR H. induction H as [|a b l l' Hab H IH]; constructor;
    [apply HR; exact Hab|exact IH].
Qed.

Lemma Forall2_same : forall (A : Type) (R : A -> A -> Prop) (l : list A),
  (forall x, R x x) -> Forall2 R l l.
Proof. intros A R l H. induction l as [|a l IH]; constructor; [apply H|exact IH]. Qed.

Lemma filter_true : forall (A : Type) (l : list A), filter (fun _ => true) l = l.
Proof. intros A l. induction l as [|a l IH]; [reflexivity|]. cbn [filter]. rewrite IH. reflexivity. Qed.

(** * Labels and jump targets of semantic code *)

Definition slabels (c : list sline) : list string :=
  flat_map (fun x => match x with SLbl l => [l] | _ => [] end) c.

(** targets of the branches and [JMP]s (not of [JSR]) *)
Definition stargets (c : list sline) : list string :=
  flat_map (fun x => match x with
                     | SIns m (OLbl l) _ _ => if renames_operand m then [l] else []
                     | _ => [] end) c.

(** every local jump target is defined in the code itself *)
Definition sclosed (c : list sline) : Prop := forall l, In l (stargets c) -> In l (slabels c).

Lemma slabels_app : forall a b, slabels (a ++ b) = slabels a ++ slabels b.
Proof. intros a b. unfold slabels. apply flat_map_app. Qed.

Lemma stargets_app : forall a b, stargets (a ++ b) = stargets a ++ stargets b.
Proof. intros a b. unfold stargets. apply flat_map_app. Qed.

Lemma in_stargets : forall c m l p raw,
  In (SIns m (OLbl l) p raw) c -> renames_operand m = true -> In l (stargets c).
Proof.
  intros c m l p raw Hin Hm. unfold stargets. apply in_flat_map.
  exists (SIns m (OLbl l) p raw). split; [exact Hin|]. rewrite Hm. left. reflexivity.
Qed.

(** * [find_label] *)

Lemma find_label_notin_app : forall l a b k,
  ~ In l (slabels a) -> find_label l (a ++ b) k = find_label l b (k + length a).
Proof.
  intros l a. induction a as [|x a IH]; intros b k Hn.
  - cbn [app length]. rewrite Nat.add_0_r. reflexivity.
  - cbn [app length find_label].
    assert (Hn' : ~ In l (slabels a)).
    { intros H. apply Hn. unfold slabels. cbn [flat_map]. apply in_or_app. right. exact H. }
    rewrite Nat.add_succ_r, <- Nat.add_succ_l.
    destruct x as [y|m o p raw|t|]; try (apply IH; exact Hn').
    destruct (String.eqb_spec y l) as [E|E].
    + exfalso. apply Hn. unfold slabels. cbn [flat_map]. left. exact E.
    + apply IH. exact Hn'.
Qed.

Lemma find_label_in_app : forall l a b k j,
  find_label l a k = Some j -> find_label l (a ++ b) k = Some j.
Proof.
  intros l a. induction a as [|x a IH]; intros b k j H; [discriminate H|].
  cbn [app find_label] in *.
  destruct x as [y|m o p raw|t|]; try (apply IH; exact H).
  destruct (String.eqb y l); [exact H|apply IH; exact H].
Qed.

Lemma find_label_in : forall l a k,
  In l (slabels a) -> exists j, find_label l a k = Some (k + j) /\ j < length a.
Proof.
  intros l a. induction a as [|x a IH]; intros k H; [destruct H|].
  assert (Hrec : In l (slabels a) ->
                 exists j, find_label l a (S k) = Some (k + j) /\ j < length (x :: a)).
  { intros H'. destruct (IH (S k) H') as [j [Hj Hlt]]. exists (S j). split.
    - rewrite Hj. f_equal. lia.
    - cbn [length]. lia. }
  unfold slabels in H. cbn [flat_map] in H. cbn [find_label].
  destruct x as [y|m o p raw|t|]; try (apply Hrec; exact H).
  destruct (String.eqb_spec y l) as [E|E].
  - exists 0. split; [f_equal; lia|cbn [length]; lia].
  - apply Hrec. destruct H as [H|H]; [exfalso; exact (E H)|exact H].
Qed.

(** * The instruction set: which instructions jump *)

Definition jump_taken (m : mnem) (s : mstate) : bool :=
  match m with JMP => true | _ => branch_taken m s end.

Lemma exec_jump : forall cfg m l s,
  renames_operand m = true ->
  exec cfg m (OLbl l) s = if jump_taken m s then XOk s 3%N (FGoto l) else XOk s 2%N FNext.
Proof.
  intros cfg m l s H. destruct m; try discriminate H; reflexivity.
Qed.

Lemma exec_goto : forall cfg m o s s' k l,
  exec cfg m o s = XOk s' k (FGoto l) -> o = OLbl l /\ renames_operand m = true.
Proof.
  intros cfg m o s s' k l H.
  destruct m; unfold exec, Fault in H;
    repeat match type of H with
           | context [match ?x with _ => _ end] => destruct x
           end;
    try discriminate H;
    injection H as _ _ ->; split; reflexivity.
Qed.

(** * The interpreter as an iterated step, with a call depth *)

(** result of one step *)
Inductive sres :=
| SNext (fname : string) (c : list sline) (pc : nat) (stack : list frame) (depth : nat)
        (s : mstate) (tr : list event) (cy : N)
| SEnd (s : mstate) (tr : list event) (cy : N)      (* past the last line at depth 0: nothing done *)
| SHalt (s : mstate) (tr : list event) (cy : N)     (* [RTS] with the empty stack, or [RTI] *)
| SLeave (fname : string) (c : list sline) (pc : nat) (stack : list frame)
         (s : mstate) (tr : list event) (cy : N)    (* [RTS] at depth 0 into the enclosing frame *)
| SFault (depth : nat) (why : string) (fname : string) (pc : nat) (s : mstate).

(** result of a bounded execution *)
Inductive bres :=
| BEnd (fuel : nat) (s : mstate) (tr : list event) (cy : N)
    (* arrived past the last line at depth 0 with [fuel] steps left, state [s], trace [tr]
       (most recent event first, as the accumulator of [run]), [cy] cycles *)
| BFault0 (why : string) (fname : string) (pc : nat) (s : mstate)   (* fault at depth 0 *)
| BOut (o : outcome).                                               (* any other end *)

Definition bfault (depth : nat) (why fname : string) (pc : nat) (s : mstate) : bres :=
  match depth with
  | O => BFault0 why fname pc s
  | S _ => BOut (Faulted why fname pc s)
  end.

Definition out_of (r : bres) : outcome :=
  match r with
  | BEnd _ s tr cy => Halt s (rev tr) cy
  | BFault0 why fname pc s => Faulted why fname pc s
  | BOut o => o
  end.

Lemma out_of_bfault : forall d why fn pc s, out_of (bfault d why fn pc s) = Faulted why fn pc s.
Proof. intros [|d] why fn pc s; reflexivity. Qed.

Section Sem.
  Variable cfg : config.
  Variable prog : sprogram.
  Variable inl_sem : string -> mstate -> option mstate.
  Variable ext_call : string -> mstate -> option mstate.

  Definition step (fname : string) (c : list sline) (pc : nat) (stack : list frame) (depth : nat)
             (s : mstate) (tr : list event) (cy : N) : sres :=
    match nth_error c pc with
    | None =>
        match depth with
        | O => SEnd s tr cy
        | S _ => SFault depth "fell off the end of a called function" fname pc s
        end
    | Some (SLbl _) | Some SSkip => SNext fname c (S pc) stack depth s tr cy
    | Some (SInl t) =>
        match inl_sem t s with
        | Some s' => SNext fname c (S pc) stack depth s' (EvN t :: tr) cy
        | None => SFault depth "unknown inline assembly" fname pc s
        end
    | Some (SIns m o prot raw) =>
        let tr' := if prot then EvI m raw :: tr else tr in
        match exec cfg m o s with
        | XFault why => SFault depth why fname pc s
        | XOk s' k fl =>
            let cy' := (cy + k)%N in
            match fl with
            | FNext => SNext fname c (S pc) stack depth s' tr' cy'
            | FGoto l =>
                match find_label l c 0 with
                | Some k' => SNext fname c k' stack depth s' tr' cy'
                | None => SFault depth "undefined label" fname pc s
                end
            | FCall f =>
                match find_func f prog with
                | Some c' =>
                    let d := (Z.of_nat (length stack) + 1)%Z in
                    let s1 := push (push s' (byte d)) (byte (255 - d)) in
                    SNext f c' 0 ((fname, c, S pc) :: stack) (S depth) s1 tr' cy'
                | None =>
                    match ext_call f s' with
                    | Some s2 => SNext fname c (S pc) stack depth s2 tr' cy'
                    | None => SFault depth "call of an unknown function" fname pc s
                    end
                end
            | FRet =>
                match stack with
                | [] => SHalt s' tr' cy'
                | (fn, c0, pc0) :: st' =>
                    let d := Z.of_nat (length stack) in
                    let '(s1, lo) := pull s' in
                    let '(s2, hi) := pull s1 in
                    if ((lo =? byte (255 - d)) && (hi =? byte d))%Z
                    then match depth with
                         | O => SLeave fn c0 pc0 st' s2 tr' cy'
                         | S d' => SNext fn c0 pc0 st' d' s2 tr' cy'
                         end
                    else SFault depth "RTS with a corrupted stack" fname pc s
                end
            | FRti => SHalt s' tr' cy'
            end
        end
    end.

  Fixpoint runb (fuel : nat) (fname : string) (c : list sline) (pc : nat) (stack : list frame)
           (depth : nat) (s : mstate) (tr : list event) (cy : N) : bres :=
    match fuel with
    | O => BOut (OutOfFuel s (rev tr) cy)
    | S fuel' =>
        match step fname c pc stack depth s tr cy with
        | SNext fn c1 pc1 st1 d1 s1 tr1 cy1 => runb fuel' fn c1 pc1 st1 d1 s1 tr1 cy1
        | SEnd s1 tr1 cy1 => BEnd fuel s1 tr1 cy1
        | SHalt s1 tr1 cy1 => BOut (Halt s1 (rev tr1) cy1)
        | SLeave fn c1 pc1 st1 s1 tr1 cy1 =>
            BOut (run cfg prog inl_sem ext_call fuel' fn c1 pc1 st1 s1 tr1 cy1)
        | SFault d why fn pc1 s1 => bfault d why fn pc1 s1
        end
    end.

  Lemma runb_S : forall fuel fname c pc stack depth s tr cy,
    runb (S fuel) fname c pc stack depth s tr cy =
    match step fname c pc stack depth s tr cy with
    | SNext fn c1 pc1 st1 d1 s1 tr1 cy1 => runb fuel fn c1 pc1 st1 d1 s1 tr1 cy1
    | SEnd s1 tr1 cy1 => BEnd (S fuel) s1 tr1 cy1
    | SHalt s1 tr1 cy1 => BOut (Halt s1 (rev tr1) cy1)
    | SLeave fn c1 pc1 st1 s1 tr1 cy1 =>
        BOut (run cfg prog inl_sem ext_call fuel fn c1 pc1 st1 s1 tr1 cy1)
    | SFault d why fn pc1 s1 => bfault d why fn pc1 s1
    end.
  Proof. reflexivity. Qed.

  (** [runb] at the depth [length stack] is [run]: at depth 0 the stack is then empty, so that
      [BEnd] stands for the [Halt] of "fell off the end of the function" *)
  Theorem run_runb : forall fuel fname c pc stack s tr cy,
    run cfg prog inl_sem ext_call fuel fname c pc stack s tr cy
    = out_of (runb fuel fname c pc stack (length stack) s tr cy).
  Proof.
    induction fuel as [|fuel IH]; intros fname c pc stack s tr cy; [reflexivity|].
    rewrite runb_S. cbn [run]. unfold step.
    destruct (nth_error c pc) as [[y|m o p raw|t|]|].
    - apply IH.
    - destruct (exec cfg m o s) as [s' k fl|why]; [|rewrite out_of_bfault; reflexivity].
      destruct fl as [|l|f| |].
      + apply IH.
      + destruct (find_label l c 0) as [k'|]; [apply IH|rewrite out_of_bfault; reflexivity].
      + destruct (find_func f prog) as [c'|].
        * rewrite IH. reflexivity.
        * destruct (ext_call f s') as [s2|]; [apply IH|rewrite out_of_bfault; reflexivity].
      + destruct stack as [|[[fn c0] pc0] st']; [reflexivity|].
        destruct (pull s') as [s1 lo]. destruct (pull s1) as [s2 hi].
        cbn [length].
        destruct ((lo =? byte (255 - Z.of_nat (S (length st'))))
                  && (hi =? byte (Z.of_nat (S (length st')))))%Z;
          [apply IH|reflexivity].
      + reflexivity.
    - destruct (inl_sem t s) as [s'|]; [apply IH|rewrite out_of_bfault; reflexivity].
    - apply IH.
    - destruct stack as [|fr st]; reflexivity.
  Qed.

End Sem.
Print Assumptions run_runb.

(** * (A) Simulation between two codes that differ in their label names *)

Definition evs (p : bool) (m : mnem) (raw : string) : list event :=
  if p then [EvI m raw] else [].

(** ** Relations between traces

    [run] and [runb] are compared up to a relation [R] between events, applied pointwise: the two
    traces have the same length and their events are related one by one, in order. *)

(** the raw operand text of the event of a branch/JMP, erased *)
Definition erase_jump_raw (e : event) : event :=
  match e with
  | EvI m raw => if renames_operand m then EvI m "" else e
  | EvN _ => e
  end.

(** two events that differ at most in the raw operand text of a branch/JMP *)
Definition ev_erase (e e' : event) : Prop := erase_jump_raw e = erase_jump_raw e'.

(** [e'] is [e], or [e] is the event of a branch/JMP and [e'] is that event with its raw operand
    text renamed by [r] *)
Inductive ev_ren (r : string -> string) : event -> event -> Prop :=
| er_same : forall e, ev_ren r e e
| er_jump : forall m raw, renames_operand m = true -> ev_ren r (EvI m raw) (EvI m (r raw)).

(** everything except the events of branch/JMP instructions (the comparison used when the
    renaming cleared the protection of the renamed instructions; kept for the weak corollaries) *)
Definition keep_nonjump (e : event) : bool :=
  match e with EvI m _ => negb (renames_operand m) | EvN _ => true end.

(** the traces are equal once the raw text of the branch/JMP events is erased (same events, same
    mnemonics, same order, same number) *)
Definition same_erased (t t' : list event) : Prop := map erase_jump_raw t = map erase_jump_raw t'.
(** the traces are equal once the branch/JMP events are removed altogether *)
Definition same_nonjump (t t' : list event) : Prop := filter keep_nonjump t = filter keep_nonjump t'.

Lemma ev_ren_erase : forall r e e', ev_ren r e e' -> ev_erase e e'.
Proof.
  intros r e e' H. destruct H as [e|m raw Hm]; [reflexivity|].
  unfold ev_erase. cbn [erase_jump_raw]. rewrite Hm. reflexivity.
Qed.

Lemma Forall2_erase_map : forall t t', Forall2 ev_erase t t' <-> same_erased t t'.
Proof.
  intros t t'. unfold same_erased. split.
  - intros H. induction H as [|a b l l' Hab H IH]; [reflexivity|].
    cbn [map]. rewrite Hab, IH. reflexivity.
  - revert t'. induction t as [|a t IH]; intros [|b t'] H; cbn [map] in H;
      try discriminate H; constructor.
    + injection H as H _. exact H.
    + apply IH. injection H as _ H. exact H.
Qed.

Lemma erase_keep_nonjump : forall e e', ev_erase e e' ->
  keep_nonjump e = keep_nonjump e' /\ (keep_nonjump e = true -> e = e').
Proof.
  intros e e' H. unfold ev_erase in H.
  destruct e as [m raw|t]; destruct e' as [m' raw'|t']; cbn [erase_jump_raw] in H.
  - assert (Hm : m = m').
    { destruct (renames_operand m); destruct (renames_operand m'); congruence. }
    subst m'. cbn [keep_nonjump]. destruct (renames_operand m) eqn:Em.
    + split; [reflexivity|intros Hk; discriminate Hk].
    + split; [reflexivity|intros _; exact H].
  - destruct (renames_operand m); discriminate H.
  - destruct (renames_operand m'); discriminate H.
  - split; [reflexivity|intros _; exact H].
Qed.

Lemma same_erased_nonjump : forall t t', same_erased t t' -> same_nonjump t t'.
Proof.
  intros t t' H. apply Forall2_erase_map in H. unfold same_nonjump.
  induction H as [|a b l l' Hab H IH]; [reflexivity|].
  cbn [filter]. destruct (erase_keep_nonjump a b Hab) as [Hk He]. rewrite <- Hk.
  destruct (keep_nonjump a); [|exact IH]. rewrite (He eq_refl), IH. reflexivity.
Qed.

Lemma same_erased_length : forall t t', same_erased t t' -> length t = length t'.
Proof.
  intros t t' H. apply (f_equal (@length event)) in H. rewrite !map_length in H. exact H.
Qed.

(** outcomes: same kind, same machine state, same cycles, same fault; traces related by [T] *)
Definition outcome_rel (T : list event -> list event -> Prop) (o o' : outcome) : Prop :=
  match o, o' with
  | Halt s t cy, Halt s' t' cy' => s = s' /\ cy = cy' /\ T t t'
  | OutOfFuel s t cy, OutOfFuel s' t' cy' => s = s' /\ cy = cy' /\ T t t'
  | Faulted w f p s, Faulted w' f' p' s' => w = w' /\ f = f' /\ p = p' /\ s = s'
  | _, _ => False
  end.

Lemma outcome_rel_mono : forall (T T' : list event -> list event -> Prop) o o',
  (forall t t', T t t' -> T' t t') -> outcome_rel T o o' -> outcome_rel T' o o'.
Proof.
  intros T T' [s t cy|s t cy|w f p s] [s' t' cy'|s' t' cy'|w' f' p' s'] HT H; cbn in H |- *;
    try contradiction; try exact H.
  - destruct H as [Hs [Hc Ht]]. repeat split; try assumption. apply HT. exact Ht.
  - destruct H as [Hs [Hc Ht]]. repeat split; try assumption. apply HT. exact Ht.
Qed.

Section Sim.
  Variable cfg : config.
  Variable prog : sprogram.
  Variable inl_sem : string -> mstate -> option mstate.
  Variable ext_call : string -> mstate -> option mstate.
  (** how events are compared *)
  Variable R : event -> event -> Prop.
  Hypothesis R_refl : forall e, R e e.

  Definition tsim (t t' : list event) : Prop := Forall2 R t t'.

  (** operands: equal, except that the label operands of a branch/JMP may differ provided they
      denote the same position *)
  Definition op_sim (c c' : list sline) (m : mnem) (o o' : operand) : Prop :=
    match o, o' with
    | OLbl l, OLbl l' =>
        if renames_operand m then find_label l c 0 = find_label l' c' 0 else l = l'
    | _, _ => o = o'
    end.

  Inductive sline_sim (c c' : list sline) : sline -> sline -> Prop :=
  | ss_lbl : forall l l', sline_sim c c' (SLbl l) (SLbl l')
  | ss_inl : forall t, sline_sim c c' (SInl t) (SInl t)
  | ss_skip : sline_sim c c' SSkip SSkip
  | ss_ins : forall m o o' p p' raw raw',
      tsim (evs p m raw) (evs p' m raw') -> op_sim c c' m o o' ->
      sline_sim c c' (SIns m o p raw) (SIns m o' p' raw').

  Definition code_sim (c c' : list sline) : Prop := Forall2 (sline_sim c c') c c'.

  Definition frame_sim (f f' : frame) : Prop :=
    fst (fst f) = fst (fst f') /\ snd f = snd f' /\ code_sim (snd (fst f)) (snd (fst f')).

  Definition stack_sim (st st' : list frame) : Prop := Forall2 frame_sim st st'.

  Definition outcome_sim (o o' : outcome) : Prop := outcome_rel tsim o o'.

  Definition bres_sim (r r' : bres) : Prop :=
    match r, r' with
    | BEnd f s t cy, BEnd f' s' t' cy' => f = f' /\ s = s' /\ cy = cy' /\ tsim t t'
    | BFault0 w f p s, BFault0 w' f' p' s' => w = w' /\ f = f' /\ p = p' /\ s = s'
    | BOut o, BOut o' => outcome_sim o o'
    | _, _ => False
    end.

  Inductive sres_sim : sres -> sres -> Prop :=
  | rs_next : forall fn c c' pc st st' d s tr tr' cy,
      code_sim c c' -> stack_sim st st' -> tsim tr tr' ->
      sres_sim (SNext fn c pc st d s tr cy) (SNext fn c' pc st' d s tr' cy)
  | rs_end : forall s tr tr' cy, tsim tr tr' -> sres_sim (SEnd s tr cy) (SEnd s tr' cy)
  | rs_halt : forall s tr tr' cy, tsim tr tr' -> sres_sim (SHalt s tr cy) (SHalt s tr' cy)
  | rs_leave : forall fn c c' pc st st' s tr tr' cy,
      code_sim c c' -> stack_sim st st' -> tsim tr tr' ->
      sres_sim (SLeave fn c pc st s tr cy) (SLeave fn c' pc st' s tr' cy)
  | rs_fault : forall d w fn pc s, sres_sim (SFault d w fn pc s) (SFault d w fn pc s).

  Lemma tsim_refl : forall t, tsim t t.
  Proof. intros t. apply Forall2_same. exact R_refl. Qed.

  Lemma tsim_rev : forall t t', tsim t t' -> tsim (rev t) (rev t').
  Proof. intros t t' H. apply Forall2_rev_intro. exact H. Qed.

  Lemma tsim_cons : forall e t t', tsim t t' -> tsim (e :: t) (e :: t').
  Proof. intros e t t' H. constructor; [apply R_refl|exact H]. Qed.

  Lemma tsim_evs : forall p p' m raw raw' t t',
    tsim (evs p m raw) (evs p' m raw') -> tsim t t' ->
    tsim (if p then EvI m raw :: t else t) (if p' then EvI m raw' :: t' else t').
  Proof.
    intros p p' m raw raw' t t' He Ht.
    assert (E : forall (q : bool) r u, (if q then EvI m r :: u else u) = evs q m r ++ u)
      by (intros [|] r u; reflexivity).
    rewrite !E. apply Forall2_app; assumption.
  Qed.

  Lemma out_of_sim : forall r r', bres_sim r r' -> outcome_sim (out_of r) (out_of r').
  Proof.
    intros [f s t cy|w f p s|o] [f' s' t' cy'|w' f' p' s'|o'] H; cbn in H; try contradiction.
    - destruct H as [_ [Hs [Hc Ht]]]. cbn. repeat split; try assumption. apply tsim_rev. exact Ht.
    - exact H.
    - exact H.
  Qed.

  Lemma code_sim_refl : forall c, code_sim c c.
  Proof.
    intros c. apply Forall2_refl_in. intros x _.
    destruct x as [l|m o p raw|t|]; constructor.
    - apply tsim_refl.
    - unfold op_sim. destruct o; try reflexivity. destruct (renames_operand m); reflexivity.
  Qed.

  Lemma stack_sim_refl : forall st, stack_sim st st.
  Proof.
    intros st. apply Forall2_refl_in. intros f _. repeat split. apply code_sim_refl.
  Qed.

  (** the two instructions of similar lines do the same, or are two jumps to the same place *)
  Lemma exec_sim : forall c c' m o o' s,
    op_sim c c' m o o' ->
    (exec cfg m o s = exec cfg m o' s /\
     forall s' k l, exec cfg m o s <> XOk s' k (FGoto l))
    \/ (exists l l', renames_operand m = true /\ o = OLbl l /\ o' = OLbl l' /\
                     find_label l c 0 = find_label l' c' 0).
  Proof.
    intros c c' m o o' s H. unfold op_sim in H.
    destruct (renames_operand m) eqn:Em.
    - destruct o as [|v|y k ix|y k|l].
      1-4: subst o'; left; split; [reflexivity|];
        intros s' k0 l0 Hx; apply exec_goto in Hx; destruct Hx as [Hx _]; discriminate Hx.
      destruct o' as [|v|y k ix|y k|l']; try discriminate H.
      right. exists l, l'. repeat split. exact H.
    - left.
      assert (Ho : o = o').
      { destruct o; try exact H. destruct o'; try exact H. f_equal. exact H. }
      subst o'. split; [reflexivity|].
      intros s' k0 l0 Hx. apply exec_goto in Hx. destruct Hx as [_ Hx]. congruence.
  Qed.

  Notation stepx := (step cfg prog inl_sem ext_call).
  Notation runbx := (runb cfg prog inl_sem ext_call).
  Notation runx := (run cfg prog inl_sem ext_call).

  Lemma step_sim : forall fn c c' pc st st' d s tr tr' cy,
    code_sim c c' -> stack_sim st st' -> tsim tr tr' ->
    sres_sim (stepx fn c pc st d s tr cy) (stepx fn c' pc st' d s tr' cy).
  Proof.
    intros fn c c' pc st st' d s tr tr' cy Hc Hst Htr. unfold step.
    destruct (nth_error c pc) as [x|] eqn:Ex.
    2:{ rewrite (Forall2_nth_error_none _ _ _ _ _ _ Hc Ex).
        destruct d; constructor. exact Htr. }
    destruct (Forall2_nth_error_l _ _ _ _ _ _ _ Hc Ex) as [x' [Ex' Hx]]. rewrite Ex'.
    destruct Hx as [l l'|t| |m o o' p p' raw raw' Hev Hop].
    - constructor; assumption.
    - destruct (inl_sem t s) as [s'|]; constructor; try assumption. apply tsim_cons. exact Htr.
    - constructor; assumption.
    - pose proof (tsim_evs _ _ _ _ _ _ _ Hev Htr) as Htr1.
      assert (Hlen : length st = length st') by (apply (Forall2_len _ _ _ _ _ Hst)).
      destruct (exec_sim c c' m o o' s Hop) as [[He Hng]|[l [l' [Hm [-> [-> Hfl]]]]]].
      + rewrite <- He.
        destruct (exec cfg m o s) as [s' k fl|why]; [|constructor].
        destruct fl as [|l|f| |].
        * constructor; assumption.
        * exfalso. exact (Hng s' k l eq_refl).
        * destruct (find_func f prog) as [cf|].
          -- rewrite <- Hlen. constructor; [apply code_sim_refl| |exact Htr1].
             constructor; [|exact Hst]. repeat split. exact Hc.
          -- destruct (ext_call f s') as [s2|]; constructor; assumption.
        * destruct Hst as [|[[f0 c0] p0] [[f0' c0'] p0'] st st' Hf Hst].
          -- constructor. exact Htr1.
          -- destruct Hf as [Hf1 [Hf2 Hf3]]. cbn [fst snd] in Hf1, Hf2, Hf3. subst f0' p0'.
             cbn [length] in Hlen |- *. rewrite <- Hlen.
             destruct (pull s') as [s1 lo]. destruct (pull s1) as [s2 hi].
             match goal with |- context [(?a && ?b)%bool] => destruct (a && b)%bool end;
               [|constructor].
             destruct d; constructor; assumption.
        * constructor. exact Htr1.
      + rewrite !exec_jump by exact Hm.
        destruct (jump_taken m s).
        * rewrite <- Hfl. destruct (find_label l c 0); constructor; assumption.
        * constructor; assumption.
  Qed.

  Theorem runb_sim : forall fuel fn c c' pc st st' d s tr tr' cy,
    code_sim c c' -> stack_sim st st' -> tsim tr tr' ->
    bres_sim (runbx fuel fn c pc st d s tr cy) (runbx fuel fn c' pc st' d s tr' cy).
  Proof.
    induction fuel as [|fuel IH]; intros fn c c' pc st st' d s tr tr' cy Hc Hst Htr.
    - cbn. repeat split. apply tsim_rev. exact Htr.
    - rewrite !runb_S.
      destruct (step_sim fn c c' pc st st' d s tr tr' cy Hc Hst Htr)
        as [fn1 c1 c1' pc1 st1 st1' d1 s1 tr1 tr1' cy1 Hc1 Hst1 Htr1
           |s1 tr1 tr1' cy1 Htr1|s1 tr1 tr1' cy1 Htr1
           |fn1 c1 c1' pc1 st1 st1' s1 tr1 tr1' cy1 Hc1 Hst1 Htr1
           |d1 w fn1 pc1 s1].
      + apply IH; assumption.
      + cbn. repeat split. exact Htr1.
      + cbn. repeat split. apply tsim_rev. exact Htr1.
      + cbn [bres_sim]. rewrite !run_runb.
        rewrite <- (Forall2_len _ _ _ _ _ Hst1).
        apply out_of_sim. apply IH; assumption.
      + destruct d1; cbn; repeat split.
  Qed.

  (** the same for [run] *)
  Theorem run_sim : forall fuel fn c c' pc st st' s tr tr' cy,
    code_sim c c' -> stack_sim st st' -> tsim tr tr' ->
    outcome_sim (runx fuel fn c pc st s tr cy) (runx fuel fn c' pc st' s tr' cy).
  Proof.
    intros fuel fn c c' pc st st' s tr tr' cy Hc Hst Htr.
    rewrite !run_runb. rewrite <- (Forall2_len _ _ _ _ _ Hst).
    apply out_of_sim. apply runb_sim; assumption.
  Qed.

End Sim.
Print Assumptions runb_sim.
Print Assumptions run_sim.

(** * (A) Renaming of local labels *)

Definition rename_op (r : string -> string) (o : operand) : operand :=
  match o with OLbl l => OLbl (r l) | _ => o end.

(** the semantic counterpart of [rename_line]: labels, and the label operand and the raw operand
    text of branches and [JMP]s (not of [JSR]); the [protected] flag is kept *)
Definition rename_sline (r : string -> string) (x : sline) : sline :=
  match x with
  | SLbl l => SLbl (r l)
  | SIns m o p raw => if renames_operand m then SIns m (rename_op r o) p (r raw) else x
  | _ => x
  end.

(** [r] is injective on the labels and the jump targets of [c] *)
Definition inj_on (r : string -> string) (c : list sline) : Prop :=
  forall l1 l2, In l1 (slabels c ++ stargets c) -> In l2 (slabels c ++ stargets c) ->
                r l1 = r l2 -> l1 = l2.

(** no branch or [JMP] of [c] is protected *)
Definition unprot_jumps (c : list sline) : Prop :=
  forall m o p raw, In (SIns m o p raw) c -> renames_operand m = true -> p = false.

Lemma slabels_rename : forall r c, slabels (map (rename_sline r) c) = map r (slabels c).
Proof.
  intros r c. unfold slabels. induction c as [|x c IH]; [reflexivity|].
  cbn [map flat_map]. rewrite IH, map_app. f_equal.
  destruct x as [l|m o p raw|t|]; cbn [rename_sline]; try reflexivity.
  destruct (renames_operand m); reflexivity.
Qed.

Lemma stargets_rename : forall r c, stargets (map (rename_sline r) c) = map r (stargets c).
Proof.
  intros r c. unfold stargets. induction c as [|x c IH]; [reflexivity|].
  cbn [map flat_map]. rewrite IH, map_app. f_equal.
  destruct x as [l|m o p raw|t|]; cbn [rename_sline]; try reflexivity.
  destruct (renames_operand m) eqn:Em.
  - destruct o; cbn [rename_op]; try reflexivity. rewrite Em. reflexivity.
  - destruct o; try reflexivity. rewrite Em. reflexivity.
Qed.

Lemma sclosed_rename : forall r c, sclosed c -> sclosed (map (rename_sline r) c).
Proof.
  intros r c H l Hl. rewrite stargets_rename in Hl. rewrite slabels_rename.
  apply in_map_iff in Hl. destruct Hl as [l0 [<- Hl0]]. apply in_map. apply H. exact Hl0.
Qed.

Lemma find_label_rename : forall r l c k,
  (forall l0, In l0 (slabels c) -> r l0 = r l -> l0 = l) ->
  find_label (r l) (map (rename_sline r) c) k = find_label l c k.
Proof.
  intros r l c. induction c as [|x c IH]; intros k Hinj; [reflexivity|].
  assert (Hinj' : forall l0, In l0 (slabels c) -> r l0 = r l -> l0 = l).
  { intros l0 H0. apply Hinj. unfold slabels. cbn [flat_map]. apply in_or_app. right. exact H0. }
  cbn [map].
  destruct x as [y|m o p raw|t|]; cbn [rename_sline find_label].
  - destruct (String.eqb_spec y l) as [E|E].
    + subst y. rewrite String.eqb_refl. reflexivity.
    + destruct (String.eqb_spec (r y) (r l)) as [E'|E'].
      * exfalso. apply E. apply Hinj; [|exact E']. unfold slabels. cbn [flat_map]. left. reflexivity.
      * apply IH. exact Hinj'.
  - destruct (renames_operand m); cbn [find_label]; apply IH; exact Hinj'.
  - apply IH. exact Hinj'.
  - apply IH. exact Hinj'.
Qed.

Section Rename.
  Variable cfg : config.
  Variable prog : sprogram.
  Variable inl_sem : string -> mstate -> option mstate.
  Variable ext_call : string -> mstate -> option mstate.

  Notation runbx := (runb cfg prog inl_sem ext_call).
  Notation runx := (run cfg prog inl_sem ext_call).

  (** a renamed code simulates the original, for every reflexive comparison of events that
      relates the event of a protected branch/JMP to the same event with the renamed text *)
  Lemma rename_code_sim_gen : forall (R : event -> event -> Prop) r c,
    (forall e, R e e) ->
    inj_on r c ->
    (forall m o p raw, In (SIns m o p raw) c -> renames_operand m = true ->
                       tsim R (evs p m raw) (evs p m (r raw))) ->
    code_sim R c (map (rename_sline r) c).
  Proof.
    intros R r c Hrefl Hinj Hev. unfold code_sim. apply Forall2_map_same. intros x Hx.
    destruct x as [l|m o p raw|t|]; cbn [rename_sline]; try constructor.
    destruct (renames_operand m) eqn:Em.
    - constructor; [apply (Hev m o p raw Hx Em)|].
      unfold op_sim. destruct o as [|v|y k ix|y k|l]; cbn [rename_op]; try reflexivity.
      rewrite Em. symmetry. apply find_label_rename.
      intros l0 H0 Hr. apply Hinj; [apply in_or_app; left; exact H0| |exact Hr].
      apply in_or_app. right. apply (in_stargets c m l p raw Hx Em).
    - constructor; [apply tsim_refl; exact Hrefl|].
      unfold op_sim. destruct o; try reflexivity. rewrite Em. reflexivity.
  Qed.

  Theorem rename_code_sim : forall r c,
    inj_on r c -> code_sim (ev_ren r) c (map (rename_sline r) c).
  Proof.
    intros r c Hinj. apply rename_code_sim_gen; [apply er_same|exact Hinj|].
    intros m o p raw _ Hm. unfold tsim, evs. destruct p; constructor; [|constructor].
    apply er_jump. exact Hm.
  Qed.

  Theorem rename_code_sim_strict : forall r c,
    inj_on r c -> unprot_jumps c -> code_sim eq c (map (rename_sline r) c).
  Proof.
    intros r c Hinj Hup. apply rename_code_sim_gen; [reflexivity|exact Hinj|].
    intros m o p raw Hin Hm. rewrite (Hup m o p raw Hin Hm). constructor.
  Qed.

  (** (A), general form: same kind of outcome, same machine state, same cycles, same fault;
      the two traces have the same events in the same order, except that the raw operand text in
      the event of a (protected) branch/JMP of [c] is renamed by [r] *)
  Theorem run_rename : forall r c, inj_on r c ->
    forall fuel fname pc stack s tr cy,
    outcome_sim (ev_ren r)
      (runx fuel fname c pc stack s tr cy)
      (runx fuel fname (map (rename_sline r) c) pc stack s tr cy).
  Proof.
    intros r c Hinj fuel fname pc stack s tr cy. apply run_sim.
    - apply er_same.
    - apply rename_code_sim. exact Hinj.
    - apply stack_sim_refl. apply er_same.
    - apply tsim_refl. apply er_same.
  Qed.

  Lemma tsim_ren_erased : forall r t t', tsim (ev_ren r) t t' -> same_erased t t'.
  Proof.
    intros r t t' H. apply Forall2_erase_map.
    apply (Forall2_mono _ _ (ev_ren r) ev_erase t t' (ev_ren_erase r) H).
  Qed.

  (** corollary: the traces are equal once the raw operand text of the branch/JMP events is
      erased (in particular they have the same length) *)
  Theorem run_rename_erased : forall r c, inj_on r c ->
    forall fuel fname pc stack s tr cy,
    outcome_rel same_erased
      (runx fuel fname c pc stack s tr cy)
      (runx fuel fname (map (rename_sline r) c) pc stack s tr cy).
  Proof.
    intros r c Hinj fuel fname pc stack s tr cy.
    apply (outcome_rel_mono (tsim (ev_ren r))); [apply tsim_ren_erased|].
    apply run_rename. exact Hinj.
  Qed.

  (** corollary (the former, weaker, statement): the traces are equal once the events of
      branches and [JMP]s are removed *)
  Theorem run_rename_weak : forall r c, inj_on r c ->
    forall fuel fname pc stack s tr cy,
    outcome_rel same_nonjump
      (runx fuel fname c pc stack s tr cy)
      (runx fuel fname (map (rename_sline r) c) pc stack s tr cy).
  Proof.
    intros r c Hinj fuel fname pc stack s tr cy.
    apply (outcome_rel_mono same_erased); [apply same_erased_nonjump|].
    apply run_rename_erased. exact Hinj.
  Qed.

  Lemma outcome_sim_all_eq : forall o o', outcome_sim eq o o' -> o = o'.
  Proof.
    intros [s t cy|s t cy|w f p s] [s' t' cy'|s' t' cy'|w' f' p' s'] H; cbn in H;
      try contradiction.
    - destruct H as [-> [-> H]]. apply Forall2_eq_eq in H. subst t'. reflexivity.
    - destruct H as [-> [-> H]]. apply Forall2_eq_eq in H. subst t'. reflexivity.
    - destruct H as [-> [-> [-> ->]]]. reflexivity.
  Qed.

  (** (A), exact form, when no branch or [JMP] of [c] is protected *)
  Theorem run_rename_eq : forall r c, inj_on r c -> unprot_jumps c ->
    forall fuel fname pc stack s tr cy,
    runx fuel fname (map (rename_sline r) c) pc stack s tr cy
    = runx fuel fname c pc stack s tr cy.
  Proof.
    intros r c Hinj Hup fuel fname pc stack s tr cy. symmetry. apply outcome_sim_all_eq.
    apply run_sim.
    - reflexivity.
    - apply rename_code_sim_strict; assumption.
    - apply stack_sim_refl. reflexivity.
    - apply tsim_refl. reflexivity.
  Qed.

  (** the same for the standalone interpreter *)
  Theorem runb_rename : forall r c, inj_on r c ->
    forall fuel fname pc stack d s tr cy,
    bres_sim (ev_ren r)
      (runbx fuel fname c pc stack d s tr cy)
      (runbx fuel fname (map (rename_sline r) c) pc stack d s tr cy).
  Proof.
    intros r c Hinj fuel fname pc stack d s tr cy. apply runb_sim.
    - apply er_same.
    - apply rename_code_sim. exact Hinj.
    - apply stack_sim_refl. apply er_same.
    - apply tsim_refl. apply er_same.
  Qed.

  (** ... whose end result, in particular: when the body reaches its end, the renamed body
      reaches its end with the same fuel left, state and cycles, and a trace that differs only in
      the raw text of branch/JMP events *)
  Theorem runb_rename_end : forall r c, inj_on r c ->
    forall fuel fname pc stack d s tr cy f s' tr' cy',
    runbx fuel fname c pc stack d s tr cy = BEnd f s' tr' cy' ->
    exists tr'', runbx fuel fname (map (rename_sline r) c) pc stack d s tr cy = BEnd f s' tr'' cy'
                 /\ tsim (ev_ren r) tr' tr'' /\ same_erased tr' tr''.
  Proof.
    intros r c Hinj fuel fname pc stack d s tr cy f s' tr' cy' H.
    pose proof (runb_rename r c Hinj fuel fname pc stack d s tr cy) as HA. rewrite H in HA.
    destruct (runbx fuel fname (map (rename_sline r) c) pc stack d s tr cy)
      as [f2 s2 t2 cy2|w fn pc2 s2|o]; cbn [bres_sim] in HA; try contradiction.
    destruct HA as [<- [<- [<- Ht]]]. exists t2. split; [reflexivity|]. split; [exact Ht|].
    apply (tsim_ren_erased r). exact Ht.
  Qed.

End Rename.
Print Assumptions rename_code_sim.
Print Assumptions rename_code_sim_strict.
Print Assumptions run_rename.
Print Assumptions run_rename_erased.
Print Assumptions run_rename_weak.
Print Assumptions run_rename_eq.
Print Assumptions runb_rename.
Print Assumptions runb_rename_end.

(** * (A) Connection with the model of [append_code] *)

(** the operand of every branch and [JMP] is not empty (an empty operand is not a label for
    [parse_operand], but its suffixed form is) *)
Definition jump_ops_nonempty (c : code) : Prop :=
  forall i, In (Ins i) c -> renames_operand (i_mn i) = true -> i_op i <> ""%string.

Lemma suffix_nonempty : forall n l, String.eqb (l ++ inline_suffix n)%string "" = false.
Proof. intros n [|a l]; reflexivity. Qed.

Lemma renames_takes_label : forall m, renames_operand m = true -> takes_label m = true.
Proof. intros m H. destruct m; try discriminate H; reflexivity. Qed.

Lemma sline_of_rename : forall n x sx,
  sline_of x = Some sx ->
  (forall i, x = Ins i -> renames_operand (i_mn i) = true -> i_op i <> ""%string) ->
  sline_of (rename_line n x) = Some (rename_sline (suffix_of n) sx).
Proof.
  intros n x sx H Hne.
  destruct x as [l|i|t sz|cm|]; cbn [sline_of rename_line] in *.
  - injection H as <-. reflexivity.
  - destruct (renames_operand (i_mn i)) eqn:Em.
    + cbn [sline_of i_mn i_op i_prot].
      unfold parse_operand in *.
      rewrite suffix_nonempty, (renames_takes_label _ Em) in *.
      destruct (String.eqb_spec (i_op i) "") as [E|E]; [exfalso; exact (Hne i eq_refl Em E)|].
      injection H as <-. cbn [rename_sline]. rewrite Em. reflexivity.
    + cbn [sline_of].
      destruct (parse_operand (i_mn i) (i_op i)) as [o|]; [|discriminate H].
      injection H as <-. cbn [rename_sline]. rewrite Em. reflexivity.
  - injection H as <-. reflexivity.
  - injection H as <-. reflexivity.
  - injection H as <-. reflexivity.
Qed.

Theorem slines_of_rename : forall n c sc,
  slines_of c = Some sc -> jump_ops_nonempty c ->
  slines_of (map (rename_line n) c) = Some (map (rename_sline (suffix_of n)) sc).
Proof.
  intros n c. induction c as [|x c IH]; intros sc H Hne.
  - injection H as <-. reflexivity.
  - cbn [slines_of map] in *.
    destruct (sline_of x) as [sx|] eqn:Ex; [|discriminate H].
    destruct (slines_of c) as [sc0|] eqn:Ec; [|discriminate H].
    injection H as <-.
    rewrite (sline_of_rename n x sx Ex).
    + rewrite (IH sc0 eq_refl); [reflexivity|].
      intros i Hi. apply Hne. right. exact Hi.
    + intros i -> . apply Hne. left. reflexivity.
Qed.
Print Assumptions slines_of_rename.

Lemma suffix_inj_on : forall n c, inj_on (suffix_of n) c.
Proof. intros n c l1 l2 _ _ H. exact (suffix_of_inj_same n l1 l2 H). Qed.

(** * (B) Embedding of a closed piece of code with fresh labels into a larger code *)

Lemma find_label_shift : forall l c k,
  find_label l c k = option_map (fun j => k + j) (find_label l c 0).
Proof.
  intros l c. induction c as [|x c IH]; intros k; [reflexivity|].
  cbn [find_label].
  assert (Hrec : find_label l c (S k) = option_map (fun j => k + j) (find_label l c 1)).
  { rewrite (IH (S k)), (IH 1). destruct (find_label l c 0) as [j|]; cbn [option_map]; [|reflexivity].
    f_equal. lia. }
  destruct x as [y|m o p raw|t|]; try exact Hrec.
  destruct (String.eqb y l); [|exact Hrec]. cbn [option_map]. f_equal. lia.
Qed.

Section Embed.
  Variable cfg : config.
  Variable prog : sprogram.
  Variable inl_sem : string -> mstate -> option mstate.
  Variable ext_call : string -> mstate -> option mstate.

  Notation stepx := (step cfg prog inl_sem ext_call).
  Notation runbx := (runb cfg prog inl_sem ext_call).
  Notation runx := (run cfg prog inl_sem ext_call).

  (** the function [fname0], whose code is [pre ++ body ++ post], runs with the stack [base] *)
  Variable fname0 : string.
  Variable pre body post : list sline.
  Variable base : list frame.

  Hypothesis body_closed : sclosed body.
  Hypothesis body_fresh : forall l, In l (slabels body) -> ~ In l (slabels pre).

  Let BIG := pre ++ body ++ post.
  Let off := length pre.

  Lemma nth_error_big : forall pc, pc < length body -> nth_error BIG (off + pc) = nth_error body pc.
  Proof.
    intros pc H. unfold BIG, off.
    rewrite nth_error_app2 by lia.
    replace (length pre + pc - length pre) with pc by lia.
    apply nth_error_app1. exact H.
  Qed.

  Lemma find_label_big : forall l, In l (stargets body) ->
    exists j, find_label l body 0 = Some j /\ find_label l BIG 0 = Some (off + j) /\ j < length body.
  Proof.
    intros l Hl. pose proof (body_closed l Hl) as Hin.
    destruct (find_label_in l body 0 Hin) as [j [Hj Hlt]]. cbn [plus] in Hj.
    exists j. split; [exact Hj|]. split; [|exact Hlt].
    unfold BIG. rewrite find_label_notin_app by (apply body_fresh; exact Hin).
    rewrite find_label_shift. rewrite (find_label_in_app l body post 0 j Hj).
    reflexivity.
  Qed.

  (** stacks of a callee (transitively) called from the body: the bottom local frame returns
      into the body, resp. into the big code at the shifted position *)
  Inductive stk_emb : nat -> list frame -> list frame -> Prop :=
  | se_base : forall p, p <= length body ->
      stk_emb 1 ((fname0, body, p) :: base) ((fname0, BIG, off + p) :: base)
  | se_cons : forall d f l L, stk_emb d l L -> stk_emb (S d) (f :: l) (f :: L).

  Inductive conf_emb : string -> list sline -> nat -> list frame -> nat ->
                       string -> list sline -> nat -> list frame -> Prop :=
  | ce_body : forall pc, pc <= length body ->
      conf_emb fname0 body pc base 0 fname0 BIG (off + pc) base
  | ce_callee : forall f c pc d l L, stk_emb d l L ->
      conf_emb f c pc l d f c pc L.

  Inductive sres_emb : sres -> sres -> Prop :=
  | re_next : forall fn c pc st d fn' C PC ST s tr cy,
      conf_emb fn c pc st d fn' C PC ST ->
      sres_emb (SNext fn c pc st d s tr cy) (SNext fn' C PC ST (length ST) s tr cy)
  | re_halt : forall s tr cy, sres_emb (SHalt s tr cy) (SHalt s tr cy)
  | re_leave : forall fn c pc st s tr cy,
      sres_emb (SLeave fn c pc st s tr cy) (SNext fn c pc st (length st) s tr cy)
  | re_fault0 : forall D w fn pc s, sres_emb (SFault 0 w fn pc s) (SFault D w fn (off + pc) s)
  | re_faultS : forall d D w fn pc s, sres_emb (SFault (S d) w fn pc s) (SFault (S D) w fn pc s).

  Lemma stk_emb_length : forall d l L, stk_emb d l L -> length l = length L /\ exists d', d = S d'.
  Proof.
    intros d l L H. induction H as [p Hp|d f l L H [IH _]].
    - split; [reflexivity|]. exists 0. reflexivity.
    - split; [cbn [length]; rewrite IH; reflexivity|]. exists d. reflexivity.
  Qed.

  (** one step inside the body *)
  Lemma step_body : forall pc s tr cy, pc < length body ->
    sres_emb (stepx fname0 body pc base 0 s tr cy)
             (stepx fname0 BIG (off + pc) base (length base) s tr cy).
  Proof.
    intros pc s tr cy Hpc. unfold step. rewrite (nth_error_big pc Hpc).
    destruct (nth_error body pc) as [x|] eqn:Ex; [|apply nth_error_None in Ex; lia].
    assert (Hnext : forall s1 tr1 cy1,
      sres_emb (SNext fname0 body (S pc) base 0 s1 tr1 cy1)
               (SNext fname0 BIG (S (off + pc)) base (length base) s1 tr1 cy1)).
    { intros s1 tr1 cy1. rewrite <- Nat.add_succ_r. constructor. constructor. lia. }
    destruct x as [y|m o p raw|t|].
    - apply Hnext.
    - destruct (exec cfg m o s) as [s' k fl|why] eqn:Eexec; [|constructor].
      destruct fl as [|l|f| |].
      + apply Hnext.
      + apply exec_goto in Eexec. destruct Eexec as [-> Hm].
        destruct (find_label_big l) as [j [Hj [HJ Hlt]]].
        { apply (in_stargets body m l p raw); [|exact Hm]. apply (nth_error_In _ _ Ex). }
        rewrite Hj, HJ. constructor. constructor. lia.
      + destruct (find_func f prog) as [cf|].
        * change (S (length base)) with (length ((fname0, BIG, S (off + pc)) :: base)).
          rewrite <- Nat.add_succ_r.
          constructor. apply ce_callee. constructor. lia.
        * destruct (ext_call f s') as [s2|]; [apply Hnext|constructor].
      + destruct base as [|[[fn c0] pc0] st']; [constructor|].
        destruct (pull s') as [s1 lo]. destruct (pull s1) as [s2 hi].
        match goal with |- context [(?a && ?b)%bool] => destruct (a && b)%bool end;
          [|constructor].
        cbn [length]. constructor.
      + constructor.
    - destruct (inl_sem t s) as [s'|]; [apply Hnext|constructor].
    - apply Hnext.
  Qed.

  (** one step inside a callee *)
  Lemma step_callee : forall f c pc d l L s tr cy, stk_emb d l L ->
    sres_emb (stepx f c pc l d s tr cy) (stepx f c pc L (length L) s tr cy).
  Proof.
    intros f c pc d l L s tr cy H.
    destruct (stk_emb_length d l L H) as [Hlen [d' Hd]].
    assert (HL : exists n, length L = S n).
    { destruct H; cbn [length]; eexists; reflexivity. }
    destruct HL as [nL HnL].
    assert (Hnext : forall pc1 s1 tr1 cy1,
      sres_emb (SNext f c pc1 l d s1 tr1 cy1) (SNext f c pc1 L (length L) s1 tr1 cy1)).
    { intros pc1 s1 tr1 cy1. constructor. constructor. exact H. }
    unfold step.
    destruct (nth_error c pc) as [[y|m o p raw|t|]|].
    - apply Hnext.
    - destruct (exec cfg m o s) as [s' k fl|why];
        [|rewrite Hd, HnL; constructor].
      destruct fl as [|lb|g| |].
      + apply Hnext.
      + destruct (find_label lb c 0) as [k'|]; [apply Hnext|rewrite Hd, HnL; constructor].
      + destruct (find_func g prog) as [cg|].
        * rewrite Hlen.
          change (S (length L)) with (length ((f, c, S pc) :: L)).
          constructor. apply ce_callee. constructor. exact H.
        * destruct (ext_call g s') as [s2|]; [apply Hnext|rewrite Hd, HnL; constructor].
      + destruct H as [p0 Hp0|d0 fr l L H].
        * cbn [length].
          destruct (pull s') as [s1 lo]. destruct (pull s1) as [s2 hi].
          match goal with |- context [(?a && ?b)%bool] => destruct (a && b)%bool end;
            [|constructor].
          constructor. constructor. exact Hp0.
        * destruct fr as [[fn c0] pc0]. cbn [length] in *. rewrite Hlen.
          destruct (pull s') as [s1 lo]. destruct (pull s1) as [s2 hi].
          match goal with |- context [(?a && ?b)%bool] => destruct (a && b)%bool end;
            [|constructor].
          constructor. apply ce_callee. exact H.
      + constructor.
    - destruct (inl_sem t s) as [s'|]; [apply Hnext|rewrite Hd, HnL; constructor].
    - apply Hnext.
    - rewrite Hd, HnL. constructor.
  Qed.

  (** what the embedded run does, given the result of the standalone run *)
  Definition emb_res (r : bres) (o : outcome) : Prop :=
    match r with
    | BEnd f s tr cy => o = runx f fname0 BIG (off + length body) base s tr cy
    | BFault0 w fn pc s => o = Faulted w fn (off + pc) s
    | BOut o0 => o = o0
    end.

  Definition after (fuel : nat) (r : sres) : bres :=
    match r with
    | SNext fn c1 pc1 st1 d1 s1 tr1 cy1 => runbx fuel fn c1 pc1 st1 d1 s1 tr1 cy1
    | SEnd s1 tr1 cy1 => BEnd (S fuel) s1 tr1 cy1
    | SHalt s1 tr1 cy1 => BOut (Halt s1 (rev tr1) cy1)
    | SLeave fn c1 pc1 st1 s1 tr1 cy1 => BOut (runx fuel fn c1 pc1 st1 s1 tr1 cy1)
    | SFault d why fn pc1 s1 => bfault d why fn pc1 s1
    end.

  Lemma runb_after : forall fuel fn c pc st d s tr cy,
    runbx (S fuel) fn c pc st d s tr cy = after fuel (stepx fn c pc st d s tr cy).
  Proof. reflexivity. Qed.

  Lemma after_emb : forall fuel r R,
    (forall fn c pc st d fn' C PC ST s tr cy,
       conf_emb fn c pc st d fn' C PC ST ->
       emb_res (runbx fuel fn c pc st d s tr cy)
               (out_of (runbx fuel fn' C PC ST (length ST) s tr cy))) ->
    sres_emb r R -> emb_res (after fuel r) (out_of (after fuel R)).
  Proof.
    intros fuel r R IH H.
    destruct H as [fn c pc st d fn' C PC ST s tr cy H|s tr cy|fn c pc st s tr cy
                  |D w fn pc s|d D w fn pc s]; cbn [after].
    - apply IH. exact H.
    - reflexivity.
    - cbn [emb_res]. symmetry. apply run_runb.
    - cbn [bfault emb_res]. apply out_of_bfault.
    - cbn [bfault emb_res]. reflexivity.
  Qed.

  Lemma runb_emb : forall fuel fn c pc st d fn' C PC ST s tr cy,
    conf_emb fn c pc st d fn' C PC ST ->
    emb_res (runbx fuel fn c pc st d s tr cy)
            (out_of (runbx fuel fn' C PC ST (length ST) s tr cy)).
  Proof.
    induction fuel as [|fuel IH]; intros fn c pc st d fn' C PC ST s tr cy H; [reflexivity|].
    destruct H as [pc Hpc|f c pc d l L H].
    - destruct (Nat.eq_dec pc (length body)) as [E|E].
      + subst pc. rewrite (runb_after fuel fname0 body). unfold step.
        assert (Hn : nth_error body (length body) = None) by (apply nth_error_None; lia).
        rewrite Hn. cbn [after emb_res]. symmetry. apply run_runb.
      + rewrite !runb_after. apply after_emb; [exact IH|]. apply step_body. lia.
    - rewrite !runb_after. apply after_emb; [exact IH|]. apply step_callee. exact H.
  Qed.

  (** (B): the run of [pre ++ body ++ post] from the line [k] of the body, given the
      standalone run of the body from [k] (depth 0) with the same fuel, function name, stack,
      machine state, trace and cycles:
      - the body reaches its end with [f] steps left: the embedded run goes on from the first
        line after the body with that fuel and the same state, trace and cycles;
      - a fault inside the body: the same fault, at the shifted line;
      - anything else (out of fuel, [RTS] at depth 0 into the enclosing frame and what follows,
        [RTS] with the empty stack, [RTI], a fault inside a callee): the very same outcome. *)
  Theorem embed_run : forall fuel k s tr cy, k <= length body ->
    emb_res (runbx fuel fname0 body k base 0 s tr cy)
            (runx fuel fname0 BIG (off + k) base s tr cy).
  Proof.
    intros fuel k s tr cy Hk. rewrite run_runb. apply runb_emb. constructor. exact Hk.
  Qed.

End Embed.
Print Assumptions embed_run.

(** * (C) The block appended by [push_code] *)

Lemma slines_of_app : forall a b sa sb,
  slines_of a = Some sa -> slines_of b = Some sb -> slines_of (a ++ b) = Some (sa ++ sb).
Proof.
  induction a as [|x a IH]; intros b sa sb Ha Hb.
  - injection Ha as <-. exact Hb.
  - cbn [app slines_of] in *.
    destruct (sline_of x) as [sx|]; [|discriminate Ha].
    destruct (slines_of a) as [sa0|]; [|discriminate Ha].
    injection Ha as <-. rewrite (IH b sa0 sb eq_refl Hb). reflexivity.
Qed.

Lemma slines_of_length : forall c sc, slines_of c = Some sc -> length sc = length c.
Proof.
  induction c as [|x c IH]; intros sc H.
  - injection H as <-. reflexivity.
  - cbn [slines_of] in H.
    destruct (sline_of x) as [sx|]; [|discriminate H].
    destruct (slines_of c) as [sc0|]; [|discriminate H].
    injection H as <-. cbn [length]. rewrite (IH sc0 eq_refl). reflexivity.
Qed.

Lemma slabels_of : forall c sc, slines_of c = Some sc -> slabels sc = all_labels c.
Proof.
  induction c as [|x c IH]; intros sc H.
  - injection H as <-. reflexivity.
  - cbn [slines_of] in H.
    destruct (sline_of x) as [sx|] eqn:Ex; [|discriminate H].
    destruct (slines_of c) as [sc0|]; [|discriminate H].
    injection H as <-. unfold slabels, all_labels in *. cbn [flat_map].
    rewrite (IH sc0 eq_refl). f_equal.
    destruct x as [l|i|t sz|cm|]; cbn [sline_of] in Ex.
    + injection Ex as <-. reflexivity.
    + destruct (parse_operand (i_mn i) (i_op i)); [|discriminate Ex]. injection Ex as <-. reflexivity.
    + injection Ex as <-. reflexivity.
    + injection Ex as <-. reflexivity.
    + injection Ex as <-. reflexivity.
Qed.

Lemma stargets_of : forall c sc, slines_of c = Some sc ->
  forall l, In l (stargets sc) -> In l (local_targets c).
Proof.
  induction c as [|x c IH]; intros sc H l Hl.
  - injection H as <-. destruct Hl.
  - cbn [slines_of] in H.
    destruct (sline_of x) as [sx|] eqn:Ex; [|discriminate H].
    destruct (slines_of c) as [sc0|]; [|discriminate H].
    injection H as <-. unfold stargets in Hl. cbn [flat_map] in Hl.
    unfold local_targets. cbn [flat_map]. apply in_or_app.
    apply in_app_or in Hl. destruct Hl as [Hl|Hl]; [left|right; apply (IH sc0 eq_refl); exact Hl].
    destruct x as [y|i|t sz|cm|]; cbn [sline_of] in Ex.
    + injection Ex as <-. destruct Hl.
    + rewrite local_target_renames.
      destruct (parse_operand (i_mn i) (i_op i)) as [o|] eqn:Ep; [|discriminate Ex].
      injection Ex as <-.
      destruct (renames_operand (i_mn i)) eqn:Em.
      * unfold parse_operand in Ep. rewrite (renames_takes_label _ Em) in Ep.
        destruct (String.eqb (i_op i) ""); injection Ep as <-; [destruct Hl|exact Hl].
      * destruct o; destruct Hl.
    + injection Ex as <-. destruct Hl.
    + injection Ex as <-. destruct Hl.
    + injection Ex as <-. destruct Hl.
Qed.

Section Inline.
  Variable cfg : config.
  Variable prog : sprogram.
  Variable inl_sem : string -> mstate -> option mstate.
  Variable ext_call : string -> mstate -> option mstate.

  Notation runbx := (runb cfg prog inl_sem ext_call).
  Notation runx := (run cfg prog inl_sem ext_call).

  (** (A) and (B) together, on semantic code: a block [blk'] that simulates [blk] (traces
      compared by [T]), is closed and has fresh labels, put between [pre] and [post] *)
  Definition block_spec (T : list event -> list event -> Prop)
             (pre blk' post blk : list sline) : Prop :=
    forall fname stack fuel s tr cy,
    match runbx fuel fname blk 0 stack 0 s tr cy with
    | BEnd f s' tr' cy' =>
        exists tr'', T tr' tr'' /\
          runx fuel fname (pre ++ blk' ++ post) (length pre) stack s tr cy
          = runx f fname (pre ++ blk' ++ post) (length pre + length blk') stack s' tr'' cy'
    | BFault0 w fn pc s' =>
        runx fuel fname (pre ++ blk' ++ post) (length pre) stack s tr cy
        = Faulted w fn (length pre + pc) s'
    | BOut o =>
        outcome_rel T o (runx fuel fname (pre ++ blk' ++ post) (length pre) stack s tr cy)
    end.

  Lemma block_spec_mono : forall (T T' : list event -> list event -> Prop) pre blk' post blk,
    (forall t t', T t t' -> T' t t') ->
    block_spec T pre blk' post blk -> block_spec T' pre blk' post blk.
  Proof.
    intros T T' pre blk' post blk HT H fname stack fuel s tr cy.
    specialize (H fname stack fuel s tr cy).
    destruct (runbx fuel fname blk 0 stack 0 s tr cy) as [f s1 t1 cy1|w fn pc s1|o].
    - destruct H as [t2 [Ht H]]. exists t2. split; [apply HT; exact Ht|exact H].
    - exact H.
    - apply (outcome_rel_mono T T' _ _ HT H).
  Qed.

  Theorem block_run : forall (R : event -> event -> Prop) pre blk blk' post,
    (forall e, R e e) ->
    code_sim R blk blk' -> sclosed blk' ->
    (forall l, In l (slabels blk') -> ~ In l (slabels pre)) ->
    block_spec (tsim R) pre blk' post blk.
  Proof.
    intros R pre blk blk' post Hrefl Hsim Hcl Hfr fname stack fuel s tr cy.
    pose proof (runb_sim cfg prog inl_sem ext_call R Hrefl fuel fname blk blk' 0 stack stack 0
                         s tr tr cy Hsim (stack_sim_refl R Hrefl stack) (tsim_refl R Hrefl tr))
      as HA.
    pose proof (embed_run cfg prog inl_sem ext_call fname pre blk' post stack Hcl Hfr
                          fuel 0 s tr cy (Nat.le_0_l _)) as HB.
    rewrite Nat.add_0_r in HB. unfold emb_res in HB.
    destruct (runbx fuel fname blk 0 stack 0 s tr cy) as [f s1 t1 cy1|w fn pc s1|o];
      destruct (runbx fuel fname blk' 0 stack 0 s tr cy) as [f' s1' t1' cy1'|w' fn' pc' s1'|o'];
      cbn [bres_sim] in HA; try contradiction.
    - destruct HA as [-> [-> [-> Ht]]]. exists t1'. split; [exact Ht|exact HB].
    - destruct HA as [-> [-> [-> ->]]]. exact HB.
    - rewrite HB. exact HA.
  Qed.

  (** (C) *)
  Definition endof_label (n : N) : string := (".endofinline" ++ string_of_N n)%string.

  Lemma push_code_slines : forall (dst body : code) (n : N) sd sb,
    slines_of dst = Some sd -> slines_of body = Some sb -> jump_ops_nonempty body ->
    slines_of (push_code dst body n)
    = Some (sd ++ map (rename_sline (suffix_of n)) (sb ++ [SLbl ".endof"])).
  Proof.
    intros dst body n sd sb Hd Hb Hne. unfold push_code, append_code.
    rewrite map_app, app_assoc. apply slines_of_app.
    - apply slines_of_app; [exact Hd|]. apply slines_of_rename; assumption.
    - reflexivity.
  Qed.

  Lemma inlined_block_closed : forall (body : code) sb n,
    slines_of body = Some sb ->
    (forall t, In t (local_targets body) -> In t (all_labels body) \/ t = ".endof"%string) ->
    sclosed (map (rename_sline (suffix_of n)) (sb ++ [SLbl ".endof"])).
  Proof.
    intros body sb n Hb Hcl. apply sclosed_rename. intros l Hl.
    rewrite stargets_app in Hl. cbn in Hl. rewrite app_nil_r in Hl.
    rewrite slabels_app. apply in_or_app.
    destruct (Hcl l (stargets_of body sb Hb l Hl)) as [H|H].
    - left. rewrite (slabels_of body sb Hb). exact H.
    - right. left. symmetry. exact H.
  Qed.

  Lemma inlined_block_fresh : forall (dst : code) sd sbE n,
    slines_of dst = Some sd ->
    (forall l, In l (all_labels dst) -> forall l0, l <> suffix_of n l0) ->
    forall l, In l (slabels (map (rename_sline (suffix_of n)) sbE)) -> ~ In l (slabels sd).
  Proof.
    intros dst sd sbE n Hd Hfr l Hl Hin. rewrite slabels_rename in Hl.
    apply in_map_iff in Hl. destruct Hl as [l0 [Hl0 _]].
    rewrite (slabels_of dst sd Hd) in Hin. exact (Hfr l Hin l0 (eq_sym Hl0)).
  Qed.

  (** The code made by [push_code dst body n] (whatever follows it, [post]), started at its
      line [length dst], does what the body followed by its [.endof] label does standalone
      ([runb], depth 0, same fuel, function name, stack, state, trace, cycles), namely:
      - the body runs to its end (past [.endof]) with [f] steps left: the big code arrives just
        after the line [.endofinline<n>] with [f] steps left, the same machine state and cycles
        and the same trace up to the raw operand text (suffixed) of the events of the protected
        branches/JMPs of the body;
      - fault in the body: same fault at the shifted line;
      - any other end: similar outcomes. *)
  Theorem push_code_run : forall (dst body : code) (n : N) (sd sb : list sline),
    slines_of dst = Some sd -> slines_of body = Some sb ->
    jump_ops_nonempty body ->
    (forall t, In t (local_targets body) -> In t (all_labels body) \/ t = ".endof"%string) ->
    (forall l, In l (all_labels dst) -> forall l0, l <> suffix_of n l0) ->
    let blk' := map (rename_sline (suffix_of n)) (sb ++ [SLbl ".endof"]) in
    slines_of (push_code dst body n) = Some (sd ++ blk') /\
    nth_error (sd ++ blk') (length sd + length sb) = Some (SLbl (endof_label n)) /\
    length blk' = S (length sb) /\
    forall post, block_spec (tsim (ev_ren (suffix_of n))) sd blk' post (sb ++ [SLbl ".endof"]).
  Proof.
    intros dst body n sd sb Hd Hb Hne Hcl Hfr blk'. split; [|split; [|split]].
    - apply push_code_slines; assumption.
    - rewrite nth_error_app2 by lia.
      replace (length sd + length sb - length sd) with (length sb) by lia.
      unfold blk'. rewrite map_app. rewrite nth_error_app2 by (rewrite map_length; lia).
      rewrite map_length, Nat.sub_diag. reflexivity.
    - unfold blk'. rewrite map_length, app_length. cbn [length]. lia.
    - intros post. apply block_run.
      + apply er_same.
      + apply rename_code_sim. apply suffix_inj_on.
      + apply (inlined_block_closed body sb n Hb Hcl).
      + apply (inlined_block_fresh dst sd _ n Hd Hfr).
  Qed.

  (** corollaries: the traces compared after erasing the raw operand text of branch/JMP events,
      and (the former, weaker, statement) after removing these events *)
  Theorem push_code_run_erased : forall (dst body : code) (n : N) (sd sb : list sline),
    slines_of dst = Some sd -> slines_of body = Some sb ->
    jump_ops_nonempty body ->
    (forall t, In t (local_targets body) -> In t (all_labels body) \/ t = ".endof"%string) ->
    (forall l, In l (all_labels dst) -> forall l0, l <> suffix_of n l0) ->
    forall post,
      block_spec same_erased sd (map (rename_sline (suffix_of n)) (sb ++ [SLbl ".endof"])) post
                 (sb ++ [SLbl ".endof"]).
  Proof.
    intros dst body n sd sb Hd Hb Hne Hcl Hfr post.
    apply (block_spec_mono (tsim (ev_ren (suffix_of n)))); [apply tsim_ren_erased|].
    apply (push_code_run dst body n sd sb Hd Hb Hne Hcl Hfr).
  Qed.

  Theorem push_code_run_weak : forall (dst body : code) (n : N) (sd sb : list sline),
    slines_of dst = Some sd -> slines_of body = Some sb ->
    jump_ops_nonempty body ->
    (forall t, In t (local_targets body) -> In t (all_labels body) \/ t = ".endof"%string) ->
    (forall l, In l (all_labels dst) -> forall l0, l <> suffix_of n l0) ->
    forall post,
      block_spec same_nonjump sd (map (rename_sline (suffix_of n)) (sb ++ [SLbl ".endof"])) post
                 (sb ++ [SLbl ".endof"]).
  Proof.
    intros dst body n sd sb Hd Hb Hne Hcl Hfr post.
    apply (block_spec_mono same_erased); [apply same_erased_nonjump|].
    apply (push_code_run_erased dst body n sd sb Hd Hb Hne Hcl Hfr).
  Qed.

  (** exact form of [block_spec], when all events are compared *)
  Definition block_spec_eq (pre blk' post blk : list sline) : Prop :=
    forall fname stack fuel s tr cy,
    match runbx fuel fname blk 0 stack 0 s tr cy with
    | BEnd f s' tr' cy' =>
        runx fuel fname (pre ++ blk' ++ post) (length pre) stack s tr cy
        = runx f fname (pre ++ blk' ++ post) (length pre + length blk') stack s' tr' cy'
    | BFault0 w fn pc s' =>
        runx fuel fname (pre ++ blk' ++ post) (length pre) stack s tr cy
        = Faulted w fn (length pre + pc) s'
    | BOut o => runx fuel fname (pre ++ blk' ++ post) (length pre) stack s tr cy = o
    end.

  Lemma block_spec_all : forall pre blk' post blk,
    block_spec (tsim eq) pre blk' post blk -> block_spec_eq pre blk' post blk.
  Proof.
    intros pre blk' post blk H fname stack fuel s tr cy.
    specialize (H fname stack fuel s tr cy).
    destruct (runbx fuel fname blk 0 stack 0 s tr cy) as [f s1 t1 cy1|w fn pc s1|o].
    - destruct H as [t2 [Ht H]]. apply Forall2_eq_eq in Ht. subst t2. exact H.
    - exact H.
    - symmetry. apply outcome_sim_all_eq. exact H.
  Qed.

  (** (C) when no branch or [JMP] of the body is protected: traces are equal *)
  Theorem push_code_run_eq : forall (dst body : code) (n : N) (sd sb : list sline),
    slines_of dst = Some sd -> slines_of body = Some sb ->
    jump_ops_nonempty body -> unprot_jumps sb ->
    (forall t, In t (local_targets body) -> In t (all_labels body) \/ t = ".endof"%string) ->
    (forall l, In l (all_labels dst) -> forall l0, l <> suffix_of n l0) ->
    forall post,
      block_spec_eq sd (map (rename_sline (suffix_of n)) (sb ++ [SLbl ".endof"])) post
                    (sb ++ [SLbl ".endof"]).
  Proof.
    intros dst body n sd sb Hd Hb Hne Hup Hcl Hfr post.
    apply block_spec_all. apply block_run.
    - reflexivity.
    - apply rename_code_sim_strict; [apply suffix_inj_on|].
      intros m o p raw Hin Hm. apply in_app_or in Hin. destruct Hin as [Hin|[Hin|[]]].
      + exact (Hup m o p raw Hin Hm).
      + discriminate Hin.
    - apply (inlined_block_closed body sb n Hb Hcl).
    - apply (inlined_block_fresh dst sd _ n Hd Hfr).
  Qed.

End Inline.
Print Assumptions block_run.
Print Assumptions push_code_run.
Print Assumptions push_code_run_erased.
Print Assumptions push_code_run_weak.
Print Assumptions push_code_run_eq.

(** * Non-vacuity: a body with a loop (backward branch), protected instructions and a jump to
      [.endof], inlined with the counter 7 after a destination that has a label *)

Definition ex_body : code :=
  [ Ins (mkI LDX "#3" 2 None 2 false);
    Lbl ".loop";
    Ins (mkI DEX "" 2 None 1 true);
    Ins (mkI BNE ".loop" 2 (Some 3%N) 2 true);
    Ins (mkI JMP ".endof" 3 None 3 false);
    Ins (mkI LDX "#9" 2 None 2 false) ].
Definition ex_dst : code := [ Lbl "main"; Ins (mkI LDA "#1" 2 None 2 false) ].
Definition ex_sb : list sline :=
  [ SIns LDX (OImm (INum 3)) false "#3"; SLbl ".loop"; SIns DEX ONone true "";
    SIns BNE (OLbl ".loop") true ".loop"; SIns JMP (OLbl ".endof") false ".endof";
    SIns LDX (OImm (INum 9)) false "#9" ].
Definition ex_sd : list sline := [ SLbl "main"; SIns LDA (OImm (INum 1)) false "#1" ].
Definition ex_post : list sline := [ SIns RTS ONone false "" ].
Definition ex_big : list sline :=
  ex_sd ++ map (rename_sline (suffix_of 7)) (ex_sb ++ [SLbl ".endof"]).
Definition ex_cfg : config := mkCfg (fun _ => None) [].
Definition ex_none : string -> mstate -> option mstate := fun _ _ => None.
Definition ex_s0 : mstate := mkS 0 0 0 255 false false false false mem_empty.
Definition ex_s1 : mstate := mkS 0 0 0 255 false false true false mem_empty.

Example ex_slines : slines_of ex_dst = Some ex_sd /\ slines_of ex_body = Some ex_sb.
Proof. split; vm_compute; reflexivity. Qed.

Example ex_big_is_push_code :
  slines_of (push_code ex_dst ex_body 7) = Some ex_big /\
  ex_big = [ SLbl "main"; SIns LDA (OImm (INum 1)) false "#1";
             SIns LDX (OImm (INum 3)) false "#3"; SLbl ".loopinline7";
             SIns DEX ONone true "";
             SIns BNE (OLbl ".loopinline7") true ".loopinline7";
             SIns JMP (OLbl ".endofinline7") false ".endofinline7";
             SIns LDX (OImm (INum 9)) false "#9"; SLbl ".endofinline7" ].
Proof. split; vm_compute; reflexivity. Qed.

Example ex_nonempty : jump_ops_nonempty ex_body.
Proof.
  intros i Hin Hm E. cbn [ex_body In] in Hin.
  repeat (destruct Hin as [Hin|Hin];
          [try discriminate Hin; injection Hin as <-; cbn in Hm, E;
           first [discriminate Hm|discriminate E]|]).
  destruct Hin.
Qed.

Example ex_closed :
  forall t, In t (local_targets ex_body) -> In t (all_labels ex_body) \/ t = ".endof"%string.
Proof.
  intros t Ht. cbn in Ht. destruct Ht as [<-|[<-|[]]].
  - left. cbn. left. reflexivity.
  - right. reflexivity.
Qed.

Example ex_fresh : forall l, In l (all_labels ex_dst) -> forall l0, l <> suffix_of 7 l0.
Proof.
  intros l Hl l0 E. cbn in Hl. destruct Hl as [<-|[]].
  apply (f_equal String.length) in E. unfold suffix_of in E. rewrite str_length_app in E.
  assert (H7 : String.length (inline_suffix 7) = 7) by (vm_compute; reflexivity).
  rewrite H7 in E. cbn [String.length] in E. lia.
Qed.

(** the body alone: three turns of the loop, then the jump to [.endof], 12 steps *)
Example ex_standalone :
  runb ex_cfg [] ex_none ex_none 100 "main" (ex_sb ++ [SLbl ".endof"]) 0 [] 0 ex_s0 [] 0%N
  = BEnd 88 ex_s1
         [EvI BNE ".loop"; EvI DEX ""; EvI BNE ".loop"; EvI DEX ""; EvI BNE ".loop"; EvI DEX ""]
         19%N.
Proof. vm_compute. reflexivity. Qed.

(** the inlined block inside the big code, followed by an [RTS] *)
Example ex_inlined :
  run ex_cfg [] ex_none ex_none 100 "main" (ex_big ++ ex_post) 2 [] ex_s0 [] 0%N
  = Halt ex_s1 [EvI DEX ""; EvI BNE ".loopinline7"; EvI DEX ""; EvI BNE ".loopinline7";
                EvI DEX ""; EvI BNE ".loopinline7"] 25%N.
Proof. vm_compute. reflexivity. Qed.

(** the protected branch of the body is still protected in the expansion: its events are in the
    trace, with the suffixed operand text; the arrival after [.endofinline7] *)
Example ex_inlined_arrival :
  run ex_cfg [] ex_none ex_none 100 "main" (ex_big ++ ex_post) 2 [] ex_s0 [] 0%N
  = run ex_cfg [] ex_none ex_none 88 "main" (ex_big ++ ex_post) 9 [] ex_s1
        [EvI BNE ".loopinline7"; EvI DEX ""; EvI BNE ".loopinline7"; EvI DEX "";
         EvI BNE ".loopinline7"; EvI DEX ""] 19%N.
Proof. vm_compute. reflexivity. Qed.

(** what [push_code_run] says about it *)
Example ex_push_code_run :
  exists tr'',
    tsim (ev_ren (suffix_of 7))
         [EvI BNE ".loop"; EvI DEX ""; EvI BNE ".loop"; EvI DEX ""; EvI BNE ".loop"; EvI DEX ""]
         tr'' /\
    run ex_cfg [] ex_none ex_none 100 "main" (ex_big ++ ex_post) 2 [] ex_s0 [] 0%N
    = run ex_cfg [] ex_none ex_none 88 "main" (ex_big ++ ex_post) 9 [] ex_s1 tr'' 19%N.
Proof.
  destruct ex_slines as [Hd Hb].
  destruct (push_code_run ex_cfg [] ex_none ex_none ex_dst ex_body 7 ex_sd ex_sb
                          Hd Hb ex_nonempty ex_closed ex_fresh) as [_ [_ [_ H]]].
  specialize (H ex_post "main" [] 100 ex_s0 [] 0%N).
  rewrite ex_standalone in H.
  destruct H as [t2 [Ht H]]. exists t2. split; [exact Ht|].
  unfold ex_big. rewrite <- app_assoc. exact H.
Qed.
Print Assumptions ex_push_code_run.
