#!/usr/bin/env python3
"""setup_cmd: builds everything the checks need from files on disk (offline):
the Coq development (full .vo build), the extracted OCaml drivers, the Rust harness."""
import os
import sys
sys.path.insert(0, os.path.dirname(os.path.abspath(__file__)))
from lib.common import *  # noqa

def main():
    os.makedirs(os.path.join(BUILD, 'ocaml'), exist_ok=True)
    rc, out = coq_make([])
    if rc != 0:
        print(out[-6000:])
        sys.exit(1)
    for name in ('asm', 'sem', 'csem'):
        if os.path.exists(os.path.join(OCAML, name + '_driver.ml')):
            print('driver', ocaml_driver(name))
    print('harness', harness_bin('release'))
    bad = coq_grep_forbidden()
    if bad:
        print('forbidden tokens:', bad)
        sys.exit(1)
    print('setup ok')

if __name__ == '__main__':
    main()
