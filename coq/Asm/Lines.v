(** Mirror of src/assemble.rs: AsmMnemonic, AsmInstruction, AsmLine.  The operand is kept as
    the very string the Rust keeps ([dasm_operand]); the optimiser's tests on it are string
    tests, as in the code. *)
From Coq Require Import String Ascii List Bool NArith ZArith.
From CC Require Import Base.Str.
Import ListNotations.
Open Scope string_scope.

Inductive mnem :=
| LDA | LDX | LDY | STA | STX | STY | TAX | TAY | TXA | TYA
| ADC | SBC | EOR | AND | ORA | LSR | ASL | ROL | ROR | CLC | SEC
| CMP | CPX | CPY | BCC | BCS | BEQ | BMI | BNE | BPL
| INC | INX | INY | DEC | DEX | DEY | JMP | JSR | RTS | RTI
| PHA | PLA | PHP | PLP | NOP.

Definition mnem_eqb (a b : mnem) : bool :=
  match a, b with
  | LDA, LDA | LDX, LDX | LDY, LDY | STA, STA | STX, STX | STY, STY
  | TAX, TAX | TAY, TAY | TXA, TXA | TYA, TYA
  | ADC, ADC | SBC, SBC | EOR, EOR | AND, AND | ORA, ORA
  | LSR, LSR | ASL, ASL | ROL, ROL | ROR, ROR | CLC, CLC | SEC, SEC
  | CMP, CMP | CPX, CPX | CPY, CPY
  | BCC, BCC | BCS, BCS | BEQ, BEQ | BMI, BMI | BNE, BNE | BPL, BPL
  | INC, INC | INX, INX | INY, INY | DEC, DEC | DEX, DEX | DEY, DEY
  | JMP, JMP | JSR, JSR | RTS, RTS | RTI, RTI
  | PHA, PHA | PLA, PLA | PHP, PHP | PLP, PLP | NOP, NOP => true
  | _, _ => false
  end.

Lemma mnem_eqb_eq a b : mnem_eqb a b = true <-> a = b.
Proof. split; [destruct a, b; simpl; congruence | intros ->; destruct b; reflexivity]. Qed.

Lemma mnem_eqb_refl a : mnem_eqb a a = true.
Proof. destruct a; reflexivity. Qed.

Definition all_mnems : list mnem :=
  [LDA; LDX; LDY; STA; STX; STY; TAX; TAY; TXA; TYA; ADC; SBC; EOR; AND; ORA; LSR; ASL; ROL; ROR;
   CLC; SEC; CMP; CPX; CPY; BCC; BCS; BEQ; BMI; BNE; BPL; INC; INX; INY; DEC; DEX; DEY; JMP; JSR;
   RTS; RTI; PHA; PLA; PHP; PLP; NOP].

Definition mnem_name (m : mnem) : string :=
  match m with
  | LDA => "LDA" | LDX => "LDX" | LDY => "LDY" | STA => "STA" | STX => "STX" | STY => "STY"
  | TAX => "TAX" | TAY => "TAY" | TXA => "TXA" | TYA => "TYA"
  | ADC => "ADC" | SBC => "SBC" | EOR => "EOR" | AND => "AND" | ORA => "ORA"
  | LSR => "LSR" | ASL => "ASL" | ROL => "ROL" | ROR => "ROR" | CLC => "CLC" | SEC => "SEC"
  | CMP => "CMP" | CPX => "CPX" | CPY => "CPY"
  | BCC => "BCC" | BCS => "BCS" | BEQ => "BEQ" | BMI => "BMI" | BNE => "BNE" | BPL => "BPL"
  | INC => "INC" | INX => "INX" | INY => "INY" | DEC => "DEC" | DEX => "DEX" | DEY => "DEY"
  | JMP => "JMP" | JSR => "JSR" | RTS => "RTS" | RTI => "RTI"
  | PHA => "PHA" | PLA => "PLA" | PHP => "PHP" | PLP => "PLP" | NOP => "NOP"
  end.

Definition mnem_of_name (s : string) : option mnem :=
  find (fun m => String.eqb (mnem_name m) s) all_mnems.

Definition is_cond_branch (m : mnem) : bool :=
  match m with BCC | BCS | BEQ | BMI | BNE | BPL => true | _ => false end.

(** AsmInstruction, field for field *)
Record instr := mkI {
  i_mn : mnem;
  i_op : string;          (* dasm_operand *)
  i_cycles : N;
  i_alt : option N;       (* cycles_alt *)
  i_bytes : N;            (* nb_bytes *)
  i_prot : bool           (* protected *)
}.

(** AsmLine *)
Inductive line :=
| Lbl (l : string)
| Ins (i : instr)
| Inl (text : string) (size : N)
| Cmt (c : string)
| Dummy.

Definition code := list line.

Definition is_ins (l : line) : bool := match l with Ins _ => true | _ => false end.

(** AssemblyCode::size_bytes *)
Definition line_bytes (l : line) : N :=
  match l with
  | Ins i => i_bytes i
  | Inl _ s => s
  | _ => 0%N
  end.

Definition size_bytes (c : code) : N := fold_left (fun acc l => (acc + line_bytes l)%N) c 0%N.
