(** C02 — the semantic half: the optimiser's register knowledge and each of its rewrite rules are
    sound with respect to the executable 6502 semantics (M6502/Sem.v).  Statements only; proofs in
    Proofs/OptSemFacts.v.  The extra hypotheses are the side conditions the proofs forced; each has a
    [..._refuted] example in Proofs/OptSemFacts.v showing it cannot be dropped.  A removed load
    either leaves the whole state as it was (the knowledge says which register N and Z describe),
    or rests on a look-ahead, and then the instruction(s) looked at behave the same whatever N and Z
    are ([C02_removal_dead]).  What is NOT proved: the global simulation of [run] on whole
    programs. *)
From Coq Require Import String Ascii List Bool NArith ZArith.
From CC Require Import Base.Str Asm.Lines M6502.Isa Asm.Operand M6502.Sem
     Model.Optimize Model.OptSem Proofs.OptSemFacts.
Import ListNotations.

Theorem C02_transfer_sound : forall cfg k i ahead s s',
  ports cfg = [] -> bytes_ok s ->
  (i_mn i = PHA \/ i_mn i = PHP -> know_off_stack cfg k s) ->
  ind_legal i -> xfer_no_zp_y cfg k i ->
  snd (transfer k i ahead) = false ->
  know_sound cfg k s -> steps_to cfg i s s' ->
  know_sound cfg (fst (transfer k i ahead)) s'.
Proof. exact transfer_sound. Qed.

Theorem C02_redundant_load_sound : forall cfg k i s s',
  ports cfg = [] -> know_sound cfg k s -> steps_to cfg i s s' ->
  (i_mn i = LDA /\ k_acc k = Some (i_op i)) \/ (i_mn i = LDX /\ k_x k = Some (i_op i)) \/
  (i_mn i = LDY /\ k_y k = Some (i_op i)) ->
  eq_mod_nz s' s /\
  ((i_mn i = LDA /\ k_flags k = FA) \/ (i_mn i = LDX /\ k_flags k = FX) \/
   (i_mn i = LDY /\ k_flags k = FY) -> eq_state s' s).
Proof. exact redundant_load_sound. Qed.

Theorem C02_removal_sound : forall cfg k i ahead s s',
  ports cfg = [] -> know_sound cfg k s -> steps_to cfg i s s' ->
  snd (transfer k i ahead) = true ->
  eq_mod_nz s' s /\
  (eq_state s' s \/ (i_mn i = LDA /\ lda_lookahead ahead = true) \/
   ((i_mn i = LDX \/ i_mn i = LDY) /\ ldxy_lookahead ahead = true)).
Proof. exact removal_sound. Qed.

Theorem C02_defines_nz_dead : forall cfg m op s1 s2,
  defines_nz m = true -> eq_mod_nz s1 s2 ->
  outcome_eq (exec cfg m op s1) (exec cfg m op s2).
Proof. exact defines_nz_dead. Qed.

Theorem C02_store_keeps_eq_mod_nz : forall cfg m op s1 s2,
  is_store m -> eq_mod_nz s1 s2 ->
  outcome_eq_mod_nz (exec cfg m op s1) (exec cfg m op s2).
Proof. exact store_keeps_eq_mod_nz. Qed.

Theorem C02_store_then_defines_nz_dead : forall cfg m1 op1 m2 op2 s1 s2,
  is_store m1 -> defines_nz m2 = true -> eq_mod_nz s1 s2 ->
  outcome_eq (then_exec cfg (exec cfg m1 op1 s1) m2 op2) (then_exec cfg (exec cfg m1 op1 s2) m2 op2).
Proof. exact store_then_defines_nz_dead. Qed.

Theorem C02_ldxy_lookahead_dead : forall cfg ahead s1 s2,
  ldxy_lookahead ahead = true -> eq_mod_nz s1 s2 ->
  exists j, next_ins ahead = Some j /\ defines_nz (i_mn j) = true /\
            forall op, outcome_eq (exec cfg (i_mn j) op s1) (exec cfg (i_mn j) op s2).
Proof. exact ldxy_lookahead_dead. Qed.

Theorem C02_lda_lookahead_dead : forall cfg ahead s1 s2,
  lda_lookahead ahead = true -> eq_mod_nz s1 s2 ->
  exists j1 t, ahead = Ins j1 :: t /\
    ((i_mn j1 = CMP /\
      forall op, outcome_eq (exec cfg (i_mn j1) op s1) (exec cfg (i_mn j1) op s2)) \/
     (i_mn j1 = STA /\ exists j2, next_ins t = Some j2 /\ is_load (i_mn j2) = true /\
      forall op1 op2,
        outcome_eq (then_exec cfg (exec cfg (i_mn j1) op1 s1) (i_mn j2) op2)
                   (then_exec cfg (exec cfg (i_mn j1) op1 s2) (i_mn j2) op2))).
Proof. exact lda_lookahead_dead. Qed.

Theorem C02_removal_dead : forall cfg k i ahead s s',
  ports cfg = [] -> know_sound cfg k s -> steps_to cfg i s s' ->
  snd (transfer k i ahead) = true ->
  eq_mod_nz s' s /\
  (eq_state s' s \/
   (exists j, next_ins ahead = Some j /\ defines_nz (i_mn j) = true /\
      forall op, outcome_eq (exec cfg (i_mn j) op s') (exec cfg (i_mn j) op s)) \/
   (exists j1 j2 t, ahead = Ins j1 :: t /\ i_mn j1 = STA /\ next_ins t = Some j2 /\
      is_load (i_mn j2) = true /\
      forall op1 op2,
        outcome_eq (then_exec cfg (exec cfg (i_mn j1) op1 s') (i_mn j2) op2)
                   (then_exec cfg (exec cfg (i_mn j1) op1 s) (i_mn j2) op2))).
Proof. exact removal_dead. Qed.

(** the rule as it was before the fix (a repeated LDX removed whatever N and Z describe) is unsound *)
Theorem C02_ldx_removal_needs_flags :
  exists cfg k i s s',
    know_sound cfg k s /\ steps_to cfg i s s' /\ i_mn i = LDX /\ k_x k = Some (i_op i) /\
    ~ eq_state s' s.
Proof. exact ldx_removal_needs_flags. Qed.

Theorem C02_ldx_removal_changes_beq :
  exists cfg k i s s',
    know_sound cfg k s /\ k_flags k = FA /\ steps_to cfg i s s' /\ i_mn i = LDX /\
    k_x k = Some (i_op i) /\
    exec cfg BEQ (OLbl "l") s = XOk s 3%N (FGoto "l") /\
    exec cfg BEQ (OLbl "l") s' = XOk s' 2%N FNext /\
    snd (transfer k i [Ins (cx_ins BEQ "l")]) = false.
Proof. exact ldx_removal_changes_beq. Qed.

Theorem C02_rule_cmp_known : forall cfg k i1 i2 s op c s1,
  know_sound cfg k s -> bytes_ok s -> imm_text_injective cfg k i1 ->
  cmp_rule (k_acc k) CMP i1 i2 = true \/ cmp_rule (k_x k) CPX i1 i2 = true \/
  cmp_rule (k_y k) CPY i1 i2 = true ->
  parse_operand (i_mn i1) (i_op i1) = Some op -> exec cfg (i_mn i1) op s = XOk s1 c FNext ->
  branch_taken (i_mn i2) s1 = false /\ eq_mod_anzc s1 s.
Proof. exact rule_cmp_known. Qed.

Theorem C02_rule_ld_st : forall cfg i1 i2 s s1 s2,
  ports cfg = [] -> bytes_ok s ->
  (i_mn i1 = LDA /\ i_mn i2 = STA) \/ (i_mn i1 = LDX /\ i_mn i2 = STX) \/
  (i_mn i1 = LDY /\ i_mn i2 = STY) ->
  ind_legal i1 ->
  i_op i1 = i_op i2 -> steps_to cfg i1 s s1 -> steps_to cfg i2 s1 s2 -> eq_state s2 s1.
Proof. exact rule_ld_st. Qed.

Theorem C02_rule_sta_lda : forall cfg i1 i2 s s1 s2,
  ports cfg = [] -> i_mn i1 = STA -> i_mn i2 = LDA -> i_op i1 = i_op i2 ->
  ptr_not_hit cfg i1 s ->
  steps_to cfg i1 s s1 -> steps_to cfg i2 s1 s2 -> eq_mod_nz s2 s1.
Proof. exact rule_sta_lda. Qed.

Theorem C02_rule_pla_pha : forall cfg i1 i2 s s1 s2,
  bytes_ok s -> i_mn i1 = PLA -> i_mn i2 = PHA ->
  steps_to cfg i1 s s1 -> steps_to cfg i2 s1 s2 -> eq_mod_anzc s2 s.
Proof. exact rule_pla_pha. Qed.

Definition C02_rule_transfer_pair := rule_transfer_pair.
Definition C02_rule_ora_zero := rule_ora_zero.
Definition C02_rule_swap_lda_carry := rule_swap_lda_carry.
Definition C02_rule_load_load := rule_load_load.
