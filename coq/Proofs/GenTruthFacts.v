(** Truth values and conditional expressions (Model/GenTruth.v) on the executable 6502 semantics,
    for ALL byte-valued states, [ports cfg = []], the labels of the statement non-empty and
    distinct.

    [truth_tpl_correct]       A = 1 if the C condition holds, else 0; memory, X, Y, S untouched: the
                              six comparisons with a variable or constant right operand (through
                              [cond_reach] of Proofs/GenIfFacts.v), [x && y], [x || y], [!x]
    [store16_truth_correct]   the 16-bit object holds the truth value: low byte 0 / 1, HIGH BYTE 0
    [store16_truth_old_refuted]  the sequence emitted before the repair (truth code twice, the
                              second result into [dst+1]) leaves 257 for a true condition
    [store8_truth_correct], [store16_truth_plus_correct], [add16_truth_correct]
    [tern16_correct]          [dst16 = c ? x : y]: both bytes, for variables or constants, provided
                              the operands of the condition are not cells of [dst] (the condition is
                              evaluated again after the low byte of [dst] is written) and the high
                              cell of a variable alternative is not the low cell of [dst]
    [tern16_old_refuted]      before the repair the low bytes were stored twice: 0x3434 for 0x1234
    and the closed forms of the twelve listings. *)
From Coq Require Import String Ascii List Bool Arith NArith ZArith Lia ZifyBool.
From CC Require Import Base.Str Asm.Lines M6502.Isa Asm.Operand M6502.Sem
  Model.OptSem Proofs.OptSemFacts Model.CheckBranches Model.CbSpec Proofs.CbFacts
  Model.GenTemplates Proofs.GenTemplatesFacts Proofs.GenCmp16Facts Model.GenLoops
  Proofs.GenLoopsFacts Model.GenTables Proofs.GenTablesFacts Model.GenIf Proofs.GenIfFacts
  Model.GenCtl Proofs.GenCtlFacts Model.GenTruth.
Import ListNotations.
Open Scope string_scope.
Open Scope list_scope.
Open Scope Z_scope.

Ltac Zify.zify_post_hook ::= Z.div_mod_to_equations.

(** * A piece of code that jumps to a label exactly when a condition holds *)

(** inside any code [pre ++ C ++ post] where [pre] defines no label of [C] and [lbl] is defined
    (line [kl]): from the first line of [C], control arrives at [kl] when [b] holds of the initial
    state, just past [C] otherwise; memory, X, Y, S unchanged *)
Definition jumps_when (cfg : config) (C : list sline) (lbl : string) (b : mstate -> bool) : Prop :=
  forall pre post kl st,
    (forall l, In l (sdefs C) -> ~ In l (sdefs pre)) ->
    find_label lbl (pre ++ C ++ post) 0 = Some kl -> bytes_ok st ->
    reach cfg (pre ++ C ++ post) (length pre) st
      (fun (_ pc' : nat) (s' : mstate) =>
         same_mxys st s' /\ bytes_ok s' /\
         pc' = if b st then kl else (length pre + length C)%nat).

Lemma jw_cond : forall cfg c lbl here, ports cfg = [] -> cond_wf cfg c -> lbl <> here ->
  jumps_when cfg (scond_code c lbl here) lbl (fun st => negb (cond_holds cfg c st)).
Proof.
  intros cfg c lbl here Hp Hw Hne pre post kl st Hfr Hkl Hb.
  assert (Hcore : forall h, lbl <> h -> ~ In h (sdefs pre) ->
            find_label lbl (pre ++ scond_code c lbl h ++ post) 0 = Some kl ->
            reach cfg (pre ++ scond_code c lbl h ++ post) (length pre) st
              (fun (_ pc' : nat) (s' : mstate) =>
                 same_mxys st s' /\ bytes_ok s' /\
                 pc' = if negb (cond_holds cfg c st) then kl
                       else (length pre + length (scond_code c lbl h))%nat)).
  { intros h Hnh Hh Hk.
    eapply reach_weaken; [|apply (cond_reach cfg c lbl h pre post kl st Hp Hw Hnh Hh Hk Hb)].
    intros n pc' s' (_ & -> & Hpc). cbv beta.
    split; [apply cond_state_same|]. split; [apply cond_state_bytes_ok; exact Hb|].
    rewrite Hpc. destruct (cond_holds cfg c st); reflexivity. }
  destruct (relop_eq_dec (negate_op (cond_op c)) RGt) as [E|E].
  - apply (Hcore here Hne); [apply Hfr; apply scond_code_defs_here; exact E|exact Hkl].
  - destruct (fresh_string (lbl :: sdefs pre)) as (h & _ & Hfresh).
    rewrite (scond_code_here c lbl here h E) in Hkl |- *.
    apply (Hcore h); [intros E'; apply Hfresh; left; exact E'
                     |intros Hin; apply Hfresh; right; exact Hin|exact Hkl].
Qed.

Lemma jw_pcond : forall cfg c lbl here, ports cfg = [] -> cond_wf cfg c -> lbl <> here ->
  jumps_when cfg (spcond_code c lbl here) lbl (fun st => cond_holds cfg c st).
Proof.
  intros cfg c lbl here Hp Hw Hne pre post kl st Hfr Hkl Hb. unfold spcond_code in *.
  eapply reach_weaken;
    [|apply (jw_cond cfg (cond_neg c) lbl here Hp (cond_neg_wf _ _ Hw) Hne pre post kl st Hfr Hkl Hb)].
  intros n pc' s' (Hs & Hb' & Hpc). cbv beta. split; [exact Hs|]. split; [exact Hb'|].
  rewrite Hpc, cond_neg_holds, negb_involutive. reflexivity.
Qed.

(** the lines [LDA x], [LDA #k] *)
Definition slda (x : string) : sline := SIns LDA (OMem x 0 IxNone) false x.
Definition slda_hi (x : string) : sline := SIns LDA (OMem x 1 IxNone) false (hi x).
Definition slda_imm (k : Z) : sline := SIns LDA (OImm (INum k)) false (imm k).

Definition lda_st (s : mstate) (v : Z) : mstate := set_nz (set_a s v) v.

Lemma lda_st_same : forall s v, same_mxys s (lda_st s v).
Proof. intros s v. repeat split; reflexivity. Qed.

Lemma lda_st_bytes_ok : forall s v, bytes_ok s -> 0 <= v < 256 -> bytes_ok (lda_st s v).
Proof.
  intros s v (HA & HX & HY & HS & HM) Hv. unfold lda_st, set_nz, set_a.
  cbn [rA rX rY rS fN fV fZ fC mem]. apply bytes_ok_mk; assumption.
Qed.

Lemma exec_lda_var : forall cfg x px s, ports cfg = [] -> layout cfg x = Some px ->
  0 <= px < 65536 ->
  exists k, exec cfg LDA (OMem x 0 IxNone) s = XOk (lda_st s (mget (mem s) px)) k FNext.
Proof.
  intros cfg x px s Hp Lx Rx. eexists.
  rewrite (exec_rd_mem cfg LDA s x 0 px Hp eq_refl Lx ltac:(lia)).
  cbn [rd_sem]. rewrite Z.add_0_r. reflexivity.
Qed.

(** [LDA x; Bxx lbl]: the test of a variable against 0 *)
Lemma jw_nz : forall cfg x lbl, ports cfg = [] -> var_at cfg x ->
  jumps_when cfg [slda x; sbr BNE lbl false] lbl (fun st => negb (var_val cfg x st =? 0)).
Proof.
  intros cfg x lbl Hp (Vx & px & Lx & Rx) pre post kl st _ Hkl Hb.
  pose proof Hb as (_ & _ & _ & _ & HM). unfold var_val. rewrite Lx. cbn [app] in *.
  apply reach_at0. destruct (exec_lda_var cfg x px st Hp Lx Rx) as (k0 & E0).
  eapply reach_next_at; [reflexivity|exact E0|].
  eapply reach_branch_at; [reflexivity|reflexivity|exact Hkl|].
  cbn [branch_taken]. unfold lda_st at 1. cbn [fZ set_nz].
  destruct (mget (mem st) px =? 0); cbn [negb]; apply reach_stop;
    (split; [apply lda_st_same|split; [apply lda_st_bytes_ok; [exact Hb|apply HM]|]]);
    [cbn [length]; lia|reflexivity].
Qed.

Lemma jw_z : forall cfg x lbl, ports cfg = [] -> var_at cfg x ->
  jumps_when cfg [slda x; sbr BEQ lbl false] lbl (fun st => var_val cfg x st =? 0).
Proof.
  intros cfg x lbl Hp (Vx & px & Lx & Rx) pre post kl st _ Hkl Hb.
  pose proof Hb as (_ & _ & _ & _ & HM). unfold var_val. rewrite Lx. cbn [app] in *.
  apply reach_at0. destruct (exec_lda_var cfg x px st Hp Lx Rx) as (k0 & E0).
  eapply reach_next_at; [reflexivity|exact E0|].
  eapply reach_branch_at; [reflexivity|reflexivity|exact Hkl|].
  cbn [branch_taken]. unfold lda_st at 1. cbn [fZ set_nz].
  destruct (mget (mem st) px =? 0); apply reach_stop;
    (split; [apply lda_st_same|split; [apply lda_st_bytes_ok; [exact Hb|apply HM]|]]);
    [reflexivity|cbn [length]; lia].
Qed.

(** one after the other, to the same label: either ([C1] defines no label) *)
Lemma jw_or : forall cfg C1 C2 lbl b1 b2,
  jumps_when cfg C1 lbl b1 -> jumps_when cfg C2 lbl b2 -> sdefs C1 = [] ->
  (forall s s', same_mxys s s' -> b2 s' = b2 s) ->
  jumps_when cfg (C1 ++ C2) lbl (fun st => b1 st || b2 st).
Proof.
  intros cfg C1 C2 lbl b1 b2 H1 H2 Hd1 Hb2 pre post kl st Hfr Hkl Hb.
  rewrite <- app_assoc in *.
  apply reach_seq.
  eapply reach_weaken;
    [|apply (H1 pre (C2 ++ post) kl st); [|exact Hkl|exact Hb]].
  - intros n pc' s1 (Hs1 & Hb1 & Hpc). cbv beta.
    destruct (b1 st); cbn [orb].
    + apply reach_stop. split; [exact Hs1|]. split; [exact Hb1|exact Hpc].
    + subst pc'. rewrite <- app_length.
      eapply reach_weaken;
        [|replace (pre ++ C1 ++ C2 ++ post) with ((pre ++ C1) ++ C2 ++ post)
            by (rewrite <- app_assoc; reflexivity);
          apply (H2 (pre ++ C1) post kl s1);
          [|rewrite <- app_assoc; exact Hkl|exact Hb1]].
      * intros n2 pc2 s2 (Hs2 & Hb2' & Hpc2). cbv beta.
        split; [apply (same_mxys_trans _ _ _ Hs1 Hs2)|]. split; [exact Hb2'|].
        rewrite Hpc2, (Hb2 _ _ Hs1), !app_length. destruct (b2 st); [reflexivity|lia].
      * intros l Hl. rewrite sdefs_app, in_app_iff. intros [Hin|Hin].
        -- apply (Hfr l); [rewrite sdefs_app; apply in_or_app; right; exact Hl|exact Hin].
        -- rewrite Hd1 in Hin. exact Hin.
  - intros l Hl. rewrite Hd1 in Hl. contradiction.
Qed.

(** [x && y]: [LDA x; BEQ start; LDA y; BNE lbl; start:] *)
Lemma jw_and : forall cfg x y lbl lstart, ports cfg = [] -> var_at cfg x -> var_at cfg y ->
  jumps_when cfg [slda x; sbr BEQ lstart false; slda y; sbr BNE lbl false; SLbl lstart] lbl
    (fun st => negb (var_val cfg x st =? 0) && negb (var_val cfg y st =? 0)).
Proof.
  intros cfg x y lbl lstart Hp (Vx & px & Lx & Rx) (Vy & py & Ly & Ry) pre post kl st Hfr Hkl Hb.
  pose proof Hb as (_ & _ & _ & _ & HM). unfold var_val. rewrite Lx, Ly. cbn [app] in *.
  assert (Hks : find_label lstart (pre ++ slda x :: sbr BEQ lstart false :: slda y
                   :: sbr BNE lbl false :: SLbl lstart :: post) 0 = Some (length pre + 4)%nat).
  { rewrite find_label_app_none
      by (apply find_label_fresh; apply Hfr; cbn [sdefs slda sbr In]; left; reflexivity).
    cbn [find_label slda sbr Nat.add]. rewrite String.eqb_refl. f_equal. lia. }
  apply reach_at0. destruct (exec_lda_var cfg x px st Hp Lx Rx) as (k0 & E0).
  eapply reach_next_at; [reflexivity|exact E0|].
  eapply reach_branch_at; [reflexivity|reflexivity|exact Hks|].
  cbn [branch_taken]. unfold lda_st at 1. cbn [fZ set_nz].
  pose proof (lda_st_bytes_ok st (mget (mem st) px) Hb (HM px)) as Hb1.
  destruct (mget (mem st) px =? 0); cbn [negb andb].
  - eapply reach_lbl_at; [reflexivity|]. apply reach_stop.
    split; [apply lda_st_same|]. split; [exact Hb1|cbn [length]; lia].
  - destruct (exec_lda_var cfg y py (lda_st st (mget (mem st) px)) Hp Ly Ry) as (k1 & E1).
    change (mem (lda_st st (mget (mem st) px))) with (mem st) in E1.
    eapply reach_next_at; [reflexivity|exact E1|].
    eapply reach_branch_at; [reflexivity|reflexivity|exact Hkl|].
    cbn [branch_taken]. unfold lda_st at 1. cbn [fZ set_nz mem set_a].
    assert (Hs2 : same_mxys st (lda_st (lda_st st (mget (mem st) px)) (mget (mem st) py)))
      by (repeat split; reflexivity).
    assert (Hb2 : bytes_ok (lda_st (lda_st st (mget (mem st) px)) (mget (mem st) py)))
      by (apply lda_st_bytes_ok; [exact Hb1|apply HM]).
    destruct (mget (mem st) py =? 0); cbn [negb].
    + eapply reach_lbl_at; [reflexivity|]. apply reach_stop.
      split; [exact Hs2|]. split; [exact Hb2|cbn [length]; lia].
    + apply reach_stop. split; [exact Hs2|]. split; [exact Hb2|reflexivity].
Qed.

(** * Selecting one of two values by a condition *)

Lemma reach_next_mid : forall cfg c a m o p raw b pc s s' k (Q : nat -> nat -> mstate -> Prop),
  c = a ++ SIns m o p raw :: b -> pc = length a -> exec cfg m o s = XOk s' k FNext ->
  reach cfg c (S pc) s' (fun n => Q (S n)) -> reach cfg c pc s Q.
Proof.
  intros cfg c a m o p raw b pc s s' k Q -> -> He H.
  eapply reach_next; [apply nth_error_mid|exact He|exact H].
Qed.

(** [C; X0; JMP end; else: X1; end:] where [C] jumps to [else] when [b]: [X1] is executed when
    [b] holds, [X0] otherwise *)
Lemma select_reach : forall cfg C lelse lend b m0 o0 r0 f0 m1 o1 r1 f1 pre post st,
  jumps_when cfg C lelse b ->
  (forall s, exists k, exec cfg m0 o0 s = XOk (f0 s) k FNext) ->
  (forall s, exists k, exec cfg m1 o1 s = XOk (f1 s) k FNext) ->
  lelse <> lend -> ~ In lelse (sdefs C) -> ~ In lend (sdefs C) ->
  ~ In lelse (sdefs pre) -> ~ In lend (sdefs pre) ->
  (forall l, In l (sdefs C) -> ~ In l (sdefs pre)) -> bytes_ok st ->
  reach cfg (pre ++ (C ++ [SIns m0 o0 false r0; sjmp lend; SLbl lelse; SIns m1 o1 false r1; SLbl lend])
             ++ post) (length pre) st
    (fun (_ pc' : nat) (s' : mstate) =>
       pc' = (length pre + (length C + 5))%nat /\
       exists mid, same_mxys st mid /\ bytes_ok mid /\ s' = if b st then f1 mid else f0 mid).
Proof.
  intros cfg C lelse lend b m0 o0 r0 f0 m1 o1 r1 f1 pre post st HC E0 E1 Nel NeC NdC Nep Ndp Hfr Hb.
  set (X0 := SIns m0 o0 false r0). set (X1 := SIns m1 o1 false r1).
  remember (pre ++ (C ++ [X0; sjmp lend; SLbl lelse; X1; SLbl lend]) ++ post) as sl eqn:Esl.
  assert (Ea : sl = pre ++ C ++ ([X0; sjmp lend; SLbl lelse; X1; SLbl lend] ++ post))
    by (subst sl; rewrite <- !app_assoc; reflexivity).
  assert (Ee : sl = ((pre ++ C) ++ [X0; sjmp lend]) ++ SLbl lelse :: ([X1; SLbl lend] ++ post))
    by (subst sl; rewrite <- !app_assoc; reflexivity).
  assert (Ed : sl = ((pre ++ C) ++ [X0; sjmp lend; SLbl lelse; X1]) ++ SLbl lend :: post)
    by (subst sl; rewrite <- !app_assoc; reflexivity).
  assert (Hke : find_label lelse sl 0 = Some (length ((pre ++ C) ++ [X0; sjmp lend]))).
  { rewrite Ee. apply find_label_mid. rewrite !sdefs_app, !in_app_iff. cbn [sdefs In X0 sjmp].
    tauto. }
  assert (Hkd : find_label lend sl 0 = Some (length ((pre ++ C) ++ [X0; sjmp lend; SLbl lelse; X1]))).
  { rewrite Ed. apply find_label_mid. rewrite !sdefs_app, !in_app_iff. cbn [sdefs In X0 X1 sjmp].
    intros [[H|H]|[H|[]]]; [exact (Ndp H)|exact (NdC H)|exact (Nel H)]. }
  pose proof (HC pre ([X0; sjmp lend; SLbl lelse; X1; SLbl lend] ++ post)
                (length ((pre ++ C) ++ [X0; sjmp lend])) st Hfr) as Hj.
  rewrite <- Ea in Hj. specialize (Hj Hke Hb).
  apply reach_seq. eapply reach_weaken; [|exact Hj].
  intros n pc' mid (Hs & Hbm & Hpc). cbv beta.
  assert (Hfin : S (length ((pre ++ C) ++ [X0; sjmp lend; SLbl lelse; X1]))
                 = (length pre + (length C + 5))%nat)
    by (rewrite !app_length; cbn [length]; lia).
  destruct (b st).
  - destruct (E1 mid) as (k1 & Ex1).
    eapply (reach_lbl_mid cfg sl ((pre ++ C) ++ [X0; sjmp lend])); [exact Ee|exact Hpc|].
    eapply (reach_next_mid cfg sl ((pre ++ C) ++ [X0; sjmp lend; SLbl lelse]));
      [subst sl; rewrite <- !app_assoc; reflexivity|rewrite Hpc, !app_length; cbn [length]; lia
      |exact Ex1|].
    eapply (reach_lbl_mid cfg sl ((pre ++ C) ++ [X0; sjmp lend; SLbl lelse; X1]));
      [exact Ed|rewrite Hpc, !app_length; cbn [length]; lia|].
    apply reach_stop. split; [rewrite Hpc, <- Hfin, !app_length; cbn [length]; lia|].
    exists mid. split; [exact Hs|]. split; [exact Hbm|reflexivity].
  - destruct (E0 mid) as (k0 & Ex0).
    eapply (reach_next_mid cfg sl (pre ++ C));
      [subst sl; rewrite <- !app_assoc; reflexivity|rewrite Hpc, app_length; reflexivity|exact Ex0|].
    eapply (reach_jmp_mid cfg sl ((pre ++ C) ++ [X0]));
      [subst sl; rewrite <- !app_assoc; reflexivity|rewrite Hpc, !app_length; cbn [length]; lia
      |exact Hkd|].
    eapply (reach_lbl_mid cfg sl ((pre ++ C) ++ [X0; sjmp lend; SLbl lelse; X1]));
      [exact Ed|reflexivity|].
    apply reach_stop. split; [exact Hfin|]. exists mid. split; [exact Hs|]. split; [exact Hbm|reflexivity].
Qed.
Print Assumptions select_reach.

(** * Truth values *)

Definition bexp_wf (cfg : config) (e : bexp) : Prop :=
  match e with
  | BCond c => cond_wf cfg c
  | BAnd x y | BOr x y => var_at cfg x /\ var_at cfg y
  | BNot x => var_at cfg x
  end.

(** the C truth value *)
Definition bexp_holds (cfg : config) (e : bexp) (st : mstate) : bool :=
  match e with
  | BCond c => cond_holds cfg c st
  | BAnd x y => negb (var_val cfg x st =? 0) && negb (var_val cfg y st =? 0)
  | BOr x y => negb (var_val cfg x st =? 0) || negb (var_val cfg y st =? 0)
  | BNot x => var_val cfg x st =? 0
  end.

(** the assembled lines: the part that jumps to [lelse], the two constants *)
Definition struth_cond (e : bexp) (lelse lstart here : string) : list sline :=
  match e with
  | BCond c => spcond_code c lelse here
  | BAnd x y => [slda x; sbr BEQ lstart false; slda y; sbr BNE lelse false; SLbl lstart]
  | BOr x y => [slda x; sbr BNE lelse false] ++ [slda y; sbr BNE lelse false]
  | BNot x => [slda x; sbr BNE lelse false]
  end.

Definition truth_k0 (e : bexp) : Z := match e with BNot _ => 1 | _ => 0 end.
Definition truth_k1 (e : bexp) : Z := match e with BNot _ => 0 | _ => 1 end.

Definition struth (e : bexp) (lelse lend lstart here : string) : list sline :=
  struth_cond e lelse lstart here
  ++ [slda_imm (truth_k0 e); sjmp lend; SLbl lelse; slda_imm (truth_k1 e); SLbl lend].

(** when the code jumps to [lelse] *)
Definition truth_jump (cfg : config) (e : bexp) (st : mstate) : bool :=
  match e with
  | BNot x => negb (var_val cfg x st =? 0)
  | _ => bexp_holds cfg e st
  end.

Lemma slines_truth : forall cfg e lelse lend lstart here, bexp_wf cfg e ->
  lelse <> ""%string -> lend <> ""%string -> lstart <> ""%string -> here <> ""%string ->
  slines_of (truth_tpl_at e lelse lend lstart here) = Some (struth e lelse lend lstart here).
Proof.
  intros cfg e lelse lend lstart here Hw He Hd Hs Hh.
  destruct e as [c|x y|x y|x]; cbn [truth_tpl_at bexp_wf] in *; unfold struth;
    cbn [struth_cond truth_k0 truth_k1 app].
  - apply slines_app; [apply (slines_pcond_code cfg); assumption|]. slines_tac.
  - destruct Hw as ((Vx & _) & (Vy & _)). slines_tac.
  - destruct Hw as ((Vx & _) & (Vy & _)). slines_tac.
  - destruct Hw as (Vx & _). slines_tac.
Qed.

Lemma struth_cond_jw : forall cfg e lelse lstart here, ports cfg = [] -> bexp_wf cfg e ->
  lelse <> here ->
  jumps_when cfg (struth_cond e lelse lstart here) lelse (truth_jump cfg e).
Proof.
  intros cfg e lelse lstart here Hp Hw Neh.
  destruct e as [c|x y|x y|x]; cbn [struth_cond truth_jump bexp_holds bexp_wf] in *.
  - apply (jw_pcond cfg c lelse here Hp Hw Neh).
  - destruct Hw as (Hx & Hy). apply (jw_and cfg x y lelse lstart Hp Hx Hy).
  - destruct Hw as (Hx & Hy).
    apply (jw_or cfg _ _ lelse _ _ (jw_nz cfg x lelse Hp Hx) (jw_nz cfg y lelse Hp Hy) eq_refl).
    intros s s' (Em & _). unfold var_val. rewrite Em. reflexivity.
  - apply (jw_nz cfg x lelse Hp Hw).
Qed.

Lemma struth_cond_defs : forall e lelse lstart here l,
  In l (sdefs (struth_cond e lelse lstart here)) -> l = here \/ l = lstart.
Proof.
  intros e lelse lstart here l H. destruct e as [c|x y|x y|x]; cbn [struth_cond] in H.
  - left. apply (sdefs_scond_code _ _ _ _ H).
  - cbn [sdefs slda sbr In] in H. destruct H as [E|[]]. right. symmetry. exact E.
  - cbn [sdefs app slda sbr In] in H. contradiction.
  - cbn [sdefs slda sbr In] in H. contradiction.
Qed.

Lemma exec_lda_imm : forall cfg k s, 0 <= k < 256 ->
  exists c, exec cfg LDA (OImm (INum k)) s = XOk (lda_st s k) c FNext.
Proof.
  intros cfg k s Hk. eexists. rewrite (exec_rd_imm cfg LDA s k eq_refl), (byte_small k Hk). reflexivity.
Qed.

(** the truth code inside [struth ++ post] *)
Lemma truth_reach : forall cfg e lelse lend lstart here post st,
  ports cfg = [] -> bexp_wf cfg e ->
  lelse <> lend -> lelse <> lstart -> lelse <> here -> lend <> lstart -> lend <> here ->
  bytes_ok st ->
  reach cfg (struth e lelse lend lstart here ++ post) 0 st
    (fun (_ pc' : nat) (s' : mstate) =>
       pc' = length (struth e lelse lend lstart here) /\ same_mxys st s' /\ bytes_ok s' /\
       rA s' = b2z (bexp_holds cfg e st)).
Proof.
  intros cfg e lelse lend lstart here post st Hp Hw Ned Nes Neh Nds Ndh Hb.
  assert (Hk0 : 0 <= truth_k0 e < 256) by (destruct e; cbn [truth_k0]; lia).
  assert (Hk1 : 0 <= truth_k1 e < 256) by (destruct e; cbn [truth_k1]; lia).
  eapply reach_weaken;
    [|apply (select_reach cfg (struth_cond e lelse lstart here) lelse lend (truth_jump cfg e)
               LDA (OImm (INum (truth_k0 e))) (imm (truth_k0 e)) (fun s => lda_st s (truth_k0 e))
               LDA (OImm (INum (truth_k1 e))) (imm (truth_k1 e)) (fun s => lda_st s (truth_k1 e))
               [] post st (struth_cond_jw cfg e lelse lstart here Hp Hw Neh)
               (fun s => exec_lda_imm cfg _ s Hk0) (fun s => exec_lda_imm cfg _ s Hk1) Ned);
      [intros H; destruct (struth_cond_defs _ _ _ _ _ H); congruence
      |intros H; destruct (struth_cond_defs _ _ _ _ _ H); congruence
      |intros []|intros []|intros l _ []|exact Hb]].
  intros n pc' s' (Hpc & mid & Hs & Hbm & ->). cbv beta.
  split; [rewrite Hpc; unfold struth; rewrite app_length; reflexivity|].
  destruct e as [c|x y|x y|x]; cbn [truth_jump bexp_holds truth_k0 truth_k1];
    [| | |destruct (var_val cfg x st =? 0); cbn [negb]];
    try match goal with |- context [if ?b then _ else _] => destruct b end;
    (split; [apply (same_mxys_trans _ _ _ Hs (lda_st_same _ _))|];
     split; [apply lda_st_bytes_ok; [exact Hbm|lia]|reflexivity]).
Qed.
Print Assumptions truth_reach.

(** the compiler's labels of a truth value are non-empty and distinct *)
Lemma lname_ifstart_ne : forall n, lname ".ifstart" n <> ""%string.
Proof. intros n. unfold lname. cbn [append]. discriminate. Qed.
Lemma lname_else_ifstart : forall n m, lname ".else" n <> lname ".ifstart" m.
Proof. intros n m. unfold lname. cbn [append]. discriminate. Qed.
Lemma lname_ifend_ifstart : forall n m, lname ".ifend" n <> lname ".ifstart" m.
Proof. intros n m. unfold lname. cbn [append]. discriminate. Qed.

Definition struth_n (e : bexp) (n : N) : list sline :=
  struth e (lname ".else" n) (lname ".ifend" n) (lname ".ifstart" n) (lname ".ifhere" (n + 1)).

Lemma slines_truth_n : forall cfg e n, bexp_wf cfg e ->
  slines_of (truth_tpl e n) = Some (struth_n e n).
Proof.
  intros cfg e n Hw. apply (slines_truth cfg); [exact Hw|apply lname_else_ne|apply lname_ifend_ne
    |apply lname_ifstart_ne|apply lname_ifhere_ne].
Qed.

Lemma truth_reach_n : forall cfg e n post st, ports cfg = [] -> bexp_wf cfg e -> bytes_ok st ->
  reach cfg (struth_n e n ++ post) 0 st
    (fun (_ pc' : nat) (s' : mstate) =>
       pc' = length (struth_n e n) /\ same_mxys st s' /\ bytes_ok s' /\
       rA s' = b2z (bexp_holds cfg e st)).
Proof.
  intros cfg e n post st Hp Hw Hb. apply truth_reach; try assumption.
  - apply lname_else_ifend.
  - apply lname_else_ifstart.
  - apply lname_else_ifhere.
  - apply lname_ifend_ifstart.
  - apply lname_ifend_ifhere.
Qed.

(** ** [truth_tpl_correct]: A = 1 if the C condition holds, else 0; memory, X, Y, S untouched *)
Theorem truth_tpl_correct : forall cfg e n st,
  ports cfg = [] -> bexp_wf cfg e -> bytes_ok st ->
  exists st', halts_to cfg (truth_tpl e n) st st' /\
    rA st' = b2z (bexp_holds cfg e st) /\ same_mxys st st' /\ bytes_ok st'.
Proof.
  intros cfg e n st Hp Hw Hb.
  eapply halts_to_reach; [apply (slines_truth_n cfg e n Hw)|].
  eapply reach_weaken; [|pose proof (truth_reach_n cfg e n [] st Hp Hw Hb) as H;
                         rewrite app_nil_r in H; exact H].
  intros k pc' s' (Hpc & Hs & Hb' & HA). split; [exact Hpc|]. split; [exact HA|]. split; assumption.
Qed.
Print Assumptions truth_tpl_correct.

(** * Storing a truth value *)

Ltac sfx_step := eapply reach_next_at; [reflexivity|exec_solve|].

Lemma b2z_range : forall b, 0 <= b2z b < 256.
Proof. intros b. destruct b; cbn [b2z]; lia. Qed.

(** ** [store16_truth_correct]: the 16-bit object holds the truth value: the low byte 0 or 1, the
    HIGH byte 0; every other cell, X, Y, S unchanged (the operands of the condition may be [dst]
    itself: they are read before) *)
Theorem store16_truth_correct : forall cfg dst e n pd st,
  ports cfg = [] -> bexp_wf cfg e -> var_name dst -> layout cfg dst = Some pd ->
  0 <= pd -> pd + 1 < 65536 -> bytes_ok st ->
  exists st', halts_to cfg (store16_truth dst e n) st st' /\
    word (mem st') pd = b2z (bexp_holds cfg e st) /\
    mget (mem st') pd = b2z (bexp_holds cfg e st) /\ mget (mem st') (pd + 1) = 0 /\
    only_changes [pd; pd + 1] st st' /\ keeps_xys st st'.
Proof.
  intros cfg dst e n pd st Hp Hw Vd Ld Rd Rd' Hb.
  eapply halts_to_reach;
    [unfold store16_truth; apply slines_app; [apply (slines_truth_n cfg e n Hw)|slines_tac]|].
  apply reach_seq.
  eapply reach_weaken; [|apply (truth_reach_n cfg e n _ st Hp Hw Hb)].
  intros k pc1 s1 (Hpc & (Em & Ex & Ey & Es) & Hb1 & HA). cbv beta. subst pc1.
  apply reach_at0. repeat sfx_step. apply reach_stop.
  split; [rewrite app_length; reflexivity|].
  unfold word, only_changes, keeps_xys. state_simp. change (byte 0) with 0. rewrite HA, Em.
  split; [mem_simp; lia|]. split; [mem_simp; reflexivity|]. split; [mem_simp; reflexivity|].
  split; [intros a Ha Hn; cbn [In] in Hn; mem_simp; reflexivity|].
  repeat split; assumption.
Qed.
Print Assumptions store16_truth_correct.

(** into an 8-bit object *)
Theorem store8_truth_correct : forall cfg dst e n pd st,
  ports cfg = [] -> bexp_wf cfg e -> var_name dst -> layout cfg dst = Some pd ->
  0 <= pd < 65536 -> bytes_ok st ->
  exists st', halts_to cfg (store8_truth dst e n) st st' /\
    mget (mem st') pd = b2z (bexp_holds cfg e st) /\
    only_changes [pd] st st' /\ keeps_xys st st'.
Proof.
  intros cfg dst e n pd st Hp Hw Vd Ld Rd Hb.
  eapply halts_to_reach;
    [unfold store8_truth; apply slines_app; [apply (slines_truth_n cfg e n Hw)|slines_tac]|].
  apply reach_seq.
  eapply reach_weaken; [|apply (truth_reach_n cfg e n _ st Hp Hw Hb)].
  intros k pc1 s1 (Hpc & (Em & Ex & Ey & Es) & Hb1 & HA). cbv beta. subst pc1.
  apply reach_at0. repeat sfx_step. apply reach_stop.
  split; [rewrite app_length; reflexivity|].
  unfold only_changes, keeps_xys. state_simp. rewrite HA, Em.
  split; [mem_simp; reflexivity|].
  split; [intros a Ha Hn; cbn [In] in Hn; mem_simp; reflexivity|].
  repeat split; assumption.
Qed.
Print Assumptions store8_truth_correct.

(** [dst16 = e + k] for a byte constant [k]: the 8-bit sum, high byte 0 *)
Theorem store16_truth_plus_correct : forall cfg dst e k n pd st,
  ports cfg = [] -> bexp_wf cfg e -> var_name dst -> layout cfg dst = Some pd ->
  0 <= pd -> pd + 1 < 65536 -> 0 <= k < 256 -> bytes_ok st ->
  exists st', halts_to cfg (store16_truth_plus dst e k n) st st' /\
    word (mem st') pd = (b2z (bexp_holds cfg e st) + k) mod 256 /\
    only_changes [pd; pd + 1] st st' /\ keeps_xys st st'.
Proof.
  intros cfg dst e k n pd st Hp Hw Vd Ld Rd Rd' Rk Hb.
  eapply halts_to_reach;
    [unfold store16_truth_plus; apply slines_app; [apply (slines_truth_n cfg e n Hw)|slines_tac]|].
  apply reach_seq.
  eapply reach_weaken; [|apply (truth_reach_n cfg e n _ st Hp Hw Hb)].
  intros j pc1 s1 (Hpc & (Em & Ex & Ey & Es) & Hb1 & HA). cbv beta. subst pc1.
  apply reach_at0. repeat sfx_step. apply reach_stop.
  split; [rewrite app_length; reflexivity|].
  unfold word, only_changes, keeps_xys. state_simp. change (byte 0) with 0.
  rewrite (byte_small k Rk), HA, Em.
  split; [mem_simp; unfold byte; lia|].
  split; [intros a Ha Hn; cbn [In] in Hn; mem_simp; reflexivity|].
  repeat split; assumption.
Qed.
Print Assumptions store16_truth_plus_correct.

(** [dst16 = x16 + e]: the carry goes into the high byte.  [dst] may be [x]; its low cell is not
    the high cell of [x] *)
Theorem add16_truth_correct : forall cfg dst x e n pd px st,
  ports cfg = [] -> bexp_wf cfg e -> var_name dst -> var_name x ->
  layout cfg dst = Some pd -> layout cfg x = Some px ->
  0 <= pd -> pd + 1 < 65536 -> 0 <= px -> px + 1 < 65536 -> pd <> px + 1 ->
  bytes_ok st ->
  exists st', halts_to cfg (add16_truth dst x e n) st st' /\
    word (mem st') pd = (word (mem st) px + b2z (bexp_holds cfg e st)) mod 65536 /\
    only_changes [pd; pd + 1] st st' /\ keeps_xys st st'.
Proof.
  intros cfg dst x e n pd px st Hp Hw Vd Vx Ld Lx Rd Rd' Rx Rx' Nd Hb.
  pose proof Hb as (_ & _ & _ & _ & HM).
  eapply halts_to_reach;
    [unfold add16_truth; apply slines_app; [apply (slines_truth_n cfg e n Hw)|slines_tac]|].
  apply reach_seq.
  eapply reach_weaken; [|apply (truth_reach_n cfg e n _ st Hp Hw Hb)].
  intros j pc1 s1 (Hpc & (Em & Ex & Ey & Es) & Hb1 & HA). cbv beta. subst pc1.
  apply reach_at0. repeat sfx_step. apply reach_stop.
  split; [rewrite app_length; reflexivity|].
  unfold word, only_changes, keeps_xys. state_simp. change (byte 0) with 0. rewrite HA, Em.
  pose proof (b2z_range (bexp_holds cfg e st)) as Rb.
  pose proof (HM px) as M0. pose proof (HM (px + 1)) as M1.
  split.
  - mem_simp. generalize dependent (b2z (bexp_holds cfg e st)). intros t _ Rt.
    destruct (Z.leb_spec 256 (t + mget (mem st) px)); cbn [b2z]; unfold byte; lia.
  - split; [intros a Ha Hn; cbn [In] in Hn; mem_simp; reflexivity|repeat split; assumption].
Qed.
Print Assumptions add16_truth_correct.

(** * Conditional expressions with 16-bit alternatives *)

Definition tcond_wf (cfg : config) (c : tcond) : Prop :=
  match c with TCmp c => cond_wf cfg c | TNz x => var_at cfg x end.

Definition tcond_holds (cfg : config) (c : tcond) (st : mstate) : bool :=
  match c with TCmp c => cond_holds cfg c st | TNz x => negb (var_val cfg x st =? 0) end.

(** the cells the condition reads *)
Definition addr_of (cfg : config) (x : string) : list Z :=
  match layout cfg x with Some p => [p] | None => [] end.
Definition tcond_reads (cfg : config) (c : tcond) : list Z :=
  match c with
  | TCmp (CVar _ x y) => addr_of cfg x ++ addr_of cfg y
  | TCmp (CConst _ x _) => addr_of cfg x
  | TNz x => addr_of cfg x
  end.

Lemma var_val_reads : forall cfg x s s',
  (forall a, In a (addr_of cfg x) -> mget (mem s') a = mget (mem s) a) ->
  var_val cfg x s' = var_val cfg x s.
Proof.
  intros cfg x s s' H. unfold var_val, addr_of in *. destruct (layout cfg x); [|reflexivity].
  apply H. left. reflexivity.
Qed.

Lemma tcond_holds_reads : forall cfg c s s',
  (forall a, In a (tcond_reads cfg c) -> mget (mem s') a = mget (mem s) a) ->
  tcond_holds cfg c s' = tcond_holds cfg c s.
Proof.
  intros cfg c s s' H. destruct c as [[o x y|o x k]|x]; cbn [tcond_holds tcond_reads] in *;
    unfold cond_holds, cond_lhs_val, cond_rhs_val; cbn [cond_op cond_lhs].
  - rewrite (var_val_reads cfg x s s'), (var_val_reads cfg y s s'); [reflexivity| |];
      intros a Ha; apply H; apply in_or_app; [right|left]; exact Ha.
  - rewrite (var_val_reads cfg x s s'); [reflexivity|exact H].
  - rewrite (var_val_reads cfg x s s'); [reflexivity|exact H].
Qed.

(** the assembled condition, jumping to [lbl] when it FAILS *)
Definition stcond (c : tcond) (lbl here : string) : list sline :=
  match c with
  | TCmp c => scond_code c lbl here
  | TNz x => [slda x; sbr BEQ lbl false]
  end.

Lemma stcond_jw : forall cfg c lbl here, ports cfg = [] -> tcond_wf cfg c -> lbl <> here ->
  jumps_when cfg (stcond c lbl here) lbl (fun st => negb (tcond_holds cfg c st)).
Proof.
  intros cfg c lbl here Hp Hw Hne. destruct c as [c|x]; cbn [stcond tcond_holds tcond_wf] in *.
  - apply (jw_cond cfg c lbl here Hp Hw Hne).
  - intros pre post kl st Hfr Hkl Hb.
    eapply reach_weaken; [|apply (jw_z cfg x lbl Hp Hw pre post kl st Hfr Hkl Hb)].
    intros n pc' s' H. cbv beta in *. rewrite negb_involutive. exact H.
Qed.

Lemma stcond_defs : forall c lbl here l, In l (sdefs (stcond c lbl here)) -> l = here.
Proof.
  intros c lbl here l H. destruct c as [c|x]; cbn [stcond] in H.
  - apply (sdefs_scond_code _ _ _ _ H).
  - cbn [sdefs slda sbr In] in H. contradiction.
Qed.

Lemma slines_tcond : forall cfg c lbl here, tcond_wf cfg c -> lbl <> ""%string -> here <> ""%string ->
  slines_of (tcond_code_at c lbl here) = Some (stcond c lbl here).
Proof.
  intros cfg c lbl here Hw Hl Hh. destruct c as [c|x]; cbn [tcond_code_at stcond tcond_wf] in *.
  - apply (slines_cond_code cfg); assumption.
  - destruct Hw as (Vx & _). slines_tac.
Qed.

(** the operands *)
Definition opnd_wf (cfg : config) (o : opnd16) : Prop :=
  match o with
  | OVar t => var_name t /\ exists p, layout cfg t = Some p /\ 0 <= p /\ p + 1 < 65536
  | OConst k => 0 <= k < 65536
  end.

Definition val16 (cfg : config) (o : opnd16) (st : mstate) : Z :=
  match o with
  | OVar t => match layout cfg t with Some p => word (mem st) p | None => 0 end
  | OConst k => k
  end.

(** the high cell of a variable operand *)
Definition opnd_hi_cell (cfg : config) (o : opnd16) : list Z :=
  match o with
  | OVar t => match layout cfg t with Some p => [p + 1] | None => [] end
  | OConst _ => []
  end.

Definition slo (o : opnd16) : sline :=
  match o with OVar t => slda t | OConst k => slda_imm (k mod 256) end.
Definition shi (o : opnd16) : sline :=
  match o with OVar t => slda_hi t | OConst k => slda_imm (k / 256) end.

Definition lo_val (cfg : config) (o : opnd16) (s : mstate) : Z :=
  match o with
  | OVar t => match layout cfg t with Some p => mget (mem s) p | None => 0 end
  | OConst k => k mod 256
  end.
Definition hi_val (cfg : config) (o : opnd16) (s : mstate) : Z :=
  match o with
  | OVar t => match layout cfg t with Some p => mget (mem s) (p + 1) | None => 0 end
  | OConst k => k / 256
  end.

Lemma lo_hi_val16 : forall cfg o s, opnd_wf cfg o -> bytes_ok s ->
  lo_val cfg o s + 256 * hi_val cfg o s = val16 cfg o s /\
  0 <= lo_val cfg o s < 256 /\ 0 <= hi_val cfg o s < 256.
Proof.
  intros cfg o s Hw (_ & _ & _ & _ & HM). destruct o as [t|k]; cbn [opnd_wf lo_val hi_val val16] in *.
  - destruct Hw as (_ & p & L & _). rewrite L. unfold word.
    pose proof (HM p). pose proof (HM (p + 1)). lia.
  - lia.
Qed.

Lemma exec_slo : forall cfg o s, ports cfg = [] -> opnd_wf cfg o ->
  match slo o with
  | SIns m op _ _ => exists k, exec cfg m op s = XOk (lda_st s (lo_val cfg o s)) k FNext
  | _ => False
  end.
Proof.
  intros cfg o s Hp Hw. destruct o as [t|k]; cbn [slo slda slda_imm lo_val opnd_wf] in *.
  - destruct Hw as (_ & p & L & R0 & R1). rewrite L. apply (exec_lda_var cfg t p s Hp L); lia.
  - apply exec_lda_imm. lia.
Qed.

Lemma exec_shi : forall cfg o s, ports cfg = [] -> opnd_wf cfg o ->
  match shi o with
  | SIns m op _ _ => exists k, exec cfg m op s = XOk (lda_st s (hi_val cfg o s)) k FNext
  | _ => False
  end.
Proof.
  intros cfg o s Hp Hw. destruct o as [t|k]; cbn [shi slda_hi slda_imm hi_val opnd_wf] in *.
  - destruct Hw as (_ & p & L & R0 & R1). rewrite L. eexists.
    rewrite (exec_rd_mem cfg LDA s t 1 p Hp eq_refl L ltac:(lia)). reflexivity.
  - apply exec_lda_imm. lia.
Qed.

Lemma slines_lo : forall o cfg r sr, opnd_wf cfg o -> slines_of r = Some sr ->
  slines_of (ins LDA (lo_text o) :: r) = Some (slo o :: sr).
Proof.
  intros o cfg r sr Hw Hr. destruct o as [t|k]; cbn [lo_text slo opnd_wf] in *.
  - destruct Hw as (Vt & _). apply slines_ins; [apply vn_lo; [exact Vt|reflexivity]|exact Hr].
  - apply slines_ins; [apply parse_imm_num; [reflexivity|lia]|exact Hr].
Qed.

Lemma slines_hi : forall o cfg r sr, opnd_wf cfg o -> slines_of r = Some sr ->
  slines_of (ins LDA (hi_text o) :: r) = Some (shi o :: sr).
Proof.
  intros o cfg r sr Hw Hr. destruct o as [t|k]; cbn [hi_text shi opnd_wf] in *.
  - destruct Hw as (Vt & _). apply slines_ins; [apply vn_hi; [exact Vt|reflexivity]|exact Hr].
  - apply slines_ins; [apply parse_imm_num; [reflexivity|lia]|exact Hr].
Qed.

(** one byte of the conditional expression: condition, the two loads, the store *)
Lemma tern_byte_reach : forall cfg c lelse lend here (vx vy : mstate -> Z)
    mx ox rx my oy ry d k raw pd pre post st,
  ports cfg = [] -> tcond_wf cfg c ->
  lelse <> lend -> lelse <> here -> lend <> here ->
  ~ In lelse (sdefs pre) -> ~ In lend (sdefs pre) -> ~ In here (sdefs pre) ->
  (forall s, exists c0, exec cfg mx ox s = XOk (lda_st s (vx s)) c0 FNext) ->
  (forall s, exists c0, exec cfg my oy s = XOk (lda_st s (vy s)) c0 FNext) ->
  (forall s s', same_mxys s s' -> vx s' = vx s) -> (forall s s', same_mxys s s' -> vy s' = vy s) ->
  (forall s, bytes_ok s -> 0 <= vx s < 256) -> (forall s, bytes_ok s -> 0 <= vy s < 256) ->
  layout cfg d = Some pd -> 0 <= pd + k < 65536 ->
  bytes_ok st ->
  reach cfg (pre ++ ((stcond c lelse here
                      ++ [SIns mx ox false rx; sjmp lend; SLbl lelse; SIns my oy false ry; SLbl lend])
                     ++ [SIns STA (OMem d k IxNone) false raw]) ++ post) (length pre) st
    (fun (_ pc' : nat) (s' : mstate) =>
       pc' = (length pre + (length (stcond c lelse here) + 6))%nat /\
       mem s' = mset (mem st) (pd + k) (if tcond_holds cfg c st then vx st else vy st) /\
       keeps_xys st s' /\ bytes_ok s').
Proof.
  intros cfg c lelse lend here vx vy mx ox rx my oy ry d k raw pd pre post st Hp Hw Ned Neh Ndh
    Fe Fd Fh Ex Ey Sx Sy Rx Ry Ld Rd Hb.
  rewrite <- app_assoc.
  apply reach_seq.
  eapply reach_weaken;
    [|apply (select_reach cfg (stcond c lelse here) lelse lend (fun s => negb (tcond_holds cfg c s))
               mx ox rx (fun s => lda_st s (vx s)) my oy ry (fun s => lda_st s (vy s))
               pre ([SIns STA (OMem d k IxNone) false raw] ++ post) st
               (stcond_jw cfg c lelse here Hp Hw Neh) Ex Ey Ned);
      [intros H; apply stcond_defs in H; congruence
      |intros H; apply stcond_defs in H; congruence
      |exact Fe|exact Fd
      |intros l H; apply stcond_defs in H; subst l; exact Fh|exact Hb]].
  intros n pc1 s1 (Hpc & mid & Hs & Hbm & Es1). cbv beta.
  set (v := if tcond_holds cfg c st then vx st else vy st).
  assert (Ev : s1 = lda_st mid v).
  { rewrite Es1. unfold v. destruct (tcond_holds cfg c st); cbn [negb];
      [rewrite (Sx _ _ Hs)|rewrite (Sy _ _ Hs)]; reflexivity. }
  assert (Rv : 0 <= v < 256) by (unfold v; destruct (tcond_holds cfg c st); auto).
  pose proof Hs as (Em & Kx & Ky & Ks).
  eapply (reach_next_mid cfg _
            (pre ++ stcond c lelse here
             ++ [SIns mx ox false rx; sjmp lend; SLbl lelse; SIns my oy false ry; SLbl lend]));
    [rewrite <- !app_assoc; reflexivity
    |rewrite Hpc, !app_length; cbn [length]; lia
    |apply (exec_st_mem cfg STA s1 d k pd Hp eq_refl Ld Rd)|].
  apply reach_stop. split; [rewrite Hpc; lia|]. rewrite Ev.
  cbn [mem set_mem lda_st set_nz set_a st_reg rA]. rewrite Em.
  split; [reflexivity|].
  split; [repeat split; assumption|].
  destruct Hbm as (HA & HX & HY & HS & HM). destruct Hb as (_ & _ & _ & _ & HMst).
  apply bytes_ok_mk; try assumption. apply mget_mset_bytes; [exact HMst|exact Rv].
Qed.
Print Assumptions tern_byte_reach.

Definition stern_byte (c : tcond) (X Y : sline) (sta : sline) (lelse lend here : string)
  : list sline :=
  (stcond c lelse here ++ [X; sjmp lend; SLbl lelse; Y; SLbl lend]) ++ [sta].

Definition stern16 (dst : string) (c : tcond) (x y : opnd16) (le1 ld1 h1 le2 ld2 h2 : string)
  : list sline :=
  stern_byte c (slo x) (slo y) (SIns STA (OMem dst 0 IxNone) false dst) le1 ld1 h1
  ++ stern_byte c (shi x) (shi y) (SIns STA (OMem dst 1 IxNone) false (hi dst)) le2 ld2 h2.

Lemma slines_tern16 : forall cfg dst c x y le1 ld1 h1 le2 ld2 h2,
  tcond_wf cfg c -> opnd_wf cfg x -> opnd_wf cfg y -> var_name dst ->
  le1 <> ""%string -> ld1 <> ""%string -> h1 <> ""%string ->
  le2 <> ""%string -> ld2 <> ""%string -> h2 <> ""%string ->
  slines_of (tern16_tpl_at dst c x y le1 ld1 h1 le2 ld2 h2)
  = Some (stern16 dst c x y le1 ld1 h1 le2 ld2 h2).
Proof.
  intros cfg dst c x y le1 ld1 h1 le2 ld2 h2 Hc Hx Hy Vd N1 N2 N3 N4 N5 N6.
  unfold tern16_tpl_at, stern16, tern_byte_at, stern_byte.
  apply slines_app.
  - rewrite <- app_assoc. apply slines_app; [apply (slines_tcond cfg); assumption|]. cbn [app].
    apply (slines_lo x cfg); [exact Hx|]. apply slines_jmp; [exact N2|]. apply slines_lbl.
    apply (slines_lo y cfg); [exact Hy|]. slines_tac.
  - rewrite <- app_assoc. apply slines_app; [apply (slines_tcond cfg); assumption|]. cbn [app].
    apply (slines_hi x cfg); [exact Hx|]. apply slines_jmp; [exact N5|]. apply slines_lbl.
    apply (slines_hi y cfg); [exact Hy|]. slines_tac.
Qed.

Lemma lo_val_same : forall cfg o s s', same_mxys s s' -> lo_val cfg o s' = lo_val cfg o s.
Proof. intros cfg o s s' (Em & _). destruct o; cbn [lo_val]; rewrite ?Em; reflexivity. Qed.
Lemma hi_val_same : forall cfg o s s', same_mxys s s' -> hi_val cfg o s' = hi_val cfg o s.
Proof. intros cfg o s s' (Em & _). destruct o; cbn [hi_val]; rewrite ?Em; reflexivity. Qed.

Lemma nodup_nth_neq_str : forall (l : list string) (i j : nat) d, NoDup l ->
  (i < length l)%nat -> (j < length l)%nat -> i <> j -> nth i l d <> nth j l d.
Proof.
  intros l i j d Hn Hi Hj Hij E. apply Hij. apply (proj1 (NoDup_nth l d) Hn i j Hi Hj E).
Qed.

Ltac sneq Hnd i j :=
  exact (nodup_nth_neq_str _ i j ""%string Hnd ltac:(cbn [length]; lia) ltac:(cbn [length]; lia)
           ltac:(lia)).

Definition is_ins (l : sline) : Prop := match l with SIns _ _ _ _ => True | _ => False end.

Lemma slo_is_ins : forall o, is_ins (slo o).
Proof. intros o. destruct o; exact I. Qed.
Lemma shi_is_ins : forall o, is_ins (shi o).
Proof. intros o. destruct o; exact I. Qed.

Lemma sdefs_stern_byte : forall c X Y sta le ld h l, is_ins X -> is_ins Y -> is_ins sta ->
  In l (sdefs (stern_byte c X Y sta le ld h)) -> l = h \/ l = le \/ l = ld.
Proof.
  intros c X Y sta le ld h l HX HY Hs H. unfold stern_byte in H.
  rewrite !sdefs_app, !in_app_iff in H.
  destruct X; try contradiction. destruct Y; try contradiction. destruct sta; try contradiction.
  cbn [sdefs sjmp In] in H. destruct H as [[H|[H|[H|[]]]]|[]].
  - left. apply (stcond_defs _ _ _ _ H).
  - right. left. symmetry. exact H.
  - right. right. symmetry. exact H.
Qed.

Lemma stern_byte_length : forall c X Y sta le ld h,
  length (stern_byte c X Y sta le ld h) = (length (stcond c le h) + 6)%nat.
Proof. intros. unfold stern_byte. rewrite !app_length. cbn [length]. lia. Qed.

Lemma tcond_reads_nonneg : forall cfg c a, tcond_wf cfg c -> In a (tcond_reads cfg c) -> 0 <= a.
Proof.
  assert (Hv : forall cfg x a, var_at cfg x -> In a (addr_of cfg x) -> 0 <= a).
  { intros cfg x a (_ & p & L & R) H. unfold addr_of in H. rewrite L in H.
    destruct H as [<-|[]]. lia. }
  intros cfg c a Hw H. destruct c as [[o x y|o x k]|x]; cbn [tcond_wf cond_wf tcond_reads] in *.
  - destruct Hw as (Hx & Hy). apply in_app_or in H. destruct H as [H|H]; [apply (Hv cfg x a Hx H)|apply (Hv cfg y a Hy H)].
  - apply (Hv cfg x a (proj1 Hw) H).
  - apply (Hv cfg x a Hw H).
Qed.

Lemma hi_val_mset : forall cfg o s s1 pd v, opnd_wf cfg o -> 0 <= pd ->
  ~ In pd (opnd_hi_cell cfg o) -> mem s1 = mset (mem s) pd v ->
  hi_val cfg o s1 = hi_val cfg o s.
Proof.
  intros cfg o s s1 pd v Hw Hpd Hn E. destruct o as [t|k]; cbn [hi_val opnd_wf opnd_hi_cell] in *;
    [|reflexivity].
  destruct Hw as (_ & p & L & R0 & R1). rewrite L in *. rewrite E.
  apply mget_mset_other; [intros E'; apply Hn; left; symmetry; exact E'|lia|lia].
Qed.

(** ** [tern16_correct]: [dst16 = c ? x : y].  Needed: the condition does not read the LOW cell of
    [dst] (it is evaluated a second time after that cell is written), and the high cell of a
    variable alternative is not the low cell of [dst] *)
Theorem tern16_correct : forall cfg dst c x y le1 ld1 h1 le2 ld2 h2 pd st,
  ports cfg = [] -> tcond_wf cfg c -> opnd_wf cfg x -> opnd_wf cfg y ->
  var_name dst -> layout cfg dst = Some pd -> 0 <= pd -> pd + 1 < 65536 ->
  NoDup [le1; ld1; h1; le2; ld2; h2] ->
  (forall l, In l [le1; ld1; h1; le2; ld2; h2] -> l <> ""%string) ->
  ~ In pd (tcond_reads cfg c) -> ~ In pd (opnd_hi_cell cfg x) -> ~ In pd (opnd_hi_cell cfg y) ->
  bytes_ok st ->
  exists st', halts_to cfg (tern16_tpl_at dst c x y le1 ld1 h1 le2 ld2 h2) st st' /\
    word (mem st') pd = (if tcond_holds cfg c st then val16 cfg x st else val16 cfg y st) /\
    only_changes [pd; pd + 1] st st' /\ keeps_xys st st'.
Proof.
  intros cfg dst c x y le1 ld1 h1 le2 ld2 h2 pd st Hp Hc Hx Hy Vd Ld Rd Rd' Hnd Hne
    Ac Ax Ay Hb.
  assert (N12 : le1 <> ld1) by sneq Hnd 0%nat 1%nat.
  assert (N13 : le1 <> h1) by sneq Hnd 0%nat 2%nat.
  assert (N23 : ld1 <> h1) by sneq Hnd 1%nat 2%nat.
  assert (N45 : le2 <> ld2) by sneq Hnd 3%nat 4%nat.
  assert (N46 : le2 <> h2) by sneq Hnd 3%nat 5%nat.
  assert (N56 : ld2 <> h2) by sneq Hnd 4%nat 5%nat.
  assert (N41 : le2 <> le1) by sneq Hnd 3%nat 0%nat.
  assert (N42 : le2 <> ld1) by sneq Hnd 3%nat 1%nat.
  assert (N43 : le2 <> h1) by sneq Hnd 3%nat 2%nat.
  assert (N51 : ld2 <> le1) by sneq Hnd 4%nat 0%nat.
  assert (N52 : ld2 <> ld1) by sneq Hnd 4%nat 1%nat.
  assert (N53 : ld2 <> h1) by sneq Hnd 4%nat 2%nat.
  assert (N61 : h2 <> le1) by sneq Hnd 5%nat 0%nat.
  assert (N62 : h2 <> ld1) by sneq Hnd 5%nat 1%nat.
  assert (N63 : h2 <> h1) by sneq Hnd 5%nat 2%nat.
  eapply halts_to_reach;
    [apply (slines_tern16 cfg); try assumption; apply Hne; cbn [In]; tauto|].
  unfold stern16.
  set (seg1 := stern_byte c (slo x) (slo y) (SIns STA (OMem dst 0 IxNone) false dst) le1 ld1 h1).
  set (seg2 := stern_byte c (shi x) (shi y) (SIns STA (OMem dst 1 IxNone) false (hi dst)) le2 ld2 h2).
  assert (Hlo : forall o, opnd_wf cfg o ->
            (forall s, bytes_ok s -> 0 <= lo_val cfg o s < 256) /\
            (forall s, bytes_ok s -> 0 <= hi_val cfg o s < 256))
    by (intros o Ho; split; intros s Hs; apply (lo_hi_val16 cfg o s Ho Hs)).
  (* the low byte *)
  assert (H1 : reach cfg (seg1 ++ seg2) 0 st
            (fun (_ pc' : nat) (s' : mstate) =>
               pc' = (length (stcond c le1 h1) + 6)%nat /\
               mem s' = mset (mem st) (pd + 0)
                          (if tcond_holds cfg c st then lo_val cfg x st else lo_val cfg y st) /\
               keeps_xys st s' /\ bytes_ok s')).
  { unfold seg1, stern_byte at 1.
    pose proof (exec_slo cfg x) as Ex. pose proof (exec_slo cfg y) as Ey.
    destruct x as [tx|kx]; destruct y as [ty|ky]; cbn [slo slda slda_imm] in *;
      apply (tern_byte_reach cfg c le1 ld1 h1 _ _ _ _ _ _ _ _ dst 0 dst pd [] _ st Hp Hc N12 N13 N23
               (fun H => H) (fun H => H) (fun H => H)
               (fun s => Ex s Hp Hx) (fun s => Ey s Hp Hy)
               (lo_val_same cfg _) (lo_val_same cfg _)
               (proj1 (Hlo _ Hx)) (proj1 (Hlo _ Hy)) Ld ltac:(lia) Hb). }
  apply reach_seq. eapply reach_weaken; [|exact H1]. clear H1.
  intros n1 pc1 s1 (Hpc1 & Em1 & Hk1 & Hb1). cbv beta. rewrite Z.add_0_r in Em1.
  (* the condition and the high bytes are what they were *)
  assert (Ec : tcond_holds cfg c s1 = tcond_holds cfg c st).
  { apply tcond_holds_reads. intros a Ha. rewrite Em1.
    apply mget_mset_other; [intros E; apply Ac; rewrite E; exact Ha|lia
                           |apply (tcond_reads_nonneg cfg c a Hc Ha)]. }
  pose proof (hi_val_mset cfg x st s1 pd _ Hx Rd Ax Em1) as Ehx.
  pose proof (hi_val_mset cfg y st s1 pd _ Hy Rd Ay Em1) as Ehy.
  (* the high byte *)
  assert (Hfr : forall l, l = le2 \/ l = ld2 \/ l = h2 -> ~ In l (sdefs seg1)).
  { intros l Hl Hin.
    apply (sdefs_stern_byte c (slo x) (slo y) (SIns STA (OMem dst 0 IxNone) false dst) le1 ld1 h1 l
             (slo_is_ins x) (slo_is_ins y) I) in Hin.
    destruct Hl as [ -> | [ -> | -> ] ]; destruct Hin as [E|[E|E]]; congruence. }
  assert (H2 : reach cfg (seg1 ++ seg2 ++ []) (length seg1) s1
            (fun (_ pc' : nat) (s' : mstate) =>
               pc' = (length seg1 + (length (stcond c le2 h2) + 6))%nat /\
               mem s' = mset (mem s1) (pd + 1)
                          (if tcond_holds cfg c s1 then hi_val cfg x s1 else hi_val cfg y s1) /\
               keeps_xys s1 s' /\ bytes_ok s')).
  { unfold seg2. unfold stern_byte.
    pose proof (exec_shi cfg x) as Ex. pose proof (exec_shi cfg y) as Ey.
    destruct x as [tx|kx]; destruct y as [ty|ky]; cbn [shi slda_hi slda_imm] in *;
      apply (tern_byte_reach cfg c le2 ld2 h2 _ _ _ _ _ _ _ _ dst 1 (hi dst) pd seg1 [] s1 Hp Hc
               N45 N46 N56
               (Hfr le2 (or_introl eq_refl)) (Hfr ld2 (or_intror (or_introl eq_refl)))
               (Hfr h2 (or_intror (or_intror eq_refl)))
               (fun s => Ex s Hp Hx) (fun s => Ey s Hp Hy)
               (hi_val_same cfg _) (hi_val_same cfg _)
               (proj2 (Hlo _ Hx)) (proj2 (Hlo _ Hy)) Ld ltac:(lia) Hb1). }
  rewrite app_nil_r in H2.
  assert (Epc : pc1 = length seg1) by (rewrite Hpc1; unfold seg1; rewrite stern_byte_length; reflexivity).
  rewrite Epc. eapply reach_weaken; [|exact H2]. clear H2.
  intros n2 pc2 s2 (Hpc2 & Em2 & Hk2 & Hb2). cbv beta.
  rewrite Ec, Ehx, Ehy in Em2.
  split; [rewrite Hpc2, app_length; unfold seg2; rewrite stern_byte_length; reflexivity|].
  destruct (lo_hi_val16 cfg x st Hx Hb) as (Wx & _). destruct (lo_hi_val16 cfg y st Hy Hb) as (Wy & _).
  split.
  - unfold word. rewrite Em2, Em1.
    rewrite mget_mset_same. rewrite mget_mset_other by lia. rewrite mget_mset_same.
    destruct (tcond_holds cfg c st); assumption.
  - split; [|apply (keeps_xys_trans _ _ _ Hk1 Hk2)].
    intros a Ha Hn. cbn [In] in Hn. rewrite Em2, Em1. rewrite !mget_mset_other by lia. reflexivity.
Qed.
Print Assumptions tern16_correct.

(** ** with the compiler's labels: [.elseN] / [.ifendN], then [.else(N+1)] / [.ifend(N+1)] *)

Lemma append_inj_l : forall p a b : string, (p ++ a)%string = (p ++ b)%string -> a = b.
Proof.
  induction p as [|ch p IH]; intros a b H; [exact H|].
  cbn [append] in H. inversion H. apply IH. assumption.
Qed.

Lemma string_of_N_inj : forall a b, string_of_N a = string_of_N b -> a = b.
Proof.
  intros a b H. pose proof (parse_string_of_N a) as Ha. pose proof (parse_string_of_N b) as Hb0.
  rewrite H in Ha. rewrite Ha in Hb0. inversion Hb0. reflexivity.
Qed.

Lemma lname_inj : forall p n m, lname p n = lname p m -> n = m.
Proof. intros p n m H. unfold lname in H. apply string_of_N_inj. apply (append_inj_l p _ _ H). Qed.

(** two compiler labels are different: different prefixes, or different numbers *)
Ltac lname_neq E :=
  first [ apply lname_inj in E; lia
        | unfold lname in E; cbn [append] in E; discriminate E ].

Lemma tern_labels_nodup : forall n,
  NoDup [lname ".else" n; lname ".ifend" n; lname ".ifhere" (n + 2);
         lname ".else" (n + 1); lname ".ifend" (n + 1); lname ".ifhere" (n + 3)].
Proof.
  intros n.
  repeat (constructor;
          [cbn [In]; intros H;
           repeat match goal with H : _ \/ _ |- _ => destruct H as [H|H] end;
           try contradiction; lname_neq H|]).
  constructor.
Qed.

Theorem tern16_correct_n : forall cfg dst c x y n pd st,
  ports cfg = [] -> tcond_wf cfg c -> opnd_wf cfg x -> opnd_wf cfg y ->
  var_name dst -> layout cfg dst = Some pd -> 0 <= pd -> pd + 1 < 65536 ->
  ~ In pd (tcond_reads cfg c) -> ~ In pd (opnd_hi_cell cfg x) -> ~ In pd (opnd_hi_cell cfg y) ->
  bytes_ok st ->
  exists st', halts_to cfg (tern16_tpl dst c x y n) st st' /\
    word (mem st') pd = (if tcond_holds cfg c st then val16 cfg x st else val16 cfg y st) /\
    only_changes [pd; pd + 1] st st' /\ keeps_xys st st'.
Proof.
  intros cfg dst c x y n pd st Hp Hc Hx Hy Vd Ld Rd Rd' Ac Ax Ay Hb. unfold tern16_tpl.
  apply tern16_correct; try assumption; [apply tern_labels_nodup|].
  intros l Hin. cbn [In] in Hin.
  repeat match goal with H : _ \/ _ |- _ => destruct H as [H|H] end; try contradiction; subst l;
    unfold lname; cbn [append]; discriminate.
Qed.
Print Assumptions tern16_correct_n.

(** * The listings: closed forms (any names, any label number, any addresses) *)

Lemma var_val_at : forall cfg x px st, layout cfg x = Some px -> var_val cfg x st = mget (mem st) px.
Proof. intros cfg x px st L. unfold var_val. rewrite L. reflexivity. Qed.

(** [s = (a o b);] for the six comparisons (listings 01 02: [==], [<]) *)
Theorem store16_cmp_correct : forall o cfg a b s n pa pb ps st,
  ports cfg = [] -> var_name a -> var_name b -> var_name s ->
  layout cfg a = Some pa -> layout cfg b = Some pb -> layout cfg s = Some ps ->
  0 <= pa < 65536 -> 0 <= pb < 65536 -> 0 <= ps -> ps + 1 < 65536 ->
  bytes_ok st ->
  exists st', halts_to cfg (store16_truth s (BCond (CVar o a b)) n) st st' /\
    word (mem st') ps = (if rel_holds o (mget (mem st) pa) (mget (mem st) pb) then 1 else 0) /\
    mget (mem st') (ps + 1) = 0 /\
    only_changes [ps; ps + 1] st st' /\ keeps_xys st st'.
Proof.
  intros o cfg a b s n pa pb ps st Hp Va Vb Vs La Lb Ls Ra Rb Rs Rs' Hb.
  destruct (store16_truth_correct cfg s (BCond (CVar o a b)) n ps st Hp
              (conj (var_at_intro cfg a pa Va La Ra) (var_at_intro cfg b pb Vb Lb Rb))
              Vs Ls Rs Rs' Hb) as (st' & Hr & Hw & _ & Hh & Hf).
  exists st'. split; [exact Hr|]. cbn [bexp_holds] in Hw.
  rewrite (cond_holds_var cfg o a b pa pb st La Lb) in Hw.
  split; [exact Hw|]. split; [exact Hh|exact Hf].
Qed.
Print Assumptions store16_cmp_correct.

(** [s = (a o k);] for a byte constant (listing 03: [a != 3]) *)
Theorem store16_cmpk_correct : forall o cfg a k s n pa ps st,
  ports cfg = [] -> var_name a -> var_name s ->
  layout cfg a = Some pa -> layout cfg s = Some ps ->
  0 <= pa < 65536 -> 0 <= k < 256 -> 0 <= ps -> ps + 1 < 65536 ->
  bytes_ok st ->
  exists st', halts_to cfg (store16_truth s (BCond (CConst o a k)) n) st st' /\
    word (mem st') ps = (if rel_holds o (mget (mem st) pa) k then 1 else 0) /\
    mget (mem st') (ps + 1) = 0 /\
    only_changes [ps; ps + 1] st st' /\ keeps_xys st st'.
Proof.
  intros o cfg a k s n pa ps st Hp Va Vs La Ls Ra Rk Rs Rs' Hb.
  destruct (store16_truth_correct cfg s (BCond (CConst o a k)) n ps st Hp
              (conj (var_at_intro cfg a pa Va La Ra) Rk) Vs Ls Rs Rs' Hb)
    as (st' & Hr & Hw & _ & Hh & Hf).
  exists st'. split; [exact Hr|]. cbn [bexp_holds] in Hw.
  rewrite (cond_holds_const cfg o a k pa st La) in Hw.
  split; [exact Hw|]. split; [exact Hh|exact Hf].
Qed.
Print Assumptions store16_cmpk_correct.

(** [s = a && b;], [s = a || b;], [s = !a;] (listings 04 05 06) *)
Theorem store16_and_correct : forall cfg a b s n pa pb ps st,
  ports cfg = [] -> var_name a -> var_name b -> var_name s ->
  layout cfg a = Some pa -> layout cfg b = Some pb -> layout cfg s = Some ps ->
  0 <= pa < 65536 -> 0 <= pb < 65536 -> 0 <= ps -> ps + 1 < 65536 ->
  bytes_ok st ->
  exists st', halts_to cfg (store16_truth s (BAnd a b) n) st st' /\
    word (mem st') ps
    = (if negb (mget (mem st) pa =? 0) && negb (mget (mem st) pb =? 0) then 1 else 0) /\
    mget (mem st') (ps + 1) = 0 /\
    only_changes [ps; ps + 1] st st' /\ keeps_xys st st'.
Proof.
  intros cfg a b s n pa pb ps st Hp Va Vb Vs La Lb Ls Ra Rb Rs Rs' Hb.
  destruct (store16_truth_correct cfg s (BAnd a b) n ps st Hp
              (conj (var_at_intro cfg a pa Va La Ra) (var_at_intro cfg b pb Vb Lb Rb))
              Vs Ls Rs Rs' Hb) as (st' & Hr & Hw & _ & Hh & Hf).
  exists st'. split; [exact Hr|]. cbn [bexp_holds] in Hw.
  rewrite (var_val_at cfg a pa st La), (var_val_at cfg b pb st Lb) in Hw.
  split; [exact Hw|]. split; [exact Hh|exact Hf].
Qed.
Print Assumptions store16_and_correct.

Theorem store16_or_correct : forall cfg a b s n pa pb ps st,
  ports cfg = [] -> var_name a -> var_name b -> var_name s ->
  layout cfg a = Some pa -> layout cfg b = Some pb -> layout cfg s = Some ps ->
  0 <= pa < 65536 -> 0 <= pb < 65536 -> 0 <= ps -> ps + 1 < 65536 ->
  bytes_ok st ->
  exists st', halts_to cfg (store16_truth s (BOr a b) n) st st' /\
    word (mem st') ps
    = (if negb (mget (mem st) pa =? 0) || negb (mget (mem st) pb =? 0) then 1 else 0) /\
    mget (mem st') (ps + 1) = 0 /\
    only_changes [ps; ps + 1] st st' /\ keeps_xys st st'.
Proof.
  intros cfg a b s n pa pb ps st Hp Va Vb Vs La Lb Ls Ra Rb Rs Rs' Hb.
  destruct (store16_truth_correct cfg s (BOr a b) n ps st Hp
              (conj (var_at_intro cfg a pa Va La Ra) (var_at_intro cfg b pb Vb Lb Rb))
              Vs Ls Rs Rs' Hb) as (st' & Hr & Hw & _ & Hh & Hf).
  exists st'. split; [exact Hr|]. cbn [bexp_holds] in Hw.
  rewrite (var_val_at cfg a pa st La), (var_val_at cfg b pb st Lb) in Hw.
  split; [exact Hw|]. split; [exact Hh|exact Hf].
Qed.
Print Assumptions store16_or_correct.

Theorem store16_not_correct : forall cfg a s n pa ps st,
  ports cfg = [] -> var_name a -> var_name s ->
  layout cfg a = Some pa -> layout cfg s = Some ps ->
  0 <= pa < 65536 -> 0 <= ps -> ps + 1 < 65536 ->
  bytes_ok st ->
  exists st', halts_to cfg (store16_truth s (BNot a) n) st st' /\
    word (mem st') ps = (if mget (mem st) pa =? 0 then 1 else 0) /\
    mget (mem st') (ps + 1) = 0 /\
    only_changes [ps; ps + 1] st st' /\ keeps_xys st st'.
Proof.
  intros cfg a s n pa ps st Hp Va Vs La Ls Ra Rs Rs' Hb.
  destruct (store16_truth_correct cfg s (BNot a) n ps st Hp (var_at_intro cfg a pa Va La Ra)
              Vs Ls Rs Rs' Hb) as (st' & Hr & Hw & _ & Hh & Hf).
  exists st'. split; [exact Hr|]. cbn [bexp_holds] in Hw.
  rewrite (var_val_at cfg a pa st La) in Hw.
  split; [exact Hw|]. split; [exact Hh|exact Hf].
Qed.
Print Assumptions store16_not_correct.

(** [c = (a o b);] into an 8-bit object (listing 07) *)
Theorem store8_cmp_correct : forall o cfg a b c n pa pb pc st,
  ports cfg = [] -> var_name a -> var_name b -> var_name c ->
  layout cfg a = Some pa -> layout cfg b = Some pb -> layout cfg c = Some pc ->
  0 <= pa < 65536 -> 0 <= pb < 65536 -> 0 <= pc < 65536 ->
  bytes_ok st ->
  exists st', halts_to cfg (store8_truth c (BCond (CVar o a b)) n) st st' /\
    mget (mem st') pc = (if rel_holds o (mget (mem st) pa) (mget (mem st) pb) then 1 else 0) /\
    only_changes [pc] st st' /\ keeps_xys st st'.
Proof.
  intros o cfg a b c n pa pb pc st Hp Va Vb Vc La Lb Lc Ra Rb Rc Hb.
  destruct (store8_truth_correct cfg c (BCond (CVar o a b)) n pc st Hp
              (conj (var_at_intro cfg a pa Va La Ra) (var_at_intro cfg b pb Vb Lb Rb))
              Vc Lc Rc Hb) as (st' & Hr & Hw & Hf).
  exists st'. split; [exact Hr|]. cbn [bexp_holds] in Hw.
  rewrite (cond_holds_var cfg o a b pa pb st La Lb) in Hw. split; [exact Hw|exact Hf].
Qed.
Print Assumptions store8_cmp_correct.

(** [s = c ? t : u;] (listing 08) *)
Theorem tern16_vars_correct : forall cfg c t u s n pc pt pu ps st,
  ports cfg = [] -> var_name c -> var_name t -> var_name u -> var_name s ->
  layout cfg c = Some pc -> layout cfg t = Some pt -> layout cfg u = Some pu ->
  layout cfg s = Some ps ->
  0 <= pc < 65536 -> 0 <= pt -> pt + 1 < 65536 -> 0 <= pu -> pu + 1 < 65536 ->
  0 <= ps -> ps + 1 < 65536 ->
  ps <> pc -> ps <> pt + 1 -> ps <> pu + 1 ->
  bytes_ok st ->
  exists st', halts_to cfg (tern16_tpl s (TNz c) (OVar t) (OVar u) n) st st' /\
    word (mem st') ps
    = (if mget (mem st) pc =? 0 then word (mem st) pu else word (mem st) pt) /\
    only_changes [ps; ps + 1] st st' /\ keeps_xys st st'.
Proof.
  intros cfg c t u s n pc pt pu ps st Hp Vc Vt Vu Vs Lc Lt Lu Ls Rc Rt Rt' Ru Ru' Rs Rs'
    N1 N2 N3 Hb.
  destruct (tern16_correct_n cfg s (TNz c) (OVar t) (OVar u) n ps st Hp
              (var_at_intro cfg c pc Vc Lc Rc)
              (conj Vt (ex_intro _ pt (conj Lt (conj Rt Rt'))))
              (conj Vu (ex_intro _ pu (conj Lu (conj Ru Ru')))) Vs Ls Rs Rs')
    as (st' & Hr & Hw & Hf); [| | |exact Hb|].
  - cbn [tcond_reads]. unfold addr_of. rewrite Lc. cbn [In]. lia.
  - cbn [opnd_hi_cell]. rewrite Lt. cbn [In]. lia.
  - cbn [opnd_hi_cell]. rewrite Lu. cbn [In]. lia.
  - exists st'. split; [exact Hr|]. split; [|exact Hf].
    rewrite Hw. cbn [tcond_holds val16]. rewrite (var_val_at cfg c pc st Lc), Lt, Lu.
    destruct (mget (mem st) pc =? 0); reflexivity.
Qed.
Print Assumptions tern16_vars_correct.

(** [s = c ? k1 : k2;] (listing 09: 1000, 300) *)
Theorem tern16_consts_correct : forall cfg c k1 k2 s n pc ps st,
  ports cfg = [] -> var_name c -> var_name s ->
  layout cfg c = Some pc -> layout cfg s = Some ps ->
  0 <= pc < 65536 -> 0 <= k1 < 65536 -> 0 <= k2 < 65536 -> 0 <= ps -> ps + 1 < 65536 ->
  ps <> pc ->
  bytes_ok st ->
  exists st', halts_to cfg (tern16_tpl s (TNz c) (OConst k1) (OConst k2) n) st st' /\
    word (mem st') ps = (if mget (mem st) pc =? 0 then k2 else k1) /\
    only_changes [ps; ps + 1] st st' /\ keeps_xys st st'.
Proof.
  intros cfg c k1 k2 s n pc ps st Hp Vc Vs Lc Ls Rc R1 R2 Rs Rs' N1 Hb.
  destruct (tern16_correct_n cfg s (TNz c) (OConst k1) (OConst k2) n ps st Hp
              (var_at_intro cfg c pc Vc Lc Rc) R1 R2 Vs Ls Rs Rs')
    as (st' & Hr & Hw & Hf); [|intros []|intros []|exact Hb|].
  - cbn [tcond_reads]. unfold addr_of. rewrite Lc. cbn [In]. lia.
  - exists st'. split; [exact Hr|]. split; [|exact Hf].
    rewrite Hw. cbn [tcond_holds val16]. rewrite (var_val_at cfg c pc st Lc).
    destruct (mget (mem st) pc =? 0); reflexivity.
Qed.
Print Assumptions tern16_consts_correct.

(** [s = (a o b) ? t : k;] (listing 10: [(a < b) ? t : 1000]) *)
Theorem tern16_cmp_correct : forall o cfg a b t k s n pa pb pt ps st,
  ports cfg = [] -> var_name a -> var_name b -> var_name t -> var_name s ->
  layout cfg a = Some pa -> layout cfg b = Some pb -> layout cfg t = Some pt ->
  layout cfg s = Some ps ->
  0 <= pa < 65536 -> 0 <= pb < 65536 -> 0 <= pt -> pt + 1 < 65536 -> 0 <= k < 65536 ->
  0 <= ps -> ps + 1 < 65536 ->
  ps <> pa -> ps <> pb -> ps <> pt + 1 ->
  bytes_ok st ->
  exists st', halts_to cfg (tern16_tpl s (TCmp (CVar o a b)) (OVar t) (OConst k) n) st st' /\
    word (mem st') ps
    = (if rel_holds o (mget (mem st) pa) (mget (mem st) pb) then word (mem st) pt else k) /\
    only_changes [ps; ps + 1] st st' /\ keeps_xys st st'.
Proof.
  intros o cfg a b t k s n pa pb pt ps st Hp Va Vb Vt Vs La Lb Lt Ls Ra Rb Rt Rt' Rk Rs Rs'
    N1 N2 N3 Hb.
  destruct (tern16_correct_n cfg s (TCmp (CVar o a b)) (OVar t) (OConst k) n ps st Hp
              (conj (var_at_intro cfg a pa Va La Ra) (var_at_intro cfg b pb Vb Lb Rb))
              (conj Vt (ex_intro _ pt (conj Lt (conj Rt Rt')))) Rk Vs Ls Rs Rs')
    as (st' & Hr & Hw & Hf); [| |intros []|exact Hb|].
  - cbn [tcond_reads]. unfold addr_of. rewrite La, Lb. cbn [app In]. lia.
  - cbn [opnd_hi_cell]. rewrite Lt. cbn [In]. lia.
  - exists st'. split; [exact Hr|]. split; [|exact Hf].
    rewrite Hw. cbn [tcond_holds val16]. rewrite (cond_holds_var cfg o a b pa pb st La Lb), Lt.
    reflexivity.
Qed.
Print Assumptions tern16_cmp_correct.

(** [s = (a o b) + k;] (listing 11) and [t = t + (a o b);] (listing 12: the carry goes into the
    high byte) *)
Theorem store16_cmp_plus_correct : forall o cfg a b k s n pa pb ps st,
  ports cfg = [] -> var_name a -> var_name b -> var_name s ->
  layout cfg a = Some pa -> layout cfg b = Some pb -> layout cfg s = Some ps ->
  0 <= pa < 65536 -> 0 <= pb < 65536 -> 0 <= ps -> ps + 1 < 65536 -> 0 <= k < 255 ->
  bytes_ok st ->
  exists st', halts_to cfg (store16_truth_plus s (BCond (CVar o a b)) k n) st st' /\
    word (mem st') ps = (if rel_holds o (mget (mem st) pa) (mget (mem st) pb) then 1 else 0) + k /\
    only_changes [ps; ps + 1] st st' /\ keeps_xys st st'.
Proof.
  intros o cfg a b k s n pa pb ps st Hp Va Vb Vs La Lb Ls Ra Rb Rs Rs' Rk Hb.
  destruct (store16_truth_plus_correct cfg s (BCond (CVar o a b)) k n ps st Hp
              (conj (var_at_intro cfg a pa Va La Ra) (var_at_intro cfg b pb Vb Lb Rb))
              Vs Ls Rs Rs' ltac:(lia) Hb) as (st' & Hr & Hw & Hf).
  exists st'. split; [exact Hr|]. cbn [bexp_holds] in Hw.
  rewrite (cond_holds_var cfg o a b pa pb st La Lb) in Hw. split; [|exact Hf].
  rewrite Hw. destruct (rel_holds o (mget (mem st) pa) (mget (mem st) pb)); cbn [b2z];
    rewrite Z.mod_small; lia.
Qed.
Print Assumptions store16_cmp_plus_correct.

Theorem add16_cmp_correct : forall o cfg a b t n pa pb pt st,
  ports cfg = [] -> var_name a -> var_name b -> var_name t ->
  layout cfg a = Some pa -> layout cfg b = Some pb -> layout cfg t = Some pt ->
  0 <= pa < 65536 -> 0 <= pb < 65536 -> 0 <= pt -> pt + 1 < 65536 ->
  bytes_ok st ->
  exists st', halts_to cfg (add16_truth t t (BCond (CVar o a b)) n) st st' /\
    word (mem st') pt
    = (word (mem st) pt
       + (if rel_holds o (mget (mem st) pa) (mget (mem st) pb) then 1 else 0)) mod 65536 /\
    only_changes [pt; pt + 1] st st' /\ keeps_xys st st'.
Proof.
  intros o cfg a b t n pa pb pt st Hp Va Vb Vt La Lb Lt Ra Rb Rt Rt' Hb.
  destruct (add16_truth_correct cfg t t (BCond (CVar o a b)) n pt pt st Hp
              (conj (var_at_intro cfg a pa Va La Ra) (var_at_intro cfg b pb Vb Lb Rb))
              Vt Vt Lt Lt Rt Rt' Rt Rt' ltac:(lia) Hb) as (st' & Hr & Hw & Hf).
  exists st'. split; [exact Hr|]. cbn [bexp_holds] in Hw.
  rewrite (cond_holds_var cfg o a b pa pb st La Lb) in Hw. split; [exact Hw|exact Hf].
Qed.
Print Assumptions add16_cmp_correct.

(** * What the repair changed: the sequences emitted before it, run on the semantics

    (layout of Proofs/GenTemplatesFacts.v: a, b, c at 128, 129, 130; s, t, u at 134, 136, 138;
    the result is the 16-bit value of [s]) *)
Definition run_s (c : code) (st : mstate) : option Z :=
  match slines_of c with
  | Some sl =>
      match Sem.run cfg_listing [] (fun _ _ => None) (fun _ _ => None) 100 "f" sl 0 [] st [] 0%N with
      | Halt s' _ _ => Some (word (mem s') 134)
      | _ => None
      end
  | None => None
  end.

Definition st_truth (va vb vc tlo thi : Z) : mstate :=
  mkS 0 1 2 255 false false false false
    (mset (mset (mset (mset (mset mem_empty 128 va) 129 vb) 130 vc) 136 tlo) 137 thi).

(** [s = (a == b);] before the repair: the truth code a second time, its result into [s+1] *)
Definition store16_truth_old (dst : string) (e : bexp) (n : N) : code :=
  truth_tpl e n ++ [ins STA dst] ++ truth_tpl e (n + 1) ++ [ins STA (hi dst)].

Example store16_truth_old_refuted :
  run_s (store16_truth_old "s" (BCond (CVar REq "a" "b")) 1) (st_truth 7 7 0 0 0) = Some 257 /\
  run_s (store16_truth "s" (BCond (CVar REq "a" "b")) 1) (st_truth 7 7 0 0 0) = Some 1.
Proof. vm_compute. split; reflexivity. Qed.

(** [s = c ? t : u;] before the repair: the second pass loaded the LOW bytes again *)
Definition tern16_old (dst : string) (c : tcond) (x y : opnd16) (n : N) : code :=
  tern_byte_at c (lo_text x) (lo_text y) dst (lname ".else" n) (lname ".ifend" n)
    (lname ".ifhere" (n + 2))
  ++ tern_byte_at c (lo_text x) (lo_text y) (hi dst) (lname ".else" (n + 1)) (lname ".ifend" (n + 1))
       (lname ".ifhere" (n + 3)).

(** t = 0x1234, c = 1: the old code leaves 0x3434 = 13364, the new one 0x1234 = 4660 *)
Example tern16_old_refuted :
  run_s (tern16_old "s" (TNz "c") (OVar "t") (OVar "u") 1) (st_truth 0 0 1 52 18) = Some 13364 /\
  run_s (tern16_tpl "s" (TNz "c") (OVar "t") (OVar "u") 1) (st_truth 0 0 1 52 18) = Some 4660.
Proof. vm_compute. split; reflexivity. Qed.
