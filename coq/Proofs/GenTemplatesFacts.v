(** Correctness of the statement templates of the code generator (Model/GenTemplates.v) on the
    executable 6502 semantics (M6502/Sem.v).

    For each of the 39 schemas [X] there is a theorem [X_correct] of the shape

      forall cfg names addresses st,
        ports cfg = [] ->
        var_name v ...                     (the names are plain symbols: "v" and "v+1" parse as the
                                            cells v and v+1; true of every C identifier,
                                            [ident_var_name]; labels: [lbl <> ""])
        layout cfg v = Some pv ...         (where the variables live)
        0 <= pv < 65536                    (8-bit variable; ANY address, page zero or not)
        0 <= pv -> pv + 1 < 65536          (16-bit variable: cells pv, pv+1, low byte first)
        pd <> px + 1 ...                   (only the non-overlap the template really needs: the
                                            destination's low byte is not the HIGH byte of a
                                            source; dst = x, dst = y are allowed, so [s = s + t]
                                            is covered; for [dst = x << 8] also pd <> px)
        bytes_ok st ->                     (only where the arithmetic needs byte-valued cells)
        exists st',
          runs_to cfg (template X) st st'  (the template assembles ([slines_of]) and [Sem.run],
                                            inside any program, from an empty call stack, with any
                                            fuel above its length, halts normally in st')
          /\ <the destination holds the C value, as an equation on [mget]/[word]>
          /\ only_changes [cells of dst] st st'   (every other memory cell is unchanged)
          /\ keeps_xys st st'                     (X, Y, S unchanged; A and the flags may change)

    [runs_to_bytes_ok] adds that st' is byte-valued again, so the theorems compose.
    Infrastructure: [exec_fwd], a big-step executor for code whose branches go forward, proved to
    agree with [Sem.run] ([run_exec_fwd]); one-step lemmas [exec_rd_mem], [exec_rd_imm],
    [exec_st_mem], [exec_rmw_mem], [exec_rmw_acc], [exec_clc], [exec_sec], [exec_branch]; the
    tactics [run_tac], [post_tac], [mem_simp], [arith_tac].
    No template of the listing is wrong for some byte values; the only refutation is that of the
    aliased instance [SShl16_8 v v] ([shl16_8_alias_refuted]). *)
From Coq Require Import String Ascii List Bool Arith NArith ZArith Lia ZifyBool.
From CC Require Import Base.Str Asm.Lines M6502.Isa Asm.Operand M6502.Sem
  Model.OptSem Model.CheckBranches Model.CbSpec Proofs.CbFacts Proofs.OptSemFacts Model.GenTemplates.
Import ListNotations.
Open Scope string_scope.
Open Scope list_scope.
Open Scope Z_scope.

Ltac Zify.zify_post_hook ::= Z.div_mod_to_equations.

(** * A big-step executor for code whose branches all go forward *)

(** the suffix of [c] that starts at the first definition of label [l] *)
Fixpoint drop_to_slbl (l : string) (c : list sline) : option (list sline) :=
  match c with
  | [] => None
  | SLbl x :: r => if String.eqb x l then Some c else drop_to_slbl l r
  | _ :: r => drop_to_slbl l r
  end.

Fixpoint exec_fwd (cfg : config) (fuel : nat) (c : list sline) (s : mstate) : option mstate :=
  match fuel with
  | O => None
  | S f =>
      match c with
      | [] => Some s
      | SLbl _ :: r | SSkip :: r => exec_fwd cfg f r s
      | SInl _ :: _ => None
      | SIns m o _ _ :: r =>
          match exec cfg m o s with
          | XOk s' _ FNext => exec_fwd cfg f r s'
          | XOk s' _ (FGoto l) =>
              match drop_to_slbl l r with
              | Some r' => exec_fwd cfg f r' s'
              | None => None
              end
          | _ => None
          end
      end
  end.

(** labels the instructions of [c] may jump to *)
Fixpoint targets (c : list sline) : list string :=
  match c with
  | [] => []
  | SIns _ (OLbl l) _ _ :: r => l :: targets r
  | _ :: r => targets r
  end.

(** no label is the target of an instruction that follows it: all branches go forward *)
Fixpoint fwd_ok (c : list sline) : Prop :=
  match c with
  | [] => True
  | SLbl x :: r => ~ In x (targets r) /\ fwd_ok r
  | _ :: r => fwd_ok r
  end.

Lemma find_label_app_none : forall l a b k,
  find_label l a k = None -> find_label l (a ++ b) k = find_label l b (k + length a).
Proof.
  intros l a. induction a as [|x a IH]; intros b k H.
  - cbn [app length]. rewrite Nat.add_0_r. reflexivity.
  - cbn [app length find_label] in *. rewrite Nat.add_succ_r.
    destruct x as [y|m o p raw|t|]; try (apply (IH b (S k) H)).
    destruct (String.eqb y l); [discriminate H|]. apply (IH b (S k) H).
Qed.

Lemma find_label_shift : forall l c k, find_label l c k = None -> forall k', find_label l c k' = None.
Proof.
  intros l c. induction c as [|x c IH]; intros k H k'; [reflexivity|].
  cbn [find_label] in *. destruct x as [y|m o p raw|t|]; try (apply (IH (S k) H)).
  destruct (String.eqb y l); [discriminate H|]. apply (IH (S k) H).
Qed.

Lemma drop_to_slbl_spec : forall l c c', drop_to_slbl l c = Some c' ->
  exists mid r, c = mid ++ c' /\ c' = SLbl l :: r /\ find_label l mid 0 = None.
Proof.
  intros l c. induction c as [|x c IH]; intros c' H; [discriminate H|].
  cbn [drop_to_slbl] in H.
  assert (Hrec : drop_to_slbl l c = Some c' ->
                 (match x with SLbl y => String.eqb y l = false | _ => True end) ->
                 exists mid r, x :: c = mid ++ c' /\ c' = SLbl l :: r /\ find_label l mid 0 = None).
  { intros H' Hx. destruct (IH c' H') as (mid & r & E1 & E2 & E3).
    exists (x :: mid), r. split; [rewrite E1; reflexivity|]. split; [exact E2|].
    cbn [find_label]. destruct x as [y|m o p raw|t|]; try (apply (find_label_shift l mid 0 E3)).
    rewrite Hx. apply (find_label_shift l mid 0 E3). }
  destruct x as [y|m o p raw|t|]; try (apply Hrec; [exact H|exact I]).
  destruct (String.eqb y l) eqn:E.
  - inversion H; subst c'. apply String.eqb_eq in E. subst y.
    exists [], c. split; [reflexivity|]. split; reflexivity.
  - apply Hrec; [exact H|reflexivity].
Qed.

Lemma targets_app : forall a b, targets (a ++ b) = targets a ++ targets b.
Proof.
  induction a as [|x a IH]; intros b; [reflexivity|].
  cbn [app targets]. destruct x as [y|m o p raw|t|]; try apply IH.
  destruct o; try apply IH. cbn [app]. rewrite IH. reflexivity.
Qed.

Lemma fwd_ok_app : forall a b, fwd_ok (a ++ b) -> fwd_ok b.
Proof.
  induction a as [|x a IH]; intros b H; [exact H|].
  cbn [app fwd_ok] in H. destruct x as [y|m o p raw|t|]; try (apply IH; exact H).
  apply IH. exact (proj2 H).
Qed.

Lemma fwd_ok_no_def : forall a b l k, fwd_ok (a ++ b) -> In l (targets b) -> find_label l a k = None.
Proof.
  induction a as [|x a IH]; intros b l k H Hin; [reflexivity|].
  cbn [app fwd_ok find_label] in *. destruct x as [y|m o p raw|t|]; try (apply (IH b l (S k) H Hin)).
  destruct H as [Hy H].
  destruct (String.eqb y l) eqn:E.
  - exfalso. apply String.eqb_eq in E. subst y. apply Hy. rewrite targets_app.
    apply in_or_app. right. exact Hin.
  - apply (IH b l (S k) H Hin).
Qed.

Lemma nth_error_mid : forall (A : Type) (pre : list A) (x : A) (r : list A),
  nth_error (pre ++ x :: r) (length pre) = Some x.
Proof. intros A pre x r. rewrite nth_error_app2 by lia. rewrite Nat.sub_diag. reflexivity. Qed.

Lemma app_cons_assoc : forall (A : Type) (pre : list A) (x : A) (r : list A),
  pre ++ x :: r = (pre ++ [x]) ++ r.
Proof. intros A pre x r. rewrite <- app_assoc. reflexivity. Qed.

Lemma length_snoc : forall (A : Type) (pre : list A) (x : A), length (pre ++ [x]) = S (length pre).
Proof. intros A pre x. rewrite app_length. cbn [length]. lia. Qed.

(** only a branch or a jump to a label yields a goto *)
Lemma exec_goto_inv : forall cfg m o s s' k l, exec cfg m o s = XOk s' k (FGoto l) -> o = OLbl l.
Proof.
  intros cfg m o s s' k l H. unfold exec in H.
  destruct m;
    repeat match type of H with
           | (match ?x with _ => _ end) = _ => destruct x eqn:?
           | (let '(_, _) := ?x in _) = _ => destruct x eqn:?
           end; try discriminate H; inversion H; reflexivity.
Qed.

Section RunFwd.
  Variable cfg : config.
  Variable prog : sprogram.
  Variable inl_sem : string -> mstate -> option mstate.
  Variable ext_call : string -> mstate -> option mstate.

  Lemma run_S : forall fuel fname c pc stack s tr cy,
    Sem.run cfg prog inl_sem ext_call (S fuel) fname c pc stack s tr cy =
    match nth_error c pc with
    | None => match stack with
              | [] => Halt s (rev tr) cy
              | _ => Faulted "fell off the end of a called function" fname pc s
              end
    | Some (SLbl _) | Some SSkip => Sem.run cfg prog inl_sem ext_call fuel fname c (S pc) stack s tr cy
    | Some (SInl t) =>
        match inl_sem t s with
        | Some s' => Sem.run cfg prog inl_sem ext_call fuel fname c (S pc) stack s' (EvN t :: tr) cy
        | None => Faulted "unknown inline assembly" fname pc s
        end
    | Some (SIns m o prot raw) =>
        let tr' := if prot then EvI m raw :: tr else tr in
        match exec cfg m o s with
        | XFault why => Faulted why fname pc s
        | XOk s' k fl =>
            let cy' := (cy + k)%N in
            match fl with
            | FNext => Sem.run cfg prog inl_sem ext_call fuel fname c (S pc) stack s' tr' cy'
            | FGoto l =>
                match find_label l c 0 with
                | Some k' => Sem.run cfg prog inl_sem ext_call fuel fname c k' stack s' tr' cy'
                | None => Faulted "undefined label" fname pc s
                end
            | FCall f =>
                match find_func f prog with
                | Some c' =>
                    let d := Z.of_nat (length stack) + 1 in
                    let s1 := push (push s' (byte d)) (byte (255 - d)) in
                    Sem.run cfg prog inl_sem ext_call fuel f c' 0 ((fname, c, S pc) :: stack) s1 tr' cy'
                | None =>
                    match ext_call f s' with
                    | Some s2 => Sem.run cfg prog inl_sem ext_call fuel fname c (S pc) stack s2 tr' cy'
                    | None => Faulted "call of an unknown function" fname pc s
                    end
                end
            | FRet =>
                match stack with
                | [] => Halt s' (rev tr') cy'
                | (fn, c0, pc0) :: st' =>
                    let d := Z.of_nat (length stack) in
                    let '(s1, lo) := pull s' in
                    let '(s2, hi) := pull s1 in
                    if (lo =? byte (255 - d)) && (hi =? byte d)
                    then Sem.run cfg prog inl_sem ext_call fuel fn c0 pc0 st' s2 tr' cy'
                    else Faulted "RTS with a corrupted stack" fname pc s
                end
            | FRti => Halt s' (rev tr') cy'
            end
        end
    end.
  Proof. reflexivity. Qed.

  (** [exec_fwd] agrees with [Sem.run]: whatever precedes the fragment (as long as it does not
      define a label the fragment jumps to), with an empty call stack and enough fuel, [run]
      halts in the state [exec_fwd] computes *)
  Theorem run_exec_fwd : forall n l pre s s' fuel fname tr cy,
    exec_fwd cfg n l s = Some s' ->
    fwd_ok l ->
    (forall lbl, In lbl (targets l) -> find_label lbl pre 0 = None) ->
    (length l < fuel)%nat ->
    exists tr' cy',
      Sem.run cfg prog inl_sem ext_call fuel fname (pre ++ l) (length pre) [] s tr cy = Halt s' tr' cy'.
  Proof.
    induction n as [|n IH]; intros l pre s s' fuel fname tr cy He Hok Hpre Hfuel; [discriminate He|].
    destruct fuel as [|fuel]; [lia|].
    rewrite run_S. cbn [exec_fwd] in He.
    destruct l as [|x r].
    - inversion He; subst s'. rewrite app_nil_r.
      rewrite (proj2 (nth_error_None pre (length pre))) by lia. eauto.
    - rewrite nth_error_mid. cbn [length] in Hfuel.
      destruct x as [y|m o p raw|t|].
      + (* label *)
        rewrite app_cons_assoc. rewrite <- (length_snoc _ pre (SLbl y)).
        cbn [fwd_ok] in Hok. destruct Hok as [Hy Hok].
        apply (IH r (pre ++ [SLbl y]) s s' fuel fname tr cy He Hok); [|lia].
        intros lbl Hin. rewrite find_label_app_none by (apply Hpre; exact Hin).
        cbn [find_label]. destruct (String.eqb y lbl) eqn:E; [|reflexivity].
        exfalso. apply String.eqb_eq in E. subst y. apply Hy. exact Hin.
      + (* instruction *)
        cbn [fwd_ok] in Hok.
        assert (Hsub : forall lbl, In lbl (targets r) -> In lbl (targets (SIns m o p raw :: r))).
        { intros lbl Hin. cbn [targets]. destruct o; try exact Hin. right. exact Hin. }
        destruct (exec cfg m o s) as [s1 k fl|why] eqn:Ex; [|discriminate He].
        cbv zeta.
        destruct fl as [|lbl|f| |]; try discriminate He.
        * (* falls through *)
          rewrite app_cons_assoc. rewrite <- (length_snoc _ pre (SIns m o p raw)).
          apply (IH r (pre ++ [SIns m o p raw]) s1 s' fuel fname _ _ He Hok); [|lia].
          intros lbl Hin. rewrite find_label_app_none by (apply Hpre; apply Hsub; exact Hin).
          reflexivity.
        * (* forward jump *)
          pose proof (exec_goto_inv cfg m o s s1 k lbl Ex) as Eo. subst o.
          destruct (drop_to_slbl lbl r) as [r'|] eqn:Ed; [|discriminate He].
          destruct (drop_to_slbl_spec lbl r r' Ed) as (mid & r2 & E1 & E2 & E3).
          assert (Hfl : find_label lbl (pre ++ SIns m (OLbl lbl) p raw :: r) 0
                        = Some (length (pre ++ SIns m (OLbl lbl) p raw :: mid))).
          { rewrite find_label_app_none by (apply Hpre; left; reflexivity).
            cbn [find_label]. rewrite E1.
            rewrite find_label_app_none by (apply (find_label_shift _ _ _ E3)).
            rewrite E2. cbn [find_label]. rewrite String.eqb_refl. f_equal.
            rewrite app_length. cbn [length]. lia. }
          rewrite Hfl.
          assert (Ec : pre ++ SIns m (OLbl lbl) p raw :: r = (pre ++ SIns m (OLbl lbl) p raw :: mid) ++ r').
          { rewrite E1. rewrite <- app_assoc. reflexivity. }
          rewrite Ec. rewrite E1 in Hok.
          apply (IH r' (pre ++ SIns m (OLbl lbl) p raw :: mid) s1 s' fuel fname _ _ He (fwd_ok_app _ _ Hok)).
          -- intros l' Hin.
             rewrite find_label_app_none.
             ++ cbn [find_label]. apply (fwd_ok_no_def mid r' l' _ Hok Hin).
             ++ apply Hpre. apply Hsub. rewrite E1. rewrite targets_app. apply in_or_app. right. exact Hin.
          -- assert (length r' <= length r)%nat by (rewrite E1; rewrite app_length; lia). lia.
      + discriminate He.
      + rewrite app_cons_assoc. rewrite <- (length_snoc _ pre SSkip).
        cbn [fwd_ok] in Hok.
        apply (IH r (pre ++ [SSkip]) s s' fuel fname tr cy He Hok); [|lia].
        intros lbl Hin. rewrite find_label_app_none by (apply Hpre; exact Hin). reflexivity.
  Qed.
End RunFwd.
Print Assumptions run_exec_fwd.

(** * One-step lemmas: what each instruction of the templates does *)

(** mnemonics with a zero-page and an absolute form *)
Definition is_memop (m : mnem) : bool :=
  match m with
  | LDA | LDX | LDY | STA | STX | STY | ADC | SBC | EOR | AND | ORA | CMP | CPX | CPY
  | ASL | LSR | ROL | ROR | INC | DEC => true
  | _ => false
  end.

Lemma resolve_mem : forall m zp, is_memop m = true ->
  resolve m ShMem zp = Some (if zp then Zp else Abs).
Proof. intros m zp H. destruct m; try discriminate H; destruct zp; reflexivity. Qed.

(** the address mode the assembler picks for a plain memory operand at address [a] *)
Definition amode (a : Z) : mode := if a <? 256 then Zp else Abs.

Lemma eff_addr_mem : forall cfg m s y k a0, is_memop m = true ->
  layout cfg y = Some a0 -> 0 <= a0 + k < 65536 ->
  eff_addr cfg m s (OMem y k IxNone) = Some (a0 + k, amode (a0 + k), false).
Proof.
  intros cfg m s y k a0 Hm Hl Ha. unfold eff_addr, amode. rewrite Hl. cbn [shape_of].
  rewrite (resolve_mem m _ Hm). rewrite Z.add_0_r.
  rewrite Z.mod_small by exact Ha. rewrite Z.eqb_refl.
  destruct (a0 + k <? 256); reflexivity.
Qed.

(** ** reading instructions *)
Definition is_rd (m : mnem) : bool :=
  match m with
  | LDA | LDX | LDY | ADC | SBC | EOR | AND | ORA | CMP | CPX | CPY => true
  | _ => false
  end.

Definition rd_sem (m : mnem) (s : mstate) (v : Z) : mstate :=
  match m with
  | LDA => set_nz (set_a s v) v
  | LDX => set_nz (set_x s v) v
  | LDY => set_nz (set_y s v) v
  | ADC => adc s v
  | SBC => sbc s v
  | EOR => set_nz (set_a s (Z.lxor (rA s) v)) (Z.lxor (rA s) v)
  | AND => set_nz (set_a s (Z.land (rA s) v)) (Z.land (rA s) v)
  | ORA => set_nz (set_a s (Z.lor (rA s) v)) (Z.lor (rA s) v)
  | CMP => cmp s (rA s) v
  | CPX => cmp s (rX s) v
  | CPY => cmp s (rY s) v
  | _ => s
  end.

Lemma is_rd_memop : forall m, is_rd m = true -> is_memop m = true.
Proof. intros m H. destruct m; try discriminate H; reflexivity. Qed.

Lemma exec_rd_mem : forall cfg m s y k a0, ports cfg = [] -> is_rd m = true ->
  layout cfg y = Some a0 -> 0 <= a0 + k < 65536 ->
  exec cfg m (OMem y k IxNone) s
  = XOk (rd_sem m s (mget (mem s) (a0 + k))) (cyc m (amode (a0 + k)) false) FNext.
Proof.
  intros cfg m s y k a0 Hp Hm Hl Ha.
  pose proof (eff_addr_mem cfg m s y k a0 (is_rd_memop m Hm) Hl Ha) as He.
  destruct m; try discriminate Hm; unfold exec, read_operand; rewrite He, Hp; reflexivity.
Qed.

Lemma exec_rd_imm : forall cfg m s n, is_rd m = true ->
  exec cfg m (OImm (INum n)) s = XOk (rd_sem m s (byte n)) (base_cycles m Imm) FNext.
Proof. intros cfg m s n Hm. destruct m; try discriminate Hm; reflexivity. Qed.

(** ** stores *)
Definition is_st (m : mnem) : bool := match m with STA | STX | STY => true | _ => false end.
Definition st_reg (m : mnem) (s : mstate) : Z :=
  match m with STA => rA s | STX => rX s | STY => rY s | _ => 0 end.

Lemma is_st_memop : forall m, is_st m = true -> is_memop m = true.
Proof. intros m H. destruct m; try discriminate H; reflexivity. Qed.

Lemma exec_st_mem : forall cfg m s y k a0, ports cfg = [] -> is_st m = true ->
  layout cfg y = Some a0 -> 0 <= a0 + k < 65536 ->
  exec cfg m (OMem y k IxNone) s
  = XOk (set_mem s (mset (mem s) (a0 + k) (st_reg m s))) (cyc m (amode (a0 + k)) false) FNext.
Proof.
  intros cfg m s y k a0 Hp Hm Hl Ha.
  pose proof (eff_addr_mem cfg m s y k a0 (is_st_memop m Hm) Hl Ha) as He.
  destruct m; try discriminate Hm; unfold exec, write_operand; rewrite He, Hp; reflexivity.
Qed.

(** ** read-modify-write *)
Definition is_rmw_m (m : mnem) : bool :=
  match m with ASL | LSR | ROL | ROR | INC | DEC => true | _ => false end.
Definition is_shift (m : mnem) : bool :=
  match m with ASL | LSR | ROL | ROR => true | _ => false end.

(** new value and new carry *)
Definition rmw_val (m : mnem) (v : Z) (c : bool) : Z :=
  match m with
  | ASL => byte (2 * v) | LSR => v / 2
  | ROL => byte (2 * v + b2z c) | ROR => v / 2 + 128 * b2z c
  | INC => byte (v + 1) | DEC => byte (v - 1)
  | _ => v
  end.
Definition rmw_carry (m : mnem) (v : Z) (c : bool) : bool :=
  match m with
  | ASL | ROL => bit7 v
  | LSR | ROR => Z.odd v
  | _ => c
  end.

Lemma is_rmw_memop : forall m, is_rmw_m m = true -> is_memop m = true.
Proof. intros m H. destruct m; try discriminate H; reflexivity. Qed.

Definition rmw_mem_sem (m : mnem) (s : mstate) (a : Z) : mstate :=
  let v := mget (mem s) a in
  set_nz (set_c (set_mem s (mset (mem s) a (rmw_val m v (fC s)))) (rmw_carry m v (fC s)))
         (rmw_val m v (fC s)).

Lemma exec_rmw_mem : forall cfg m s y k a0, ports cfg = [] -> is_rmw_m m = true ->
  layout cfg y = Some a0 -> 0 <= a0 + k < 65536 ->
  exec cfg m (OMem y k IxNone) s
  = XOk (rmw_mem_sem m s (a0 + k)) (cyc m (amode (a0 + k)) false) FNext.
Proof.
  intros cfg m s y k a0 Hp Hm Hl Ha.
  pose proof (eff_addr_mem cfg m s y k a0 (is_rmw_memop m Hm) Hl Ha) as He.
  destruct m; try discriminate Hm; unfold exec; rewrite He, Hp; reflexivity.
Qed.

Definition rmw_acc_sem (m : mnem) (s : mstate) : mstate :=
  set_nz (set_c (set_a s (rmw_val m (rA s) (fC s))) (rmw_carry m (rA s) (fC s)))
         (rmw_val m (rA s) (fC s)).

Lemma exec_rmw_acc : forall cfg m s, is_shift m = true ->
  exec cfg m ONone s = XOk (rmw_acc_sem m s) 2%N FNext.
Proof. intros cfg m s Hm. destruct m; try discriminate Hm; reflexivity. Qed.

(** ** carry *)
Lemma exec_clc : forall cfg s, exec cfg CLC ONone s = XOk (set_c s false) 2%N FNext.
Proof. reflexivity. Qed.
Lemma exec_sec : forall cfg s, exec cfg SEC ONone s = XOk (set_c s true) 2%N FNext.
Proof. reflexivity. Qed.

(** ** conditional branches *)
Lemma exec_branch : forall cfg m l s, is_cond_branch m = true ->
  exec cfg m (OLbl l) s = if branch_taken m s then XOk s 3%N (FGoto l) else XOk s 2%N FNext.
Proof. intros cfg m l s Hm. destruct m; try discriminate Hm; reflexivity. Qed.

(** * Operand texts *)

(** [v] is a plain symbol: the texts "v" and "v+1" denote the cells [v] and [v+1] *)
Definition var_name (v : string) : Prop :=
  forall m, takes_label m = false ->
    parse_operand m v = Some (OMem v 0 IxNone) /\ parse_operand m (hi v) = Some (OMem v 1 IxNone).

Lemma vn_lo : forall v m, var_name v -> takes_label m = false ->
  parse_operand m v = Some (OMem v 0 IxNone).
Proof. intros v m H Hm. exact (proj1 (H m Hm)). Qed.
Lemma vn_hi : forall v m, var_name v -> takes_label m = false ->
  parse_operand m (hi v) = Some (OMem v 1 IxNone).
Proof. intros v m H Hm. exact (proj2 (H m Hm)). Qed.

Lemma parse_empty : forall m, parse_operand m "" = Some ONone.
Proof. reflexivity. Qed.

Lemma parse_lbl : forall m l, takes_label m = true -> l <> ""%string ->
  parse_operand m l = Some (OLbl l).
Proof.
  intros m l Hm Hl. unfold parse_operand. rewrite Hm.
  destruct (String.eqb_spec l ""); [contradiction|reflexivity].
Qed.

Lemma string_of_Z_nonneg : forall k, 0 <= k -> string_of_Z k = string_of_N (Z.to_N k).
Proof. intros k Hk. destruct k as [|p|p]; [reflexivity|reflexivity|lia]. Qed.

Lemma parse_imm_digit : forall r, starts_digit r = true ->
  parse_imm r = match parse_dec r with Some n => Some (OImm (INum (Z.of_N n))) | None => None end.
Proof.
  intros r H. destruct r as [|c r']; [discriminate H|].
  cbn [starts_digit] in H. unfold parse_imm.
  destruct c as [b0 b1 b2 b3 b4 b5 b6 b7].
  destruct b0, b1, b2, b3, b4, b5, b6, b7; try reflexivity; discriminate H.
Qed.

(** the text of an immediate operand, for every non-negative constant *)
Lemma parse_imm_num : forall m k, takes_label m = false -> 0 <= k ->
  parse_operand m (imm k) = Some (OImm (INum k)).
Proof.
  intros m k Hm Hk. rewrite parse_operand_eq. rewrite Hm. unfold imm.
  rewrite (string_of_Z_nonneg k Hk).
  change ("#" ++ string_of_N (Z.to_N k))%string with (String "#"%char (string_of_N (Z.to_N k))).
  change (String.eqb (String "#"%char (string_of_N (Z.to_N k))) "") with false.
  change (Ascii.eqb "#"%char "#"%char) with true. cbv iota.
  pose proof (string_of_N_starts (Z.to_N k)) as Hs.
  rewrite (parse_imm_digit _ Hs).
  unfold parse_dec. pose proof (parse_string_of_N (Z.to_N k)) as Hp.
  destruct (string_of_N (Z.to_N k)) as [|c r]; [discriminate Hs|].
  rewrite Hp. rewrite Z2N.id by exact Hk. reflexivity.
Qed.

(** ** from [code] to [sline]s *)
Lemma slines_nil : slines_of [] = Some [].
Proof. reflexivity. Qed.
Lemma slines_ins : forall m op o r sr, parse_operand m op = Some o -> slines_of r = Some sr ->
  slines_of (ins m op :: r) = Some (SIns m o false op :: sr).
Proof.
  intros m op o r sr Hp Hr. cbn [slines_of sline_of ins i_mn i_op i_prot]. rewrite Hp, Hr. reflexivity.
Qed.
Lemma slines_lbl : forall l r sr, slines_of r = Some sr -> slines_of (Lbl l :: r) = Some (SLbl l :: sr).
Proof. intros l r sr Hr. cbn [slines_of sline_of]. rewrite Hr. reflexivity. Qed.
Lemma slines_app : forall a b sa sb, slines_of a = Some sa -> slines_of b = Some sb ->
  slines_of (a ++ b) = Some (sa ++ sb).
Proof.
  induction a as [|x a IH]; intros b sa sb Ha Hb.
  - inversion Ha. exact Hb.
  - cbn [app slines_of] in *. destruct (sline_of x) as [sx|]; [|discriminate Ha].
    destruct (slines_of a) as [sa'|] eqn:Ea; [|discriminate Ha].
    inversion Ha; subst sa. rewrite (IH b sa' sb eq_refl Hb). reflexivity.
Qed.

(** * Running a template *)

(** [c] assembles, and [Sem.run] executes it from [st] (empty call stack, any program around it,
    any fuel larger than its length) to a normal halt in [st'] *)
Definition runs_to (cfg : config) (c : code) (st st' : mstate) : Prop :=
  exists sl, slines_of c = Some sl /\
    forall prog inl_sem ext_call fname fuel, (length sl < fuel)%nat ->
      exists tr cy, Sem.run cfg prog inl_sem ext_call fuel fname sl 0 [] st [] 0%N = Halt st' tr cy.

Lemma runs_to_intro : forall cfg c sl n st st',
  slines_of c = Some sl -> fwd_ok sl -> exec_fwd cfg n sl st = Some st' -> runs_to cfg c st st'.
Proof.
  intros cfg c sl n st st' Hs Hok He. exists sl. split; [exact Hs|].
  intros prog inl_sem ext_call fname fuel Hf.
  apply (run_exec_fwd cfg prog inl_sem ext_call n sl [] st st' fuel fname [] 0%N He Hok); [|exact Hf].
  intros lbl _. reflexivity.
Qed.

(** stepping [exec_fwd] *)
Lemma xf_nil : forall cfg f s, exec_fwd cfg (S f) [] s = Some s.
Proof. reflexivity. Qed.
Lemma xf_lbl : forall cfg f l r s, exec_fwd cfg (S f) (SLbl l :: r) s = exec_fwd cfg f r s.
Proof. reflexivity. Qed.
Lemma xf_next : forall cfg f m o p raw r s s' k, exec cfg m o s = XOk s' k FNext ->
  exec_fwd cfg (S f) (SIns m o p raw :: r) s = exec_fwd cfg f r s'.
Proof. intros cfg f m o p raw r s s' k H. cbn [exec_fwd]. rewrite H. reflexivity. Qed.
Lemma xf_branch : forall cfg f m l p raw r s, is_cond_branch m = true ->
  exec_fwd cfg (S f) (SIns m (OLbl l) p raw :: r) s
  = if branch_taken m s
    then match drop_to_slbl l r with Some r' => exec_fwd cfg f r' s | None => None end
    else exec_fwd cfg f r s.
Proof.
  intros cfg f m l p raw r s Hm. cbn [exec_fwd]. rewrite (exec_branch cfg m l s Hm).
  destruct (branch_taken m s); reflexivity.
Qed.

(** what a template must leave alone *)
Definition only_changes (dest : list Z) (st st' : mstate) : Prop :=
  forall a, 0 <= a -> ~ In a dest -> mget (mem st') a = mget (mem st) a.
Definition keeps_xys (st st' : mstate) : Prop :=
  rX st' = rX st /\ rY st' = rY st /\ rS st' = rS st.

(** a 16-bit variable at [p]: low byte first *)
Definition word (m : memory) (p : Z) : Z := mget m p + 256 * mget m (p + 1).

(** * Tactics *)

Ltac parse_tac :=
  first [ apply parse_empty
        | apply vn_lo; [assumption|reflexivity]
        | apply vn_hi; [assumption|reflexivity]
        | apply parse_imm_num; [reflexivity|lia]
        | apply parse_lbl; [reflexivity|assumption] ].

Ltac slines_tac :=
  repeat first [ apply slines_nil
               | eapply slines_ins; [parse_tac|]
               | eapply slines_lbl ].

Ltac xstep :=
  first
  [ rewrite xf_nil
  | rewrite xf_lbl
  | erewrite xf_next by (first
      [ apply exec_clc | apply exec_sec
      | apply exec_rd_imm; reflexivity
      | apply exec_rmw_acc; reflexivity
      | apply exec_rd_mem; [assumption|reflexivity|eassumption|lia]
      | apply exec_st_mem; [assumption|reflexivity|eassumption|lia]
      | apply exec_rmw_mem; [assumption|reflexivity|eassumption|lia] ]) ].

Ltac state_simp :=
  cbn [mem rA rX rY rS fN fZ fC fV set_nz set_a set_x set_y set_c set_v set_mem
       rd_sem st_reg rmw_mem_sem rmw_acc_sem rmw_val rmw_carry adc sbc cmp];
  change (b2z true) with 1; change (b2z false) with 0;
  change (1 - 1) with 0; change (1 - 0) with 1;
  rewrite ?Z.add_0_r, ?Z.sub_0_r.

Lemma mget_mset_eq : forall m a b v, a = b -> mget (mset m a v) b = v.
Proof. intros m a b v ->. apply mget_mset_same. Qed.

Ltac mem_simp :=
  repeat first
  [ rewrite mget_mset_same
  | rewrite mget_mset_eq by lia
  | rewrite mget_mset_other by lia ].

Ltac run_tac :=
  eapply runs_to_intro with (n := 20%nat);
  [ cbn [template bin8 bin16 app]; slines_tac
  | cbn [fwd_ok targets In]; tauto
  | repeat xstep; reflexivity ].

(** pose the byte range of every memory cell of [st] the goal mentions *)
Ltac mem_ranges HM :=
  repeat match goal with
  | |- context [mget (mem ?s) ?p] =>
      let H := constr:(HM p) in
      lazymatch goal with
      | _ : 0 <= mget (mem s) p < 256 |- _ => fail
      | _ => pose proof H
      end
  end.

Ltac post_tac := unfold only_changes, keeps_xys; state_simp.

(** the frame part of a postcondition, after [post_tac] *)
Ltac frame_tac :=
  split; [ let a := fresh "a" in let Ha := fresh "Ha" in let Hn := fresh "Hn" in
           intros a Ha Hn; cbn [In] in Hn; mem_simp; reflexivity
         | repeat split; reflexivity ].

(** * 8-bit templates *)

Theorem copy8_correct : forall cfg dst x pd px st,
  ports cfg = [] -> var_name dst -> var_name x ->
  layout cfg dst = Some pd -> layout cfg x = Some px ->
  0 <= pd < 65536 -> 0 <= px < 65536 ->
  exists st', runs_to cfg (template (SCopy8 dst x)) st st' /\
    mget (mem st') pd = mget (mem st) px /\
    only_changes [pd] st st' /\ keeps_xys st st'.
Proof.
  intros cfg dst x pd px st Hp Vd Vx Ld Lx Rd Rx.
  eexists. split; [run_tac|]. post_tac.
  split; [mem_simp; reflexivity|frame_tac].
Qed.
Print Assumptions copy8_correct.

Theorem add8_correct : forall cfg dst x y pd px py st,
  ports cfg = [] -> var_name dst -> var_name x -> var_name y ->
  layout cfg dst = Some pd -> layout cfg x = Some px -> layout cfg y = Some py ->
  0 <= pd < 65536 -> 0 <= px < 65536 -> 0 <= py < 65536 ->
  exists st', runs_to cfg (template (SAdd8 dst x y)) st st' /\
    mget (mem st') pd = (mget (mem st) px + mget (mem st) py) mod 256 /\
    only_changes [pd] st st' /\ keeps_xys st st'.
Proof.
  intros cfg dst x y pd px py st Hp Vd Vx Vy Ld Lx Ly Rd Rx Ry.
  eexists. split; [run_tac|]. post_tac.
  split; [mem_simp; reflexivity|frame_tac].
Qed.
Print Assumptions add8_correct.

Theorem sub8_correct : forall cfg dst x y pd px py st,
  ports cfg = [] -> var_name dst -> var_name x -> var_name y ->
  layout cfg dst = Some pd -> layout cfg x = Some px -> layout cfg y = Some py ->
  0 <= pd < 65536 -> 0 <= px < 65536 -> 0 <= py < 65536 ->
  exists st', runs_to cfg (template (SSub8 dst x y)) st st' /\
    mget (mem st') pd = (mget (mem st) px - mget (mem st) py) mod 256 /\
    only_changes [pd] st st' /\ keeps_xys st st'.
Proof.
  intros cfg dst x y pd px py st Hp Vd Vx Vy Ld Lx Ly Rd Rx Ry.
  eexists. split; [run_tac|]. post_tac.
  split; [mem_simp; reflexivity|frame_tac].
Qed.
Print Assumptions sub8_correct.

(** ** arithmetic on bytes *)

Lemma byte_cases : forall P : Z -> bool,
  forallb P (map Z.of_nat (seq 0 256)) = true -> forall v, 0 <= v < 256 -> P v = true.
Proof.
  intros P H v Hv. rewrite forallb_forall in H. apply H. apply in_map_iff.
  exists (Z.to_nat v). split; [lia|]. apply in_seq. lia.
Qed.

Lemma byte_cases2 : forall P : Z -> Z -> bool,
  forallb (fun a => forallb (P a) (map Z.of_nat (seq 0 256))) (map Z.of_nat (seq 0 256)) = true ->
  forall a b, 0 <= a < 256 -> 0 <= b < 256 -> P a b = true.
Proof.
  intros P H a b Ha Hb.
  pose proof (byte_cases (fun a => forallb (P a) (map Z.of_nat (seq 0 256))) H a Ha) as H1.
  exact (byte_cases (P a) H1 b Hb).
Qed.

Lemma lxor_255 : forall v, 0 <= v < 256 -> Z.lxor v 255 = 255 - v.
Proof.
  intros v Hv. apply Z.eqb_eq.
  apply (byte_cases (fun v => Z.lxor v 255 =? 255 - v)); [vm_compute; reflexivity|exact Hv].
Qed.

Lemma lor_127 : forall v, 0 <= v < 256 -> Z.lor v 127 = if 128 <=? v then 255 else 127.
Proof.
  intros v Hv. apply Z.eqb_eq.
  apply (byte_cases (fun v => Z.lor v 127 =? if 128 <=? v then 255 else 127));
    [vm_compute; reflexivity|exact Hv].
Qed.

Lemma land_byte : forall a b, 0 <= a < 256 -> 0 <= b < 256 -> 0 <= Z.land a b < 256.
Proof.
  intros a b Ha Hb.
  pose proof (byte_cases2 (fun a b => (0 <=? Z.land a b) && (Z.land a b <? 256))) as H.
  specialize (H ltac:(vm_compute; reflexivity) a b Ha Hb). lia.
Qed.
Lemma lor_byte : forall a b, 0 <= a < 256 -> 0 <= b < 256 -> 0 <= Z.lor a b < 256.
Proof.
  intros a b Ha Hb.
  pose proof (byte_cases2 (fun a b => (0 <=? Z.lor a b) && (Z.lor a b <? 256))) as H.
  specialize (H ltac:(vm_compute; reflexivity) a b Ha Hb). lia.
Qed.
Lemma lxor_byte : forall a b, 0 <= a < 256 -> 0 <= b < 256 -> 0 <= Z.lxor a b < 256.
Proof.
  intros a b Ha Hb.
  pose proof (byte_cases2 (fun a b => (0 <=? Z.lxor a b) && (Z.lxor a b <? 256))) as H.
  specialize (H ltac:(vm_compute; reflexivity) a b Ha Hb). lia.
Qed.

(** decide the parities and comparisons of the goal, then linear arithmetic with div/mod *)
Lemma b2z_odd : forall x, b2z (Z.odd x) = x mod 2.
Proof. intros x. rewrite <- Z.bit0_odd, <- Z.bit0_mod. reflexivity. Qed.

Ltac arith_tac :=
  unfold byte, bit7 in *;
  repeat match goal with
  | |- context [Z.odd ?x] =>
      let H := fresh "Hodd" in pose proof (b2z_odd x) as H; unfold b2z in H; destruct (Z.odd x)
  end;
  unfold b2z in *;
  repeat match goal with
  | |- context [Z.leb ?x ?y] => destruct (Z.leb_spec x y)
  | |- context [Z.ltb ?x ?y] => destruct (Z.ltb_spec x y)
  | |- context [Z.eqb ?x ?y] => destruct (Z.eqb_spec x y)
  end;
  try reflexivity; try lia.

Theorem and8_correct : forall cfg dst x y pd px py st,
  ports cfg = [] -> var_name dst -> var_name x -> var_name y ->
  layout cfg dst = Some pd -> layout cfg x = Some px -> layout cfg y = Some py ->
  0 <= pd < 65536 -> 0 <= px < 65536 -> 0 <= py < 65536 ->
  exists st', runs_to cfg (template (SAnd8 dst x y)) st st' /\
    mget (mem st') pd = Z.land (mget (mem st) px) (mget (mem st) py) /\
    only_changes [pd] st st' /\ keeps_xys st st'.
Proof.
  intros cfg dst x y pd px py st Hp Vd Vx Vy Ld Lx Ly Rd Rx Ry.
  eexists. split; [run_tac|]. post_tac.
  split; [mem_simp; reflexivity|frame_tac].
Qed.
Print Assumptions and8_correct.

Theorem or8_correct : forall cfg dst x y pd px py st,
  ports cfg = [] -> var_name dst -> var_name x -> var_name y ->
  layout cfg dst = Some pd -> layout cfg x = Some px -> layout cfg y = Some py ->
  0 <= pd < 65536 -> 0 <= px < 65536 -> 0 <= py < 65536 ->
  exists st', runs_to cfg (template (SOr8 dst x y)) st st' /\
    mget (mem st') pd = Z.lor (mget (mem st) px) (mget (mem st) py) /\
    only_changes [pd] st st' /\ keeps_xys st st'.
Proof.
  intros cfg dst x y pd px py st Hp Vd Vx Vy Ld Lx Ly Rd Rx Ry.
  eexists. split; [run_tac|]. post_tac.
  split; [mem_simp; reflexivity|frame_tac].
Qed.
Print Assumptions or8_correct.

Theorem xor8_correct : forall cfg dst x y pd px py st,
  ports cfg = [] -> var_name dst -> var_name x -> var_name y ->
  layout cfg dst = Some pd -> layout cfg x = Some px -> layout cfg y = Some py ->
  0 <= pd < 65536 -> 0 <= px < 65536 -> 0 <= py < 65536 ->
  exists st', runs_to cfg (template (SXor8 dst x y)) st st' /\
    mget (mem st') pd = Z.lxor (mget (mem st) px) (mget (mem st) py) /\
    only_changes [pd] st st' /\ keeps_xys st st'.
Proof.
  intros cfg dst x y pd px py st Hp Vd Vx Vy Ld Lx Ly Rd Rx Ry.
  eexists. split; [run_tac|]. post_tac.
  split; [mem_simp; reflexivity|frame_tac].
Qed.
Print Assumptions xor8_correct.

Theorem addconst8_correct : forall cfg dst x k pd px st,
  ports cfg = [] -> var_name dst -> var_name x ->
  layout cfg dst = Some pd -> layout cfg x = Some px ->
  0 <= pd < 65536 -> 0 <= px < 65536 -> 0 <= k < 256 ->
  exists st', runs_to cfg (template (SAddConst8 dst x k)) st st' /\
    mget (mem st') pd = (mget (mem st) px + k) mod 256 /\
    only_changes [pd] st st' /\ keeps_xys st st'.
Proof.
  intros cfg dst x k pd px st Hp Vd Vx Ld Lx Rd Rx Rk.
  eexists. split; [run_tac|]. post_tac.
  split; [mem_simp; arith_tac|frame_tac].
Qed.
Print Assumptions addconst8_correct.

Theorem inc8_correct : forall cfg v pv st,
  ports cfg = [] -> var_name v -> layout cfg v = Some pv -> 0 <= pv < 65536 ->
  exists st', runs_to cfg (template (SInc8 v)) st st' /\
    mget (mem st') pv = (mget (mem st) pv + 1) mod 256 /\
    only_changes [pv] st st' /\ keeps_xys st st'.
Proof.
  intros cfg v pv st Hp Vv Lv Rv.
  eexists. split; [run_tac|]. post_tac.
  split; [mem_simp; reflexivity|frame_tac].
Qed.
Print Assumptions inc8_correct.

Theorem dec8_correct : forall cfg v pv st,
  ports cfg = [] -> var_name v -> layout cfg v = Some pv -> 0 <= pv < 65536 ->
  exists st', runs_to cfg (template (SDec8 v)) st st' /\
    mget (mem st') pv = (mget (mem st) pv - 1) mod 256 /\
    only_changes [pv] st st' /\ keeps_xys st st'.
Proof.
  intros cfg v pv st Hp Vv Lv Rv.
  eexists. split; [run_tac|]. post_tac.
  split; [mem_simp; reflexivity|frame_tac].
Qed.
Print Assumptions dec8_correct.

(** [v += x] and [v -= x] are [v = v + x] and [v = v - x] *)
Theorem addassign8_correct : forall cfg v x pv px st,
  ports cfg = [] -> var_name v -> var_name x ->
  layout cfg v = Some pv -> layout cfg x = Some px ->
  0 <= pv < 65536 -> 0 <= px < 65536 ->
  exists st', runs_to cfg (template (SAddAssign8 v x)) st st' /\
    mget (mem st') pv = (mget (mem st) pv + mget (mem st) px) mod 256 /\
    only_changes [pv] st st' /\ keeps_xys st st'.
Proof.
  intros cfg v x pv px st Hp Vv Vx Lv Lx Rv Rx.
  exact (add8_correct cfg v v x pv pv px st Hp Vv Vv Vx Lv Lv Lx Rv Rv Rx).
Qed.
Print Assumptions addassign8_correct.

Theorem subassign8_correct : forall cfg v x pv px st,
  ports cfg = [] -> var_name v -> var_name x ->
  layout cfg v = Some pv -> layout cfg x = Some px ->
  0 <= pv < 65536 -> 0 <= px < 65536 ->
  exists st', runs_to cfg (template (SSubAssign8 v x)) st st' /\
    mget (mem st') pv = (mget (mem st) pv - mget (mem st) px) mod 256 /\
    only_changes [pv] st st' /\ keeps_xys st st'.
Proof.
  intros cfg v x pv px st Hp Vv Vx Lv Lx Rv Rx.
  exact (sub8_correct cfg v v x pv pv px st Hp Vv Vv Vx Lv Lv Lx Rv Rv Rx).
Qed.
Print Assumptions subassign8_correct.

Theorem neg8_correct : forall cfg dst x pd px st,
  ports cfg = [] -> var_name dst -> var_name x ->
  layout cfg dst = Some pd -> layout cfg x = Some px ->
  0 <= pd < 65536 -> 0 <= px < 65536 ->
  exists st', runs_to cfg (template (SNeg8 dst x)) st st' /\
    mget (mem st') pd = (256 - mget (mem st) px) mod 256 /\
    only_changes [pd] st st' /\ keeps_xys st st'.
Proof.
  intros cfg dst x pd px st Hp Vd Vx Ld Lx Rd Rx.
  eexists. split; [run_tac|]. post_tac.
  split; [mem_simp; arith_tac|frame_tac].
Qed.
Print Assumptions neg8_correct.

Theorem not8_correct : forall cfg dst x pd px st,
  ports cfg = [] -> var_name dst -> var_name x ->
  layout cfg dst = Some pd -> layout cfg x = Some px ->
  0 <= pd < 65536 -> 0 <= px < 65536 -> bytes_ok st ->
  exists st', runs_to cfg (template (SNot8 dst x)) st st' /\
    mget (mem st') pd = 255 - mget (mem st) px /\
    only_changes [pd] st st' /\ keeps_xys st st'.
Proof.
  intros cfg dst x pd px st Hp Vd Vx Ld Lx Rd Rx (HA & HX & HY & HS & HM).
  eexists. split; [run_tac|]. post_tac.
  split; [mem_simp; change (byte 255) with 255; apply lxor_255; apply HM|frame_tac].
Qed.
Print Assumptions not8_correct.

Theorem sar8_1_correct : forall cfg dst x pd px st,
  ports cfg = [] -> var_name dst -> var_name x ->
  layout cfg dst = Some pd -> layout cfg x = Some px ->
  0 <= pd < 65536 -> 0 <= px < 65536 -> bytes_ok st ->
  exists st', runs_to cfg (template (SSar8_1 dst x)) st st' /\
    mget (mem st') pd = mget (mem st) px / 2 + (if 128 <=? mget (mem st) px then 128 else 0) /\
    only_changes [pd] st st' /\ keeps_xys st st'.
Proof.
  intros cfg dst x pd px st Hp Vd Vx Ld Lx Rd Rx (HA & HX & HY & HS & HM).
  eexists. split; [run_tac|]. post_tac.
  split; [mem_simp; change (byte 128) with 128; arith_tac|frame_tac].
Qed.
Print Assumptions sar8_1_correct.

(** ** the register forms [X = v], [v = X], [v = Y], [Y = v] *)
Theorem loadx_correct : forall cfg v pv st,
  ports cfg = [] -> var_name v -> layout cfg v = Some pv -> 0 <= pv < 65536 ->
  exists st', runs_to cfg (template (SLoadX v)) st st' /\
    rX st' = mget (mem st) pv /\
    only_changes [] st st' /\ rY st' = rY st /\ rS st' = rS st.
Proof.
  intros cfg v pv st Hp Vv Lv Rv.
  eexists. split; [run_tac|]. post_tac.
  split; [reflexivity|]. split; [intros a Ha Hn; reflexivity|split; reflexivity].
Qed.
Print Assumptions loadx_correct.

Theorem loady_correct : forall cfg v pv st,
  ports cfg = [] -> var_name v -> layout cfg v = Some pv -> 0 <= pv < 65536 ->
  exists st', runs_to cfg (template (SLoadY v)) st st' /\
    rY st' = mget (mem st) pv /\
    only_changes [] st st' /\ rX st' = rX st /\ rS st' = rS st.
Proof.
  intros cfg v pv st Hp Vv Lv Rv.
  eexists. split; [run_tac|]. post_tac.
  split; [reflexivity|]. split; [intros a Ha Hn; reflexivity|split; reflexivity].
Qed.
Print Assumptions loady_correct.

Theorem storex_correct : forall cfg v pv st,
  ports cfg = [] -> var_name v -> layout cfg v = Some pv -> 0 <= pv < 65536 ->
  exists st', runs_to cfg (template (SStoreX v)) st st' /\
    mget (mem st') pv = rX st /\
    only_changes [pv] st st' /\ keeps_xys st st'.
Proof.
  intros cfg v pv st Hp Vv Lv Rv.
  eexists. split; [run_tac|]. post_tac.
  split; [mem_simp; reflexivity|frame_tac].
Qed.
Print Assumptions storex_correct.

Theorem storey_correct : forall cfg v pv st,
  ports cfg = [] -> var_name v -> layout cfg v = Some pv -> 0 <= pv < 65536 ->
  exists st', runs_to cfg (template (SStoreY v)) st st' /\
    mget (mem st') pv = rY st /\
    only_changes [pv] st st' /\ keeps_xys st st'.
Proof.
  intros cfg v pv st Hp Vv Lv Rv.
  eexists. split; [run_tac|]. post_tac.
  split; [mem_simp; reflexivity|frame_tac].
Qed.
Print Assumptions storey_correct.

(** ** shifts by a constant count *)

Lemma slines_repeat : forall m n, parse_operand m "" = Some ONone ->
  slines_of (repeat (ins m "") n) = Some (repeat (SIns m ONone false "") n).
Proof.
  intros m n Hm. induction n as [|n IH]; [reflexivity|].
  cbn [repeat]. apply slines_ins; assumption.
Qed.

Lemma targets_repeat_acc : forall m n r,
  targets (repeat (SIns m ONone false "") n ++ r) = targets r.
Proof. intros m n r. induction n as [|n IH]; [reflexivity|]. cbn [repeat app targets]. exact IH. Qed.

Lemma fwd_ok_repeat_acc : forall m n r, fwd_ok r -> fwd_ok (repeat (SIns m ONone false "") n ++ r).
Proof. intros m n r H. induction n as [|n IH]; [exact H|]. cbn [repeat app fwd_ok]. exact IH. Qed.

(** [n] times [f], leftmost first *)
Fixpoint iter_st (n : nat) (f : mstate -> mstate) (s : mstate) : mstate :=
  match n with O => s | S n' => iter_st n' f (f s) end.

Lemma xf_repeat_acc : forall cfg m, is_shift m = true -> forall n f r s,
  exec_fwd cfg (n + f) (repeat (SIns m ONone false "") n ++ r) s
  = exec_fwd cfg f r (iter_st n (rmw_acc_sem m) s).
Proof.
  intros cfg m Hm. induction n as [|n IH]; intros f r s; [reflexivity|].
  cbn [repeat app Nat.add iter_st].
  rewrite (xf_next cfg _ _ _ _ _ _ _ _ _ (exec_rmw_acc cfg m s Hm)). apply IH.
Qed.

Lemma iter_acc_frame : forall m n s,
  mem (iter_st n (rmw_acc_sem m) s) = mem s /\ rX (iter_st n (rmw_acc_sem m) s) = rX s /\
  rY (iter_st n (rmw_acc_sem m) s) = rY s /\ rS (iter_st n (rmw_acc_sem m) s) = rS s.
Proof.
  intros m n. induction n as [|n IH]; intros s; [repeat split; reflexivity|].
  cbn [iter_st]. destruct (IH (rmw_acc_sem m s)) as (E1 & E2 & E3 & E4).
  rewrite E1, E2, E3, E4. repeat split; reflexivity.
Qed.

Lemma iter_asl_a : forall n s, 0 <= rA s < 256 ->
  rA (iter_st n (rmw_acc_sem ASL) s) = (rA s * 2 ^ Z.of_nat n) mod 256.
Proof.
  induction n as [|n IH]; intros s Hs.
  - cbn [iter_st]. change (2 ^ Z.of_nat 0) with 1. lia.
  - cbn [iter_st]. rewrite IH.
    + unfold rmw_acc_sem. cbn [rA set_nz set_c set_a rmw_val]. unfold byte.
      rewrite Z.mul_mod_idemp_l by lia.
      rewrite Nat2Z.inj_succ. rewrite Z.pow_succ_r by lia. f_equal. ring.
    + unfold rmw_acc_sem. cbn [rA set_nz set_c set_a rmw_val]. apply byte_range.
Qed.

Lemma iter_lsr_a : forall n s, 0 <= rA s < 256 ->
  rA (iter_st n (rmw_acc_sem LSR) s) = rA s / 2 ^ Z.of_nat n.
Proof.
  induction n as [|n IH]; intros s Hs.
  - cbn [iter_st]. change (2 ^ Z.of_nat 0) with 1. rewrite Z.div_1_r. reflexivity.
  - cbn [iter_st]. rewrite IH.
    + unfold rmw_acc_sem. cbn [rA set_nz set_c set_a rmw_val].
      rewrite Nat2Z.inj_succ. rewrite Z.pow_succ_r by lia.
      rewrite Z.div_div by lia. reflexivity.
    + unfold rmw_acc_sem. cbn [rA set_nz set_c set_a rmw_val]. lia.
Qed.

Theorem shl8_correct : forall cfg dst x n pd px st,
  ports cfg = [] -> var_name dst -> var_name x ->
  layout cfg dst = Some pd -> layout cfg x = Some px ->
  0 <= pd < 65536 -> 0 <= px < 65536 -> bytes_ok st ->
  exists st', runs_to cfg (template (SShl8 dst x n)) st st' /\
    mget (mem st') pd = (mget (mem st) px * 2 ^ Z.of_nat n) mod 256 /\
    only_changes [pd] st st' /\ keeps_xys st st'.
Proof.
  intros cfg dst x n pd px st Hp Vd Vx Ld Lx Rd Rx (HA & HX & HY & HS & HM).
  eexists. split.
  { eapply runs_to_intro with (n := S (n + 2)).
    - cbn [template]. eapply slines_app; [slines_tac|].
      eapply slines_app; [apply slines_repeat; reflexivity|slines_tac].
    - cbn [app fwd_ok]. apply fwd_ok_repeat_acc. exact I.
    - cbn [app]. xstep. rewrite xf_repeat_acc by reflexivity. repeat xstep. reflexivity. }
  post_tac.
  match goal with |- context [iter_st n ?f ?s] =>
    destruct (iter_acc_frame ASL n s) as (Em & Ex & Ey & Es);
    pose proof (iter_asl_a n s) as Ea end.
  cbn [rA set_nz set_a] in Ea. rewrite Em, Ex, Ey, Es. state_simp.
  split; [mem_simp; apply Ea; apply HM|frame_tac].
Qed.
Print Assumptions shl8_correct.

Theorem shr8_correct : forall cfg dst x n pd px st,
  ports cfg = [] -> var_name dst -> var_name x ->
  layout cfg dst = Some pd -> layout cfg x = Some px ->
  0 <= pd < 65536 -> 0 <= px < 65536 -> bytes_ok st ->
  exists st', runs_to cfg (template (SShr8 dst x n)) st st' /\
    mget (mem st') pd = mget (mem st) px / 2 ^ Z.of_nat n /\
    only_changes [pd] st st' /\ keeps_xys st st'.
Proof.
  intros cfg dst x n pd px st Hp Vd Vx Ld Lx Rd Rx (HA & HX & HY & HS & HM).
  eexists. split.
  { eapply runs_to_intro with (n := S (n + 2)).
    - cbn [template]. eapply slines_app; [slines_tac|].
      eapply slines_app; [apply slines_repeat; reflexivity|slines_tac].
    - cbn [app fwd_ok]. apply fwd_ok_repeat_acc. exact I.
    - cbn [app]. xstep. rewrite xf_repeat_acc by reflexivity. repeat xstep. reflexivity. }
  post_tac.
  match goal with |- context [iter_st n ?f ?s] =>
    destruct (iter_acc_frame LSR n s) as (Em & Ex & Ey & Es);
    pose proof (iter_lsr_a n s) as Ea end.
  cbn [rA set_nz set_a] in Ea. rewrite Em, Ex, Ey, Es. state_simp.
  split; [mem_simp; apply Ea; apply HM|frame_tac].
Qed.
Print Assumptions shr8_correct.

(** the two instances of the listing, in the form of the task: [x << 2] is [(x * 4) mod 256],
    [x >> 1] is [x / 2] *)
Corollary shl8_2_value : forall v, (v * 2 ^ Z.of_nat 2) mod 256 = (v * 4) mod 256.
Proof. intros v. reflexivity. Qed.
Corollary shr8_1_value : forall v, v / 2 ^ Z.of_nat 1 = v / 2.
Proof. intros v. reflexivity. Qed.

(** * 16-bit templates *)



Ltac post16_tac := post_tac; unfold word; state_simp; mem_simp.
Ltac fin_tac :=
  repeat match goal with |- _ /\ _ => split end;
  try reflexivity;
  try (let a := fresh "a" in let Ha := fresh "Ha" in let Hn := fresh "Hn" in
       intros a Ha Hn; cbn [In] in Hn; mem_simp; reflexivity).


Theorem copy16_correct : forall cfg dst x pd px st,
  ports cfg = [] -> var_name dst -> var_name x ->
  layout cfg dst = Some pd -> layout cfg x = Some px ->
  0 <= pd -> pd + 1 < 65536 -> 0 <= px -> px + 1 < 65536 ->
  pd <> px + 1 ->
  exists st', runs_to cfg (template (SCopy16 dst x)) st st' /\
    mget (mem st') pd = mget (mem st) px /\ mget (mem st') (pd + 1) = mget (mem st) (px + 1) /\
    word (mem st') pd = word (mem st) px /\
    only_changes [pd; pd + 1] st st' /\ keeps_xys st st'.
Proof.
  intros cfg dst x pd px st Hp Vd Vx Ld Lx Rd Rd' Rx Rx' Hne.
  eexists. split; [run_tac|]. post16_tac. fin_tac.
Qed.
Print Assumptions copy16_correct.

Theorem add16_correct : forall cfg dst x y pd px py st,
  ports cfg = [] -> var_name dst -> var_name x -> var_name y ->
  layout cfg dst = Some pd -> layout cfg x = Some px -> layout cfg y = Some py ->
  0 <= pd -> pd + 1 < 65536 -> 0 <= px -> px + 1 < 65536 -> 0 <= py -> py + 1 < 65536 ->
  pd <> px + 1 -> pd <> py + 1 -> bytes_ok st ->
  exists st', runs_to cfg (template (SAdd16 dst x y)) st st' /\
    word (mem st') pd = (word (mem st) px + word (mem st) py) mod 65536 /\
    only_changes [pd; pd + 1] st st' /\ keeps_xys st st'.
Proof.
  intros cfg dst x y pd px py st Hp Vd Vx Vy Ld Lx Ly Rd Rd' Rx Rx' Ry Ry' Hnx Hny
    (HA & HX & HY & HS & HM).
  eexists. split; [run_tac|]. post16_tac. fin_tac.
  mem_ranges HM. arith_tac.
Qed.
Print Assumptions add16_correct.

Theorem sub16_correct : forall cfg dst x y pd px py st,
  ports cfg = [] -> var_name dst -> var_name x -> var_name y ->
  layout cfg dst = Some pd -> layout cfg x = Some px -> layout cfg y = Some py ->
  0 <= pd -> pd + 1 < 65536 -> 0 <= px -> px + 1 < 65536 -> 0 <= py -> py + 1 < 65536 ->
  pd <> px + 1 -> pd <> py + 1 -> bytes_ok st ->
  exists st', runs_to cfg (template (SSub16 dst x y)) st st' /\
    word (mem st') pd = (word (mem st) px - word (mem st) py) mod 65536 /\
    only_changes [pd; pd + 1] st st' /\ keeps_xys st st'.
Proof.
  intros cfg dst x y pd px py st Hp Vd Vx Vy Ld Lx Ly Rd Rd' Rx Rx' Ry Ry' Hnx Hny
    (HA & HX & HY & HS & HM).
  eexists. split; [run_tac|]. post16_tac. fin_tac.
  mem_ranges HM. arith_tac.
Qed.
Print Assumptions sub16_correct.

(** bitwise operations on 16-bit values are bytewise *)
Lemma bitop_word : forall (op : Z -> Z -> Z) (f : bool -> bool -> bool),
  (forall a b n, Z.testbit (op a b) n = f (Z.testbit a n) (Z.testbit b n)) ->
  forall a b c d, 0 <= a < 256 -> 0 <= c < 256 -> 0 <= b -> 0 <= d ->
  0 <= op a c < 256 ->
  op (a + 256 * b) (c + 256 * d) = op a c + 256 * op b d.
Proof.
  intros op f Hop a b c d Ha Hc Hb Hd Hr.
  assert (Hlow : forall lo hh, 0 <= lo < 256 -> forall n, 0 <= n ->
            Z.testbit (lo + 256 * hh) n = if n <? 8 then Z.testbit lo n else Z.testbit hh (n - 8)).
  { intros lo hh Hlo n Hn. destruct (Z.ltb_spec n 8).
    - rewrite <- (Z.mod_pow2_bits_low (lo + 256 * hh) 8 n) by lia.
      change (2 ^ 8) with 256. f_equal. lia.
    - transitivity (Z.testbit ((lo + 256 * hh) / 2 ^ 8) (n - 8)).
      + rewrite Z.div_pow2_bits by lia. f_equal. lia.
      + change (2 ^ 8) with 256. f_equal. lia. }
  apply Z.bits_inj'. intros n Hn.
  rewrite Hop. rewrite !Hlow by assumption.
  destruct (n <? 8); rewrite Hop; reflexivity.
Qed.

Lemma land_word : forall a b c d, 0 <= a < 256 -> 0 <= c < 256 -> 0 <= b -> 0 <= d ->
  Z.land (a + 256 * b) (c + 256 * d) = Z.land a c + 256 * Z.land b d.
Proof.
  intros a b c d Ha Hc Hb Hd.
  apply (bitop_word Z.land andb Z.land_spec); try assumption. apply land_byte; assumption.
Qed.
Lemma lor_word : forall a b c d, 0 <= a < 256 -> 0 <= c < 256 -> 0 <= b -> 0 <= d ->
  Z.lor (a + 256 * b) (c + 256 * d) = Z.lor a c + 256 * Z.lor b d.
Proof.
  intros a b c d Ha Hc Hb Hd.
  apply (bitop_word Z.lor orb Z.lor_spec); try assumption. apply lor_byte; assumption.
Qed.

Theorem and16_correct : forall cfg dst x y pd px py st,
  ports cfg = [] -> var_name dst -> var_name x -> var_name y ->
  layout cfg dst = Some pd -> layout cfg x = Some px -> layout cfg y = Some py ->
  0 <= pd -> pd + 1 < 65536 -> 0 <= px -> px + 1 < 65536 -> 0 <= py -> py + 1 < 65536 ->
  pd <> px + 1 -> pd <> py + 1 -> bytes_ok st ->
  exists st', runs_to cfg (template (SAnd16 dst x y)) st st' /\
    mget (mem st') pd = Z.land (mget (mem st) px) (mget (mem st) py) /\
    mget (mem st') (pd + 1) = Z.land (mget (mem st) (px + 1)) (mget (mem st) (py + 1)) /\
    word (mem st') pd = Z.land (word (mem st) px) (word (mem st) py) /\
    only_changes [pd; pd + 1] st st' /\ keeps_xys st st'.
Proof.
  intros cfg dst x y pd px py st Hp Vd Vx Vy Ld Lx Ly Rd Rd' Rx Rx' Ry Ry' Hnx Hny
    (HA & HX & HY & HS & HM).
  eexists. split; [run_tac|]. post16_tac. fin_tac.
  symmetry. apply land_word; try apply HM; apply (proj1 (HM _)).
Qed.
Print Assumptions and16_correct.

Theorem or16_correct : forall cfg dst x y pd px py st,
  ports cfg = [] -> var_name dst -> var_name x -> var_name y ->
  layout cfg dst = Some pd -> layout cfg x = Some px -> layout cfg y = Some py ->
  0 <= pd -> pd + 1 < 65536 -> 0 <= px -> px + 1 < 65536 -> 0 <= py -> py + 1 < 65536 ->
  pd <> px + 1 -> pd <> py + 1 -> bytes_ok st ->
  exists st', runs_to cfg (template (SOr16 dst x y)) st st' /\
    mget (mem st') pd = Z.lor (mget (mem st) px) (mget (mem st) py) /\
    mget (mem st') (pd + 1) = Z.lor (mget (mem st) (px + 1)) (mget (mem st) (py + 1)) /\
    word (mem st') pd = Z.lor (word (mem st) px) (word (mem st) py) /\
    only_changes [pd; pd + 1] st st' /\ keeps_xys st st'.
Proof.
  intros cfg dst x y pd px py st Hp Vd Vx Vy Ld Lx Ly Rd Rd' Rx Rx' Ry Ry' Hnx Hny
    (HA & HX & HY & HS & HM).
  eexists. split; [run_tac|]. post16_tac. fin_tac.
  symmetry. apply lor_word; try apply HM; apply (proj1 (HM _)).
Qed.
Print Assumptions or16_correct.

Theorem addconst16_correct : forall cfg v k pv st,
  ports cfg = [] -> var_name v -> layout cfg v = Some pv ->
  0 <= pv -> pv + 1 < 65536 -> 0 <= k < 65536 -> bytes_ok st ->
  exists st', runs_to cfg (template (SAddConst16 v k)) st st' /\
    word (mem st') pv = (word (mem st) pv + k) mod 65536 /\
    only_changes [pv; pv + 1] st st' /\ keeps_xys st st'.
Proof.
  intros cfg v k pv st Hp Vv Lv Rv Rv' Rk (HA & HX & HY & HS & HM).
  eexists. split; [run_tac|]. post16_tac. fin_tac.
  mem_ranges HM. arith_tac.
Qed.
Print Assumptions addconst16_correct.

Theorem subconst16_correct : forall cfg v k pv st,
  ports cfg = [] -> var_name v -> layout cfg v = Some pv ->
  0 <= pv -> pv + 1 < 65536 -> 0 <= k < 65536 -> bytes_ok st ->
  exists st', runs_to cfg (template (SSubConst16 v k)) st st' /\
    word (mem st') pv = (word (mem st) pv - k) mod 65536 /\
    only_changes [pv; pv + 1] st st' /\ keeps_xys st st'.
Proof.
  intros cfg v k pv st Hp Vv Lv Rv Rv' Rk (HA & HX & HY & HS & HM).
  eexists. split; [run_tac|]. post16_tac. fin_tac.
  mem_ranges HM. arith_tac.
Qed.
Print Assumptions subconst16_correct.

Theorem zext_correct : forall cfg dst x pd px st,
  ports cfg = [] -> var_name dst -> var_name x ->
  layout cfg dst = Some pd -> layout cfg x = Some px ->
  0 <= pd -> pd + 1 < 65536 -> 0 <= px < 65536 ->
  exists st', runs_to cfg (template (SZext dst x)) st st' /\
    mget (mem st') pd = mget (mem st) px /\ mget (mem st') (pd + 1) = 0 /\
    word (mem st') pd = mget (mem st) px /\
    only_changes [pd; pd + 1] st st' /\ keeps_xys st st'.
Proof.
  intros cfg dst x pd px st Hp Vd Vx Ld Lx Rd Rd' Rx.
  eexists. split; [run_tac|]. post16_tac. change (byte 0) with 0. fin_tac. lia.
Qed.
Print Assumptions zext_correct.

Theorem shl16_1_correct : forall cfg v pv st,
  ports cfg = [] -> var_name v -> layout cfg v = Some pv ->
  0 <= pv -> pv + 1 < 65536 -> bytes_ok st ->
  exists st', runs_to cfg (template (SShl16_1 v)) st st' /\
    word (mem st') pv = (2 * word (mem st) pv) mod 65536 /\
    only_changes [pv; pv + 1] st st' /\ keeps_xys st st'.
Proof.
  intros cfg v pv st Hp Vv Lv Rv Rv' (HA & HX & HY & HS & HM).
  eexists. split; [run_tac|]. post16_tac. fin_tac.
  mem_ranges HM. arith_tac.
Qed.
Print Assumptions shl16_1_correct.

Theorem shr16_1_correct : forall cfg v pv st,
  ports cfg = [] -> var_name v -> layout cfg v = Some pv ->
  0 <= pv -> pv + 1 < 65536 -> bytes_ok st ->
  exists st', runs_to cfg (template (SShr16_1 v)) st st' /\
    word (mem st') pv = word (mem st) pv / 2 /\
    only_changes [pv; pv + 1] st st' /\ keeps_xys st st'.
Proof.
  intros cfg v pv st Hp Vv Lv Rv Rv' (HA & HX & HY & HS & HM).
  eexists. split; [run_tac|]. post16_tac. fin_tac.
  mem_ranges HM. arith_tac.
Qed.
Print Assumptions shr16_1_correct.

(** arithmetic shift: the sign bit (bit 7 of the high byte) is kept *)
Theorem sar16_1_correct : forall cfg v pv st,
  ports cfg = [] -> var_name v -> layout cfg v = Some pv ->
  0 <= pv -> pv + 1 < 65536 -> bytes_ok st ->
  exists st', runs_to cfg (template (SSar16_1 v)) st st' /\
    word (mem st') pv
    = word (mem st) pv / 2 + (if 128 <=? mget (mem st) (pv + 1) then 32768 else 0) /\
    only_changes [pv; pv + 1] st st' /\ keeps_xys st st'.
Proof.
  intros cfg v pv st Hp Vv Lv Rv Rv' (HA & HX & HY & HS & HM).
  eexists. split; [run_tac|]. post16_tac. fin_tac.
  mem_ranges HM. arith_tac.
Qed.
Print Assumptions sar16_1_correct.

Theorem add16_8_correct : forall cfg dst x y pd px py st,
  ports cfg = [] -> var_name dst -> var_name x -> var_name y ->
  layout cfg dst = Some pd -> layout cfg x = Some px -> layout cfg y = Some py ->
  0 <= pd -> pd + 1 < 65536 -> 0 <= px -> px + 1 < 65536 -> 0 <= py < 65536 ->
  pd <> px + 1 -> bytes_ok st ->
  exists st', runs_to cfg (template (SAdd16_8 dst x y)) st st' /\
    word (mem st') pd = (word (mem st) px + mget (mem st) py) mod 65536 /\
    only_changes [pd; pd + 1] st st' /\ keeps_xys st st'.
Proof.
  intros cfg dst x y pd px py st Hp Vd Vx Vy Ld Lx Ly Rd Rd' Rx Rx' Ry Hnx
    (HA & HX & HY & HS & HM).
  eexists. split; [run_tac|]. post16_tac. change (byte 0) with 0. fin_tac.
  mem_ranges HM. arith_tac.
Qed.
Print Assumptions add16_8_correct.

Theorem const16_correct : forall cfg v k pv st,
  ports cfg = [] -> var_name v -> layout cfg v = Some pv ->
  0 <= pv -> pv + 1 < 65536 -> 0 <= k < 65536 ->
  exists st', runs_to cfg (template (SConst16 v k)) st st' /\
    word (mem st') pv = k /\
    only_changes [pv; pv + 1] st st' /\ keeps_xys st st'.
Proof.
  intros cfg v k pv st Hp Vv Lv Rv Rv' Rk.
  eexists. split; [run_tac|]. post16_tac. fin_tac. arith_tac.
Qed.
Print Assumptions const16_correct.

Theorem hibyte_correct : forall cfg dst x pd px st,
  ports cfg = [] -> var_name dst -> var_name x ->
  layout cfg dst = Some pd -> layout cfg x = Some px ->
  0 <= pd < 65536 -> 0 <= px -> px + 1 < 65536 -> bytes_ok st ->
  exists st', runs_to cfg (template (SHiByte dst x)) st st' /\
    mget (mem st') pd = mget (mem st) (px + 1) /\
    mget (mem st') pd = word (mem st) px / 256 /\
    only_changes [pd] st st' /\ keeps_xys st st'.
Proof.
  intros cfg dst x pd px st Hp Vd Vx Ld Lx Rd Rx Rx' (HA & HX & HY & HS & HM).
  eexists. split; [run_tac|]. post16_tac. fin_tac. mem_ranges HM. arith_tac.
Qed.
Print Assumptions hibyte_correct.

Theorem lobyte_correct : forall cfg dst x pd px st,
  ports cfg = [] -> var_name dst -> var_name x ->
  layout cfg dst = Some pd -> layout cfg x = Some px ->
  0 <= pd < 65536 -> 0 <= px -> px + 1 < 65536 -> bytes_ok st ->
  exists st', runs_to cfg (template (SLoByte dst x)) st st' /\
    mget (mem st') pd = mget (mem st) px /\
    mget (mem st') pd = word (mem st) px mod 256 /\
    only_changes [pd] st st' /\ keeps_xys st st'.
Proof.
  intros cfg dst x pd px st Hp Vd Vx Ld Lx Rd Rx Rx' (HA & HX & HY & HS & HM).
  eexists. split; [run_tac|]. post16_tac. fin_tac. mem_ranges HM. arith_tac.
Qed.
Print Assumptions lobyte_correct.

Theorem shl16_8_correct : forall cfg dst x pd px st,
  ports cfg = [] -> var_name dst -> var_name x ->
  layout cfg dst = Some pd -> layout cfg x = Some px ->
  0 <= pd -> pd + 1 < 65536 -> 0 <= px < 65536 ->
  pd <> px -> bytes_ok st ->
  exists st', runs_to cfg (template (SShl16_8 dst x)) st st' /\
    mget (mem st') pd = 0 /\ mget (mem st') (pd + 1) = mget (mem st) px /\
    word (mem st') pd = (256 * word (mem st) px) mod 65536 /\
    only_changes [pd; pd + 1] st st' /\ keeps_xys st st'.
Proof.
  intros cfg dst x pd px st Hp Vd Vx Ld Lx Rd Rd' Rx Hne (HA & HX & HY & HS & HM).
  eexists. split; [run_tac|]. post16_tac. change (byte 0) with 0. fin_tac.
  mem_ranges HM. arith_tac.
Qed.
Print Assumptions shl16_8_correct.

(** ** templates with a forward branch *)

Ltac xbranch E :=
  rewrite xf_branch by reflexivity; cbn [branch_taken]; state_simp;
  rewrite E; cbn [negb drop_to_slbl]; rewrite ?String.eqb_refl.

Ltac run_branch_tac E :=
  eapply runs_to_intro with (n := 20%nat);
  [ cbn [template]; slines_tac
  | cbn [fwd_ok targets In]; tauto
  | repeat first [xstep | xbranch E]; reflexivity ].

(** [v++]: the carry into the high byte *)
Theorem inc16_correct : forall cfg v lbl pv st,
  ports cfg = [] -> var_name v -> lbl <> ""%string -> layout cfg v = Some pv ->
  0 <= pv -> pv + 1 < 65536 -> bytes_ok st ->
  exists st', runs_to cfg (template (SInc16 v lbl)) st st' /\
    word (mem st') pv = (word (mem st) pv + 1) mod 65536 /\
    only_changes [pv; pv + 1] st st' /\ keeps_xys st st'.
Proof.
  intros cfg v lbl pv st Hp Vv Hl Lv Rv Rv' (HA & HX & HY & HS & HM).
  destruct (byte (mget (mem st) pv + 1) =? 0) eqn:E.
  - eexists. split; [run_branch_tac E|]. post16_tac. fin_tac.
    apply Z.eqb_eq in E. mem_ranges HM. arith_tac.
  - eexists. split; [run_branch_tac E|]. post16_tac. fin_tac.
    apply Z.eqb_neq in E. mem_ranges HM. arith_tac.
Qed.
Print Assumptions inc16_correct.

(** [v--]: the borrow from the high byte *)
Theorem dec16_correct : forall cfg v lbl pv st,
  ports cfg = [] -> var_name v -> lbl <> ""%string -> layout cfg v = Some pv ->
  0 <= pv -> pv + 1 < 65536 -> bytes_ok st ->
  exists st', runs_to cfg (template (SDec16 v lbl)) st st' /\
    word (mem st') pv = (word (mem st) pv - 1) mod 65536 /\
    only_changes [pv; pv + 1] st st' /\ keeps_xys st st'.
Proof.
  intros cfg v lbl pv st Hp Vv Hl Lv Rv Rv' (HA & HX & HY & HS & HM).
  destruct (mget (mem st) pv =? 0) eqn:E.
  - eexists. split; [run_branch_tac E|]. post16_tac. fin_tac.
    apply Z.eqb_eq in E. mem_ranges HM. arith_tac.
  - eexists. split; [run_branch_tac E|]. post16_tac. fin_tac.
    apply Z.eqb_neq in E. mem_ranges HM. arith_tac.
Qed.
Print Assumptions dec16_correct.

Lemma mget_mset_copy : forall m a b, 0 <= a -> 0 <= b ->
  mget (mset m a (mget m b)) b = mget m b.
Proof.
  intros m a b Ha Hb. destruct (Z.eq_dec a b) as [->|Hne];
    [apply mget_mset_same|apply mget_mset_other; assumption].
Qed.

(** sign extension [dst16 = x8] *)
Theorem sext_correct : forall cfg dst x lbl pd px st,
  ports cfg = [] -> var_name dst -> var_name x -> lbl <> ""%string ->
  layout cfg dst = Some pd -> layout cfg x = Some px ->
  0 <= pd -> pd + 1 < 65536 -> 0 <= px < 65536 -> bytes_ok st ->
  exists st', runs_to cfg (template (SSext dst x lbl)) st st' /\
    mget (mem st') pd = mget (mem st) px /\
    mget (mem st') (pd + 1) = (if 128 <=? mget (mem st) px then 255 else 0) /\
    word (mem st') pd
    = (if 128 <=? mget (mem st) px then mget (mem st) px - 256 else mget (mem st) px) mod 65536 /\
    only_changes [pd; pd + 1] st st' /\ keeps_xys st st'.
Proof.
  intros cfg dst x lbl pd px st Hp Vd Vx Hl Ld Lx Rd Rd' Rx (HA & HX & HY & HS & HM).
  pose proof (lor_127 (mget (mem st) px) (HM px)) as Hor.
  destruct (128 <=? mget (mem st) px) eqn:E.
  - eexists. split.
    { eapply runs_to_intro with (n := 20%nat);
      [ cbn [template]; slines_tac | cbn [fwd_ok targets In]; tauto | ].
      repeat xstep. rewrite xf_branch by reflexivity. cbn [branch_taken]. state_simp.
      rewrite mget_mset_copy by lia. change (byte 127) with 127. rewrite Hor.
      change (bit7 255) with true. cbn [drop_to_slbl]. rewrite ?String.eqb_refl.
      repeat xstep. reflexivity. }
    post_tac. unfold word. state_simp.
    rewrite ?mget_mset_copy by lia. change (byte 127) with 127. rewrite ?Hor.
    mem_simp. fin_tac. apply Z.leb_le in E. mem_ranges HM. arith_tac.
  - eexists. split.
    { eapply runs_to_intro with (n := 20%nat);
      [ cbn [template]; slines_tac | cbn [fwd_ok targets In]; tauto | ].
      repeat xstep. rewrite xf_branch by reflexivity. cbn [branch_taken]. state_simp.
      rewrite mget_mset_copy by lia. change (byte 127) with 127. rewrite Hor.
      change (bit7 127) with false.
      repeat xstep. reflexivity. }
    post_tac. unfold word. state_simp. change (byte 0) with 0.
    mem_simp. fin_tac. apply Z.leb_gt in E. mem_ranges HM. arith_tac.
Qed.
Print Assumptions sext_correct.

(** * Every C identifier is a [var_name] *)

Fixpoint all_ident (s : string) : bool :=
  match s with
  | EmptyString => true
  | String c r => is_ident_char c && all_ident r
  end.

Lemma ident_char_neq : forall c d, is_ident_char c = true -> is_ident_char d = false ->
  Ascii.eqb d c = false.
Proof.
  intros c d Hc Hd. destruct (Ascii.eqb_spec d c) as [E|E]; [|reflexivity].
  subst d. congruence.
Qed.

Lemma ident_char_neq' : forall c d, is_ident_char c = true -> is_ident_char d = false ->
  Ascii.eqb c d = false.
Proof.
  intros c d Hc Hd. destruct (Ascii.eqb_spec c d) as [E|E]; [|reflexivity].
  subst d. congruence.
Qed.

Lemma all_ident_app : forall a b, all_ident (a ++ b) = all_ident a && all_ident b.
Proof.
  induction a as [|c a IH]; intros b; [reflexivity|].
  cbn [append all_ident]. rewrite IH. rewrite andb_assoc. reflexivity.
Qed.

Lemma all_ident_rev : forall s, all_ident s = true -> all_ident (rev_string s) = true.
Proof.
  induction s as [|c s IH]; intros H; [reflexivity|].
  cbn [all_ident] in H. apply andb_true_iff in H. destruct H as [Hc Hs].
  rewrite rev_string_cons. rewrite all_ident_app. rewrite (IH Hs). cbn [all_ident].
  rewrite Hc. reflexivity.
Qed.

Lemma rev_string_app : forall a b, rev_string (a ++ b) = (rev_string b ++ rev_string a)%string.
Proof.
  induction a as [|c a IH]; intros b.
  - cbn [append]. change (rev_string "") with ""%string.
    induction (rev_string b) as [|d r IHr]; [reflexivity|]. cbn [append]. rewrite <- IHr. reflexivity.
  - cbn [append]. rewrite !rev_string_cons. rewrite IH. apply str_app_assoc.
Qed.

(** an identifier does not end in ",X" or ",Y" *)
Lemma ident_no_index : forall s r, all_ident s = true ->
  starts_with (String r ",") (rev_string s) = false.
Proof.
  intros s r H. apply all_ident_rev in H.
  destruct (rev_string s) as [|a [|b t]]; [reflexivity| |].
  - cbn [starts_with]. apply andb_false_r.
  - cbn [all_ident] in H. apply andb_true_iff in H. destruct H as [_ H].
    apply andb_true_iff in H. destruct H as [Hb _].
    cbn [starts_with]. rewrite (ident_char_neq b ","%char Hb eq_refl).
    cbn [andb]. apply andb_false_r.
Qed.

Lemma ident_no_plus : forall s, all_ident s = true -> split_at_char "+" s = None.
Proof.
  induction s as [|c s IH]; intros H; [reflexivity|].
  cbn [all_ident] in H. apply andb_true_iff in H. destruct H as [Hc Hs].
  cbn [split_at_char].
  destruct (Ascii.eqb_spec c "+"%char) as [E|E]; [subst c; discriminate Hc|].
  rewrite (IH Hs). reflexivity.
Qed.

Lemma ident_split_plus : forall s t, all_ident s = true ->
  split_at_char "+" (s ++ String "+" t) = Some (s, t).
Proof.
  induction s as [|c s IH]; intros t H; [reflexivity|].
  cbn [all_ident] in H. apply andb_true_iff in H. destruct H as [Hc Hs].
  cbn [append split_at_char].
  destruct (Ascii.eqb_spec c "+"%char) as [E|E]; [subst c; discriminate Hc|].
  rewrite (IH t Hs). reflexivity.
Qed.

Lemma strip_suffix_none : forall suf s, ends_with suf s = false -> strip_suffix suf s = None.
Proof. intros suf s H. unfold strip_suffix. rewrite H. reflexivity. Qed.

Theorem ident_var_name : forall v, v <> ""%string -> all_ident v = true -> var_name v.
Proof.
  intros v Hne Hid m Hm.
  destruct v as [|c r]; [contradiction|].
  pose proof Hid as Hid'. cbn [all_ident] in Hid'. apply andb_true_iff in Hid'.
  destruct Hid' as [Hc Hr].
  assert (Hx : ends_with ",X" (String c r) = false) by (apply (ident_no_index _ "X"%char Hid)).
  assert (Hy : ends_with ",Y" (String c r) = false) by (apply (ident_no_index _ "Y"%char Hid)).
  assert (Hhx : ends_with ",X" (hi (String c r)) = false).
  { unfold ends_with, hi. rewrite rev_string_app. reflexivity. }
  assert (Hhy : ends_with ",Y" (hi (String c r)) = false).
  { unfold ends_with, hi. rewrite rev_string_app. reflexivity. }
  split.
  - rewrite parse_operand_eq, Hm.
    change (String.eqb (String c r) "") with false. cbv iota.
    rewrite (ident_char_neq' c "#"%char Hc eq_refl), (ident_char_neq' c "("%char Hc eq_refl).
    unfold parse_mem. rewrite (strip_suffix_none _ _ Hx), (strip_suffix_none _ _ Hy).
    unfold parse_sym_off. rewrite (ident_no_plus _ Hid).
    change (String.eqb (String c r) "") with false. reflexivity.
  - rewrite parse_operand_eq, Hm. unfold hi in *. cbn [append] in *.
    change (String.eqb (String c (r ++ "+1")) "") with false. cbv iota.
    rewrite (ident_char_neq' c "#"%char Hc eq_refl), (ident_char_neq' c "("%char Hc eq_refl).
    unfold parse_mem. rewrite (strip_suffix_none _ _ Hhx), (strip_suffix_none _ _ Hhy).
    unfold parse_sym_off.
    change (String c (r ++ "+1")) with (String c r ++ String "+" "1")%string.
    rewrite (ident_split_plus _ "1" Hid).
    change (String.eqb (String c r) "") with false. reflexivity.
Qed.
Print Assumptions ident_var_name.

(** the variables of the listing *)
Lemma var_names_listing :
  var_name "a" /\ var_name "b" /\ var_name "c" /\ var_name "sa" /\ var_name "sb" /\
  var_name "s" /\ var_name "t" /\ var_name "u" /\ var_name "ss" /\ var_name "st".
Proof.
  repeat match goal with |- _ /\ _ => split end;
    (apply ident_var_name; [discriminate|reflexivity]).
Qed.

(** * Byte-valued states stay byte-valued *)

Lemma read_operand_range : forall cfg m s o v c,
  read_operand cfg m s o = Some (v, c) -> (forall a, 0 <= mget (mem s) a < 256) -> 0 <= v < 256.
Proof.
  intros cfg m s o v c H HM. unfold read_operand in H.
  destruct o as [|iv|y k ix|y k|l]; try discriminate H.
  - destruct (imm_value cfg iv) as [x|] eqn:E; [|discriminate H].
    destruct (legal m Imm); [|discriminate H]. inversion H; subst.
    apply (imm_value_range cfg iv v E).
  - destruct (eff_addr cfg m s (OMem y k ix)) as [[[a md] cr]|]; [|discriminate H].
    destruct (read_addr (ports cfg) a) as [a'|]; [|discriminate H]. inversion H; subst. apply HM.
  - destruct (eff_addr cfg m s (OInd y k)) as [[[a md] cr]|]; [|discriminate H].
    destruct (read_addr (ports cfg) a) as [a'|]; [|discriminate H]. inversion H; subst. apply HM.
Qed.

Lemma bytes_ok_flags : forall s n v z c,
  bytes_ok s -> bytes_ok (mkS (rA s) (rX s) (rY s) (rS s) n v z c (mem s)).
Proof. intros s n v z c H. exact H. Qed.

Lemma bytes_ok_mk : forall a x y sp n v z c m,
  0 <= a < 256 -> 0 <= x < 256 -> 0 <= y < 256 -> 0 <= sp < 256 ->
  (forall b, 0 <= mget m b < 256) -> bytes_ok (mkS a x y sp n v z c m).
Proof.
  intros a x y sp n v z c m Ha Hx Hy Hsp Hm. unfold bytes_ok. cbn [rA rX rY rS mem].
  repeat split; try apply Hm; lia.
Qed.

Lemma ror_byte : forall v c, 0 <= v < 256 -> 0 <= v / 2 + 128 * b2z c < 256.
Proof. intros v c Hv. unfold b2z. destruct c; lia. Qed.

Lemma status_byte_range : forall s, 0 <= status_byte s < 256.
Proof.
  intros s. unfold status_byte, b2z. destruct (fN s), (fV s), (fZ s), (fC s); lia.
Qed.

Ltac bytes_tac HA HX HY HS HM :=
  apply bytes_ok_mk; cbn [rA rX rY rS mem set_nz set_a set_x set_y set_sp set_c set_v set_mem];
  try assumption; try apply byte_range; try apply HM;
  try (apply land_byte; assumption); try (apply lor_byte; assumption);
  try (apply lxor_byte; assumption); try (apply ror_byte; assumption);
  try (apply mget_mset_bytes; [exact HM|]); try assumption; try apply byte_range;
  try apply status_byte_range; try (apply ror_byte; try assumption; apply HM);
  try apply HM; try lia.

Theorem exec_bytes_ok : forall cfg m o s s' k fl,
  exec cfg m o s = XOk s' k fl -> bytes_ok s -> bytes_ok s'.
Proof.
  intros cfg m o s s' k fl H Hb. pose proof Hb as (HA & HX & HY & HS & HM).
  unfold exec in H.
  destruct m;
    repeat match type of H with
           | (match ?x with _ => _ end) = _ => destruct x eqn:?
           | (let '(_, _) := ?x in _) = _ => destruct x eqn:?
           end; try discriminate H; inversion H; subst; clear H;
    try exact Hb;
    repeat match goal with
           | E : read_operand _ _ _ _ = Some (?v, _) |- _ =>
               apply read_operand_range in E; [|exact HM]
           | E : write_operand _ _ _ _ _ = Some _ |- _ =>
               apply write_operand_inv in E; destruct E as [? ->]
           | E : (_, _) = (_, _) |- _ => inversion E; subst; clear E
           end;
    unfold adc, sbc, cmp, push, pull, set_status, asl_v, lsr_v, rol_v, ror_v in *;
    repeat match goal with
           | E : (_, _) = (_, _) |- _ => inversion E; subst; clear E
           end.
  all: try (bytes_tac HA HX HY HS HM).
  all: match goal with |- context [mget (mem ?s0) ?a] => pose proof (HM a) end; lia.
Qed.
Print Assumptions exec_bytes_ok.

Lemma push_bytes_ok : forall s v, bytes_ok s -> 0 <= v < 256 -> bytes_ok (push s v).
Proof.
  intros s v (HA & HX & HY & HS & HM) Hv. unfold push. bytes_tac HA HX HY HS HM.
Qed.

Lemma pull_bytes_ok : forall s, bytes_ok s -> bytes_ok (fst (pull s)).
Proof.
  intros s (HA & HX & HY & HS & HM). unfold pull. cbn [fst]. bytes_tac HA HX HY HS HM.
Qed.

(** [Sem.run] keeps the invariant, provided the inline assembly and the external functions do *)
Theorem run_bytes_ok : forall cfg prog inl_sem ext_call,
  (forall t s s', inl_sem t s = Some s' -> bytes_ok s -> bytes_ok s') ->
  (forall f s s', ext_call f s = Some s' -> bytes_ok s -> bytes_ok s') ->
  forall fuel fname c pc stack s tr cy s' tr' cy',
  Sem.run cfg prog inl_sem ext_call fuel fname c pc stack s tr cy = Halt s' tr' cy' ->
  bytes_ok s -> bytes_ok s'.
Proof.
  intros cfg prog inl_sem ext_call Hinl Hext.
  induction fuel as [|fuel IH]; intros fname c pc stack s tr cy s' tr' cy' H Hb; [discriminate H|].
  rewrite run_S in H.
  destruct (nth_error c pc) as [[l|m o p raw|t|]|].
  - exact (IH _ _ _ _ _ _ _ _ _ _ H Hb).
  - destruct (exec cfg m o s) as [s1 k fl|why] eqn:Ex; [|discriminate H].
    pose proof (exec_bytes_ok cfg m o s s1 k fl Ex Hb) as Hb1. cbv zeta in H.
    destruct fl as [|l|f| |].
    + exact (IH _ _ _ _ _ _ _ _ _ _ H Hb1).
    + destruct (find_label l c 0); [|discriminate H]. exact (IH _ _ _ _ _ _ _ _ _ _ H Hb1).
    + destruct (find_func f prog).
      * apply (IH _ _ _ _ _ _ _ _ _ _ H).
        apply push_bytes_ok; [apply push_bytes_ok; [exact Hb1|]|]; apply byte_range.
      * destruct (ext_call f s1) as [s2|] eqn:Ee; [|discriminate H].
        exact (IH _ _ _ _ _ _ _ _ _ _ H (Hext f s1 s2 Ee Hb1)).
    + destruct stack as [|[[fn c0] pc0] stk].
      * inversion H; subst. exact Hb1.
      * pose proof (pull_bytes_ok s1 Hb1) as Hp1.
        destruct (pull s1) as [s2 lo]. cbn [fst] in Hp1.
        pose proof (pull_bytes_ok s2 Hp1) as Hp2.
        destruct (pull s2) as [s3 hh]. cbn [fst] in Hp2.
        match type of H with (if ?b then _ else _) = _ => destruct b end; [|discriminate H].
        exact (IH _ _ _ _ _ _ _ _ _ _ H Hp2).
    + inversion H; subst. exact Hb1.
  - destruct (inl_sem t s) as [s1|] eqn:Ei; [|discriminate H].
    exact (IH _ _ _ _ _ _ _ _ _ _ H (Hinl t s s1 Ei Hb)).
  - exact (IH _ _ _ _ _ _ _ _ _ _ H Hb).
  - destruct stack; [|discriminate H]. inversion H; subst. exact Hb.
Qed.
Print Assumptions run_bytes_ok.

(** in particular the final state of a template is byte-valued: the template theorems compose *)
Theorem runs_to_bytes_ok : forall cfg c st st', runs_to cfg c st st' -> bytes_ok st -> bytes_ok st'.
Proof.
  intros cfg c st st' (sl & _ & Hrun) Hb.
  destruct (Hrun [] (fun _ _ => None) (fun _ _ => None) ""%string (S (length sl)) (Nat.lt_succ_diag_r _))
    as (tr & cy & Hr).
  apply (run_bytes_ok cfg [] (fun _ _ => None) (fun _ _ => None)
           ltac:(intros t s s' H; discriminate H) ltac:(intros f s s' H; discriminate H) _ _ _ _ _ _ _ _ _ _ _ Hr Hb).
Qed.
Print Assumptions runs_to_bytes_ok.


(** * The hypothesis [pd <> px] of [shl16_8_correct] is needed

    [SShl16_8 v v] (the template of [dst = x << 8] instantiated with the SAME variable on both
    sides, i.e. what [s = s << 8] would be if the generator used this template for it; the listing
    only shows it for two different variables) zeroes the variable: the low byte is cleared
    before it is read. *)
Theorem shl16_8_same_var : forall cfg v pv st,
  ports cfg = [] -> var_name v -> layout cfg v = Some pv -> 0 <= pv -> pv + 1 < 65536 ->
  exists st', runs_to cfg (template (SShl16_8 v v)) st st' /\ word (mem st') pv = 0.
Proof.
  intros cfg v pv st Hp Vv Lv Rv Rv'.
  eexists. split; [run_tac|]. post16_tac. change (byte 0) with 0. reflexivity.
Qed.
Print Assumptions shl16_8_same_var.

(** * The instances of the listing: the hypotheses of the theorems are satisfiable *)

Definition cfg_listing : config :=
  mkCfg (fun y =>
    if String.eqb y "a" then Some 128 else if String.eqb y "b" then Some 129
    else if String.eqb y "c" then Some 130 else if String.eqb y "sa" then Some 131
    else if String.eqb y "sb" then Some 132 else if String.eqb y "s" then Some 134
    else if String.eqb y "t" then Some 136 else if String.eqb y "u" then Some 138
    else if String.eqb y "ss" then Some 140 else if String.eqb y "st" then Some 142
    else None) [].

Definition st_listing (slo shi : Z) : mstate :=
  mkS 0 1 2 255 false false false false (mset (mset mem_empty 134 slo) 135 shi).

Lemma st_listing_bytes_ok : forall slo shi, 0 <= slo < 256 -> 0 <= shi < 256 ->
  bytes_ok (st_listing slo shi).
Proof.
  intros slo shi Hl Hh. apply bytes_ok_mk; try lia.
  apply mget_mset_bytes; [|exact Hh]. apply mget_mset_bytes; [|exact Hl].
  intros b. rewrite mget_empty. lia.
Qed.

(** [s = s << 8] through the template of [s = t << 8]: s = 1 becomes 0, not 256 *)
Theorem shl16_8_alias_refuted :
  exists st st', bytes_ok st /\ runs_to cfg_listing (template (SShl16_8 "s" "s")) st st' /\
    word (mem st) 134 = 1 /\ (256 * word (mem st) 134) mod 65536 = 256 /\ word (mem st') 134 = 0.
Proof.
  destruct (shl16_8_same_var cfg_listing "s" 134 (st_listing 1 0)) as (st' & Hr & Hw);
    try reflexivity; try lia; [apply ident_var_name; [discriminate|reflexivity]|].
  exists (st_listing 1 0), st'.
  split; [apply st_listing_bytes_ok; lia|]. split; [exact Hr|].
  split; [vm_compute; reflexivity|]. split; [vm_compute; reflexivity|exact Hw].
Qed.
Print Assumptions shl16_8_alias_refuted.

(** the theorems on the listing's own names and a concrete layout *)
Corollary listing_inc16 : forall st, bytes_ok st ->
  exists st', runs_to cfg_listing (template (SInc16 "s" ".ifend1")) st st' /\
    word (mem st') 134 = (word (mem st) 134 + 1) mod 65536 /\
    only_changes [134; 134 + 1] st st' /\ keeps_xys st st'.
Proof.
  intros st Hb. apply (inc16_correct cfg_listing "s" ".ifend1" 134 st);
    try reflexivity; try lia; try exact Hb; try discriminate.
  apply ident_var_name; [discriminate|reflexivity].
Qed.
Print Assumptions listing_inc16.

Corollary listing_add16 : forall st, bytes_ok st ->
  exists st', runs_to cfg_listing (template (SAdd16 "s" "t" "u")) st st' /\
    word (mem st') 134 = (word (mem st) 136 + word (mem st) 138) mod 65536 /\
    only_changes [134; 134 + 1] st st' /\ keeps_xys st st'.
Proof.
  intros st Hb. apply (add16_correct cfg_listing "s" "t" "u" 134 136 138 st);
    try reflexivity; try lia; try exact Hb;
    (apply ident_var_name; [discriminate|reflexivity]).
Qed.
Print Assumptions listing_add16.

(** and two plain computations with [Sem.run]: 0x00FF + 1 = 0x0100 (carry into the high byte),
    0x0100 - 1 = 0x00FF (borrow); X, Y, S keep their values 1, 2, 255 *)
Definition run_listing (t : schema) (st : mstate) : option (Z * Z * Z * Z * Z) :=
  match slines_of (template t) with
  | Some sl =>
      match Sem.run cfg_listing [] (fun _ _ => None) (fun _ _ => None) 20 "f" sl 0 [] st [] 0%N with
      | Halt s' _ _ => Some (mget (mem s') 134, mget (mem s') 135, rX s', rY s', rS s')
      | _ => None
      end
  | None => None
  end.

Example run_inc16_carry :
  run_listing (SInc16 "s" ".ifend1") (st_listing 255 0) = Some (0, 1, 1, 2, 255).
Proof. vm_compute. reflexivity. Qed.
Example run_inc16_no_carry :
  run_listing (SInc16 "s" ".ifend1") (st_listing 254 7) = Some (255, 7, 1, 2, 255).
Proof. vm_compute. reflexivity. Qed.
Example run_inc16_wrap :
  run_listing (SInc16 "s" ".ifend1") (st_listing 255 255) = Some (0, 0, 1, 2, 255).
Proof. vm_compute. reflexivity. Qed.
Example run_dec16_borrow :
  run_listing (SDec16 "s" ".ifend1") (st_listing 0 1) = Some (255, 0, 1, 2, 255).
Proof. vm_compute. reflexivity. Qed.
Example run_dec16_wrap :
  run_listing (SDec16 "s" ".ifend1") (st_listing 0 0) = Some (255, 255, 1, 2, 255).
Proof. vm_compute. reflexivity. Qed.
Example run_addconst16 :
  run_listing (SAddConst16 "s" 300) (st_listing 212 0) = Some (0, 2, 1, 2, 255).
Proof. vm_compute. reflexivity. Qed.
