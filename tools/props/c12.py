"""C12 — call graph and in-use set are complete.

proof   : Props/C12.v: the depth-first marking of Model/CallGraph.v computes exactly the set of
          functions reachable from the roots, for every finite call tree (cycles included)
corr-M  : functions_actually_in_use of the real compiler = in_use(model) applied to the real
          functions_call_tree and roots (main + interrupt handlers), exact set equality
corr-S  : for generated programs the published tree must contain every call written in the source
          (any expression/statement position, inline or not, nested), every JSR target found in the
          emitted code of a function must be in its tree entry, and the in-use set must equal
          reachability over the SOURCE call graph
"""
import re
from lib.common import *
from lib.gen_c import gen_program
from lib.pipeline import *
from lib.asmsel import run_sel  # noqa
import os
import shutil

LEVEL = 'proof'


def theorems():
    return re.findall(r'^Theorem (\w+)', open(os.path.join(COQ, 'Props', 'C12.v')).read(), re.M)


def calls_in_expr(e, out):
    if not isinstance(e, tuple):
        return
    if e[0] == 'call':
        out.append(e[1])
        for a in e[2]:
            calls_in_expr(a, out)
        return
    for x in e[1:]:
        if isinstance(x, tuple):
            calls_in_expr(x, out)
        elif isinstance(x, list):
            for y in x:
                calls_in_expr(y, out)


def calls_in_stmts(stmts, out):
    for s in stmts:
        if not isinstance(s, tuple):
            continue
        for x in s[1:]:
            if isinstance(x, tuple):
                if x and isinstance(x[0], str) and x[0] in ('expr', 'if', 'while', 'do', 'for', 'block', 'switch', 'return', 'load', 'store'):
                    calls_in_stmts([x], out)
                else:
                    calls_in_expr(x, out)
            elif isinstance(x, list):
                for y in x:
                    if isinstance(y, tuple) and len(y) == 2 and isinstance(y[0], list):
                        calls_in_stmts(y[1], out)       # switch case
                    elif isinstance(y, tuple):
                        calls_in_stmts([y], out)


def source_graph(prog):
    g = {}
    for f in prog.funcs:
        out = []
        calls_in_stmts(f['body'], out)
        g[f['name']] = out
    out = []
    calls_in_stmts(prog.main, out)
    g['main'] = out
    return g


def reach(g, roots):
    seen = set()
    todo = list(roots)
    while todo:
        f = todo.pop()
        if f in seen:
            continue
        seen.add(f)
        todo.extend(g.get(f, []))
    return seen


FIXED = {
    'proto_unused': 'char a; void f(); void g() { a = 1; } void f() { a = 2; } void h() { g(); } void main() { f(); }',
    'cycle': 'char a; void f(); void g() { if (a) f(); } void f() { a--; g(); } void main() { f(); }',
    'interrupt': 'char a; void k() { a++; } void interrupt nmi() { k(); } void u() { a = 3; } void main() { a = 0; }',
    'interrupt_proto_plain': 'char t; void tick() { t++; } void vblank(); void unused() { t = 9; } void interrupt vblank() { tick(); } void main() { while (t) { } }',
    'interrupt_proto_qualified': 'char t; void tick() { t++; } void interrupt vblank(); void unused() { t = 9; } void interrupt vblank() { tick(); } void main() { while (t) { } }',
    'interrupt_two': 'char t; void tick() { t++; } void tock() { t--; } void a_irq(); void b_irq(); void interrupt b_irq() { tock(); } void interrupt a_irq() { tick(); } void main() { t = 0; }',
    # a function whose NAME starts like the interrupt keyword is an ordinary function (no root)
    'interrupt_prefix_name': 'char t; void interrupt_tick() { t++; } void inline_it() { t--; } void main() { t = 0; }',
    'interrupt_prefix_called': 'char t; void interrupt_tick() { t++; } void unused() { t = 3; } void main() { interrupt_tick(); }',
    # calls into another bank go through a trampoline `Call<name>`: the CALLEE is what the tree records
    'banked_call': 'char t; bank1 void helper() { t++; } bank1 void far(char v) { t = v; helper(); } void dead() { t = 9; } bank1 void dead1() { t = 8; } void main() { far(1); }',
    'banked_call_two': 'char t; bank2 void leaf() { t++; } bank1 void far() { t = 2; } void near() { leaf(); } void main() { far(); near(); }',
    'banked_call_inline': 'char t; bank1 void far() { t = 2; } inline void via() { far(); } void unused() { t = 1; } void main() { via(); }',
    'in_condition': 'char a, b; char t(char x) { return x + 1; } char u(char x) { return x; } void main() { if (t(a) == 2 && u(b)) a = 0; for (X = t(b); X != 3; X = u(X) + 1) { } }',
    'inline_calls_further': 'char a; void deep() { a++; } inline void mid() { deep(); } void main() { mid(); mid(); }',
}
FIXED_GRAPH = {
    'proto_unused': ({'g': [], 'f': [], 'h': ['g'], 'main': ['f']}, ['main']),
    'cycle': ({'g': ['f'], 'f': ['g'], 'main': ['f']}, ['main']),
    'interrupt': ({'k': [], 'nmi': ['k'], 'u': [], 'main': []}, ['main', 'nmi']),
    'interrupt_proto_plain': ({'tick': [], 'unused': [], 'vblank': ['tick'], 'main': []}, ['main', 'vblank']),
    'interrupt_proto_qualified': ({'tick': [], 'unused': [], 'vblank': ['tick'], 'main': []}, ['main', 'vblank']),
    'interrupt_two': ({'tick': [], 'tock': [], 'a_irq': ['tick'], 'b_irq': ['tock'], 'main': []}, ['main', 'a_irq', 'b_irq']),
    'interrupt_prefix_name': ({'interrupt_tick': [], 'inline_it': [], 'main': []}, ['main']),
    'interrupt_prefix_called': ({'interrupt_tick': [], 'unused': [], 'main': ['interrupt_tick']}, ['main']),
    'banked_call': ({'helper': [], 'far': ['helper'], 'dead': [], 'dead1': [], 'main': ['far']}, ['main']),
    'banked_call_two': ({'leaf': [], 'far': [], 'near': ['leaf'], 'main': ['far', 'near']}, ['main']),
    'banked_call_inline': ({'far': [], 'via': ['far'], 'unused': [], 'main': ['via']}, ['main']),
    'in_condition': ({'t': [], 'u': [], 'main': ['t', 'u', 't', 'u']}, ['main']),
    'inline_calls_further': ({'deep': [], 'mid': ['deep'], 'main': ['mid', 'mid']}, ['main']),
}


def run_cg(jobs):
    """jobs: {id: (roots, tree)} -> {id: set(names)} via the extracted model"""
    drv = ocaml_driver('sem')
    d = os.path.join('/dev/shm', 'cg.%d' % os.getpid())
    os.makedirs(d, exist_ok=True)
    try:
        fn = os.path.join(d, 'cg.txt')
        with open(fn, 'w') as f:
            for jid, (roots, tree) in jobs.items():
                f.write('cg %s %s %s\n' % (jid, ','.join(hx(r) for r in roots) or '-',
                                             ' '.join('%s:%s' % (hx(k), ','.join(hx(x) for x in v)) for k, v in tree.items())))
        rc, out = sh(['bash', '-c', 'ulimit -s unlimited; exec "$0" "$1"', drv, fn], check=False, timeout=3600)
        if rc != 0:
            raise HarnessError('sem.native (cg) failed: ' + out[-1000:])
        res = {}
        for l in out.splitlines():
            if l.startswith('@cgr '):
                f = l.split(' ')
                res[f[1]] = set(bytes.fromhex(x).decode() for x in (f[2].split(',') if len(f) > 2 and f[2] else []) if x and x != '-')
        return res
    finally:
        shutil.rmtree(d, ignore_errors=True)


NAME_POOLS = [['draw', 'draw_sprite', 'sprite_init', 'init', 'sprite'],
              ['go', 'go_to', 'to_end', 'end', 'to'],
              ['a_b', 'a_b_c', 'b_c', 'c_x', 'a_', '_c_x'],
              ['f1', 'f11', 'f1_1', 'f_1', 'f', 'f1_f1'],
              ['main_loop', 'loop', 'main_', 'main2', 'mainloop']]


def graph_program(rng):
    """call graphs over function names that share prefixes, suffixes and underscores (identifier text
    must never be confused: two different caller/callee pairs may concatenate to the same text)"""
    names = list(rng.choice(NAME_POOLS))
    rng.shuffle(names)
    names = names[:rng.randrange(3, len(names) + 1)]
    g = {}
    # some functions are interrupt handlers (roots of the in-use set besides main); the qualifier is on the
    # definition, and on the prototype or not; a handler is not called
    handlers = [f for f in names if rng.random() < 0.25][:2]
    L = ['unsigned char v;'] + ['void %s%s();' % ('interrupt ' if f in handlers and rng.random() < 0.5 else '', f) for f in names if rng.random() < 0.8]
    for k, f in enumerate(names):
        callees = [c for c in names if c != f and c not in handlers and rng.random() < 0.4]
        if rng.random() < 0.2 and callees:
            callees.append(rng.choice(callees))
        g[f] = callees
        L.append('void %s%s() { v++; %s }' % ('interrupt ' if f in handlers else '', f, ' '.join('%s();' % c for c in callees)))
    mc = [c for c in names if c not in handlers and rng.random() < 0.5] or [x for x in names if x not in handlers][-1:]
    g['main'] = mc
    L.append('void main() { %s }' % ' '.join('%s();' % c for c in mc))
    return '\n'.join(L) + '\n', g, ['main'] + handlers


def run(ctx):
    quick = ctx.tier == 'quick'
    rng = ctx.rng
    ctx.proof_stage('Props.C12', theorems())
    n_prog = 500 if quick else 10000
    progs = {}
    for i in range(n_prog):
        progs['p%d' % i] = gen_program(rng, dict(calls=True, inline=(i % 2 == 0), max_stmts=8))
    srcs = {k: p.source() for k, p in progs.items()}
    graphs = {k: (source_graph(p), ['main']) for k, p in progs.items()}
    for i in range(400 if quick else 8000):
        src, g, roots_ = graph_program(rng)
        srcs['g%d' % i] = src
        graphs['g%d' % i] = (g, roots_)
    srcs.update(FIXED)
    graphs.update(FIXED_GRAPH)
    viol = []
    cm = []
    ncalls = 0
    nok = 0
    for O in (['-O1'] if quick else ['-O0', '-O1']):
        comp = compile_variants(srcs, {'v': [O]})
        jobs = {}
        for pid, vs in comp.items():
            r = vs['v']
            if r['status'] != 'ok' or 'tree' not in r:
                continue
            nok += 1
            tree = r['tree']
            roots = ['main'] + [f['name'] for f in r['funcs'] if f.get('interrupt')]
            jobs[pid] = (roots, tree)
        model = run_cg(jobs)
        for pid, (roots, tree) in jobs.items():
            r = comp[pid]['v']
            inuse = set(r['inuse'])
            # corr-M
            if model.get(pid) != inuse:
                cm.append({'id': pid, 'tree': tree, 'roots': roots, 'impl': sorted(inuse), 'model': sorted(model.get(pid, []))})
            # corr-S: source calls recorded; JSR targets recorded; in-use = source reachability
            g, sroots = graphs[pid]
            problems = []
            for f, callees in g.items():
                fdef = [x for x in r['funcs'] if x['name'] == f]
                if not fdef or not fdef[0].get('defined'):
                    continue
                ncalls += len(callees)
                missing = [c for c in callees if c not in tree.get(f, [])]
                # a call in a function that is itself never generated? every defined function is generated
                if missing:
                    problems.append('calls of %s to %s are not in the published call tree' % (f, sorted(set(missing))))
            for fx in r['funcs']:
                for l in fx.get('final') or []:
                    # a JSR inside an inlined body is recorded under the inlined function: the callee must
                    # be reachable from the function whose code contains it
                    if l[0] == 'I' and l[1] == 'JSR':
                        fnames = set(x['name'] for x in r['funcs'])
                        # a call into another bank jumps to the trampoline Call<name>
                        tgt = l[6][4:] if l[6].startswith('Call') and l[6] not in fnames and l[6][4:] in fnames else l[6]
                        if tgt not in reach(tree, [fx['name']]):
                            problems.append('JSR %s emitted in %s but %s is not recorded' % (l[6], fx['name'], tgt))
            want = reach(g, sroots)
            if inuse != want:
                problems.append('in-use set %s differs from the functions reachable in the source %s' % (sorted(inuse), sorted(want)))
            if problems:
                viol.append({'why': '; '.join(problems), 'program': srcs[pid], 'level': O, 'tree': tree, 'inuse': sorted(inuse)})
    ctx.cov['programs'] = len(srcs)
    ctx.cov['evaluations'] = nok
    ctx.cov['distinct_nontrivial'] = ncalls
    ctx.cov['correspondence']['corr-M in_use'] = {'programs': nok, 'mismatches': len(cm)}
    ctx.cov['correspondence']['corr-S source calls vs tree'] = {'calls_checked': ncalls, 'violations': len(viol)}
    ctx.sample({'program': FIXED['in_condition'], 'source_graph': FIXED_GRAPH['in_condition'][0]})
    for v in viol[:3]:
        ctx.violation('callgraph', v)
    if cm and not viol:
        ctx.violation_noinput('Model/CallGraph.v in_use no longer matches compute_functions_actually_in_use: %s' % json.dumps(cm[0])[:1500],
                              'corr-M:in_use')
    ctx.cov['rule'] = ('seeded programs with calls in every expression/statement position (arguments, conditions, loop headers, '
                       'returns), pure and void helpers, inline and out-of-line, plus fixed programs with prototypes, cycles, unused '
                       'functions, interrupt handlers; non-trivial = number of source-level calls checked against the tree')
    ctx.cov['trusted_base'] = ['Coq 8.16.1 kernel', 'extraction of Model/CallGraph.v', 'harness ccv', 'the source call graph computed from the generator\'s AST (tools/props/c12.py)']
    ctx.assumptions = ['that every call lowering records the call is checked on generated programs only (the generator model of generate_function_call is not in Coq)']
