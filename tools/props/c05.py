"""C05 — output is a deterministic function of source and options.

proof   : Props/C05.v on Model/Order.v: sorting the tables by their insertion counter gives one
          sequence whatever the hash-map iteration order (modelled as an arbitrary permutation),
          because the counters are distinct for every declaration history (re-declarations keep
          their rank); the old length-based re-insertion is refuted by a two-permutation witness
corr-M  : the ranks observed through sorted_variables()/sorted_functions() for histories of
          prototypes / definitions / parameters equal the model's first-declaration order
corr-S  : every program is compiled 12 times in one process (fresh hash seeds per compilation) and in
          fresh processes, interleaved with other programs; full dumps (variables, literals,
          functions, emitted text, diagnostics) must be identical
partial : the hash seed itself is outside any model; it is sampled, not quantified
"""
import re
from lib.common import *
from lib.gen_c import gen_program
import os

LEVEL = 'proof'


def theorems():
    p = os.path.join(COQ, 'Props', 'C05.v')
    return re.findall(r'^Theorem (\w+)', open(p).read(), re.M) if os.path.exists(p) else []


def decl_history(rng):
    """a program built from a random history of prototypes and definitions; returns (src, expected function order,
    expected variable order)"""
    names = ['f%d' % i for i in range(rng.randrange(2, 6))]
    hist = []
    defined = set()
    protod = set()
    order = []
    for _ in range(rng.randrange(len(names), 3 * len(names))):
        f = rng.choice(names)
        if f in defined:
            continue
        if f in protod or rng.random() < 0.5:
            hist.append(('def', f))
            defined.add(f)
        else:
            hist.append(('proto', f))
            protod.add(f)
        if f not in order:
            order.append(f)
    for f in names:
        if f in protod and f not in defined:
            hist.append(('def', f))
            defined.add(f)
    nparams = {f: rng.randrange(0, 3) for f in names}
    lines = ['char g0, g1;']
    gi = 2
    for kind, f in hist:
        ps = ', '.join('char %s_a%d' % (f, i) for i in range(nparams[f]))
        if kind == 'proto':
            lines.append('void %s(%s);' % (f, ps))
        else:
            lines.append('void %s(%s) { g0++; }' % (f, ps))
        if rng.random() < 0.4:
            lines.append('char g%d;' % gi)
            gi += 1
    lines.append('void main() { %s }' % ' '.join('%s(%s);' % (f, ', '.join('1' for _ in range(nparams[f]))) for f in order if f in defined))
    return '\n'.join(lines) + '\n', [f for f in order] + ['main']


LITERAL_PROGRAMS = {
    'two_literals': 'char *p; char *q; void f(char *x, char *y) { p = x; q = y; } void main() { f("x", "yy"); }',
    'three_literals': 'char *p; void f(char *x, char *y, char *z) { p = x; p = y; p = z; } void main() { f("a", "bb", "ccc"); f("dddd", "e", "ff"); }',
    'interrupts': 'char a, b; void interrupt nmi() { a++; } void interrupt irq() { b++; } void t() { a = b; } void main() { t(); }',
    # names the compiler generates next to names of the program (insertion ranks must stay distinct)
    'local_suffix': 'void main() { { char x; x = 1; } { char x_0; char x; x = 2; x_0 = 3; char z; z = 4; } }',
    'local_suffix2': 'void main() { { char x; x = 1; } { char x; x = 2; } { char x_1; char x; x = 3; x_1 = 4; char z; z = 5; } }',
    'literal_calls': 'char c; char f(char *p) { return p[Y]; } char g(char *p) { return p[Y]; } void main() { c = f("ab") + g("cd"); c = f(("ef")); }',
    'many_interrupts': 'char a, b, c; void tick() { a++; } void tock() { b++; } void tack() { c++; } void interrupt nmi() { tick(); } void interrupt irq() { tock(); } void interrupt brk() { tack(); } void main() { a = 1; }',
}


def literal_program(rng):
    """several string literals per expression, contents often identical (the tables of one expression
    are created from a hash map: their order must not depend on its iteration order)"""
    pool = ['same', 'same', 'same', 'a', 'ab', '', 'x y', 'same ']
    lit = lambda: '"%s"' % rng.choice(pool)
    L = ['char *p; char *q; char *r3; unsigned char c;',
         'void f2(char *x, char *y) { p = x; q = y; }',
         'void f3(char *x, char *y, char *z) { p = x; q = y; r3 = z; }']
    if rng.random() < 0.5:
        n = rng.randrange(2, 5)
        L.append('const char *tab[%d] = {%s};' % (n, ', '.join(lit() for _ in range(n))))
    body = []
    for _ in range(rng.randrange(1, 5)):
        k = rng.randrange(4)
        if k == 0:
            body.append('f2(%s, %s);' % (lit(), lit()))
        elif k == 1:
            body.append('f3(%s, %s, %s);' % (lit(), lit(), lit()))
        elif k == 2:
            body.append('p = c ? %s : %s;' % (lit(), lit()))
        else:
            body.append('q = %s;' % lit())
    L.append('void main() { %s }' % ' '.join(body))
    return '\n'.join(L) + '\n'


# erroneous programs with SEVERAL faults of one kind: which one is reported (message and line) is part of the output
_L4 = ['first', 'second', 'third', 'fourth', 'fifth', 'sixth']
ERROR_PROGRAMS = {
    # a function named like a literal table (refused since c09ff6c; before: two outputs for one source)
    'err_cctmp_function': 'char *p; char *q; void cctmp0() {} void main() { p = "a"; q = "b"; cctmp0(); }\n',
    'err_cctmp_function2': 'char *p; void cctmp1() {} void cctmp() {} void main() { p = "a"; cctmp1(); p = "b"; }\n',
    'err_dup_labels': 'void main() {\n' + ''.join('%s: X++;\n' % l for l in _L4) + ''.join('%s: Y++;\n' % l for l in reversed(_L4)) + '}\n',
    'err_dup_labels3': 'void main() {\n' + ''.join('%s: X++;\n%s: Y++;\n' % (l, l) for l in _L4) + '}\n',
    'err_unknown_gotos': 'void main() {\n' + ''.join('if (X) goto %s;\n' % l for l in _L4) + '}\n',
    'err_unknown_gotos_fns': ''.join('void f%d() {\nif (X) goto %s;\nif (Y) goto %s_b;\n}\n' % (i, l, l) for i, l in enumerate(_L4)) + 'void main() { f0(); f1(); f2(); f3(); }\n',
    'err_dup_and_unknown': 'void main() {\n' + ''.join('%s: X++;\n' % l for l in _L4) + ''.join('goto %s_x;\n%s: Y++;\n' % (l, l) for l in _L4) + '}\n',
    'err_unknown_ids': 'char a;\n' + ''.join('void f%d() {\na = %s;\n}\n' % (i, l) for i, l in enumerate(_L4)) + 'void main() { f0(); }\n',
    'err_unknown_ids_one_fn': 'char a;\nvoid main() {\n' + ''.join('a = %s + %s_b;\n' % (l, l) for l in _L4) + '}\n',
    'err_dup_vars': ''.join('char %s;\n' % l for l in _L4) + ''.join('char %s;\n' % l for l in reversed(_L4)) + 'void main() { }\n',
    'err_dup_locals': 'void main() {\n' + ''.join('char %s;\n' % l for l in _L4) + ''.join('char %s;\n' % l for l in reversed(_L4)) + '}\n',
    'err_dup_fns': ''.join('void %s() { X++; }\n' % l for l in _L4) + ''.join('void %s() { Y++; }\n' % l for l in reversed(_L4)) + 'void main() { }\n',
    'err_unknown_fns': 'void main() {\n' + ''.join('%s();\n' % l for l in _L4) + '}\n',
    'err_inline_before_def': ''.join('inline void %s();\n' % l for l in _L4) + 'void main() {\n' + ''.join('%s();\n' % l for l in _L4) + '}\n' + ''.join('inline void %s() { X++; }\n' % l for l in _L4),
    'err_arity': ''.join('void %s(char p) { X = p; }\n' % l for l in _L4) + 'void main() {\n' + ''.join('%s(1, 2);\n' % l for l in _L4) + '}\n',
    'err_macro_redefined': ''.join('#define %s 1\n' % l.upper() for l in _L4) + ''.join('#define %s 2\n' % l.upper() for l in reversed(_L4)) + 'void main() { }\n',
    'err_missing_includes': ''.join('#include "%s.h"\n' % l for l in _L4) + 'void main() { }\n',
    'err_const_assign': ''.join('const char %s = 1;\n' % l for l in _L4) + 'void main() {\n' + ''.join('%s = 2;\n' % l for l in _L4) + '}\n',
    'err_case_twice': 'char a;\nvoid main() {\nswitch (a) {\n' + ''.join('case %d: X++;\n' % i for i in (1, 2, 3, 4)) + ''.join('case %d: Y++;\n' % i for i in (4, 3, 2, 1)) + '}\n}\n',
    'err_break_outside': 'void f0() { break; }\nvoid f1() { continue; }\nvoid f2() { break; }\nvoid main() { continue; }\n',
    'err_void_values': 'char a;\n' + ''.join('void %s() { X++; }\n' % l for l in _L4) + 'void main() {\n' + ''.join('a = %s();\n' % l for l in _L4) + '}\n',
    'err_interrupts': ''.join('void interrupt %s() { X++; %s_x = 1; }\n' % (l, l) for l in _L4) + 'void main() { }\n',
}


def canon(r):
    """everything observable of one compilation"""
    return json.dumps({k: r.get(k) for k in ('status', 'err', 'vars', 'funcs', 'tree', 'inuse', 'lits', 'pp', 'map')}, sort_keys=True)


def run(ctx):
    quick = ctx.tier == 'quick'
    rng = ctx.rng
    th = theorems()
    if th:
        ctx.proof_stage('Props.C05', th)
    n_prog = 200 if quick else 4000
    srcs = {}
    expected_forder = {}
    for i in range(n_prog):
        if i % 2 == 0:
            s, fo = decl_history(rng)
            srcs['h%d' % i] = s
            expected_forder['h%d' % i] = fo
        else:
            srcs['p%d' % i] = gen_program(rng, dict(calls=True, inline=(i % 4 == 1), hw=(i % 3 == 0))).source()
    for i in range(60 if quick else 1500):
        srcs['l%d' % i] = literal_program(rng)
    srcs.update(LITERAL_PROGRAMS)
    srcs.update(ERROR_PROGRAMS)
    keys = list(srcs.keys())
    want = ['vars', 'funcs', 'text', 'lits', 'pp', 'map']
    viol = []
    cm = []
    # in one process, 12 compilations each, programs interleaved in shuffled order
    order1 = keys[:]
    rng.shuffle(order1)
    jobs = ''.join(compile_job(k, srcs[k], args=['-O1'], want=want, repeat=12) for k in order1)
    res1 = dict(zip(order1, run_ccv(jobs, tag='rep1')))
    # a fresh process, another order, single compilation each
    order2 = keys[:]
    rng.shuffle(order2)
    nfresh = 3 if quick else 6
    fresh = []
    for _ in range(nfresh):
        rng.shuffle(order2)
        jobs = ''.join(compile_job(k, srcs[k], args=['-O1'], want=want) for k in order2)
        fresh.append(dict(zip(order2, run_ccv(jobs, tag='fresh', threads=1 + rng.randrange(NCPU)))))
    # one worker thread, every compilation under its own input name: nothing of an earlier compilation (its
    # file name, its macros, its literals) may show up in a later one
    ekeys = [k for k in keys if k in ERROR_PROGRAMS] + [k for k in keys if k.startswith('h')][:20]
    rng.shuffle(ekeys)
    named = {k: 'unit_%d.c' % i for i, k in enumerate(ekeys)}
    # (the harness compiles an erroneous unit `previous_<i>.c` on the SAME thread right before each of them)
    jobs = ''.join(compile_job(k, srcs[k], args=['-O1'], want=want, name=named[k], prename='previous_%d.c' % i) for i, k in enumerate(ekeys))
    seq = dict(zip(ekeys, run_ccv(jobs, tag='seq', threads=1)))
    for k in ekeys:
        r = seq[k]
        e = r.get('err') or {}
        if r.get('status') == 'err' and e.get('file') not in (None, named[k]) and not str(e.get('file')).endswith('.h'):
            viol.append({'why': 'a diagnostic names the input of ANOTHER compilation of the same process: %s (this one is %s)' % (e.get('file'), named[k]),
                         'program': srcs[k], 'status_1': (r.get('status'), e)})
        b = dict(res1[k])
        b.pop('repeat_same', None)
        b.pop('other', None)
        if canon(r).replace(named[k], 'main.c') != canon(b):
            viol.append({'why': 'the result depends on what the same thread compiled before (or on the input name)', 'program': srcs[k],
                         'status_1': (r.get('status'), r.get('err')), 'status_2': (b.get('status'), b.get('err'))})
    ncomp = 0
    for k in keys:
        r = res1[k]
        ncomp += 12 + nfresh
        if r.get('repeat_same') is False:
            a = {x: r.get(x) for x in ('vars', 'funcs')}
            b = {x: r['other'].get(x) for x in ('vars', 'funcs')}
            viol.append({'why': 'two compilations of the same source in one process differ', 'program': srcs[k],
                         'status_1': (r.get('status'), r.get('err')), 'status_2': (r['other'].get('status'), r['other'].get('err')),
                         'variables_1': [v['name'] for v in r.get('vars', [])], 'variables_2': [v['name'] for v in r['other'].get('vars', [])],
                         'functions_1': [f['name'] for f in r.get('funcs', [])], 'functions_2': [f['name'] for f in r['other'].get('funcs', [])]})
            continue
        base = dict(r)
        base.pop('repeat_same', None)
        for fr in fresh:
            if canon(fr[k]) != canon(base):
                viol.append({'why': 'a fresh process produced a different result for the same source and options', 'program': srcs[k],
                             'functions_1': [f['name'] for f in base.get('funcs', [])], 'functions_2': [f['name'] for f in fr[k].get('funcs', [])],
                             'variables_1': [v['name'] for v in base.get('vars', [])], 'variables_2': [v['name'] for v in fr[k].get('vars', [])]})
                break
        # corr-M: function ranks = first-declaration order (Model/Order.v build_sorted_is_first_declaration_order)
        if k in expected_forder and r['status'] == 'ok':
            got = [f['name'] for f in r['funcs']]
            if got != expected_forder[k]:
                cm.append({'program': srcs[k], 'impl_order': got, 'model_order': expected_forder[k]})
    ctx.cov['programs'] = len(keys)
    ctx.cov['evaluations'] = ncomp
    ctx.cov['distinct_nontrivial'] = len(expected_forder)
    ctx.cov['correspondence']['corr-S repeated compilations'] = {'programs': len(keys), 'compilations': ncomp, 'different': len(viol),
                                                                  'fresh_processes': nfresh}
    ctx.cov['correspondence']['corr-M declaration order'] = {'histories': len(expected_forder), 'mismatches': len(cm)}
    ctx.sample({'history_program': srcs[keys[0]][:500], 'expected_function_order': expected_forder.get(keys[0])})
    for v in viol[:3]:
        ctx.violation('nondet', v)
    if cm and not viol:
        # order differs from first-declaration order but is stable across runs: the model no longer
        # describes the code; no nondeterminism exhibited
        ctx.violation_noinput('function ranks differ from the first-declaration order of Model/Order.v: %s' % json.dumps(cm[0])[:1500],
                              'corr-M:order')
    ctx.cov['rule'] = ('histories of prototypes/definitions/parameters/globals (seeded), generated programs, programs with several string '
                       'literals per expression and interrupt handlers; each compiled 12x in-process and in %d fresh processes, '
                       'interleaved in shuffled orders; non-trivial = declaration histories with re-declarations' % nfresh)
    ctx.cov['trusted_base'] = ['Coq 8.16.1 kernel', 'harness ccv (its JSON dump iterates sorted_variables()/sorted_functions() and sorts the call tree keys itself)',
                               'std::collections::HashMap RandomState: new keys per map instance and per thread']
    ctx.assumptions = ['hash seeds are sampled (12 + %d per program), not quantified: partial' % nfresh]
