(** C17 — split-port cartridge RAM is read and written through the right ports.  Statements on
    Model/AsmSel.v (compared exhaustively with asm()) and on the split-port memory of M6502/Sem.v. *)
From Coq Require Import String Ascii List Bool NArith ZArith Lia.
From CC Require Import Base.Str Asm.Lines M6502.Isa Asm.Operand M6502.Sem Model.AsmSel.
Import ListNotations.
Open Scope Z_scope.

(** the address offset asm() applies: stores get the write port, everything else the read port *)
Theorem C17_port_offsets : forall sch m,
  port_offset sch MSuperchip m = (if is_st m then 0 else 128) /\
  port_offset S3E MOnChip m = (if is_st m then 1024 else 0) /\
  port_offset S3EP MOnChip m = (if is_st m then 512 else 0) /\
  port_offset SOther MOnChip m = 0 /\
  port_offset sch MZeropage m = 0 /\ port_offset sch MOther m = 0.
Proof. intros sch m. destruct sch, m; repeat split; reflexivity. Qed.

(** the offset really reaches the emitted operand of a plain (8-bit, low byte) access to a char:
    "v+off" with off = requested offset + port offset *)
Theorem C17_char_access_offset : forall sch m name (c sg : bool) sz ad off,
  asm_sel sch m (EAbsolute (mkVar name VChar c sg MSuperchip sz ad) true off) false
  = AEmit m sg (mkE (PMem name (off + (if is_st m then 0 else 128)) IxNone false) 3%N (base_cyc m + 2)%N None).
Proof. intros. unfold asm_sel. cbn. destruct m; reflexivity. Qed.

(** indexed accesses to a superchip array *)
Theorem C17_indexed_offset : forall sch m name (sg : bool) sz ad,
  match asm_sel sch m (EAbsoluteX (mkVar name VCharPtr true sg MSuperchip sz ad)) false with
  | AEmit _ _ e => e_op e = PMem name (if is_st m then 0 else 128) IxX false
  | ANoEmit _ => False
  | AErr _ => True
  end.
Proof. intros. unfold asm_sel. cbn. destruct m; cbn; try exact I; reflexivity. Qed.

(** the memory model: superchip ports.  A byte stored through the write address is what a load
    through the read address (+$80) returns; a load from a write address or a store to a read
    address faults; so does any read-modify-write *)
Definition superchip_ports : list port := [(4096, 4224, 128)].

Theorem C17_write_then_read : forall a, 4096 <= a < 4224 ->
  write_addr superchip_ports a = Some a /\ read_addr superchip_ports (a + 128) = Some a.
Proof.
  intros a H. unfold superchip_ports, write_addr, read_addr, in_range.
  replace (4224 <=? a) with false by (symmetry; apply Z.leb_gt; lia).
  replace (4096 <=? a) with true by (symmetry; apply Z.leb_le; lia).
  replace (a <? 4096 + 128) with true by (symmetry; apply Z.ltb_lt; lia).
  replace (4096 <=? a + 128) with true by (symmetry; apply Z.leb_le; lia).
  replace (a + 128 <? 4096 + 128) with false by (symmetry; apply Z.ltb_ge; lia).
  replace (4224 <=? a + 128) with true by (symmetry; apply Z.leb_le; lia).
  replace (a + 128 <? 4224 + 128) with true by (symmetry; apply Z.ltb_lt; lia).
  cbn. split; [reflexivity | f_equal; lia].
Qed.

Theorem C17_wrong_port_faults : forall a, 4096 <= a < 4224 ->
  read_addr superchip_ports a = None /\ write_addr superchip_ports (a + 128) = None.
Proof.
  intros a H. unfold superchip_ports, write_addr, read_addr, in_range.
  replace (4096 <=? a) with true by (symmetry; apply Z.leb_le; lia).
  replace (a <? 4096 + 128) with true by (symmetry; apply Z.ltb_lt; lia).
  replace (4224 <=? a + 128) with true by (symmetry; apply Z.leb_le; lia).
  replace (a + 128 <? 4224 + 128) with true by (symmetry; apply Z.ltb_lt; lia).
  cbn. split; reflexivity.
Qed.

(** ordinary memory is unaffected by the port description *)
Theorem C17_ordinary_unaffected : forall a, 0 <= a < 4096 ->
  read_addr superchip_ports a = Some a /\ write_addr superchip_ports a = Some a.
Proof.
  intros a H. unfold superchip_ports, write_addr, read_addr, in_range.
  replace (4096 <=? a) with false by (symmetry; apply Z.leb_gt; lia).
  replace (4224 <=? a) with false by (symmetry; apply Z.leb_gt; lia).
  cbn. split; reflexivity.
Qed.
