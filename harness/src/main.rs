// ccv: verification harness linked against /repo's working tree.
//
// usage: ccv <jobfile> <outfile> [threads]
//
// The job file is a sequence of records.  A record starts with a line "@<kind> <id> ..." and ends
// with "@end".  Free text is hex encoded.  One JSON object per record is written to <outfile>
// (one per line, in job order).
//
//   @unit <id> <op>          op: opt | cb | optcb | append:<n> | size
//     I <MNEMONIC> <protected 0|1> <nb_bytes> <cycles> <alt|-> <operand-hex|->
//     L <hex> | N <size> <hex> | C <hex> | D
//   @compile <id>
//     arg <hex>              extra command line argument (repeatable)
//     file <hexname> <hexcontent>   auxiliary file written to the job's scratch include dir
//     src <hexcontent>
//     want <w1,w2,...>       pp,map,lits,vars,funcs,code,text,tree,inuse,probe
//     repeat <n>             compile n times, report whether all dumps are identical
//     probe <MNEMONIC> <kind> <var-hex|-> <eight_bits 0|1> <int> <high 0|1> <scheme> <prot 0|1>
//   @cpp <id>                preprocessor alone (hook)
//     def <hexname> <hexvalue>
//     file <hexname> <hexcontent>
//     name <hex>
//     src <hex>

use cc6502::assemble::{AsmInstruction, AsmMnemonic, AssemblyCode};
use cc6502::compile::{compile, CompilerState, VariableDefinition, VariableValue};
use cc6502::error::Error;
use cc6502::generate::GeneratorState;
use cc6502::Args;
use clap::Parser;
use std::cell::RefCell;
use std::fmt::Write as FmtWrite;
use std::io::Write;
use std::panic::{catch_unwind, AssertUnwindSafe};
use std::sync::mpsc;
use std::sync::{Arc, Mutex};
use std::time::Duration;

// ---------------------------------------------------------------- small helpers

fn unhex(s: &str) -> Vec<u8> {
    if s == "-" {
        return Vec::new();
    }
    let b = s.as_bytes();
    let mut v = Vec::with_capacity(b.len() / 2);
    let mut i = 0;
    while i + 1 < b.len() {
        let h = (b[i] as char).to_digit(16).unwrap_or(0);
        let l = (b[i + 1] as char).to_digit(16).unwrap_or(0);
        v.push((h * 16 + l) as u8);
        i += 2;
    }
    v
}

fn unhex_s(s: &str) -> String {
    String::from_utf8_lossy(&unhex(s)).to_string()
}

fn jstr(s: &str) -> String {
    let mut o = String::with_capacity(s.len() + 2);
    o.push('"');
    for c in s.chars() {
        match c {
            '"' => o.push_str("\\\""),
            '\\' => o.push_str("\\\\"),
            '\n' => o.push_str("\\n"),
            '\r' => o.push_str("\\r"),
            '\t' => o.push_str("\\t"),
            c if (c as u32) < 0x20 => {
                let _ = write!(o, "\\u{:04x}", c as u32);
            }
            c => o.push(c),
        }
    }
    o.push('"');
    o
}

fn mnemonic_of(s: &str) -> Option<AsmMnemonic> {
    use AsmMnemonic::*;
    Some(match s {
        "LDA" => LDA,
        "LDX" => LDX,
        "LDY" => LDY,
        "STA" => STA,
        "STX" => STX,
        "STY" => STY,
        "TAX" => TAX,
        "TAY" => TAY,
        "TXA" => TXA,
        "TYA" => TYA,
        "ADC" => ADC,
        "SBC" => SBC,
        "EOR" => EOR,
        "AND" => AND,
        "ORA" => ORA,
        "LSR" => LSR,
        "ASL" => ASL,
        "ROL" => ROL,
        "ROR" => ROR,
        "CLC" => CLC,
        "SEC" => SEC,
        "CMP" => CMP,
        "CPX" => CPX,
        "CPY" => CPY,
        "BCC" => BCC,
        "BCS" => BCS,
        "BEQ" => BEQ,
        "BMI" => BMI,
        "BNE" => BNE,
        "BPL" => BPL,
        "INC" => INC,
        "INX" => INX,
        "INY" => INY,
        "DEC" => DEC,
        "DEX" => DEX,
        "DEY" => DEY,
        "JMP" => JMP,
        "JSR" => JSR,
        "RTS" => RTS,
        "RTI" => RTI,
        "PHA" => PHA,
        "PLA" => PLA,
        "PHP" => PHP,
        "PLP" => PLP,
        "NOP" => NOP,
        _ => return None,
    })
}

// ---------------------------------------------------------------- Debug-dump parser

#[derive(Clone, Debug)]
enum Line {
    I(String, bool, u32, u32, Option<u32>, String), // mnemonic protected nb_bytes cycles alt operand
    L(String),
    N(u32, String),
    C(String),
    D,
}

struct P<'a> {
    b: &'a [u8],
    i: usize,
}

impl<'a> P<'a> {
    fn ws(&mut self) {
        while self.i < self.b.len() && (self.b[self.i] == b' ' || self.b[self.i] == b'\n') {
            self.i += 1;
        }
    }
    fn eat(&mut self, s: &str) -> bool {
        self.ws();
        if self.b[self.i..].starts_with(s.as_bytes()) {
            self.i += s.len();
            true
        } else {
            false
        }
    }
    fn expect(&mut self, s: &str) -> Result<(), String> {
        if self.eat(s) {
            Ok(())
        } else {
            Err(format!("expected {:?} at {}", s, self.i))
        }
    }
    fn ident(&mut self) -> String {
        self.ws();
        let st = self.i;
        while self.i < self.b.len()
            && (self.b[self.i].is_ascii_alphanumeric() || self.b[self.i] == b'_')
        {
            self.i += 1;
        }
        String::from_utf8_lossy(&self.b[st..self.i]).to_string()
    }
    fn num(&mut self) -> Result<u32, String> {
        let s = self.ident();
        s.parse::<u32>().map_err(|e| format!("num {:?}: {}", s, e))
    }
    // Rust Debug string literal
    fn string(&mut self) -> Result<String, String> {
        self.expect("\"")?;
        let mut out = Vec::<u8>::new();
        loop {
            if self.i >= self.b.len() {
                return Err("unterminated string".into());
            }
            let c = self.b[self.i];
            self.i += 1;
            match c {
                b'"' => break,
                b'\\' => {
                    let d = self.b[self.i];
                    self.i += 1;
                    match d {
                        b'n' => out.push(b'\n'),
                        b'r' => out.push(b'\r'),
                        b't' => out.push(b'\t'),
                        b'0' => out.push(0),
                        b'\\' => out.push(b'\\'),
                        b'"' => out.push(b'"'),
                        b'\'' => out.push(b'\''),
                        b'u' => {
                            // \u{XXXX}
                            self.i += 1; // {
                            let st = self.i;
                            while self.b[self.i] != b'}' {
                                self.i += 1;
                            }
                            let hex = std::str::from_utf8(&self.b[st..self.i]).unwrap();
                            self.i += 1;
                            let cp = u32::from_str_radix(hex, 16).map_err(|e| e.to_string())?;
                            let ch = char::from_u32(cp).unwrap_or('?');
                            let mut buf = [0u8; 4];
                            out.extend_from_slice(ch.encode_utf8(&mut buf).as_bytes());
                        }
                        _ => return Err(format!("bad escape \\{}", d as char)),
                    }
                }
                c => out.push(c),
            }
        }
        Ok(String::from_utf8_lossy(&out).to_string())
    }
}

fn parse_code_debug(s: &str) -> Result<Vec<Line>, String> {
    let mut p = P {
        b: s.as_bytes(),
        i: 0,
    };
    p.expect("AssemblyCode")?;
    p.expect("{")?;
    p.expect("code:")?;
    p.expect("[")?;
    let mut v = Vec::new();
    loop {
        if p.eat("]") {
            break;
        }
        let k = p.ident();
        match k.as_str() {
            "Label" => {
                p.expect("(")?;
                let s = p.string()?;
                p.expect(")")?;
                v.push(Line::L(s));
            }
            "Comment" => {
                p.expect("(")?;
                let s = p.string()?;
                p.expect(")")?;
                v.push(Line::C(s));
            }
            "Inline" => {
                p.expect("(")?;
                let s = p.string()?;
                p.expect(",")?;
                let n = p.num()?;
                p.expect(")")?;
                v.push(Line::N(n, s));
            }
            "Dummy" => v.push(Line::D),
            "Instruction" => {
                p.expect("(")?;
                p.expect("AsmInstruction")?;
                p.expect("{")?;
                p.expect("mnemonic:")?;
                let m = p.ident();
                p.expect(",")?;
                p.expect("dasm_operand:")?;
                let o = p.string()?;
                p.expect(",")?;
                p.expect("cycles:")?;
                let c = p.num()?;
                p.expect(",")?;
                p.expect("cycles_alt:")?;
                let alt = if p.eat("None") {
                    None
                } else {
                    p.expect("Some")?;
                    p.expect("(")?;
                    let a = p.num()?;
                    p.expect(")")?;
                    Some(a)
                };
                p.expect(",")?;
                p.expect("nb_bytes:")?;
                let nb = p.num()?;
                p.expect(",")?;
                p.expect("protected:")?;
                let pr = p.ident() == "true";
                p.expect("}")?;
                p.expect(")")?;
                v.push(Line::I(m, pr, nb, c, alt, o));
            }
            _ => return Err(format!("unknown line kind {:?} at {}", k, p.i)),
        }
        p.eat(",");
    }
    Ok(v)
}

fn lines_json(v: &[Line]) -> String {
    let mut o = String::from("[");
    for (k, l) in v.iter().enumerate() {
        if k > 0 {
            o.push(',');
        }
        match l {
            Line::I(m, p, nb, c, alt, op) => {
                let _ = write!(
                    o,
                    "[\"I\",{},{},{},{},{},{}]",
                    jstr(m),
                    if *p { 1 } else { 0 },
                    nb,
                    c,
                    match alt {
                        Some(a) => a.to_string(),
                        None => "null".to_string(),
                    },
                    jstr(op)
                );
            }
            Line::L(s) => {
                let _ = write!(o, "[\"L\",{}]", jstr(s));
            }
            Line::N(n, s) => {
                let _ = write!(o, "[\"N\",{},{}]", n, jstr(s));
            }
            Line::C(s) => {
                let _ = write!(o, "[\"C\",{}]", jstr(s));
            }
            Line::D => o.push_str("[\"D\"]"),
        }
    }
    o.push(']');
    o
}

fn code_lines(c: &AssemblyCode) -> Vec<Line> {
    match parse_code_debug(&format!("{:?}", c)) {
        Ok(v) => v,
        Err(e) => vec![Line::C(format!("HARNESS-PARSE-ERROR {}", e))],
    }
}

fn build_code(v: &[Line]) -> Result<AssemblyCode, String> {
    let mut c = AssemblyCode::new();
    for l in v {
        match l {
            Line::I(m, p, nb, cy, alt, op) => c.append_asm(AsmInstruction {
                mnemonic: mnemonic_of(m).ok_or_else(|| format!("bad mnemonic {}", m))?,
                dasm_operand: op.clone(),
                cycles: *cy,
                cycles_alt: *alt,
                nb_bytes: *nb,
                protected: *p,
            }),
            Line::L(s) => c.append_label(s.clone()),
            Line::N(n, s) => c.append_inline(s.clone(), Some(*n)),
            Line::C(s) => c.append_comment(s.clone()),
            Line::D => {
                c.append_dummy();
            }
        }
    }
    Ok(c)
}

// ---------------------------------------------------------------- jobs

#[derive(Clone, Debug, Default)]
struct Job {
    kind: String,
    id: String,
    op: String,
    lines: Vec<Line>,
    args: Vec<String>,
    files: Vec<(String, Vec<u8>)>,
    src: Vec<u8>,
    want: Vec<String>,
    repeat: u32,
    probes: Vec<Vec<String>>,
    defs: Vec<(String, String)>,
    name: String,
    // compile this erroneous text first, on the same thread, under this other input name (C05: nothing of an
    // earlier compilation may show up in a later one)
    prename: String,
}

fn parse_jobs(text: &str) -> Vec<Job> {
    let mut jobs = Vec::new();
    let mut cur: Option<Job> = None;
    for l in text.lines() {
        if l.is_empty() {
            continue;
        }
        if let Some(rest) = l.strip_prefix('@') {
            if rest == "end" {
                if let Some(j) = cur.take() {
                    jobs.push(j);
                }
                continue;
            }
            let mut it = rest.split(' ');
            let mut j = Job::default();
            j.kind = it.next().unwrap_or("").to_string();
            j.id = it.next().unwrap_or("").to_string();
            j.op = it.next().unwrap_or("").to_string();
            j.repeat = 1;
            j.name = "main.c".to_string();
            cur = Some(j);
            continue;
        }
        let j = match cur.as_mut() {
            Some(j) => j,
            None => continue,
        };
        let f: Vec<&str> = l.split(' ').collect();
        match f[0] {
            "I" => j.lines.push(Line::I(
                f[1].to_string(),
                f[2] == "1",
                f[3].parse().unwrap_or(0),
                f[4].parse().unwrap_or(0),
                if f[5] == "-" {
                    None
                } else {
                    f[5].parse().ok()
                },
                unhex_s(f[6]),
            )),
            "L" => j.lines.push(Line::L(unhex_s(f[1]))),
            "N" => j
                .lines
                .push(Line::N(f[1].parse().unwrap_or(3), unhex_s(f[2]))),
            "C" => j.lines.push(Line::C(unhex_s(f[1]))),
            "D" => j.lines.push(Line::D),
            "arg" => j.args.push(unhex_s(f[1])),
            "file" => j.files.push((unhex_s(f[1]), unhex(f[2]))),
            "src" => j.src = unhex(f[1]),
            "want" => j.want = f[1].split(',').map(|s| s.to_string()).collect(),
            "repeat" => j.repeat = f[1].parse().unwrap_or(1),
            "probe" => j.probes.push(f[1..].iter().map(|s| s.to_string()).collect()),
            "def" => j.defs.push((unhex_s(f[1]), unhex_s(f[2]))),
            "name" => j.name = unhex_s(f[1]),
            "prename" => j.prename = unhex_s(f[1]),
            _ => {}
        }
    }
    jobs
}

fn run_unit(j: &Job) -> String {
    let mut c = match build_code(&j.lines) {
        Ok(c) => c,
        Err(e) => return format!("{{\"id\":{},\"status\":\"bad\",\"msg\":{}}}", jstr(&j.id), jstr(&e)),
    };
    let mut ret: Vec<u32> = Vec::new();
    let op = j.op.as_str();
    if op == "opt" {
        ret.push(c.optimize());
    } else if op == "cb" {
        ret.push(c.check_branches());
    } else if op == "optcb" {
        ret.push(c.optimize());
        ret.push(c.check_branches());
    } else if let Some(n) = op.strip_prefix("append:") {
        let mut d = AssemblyCode::new();
        d.append_code(&c, n.parse().unwrap_or(0));
        c = d;
    } else if op == "size" {
    }
    let size = c.size_bytes();
    let mut text = Vec::new();
    let _ = c.write(&mut text, false);
    format!(
        "{{\"id\":{},\"status\":\"ok\",\"ret\":{:?},\"size\":{},\"lines\":{},\"text\":{}}}",
        jstr(&j.id),
        ret,
        size,
        lines_json(&code_lines(&c)),
        jstr(&String::from_utf8_lossy(&text))
    )
}

thread_local! {
    static JOB: RefCell<Job> = RefCell::new(Job::default());
    static PANIC_LOC: RefCell<String> = RefCell::new(String::new());
}

fn err_json(e: &Error) -> String {
    match e {
        Error::Io(e) => format!("{{\"kind\":\"io\",\"msg\":{}}}", jstr(&e.to_string())),
        Error::Syntax {
            filename,
            included_in,
            line,
            msg,
        } => format!(
            "{{\"kind\":\"syntax\",\"file\":{},\"line\":{},\"inc\":{},\"msg\":{}}}",
            jstr(filename),
            line,
            match included_in {
                Some((f, l)) => format!("[{},{}]", jstr(f), l),
                None => "null".into(),
            },
            jstr(msg)
        ),
        Error::Compiler {
            filename,
            included_in,
            line,
            msg,
        } => format!(
            "{{\"kind\":\"compiler\",\"file\":{},\"line\":{},\"inc\":{},\"msg\":{}}}",
            jstr(filename),
            line,
            match included_in {
                Some((f, l)) => format!("[{},{}]", jstr(f), l),
                None => "null".into(),
            },
            jstr(msg)
        ),
        Error::Unimplemented { feature } => {
            format!("{{\"kind\":\"unimplemented\",\"msg\":{}}}", jstr(feature))
        }
        Error::Configuration { error } => {
            format!("{{\"kind\":\"configuration\",\"msg\":{}}}", jstr(error))
        }
    }
}

fn vv_json(v: &VariableValue) -> String {
    match v {
        VariableValue::Int(i) => format!("{}", i),
        VariableValue::LowPtr((s, o)) => format!("[\"lo\",{},{}]", jstr(s), o),
        VariableValue::HiPtr((s, o)) => format!("[\"hi\",{},{}]", jstr(s), o),
    }
}

// The builder callback: mirrors src/tests/build.rs::simple_build's generation loop and dumps
// every observable into the writer as the body of a JSON object.
fn builder(cs: &CompilerState, writer: &mut dyn Write, args: &Args) -> Result<(), Error> {
    let job = JOB.with(|j| j.borrow().clone());
    let want = |w: &str| job.want.iter().any(|x| x == w);
    let mut o = String::new();
    let scheme: &str = if cs.context.get_macro("__3E__").is_some() {
        "3E"
    } else if cs.context.get_macro("__3E_PLUS__").is_some() {
        "3EP"
    } else {
        "4K"
    };
    if want("pp") {
        let _ = write!(o, ",\"pp\":{}", jstr(cs.preprocessed_utf8));
    }
    if want("map") {
        o.push_str(",\"map\":[");
        for (k, m) in cs.mapped_lines.iter().enumerate() {
            if k > 0 {
                o.push(',');
            }
            let _ = write!(
                o,
                "[{},{},{}]",
                jstr(&m.0),
                m.1,
                match &m.2 {
                    Some((f, l)) => format!("[{},{}]", jstr(f), l),
                    None => "null".into(),
                }
            );
        }
        o.push(']');
    }
    if want("lits") {
        o.push_str(",\"lits\":[");
        for (k, m) in cs.context.literal_strings.iter().enumerate() {
            if k > 0 {
                o.push(',');
            }
            o.push_str(&jstr(m));
        }
        o.push(']');
    }
    if want("vars") {
        o.push_str(",\"vars\":[");
        for (k, (n, v)) in cs.sorted_variables().iter().enumerate() {
            if k > 0 {
                o.push(',');
            }
            let def = match &v.def {
                VariableDefinition::None => "null".to_string(),
                VariableDefinition::Value(x) => format!("[\"value\",{}]", vv_json(x)),
                VariableDefinition::Array(a) => format!(
                    "[\"array\",[{}]]",
                    a.iter().map(vv_json).collect::<Vec<_>>().join(",")
                ),
                VariableDefinition::ArrayOfPointers(a) => format!(
                    "[\"ptrs\",[{}]]",
                    a.iter()
                        .map(|(s, o)| format!("[{},{}]", jstr(s), o))
                        .collect::<Vec<_>>()
                        .join(",")
                ),
            };
            let _ = write!(
                o,
                "{{\"name\":{},\"type\":\"{:?}\",\"const\":{},\"signed\":{},\"memory\":\"{:?}\",\"size\":{},\"alignment\":{},\"global\":{},\"def\":{}}}",
                jstr(n), v.var_type, v.var_const, v.signed, v.memory, v.size, v.alignment, v.global, def
            );
        }
        o.push(']');
    }
    let mut sink = Vec::<u8>::new();
    if want("funcs") || want("probe") {
        let mut g = GeneratorState::new(cs, &mut sink, args.insert_code, args.warnings.clone(), scheme);
        if want("funcs") {
            o.push_str(",\"funcs\":[");
            let mut first = true;
            let mut gen_err: Option<Error> = None;
            for f in cs.sorted_functions().iter() {
                if !first {
                    o.push(',');
                }
                first = false;
                let _ = write!(
                    o,
                    "{{\"name\":{},\"inline\":{},\"bank\":{},\"interrupt\":{},\"locals\":[{}],\"defined\":{}",
                    jstr(f.0),
                    f.1.inline,
                    f.1.bank,
                    f.1.interrupt,
                    f.1.local_variables.iter().map(|s| jstr(s)).collect::<Vec<_>>().join(","),
                    f.1.code.is_some()
                );
                if f.1.code.is_some() && gen_err.is_none() {
                    g.current_bank = f.1.bank;
                    g.local_label_counter_for = 0;
                    g.local_label_counter_if = 0;
                    g.functions_code.insert(f.0.clone(), AssemblyCode::new());
                    g.current_function = Some(f.0.clone());
                    let r = g.generate_statement(f.1.code.as_ref().unwrap());
                    g.current_function = None;
                    match r {
                        Err(e) => {
                            gen_err = Some(e);
                        }
                        Ok(()) => {
                            let _ = write!(o, ",\"gen\":{}", lines_json(&code_lines(&g.functions_code[f.0])));
                            let mut nopt = 0;
                            if args.optimization_level > 0 {
                                nopt = g.optimize_function(f.0);
                                let _ = write!(o, ",\"opt\":{}", lines_json(&code_lines(&g.functions_code[f.0])));
                            }
                            let nfix = g.check_branches(f.0);
                            let _ = write!(
                                o,
                                ",\"nopt\":{},\"nfix\":{},\"size\":{},\"final\":{}",
                                nopt,
                                nfix,
                                g.functions_code[f.0].size_bytes(),
                                lines_json(&code_lines(&g.functions_code[f.0]))
                            );
                            if want("text") {
                                let mut t = Vec::new();
                                let _ = g.functions_code[f.0].write(&mut t, args.insert_code);
                                let _ = write!(o, ",\"text\":{}", jstr(&String::from_utf8_lossy(&t)));
                            }
                        }
                    }
                }
                o.push('}');
            }
            o.push(']');
            if let Some(e) = gen_err {
                let _ = writer.write_all(o.as_bytes());
                return Err(e);
            }
            g.compute_functions_actually_in_use()?;
            o.push_str(",\"tree\":{");
            let mut keys: Vec<&String> = g.functions_call_tree.keys().collect();
            keys.sort();
            for (k, key) in keys.iter().enumerate() {
                if k > 0 {
                    o.push(',');
                }
                let _ = write!(
                    o,
                    "{}:[{}]",
                    jstr(key),
                    g.functions_call_tree[*key].iter().map(|s| jstr(s)).collect::<Vec<_>>().join(",")
                );
            }
            o.push_str("},\"inuse\":[");
            let mut iu: Vec<&String> = g.functions_actually_in_use.iter().collect();
            iu.sort();
            o.push_str(&iu.iter().map(|s| jstr(s)).collect::<Vec<_>>().join(","));
            o.push(']');
        }
    }
    if want("probe") {
        o.push_str(",\"probes\":[");
        for (k, p) in job.probes.iter().enumerate() {
            if k > 0 {
                o.push(',');
            }
            o.push_str(&run_probe(cs, p));
        }
        o.push(']');
    }
    let _ = writer.write_all(o.as_bytes());
    Ok(())
}

#[cfg(steux_cc6502_verif)]
fn run_probe(cs: &CompilerState, p: &[String]) -> String {
    use cc6502::verif::{asm_probe, ProbeOperand};
    // <MNEMONIC> <kind> <var-hex|-> <eight_bits 0|1> <int> <high 0|1> <scheme> <prot 0|1>
    let m = match mnemonic_of(&p[0]) {
        Some(m) => m,
        None => return "{\"status\":\"bad\"}".into(),
    };
    let var = unhex_s(&p[2]);
    let eb = p[3] == "1";
    let n: i32 = p[4].parse().unwrap_or(0);
    let op = match p[1].as_str() {
        "nothing" => ProbeOperand::Nothing,
        "imm" => ProbeOperand::Immediate(n),
        "tmp" => ProbeOperand::Tmp(eb),
        "abs" => ProbeOperand::Absolute(var, eb, n),
        "absx" => ProbeOperand::AbsoluteX(var),
        "absy" => ProbeOperand::AbsoluteY(var),
        "a" => ProbeOperand::A(eb),
        "label" => ProbeOperand::Label(var),
        _ => return "{\"status\":\"bad\"}".into(),
    };
    let r = catch_unwind(AssertUnwindSafe(|| {
        asm_probe(cs, &p[6], m, op, p[5] == "1", p[7] == "1")
    }));
    match r {
        Err(_) => "{\"status\":\"panic\"}".into(),
        Ok(Err(e)) => format!("{{\"status\":\"err\",\"err\":{}}}", err_json(&e)),
        Ok(Ok((signed, dbg))) => match parse_code_debug(&dbg) {
            Ok(v) => format!(
                "{{\"status\":\"ok\",\"signed\":{},\"lines\":{}}}",
                signed,
                lines_json(&v)
            ),
            Err(e) => format!("{{\"status\":\"bad\",\"msg\":{}}}", jstr(&e)),
        },
    }
}

#[cfg(not(steux_cc6502_verif))]
fn run_probe(_cs: &CompilerState, _p: &[String]) -> String {
    "{\"status\":\"nohook\"}".into()
}

fn compile_once(j: &Job, dir: &str) -> String {
    let mut argv: Vec<String> = vec!["cc".into(), j.name.clone()];
    argv.extend(j.args.iter().cloned());
    if !j.files.is_empty() {
        argv.push("-I".into());
        argv.push(dir.to_string());
    }
    let args = match Args::try_parse_from(argv.iter()) {
        Ok(a) => a,
        Err(e) => return format!("\"status\":\"badargs\",\"msg\":{}", jstr(&e.to_string())),
    };
    let mut out = Vec::<u8>::new();
    let r = compile(&j.src[..], &mut out, &args, builder);
    let body = String::from_utf8_lossy(&out).to_string();
    match r {
        Ok(()) => format!("\"status\":\"ok\"{}", body),
        Err(e) => format!("\"status\":\"err\",\"err\":{}{}", err_json(&e), body),
    }
}

fn run_compile(j: &Job, scratch: &str) -> String {
    JOB.with(|x| *x.borrow_mut() = j.clone());
    let dir = format!("{}/{}", scratch, j.id.replace('/', "_"));
    if !j.files.is_empty() {
        let _ = std::fs::create_dir_all(&dir);
        for (n, c) in &j.files {
            let _ = std::fs::write(format!("{}/{}", dir, n), c);
        }
    }
    if !j.prename.is_empty() {
        let mut pre = j.clone();
        pre.name = j.prename.clone();
        pre.src = b"char before; void main() { before = undeclared_in_the_previous_unit; }\n".to_vec();
        pre.files = Vec::new();
        let _ = compile_once(&pre, &dir);
    }
    let first = compile_once(j, &dir);
    let mut same = true;
    let mut other = String::new();
    for _ in 1..j.repeat {
        let again = compile_once(j, &dir);
        if again != first {
            same = false;
            other = again;
            break;
        }
    }
    if !j.files.is_empty() {
        let _ = std::fs::remove_dir_all(&dir);
    }
    if j.repeat > 1 {
        if same {
            format!("{{\"id\":{},\"repeat_same\":true,{}}}", jstr(&j.id), first)
        } else {
            format!(
                "{{\"id\":{},\"repeat_same\":false,\"other\":{{{}}},{}}}",
                jstr(&j.id),
                other,
                first
            )
        }
    } else {
        format!("{{\"id\":{},{}}}", jstr(&j.id), first)
    }
}

#[cfg(steux_cc6502_verif)]
fn run_cpp(j: &Job, scratch: &str) -> String {
    let dir = format!("{}/{}", scratch, j.id.replace('/', "_"));
    let mut incs = Vec::new();
    if !j.files.is_empty() {
        let _ = std::fs::create_dir_all(&dir);
        for (n, c) in &j.files {
            let _ = std::fs::write(format!("{}/{}", dir, n), c);
        }
        incs.push(dir.clone());
    }
    let r = cc6502::verif::cpp_process(&j.src, &j.name, &j.defs, &incs);
    if !j.files.is_empty() {
        let _ = std::fs::remove_dir_all(&dir);
    }
    match r {
        Err(e) => format!("{{\"id\":{},\"status\":\"err\",\"err\":{}}}", jstr(&j.id), err_json(&e)),
        Ok((out, lines, lits)) => {
            let mut o = format!(
                "{{\"id\":{},\"status\":\"ok\",\"pp\":{},\"map\":[",
                jstr(&j.id),
                jstr(&String::from_utf8_lossy(&out))
            );
            for (k, m) in lines.iter().enumerate() {
                if k > 0 {
                    o.push(',');
                }
                let _ = write!(
                    o,
                    "[{},{},{}]",
                    jstr(&m.0),
                    m.1,
                    match &m.2 {
                        Some((f, l)) => format!("[{},{}]", jstr(f), l),
                        None => "null".into(),
                    }
                );
            }
            o.push_str("],\"lits\":[");
            o.push_str(&lits.iter().map(|s| jstr(s)).collect::<Vec<_>>().join(","));
            o.push_str("]}");
            o
        }
    }
}

#[cfg(not(steux_cc6502_verif))]
fn run_cpp(j: &Job, _scratch: &str) -> String {
    format!("{{\"id\":{},\"status\":\"nohook\"}}", jstr(&j.id))
}

fn run_job(j: &Job, scratch: &str) -> String {
    match j.kind.as_str() {
        "unit" => run_unit(j),
        "compile" => run_compile(j, scratch),
        "cpp" => run_cpp(j, scratch),
        _ => format!("{{\"id\":{},\"status\":\"badkind\"}}", jstr(&j.id)),
    }
}

fn main() {
    let argv: Vec<String> = std::env::args().collect();
    if argv.len() < 3 {
        eprintln!("usage: ccv <jobfile> <outfile> [threads] [timeout_ms]");
        std::process::exit(2);
    }
    let text = std::fs::read_to_string(&argv[1]).expect("read jobfile");
    let nthreads: usize = argv.get(3).and_then(|s| s.parse().ok()).unwrap_or(8);
    let timeout_ms: u64 = argv.get(4).and_then(|s| s.parse().ok()).unwrap_or(5000);
    let jobs = Arc::new(parse_jobs(&text));
    let n = jobs.len();
    let results: Arc<Mutex<Vec<Option<String>>>> = Arc::new(Mutex::new(vec![None; n]));
    let next = Arc::new(Mutex::new(0usize));
    let scratch = format!("/dev/shm/ccv.{}", std::process::id());
    let _ = std::fs::create_dir_all(&scratch);
    // silence the default panic message (panics are reported in the results)
    std::panic::set_hook(Box::new(|info| {
        let loc = match info.location() {
            Some(l) => format!("{}:{}", l.file(), l.line()),
            None => "?".to_string(),
        };
        PANIC_LOC.with(|p| *p.borrow_mut() = loc);
    }));
    let mut handles = Vec::new();
    for _ in 0..nthreads {
        let jobs = jobs.clone();
        let results = results.clone();
        let next = next.clone();
        let scratch = scratch.clone();
        handles.push(std::thread::spawn(move || loop {
            let k = {
                let mut g = next.lock().unwrap();
                let k = *g;
                *g += 1;
                k
            };
            if k >= jobs.len() {
                break;
            }
            let (tx, rx) = mpsc::channel();
            let jobs2 = jobs.clone();
            let scratch2 = scratch.clone();
            let b = std::thread::Builder::new().stack_size(64 << 20);
            let _h = b.spawn(move || {
                let j = &jobs2[k];
                let r = catch_unwind(AssertUnwindSafe(|| run_job(j, &scratch2)));
                let s = match r {
                    Ok(s) => s,
                    Err(p) => {
                        let msg = if let Some(s) = p.downcast_ref::<&str>() {
                            s.to_string()
                        } else if let Some(s) = p.downcast_ref::<String>() {
                            s.clone()
                        } else {
                            "panic".to_string()
                        };
                        let loc = PANIC_LOC.with(|p| p.borrow().clone());
                        format!("{{\"id\":{},\"status\":\"panic\",\"msg\":{},\"loc\":{}}}", jstr(&j.id), jstr(&msg), jstr(&loc))
                    }
                };
                let _ = tx.send(s);
            });
            let s = match rx.recv_timeout(Duration::from_millis(timeout_ms)) {
                Ok(s) => s,
                Err(_) => format!("{{\"id\":{},\"status\":\"hang\"}}", jstr(&jobs[k].id)),
            };
            results.lock().unwrap()[k] = Some(s);
        }));
    }
    for h in handles {
        let _ = h.join();
    }
    let mut out = std::io::BufWriter::new(std::fs::File::create(&argv[2]).expect("create outfile"));
    for r in results.lock().unwrap().iter() {
        let _ = writeln!(out, "{}", r.clone().unwrap_or_else(|| "{\"status\":\"missing\"}".into()));
    }
    let _ = out.flush();
    let _ = std::fs::remove_dir_all(&scratch);
    // hung worker threads (if any) are abandoned here
    std::process::exit(0);
}
