(** GLOBAL simulation of the peephole optimiser on straight-line code (C02): executing the
    optimised line list gives the same final state as executing the original, N and Z included.

    The walk of [optimize] is read as a sequence of rewritings of the whole code; the invariant
    [Inv] (Model/OptSim.v) says that the code represented by the zipper still executes from the
    initial state to a state equal to the final state of the original code, and that the
    knowledge is sound just after [z_f] in that execution.  Every branch of [step_pair] preserves
    it ([step_pair_inv]), by the local theorems of Proofs/OptSemFacts.v:
    - swap: [rule_swap_lda_carry]; the flags component of the knowledge is stale for one step
      ([pswap]), harmlessly;
    - remove_second by a pair rule: [rule_sta_lda_exact], [rule_ora_zero_exact], [rule_ld_st],
      [rule_transfer_pair]; the knowledge is unchanged and so is the state it describes;
    - remove_second by [transfer]: [removal_sound]; when the removal rests on the look-ahead the
      states differ in N/Z, and the rest of the code ends in equal states because an instruction
      that redefines N/Z is still to come ([exec_straight_redefined]) -- whether or not that
      instruction is the one the optimiser looked at, which may itself be removed later;
      [transfer_removed_sound] keeps the knowledge sound for the state in which the load is not
      executed;
    - remove_first: [rule_load_load];
    - advance: [transfer_sound].
    Theorems: [optimize_straight_sound] (on [exec_straight]) and [optimize_straight_run] (on
    [Sem.run], through [exec_straight_runs_to] / [runs_to_exec_straight]).  The ",Y" clause of the
    scan [straight_ok] cannot be dropped ([zp_y_changes_a]).

    History: on the model as it was before the repairs of "STA o; LDA o", "ORA #0" and of the
    knowledge recorded with a look-ahead removal, the same development proved equality up to N/Z
    only, and four straight-line programs ended with a different Z flag; they are kept here as
    regression examples ([..._fixed]). *)
From Coq Require Import String Ascii List Bool NArith ZArith Lia.
From CC Require Import Base.Str Asm.Lines M6502.Isa Asm.Operand M6502.Sem
     Model.Optimize Model.OptSpec Model.OptSem Model.OptSim Proofs.OptSemFacts.
From CC Require Proofs.GenTemplatesFacts.
Import ListNotations.
Open Scope Z_scope.

#[local] Opaque mget mset byte.
#[local] Arguments mget : simpl never.
#[local] Arguments mset : simpl never.
#[local] Arguments byte : simpl never.

(** * The state relations are equivalences *)

(** both relations at once: [true] = all of the state, [false] = up to N and Z *)
Definition srel (ex : bool) (s s' : mstate) : Prop :=
  if ex then eq_state s s' else eq_mod_nz s s'.

Lemma eq_mod_nz_refl (s : mstate) : eq_mod_nz s s.
Proof. unfold eq_mod_nz. repeat split; try reflexivity. Qed.

Lemma eq_mod_nz_trans (a b c : mstate) : eq_mod_nz a b -> eq_mod_nz b c -> eq_mod_nz a c.
Proof.
  intros (A1 & X1 & Y1 & S1 & V1 & C1 & M1) (A2 & X2 & Y2 & S2 & V2 & C2 & M2).
  unfold eq_mod_nz. repeat split; try congruence. all: try (intros x; rewrite M1; apply M2).
Qed.

Lemma eq_state_refl (s : mstate) : eq_state s s.
Proof. split; [apply eq_mod_nz_refl|split; reflexivity]. Qed.

Lemma eq_state_sym (a b : mstate) : eq_state a b -> eq_state b a.
Proof. intros (H & N & Z). split; [apply eq_mod_nz_sym; exact H|split; congruence]. Qed.

Lemma eq_state_trans (a b c : mstate) : eq_state a b -> eq_state b c -> eq_state a c.
Proof.
  intros (H1 & N1 & Z1) (H2 & N2 & Z2).
  split; [eapply eq_mod_nz_trans; eassumption|split; congruence].
Qed.

(** * One plain instruction respects the relations *)

Lemma plain_cases (m : mnem) :
  plain m = true -> defines_nz m = true \/ is_store m \/ m = CLC \/ m = SEC \/ m = NOP.
Proof.
  unfold is_store.
  destruct m; intros H; try discriminate H;
    first [left; reflexivity | right; left; tauto | right; right; tauto].
Qed.

Lemma outcome_eq_weaken (r1 r2 : xres) : outcome_eq r1 r2 -> outcome_eq_mod_nz r1 r2.
Proof.
  destruct r1, r2; cbn; auto. intros (H1 & H2 & H3). split; [exact H1|split; [exact H2|exact (proj1 H3)]].
Qed.

Lemma exec_plain_nz (cfg : config) (m : mnem) (op : operand) (s1 s2 : mstate) :
  plain m = true -> eq_mod_nz s1 s2 ->
  outcome_eq_mod_nz (exec cfg m op s1) (exec cfg m op s2).
Proof.
  intros P H. destruct (plain_cases m P) as [D | [S | [-> | [-> | ->]]]].
  - apply outcome_eq_weaken. apply defines_nz_dead; assumption.
  - apply store_keeps_eq_mod_nz; assumption.
  - destruct H as (HA & HX & HY & HS & HV & HC & HM).
    cbv beta iota zeta delta [exec]. cbn [outcome_eq_mod_nz]. split; [reflexivity|split; [reflexivity|]].
    unfold eq_mod_nz. cbn. repeat split; assumption.
  - destruct H as (HA & HX & HY & HS & HV & HC & HM).
    cbv beta iota zeta delta [exec]. cbn [outcome_eq_mod_nz]. split; [reflexivity|split; [reflexivity|]].
    unfold eq_mod_nz. cbn. repeat split; assumption.
  - cbv beta iota zeta delta [exec]. cbn [outcome_eq_mod_nz]. split; [reflexivity|split; [reflexivity|]].
    exact H.
Qed.

(** stores, CLC, SEC, NOP leave N and Z alone *)
Lemma keeps_nz (cfg : config) (m : mnem) (op : operand) (s s' : mstate) (c : N) (f : flow) :
  is_store m \/ m = CLC \/ m = SEC \/ m = NOP ->
  exec cfg m op s = XOk s' c f -> fN s' = fN s /\ fZ s' = fZ s.
Proof.
  intros [[-> | [-> | ->]] | [-> | [-> | ->]]] E; cbv beta iota zeta delta [exec] in E;
    try (match type of E with match ?x with _ => _ end = _ => destruct x as [[s0 c0]|] eqn:W end;
         [|discriminate E]; inversion E; subst; apply write_operand_inv in W; destruct W as [a ->];
         split; reflexivity);
    inversion E; split; reflexivity.
Qed.

Lemma exec_plain_eq (cfg : config) (m : mnem) (op : operand) (s1 s2 : mstate) :
  plain m = true -> eq_state s1 s2 ->
  outcome_eq (exec cfg m op s1) (exec cfg m op s2).
Proof.
  intros P (H & HN & HZ). destruct (plain_cases m P) as [D|K].
  - apply defines_nz_dead; assumption.
  - pose proof (exec_plain_nz cfg m op s1 s2 P H) as O.
    destruct (exec cfg m op s1) as [t1 c1 f1|w1] eqn:E1;
      destruct (exec cfg m op s2) as [t2 c2 f2|w2] eqn:E2; cbn in O |- *; try contradiction; auto.
    destruct O as (-> & -> & O). split; [reflexivity|split; [reflexivity|]].
    destruct (keeps_nz _ _ _ _ _ _ _ K E1) as [N1 Z1].
    destruct (keeps_nz _ _ _ _ _ _ _ K E2) as [N2 Z2].
    split; [exact O|split; congruence].
Qed.

(** in either mode: related states give the same fault, or related states and the same flow *)
Lemma exec_plain_rel (ex : bool) (cfg : config) (m : mnem) (op : operand) (s1 s2 t1 : mstate)
      (c1 : N) (f1 : flow) :
  plain m = true -> srel ex s1 s2 -> exec cfg m op s1 = XOk t1 c1 f1 ->
  exists t2, exec cfg m op s2 = XOk t2 c1 f1 /\ srel ex t1 t2.
Proof.
  intros P R E. destruct ex; cbn [srel] in *.
  - pose proof (exec_plain_eq cfg m op s1 s2 P R) as O. rewrite E in O.
    destruct (exec cfg m op s2) as [t2 c2 f2|w2]; cbn in O; [|contradiction].
    destruct O as (-> & -> & O). eauto.
  - pose proof (exec_plain_nz cfg m op s1 s2 P R) as O. rewrite E in O.
    destruct (exec cfg m op s2) as [t2 c2 f2|w2]; cbn in O; [|contradiction].
    destruct O as (-> & -> & O). eauto.
Qed.

(** * Straight-line execution *)

Lemma exec_app (cfg : config) (a b : code) :
  forall s, exec_straight cfg (a ++ b) s =
            match exec_straight cfg a s with Some s' => exec_straight cfg b s' | None => None end.
Proof.
  induction a as [|x a IH]; intros s; [reflexivity|].
  destruct x as [l|i|t sz|cm|]; cbn [app exec_straight]; try reflexivity; try apply IH.
  destruct (parse_operand (i_mn i) (i_op i)) as [op|]; [|reflexivity].
  destruct (exec cfg (i_mn i) op s) as [s' c f|w]; [|reflexivity].
  destruct f; try reflexivity. apply IH.
Qed.

Lemma exec_skip (cfg : config) (l : code) :
  forallb skip_line l = true -> forall s, exec_straight cfg l s = Some s.
Proof.
  induction l as [|x l IH]; intros H s; [reflexivity|].
  cbn [forallb] in H. apply andb_true_iff in H. destruct H as [H1 H2].
  destruct x; try discriminate H1; cbn [exec_straight]; apply IH; exact H2.
Qed.

Lemma exec_skip_app (cfg : config) (l r : code) (s : mstate) :
  forallb skip_line l = true -> exec_straight cfg (l ++ r) s = exec_straight cfg r s.
Proof. intros H. rewrite exec_app, (exec_skip cfg l H). reflexivity. Qed.

Lemma skip_rev (l : code) : forallb skip_line l = true -> forallb skip_line (rev l) = true.
Proof.
  intros H. apply forallb_forall. intros x Hin. apply in_rev in Hin.
  exact (proj1 (forallb_forall skip_line l) H x Hin).
Qed.

Lemma exec_ins (cfg : config) (i : instr) (r : code) (s s' : mstate) :
  steps_to cfg i s s' -> exec_straight cfg (Ins i :: r) s = exec_straight cfg r s'.
Proof. intros (op & c & P & E). cbn [exec_straight]. rewrite P, E. reflexivity. Qed.

Lemma exec_ins_inv (cfg : config) (i : instr) (r : code) (s t : mstate) :
  exec_straight cfg (Ins i :: r) s = Some t ->
  exists s', steps_to cfg i s s' /\ exec_straight cfg r s' = Some t.
Proof.
  cbn [exec_straight]. intros H.
  destruct (parse_operand (i_mn i) (i_op i)) as [op|] eqn:P; [|discriminate H].
  destruct (exec cfg (i_mn i) op s) as [s' c f|w] eqn:E; [|discriminate H].
  destruct f; try discriminate H. exists s'. split; [|exact H]. exists op, c. auto.
Qed.

Lemma straight_ok_cons (cfg : config) (x : line) (c : code) :
  straight_ok cfg (x :: c) = true -> line_ok cfg x = true /\ straight_ok cfg c = true.
Proof. unfold straight_ok. cbn [forallb]. intros H. apply andb_true_iff in H. exact H. Qed.

Lemma line_ok_ins (cfg : config) (i : instr) :
  line_ok cfg (Ins i) = true -> plain (i_mn i) = true /\ ins_ok cfg i = true.
Proof. cbn [line_ok]. intros H. apply andb_true_iff in H. exact H. Qed.

Lemma exec_straight_rel (ex : bool) (cfg : config) (c : code) :
  straight_ok cfg c = true ->
  forall s1 s2 t1, srel ex s1 s2 -> exec_straight cfg c s1 = Some t1 ->
  exists t2, exec_straight cfg c s2 = Some t2 /\ srel ex t1 t2.
Proof.
  induction c as [|x c IH]; intros OK s1 s2 t1 R E.
  - cbn in E. inversion E; subst. exists s2. split; [reflexivity|exact R].
  - apply straight_ok_cons in OK. destruct OK as [OK1 OK2].
    destruct x as [l|i|t sz|cm|]; try discriminate OK1.
    + apply line_ok_ins in OK1. destruct OK1 as [PL _].
      cbn [exec_straight] in E |- *.
      destruct (parse_operand (i_mn i) (i_op i)) as [op|]; [|discriminate E].
      destruct (exec cfg (i_mn i) op s1) as [u1 c1 f1|w1] eqn:E1; [|discriminate E].
      destruct (exec_plain_rel ex cfg _ op s1 s2 u1 c1 f1 PL R E1) as (u2 & E2 & R2).
      rewrite E2. destruct f1; try discriminate E. exact (IH OK2 u1 u2 t1 R2 E).
    + cbn [exec_straight] in E |- *. exact (IH OK2 s1 s2 t1 R E).
    + cbn [exec_straight] in E |- *. exact (IH OK2 s1 s2 t1 R E).
Qed.

(** * The knowledge: transport along the relations, register part *)

Lemma know_sound_rel (cfg : config) (k : know) (s s' : mstate) :
  eq_mod_nz s s' -> (k_flags k <> FUnknown -> fN s' = fN s /\ fZ s' = fZ s) ->
  know_sound cfg k s -> know_sound cfg k s'.
Proof.
  intros (HA & HX & HY & HS & HV & HC & HM) HF (KA & KX & KY & KF & KFX & KFY).
  assert (MM : forall a, mget (mem s') a = mget (mem s) a) by (intros a; symmetry; apply HM).
  unfold know_sound. split; [|split; [|split; [|split; [|split]]]].
  - intros o Ho. rewrite <- HA.
    eapply holds_frame; [reflexivity|apply KA; exact Ho|right; congruence|right; congruence|right; exact MM].
  - intros o Ho. rewrite <- HX.
    eapply holds_frame; [reflexivity|apply KX; exact Ho|right; congruence|right; congruence|right; exact MM].
  - intros o Ho. rewrite <- HY.
    eapply holds_frame; [reflexivity|apply KY; exact Ho|right; congruence|right; congruence|right; exact MM].
  - intros F. destruct HF as [-> ->]; [rewrite F; discriminate|]. rewrite <- HA. exact (KF F).
  - intros F. destruct HF as [-> ->]; [rewrite F; discriminate|]. rewrite <- HX. exact (KFX F).
  - intros F. destruct HF as [-> ->]; [rewrite F; discriminate|]. rewrite <- HY. exact (KFY F).
Qed.

Lemma know_sound_kregs (cfg : config) (k : know) (s : mstate) :
  know_sound cfg k s -> know_sound cfg (kregs k) s.
Proof.
  intros (KA & KX & KY & _). unfold know_sound, kregs. cbn [k_acc k_x k_y k_flags].
  repeat split; try assumption; discriminate.
Qed.

Lemma know_sound_eq (cfg : config) (k : know) (s s' : mstate) :
  eq_state s s' -> know_sound cfg k s -> know_sound cfg k s'.
Proof.
  intros (H & HN & HZ). apply know_sound_rel; [exact H|]. intros _. split; congruence.
Qed.

Lemma transfer_flag_setter (k : know) (i : instr) (a : list line) :
  is_flag_setter (i_mn i) = true -> transfer k i a = (k, false).
Proof. unfold transfer. destruct (i_mn i); intros H; try discriminate H; reflexivity. Qed.

Lemma flags_is_A_true (f : flags_state) : flags_is_A f = true -> f = FA.
Proof. destruct f; intros H; try discriminate H; reflexivity. Qed.

(** * The side conditions of the local theorems follow from the scan *)

Lemma operand_ok_no_zpy (cfg : config) (op : operand) : operand_ok cfg op = true -> ~ zp_y_op cfg op.
Proof.
  destruct op as [|v|y k ix|y k|l]; cbn; try tauto.
  destruct ix; try tauto. intros H (a0 & E & L). rewrite E in H. apply Z.leb_le in H. lia.
Qed.

Lemma plain_no_label (m : mnem) : plain m = true -> takes_label m = false.
Proof. destruct m; intros H; try discriminate H; reflexivity. Qed.

Lemma ins_ok_ind_legal (cfg : config) (i : instr) : ins_ok cfg i = true -> ind_legal i.
Proof.
  unfold ins_ok, ind_legal. intros H y k P. rewrite P in H. discriminate H.
Qed.

Lemma ins_ok_ptr_not_hit (cfg : config) (i : instr) (s : mstate) :
  ins_ok cfg i = true -> ptr_not_hit cfg i s.
Proof.
  unfold ins_ok, ptr_not_hit. intros H y k a0 a md cr P. rewrite P in H. discriminate H.
Qed.

Lemma know_ops_ok_xfer (cfg : config) (k : know) (i : instr) :
  know_ops_ok cfg k -> xfer_no_zp_y cfg k i.
Proof.
  intros H. split; intros _ o op Ho P; apply operand_ok_no_zpy.
  - apply (H o op); auto.
  - apply (H o op); auto.
Qed.

Lemma know_ops_ok_kregs (cfg : config) (k : know) : know_ops_ok cfg k -> know_ops_ok cfg (kregs k).
Proof. intros H o op Ho. apply H. exact Ho. Qed.

Definition kstr (k : know) (o : string) : Prop :=
  k_acc k = Some o \/ k_x k = Some o \/ k_y k = Some o.

Lemma transfer_strs (k : know) (i : instr) (a : list line) (o : string) :
  kstr (fst (transfer k i a)) o -> kstr k o \/ o = i_op i.
Proof.
  unfold kstr, transfer.
  destruct (i_mn i); cbn [fst k_acc k_x k_y];
    try (destruct (String.eqb (i_op i) ""); cbn [fst k_acc k_x k_y]);
    try (destruct (k_acc k) as [v|] eqn:EA; [destruct (ends_x v); destruct (ends_y v)|];
         cbn [fst k_acc k_x k_y]);
    intros [H|[H|H]];
    try discriminate H;
    try (apply kill_if_some in H; destruct H as [H _]);
    try (inversion H; subst; right; reflexivity);
    try (left; tauto);
    try (left; rewrite H; tauto).
Qed.

Lemma know_ops_ok_transfer (cfg : config) (k : know) (i : instr) (a : list line) :
  plain (i_mn i) = true -> ins_ok cfg i = true -> know_ops_ok cfg k ->
  know_ops_ok cfg (fst (transfer k i a)).
Proof.
  intros PL OK H o op Ho P. destruct (transfer_strs k i a o Ho) as [K| ->].
  - exact (H o op K P).
  - unfold ins_ok in OK.
    rewrite (parse_operand_mnem LDA (i_mn i)) in P by (try reflexivity; apply plain_no_label; exact PL).
    rewrite P in OK. exact OK.
Qed.

(** [transfer_sound] under the scan's side conditions *)
Lemma transfer_sound_kept (cfg : config) (k : know) (i : instr) (a : list line) (s s' : mstate) :
  ports cfg = [] -> bytes_ok s -> plain (i_mn i) = true -> ins_ok cfg i = true ->
  know_ops_ok cfg k -> know_sound cfg k s -> steps_to cfg i s s' ->
  snd (transfer k i a) = false ->
  know_sound cfg (fst (transfer k i a)) s'.
Proof.
  intros HP HB PL OK KO KS ST R.
  apply (transfer_sound cfg k i a s s'); auto.
  - intros [E|E]; rewrite E in PL; discriminate PL.
  - apply (ins_ok_ind_legal cfg); exact OK.
  - apply know_ops_ok_xfer; exact KO.
Qed.

(** an LDA when nothing is known about A: kept, and the flags component is overwritten *)
Lemma transfer_lda_fresh (k : know) (i : instr) (a : list line) :
  i_mn i = LDA -> k_acc k = None ->
  transfer k i a = (mkK (Some (i_op i)) (k_x k) (k_y k) FA, false).
Proof. unfold transfer. intros -> ->. reflexivity. Qed.

Lemma know_sound_lda_fresh (cfg : config) (k : know) (i : instr) (a : list line) (s s' : mstate) :
  ports cfg = [] -> bytes_ok s -> plain (i_mn i) = true -> ins_ok cfg i = true ->
  i_mn i = LDA -> k_acc k = None ->
  know_ops_ok cfg k -> know_sound cfg (kregs k) s -> steps_to cfg i s s' ->
  know_sound cfg (fst (transfer k i a)) s'.
Proof.
  intros HP HB PL OK M A KO KS ST.
  rewrite (transfer_lda_fresh k i a M A).
  pose proof (transfer_lda_fresh (kregs k) i a M A) as T. cbn [kregs k_x k_y] in T.
  pose proof (transfer_sound_kept cfg (kregs k) i a s s' HP HB PL OK (know_ops_ok_kregs cfg k KO) KS ST) as H.
  rewrite T in H. exact (H eq_refl).
Qed.

(** the knowledge computed for the very first instruction *)
Lemma analyse_start (i : instr) (a : list line) :
  analyse_load AlStart k_init i = (if is_load (i_mn i) then fst (transfer k_init i a) else k_init) /\
  snd (transfer k_init i a) = false.
Proof.
  unfold analyse_load, transfer, k_init.
  destruct (i_mn i); split; try reflexivity; destruct (String.eqb (i_op i) ""); reflexivity.
Qed.

Lemma know_sound_init (cfg : config) (s : mstate) : know_sound cfg k_init s.
Proof. unfold know_sound, k_init. cbn. repeat split; discriminate. Qed.

Lemma know_ops_ok_init (cfg : config) : know_ops_ok cfg k_init.
Proof. intros o op [H|[H|H]]; discriminate H. Qed.

(** * What the pair rules can do on straight-line code *)

Ltac bsplit :=
  repeat match goal with
  | H : (_ || _) = true |- _ => apply orb_true_iff in H; destruct H as [H|H]
  | H : (_ && _) = true |- _ =>
      let H1 := fresh H in apply andb_true_iff in H; destruct H as [H H1]
  | H : negb _ = true |- _ => apply negb_true_iff in H
  | H : mnem_eqb _ _ = true |- _ => apply mnem_eqb_eq in H
  | H : String.eqb _ _ = true |- _ => apply String.eqb_eq in H
  | H : flags_is_A _ = true |- _ => apply flags_is_A_true in H
  end.

Lemma cmp_rule_branch (reg : option string) (m : mnem) (i1 i2 : instr) :
  cmp_rule reg m i1 i2 = true -> plain (i_mn i2) = false.
Proof.
  unfold cmp_rule. destruct reg as [r|]; [|discriminate].
  destruct (is_imm r && mnem_eqb (i_mn i1) m && is_imm (i_op i1)); [|discriminate].
  destruct (i_mn i2); try discriminate; reflexivity.
Qed.

(** remove_both never fires *)
Lemma pair_rules_rb_plain (k : know) (i1 i2 : instr) :
  plain (i_mn i2) = true -> fst (fst (fst (pair_rules k i1 i2))) = false.
Proof.
  intros PL. destruct (fst (fst (fst (pair_rules k i1 i2)))) eqn:E; [exfalso|reflexivity].
  unfold pair_rules in E. cbv beta zeta in E. cbn [fst snd] in E. bsplit;
    try (match goal with H : i_mn i2 = _ |- _ => rewrite H in PL; discriminate PL end);
    match goal with H : cmp_rule _ _ _ _ = true |- _ => apply cmp_rule_branch in H; congruence end.
Qed.

(** the shapes of remove_second by a pair rule; "STA o; LDA o" and "ORA #0" fire only when the
    knowledge says that N/Z describe A *)
Definition rs0_shape (k : know) (i1 i2 : instr) : Prop :=
  (i_mn i1 = STA /\ i_mn i2 = LDA /\ i_op i1 = i_op i2 /\ k_flags k = FA) \/
  (((i_mn i1 = LDA /\ i_mn i2 = STA) \/ (i_mn i1 = LDX /\ i_mn i2 = STX) \/
    (i_mn i1 = LDY /\ i_mn i2 = STY)) /\ i_op i1 = i_op i2) \/
  ((i_mn i1 = TAX /\ i_mn i2 = TXA) \/ (i_mn i1 = TXA /\ i_mn i2 = TAX) \/
   (i_mn i1 = TAY /\ i_mn i2 = TYA) \/ (i_mn i1 = TYA /\ i_mn i2 = TAY)) \/
  (i_mn i2 = ORA /\ i_op i2 = "#0"%string /\ k_flags k = FA).

Lemma pair_rules_rs0 (k : know) (i1 i2 : instr) :
  plain (i_mn i2) = true -> snd (fst (pair_rules k i1 i2)) = true -> rs0_shape k i1 i2.
Proof.
  intros PL E. unfold pair_rules in E. cbv beta zeta in E. cbn [fst snd] in E. unfold rs0_shape.
  bsplit;
    try (match goal with H : i_mn i2 = JMP |- _ => rewrite H in PL; discriminate PL end); tauto.
Qed.

Lemma pair_rules_rf_shape (k : know) (i1 i2 : instr) :
  snd (fst (fst (pair_rules k i1 i2))) = true ->
  (i_mn i1 = LDA /\ i_mn i2 = LDA) \/ (i_mn i1 = LDX /\ i_mn i2 = LDX) \/
  (i_mn i1 = LDY /\ i_mn i2 = LDY).
Proof.
  intros E. unfold pair_rules in E. cbv beta zeta in E. cbn [fst snd] in E. bsplit; auto.
Qed.

Lemma pair_rules_sw_shape (k : know) (i1 i2 : instr) :
  snd (pair_rules k i1 i2) = true -> i_mn i1 = LDA /\ is_flag_setter (i_mn i2) = true.
Proof.
  intros E. unfold pair_rules in E. cbv beta zeta in E. cbn [fst snd] in E. bsplit;
    (split; [assumption|]); match goal with H : i_mn i2 = _ |- _ => rewrite H; reflexivity end.
Qed.

Lemma flag_setter_cases (m : mnem) : is_flag_setter m = true -> m = SEC \/ m = CLC.
Proof. destruct m; intros H; try discriminate H; auto. Qed.

Lemma rs0_shape_not_after_flag_setter (k : know) (i1 i2 : instr) :
  is_flag_setter (i_mn i1) = true -> i_mn i2 = LDA -> rs0_shape k i1 i2 -> False.
Proof.
  intros F L H. apply flag_setter_cases in F. unfold rs0_shape in H.
  destruct F as [F|F]; rewrite F, L in H; intuition congruence.
Qed.

Lemma rs0_shape_not_before_flag_setter (k : know) (i1 i2 : instr) :
  i_mn i1 = LDA -> is_flag_setter (i_mn i2) = true -> rs0_shape k i1 i2 -> False.
Proof.
  intros L F H. apply flag_setter_cases in F. unfold rs0_shape in H.
  destruct F as [F|F]; rewrite F, L in H; intuition congruence.
Qed.

(** * The removals, on states *)

(** remove_second by a pair rule: the second instruction changes nothing *)
Lemma rs0_sound (cfg : config) (k : know) (i1 i2 : instr) (s1 s2 s3 : mstate) :
  ports cfg = [] -> bytes_ok s1 -> ins_ok cfg i1 = true ->
  rs0_shape k i1 i2 -> know_sound cfg k s2 ->
  steps_to cfg i1 s1 s2 -> steps_to cfg i2 s2 s3 -> eq_state s3 s2.
Proof.
  intros HP HB OK SH KS ST1 ST2.
  destruct SH as [(M1 & M2 & EO & FA)|[(MM & EO)|[MM|(M2 & O2 & FA)]]].
  - apply (rule_sta_lda_exact cfg k i1 i2 s1 s2 s3); auto. apply ins_ok_ptr_not_hit. exact OK.
  - apply (rule_ld_st cfg i1 i2 s1 s2 s3); auto. apply (ins_ok_ind_legal cfg). exact OK.
  - apply (rule_transfer_pair cfg i1 i2 s1 s2 s3); auto.
  - apply (rule_ora_zero_exact cfg k i2 s2 s3); auto.
    destruct ST1 as (op & c & _ & E). exact (GenTemplatesFacts.exec_bytes_ok _ _ _ _ _ _ _ E HB).
Qed.

Lemma transfer_rs_known (k : know) (i : instr) (a : list line) :
  snd (transfer k i a) = true ->
  (i_mn i = LDA /\ k_acc k = Some (i_op i)) \/ (i_mn i = LDX /\ k_x k = Some (i_op i)) \/
  (i_mn i = LDY /\ k_y k = Some (i_op i)).
Proof.
  unfold transfer. intros R.
  destruct (i_mn i) eqn:M; cbn [snd] in R; try discriminate R;
    try (destruct (String.eqb (i_op i) ""); discriminate R);
    try (destruct (k_acc k) as [va|]; [destruct (ends_x va)|]; discriminate R);
    try (destruct (k_acc k) as [va|]; [destruct (ends_y va)|]; discriminate R).
  - destruct (opt_eqb (k_acc k) (i_op i)) eqn:EQ; [|discriminate R]. apply opt_eqb_true in EQ. auto.
  - destruct (opt_eqb (k_x k) (i_op i)) eqn:EQ; [|discriminate R]. apply opt_eqb_true in EQ. auto.
  - destruct (opt_eqb (k_y k) (i_op i)) eqn:EQ; [|discriminate R]. apply opt_eqb_true in EQ. auto.
Qed.

Lemma flag_setter_inv (cfg : config) (i : instr) (s t : mstate) :
  is_flag_setter (i_mn i) = true -> steps_to cfg i s t -> exists b, t = set_c s b.
Proof.
  intros F (op & c & P & E). apply flag_setter_cases in F.
  destruct F as [F|F]; rewrite F in E; inv_exec E; eauto.
Qed.

(** the swap: the knowledge about X and Y survives, nothing is claimed about A *)
Lemma swap_know (cfg : config) (k : know) (i1 : instr) (s1 s2 : mstate) (b : bool) :
  i_mn i1 = LDA -> steps_to cfg i1 s1 s2 -> know_sound cfg (kregs k) s2 ->
  know_sound cfg (kregs (mkK None (k_x k) (k_y k) (k_flags k))) (set_c s1 b).
Proof.
  intros M (op & c & P & E) (_ & KX & KY & _).
  rewrite M in E. apply exec_load_inv in E; [|left; reflexivity]. destruct E as (v & _ & ->).
  cbn [kregs k_acc k_x k_y k_flags] in *.
  unfold know_sound. cbn [k_acc k_x k_y k_flags].
  split; [discriminate|]. split; [|split; [|repeat split; discriminate]].
  - intros o Ho. apply (holds_frame cfg LDX (set_nz (set_a s1 v) v)); [reflexivity|exact (KX o Ho)| | |];
      right; intros; reflexivity.
  - intros o Ho. apply (holds_frame cfg LDY (set_nz (set_a s1 v) v)); [reflexivity|exact (KY o Ho)| | |];
      right; intros; reflexivity.
Qed.

(** * N and Z are dead when an instruction that redefines them is still to come *)

(** an instruction that sets both N and Z, whatever they were, is still to be executed (in
    straight-line code nothing reads N/Z before it) *)
Definition nz_redefined (l : list line) : bool :=
  existsb (fun x => match x with Ins j => defines_nz (i_mn j) | _ => false end) l.

Lemma exec_straight_redefined (cfg : config) (c : code) :
  straight_ok cfg c = true -> nz_redefined c = true ->
  forall s1 s2 t1, eq_mod_nz s1 s2 -> exec_straight cfg c s1 = Some t1 ->
  exists t2, exec_straight cfg c s2 = Some t2 /\ eq_state t1 t2.
Proof.
  induction c as [|x c IH]; intros OK NR s1 s2 t1 R E; [discriminate NR|].
  apply straight_ok_cons in OK. destruct OK as [OK1 OK2].
  unfold nz_redefined in NR. cbn [existsb] in NR. fold (nz_redefined c) in NR.
  destruct x as [l|i|t sz|cm|]; try discriminate OK1.
  - apply line_ok_ins in OK1. destruct OK1 as [PL _].
    cbn [exec_straight] in E |- *.
    destruct (parse_operand (i_mn i) (i_op i)) as [op|]; [|discriminate E].
    destruct (exec cfg (i_mn i) op s1) as [u1 c1 f1|w1] eqn:E1; [|discriminate E].
    destruct (defines_nz (i_mn i)) eqn:D.
    + pose proof (defines_nz_dead cfg (i_mn i) op s1 s2 D R) as O. rewrite E1 in O.
      destruct (exec cfg (i_mn i) op s2) as [u2 c2 f2|w2]; cbn in O; [|contradiction].
      destruct O as (-> & -> & O). destruct f2; try discriminate E.
      exact (exec_straight_rel true cfg c OK2 u1 u2 t1 O E).
    + cbn [orb] in NR.
      destruct (exec_plain_rel false cfg _ op s1 s2 u1 c1 f1 PL R E1) as (u2 & E2 & R2).
      rewrite E2. destruct f1; try discriminate E. exact (IH OK2 NR u1 u2 t1 R2 E).
  - cbn [orb] in NR. cbn [exec_straight] in E |- *. exact (IH OK2 NR s1 s2 t1 R E).
  - cbn [orb] in NR. cbn [exec_straight] in E |- *. exact (IH OK2 NR s1 s2 t1 R E).
Qed.

(** both look-aheads of the optimiser guarantee it -- at the time of the removal; the instruction
    looked at may be removed later, by a rewriting that is justified on its own *)
Lemma lda_lookahead_redefined (ahead : list line) :
  lda_lookahead ahead = true -> nz_redefined ahead = true.
Proof.
  unfold lda_lookahead, nz_redefined.
  destruct ahead as [|[l|j1|tx sz|cm|] t]; try discriminate. cbn [existsb].
  destruct (i_mn j1) eqn:M; try discriminate; cbn [defines_nz orb]; [|reflexivity].
  destruct t as [|[l|j2|tx sz|cm|] t']; try discriminate.
  - intros L. cbn [existsb]. rewrite (is_load_defines_nz _ L). reflexivity.
  - destruct t' as [|[l|j3|tx sz|cm|] t'']; try discriminate.
    intros L. cbn [existsb]. rewrite (is_load_defines_nz _ L). reflexivity.
Qed.

Lemma ldxy_lookahead_redefined (ahead : list line) :
  ldxy_lookahead ahead = true -> nz_redefined ahead = true.
Proof.
  unfold nz_redefined. induction ahead as [|x t IH]; [discriminate|].
  destruct x as [l|j|tx sz|cm|]; cbn [ldxy_lookahead existsb]; try discriminate.
  - intros ->. reflexivity.
  - exact IH.
  - exact IH.
Qed.

(** remove_second by [transfer]: the load changes nothing but N and Z, and the rest of the code
    cannot tell *)
Lemma removal_tail (cfg : config) (k : know) (i : instr) (ahead : code) (s s' sE : mstate) :
  ports cfg = [] -> straight_ok cfg ahead = true ->
  know_sound cfg k s -> steps_to cfg i s s' -> snd (transfer k i ahead) = true ->
  exec_straight cfg ahead s' = Some sE ->
  exists sE', exec_straight cfg ahead s = Some sE' /\ eq_state sE sE'.
Proof.
  intros HP OK KS ST R E.
  destruct (removal_sound cfg k i ahead s s' HP KS ST R) as [NZ [H|[[_ H]|[_ H]]]].
  - exact (exec_straight_rel true cfg ahead OK s' s sE H E).
  - exact (exec_straight_redefined cfg ahead OK (lda_lookahead_redefined _ H) s' s sE NZ E).
  - exact (exec_straight_redefined cfg ahead OK (ldxy_lookahead_redefined _ H) s' s sE NZ E).
Qed.

(** * The invariant is preserved *)

Section Sim.
  Variables (cfg : config) (s0 sF : mstate).
  Hypothesis HP : ports cfg = [].

  (** what a step must deliver: a final code that executes to a state equal to [sF], or a new
      zipper state satisfying the invariant *)
  Definition Res (r : step_result) : Prop :=
    match r with
    | Done c _ => exists sE, exec_straight cfg c s0 = Some sE /\ eq_state sE sF
    | Next z' => Inv cfg s0 sF z'
    end.

  Lemma pswap_true (z : zst) (i2 : instr) (ahead : list line) :
    z_rest z = Ins i2 :: ahead -> pswap z = true ->
    is_flag_setter (i_mn (z_f z)) = true /\ i_mn i2 = LDA /\ k_acc (z_k z) = None.
  Proof.
    unfold pswap. intros -> H. apply andb_true_iff in H. destruct H as [H1 H2].
    apply andb_true_iff in H2. destruct H2 as [H2 H3]. apply mnem_eqb_eq in H2.
    destruct (k_acc (z_k z)); [discriminate H3|]. auto.
  Qed.

  Lemma Inv_intro (z : zst) (s1 s2 sE : mstate) :
    plain (i_mn (z_f z)) = true -> ins_ok cfg (z_f z) = true ->
    forallb skip_line (z_mid z) = true -> straight_ok cfg (z_rest z) = true ->
    know_ops_ok cfg (z_k z) ->
    exec_straight cfg (rev (z_pre z)) s0 = Some s1 -> bytes_ok s1 ->
    steps_to cfg (z_f z) s1 s2 ->
    know_sound cfg (z_k z) s2 \/ (pswap z = true /\ know_sound cfg (kregs (z_k z)) s2) ->
    exec_straight cfg (z_rest z) s2 = Some sE -> eq_state sE sF ->
    Inv cfg s0 sF z.
  Proof.
    intros PF OF MID RST KOK E1 B1 ST KS E2 REL.
    unfold Inv. repeat (split; [assumption|]). exists s1, s2, sE.
    repeat (split; [assumption|]). split; [|split; [|exact REL]].
    - destruct KS as [KS|[PS KS]].
      + destruct (pswap z); [apply know_sound_kregs|]; exact KS.
      + rewrite PS. exact KS.
    - rewrite (exec_skip_app cfg _ _ s2 (skip_rev _ MID)). exact E2.
  Qed.

  Lemma exec_pre_skip (pre mid : list line) (s1 : mstate) :
    exec_straight cfg (rev pre) s0 = Some s1 -> forallb skip_line mid = true ->
    exec_straight cfg (rev (mid ++ Dummy :: pre)) s0 = Some s1.
  Proof.
    intros E M. rewrite rev_app_distr. cbn [rev]. rewrite <- app_assoc.
    rewrite exec_app, E. cbn [app exec_straight]. apply exec_skip. apply skip_rev. exact M.
  Qed.

  Lemma exec_pre_ins (pre mid : list line) (i : instr) (s1 s2 : mstate) :
    exec_straight cfg (rev pre) s0 = Some s1 -> steps_to cfg i s1 s2 ->
    forallb skip_line mid = true ->
    exec_straight cfg (rev (mid ++ Ins i :: pre)) s0 = Some s2.
  Proof.
    intros E ST M. rewrite rev_app_distr. cbn [rev]. rewrite <- app_assoc.
    rewrite exec_app, E. cbn [app]. rewrite (exec_ins cfg i _ s1 s2 ST).
    apply exec_skip. apply skip_rev. exact M.
  Qed.

  Lemma steps_bytes (i : instr) (s s' : mstate) : steps_to cfg i s s' -> bytes_ok s -> bytes_ok s'.
  Proof.
    intros (op & c & _ & E) B. exact (GenTemplatesFacts.exec_bytes_ok _ _ _ _ _ _ _ E B).
  Qed.

  (** (P)+(T)+(A): every branch of [step_pair] *)
  Lemma step_pair_inv (z : zst) (i2 : instr) (ahead : list line) :
    z_rest z = Ins i2 :: ahead -> Inv cfg s0 sF z -> Res (step_pair z i2 ahead).
  Proof.
    intros ER (PF & OF & MID & RST & KOK & s1 & s2 & sE & E1 & B1 & ST1 & KS & E2 & REL).
    assert (KS' : pswap z = false -> know_sound cfg (z_k z) s2).
    { intros E. rewrite E in KS. exact KS. }
    assert (KSw : know_sound cfg (kregs (z_k z)) s2).
    { destruct (pswap z); [exact KS|apply know_sound_kregs; exact KS]. }
    pose proof (pswap_true z i2 ahead ER) as PSW.
    destruct z as [pre i1 mid rest k n]. cbn [z_pre z_f z_mid z_rest z_k z_removed] in *. subst rest.
    apply straight_ok_cons in RST. destruct RST as [L2 RST].
    apply line_ok_ins in L2. destruct L2 as [P2 O2].
    rewrite (exec_skip_app cfg _ _ s2 (skip_rev _ MID)) in E2.
    apply exec_ins_inv in E2. destruct E2 as (s3 & ST2 & E3).
    pose proof (steps_bytes _ _ _ ST1 B1) as B2.
    pose proof (pair_rules_rb_plain k i1 i2 P2) as RB.
    pose proof (pair_rules_rs0 k i1 i2 P2) as SH.
    pose proof (pair_rules_rf_shape k i1 i2) as RF.
    pose proof (pair_rules_sw_shape k i1 i2) as SW.
    unfold step_pair. cbn [z_pre z_f z_mid z_rest z_k z_removed].
    destruct (pair_rules k i1 i2) as [[[rb rf] rs0] sw]. cbn [fst snd] in RB, SH, RF, SW.
    subst rb. destruct sw.
    - (* swap: the flags component is stale for one step *)
      destruct (SW eq_refl) as [M1 F2].
      destruct rs0; [exfalso; exact (rs0_shape_not_before_flag_setter k i1 i2 M1 F2 (SH eq_refl))|].
      cbn [negb andb]. rewrite (transfer_flag_setter k i2 ahead F2). cbv beta iota zeta.
      destruct (rule_swap_lda_carry cfg i1 i2 s1 s2 s3 M1 (flag_setter_cases _ F2) ST1 ST2)
        as (t1 & t2 & T1 & T2 & TE).
      destruct (flag_setter_inv cfg i2 s1 t1 F2 T1) as (b & ->).
      destruct (exec_straight_rel true cfg ahead RST s3 t2 sE (eq_state_sym _ _ TE) E3)
        as (sE' & E3' & RE).
      cbn [Res].
      apply (Inv_intro _ s1 (set_c s1 b) sE'); cbn [z_pre z_f z_mid z_rest z_k]; try assumption.
      + unfold straight_ok. cbn [forallb line_ok]. rewrite PF, OF. exact RST.
      + intros o op [H|[H|H]] P; cbn [k_acc k_x k_y] in H; [discriminate H| |];
          apply (KOK o op); auto.
      + right. split.
        * unfold pswap. cbn [z_f z_rest z_k k_acc]. rewrite F2, M1. reflexivity.
        * apply (swap_know cfg k i1 s1 s2 b M1 ST1 KSw).
      + rewrite (exec_ins cfg i1 _ _ t2 T2). exact E3'.
      + exact (eq_state_trans _ _ _ (eq_state_sym _ _ RE) REL).
    - destruct rs0.
      + (* remove_second by a pair rule: knowledge unchanged, and the state it describes too *)
        cbn [negb andb]. cbv beta iota zeta.
        destruct (pswap (mkZ pre i1 mid (Ins i2 :: ahead) k n)) eqn:PS.
        { exfalso. destruct (PSW eq_refl) as (F & L & _).
          exact (rs0_shape_not_after_flag_setter k i1 i2 F L (SH eq_refl)). }
        pose proof (KS' eq_refl) as KSf.
        pose proof (rs0_sound cfg k i1 i2 s1 s2 s3 HP B1 OF (SH eq_refl) KSf ST1 ST2) as R32.
        destruct (exec_straight_rel true cfg ahead RST s3 s2 sE R32 E3) as (sE' & E3' & RE).
        cbn [Res].
        apply (Inv_intro _ s1 s2 sE'); cbn [z_pre z_f z_mid z_rest z_k]; try assumption.
        * left. exact KSf.
        * exact (eq_state_trans _ _ _ (eq_state_sym _ _ RE) REL).
      + cbn [negb andb].
        pose proof (transfer_sound_kept cfg k i2 ahead s2 s3 HP B2 P2 O2 KOK) as KT.
        pose proof (know_ops_ok_transfer cfg k i2 ahead P2 O2 KOK) as KOK1.
        pose proof (transfer_rs_known k i2 ahead) as TK.
        pose proof (fun KSf => removal_tail cfg k i2 ahead s2 s3 sE HP RST KSf ST2) as RT.
        pose proof (transfer_removed_sound cfg k i2 ahead s2) as TRS.
        pose proof (know_sound_lda_fresh cfg k i2 ahead s2 s3 HP B2 P2 O2) as KLF.
        destruct (transfer k i2 ahead) as [k1 rs]. cbn [fst snd] in *. cbv beta iota zeta.
        destruct rs.
        * (* remove_second by [transfer]: the knowledge returned describes the state in which
             the load is not executed *)
          destruct (pswap (mkZ pre i1 mid (Ins i2 :: ahead) k n)) eqn:PS.
          { exfalso. destruct (PSW eq_refl) as (F & L & A).
            destruct (TK eq_refl) as [[_ H]|[[H _]|[H _]]]; congruence. }
          pose proof (KS' eq_refl) as KSf.
          destruct (RT KSf eq_refl E3) as (sE' & E3' & RE).
          cbn [Res].
          apply (Inv_intro _ s1 s2 sE'); cbn [z_pre z_f z_mid z_rest z_k]; try assumption.
          -- left. exact (TRS KSf eq_refl).
          -- exact (eq_state_trans _ _ _ (eq_state_sym _ _ RE) REL).
        * destruct rf.
          -- (* remove_first *)
             destruct (pswap (mkZ pre i1 mid (Ins i2 :: ahead) k n)) eqn:PS.
             { exfalso. destruct (PSW eq_refl) as (F & L & A). apply flag_setter_cases in F.
               destruct (RF eq_refl) as [[H _]|[[H _]|[H _]]]; destruct F; congruence. }
             pose proof (KS' eq_refl) as KSf.
             destruct (rule_load_load cfg i1 i2 s1 s2 s3 (RF eq_refl)
                         (ins_ok_ind_legal cfg i2 O2) ST1 ST2) as (s2' & ST2' & EQ).
             destruct (exec_straight_rel true cfg ahead RST s3 s2' sE (eq_state_sym _ _ EQ) E3)
               as (sE' & E3' & RE).
             cbn [Res].
             apply (Inv_intro _ s1 s2' sE'); cbn [z_pre z_f z_mid z_rest z_k]; try assumption.
             ++ reflexivity.
             ++ apply exec_pre_skip; assumption.
             ++ left. apply (know_sound_eq cfg k1 s3 s2' (eq_state_sym _ _ EQ)).
                apply KT; [exact KSf|exact ST2|reflexivity].
             ++ exact (eq_state_trans _ _ _ (eq_state_sym _ _ RE) REL).
          -- (* nothing removed: advance *)
             cbn [Res].
             apply (Inv_intro _ s2 s3 sE); cbn [z_pre z_f z_mid z_rest z_k]; try assumption.
             ++ reflexivity.
             ++ apply (exec_pre_ins pre mid i1 s1 s2); assumption.
             ++ left. destruct (pswap (mkZ pre i1 mid (Ins i2 :: ahead) k n)) eqn:PS.
                ** destruct (PSW eq_refl) as (F & L & A). apply KLF; assumption.
                ** apply KT; [exact (KS' eq_refl)|exact ST2|reflexivity].
  Qed.

  (** (J): no label, nothing to do *)
  Lemma step_jmp_straight (z : zst) : straight_ok cfg (z_rest z) = true -> step_jmp z = Next z.
  Proof.
    unfold step_jmp. destruct (z_rest z) as [|[l|i|t sz|cm|] r]; try reflexivity.
    intros H. apply straight_ok_cons in H. destruct H as [H _]. discriminate H.
  Qed.

  (** (S): comments and removed lines go to [mid]; the represented code does not change *)
  Lemma step_second_straight (rest : list line) : forall pre f mid k n,
    straight_ok cfg rest = true -> forallb skip_line mid = true ->
    match step_second pre f mid rest k n with
    | Done c _ => c = rev pre ++ Ins f :: rev mid ++ rest
    | Next z2 =>
        z_pre z2 = pre /\ z_f z2 = f /\ z_k z2 = k /\ forallb skip_line (z_mid z2) = true /\
        rev (z_mid z2) ++ z_rest z2 = rev mid ++ rest /\ straight_ok cfg (z_rest z2) = true /\
        (exists i2 ahead, z_rest z2 = Ins i2 :: ahead) /\
        (forall i t, rest = Ins i :: t -> z_rest z2 = rest)
    end.
  Proof.
    induction rest as [|x r IH]; intros pre f mid k n OK M.
    - cbn [step_second finish]. rewrite app_nil_r. reflexivity.
    - pose proof OK as OK'. apply straight_ok_cons in OK'. destruct OK' as [OK1 OK2].
      destruct x as [l|i|t sz|cm|]; try discriminate OK1; cbn [step_second].
      + cbn [z_pre z_f z_mid z_rest z_k]. repeat split; try assumption; eauto.
      + specialize (IH pre f (Cmt cm :: mid) k n OK2).
        destruct (step_second pre f (Cmt cm :: mid) r k n) as [c n'|z2].
        * rewrite IH by (cbn [forallb skip_line]; exact M). cbn [rev]. rewrite <- app_assoc. reflexivity.
        * destruct IH as (H1 & H2 & H3 & H4 & H5 & H6 & H7 & H8); [cbn [forallb skip_line]; exact M|].
          repeat split; try assumption.
          -- rewrite H5. cbn [rev]. rewrite <- app_assoc. reflexivity.
          -- intros i t E. discriminate E.
      + specialize (IH pre f (Dummy :: mid) k n OK2).
        destruct (step_second pre f (Dummy :: mid) r k n) as [c n'|z2].
        * rewrite IH by (cbn [forallb skip_line]; exact M). cbn [rev]. rewrite <- app_assoc. reflexivity.
        * destruct IH as (H1 & H2 & H3 & H4 & H5 & H6 & H7 & H8); [cbn [forallb skip_line]; exact M|].
          repeat split; try assumption.
          -- rewrite H5. cbn [rev]. rewrite <- app_assoc. reflexivity.
          -- intros i t E. discriminate E.
  Qed.

  (** the code the zipper represents executes to a state equal to [sF] *)
  Lemma Inv_code (z : zst) :
    Inv cfg s0 sF z ->
    exists sE, exec_straight cfg (rev (z_pre z) ++ Ins (z_f z) :: rev (z_mid z) ++ z_rest z) s0 = Some sE /\
               eq_state sE sF.
  Proof.
    intros (_ & _ & _ & _ & _ & s1 & s2 & sE & E1 & _ & ST & _ & E2 & REL).
    exists sE. split; [|exact REL]. rewrite exec_app, E1, (exec_ins cfg _ _ s1 s2 ST). exact E2.
  Qed.

  Lemma step_inv (z : zst) : Inv cfg s0 sF z -> Res (step z).
  Proof.
    intros I. pose proof I as (PF & OF & MID & RST & KOK & s1 & s2 & sE & E1 & B1 & ST1 & KS & E2 & REL).
    unfold step. rewrite (step_jmp_straight z RST).
    pose proof (step_second_straight (z_rest z) (z_pre z) (z_f z) (z_mid z) (z_k z) (z_removed z) RST MID) as SS.
    destruct (step_second (z_pre z) (z_f z) (z_mid z) (z_rest z) (z_k z) (z_removed z)) as [c n'|z2].
    - subst c. cbn [Res]. apply Inv_code. exact I.
    - destruct SS as (H1 & H2 & H3 & H4 & H5 & H6 & (i2 & ahead & H7) & H8).
      rewrite H7.
      assert (I2 : Inv cfg s0 sF z2).
      { unfold Inv. rewrite H1, H2, H3, H5. repeat (split; [assumption|]).
        exists s1, s2, sE. repeat (split; [assumption|]). split; [|split; assumption].
        destruct (pswap z) eqn:PS.
        - assert (E : pswap z2 = true).
          { unfold pswap in PS |- *. rewrite H2, H3.
            destruct (z_rest z) as [|[l|i|t sz|cm|] r] eqn:ER;
              try (rewrite andb_false_r in PS; discriminate PS).
            rewrite (H8 i r eq_refl). exact PS. }
          rewrite E. exact KS.
        - destruct (pswap z2); [apply know_sound_kregs|]; exact KS. }
      apply step_pair_inv; [exact H7|exact I2].
  Qed.

  Lemma run_inv (fuel : nat) : forall (z : zst) (c : code) (n : N),
    Inv cfg s0 sF z -> run fuel z = Some (c, n) ->
    exists sE, exec_straight cfg c s0 = Some sE /\ eq_state sE sF.
  Proof.
    induction fuel as [|fuel IH]; intros z c n I R; [discriminate R|].
    cbn [run] in R. pose proof (step_inv z I) as RS.
    destruct (step z) as [c' n'|z'].
    - inversion R; subst. exact RS.
    - exact (IH z' c n RS R).
  Qed.
End Sim.

(** * The initial state of the walk *)

Lemma skip_to_ins_straight (cfg : config) (l : list line) : forall pre0 pre i r,
  skip_to_ins pre0 l = Some (pre, i, r) -> straight_ok cfg l = true ->
  exists sk, forallb skip_line sk = true /\ pre = rev sk ++ pre0 /\ l = sk ++ Ins i :: r.
Proof.
  induction l as [|x l IH]; intros pre0 pre i r H OK; [discriminate H|].
  apply straight_ok_cons in OK. destruct OK as [OK1 OK2].
  destruct x as [lb|j|t sz|cm|]; try discriminate OK1; cbn [skip_to_ins] in H.
  - inversion H; subst. exists []. repeat split; reflexivity.
  - destruct (IH _ _ _ _ H OK2) as (sk & S1 & S2 & S3). exists (Cmt cm :: sk).
    split; [exact S1|]. split; [|rewrite S3; reflexivity].
    rewrite S2. cbn [rev]. rewrite <- app_assoc. reflexivity.
  - destruct (IH _ _ _ _ H OK2) as (sk & S1 & S2 & S3). exists (Dummy :: sk).
    split; [exact S1|]. split; [|rewrite S3; reflexivity].
    rewrite S2. cbn [rev]. rewrite <- app_assoc. reflexivity.
Qed.

Lemma straight_ok_app (cfg : config) (a b : code) :
  straight_ok cfg (a ++ b) = true -> straight_ok cfg a = true /\ straight_ok cfg b = true.
Proof. unfold straight_ok. rewrite forallb_app. intros H. apply andb_true_iff in H. exact H. Qed.

Lemma Inv_init (cfg : config) (c : code) (s sF : mstate) (pre : list line) (i : instr)
      (r : list line) :
  ports cfg = [] -> bytes_ok s -> straight_ok cfg c = true ->
  exec_straight cfg c s = Some sF ->
  skip_to_ins [] c = Some (pre, i, r) ->
  Inv cfg s sF (mkZ pre i [] r (analyse_load AlStart k_init i) 0%N).
Proof.
  intros HP HB OK EX SK.
  destruct (skip_to_ins_straight cfg c [] pre i r SK OK) as (sk & S1 & S2 & S3).
  rewrite app_nil_r in S2. subst pre c.
  apply straight_ok_app in OK. destruct OK as [_ OK]. apply straight_ok_cons in OK.
  destruct OK as [OK1 OK2]. apply line_ok_ins in OK1. destruct OK1 as [PL OI].
  rewrite (exec_skip_app cfg sk _ s S1) in EX. apply exec_ins_inv in EX. destruct EX as (s2 & ST & E2).
  destruct (analyse_start i r) as [AS AR].
  apply (Inv_intro cfg s sF _ s s2 sF); cbn [z_pre z_f z_mid z_rest z_k]; try assumption.
  - reflexivity.
  - rewrite AS. destruct (is_load (i_mn i)); [|apply know_ops_ok_init].
    apply know_ops_ok_transfer; [exact PL|exact OI|apply know_ops_ok_init].
  - rewrite rev_involutive. apply exec_skip. exact S1.
  - left. rewrite AS. destruct (is_load (i_mn i)); [|apply know_sound_init].
    apply (transfer_sound_kept cfg k_init i r s s2); try assumption.
    + apply know_ops_ok_init.
    + apply know_sound_init.
  - apply eq_state_refl.
Qed.

(** * The theorem *)

(** executing the optimised line list gives the same final state as executing the original:
    registers, stack pointer, all four flags, memory *)
Theorem optimize_straight_sound : forall cfg c s s',
  ports cfg = [] -> bytes_ok s -> straight_ok cfg c = true ->
  exec_straight cfg c s = Some s' ->
  exists s'', exec_straight cfg (fst (optimize c)) s = Some s'' /\ eq_state s'' s'.
Proof.
  intros cfg c s s' HP HB OK EX.
  assert (SAME : exists s'', exec_straight cfg c s = Some s'' /\ eq_state s'' s').
  { exists s'. split; [exact EX|apply eq_state_refl]. }
  unfold optimize, optimize_opt.
  destruct (skip_to_ins [] c) as [[[pre i] r]|] eqn:SK; [|exact SAME].
  destruct (run (optimize_fuel c) (mkZ pre i [] r (analyse_load AlStart k_init i) 0%N))
    as [[c' n]|] eqn:R; [|exact SAME].
  cbn [fst].
  exact (run_inv cfg s s' HP (optimize_fuel c) _ c' n (Inv_init cfg c s s' pre i r HP HB OK EX SK) R).
Qed.
Print Assumptions optimize_straight_sound.

(** * [exec_straight] is [Sem.run] on straight-line code

    [GenTemplatesFacts.runs_to cfg c s s']: the code assembles and [Sem.run] executes it from [s]
    (empty call stack, any program around it, any sufficient fuel) to a normal halt in [s']. *)

Lemma exec_straight_fwd (cfg : config) (c : code) : forall s s',
  exec_straight cfg c s = Some s' ->
  exists sl, slines_of c = Some sl /\ GenTemplatesFacts.fwd_ok sl /\
             GenTemplatesFacts.exec_fwd cfg (S (length sl)) sl s = Some s'.
Proof.
  induction c as [|x c IH]; intros s s' E.
  - cbn in E. inversion E; subst. exists []. repeat split.
  - destruct x as [l|i|t sz|cm|]; cbn [exec_straight] in E; try discriminate E.
    + destruct (parse_operand (i_mn i) (i_op i)) as [op|] eqn:P; [|discriminate E].
      destruct (exec cfg (i_mn i) op s) as [s1 k f|w] eqn:X; [|discriminate E].
      destruct f; try discriminate E.
      destruct (IH s1 s' E) as (sl & S1 & S2 & S3).
      exists (SIns (i_mn i) op (i_prot i) (i_op i) :: sl). split; [|split].
      * cbn [slines_of sline_of]. rewrite P, S1. reflexivity.
      * exact S2.
      * cbn [length]. cbn [GenTemplatesFacts.exec_fwd]. rewrite X. exact S3.
    + destruct (IH s s' E) as (sl & S1 & S2 & S3). exists (SSkip :: sl). split; [|split].
      * cbn [slines_of sline_of]. rewrite S1. reflexivity.
      * exact S2.
      * cbn [length]. cbn [GenTemplatesFacts.exec_fwd]. exact S3.
    + destruct (IH s s' E) as (sl & S1 & S2 & S3). exists (SSkip :: sl). split; [|split].
      * cbn [slines_of sline_of]. rewrite S1. reflexivity.
      * exact S2.
      * cbn [length]. cbn [GenTemplatesFacts.exec_fwd]. exact S3.
Qed.

Theorem exec_straight_runs_to : forall cfg c s s',
  exec_straight cfg c s = Some s' -> GenTemplatesFacts.runs_to cfg c s s'.
Proof.
  intros cfg c s s' E. destruct (exec_straight_fwd cfg c s s' E) as (sl & S1 & S2 & S3).
  exact (GenTemplatesFacts.runs_to_intro cfg c sl _ s s' S1 S2 S3).
Qed.
Print Assumptions exec_straight_runs_to.

Lemma plain_falls_through (cfg : config) (m : mnem) (o : operand) (s s' : mstate) (k : N) (f : flow) :
  plain m = true -> exec cfg m o s = XOk s' k f -> f = FNext.
Proof.
  intros PL H. unfold exec in H.
  destruct m; try discriminate PL;
    repeat match type of H with
           | (match ?x with _ => _ end) = _ => destruct x eqn:?
           | (let '(_, _) := ?x in _) = _ => destruct x eqn:?
           end; try discriminate H; inversion H; reflexivity.
Qed.

Lemma run_straight_halt (cfg : config) (prog : sprogram) (inl_sem ext_call : string -> mstate -> option mstate)
      (c : code) :
  forall pre sl s fuel fname tr cy s' tr' cy',
  straight_ok cfg c = true -> slines_of c = Some sl ->
  Sem.run cfg prog inl_sem ext_call fuel fname (pre ++ sl) (length pre) [] s tr cy = Halt s' tr' cy' ->
  exec_straight cfg c s = Some s'.
Proof.
  induction c as [|x c IH]; intros pre sl s fuel fname tr cy s' tr' cy' OK SL R.
  - cbn in SL. inversion SL; subst sl. destruct fuel as [|fuel]; [discriminate R|].
    rewrite GenTemplatesFacts.run_S in R. rewrite app_nil_r in R.
    rewrite (proj2 (nth_error_None pre (length pre))) in R by lia. inversion R; subst. reflexivity.
  - apply straight_ok_cons in OK. destruct OK as [OK1 OK2].
    cbn [slines_of] in SL.
    destruct (sline_of x) as [sx|] eqn:SX; [|discriminate SL].
    destruct (slines_of c) as [slr|] eqn:SR; [|discriminate SL].
    inversion SL; subst sl. clear SL.
    destruct fuel as [|fuel]; [discriminate R|].
    rewrite GenTemplatesFacts.run_S in R. rewrite GenTemplatesFacts.nth_error_mid in R.
    rewrite GenTemplatesFacts.app_cons_assoc in R.
    rewrite <- (GenTemplatesFacts.length_snoc _ pre sx) in R.
    destruct x as [l|i|t sz|cm|]; try discriminate OK1; cbn [sline_of] in SX.
    + apply line_ok_ins in OK1. destruct OK1 as [PL _].
      destruct (parse_operand (i_mn i) (i_op i)) as [op|] eqn:P; [|discriminate SX].
      inversion SX; subst sx. clear SX. cbv zeta in R.
      cbn [exec_straight]. rewrite P.
      destruct (exec cfg (i_mn i) op s) as [s1 k f|w] eqn:X; [|discriminate R].
      pose proof (plain_falls_through cfg _ _ _ _ _ _ PL X) as F. subst f.
      exact (IH _ _ _ _ _ _ _ _ _ _ OK2 eq_refl R).
    + inversion SX; subst sx. cbn [exec_straight]. exact (IH _ _ _ _ _ _ _ _ _ _ OK2 eq_refl R).
    + inversion SX; subst sx. cbn [exec_straight]. exact (IH _ _ _ _ _ _ _ _ _ _ OK2 eq_refl R).
Qed.

Theorem runs_to_exec_straight : forall cfg c s s',
  straight_ok cfg c = true -> GenTemplatesFacts.runs_to cfg c s s' -> exec_straight cfg c s = Some s'.
Proof.
  intros cfg c s s' OK (sl & SL & R).
  destruct (R [] (fun _ _ => None) (fun _ _ => None) ""%string (S (length sl)) (Nat.lt_succ_diag_r _))
    as (tr & cy & H).
  exact (run_straight_halt cfg _ _ _ c [] sl s _ _ _ _ s' tr cy OK SL H).
Qed.
Print Assumptions runs_to_exec_straight.

(** the theorem, on [Sem.run] *)
Theorem optimize_straight_run : forall cfg c s s',
  ports cfg = [] -> bytes_ok s -> straight_ok cfg c = true ->
  GenTemplatesFacts.runs_to cfg c s s' ->
  exists s'', GenTemplatesFacts.runs_to cfg (fst (optimize c)) s s'' /\ eq_state s'' s'.
Proof.
  intros cfg c s s' HP HB OK R. apply runs_to_exec_straight in R; [|exact OK].
  destruct (optimize_straight_sound cfg c s s' HP HB OK R) as (s'' & E & Q).
  exists s''. split; [apply exec_straight_runs_to; exact E|exact Q].
Qed.
Print Assumptions optimize_straight_run.

(** * Non-vacuity: concrete programs *)

#[local] Open Scope string_scope.

(** "w" in page zero, "t" a table at $0200 *)
Definition sim_cfg : config :=
  mkCfg (fun y => if String.eqb y "w" then Some 128 else if String.eqb y "t" then Some 512 else None) [].
Definition sim_ins (m : mnem) (o : string) : line := Ins (mkI m o 2%N None 2%N false).
Definition sim_state : mstate := cx_state 7 7 7 255 (mset (mset mem_empty 128 9) 515 4).

Lemma sim_state_bytes : bytes_ok sim_state.
Proof. unfold sim_state. cx_bytes. Qed.

(** ten instructions: the swap, "STA w; LDA w" (N/Z describe A), remove_first on "LDX; LDX" and
    a look-ahead removal (the second "LDX #2": N/Z describe Y, INY follows) all fire; three
    instructions go *)
Definition sim_code : code :=
  [sim_ins LDA "#3"; sim_ins CLC ""; sim_ins ADC "w"; sim_ins STA "w"; sim_ins LDA "w";
   sim_ins LDX "#1"; sim_ins LDX "#2"; Cmt "y := t[x+1] + 1"; sim_ins LDY "t+1,X";
   sim_ins LDX "#2"; sim_ins INY ""].

Example sim_code_optimized :
  optimize sim_code =
  ([sim_ins CLC ""; sim_ins LDA "#3"; sim_ins ADC "w"; sim_ins STA "w"; Dummy;
    Dummy; sim_ins LDX "#2"; Cmt "y := t[x+1] + 1"; sim_ins LDY "t+1,X";
    Dummy; sim_ins INY ""], 3%N).
Proof. vm_compute. reflexivity. Qed.

Example optimize_straight_sound_example :
  ports sim_cfg = [] /\ bytes_ok sim_state /\ straight_ok sim_cfg sim_code = true /\
  exists s' s'', exec_straight sim_cfg sim_code sim_state = Some s' /\
                 exec_straight sim_cfg (fst (optimize sim_code)) sim_state = Some s'' /\
                 eq_state s'' s' /\ rA s' = 12 /\ rX s' = 2 /\ rY s' = 5 /\ mget (mem s') 128 = 12.
Proof.
  assert (OK : straight_ok sim_cfg sim_code = true) by (vm_compute; reflexivity).
  split; [reflexivity|]. split; [exact sim_state_bytes|]. split; [exact OK|].
  destruct (exec_straight sim_cfg sim_code sim_state) as [s'|] eqn:E; [|vm_compute in E; discriminate E].
  destruct (optimize_straight_sound sim_cfg sim_code sim_state s' eq_refl sim_state_bytes OK E)
    as (s'' & E2 & Q).
  exists s', s''. split; [reflexivity|]. split; [exact E2|]. split; [exact Q|].
  vm_compute in E. inversion E. vm_compute. repeat split; reflexivity.
Qed.
Print Assumptions optimize_straight_sound_example.

(** * Regression: programs on which the model, before its repairs, changed the final Z flag

    Before "STA o; LDA o" and "ORA #0" were restricted to the case where N/Z describe A, and
    before the knowledge recorded with a look-ahead removal was corrected, each of these ended with
    Z set in the original and clear in the optimised code (resp. the converse for the last).  Now
    the offending removal is not made and, by the theorem, the final states are equal. *)
Definition nz_regression (c : code) (removed : N) : Prop :=
  straight_ok sim_cfg c = true /\ snd (optimize c) = removed /\
  exists s' s'', exec_straight sim_cfg c sim_state = Some s' /\
                 exec_straight sim_cfg (fst (optimize c)) sim_state = Some s'' /\
                 eq_state s'' s'.

Ltac nz_reg :=
  match goal with |- nz_regression ?c _ =>
    assert (OK : straight_ok sim_cfg c = true) by (vm_compute; reflexivity);
    split; [exact OK|]; split; [vm_compute; reflexivity|];
    destruct (exec_straight sim_cfg c sim_state) as [s'|] eqn:E; [|vm_compute in E; discriminate E];
    destruct (optimize_straight_sound sim_cfg c sim_state s' eq_refl sim_state_bytes OK E)
      as (s'' & E2 & Q);
    exists s', s''; split; [reflexivity|]; split; [exact E2|exact Q]
  end.

(** "STA w; LDA w" while N/Z describe X: the reload is kept *)
Example sta_lda_fixed :
  nz_regression [sim_ins LDA "#0"; sim_ins LDX "#1"; sim_ins STA "w"; sim_ins LDA "w"] 0%N.
Proof. nz_reg. Qed.

(** "ORA #0" while N/Z describe X: kept *)
Example ora_zero_fixed :
  nz_regression [sim_ins LDA "#0"; sim_ins LDX "#1"; sim_ins ORA "#0"] 0%N.
Proof. nz_reg. Qed.

(** the LDA look-ahead ("STA follows, then a load"): the first reload goes, and the load looked
    at is now kept, because the knowledge no longer claims that N/Z describe A *)
Example lookahead_sta_fixed :
  nz_regression [sim_ins LDA "#0"; sim_ins LDX "#1"; sim_ins LDA "#0"; sim_ins STA "w";
                 sim_ins LDA "#0"] 1%N.
Proof. nz_reg. Qed.

(** the LDY look-ahead: the TXA looked at is still removed by the pair rule "TAX; TXA" (which is
    sound on its own), the last LDY is now kept *)
Example lookahead_ldy_fixed :
  nz_regression [sim_ins LDY "#5"; sim_ins LDA "#0"; sim_ins TAX ""; sim_ins LDY "#5";
                 sim_ins TXA ""; sim_ins LDY "#5"] 2%N.
Proof. nz_reg. Qed.

(** * The side condition is needed *)

(** the ",Y" clause of the scan: "LDX v,Y" wraps in page zero, the "LDA v,Y" the optimiser removes
    does not (v = $80, Y = $90): A differs *)
Example zp_y_changes_a :
  exists cfg c s s' s'',
    ports cfg = [] /\ bytes_ok s /\ straight_ok cfg c = false /\
    forallb (fun l => match l with Ins i => plain (i_mn i) | _ => true end) c = true /\
    exec_straight cfg c s = Some s' /\ exec_straight cfg (fst (optimize c)) s = Some s'' /\
    rA s' = 2 /\ rA s'' = 1.
Proof.
  exists (cx_cfg "v" 128), [sim_ins LDX "v,Y"; sim_ins TXA ""; sim_ins LDA "v,Y"],
         (cx_state 0 1 144 255 (mset (mset mem_empty 16 1) 272 2)).
  eexists. eexists.
  split; [reflexivity|]. split; [cx_bytes|]. split; [vm_compute; reflexivity|].
  split; [vm_compute; reflexivity|]. split; [vm_compute; reflexivity|].
  split; [vm_compute; reflexivity|]. split; vm_compute; reflexivity.
Qed.
Print Assumptions zp_y_changes_a.
