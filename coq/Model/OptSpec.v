(** Specification-side definitions for the structural facts about [optimize]. *)
From Coq Require Import String Ascii List Bool NArith ZArith.
From CC Require Import Base.Str Asm.Lines Model.Optimize.
Import ListNotations.

(** lines the optimiser must never remove, duplicate or reorder (C18): protected instructions
    and inline assembly *)
Definition is_marked (l : line) : bool :=
  match l with
  | Ins i => i_prot i
  | Inl _ _ => true
  | _ => false
  end.
Definition marked (c : code) : list line := filter is_marked c.

Definition is_label (l : line) : bool := match l with Lbl _ => true | _ => false end.
Definition labels_of (c : code) : list line := filter is_label c.

Definition is_flag_setter (m : mnem) : bool := match m with SEC | CLC => true | _ => false end.

(** no SEC/CLC is protected (true of everything the generator emits: [sasm_protected] is only
    used for NOP, PHA, PLA) *)
Definition no_protected_carry_ops (c : code) : Prop :=
  forall i, In (Ins i) c -> is_flag_setter (i_mn i) = true -> i_prot i = false.
