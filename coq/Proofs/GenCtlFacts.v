(** COMPOSITION theorems for the do-while, for and switch templates of Model/GenCtl.v on the
    executable 6502 semantics (M6502/Sem.v), for ALL byte-valued machine states and ANY body code
    with the interface of Proofs/GenIfFacts.v: a specification ([halts_to] ... /\ R), [no_ret]
    (no RTS / RTI), and the labels: here stated once for the whole statement,
    [NoDup (defs (<template> ...))]: no label is defined twice in the emitted code (the labels of
    the template are distinct, the bodies do not define them, two bodies do not define the same
    label, and no body defines a label twice; true of every output of the compiler, whose local
    labels are numbered by counters).

    [dowhile_tpl_correct]  the do-while rule: invariant at the head, postcondition of the body,
                           measure; the body is executed at least once
    [for_tpl_correct]      init, then the while rule on body; update
    [for_tpl_break_correct]  the body may leave the loop by a jump to the end label ([break]):
                           its specification is given on [Sem.run] inside any code ([body_exits])
    [switch_tpl_correct]   for ANY list of cases (values, statements, break / fall-through) and an
                           optional default, on a memory operand or on X: the code executes, one
                           after the other, exactly the bodies [switch_sem] computes: from the
                           first case one of whose values is the operand, on through the
                           fall-through cases until a [break] or the end (the default if it is
                           reached, or if no case matches)
    and the instances on the ten listing programs, with closed forms. *)
From Coq Require Import String Ascii List Bool Arith NArith ZArith Lia ZifyBool.
From CC Require Import Base.Str Asm.Lines M6502.Isa Asm.Operand M6502.Sem
  Model.OptSem Proofs.OptSemFacts Model.CheckBranches Model.CbSpec
  Model.GenTemplates Proofs.GenTemplatesFacts Proofs.GenCmp16Facts Model.GenLoops
  Proofs.GenLoopsFacts Model.GenTables Proofs.GenTablesFacts Model.GenIf Proofs.GenIfFacts
  Model.GenCtl.
Import ListNotations.
Open Scope string_scope.
Open Scope list_scope.
Open Scope Z_scope.

Ltac Zify.zify_post_hook ::= Z.div_mod_to_equations.

(** * No label defined twice *)

Lemma nodup_app_disjoint : forall (A : Type) (x y : list A) a,
  NoDup (x ++ y) -> In a x -> In a y -> False.
Proof.
  intros A x. induction x as [|b x IH]; intros y a H Hx Hy; [contradiction|].
  cbn [app] in H. inversion H as [|? ? Hn Hd]; subst.
  destruct Hx as [E|Hx]; [subst b; apply Hn; apply in_or_app; right; exact Hy|].
  exact (IH y a Hd Hx Hy).
Qed.

Lemma nodup_app_r : forall (A : Type) (x y : list A), NoDup (x ++ y) -> NoDup y.
Proof.
  intros A x. induction x as [|b x IH]; intros y H; [exact H|].
  cbn [app] in H. inversion H; subst. apply IH. assumption.
Qed.

Lemma find_label_nodup : forall sl a l b, NoDup (sdefs sl) -> sl = a ++ SLbl l :: b ->
  find_label l sl 0 = Some (length a).
Proof.
  intros sl a l b Hn ->. apply find_label_mid.
  rewrite sdefs_app in Hn. cbn [sdefs] in Hn. intros Hin.
  apply (nodup_app_disjoint _ _ _ l Hn Hin). left. reflexivity.
Qed.

Lemma nodup_body_fresh : forall pre slB post, NoDup (sdefs (pre ++ slB ++ post)) ->
  forall l, In l (sdefs slB) -> ~ In l (sdefs pre).
Proof.
  intros pre slB post Hn l Hl Hp. rewrite !sdefs_app in Hn.
  apply (nodup_app_disjoint _ _ _ l Hn Hp). apply in_or_app. left. exact Hl.
Qed.

Lemma reach_body_nd : forall cfg c slB pre post pc N st st' (Q : nat -> nat -> mstate -> Prop),
  NoDup (sdefs c) -> c = pre ++ slB ++ post -> pc = length pre ->
  sl_halts cfg slB N st st' -> no_ret_s slB ->
  (forall n, (n <= N)%nat -> Q n (length pre + length slB)%nat st') ->
  reach cfg c pc st Q.
Proof.
  intros cfg c slB pre post pc N st st' Q Hn Ec Epc Hh Hnr HQ.
  apply (reach_body cfg c slB pre post pc N st st' Q Ec Epc Hh Hnr); [|exact HQ].
  rewrite Ec in Hn. apply (nodup_body_fresh pre slB post Hn).
Qed.

(** a string that is in no given list: longer than all of them *)
Fixpoint maxlen (l : list string) : nat :=
  match l with [] => O | s :: r => Nat.max (String.length s) (maxlen r) end.
Fixpoint xs (n : nat) : string := match n with O => ""%string | S m => String "x"%char (xs m) end.

Lemma xs_length : forall n, String.length (xs n) = n.
Proof. induction n as [|n IH]; [reflexivity|]. cbn [xs String.length]. rewrite IH. reflexivity. Qed.

Lemma in_maxlen : forall l s, In s l -> (String.length s <= maxlen l)%nat.
Proof.
  induction l as [|x l IH]; intros s H; [contradiction|].
  cbn [maxlen]. destruct H as [->|H]; [lia|]. pose proof (IH s H). lia.
Qed.

Lemma fresh_string : forall l : list string, exists h, h <> ""%string /\ ~ In h l.
Proof.
  intros l. exists (xs (S (maxlen l))). split; [cbn [xs]; discriminate|].
  intros H. apply in_maxlen in H. rewrite xs_length in H. lia.
Qed.

(** * The two forms of the condition *)

Lemma cond_neg_code : forall c lbl here, pcond_code_at c lbl here = cond_code_at (cond_neg c) lbl here.
Proof.
  intros c lbl here. unfold pcond_code_at, cond_code_at.
  destruct c as [o x y|o x k]; cbn [cond_neg cond_op cond_lhs cond_rhs];
    rewrite negate_op_involutive; reflexivity.
Qed.

Lemma cond_neg_wf : forall cfg c, cond_wf cfg c -> cond_wf cfg (cond_neg c).
Proof. intros cfg c H. destruct c; exact H. Qed.

Lemma cond_neg_holds : forall cfg c st, cond_holds cfg (cond_neg c) st = negb (cond_holds cfg c st).
Proof.
  intros cfg c st. unfold cond_holds. destruct c as [o x y|o x k]; cbn [cond_neg cond_op];
    rewrite negate_op_correct; reflexivity.
Qed.

Lemma cond_neg_state : forall cfg c st, cond_state cfg (cond_neg c) st = cond_state cfg c st.
Proof. intros cfg c st. destruct c; reflexivity. Qed.

(** the assembled lines of [pcond_code_at] *)
Definition spcond_code (c : cond8) (lbl here : string) : list sline :=
  scond_code (cond_neg c) lbl here.

Lemma slines_pcond_code : forall cfg c lbl here, cond_wf cfg c ->
  lbl <> ""%string -> here <> ""%string ->
  slines_of (pcond_code_at c lbl here) = Some (spcond_code c lbl here).
Proof.
  intros cfg c lbl here Hw Hl Hh. rewrite cond_neg_code.
  apply (slines_cond_code cfg); [apply cond_neg_wf; exact Hw|exact Hl|exact Hh].
Qed.

(** [here] matters only in the form that defines it *)
Lemma scond_code_here : forall c lbl here h,
  negate_op (cond_op c) <> RGt -> scond_code c lbl here = scond_code c lbl h.
Proof.
  intros c lbl here h H. unfold scond_code.
  destruct (negate_op (cond_op c)); try reflexivity. contradiction.
Qed.

Lemma scond_code_defs_here : forall c lbl here,
  negate_op (cond_op c) = RGt -> In here (sdefs (scond_code c lbl here)).
Proof.
  intros c lbl here H. unfold scond_code. rewrite H, sdefs_app. apply in_or_app. right.
  cbn [sbranch_seq sdefs sbr In]. left. reflexivity.
Qed.

Lemma relop_eq_dec : forall a b : relop, {a = b} + {a <> b}.
Proof. decide equality. Qed.

(** the condition inside a code without duplicate labels *)
Lemma cond_reach_nd : forall cfg c lbl here sl pre post kl st,
  ports cfg = [] -> cond_wf cfg c -> lbl <> here ->
  NoDup (sdefs sl) -> sl = pre ++ scond_code c lbl here ++ post ->
  find_label lbl sl 0 = Some kl -> bytes_ok st ->
  reach cfg sl (length pre) st
    (fun (n pc' : nat) (s' : mstate) =>
       (n <= length (scond_code c lbl here))%nat /\ s' = cond_state cfg c st /\
       pc' = if cond_holds cfg c st then (length pre + length (scond_code c lbl here))%nat else kl).
Proof.
  intros cfg c lbl here sl pre post kl st Hp Hw Hne Hnd Esl Hkl Hb.
  destruct (relop_eq_dec (negate_op (cond_op c)) RGt) as [E|E].
  - subst sl. apply cond_reach; try assumption.
    apply (nodup_body_fresh pre _ post Hnd). apply scond_code_defs_here. exact E.
  - destruct (fresh_string (lbl :: sdefs pre)) as (h & Hh & Hfr).
    rewrite (scond_code_here c lbl here h E) in Esl |- *. subst sl.
    apply cond_reach; try assumption.
    + intros E'. apply Hfr. left. exact E'.
    + intros Hin. apply Hfr. right. exact Hin.
Qed.
Print Assumptions cond_reach_nd.

(** solve [sl = a ++ x :: b] for a given [a], and [pc = length a] *)
Ltac split_tac :=
  subst; repeat first [rewrite <- app_assoc | progress cbn [app]]; reflexivity.
Ltac len_tac := subst; rewrite ?app_length; cbn [length]; rewrite ?app_length; cbn [length]; lia.

(** * do-while *)

Lemma slines_dowhile_tpl : forall cfg c B slB lhead lend here, cond_wf cfg c ->
  lhead <> ""%string -> here <> ""%string -> slines_of B = Some slB ->
  slines_of (dowhile_tpl_at c B lhead lend here)
  = Some ([SLbl lhead] ++ slB ++ spcond_code c lhead here ++ [SLbl lend]).
Proof.
  intros cfg c B slB lhead lend here Hw Hh He HB. unfold dowhile_tpl_at.
  apply slines_app; [reflexivity|].
  apply slines_app; [exact HB|].
  apply slines_app; [apply (slines_pcond_code cfg); assumption|reflexivity].
Qed.

(** one pass from the head: the body, then back at the head when the condition holds on the state
    the body leaves, past the end label otherwise *)
Lemma dowhile_pass : forall cfg c slB lhead lend here N sl s s1,
  ports cfg = [] -> cond_wf cfg c -> lhead <> here ->
  sl = [SLbl lhead] ++ slB ++ spcond_code c lhead here ++ [SLbl lend] ->
  NoDup (sdefs sl) -> no_ret_s slB ->
  sl_halts cfg slB N s s1 -> bytes_ok s1 ->
  reach cfg sl 0 s
    (fun (_ pc' : nat) (s' : mstate) =>
       s' = cond_state cfg c s1 /\ pc' = if cond_holds cfg c s1 then 0%nat else length sl).
Proof.
  intros cfg c slB lhead lend here N sl s s1 Hp Hw Nhh Esl Hnd Hnr Hh Hb1.
  unfold spcond_code in Esl.
  assert (Hkhead : find_label lhead sl 0 = Some 0%nat)
    by (apply (find_label_nodup sl [] lhead (slB ++ scond_code (cond_neg c) lhead here ++ [SLbl lend]) Hnd);
        split_tac).
  eapply (reach_lbl_mid cfg sl []); [split_tac|reflexivity|].
  apply reach_seq.
  eapply (reach_body_nd cfg sl slB [SLbl lhead] _ _ N s s1); [exact Hnd|exact Esl|reflexivity|exact Hh|exact Hnr|].
  intros n1 Hn1. cbv beta.
  apply reach_seq.
  eapply reach_weaken;
    [|apply (cond_reach_nd cfg (cond_neg c) lhead here sl ([SLbl lhead] ++ slB) [SLbl lend] 0%nat s1
               Hp (cond_neg_wf _ _ Hw) Nhh Hnd); [split_tac|exact Hkhead|exact Hb1]].
  intros n pc' s' (Hn & Hs & Hpc). cbv beta. subst s'.
  rewrite cond_neg_state. rewrite cond_neg_holds in Hpc.
  destruct (cond_holds cfg c s1); cbn [negb] in Hpc.
  - apply reach_stop. split; [reflexivity|exact Hpc].
  - eapply (reach_lbl_mid cfg sl (([SLbl lhead] ++ slB) ++ scond_code (cond_neg c) lhead here));
      [split_tac|rewrite Hpc; len_tac|].
    apply reach_stop. split; [reflexivity|]. rewrite Hpc. len_tac.
Qed.
Print Assumptions dowhile_pass.

(** ** [dowhile_tpl_correct]: the do-while rule (total correctness)

    [I] holds at the head, before the body; [Q] is what the body establishes; [mu] is the measure;
    all three are about memory, X, Y, S only.  From a byte-valued state satisfying [I] the body
    halts in a state satisfying [Q]; if the C condition holds there, [I] holds again and the
    measure, still non-negative, is smaller.  Then [do B while (c)] halts from every byte-valued
    state satisfying [I] (the body is executed at least once), in a state that satisfies [Q]
    and not the condition. *)
Theorem dowhile_tpl_correct : forall cfg c B lhead lend here
    (I Q : mstate -> Prop) (mu : mstate -> Z) st,
  ports cfg = [] -> cond_wf cfg c ->
  lhead <> ""%string -> here <> ""%string -> lhead <> here ->
  NoDup (defs (dowhile_tpl_at c B lhead lend here)) -> no_ret B ->
  (forall s s', same_mxys s s' -> I s -> I s') ->
  (forall s s', same_mxys s s' -> Q s -> Q s') ->
  (forall s s', same_mxys s s' -> mu s' = mu s) ->
  (forall s, bytes_ok s -> I s ->
     exists s', halts_to cfg B s s' /\ Q s' /\
       (cond_holds cfg c s' = true -> I s' /\ 0 <= mu s' < mu s)) ->
  bytes_ok st -> I st ->
  exists st', halts_to cfg (dowhile_tpl_at c B lhead lend here) st st' /\
    Q st' /\ cond_holds cfg c st' = false /\ bytes_ok st'.
Proof.
  intros cfg c B lhead lend here I Q mu st Hp Hw Hh He Nhh Hnd Hnr HI HQ Hmu Hbody Hb Hinv.
  destruct (Hbody st Hb Hinv) as (s0 & (slB & HslB & _) & _).
  pose proof (slines_dowhile_tpl cfg c B slB lhead lend here Hw Hh He HslB) as Hsl.
  rewrite <- (slines_defs _ _ Hsl) in Hnd.
  pose proof (slines_no_ret _ _ HslB Hnr) as Hnrs.
  eapply halts_to_reach; [exact Hsl|].
  eapply (loop_rule cfg _ 0%nat _
            (fun k s => I s /\ bytes_ok s /\ k = mu s)
            (fun s' => Q s' /\ cond_holds cfg c s' = false /\ bytes_ok s'))
    with (k := mu st); [|split; [exact Hinv|split; [exact Hb|reflexivity]]].
  intros k s (Hi & Hbs & Hk).
  destruct (Hbody s Hbs Hi) as (s1 & Hr & Hq & Hagain).
  destruct (halts_to_sl_halts cfg B slB _ _ HslB Hr) as (N & HN).
  pose proof (halts_to_bytes_ok cfg B _ _ Hr Hbs) as Hb1.
  pose proof (cond_state_same cfg c s1) as Hsame.
  eapply reach_weaken;
    [|apply (dowhile_pass cfg c slB lhead lend here N _ s s1 Hp Hw Nhh eq_refl Hnd Hnrs HN Hb1)].
  intros n pc' s' (Hs & Hpc). cbv beta. subst s'.
  destruct (cond_holds cfg c s1) eqn:Ec.
  - destruct (Hagain eq_refl) as (Hi1 & Hm1).
    left. split; [exact Hpc|]. exists (mu s1). split; [lia|].
    split; [apply (HI _ _ Hsame Hi1)|]. split; [apply cond_state_bytes_ok; exact Hb1|].
    rewrite (Hmu _ _ Hsame). reflexivity.
  - right. split; [exact Hpc|]. split; [apply (HQ _ _ Hsame Hq)|].
    split; [rewrite cond_holds_state; exact Ec|apply cond_state_bytes_ok; exact Hb1].
Qed.
Print Assumptions dowhile_tpl_correct.

(** * Bodies that may leave by a jump: [break], [continue]

    What the body [B] of a loop does from [s] inside ANY code [sl = pre ++ B ++ post] without
    duplicate labels in which [lbrk] and [lcont] are defined (lines [kb], [kc]): [Sem.run] goes
    from the first line of [B] either to the line after its last, in a state satisfying [Nm]; or,
    by a jump to [lbrk], to line [kb] in a state satisfying [Bk]; or, by a jump to [lcont], to line
    [kc] in a state satisfying [Ct]. *)
Definition body_exits (cfg : config) (B : code) (lbrk lcont : string) (s : mstate)
    (Nm Bk Ct : mstate -> Prop) : Prop :=
  exists slB, slines_of B = Some slB /\
    forall sl pre post kb kc, sl = pre ++ slB ++ post -> NoDup (sdefs sl) ->
      find_label lbrk sl 0 = Some kb -> find_label lcont sl 0 = Some kc ->
      reach cfg sl (length pre) s
        (fun (_ pc' : nat) (s' : mstate) =>
           (pc' = (length pre + length slB)%nat /\ Nm s') \/ (pc' = kb /\ Bk s') \/ (pc' = kc /\ Ct s')).

(** a body that halts by falling off its end, without RTS / RTI, never takes the two jumps *)
Lemma halts_body_exits : forall cfg B lbrk lcont s s' (Nm : mstate -> Prop),
  halts_to cfg B s s' -> no_ret B -> Nm s' ->
  body_exits cfg B lbrk lcont s Nm (fun _ => False) (fun _ => False).
Proof.
  intros cfg B lbrk lcont s s' Nm Hr Hnr HN.
  pose proof Hr as (slB & HslB & _). exists slB. split; [exact HslB|].
  intros sl pre post kb kc Esl Hnd _ _.
  destruct (halts_to_sl_halts cfg B slB _ _ HslB Hr) as (N & HN').
  eapply (reach_body_nd cfg sl slB pre post _ N s s');
    [exact Hnd|exact Esl|reflexivity|exact HN'|apply (slines_no_ret _ _ HslB Hnr)|].
  intros n _. left. split; [reflexivity|exact HN].
Qed.
Print Assumptions halts_body_exits.

(** * for *)

Lemma slines_for_tpl : forall cfg Init c U B slI slU slB lfor lupd lend here, cond_wf cfg c ->
  lfor <> ""%string -> lend <> ""%string -> here <> ""%string ->
  slines_of Init = Some slI -> slines_of U = Some slU -> slines_of B = Some slB ->
  slines_of (for_tpl_at Init c U B lfor lupd lend here)
  = Some (slI ++ scond_code c lend here ++ [SLbl lfor] ++ slB ++ [SLbl lupd] ++ slU
          ++ spcond_code c lfor here ++ [SLbl lend]).
Proof.
  intros cfg Init c U B slI slU slB lfor lupd lend here Hw Hf Hd Hh HI HU HB. unfold for_tpl_at.
  apply slines_app; [exact HI|].
  apply slines_app; [apply (slines_cond_code cfg); assumption|].
  apply slines_app; [reflexivity|].
  apply slines_app; [exact HB|].
  apply slines_app; [reflexivity|].
  apply slines_app; [exact HU|].
  apply slines_app; [apply (slines_pcond_code cfg); assumption|reflexivity].
Qed.

(** one pass from the [.for] label, the condition holding: body (which may [break] or
    [continue]), update, condition; back at the [.for] label or past the end label *)
Lemma for_pass : forall cfg c slI slB slU lfor lupd lend here sl s
    (J K Bk : mstate -> Prop),
  ports cfg = [] -> cond_wf cfg c -> lfor <> here ->
  sl = slI ++ scond_code c lend here ++ [SLbl lfor] ++ slB ++ [SLbl lupd] ++ slU
       ++ spcond_code c lfor here ++ [SLbl lend] ->
  NoDup (sdefs sl) -> no_ret_s slU ->
  reach cfg sl (S (length (slI ++ scond_code c lend here))) s
    (fun (_ pc' : nat) (s1 : mstate) =>
       (pc' = length (slI ++ scond_code c lend here ++ [SLbl lfor] ++ slB) /\ J s1) \/
       (pc' = length (slI ++ scond_code c lend here ++ [SLbl lfor] ++ slB ++ [SLbl lupd] ++ slU
                      ++ spcond_code c lfor here) /\ Bk s1)) ->
  (forall s1, J s1 -> exists N s2, sl_halts cfg slU N s1 s2 /\ bytes_ok s2 /\ K s2) ->
  reach cfg sl (length (slI ++ scond_code c lend here)) s
    (fun (_ pc' : nat) (s' : mstate) =>
       (pc' = length (slI ++ scond_code c lend here) /\
        exists s2, K s2 /\ s' = cond_state cfg c s2 /\ cond_holds cfg c s2 = true) \/
       (pc' = length sl /\
        ((exists s2, K s2 /\ s' = cond_state cfg c s2 /\ cond_holds cfg c s2 = false) \/ Bk s'))).
Proof.
  intros cfg c slI slB slU lfor lupd lend here sl s J K Bk Hp Hw Nfh Esl Hnd Hnr HB HU.
  unfold spcond_code in *.
  remember (scond_code c lend here) as sc1 eqn:E1.
  remember (scond_code (cond_neg c) lfor here) as sc2 eqn:E2.
  assert (Hkfor : find_label lfor sl 0 = Some (length (slI ++ sc1)))
    by (apply (find_label_nodup sl (slI ++ sc1) lfor
                 (slB ++ [SLbl lupd] ++ slU ++ sc2 ++ [SLbl lend]) Hnd); split_tac).
  assert (Hlen : length sl
                 = S (length (slI ++ sc1 ++ [SLbl lfor] ++ slB ++ [SLbl lupd] ++ slU ++ sc2)))
    by len_tac.
  eapply (reach_lbl_mid cfg sl (slI ++ sc1)); [split_tac|reflexivity|].
  apply reach_seq.
  eapply reach_weaken; [|exact HB].
  intros n pc' s1 [[Hpc Hj]|[Hpc Hbk]]; cbv beta.
  - destruct (HU s1 Hj) as (N & s2 & Hh & Hb2 & Hk).
    eapply (reach_lbl_mid cfg sl (slI ++ sc1 ++ [SLbl lfor] ++ slB)); [split_tac|exact Hpc|].
    apply reach_seq.
    eapply (reach_body_nd cfg sl slU (slI ++ sc1 ++ [SLbl lfor] ++ slB ++ [SLbl lupd])
              (sc2 ++ [SLbl lend]) _ N s1 s2);
      [exact Hnd|split_tac|rewrite Hpc; len_tac|exact Hh|exact Hnr|].
    intros n1 Hn1. cbv beta.
    apply reach_seq.
    pose proof (cond_reach_nd cfg (cond_neg c) lfor here sl
                  ((slI ++ sc1 ++ [SLbl lfor] ++ slB ++ [SLbl lupd]) ++ slU) [SLbl lend]
                  (length (slI ++ sc1)) s2 Hp (cond_neg_wf _ _ Hw) Nfh Hnd) as Hcond.
    rewrite <- E2 in Hcond. specialize (Hcond ltac:(split_tac) Hkfor Hb2).
    rewrite <- (app_length (slI ++ sc1 ++ [SLbl lfor] ++ slB ++ [SLbl lupd]) slU).
    eapply reach_weaken; [|exact Hcond].
    intros n2 pc2 s' (Hn2 & Hs & Hpc2). cbv beta. subst s'.
    rewrite cond_neg_state. rewrite cond_neg_holds in Hpc2.
    destruct (cond_holds cfg c s2) eqn:Ec; cbn [negb] in Hpc2.
    + apply reach_stop. left. split; [exact Hpc2|]. exists s2. repeat split; assumption.
    + eapply (reach_lbl_mid cfg sl
                (slI ++ sc1 ++ [SLbl lfor] ++ slB ++ [SLbl lupd] ++ slU ++ sc2));
        [split_tac|rewrite Hpc2; len_tac|].
      apply reach_stop. right. split; [rewrite Hpc2, Hlen; len_tac|].
      left. exists s2. repeat split; assumption.
  - eapply (reach_lbl_mid cfg sl
              (slI ++ sc1 ++ [SLbl lfor] ++ slB ++ [SLbl lupd] ++ slU ++ sc2));
      [split_tac|exact Hpc|].
    apply reach_stop. right. split; [rewrite Hpc, Hlen; reflexivity|]. right. exact Hbk.
Qed.
Print Assumptions for_pass.

(** ** [for_tpl_break_correct]: the for rule for a body that may [break] / [continue]

    [Init] halts in a state satisfying the invariant [I].  Whenever [I] and the C condition hold
    (byte-valued state [s]), the measure is non-negative and the body ([body_exits]: on [Sem.run]
    inside the whole statement) either ends normally or jumps to the update label ([continue]),
    in a byte-valued state [s1] with [J s s1], or jumps to the end label ([break]) in a byte-valued
    state satisfying [Bk].  From such an [s1] the update halts in a state where [I] holds again
    and the measure is smaller.  Then the for statement halts, and either [I] holds and the
    condition does not, or the loop was left by [break] and [Bk] holds. *)
Theorem for_tpl_break_correct : forall cfg Init c U B lfor lupd lend here
    (I Bk : mstate -> Prop) (J : mstate -> mstate -> Prop) (mu : mstate -> Z) st,
  ports cfg = [] -> cond_wf cfg c ->
  lfor <> ""%string -> lend <> ""%string -> here <> ""%string -> lfor <> here -> lend <> here ->
  NoDup (defs (for_tpl_at Init c U B lfor lupd lend here)) ->
  no_ret Init -> no_ret U ->
  (exists slB, slines_of B = Some slB) -> (exists slU, slines_of U = Some slU) ->
  (forall s s', same_mxys s s' -> I s -> I s') ->
  (forall s s', same_mxys s s' -> mu s' = mu s) ->
  (exists s0, halts_to cfg Init st s0 /\ I s0) ->
  (forall s, bytes_ok s -> I s -> cond_holds cfg c s = true ->
     0 <= mu s /\
     body_exits cfg B lend lupd s (fun s1 => bytes_ok s1 /\ J s s1)
       (fun s1 => bytes_ok s1 /\ Bk s1) (fun s1 => bytes_ok s1 /\ J s s1)) ->
  (forall s s1, bytes_ok s1 -> J s s1 -> exists s2, halts_to cfg U s1 s2 /\ I s2 /\ mu s2 < mu s) ->
  bytes_ok st ->
  exists st', halts_to cfg (for_tpl_at Init c U B lfor lupd lend here) st st' /\
    bytes_ok st' /\ ((I st' /\ cond_holds cfg c st' = false) \/ Bk st').
Proof.
  intros cfg Init c U B lfor lupd lend here I Bk J mu st Hp Hw Hf Hd Hh Nfh Ndh Hnd HnrI HnrU
    (slB & HslB) (slU & HslU) HI Hmu (s0 & Hinit & Hi0) Hbody Hupd Hb.
  pose proof Hinit as (slI & HslI & _).
  pose proof (slines_for_tpl cfg Init c U B slI slU slB lfor lupd lend here Hw Hf Hd Hh
                HslI HslU HslB) as Hsl.
  rewrite <- (slines_defs _ _ Hsl) in Hnd.
  pose proof (slines_no_ret _ _ HslU HnrU) as HnrUs.
  destruct (halts_to_sl_halts cfg Init slI _ _ HslI Hinit) as (N0 & HN0).
  pose proof (halts_to_bytes_ok cfg Init _ _ Hinit Hb) as Hb0.
  eapply halts_to_reach; [exact Hsl|].
  unfold spcond_code in *.
  remember (scond_code c lend here) as sc1 eqn:E1.
  remember (scond_code (cond_neg c) lfor here) as sc2 eqn:E2.
  remember (slI ++ sc1 ++ [SLbl lfor] ++ slB ++ [SLbl lupd] ++ slU ++ sc2 ++ [SLbl lend])
    as sl eqn:Esl.
  assert (Hkend : find_label lend sl 0
                  = Some (length (slI ++ sc1 ++ [SLbl lfor] ++ slB ++ [SLbl lupd] ++ slU ++ sc2)))
    by (apply (find_label_nodup sl _ lend [] Hnd); split_tac).
  assert (Hkupd : find_label lupd sl 0 = Some (length (slI ++ sc1 ++ [SLbl lfor] ++ slB)))
    by (apply (find_label_nodup sl _ lupd (slU ++ sc2 ++ [SLbl lend]) Hnd); split_tac).
  assert (Hlen : length sl
                 = S (length (slI ++ sc1 ++ [SLbl lfor] ++ slB ++ [SLbl lupd] ++ slU ++ sc2)))
    by len_tac.
  (* the initialisation *)
  apply reach_seq.
  eapply (reach_body_nd cfg sl slI [] _ _ N0 st s0);
    [exact Hnd|exact Esl|reflexivity|exact HN0|apply (slines_no_ret _ _ HslI HnrI)|].
  intros n0 Hn0. cbv beta. cbn [length Nat.add].
  (* the first test *)
  pose proof (cond_reach_nd cfg c lend here sl slI
                ([SLbl lfor] ++ slB ++ [SLbl lupd] ++ slU ++ sc2 ++ [SLbl lend])
                (length (slI ++ sc1 ++ [SLbl lfor] ++ slB ++ [SLbl lupd] ++ slU ++ sc2))
                s0 Hp Hw Ndh Hnd) as Hcond.
  rewrite <- E1 in Hcond. specialize (Hcond Esl Hkend Hb0).
  apply reach_seq.
  eapply reach_weaken; [|exact Hcond].
  intros n1 pc1 s1 (Hn1 & Hs1 & Hpc1). cbv beta. subst s1.
  pose proof (cond_state_same cfg c s0) as Hsame0.
  destruct (cond_holds cfg c s0) eqn:Ec0.
  - (* the loop *)
    rewrite <- app_length in Hpc1. subst pc1.
    eapply reach_weaken;
      [|apply (loop_rule cfg sl (length (slI ++ sc1)) (length sl)
                 (fun k s => I s /\ bytes_ok s /\ cond_holds cfg c s = true /\ k = mu s)
                 (fun s' => bytes_ok s' /\ ((I s' /\ cond_holds cfg c s' = false) \/ Bk s')))
          with (k := mu (cond_state cfg c s0))].
    + intros n pc' s' HP. exact HP.
    + intros k s (Hi & Hbs & Hc & Hk).
      destruct (Hbody s Hbs Hi Hc) as (Hm0 & slB' & HslB' & Hex).
      rewrite HslB in HslB'. inversion HslB'; subst slB'.
      pose proof (Hex sl (slI ++ sc1 ++ [SLbl lfor]) ([SLbl lupd] ++ slU ++ sc2 ++ [SLbl lend])
                    _ _ ltac:(split_tac) Hnd Hkend Hkupd) as HB.
      pose proof (for_pass cfg c slI slB slU lfor lupd lend here sl s
                    (fun s1 => bytes_ok s1 /\ J s s1)
                    (fun s2 => bytes_ok s2 /\ I s2 /\ mu s2 < mu s)
                    (fun s1 => bytes_ok s1 /\ Bk s1) Hp Hw Nfh) as Hpass.
      unfold spcond_code in Hpass. rewrite <- E1, <- E2 in Hpass.
      specialize (Hpass Esl Hnd HnrUs).
      eapply reach_weaken; [|apply Hpass].
      * intros n pc' s' HP. cbv beta in HP.
        destruct HP as [[Hpc (s2 & (Hb2 & Hi2 & Hlt) & Hs & Hc2)]|[Hpc [(s2 & (Hb2 & Hi2 & Hlt) & Hs & Hc2)|Hbk]]];
          subst.
        -- pose proof (cond_state_same cfg c s2) as Hsame.
           pose proof (cond_state_bytes_ok cfg c s2 Hb2) as Hbm.
           assert (Hcm : cond_holds cfg c (cond_state cfg c s2) = true)
             by (rewrite cond_holds_state; exact Hc2).
           pose proof (proj1 (Hbody _ Hbm (HI _ _ Hsame Hi2) Hcm)) as Hm2.
           rewrite (Hmu _ _ Hsame) in Hm2.
           left. split; [reflexivity|]. exists (mu (cond_state cfg c s2)).
           rewrite (Hmu _ _ Hsame). split; [lia|].
           split; [apply (HI _ _ Hsame Hi2)|]. split; [exact Hbm|]. split; [exact Hcm|reflexivity].
        -- pose proof (cond_state_same cfg c s2) as Hsame.
           right. split; [reflexivity|]. split; [apply cond_state_bytes_ok; exact Hb2|].
           left. split; [apply (HI _ _ Hsame Hi2)|rewrite cond_holds_state; exact Hc2].
        -- right. split; [reflexivity|]. destruct Hbk as (Hbb & Hbk). split; [exact Hbb|].
           right. exact Hbk.
      * replace (S (length (slI ++ sc1))) with (length (slI ++ sc1 ++ [SLbl lfor]))
          by (rewrite !app_length; cbn [length]; lia).
        eapply reach_weaken; [|exact HB].
        intros n pc' s1 [[Hpc Hx]|[[Hpc Hx]|[Hpc Hx]]]; cbv beta.
        -- left. split; [rewrite Hpc; rewrite !app_length; cbn [length]; lia|exact Hx].
        -- right. split; [exact Hpc|exact Hx].
        -- left. split; [exact Hpc|exact Hx].
      * intros s1 (Hbs1 & Hj).
        destruct (Hupd s s1 Hbs1 Hj) as (s2 & Hr2 & Hi2 & Hlt).
        destruct (halts_to_sl_halts cfg U slU _ _ HslU Hr2) as (N & HN).
        exists N, s2. split; [exact HN|].
        pose proof (halts_to_bytes_ok cfg U _ _ Hr2 Hbs1) as Hb2.
        split; [exact Hb2|]. split; [exact Hb2|]. split; assumption.
    + split; [apply (HI _ _ Hsame0 Hi0)|]. split; [apply cond_state_bytes_ok; exact Hb0|].
      split; [rewrite cond_holds_state; exact Ec0|reflexivity].
  - (* the loop is skipped *)
    subst pc1.
    eapply (reach_lbl_mid cfg sl
              (slI ++ sc1 ++ [SLbl lfor] ++ slB ++ [SLbl lupd] ++ slU ++ sc2));
      [split_tac|reflexivity|].
    apply reach_stop. split; [exact (eq_sym Hlen)|].
    split; [apply cond_state_bytes_ok; exact Hb0|]. left.
    split; [apply (HI _ _ Hsame0 Hi0)|rewrite cond_holds_state; exact Ec0].
Qed.
Print Assumptions for_tpl_break_correct.

Lemma body_exits_weaken : forall cfg B lbrk lcont s (N1 B1 C1 N2 B2 C2 : mstate -> Prop),
  (forall x, N1 x -> N2 x) -> (forall x, B1 x -> B2 x) -> (forall x, C1 x -> C2 x) ->
  body_exits cfg B lbrk lcont s N1 B1 C1 -> body_exits cfg B lbrk lcont s N2 B2 C2.
Proof.
  intros cfg B lbrk lcont s N1 B1 C1 N2 B2 C2 HN HB HC (slB & HslB & H).
  exists slB. split; [exact HslB|].
  intros sl pre post kb kc Esl Hnd Hkb Hkc.
  eapply reach_weaken; [|apply (H sl pre post kb kc Esl Hnd Hkb Hkc)].
  intros n pc' s' [[Hpc Hx]|[[Hpc Hx]|[Hpc Hx]]]; cbv beta;
    [left|right; left|right; right]; (split; [exact Hpc|auto]).
Qed.

(** ** [for_tpl_correct]: the for rule, bodies without [break] / [continue]

    [Init] halts in a state satisfying [I]; whenever [I] and the C condition hold, the measure is
    non-negative, the body halts, and from there the update halts in a state where [I] holds again
    and the measure is smaller.  Then [for (Init; c; U) B] halts, [I] holds on the final state and
    the condition does not. *)
Theorem for_tpl_correct : forall cfg Init c U B lfor lupd lend here
    (I : mstate -> Prop) (mu : mstate -> Z) st,
  ports cfg = [] -> cond_wf cfg c ->
  lfor <> ""%string -> lend <> ""%string -> here <> ""%string -> lfor <> here -> lend <> here ->
  NoDup (defs (for_tpl_at Init c U B lfor lupd lend here)) ->
  no_ret Init -> no_ret B -> no_ret U ->
  (exists slB, slines_of B = Some slB) -> (exists slU, slines_of U = Some slU) ->
  (forall s s', same_mxys s s' -> I s -> I s') ->
  (forall s s', same_mxys s s' -> mu s' = mu s) ->
  (exists s0, halts_to cfg Init st s0 /\ I s0) ->
  (forall s, bytes_ok s -> I s -> cond_holds cfg c s = true ->
     0 <= mu s /\
     exists s1, halts_to cfg B s s1 /\ exists s2, halts_to cfg U s1 s2 /\ I s2 /\ mu s2 < mu s) ->
  bytes_ok st ->
  exists st', halts_to cfg (for_tpl_at Init c U B lfor lupd lend here) st st' /\
    I st' /\ cond_holds cfg c st' = false /\ bytes_ok st'.
Proof.
  intros cfg Init c U B lfor lupd lend here I mu st Hp Hw Hf Hd Hh Nfh Ndh Hnd HnrI HnrB HnrU
    HaB HaU HI Hmu Hinit Hbody Hb.
  destruct (for_tpl_break_correct cfg Init c U B lfor lupd lend here I (fun _ => False)
              (fun s s1 => bytes_ok s /\ I s /\ cond_holds cfg c s = true /\ halts_to cfg B s s1)
              mu st Hp Hw Hf Hd Hh Nfh Ndh Hnd HnrI HnrU HaB HaU HI Hmu Hinit)
    as (st' & Hr & Hb' & [[Hi Hc]|[]]).
  - intros s Hbs Hi Hc. destruct (Hbody s Hbs Hi Hc) as (Hm & s1 & Hr1 & _).
    split; [exact Hm|].
    eapply body_exits_weaken;
      [| | |apply (halts_body_exits cfg B lend lupd s s1
                     (fun x => bytes_ok x /\ bytes_ok s /\ I s /\ cond_holds cfg c s = true
                               /\ halts_to cfg B s x) Hr1 HnrB)].
    + intros x Hx. exact Hx.
    + intros x [].
    + intros x [].
    + split; [apply (halts_to_bytes_ok cfg B _ _ Hr1 Hbs)|].
      split; [exact Hbs|]. split; [exact Hi|]. split; [exact Hc|exact Hr1].
  - intros s s1 Hb1 (Hbs & Hi & Hc & Hr1).
    destruct (Hbody s Hbs Hi Hc) as (_ & s1' & Hr1' & s2 & Hr2 & Hi2 & Hlt).
    rewrite (halts_to_det cfg B s s1 s1' Hr1 Hr1'). exists s2.
    split; [exact Hr2|]. split; [exact Hi2|exact Hlt].
  - exact Hb.
  - exists st'. split; [exact Hr|]. split; [exact Hi|]. split; [exact Hc|exact Hb'].
Qed.
Print Assumptions for_tpl_correct.

(** * switch *)

(** ** what C says: the bodies to run, in order *)

(** from the statements of the first case of [cs] on: through the fall-through cases, to the
    first [break] or the end of the switch (the default, last, included) *)
Fixpoint run_from {A : Type} (cs : list (sw_case A)) (d : option A) : list A :=
  match cs with
  | [] => match d with Some D => [D] | None => [] end
  | cse :: r => sc_body cse :: (if sc_falls cse then run_from r d else [])
  end.

(** the first case one of whose values is [v]; the default if there is none *)
Fixpoint switch_sem {A : Type} (v : Z) (cs : list (sw_case A)) (d : option A) : list A :=
  match cs with
  | [] => match d with Some D => [D] | None => [] end
  | cse :: r =>
      if existsb (Z.eqb v) (sc_vals cse) then run_from (cse :: r) d else switch_sem v r d
  end.

(** running a list of bodies one after the other *)
Fixpoint exec_bodies (cfg : config) (l : list code) (s s' : mstate) : Prop :=
  match l with
  | [] => s' = s
  | B :: r => exists m, halts_to cfg B s m /\ exec_bodies cfg r m s'
  end.

Fixpoint sexec (cfg : config) (l : list (list sline)) (s s' : mstate) : Prop :=
  match l with
  | [] => s' = s
  | B :: r => exists N m, sl_halts cfg B N s m /\ sexec cfg r m s'
  end.

Lemma sexec_exec : forall cfg l sl s s',
  Forall2 (fun B sB => slines_of B = Some sB) l sl -> sexec cfg sl s s' -> exec_bodies cfg l s s'.
Proof.
  intros cfg l sl s s' H. revert s. induction H as [|B sB l sl HB Hl IH]; intros s Hx.
  - exact Hx.
  - destruct Hx as (N & m & Hh & Hr). exists m. split; [|apply IH; exact Hr].
    exists sB. split; [exact HB|]. exists N. exact Hh.
Qed.

(** the operand *)
Definition sw_wf (cfg : config) (e : sw_operand) : Prop :=
  match e with SwMem x => var_at cfg x | SwX => True end.
Definition sw_val (cfg : config) (e : sw_operand) (st : mstate) : Z :=
  match e with SwMem x => var_val cfg x st | SwX => rX st end.

Lemma sw_val_same : forall cfg e s s', same_mxys s s' -> sw_val cfg e s' = sw_val cfg e s.
Proof.
  intros cfg e s s' (Em & Ex & _). destruct e; cbn [sw_val]; [unfold var_val; rewrite Em|]; congruence.
Qed.

Lemma sw_val_range : forall cfg e st, bytes_ok st -> 0 <= sw_val cfg e st < 256.
Proof.
  intros cfg e st Hb. destruct e; cbn [sw_val]; [apply var_val_range; exact Hb|].
  destruct Hb as (_ & HX & _). exact HX.
Qed.

(** ** the assembled lines *)
Definition stest1 (e : sw_operand) (v : Z) : list sline :=
  match e with
  | SwMem x => [SIns LDA (OMem x 0 IxNone) false x; SIns CMP (OImm (INum v)) false (imm v)]
  | SwX => [SIns CPX (OImm (INum v)) false (imm v)]
  end.

Definition stest (e : sw_operand) (vals : list Z) (lstmt lnext : string) : list sline :=
  match vals with
  | [v] => stest1 e v ++ [sbr BNE lnext false]
  | _ => flat_map (fun v => stest1 e v ++ [sbr BEQ lstmt false]) vals ++ [sjmp lnext]
  end.

Definition scase_code (e : sw_operand) (L : sw_labels) (i : nat) (cse : sw_case (list sline))
    (has_next : bool) : list sline :=
  stest e (sc_vals cse) (sw_stmt L i) (sw_next L i)
  ++ [SLbl (sw_stmt L i)] ++ sc_body cse
  ++ (if sc_falls cse then [] else [sjmp (sw_end L)])
  ++ (if has_next then [sjmp (sw_stmt L (S i))] else [])
  ++ [SLbl (sw_next L i)].

Fixpoint scases_code (e : sw_operand) (L : sw_labels) (i : nat) (cs : list (sw_case (list sline)))
    (has_default : bool) : list sline :=
  match cs with
  | [] => []
  | cse :: r =>
      scase_code e L i cse (match r with [] => has_default | _ => true end)
      ++ scases_code e L (S i) r has_default
  end.

Definition sdflt (L : sw_labels) (k : nat) (d : option (list sline)) : list sline :=
  match d with Some D => SLbl (sw_stmt L k) :: D | None => [] end.

Definition stail (L : sw_labels) (k : nat) (d : option (list sline)) : list sline :=
  sdflt L k d ++ [SLbl (sw_end L)].

(** a case and its assembled form *)
Definition case_asm (cse : sw_case code) (sc : sw_case (list sline)) : Prop :=
  sc_vals sc = sc_vals cse /\ sc_falls sc = sc_falls cse /\
  slines_of (sc_body cse) = Some (sc_body sc).

Definition opt_asm (d : option code) (sd : option (list sline)) : Prop :=
  match d, sd with
  | Some D, Some sD => slines_of D = Some sD
  | None, None => True
  | _, _ => False
  end.

Lemma slines_sw_test1 : forall cfg e v, sw_wf cfg e -> 0 <= v ->
  slines_of (sw_test1 e v) = Some (stest1 e v).
Proof.
  intros cfg e v Hw Hv. destruct e as [x|]; cbn [sw_test1 stest1 sw_wf] in *.
  - destruct Hw as (Vx & _). slines_tac.
  - slines_tac.
Qed.

Lemma slines_sw_test : forall cfg e vals lstmt lnext, sw_wf cfg e ->
  (forall v, In v vals -> 0 <= v) -> lstmt <> ""%string -> lnext <> ""%string ->
  slines_of (sw_test e vals lstmt lnext) = Some (stest e vals lstmt lnext).
Proof.
  intros cfg e vals lstmt lnext Hw Hv Hs Hn.
  assert (Hmulti : forall l, (forall v, In v l -> 0 <= v) ->
            slines_of (flat_map (fun v => sw_test1 e v ++ [ins BEQ lstmt]) l ++ [ins JMP lnext])
            = Some (flat_map (fun v => stest1 e v ++ [sbr BEQ lstmt false]) l ++ [sjmp lnext])).
  { induction l as [|v l IH]; intros Hl.
    - cbn [flat_map app]. apply slines_jmp; [exact Hn|reflexivity].
    - cbn [flat_map]. rewrite <- !app_assoc.
      apply slines_app; [apply (slines_sw_test1 cfg); [exact Hw|apply Hl; left; reflexivity]|].
      cbn [app]. apply slines_ins; [apply parse_lbl; [reflexivity|exact Hs]|].
      apply IH. intros v' Hin. apply Hl. right. exact Hin. }
  destruct vals as [|v0 [|v1 rest]]; cbn [sw_test stest].
  - apply (Hmulti [] Hv).
  - apply slines_app; [apply (slines_sw_test1 cfg); [exact Hw|apply Hv; left; reflexivity]|].
    apply slines_ins; [apply parse_lbl; [reflexivity|exact Hn]|reflexivity].
  - apply (Hmulti (v0 :: v1 :: rest) Hv).
Qed.

Definition labels_ne (L : sw_labels) : Prop :=
  (forall i, sw_stmt L i <> ""%string /\ sw_next L i <> ""%string) /\ sw_end L <> ""%string.

Lemma slines_sw_case : forall cfg e L i cse sc hn, sw_wf cfg e -> labels_ne L ->
  (forall v, In v (sc_vals cse) -> 0 <= v) -> case_asm cse sc ->
  slines_of (sw_case_code e L i cse hn) = Some (scase_code e L i sc hn).
Proof.
  intros cfg e L i cse sc hn Hw [Hl He] Hv (Ev & Ef & Eb). unfold sw_case_code, scase_code.
  rewrite Ev, Ef.
  apply slines_app; [apply (slines_sw_test cfg); [exact Hw|exact Hv|apply Hl|apply Hl]|].
  apply slines_app; [reflexivity|].
  apply slines_app; [exact Eb|].
  apply slines_app; [destruct (sc_falls cse); [reflexivity|apply slines_jmp; [exact He|reflexivity]]|].
  apply slines_app; [destruct hn; [apply slines_jmp; [apply Hl|reflexivity]|reflexivity]|reflexivity].
Qed.

Lemma slines_sw_cases : forall cfg e L cs scs i hd, sw_wf cfg e -> labels_ne L ->
  (forall cse, In cse cs -> forall v, In v (sc_vals cse) -> 0 <= v) ->
  Forall2 case_asm cs scs ->
  slines_of (sw_cases_code e L i cs hd) = Some (scases_code e L i scs hd).
Proof.
  intros cfg e L cs scs i hd Hw HL Hv H. revert i.
  induction H as [|cse sc r sr Hc Hr IH]; intros i; [reflexivity|].
  cbn [sw_cases_code scases_code].
  apply slines_app.
  - replace (match sr with [] => hd | _ :: _ => true end)
      with (match r with [] => hd | _ :: _ => true end) by (destruct Hr; reflexivity).
    apply (slines_sw_case cfg); [exact Hw|exact HL|apply Hv; left; reflexivity|exact Hc].
  - apply IH. intros c' Hin. apply Hv. right. exact Hin.
Qed.

Lemma forall2_length : forall (A B : Type) (R : A -> B -> Prop) l l',
  Forall2 R l l' -> length l = length l'.
Proof. intros A B R l l' H. induction H; [reflexivity|]. cbn [length]. congruence. Qed.

Lemma slines_switch_tpl : forall cfg e L cs scs d sd, sw_wf cfg e -> labels_ne L ->
  (forall cse, In cse cs -> forall v, In v (sc_vals cse) -> 0 <= v) ->
  Forall2 case_asm cs scs -> opt_asm d sd ->
  slines_of (switch_tpl_at e cs d L)
  = Some (scases_code e L 0 scs (is_some sd) ++ stail L (length scs) sd).
Proof.
  intros cfg e L cs scs d sd Hw HL Hv Hcs Hd. unfold switch_tpl_at, stail.
  assert (Eh : is_some d = is_some sd) by (destruct d, sd; try contradiction; reflexivity).
  rewrite Eh, (forall2_length _ _ _ _ _ Hcs).
  apply slines_app; [apply (slines_sw_cases cfg); assumption|].
  apply slines_app; [|reflexivity].
  destruct d as [D|], sd as [sD|]; try contradiction; cbn [sw_default_code sdflt opt_asm] in *;
    [|reflexivity].
  apply slines_lbl. exact Hd.
Qed.

(** the bodies [switch_sem] selects are the assembled forms of those it selects in the code *)
Lemma run_from_asm : forall cs scs d sd, Forall2 case_asm cs scs -> opt_asm d sd ->
  Forall2 (fun B sB => slines_of B = Some sB) (run_from cs d) (run_from scs sd).
Proof.
  intros cs scs d sd H Hd. induction H as [|cse sc r sr (Ev & Ef & Eb) Hr IH].
  - cbn [run_from]. destruct d, sd; try contradiction; [constructor; [exact Hd|constructor]|constructor].
  - cbn [run_from]. constructor; [exact Eb|]. rewrite Ef. destruct (sc_falls cse); [exact IH|constructor].
Qed.

Lemma switch_sem_asm : forall v cs scs d sd, Forall2 case_asm cs scs -> opt_asm d sd ->
  Forall2 (fun B sB => slines_of B = Some sB) (switch_sem v cs d) (switch_sem v scs sd).
Proof.
  intros v cs scs d sd H Hd. induction H as [|cse sc r sr Hc Hr IH].
  - apply (run_from_asm [] [] d sd); [constructor|exact Hd].
  - cbn [switch_sem]. pose proof Hc as (Ev & _). rewrite Ev.
    destruct (existsb (Z.eqb v) (sc_vals cse)); [|exact IH].
    apply (run_from_asm (cse :: r) (sc :: sr)); [constructor; assumption|exact Hd].
Qed.

(** ** the tests *)

Lemma reach_branch_mid : forall cfg c a m l p b pc k' s (Q : nat -> nat -> mstate -> Prop),
  c = a ++ sbr m l p :: b -> pc = length a -> is_cond_branch m = true ->
  find_label l c 0 = Some k' ->
  (if branch_taken m s then reach cfg c k' s (fun n => Q (S n))
   else reach cfg c (S pc) s (fun n => Q (S n))) ->
  reach cfg c pc s Q.
Proof.
  intros cfg c a m l p b pc k' s Q Ec -> Hm Hf H.
  eapply reach_branch; [rewrite Ec; apply nth_error_mid|exact Hm|exact Hf|exact H].
Qed.

(** one comparison of the operand with the constant [v0]: Z says whether they are equal; memory,
    X, Y, S unchanged *)
Lemma stest1_reach : forall cfg e pre post sl s v0,
  ports cfg = [] -> sw_wf cfg e -> 0 <= v0 < 256 ->
  sl = pre ++ stest1 e v0 ++ post -> bytes_ok s ->
  reach cfg sl (length pre) s
    (fun (_ pc' : nat) (s' : mstate) =>
       pc' = (length pre + length (stest1 e v0))%nat /\ same_mxys s s' /\ bytes_ok s' /\
       fZ s' = (sw_val cfg e s =? v0)).
Proof.
  intros cfg e pre post sl s v0 Hp Hw Hv -> Hb.
  pose proof (sw_val_range cfg e s Hb) as Rv.
  pose proof Hb as (HA & HX & HY & HS & HM).
  apply reach_at0. destruct e as [x|]; cbn [stest1 sw_wf sw_val app length] in *.
  - destruct Hw as (Vx & px & Lx & Rx).
    unfold var_val in *. rewrite Lx in *.
    eapply reach_next_at;
      [reflexivity|apply (exec_rd_mem cfg LDA s x 0 px Hp eq_refl Lx ltac:(lia))|].
    eapply reach_next_at; [reflexivity|apply (exec_rd_imm cfg CMP _ v0 eq_refl)|].
    apply reach_stop. cbn [rd_sem rA set_nz set_a]. rewrite Z.add_0_r, (byte_small v0 Hv).
    split; [lia|]. split; [repeat split; reflexivity|].
    split; [|apply cmp_fZ; assumption].
    unfold cmp, set_nz, set_c, set_a. cbn [rA rX rY rS fN fV fZ fC mem].
    apply bytes_ok_mk; assumption.
  - eapply reach_next_at; [reflexivity|apply (exec_rd_imm cfg CPX s v0 eq_refl)|].
    apply reach_stop. cbn [rd_sem]. rewrite (byte_small v0 Hv).
    split; [lia|]. split; [repeat split; reflexivity|].
    split; [|apply cmp_fZ; assumption].
    unfold cmp, set_nz, set_c. cbn [rA rX rY rS fN fV fZ fC mem].
    apply bytes_ok_mk; assumption.
Qed.
Print Assumptions stest1_reach.

(** several values: [BEQ] to the statements at the first that matches, else [JMP] to the next case *)
Lemma multi_reach : forall cfg e lstmt lnext todo pre post sl s kstmt knext,
  ports cfg = [] -> sw_wf cfg e -> (forall v, In v todo -> 0 <= v < 256) ->
  sl = pre ++ (flat_map (fun v => stest1 e v ++ [sbr BEQ lstmt false]) todo ++ [sjmp lnext]) ++ post ->
  find_label lstmt sl 0 = Some kstmt -> find_label lnext sl 0 = Some knext ->
  bytes_ok s ->
  reach cfg sl (length pre) s
    (fun (_ pc' : nat) (s' : mstate) =>
       same_mxys s s' /\ bytes_ok s' /\
       pc' = if existsb (Z.eqb (sw_val cfg e s)) todo then kstmt else knext).
Proof.
  intros cfg e lstmt lnext todo. induction todo as [|v0 todo IH];
    intros pre post sl s kstmt knext Hp Hw Hv Esl Hks Hkn Hb.
  - cbn [flat_map app] in Esl.
    eapply (reach_jmp_mid cfg sl pre); [exact Esl|reflexivity|exact Hkn|].
    apply reach_stop. split; [apply same_mxys_refl|]. split; [exact Hb|reflexivity].
  - cbn [flat_map existsb] in *.
    apply reach_seq.
    eapply reach_weaken;
      [|eapply (stest1_reach cfg e pre _ sl s v0 Hp Hw (Hv v0 (or_introl eq_refl)));
        [rewrite Esl; rewrite <- !app_assoc; reflexivity|exact Hb]].
    intros n pc1 s1 (Hpc & Hsame & Hb1 & Hz). cbv beta.
    eapply (reach_branch_mid cfg sl (pre ++ stest1 e v0) BEQ lstmt false);
      [rewrite Esl; rewrite <- !app_assoc; reflexivity|rewrite Hpc, app_length; reflexivity
      |reflexivity|exact Hks|].
    cbn [branch_taken]. rewrite Hz.
    destruct (sw_val cfg e s =? v0); cbn [orb].
    + apply reach_stop. split; [exact Hsame|]. split; [exact Hb1|reflexivity].
    + eapply reach_weaken;
        [|replace (S pc1) with (length (pre ++ stest1 e v0 ++ [sbr BEQ lstmt false]))
            by (rewrite Hpc, !app_length; cbn [length]; lia);
          apply (IH (pre ++ stest1 e v0 ++ [sbr BEQ lstmt false]) post sl s1 kstmt knext Hp Hw
                   (fun v Hin => Hv v (or_intror Hin)));
          [rewrite Esl; rewrite <- !app_assoc; reflexivity|exact Hks|exact Hkn|exact Hb1]].
      intros n2 pc2 s2 (Hsame2 & Hb2 & Hpc2). cbv beta.
      split; [apply (same_mxys_trans _ _ _ Hsame Hsame2)|]. split; [exact Hb2|].
      rewrite Hpc2, (sw_val_same cfg e s s1 Hsame). reflexivity.
Qed.
Print Assumptions multi_reach.

(** the test of a case: at the statements when one of the values is the operand, at the next
    case otherwise *)
Lemma test_reach : forall cfg e lstmt lnext vals pre post sl s kstmt knext,
  ports cfg = [] -> sw_wf cfg e -> (forall v, In v vals -> 0 <= v < 256) ->
  sl = pre ++ stest e vals lstmt lnext ++ post ->
  find_label lstmt sl 0 = Some kstmt -> kstmt = length (pre ++ stest e vals lstmt lnext) ->
  find_label lnext sl 0 = Some knext ->
  bytes_ok s ->
  reach cfg sl (length pre) s
    (fun (_ pc' : nat) (s' : mstate) =>
       same_mxys s s' /\ bytes_ok s' /\
       pc' = if existsb (Z.eqb (sw_val cfg e s)) vals then kstmt else knext).
Proof.
  intros cfg e lstmt lnext vals pre post sl s kstmt knext Hp Hw Hv Esl Hks Eks Hkn Hb.
  destruct vals as [|v0 [|v1 rest]]; cbn [stest] in Esl, Eks.
  - apply (multi_reach cfg e lstmt lnext [] pre post sl s kstmt knext); assumption.
  - cbn [existsb]. rewrite orb_false_r.
    apply reach_seq.
    eapply reach_weaken;
      [|eapply (stest1_reach cfg e pre _ sl s v0 Hp Hw (Hv v0 (or_introl eq_refl)));
        [rewrite Esl; rewrite <- !app_assoc; reflexivity|exact Hb]].
    intros n pc1 s1 (Hpc & Hsame & Hb1 & Hz). cbv beta.
    eapply (reach_branch_mid cfg sl (pre ++ stest1 e v0) BNE lnext false);
      [rewrite Esl; rewrite <- !app_assoc; reflexivity|rewrite Hpc, app_length; reflexivity
      |reflexivity|exact Hkn|].
    cbn [branch_taken]. rewrite Hz.
    destruct (sw_val cfg e s =? v0); cbn [negb]; apply reach_stop;
      (split; [exact Hsame|]; split; [exact Hb1|]); [|reflexivity].
    rewrite Eks, Hpc, !app_length. cbn [length]. lia.
  - apply (multi_reach cfg e lstmt lnext (v0 :: v1 :: rest) pre post sl s kstmt knext); assumption.
Qed.
Print Assumptions test_reach.

(** ** running the statements of the cases *)

Ltac sw_unf :=
  unfold stail; cbn [scases_code]; unfold scase_code;
  cbn [sdflt sc_vals sc_body sc_falls is_some].
Ltac sw_split :=
  subst; sw_unf; repeat first [rewrite <- app_assoc | progress cbn [app]]; reflexivity.
Ltac sw_len :=
  subst; sw_unf; rewrite ?app_length; cbn [length]; rewrite ?app_length; cbn [length];
  rewrite ?app_length; cbn [length]; lia.

Section SwitchRun.
  Variable cfg : config.
  Variable e : sw_operand.
  Variable L : sw_labels.

  (** a body: no RTS / RTI, halts from every byte-valued state (in a byte-valued state) *)
  Definition sbody_ok (slB : list sline) : Prop :=
    no_ret_s slB /\ forall s, bytes_ok s -> exists N s', sl_halts cfg slB N s s' /\ bytes_ok s'.

  Definition sdflt_ok (sd : option (list sline)) : Prop := match sd with Some D => sbody_ok D | None => True end.

  (** the label of the statements, then the statements *)
  Lemma run_prefix : forall sd vals B ft r i pre sl k s N s1 (Q : nat -> mstate -> Prop),
    sl = pre ++ scases_code e L i (mkCase vals B ft :: r) (is_some sd) ++ stail L k sd ->
    NoDup (sdefs sl) -> no_ret_s B -> sl_halts cfg B N s s1 ->
    reach cfg sl (length (((pre ++ stest e vals (sw_stmt L i) (sw_next L i))
                           ++ [SLbl (sw_stmt L i)]) ++ B)) s1
      (fun (_ pc' : nat) (s' : mstate) => Q pc' s') ->
    reach cfg sl (length (pre ++ stest e vals (sw_stmt L i) (sw_next L i))) s
      (fun (_ pc' : nat) (s' : mstate) => Q pc' s').
  Proof.
    intros sd vals B ft r i pre sl k s N s1 Q Esl Hnd Hnr Hh H.
    eapply (reach_lbl_mid cfg sl (pre ++ stest e vals (sw_stmt L i) (sw_next L i)));
      [sw_split|reflexivity|].
    apply reach_seq.
    eapply (reach_body_nd cfg sl B
              ((pre ++ stest e vals (sw_stmt L i) (sw_next L i)) ++ [SLbl (sw_stmt L i)]) _ _ N s s1);
      [exact Hnd|sw_split|rewrite (app_length _ [_]); cbn [length]; lia|exact Hh|exact Hnr|].
    intros n1 Hn1. cbv beta. rewrite <- app_length. exact H.
  Qed.

  (** the last line: the end label *)
  Lemma run_end : forall sd i cs pre sl k s (Q : nat -> mstate -> Prop),
    sl = pre ++ scases_code e L i cs (is_some sd) ++ stail L k sd ->
    Q (length sl) s ->
    reach cfg sl (length (pre ++ scases_code e L i cs (is_some sd) ++ sdflt L k sd)) s
      (fun (_ pc' : nat) (s' : mstate) => Q pc' s').
  Proof.
    intros sd i cs pre sl k s Q Esl HQ.
    eapply (reach_lbl_mid cfg sl (pre ++ scases_code e L i cs (is_some sd) ++ sdflt L k sd));
      [subst; unfold stail; rewrite <- !app_assoc; reflexivity|reflexivity|].
    apply reach_stop.
    replace (S (length (pre ++ scases_code e L i cs (is_some sd) ++ sdflt L k sd)))
      with (length sl); [exact HQ|].
    subst. unfold stail. rewrite !app_length. cbn [length]. lia.
  Qed.

  Lemma find_end : forall sd i cs pre sl k,
    sl = pre ++ scases_code e L i cs (is_some sd) ++ stail L k sd -> NoDup (sdefs sl) ->
    find_label (sw_end L) sl 0
    = Some (length (pre ++ scases_code e L i cs (is_some sd) ++ sdflt L k sd)).
  Proof.
    intros sd i cs pre sl k Esl Hnd. apply (find_label_nodup sl _ (sw_end L) [] Hnd).
    subst. unfold stail. rewrite <- !app_assoc. reflexivity.
  Qed.

  (** a case that ends with [break] *)
  Lemma run_break : forall sd vals B r i pre sl k s,
    sl = pre ++ scases_code e L i (mkCase vals B false :: r) (is_some sd) ++ stail L k sd ->
    NoDup (sdefs sl) -> sbody_ok B -> bytes_ok s ->
    reach cfg sl (length (pre ++ stest e vals (sw_stmt L i) (sw_next L i))) s
      (fun (_ pc' : nat) (s' : mstate) =>
         pc' = length sl /\ sexec cfg [B] s s' /\ bytes_ok s').
  Proof.
    intros sd vals B r i pre sl k s Esl Hnd (Hnr & Hhalt) Hb.
    destruct (Hhalt s Hb) as (N & s1 & Hh & Hb1).
    apply (run_prefix sd vals B false r i pre sl k s N s1
             (fun pc' s' => pc' = length sl /\ sexec cfg [B] s s' /\ bytes_ok s') Esl Hnd Hnr Hh).
    eapply (reach_jmp_mid cfg sl
              (((pre ++ stest e vals (sw_stmt L i) (sw_next L i)) ++ [SLbl (sw_stmt L i)]) ++ B));
      [sw_split|reflexivity|apply (find_end sd i _ pre sl k Esl Hnd)|].
    apply (run_end sd i _ pre sl k s1
             (fun pc' s' => pc' = length sl /\ sexec cfg [B] s s' /\ bytes_ok s') Esl).
    split; [reflexivity|]. split; [exists N, s1; split; [exact Hh|reflexivity]|exact Hb1].
  Qed.

  (** from the statements of a case on *)
  Lemma run_from_reach : forall sd r cse i pre sl k s,
    sl = pre ++ scases_code e L i (cse :: r) (is_some sd) ++ stail L k sd ->
    k = (i + length (cse :: r))%nat -> NoDup (sdefs sl) ->
    Forall sbody_ok (map sc_body (cse :: r)) -> sdflt_ok sd -> bytes_ok s ->
    reach cfg sl (length (pre ++ stest e (sc_vals cse) (sw_stmt L i) (sw_next L i))) s
      (fun (_ pc' : nat) (s' : mstate) =>
         pc' = length sl /\ sexec cfg (run_from (cse :: r) sd) s s' /\ bytes_ok s').
  Proof.
    intros sd. induction r as [|cse' r' IH]; intros [vals B ft] i pre sl k s Esl Hk Hnd Hok Hd Hb;
      cbn [sc_vals]; cbn [map sc_body] in Hok;
      pose proof (Forall_inv Hok) as HokB; pose proof (Forall_inv_tail Hok) as Hokr;
      (destruct ft; [|cbn [run_from sc_body sc_falls];
                      apply (run_break sd vals B _ i pre sl k s Esl Hnd HokB Hb)]).
    - (* the last case falls through: into the default, or to the end *)
      destruct HokB as (Hnr & Hhalt). destruct (Hhalt s Hb) as (N & s1 & Hh & Hb1).
      cbn [length] in Hk. rewrite Nat.add_1_r in Hk. subst k.
      apply (run_prefix sd vals B true [] i pre sl (S i) s N s1
               (fun pc' s' => pc' = length sl /\
                  sexec cfg (run_from [mkCase vals B true] sd) s s' /\ bytes_ok s') Esl Hnd Hnr Hh).
      unfold sdflt_ok in Hd. destruct sd as [D|]; cbn [run_from sc_body sc_falls].
      + destruct Hd as (HnrD & HhaltD). destruct (HhaltD s1 Hb1) as (N2 & s2 & Hh2 & Hb2).
        assert (Hks : find_label (sw_stmt L (S i)) sl 0
                      = Some (length (pre ++ scases_code e L i [mkCase vals B true] true)))
          by (apply (find_label_nodup sl _ (sw_stmt L (S i)) (D ++ [SLbl (sw_end L)]) Hnd); sw_split).
        eapply (reach_jmp_mid cfg sl
                  (((pre ++ stest e vals (sw_stmt L i) (sw_next L i)) ++ [SLbl (sw_stmt L i)]) ++ B));
          [sw_split|reflexivity|exact Hks|].
        eapply (reach_lbl_mid cfg sl (pre ++ scases_code e L i [mkCase vals B true] true));
          [sw_split|reflexivity|].
        apply reach_seq.
        eapply (reach_body_nd cfg sl D
                  ((pre ++ scases_code e L i [mkCase vals B true] true) ++ [SLbl (sw_stmt L (S i))])
                  [SLbl (sw_end L)] _ N2 s1 s2);
          [exact Hnd|sw_split|rewrite (app_length _ [_]); cbn [length]; lia|exact Hh2|exact HnrD|].
        intros n2 Hn2. cbv beta.
        replace (length ((pre ++ scases_code e L i [mkCase vals B true] true)
                         ++ [SLbl (sw_stmt L (S i))]) + length D)%nat
          with (length (pre ++ scases_code e L i [mkCase vals B true] (is_some (Some D))
                        ++ sdflt L (S i) (Some D)))
          by (cbn [is_some sdflt]; rewrite ?app_length; cbn [length]; rewrite ?app_length; cbn [length]; lia).
        apply (run_end (Some D) i _ pre sl (S i) s2
                 (fun pc' s' => pc' = length sl /\ sexec cfg [B; D] s s' /\ bytes_ok s') Esl).
        split; [reflexivity|]. split; [|exact Hb2].
        exists N, s1. split; [exact Hh|]. exists N2, s2. split; [exact Hh2|reflexivity].
      + eapply (reach_lbl_mid cfg sl
                  (((pre ++ stest e vals (sw_stmt L i) (sw_next L i)) ++ [SLbl (sw_stmt L i)]) ++ B));
          [sw_split|reflexivity|].
        replace (S (length (((pre ++ stest e vals (sw_stmt L i) (sw_next L i))
                             ++ [SLbl (sw_stmt L i)]) ++ B)))
          with (length (pre ++ scases_code e L i [mkCase vals B true] (is_some (@None (list sline)))
                        ++ sdflt L (S i) None))
          by (sw_unf; rewrite ?app_length; cbn [length]; rewrite ?app_length; cbn [length]; lia).
        apply (run_end None i _ pre sl (S i) s1
                 (fun pc' s' => pc' = length sl /\ sexec cfg [B] s s' /\ bytes_ok s') Esl).
        split; [reflexivity|]. split; [exists N, s1; split; [exact Hh|reflexivity]|exact Hb1].
    - (* falls through into the next case *)
      destruct cse' as [vals' B' ft'].
      destruct HokB as (Hnr & Hhalt). destruct (Hhalt s Hb) as (N & s1 & Hh & Hb1).
      apply (run_prefix sd vals B true (mkCase vals' B' ft' :: r') i pre sl k s N s1
               (fun pc' s' => pc' = length sl /\
                  sexec cfg (run_from (mkCase vals B true :: mkCase vals' B' ft' :: r') sd) s s' /\ bytes_ok s')
               Esl Hnd Hnr Hh).
      assert (Hks : find_label (sw_stmt L (S i)) sl 0
                    = Some (length ((pre ++ scase_code e L i (mkCase vals B true) true)
                                    ++ stest e vals' (sw_stmt L (S i)) (sw_next L (S i))))).
      { eapply (find_label_nodup sl _ (sw_stmt L (S i)) _ Hnd).
        rewrite Esl. sw_unf.
        repeat first [rewrite <- app_assoc | progress cbn [app]]. reflexivity. }
      eapply (reach_jmp_mid cfg sl
                (((pre ++ stest e vals (sw_stmt L i) (sw_next L i)) ++ [SLbl (sw_stmt L i)]) ++ B));
        [sw_split|reflexivity|exact Hks|].
      eapply reach_weaken;
        [|apply (IH (mkCase vals' B' ft') (S i) (pre ++ scase_code e L i (mkCase vals B true) true) sl k s1);
          [rewrite Esl; cbn [scases_code]; rewrite <- !app_assoc; reflexivity
          |rewrite Hk; cbn [length]; lia|exact Hnd|exact Hokr|exact Hd|exact Hb1]].
      intros n pc' s' (Hpc & Hx & Hb'). cbv beta. split; [exact Hpc|]. split; [|exact Hb'].
      cbn [run_from sc_body sc_falls]. exists N, s1. split; [exact Hh|exact Hx].
  Qed.
End SwitchRun.
Print Assumptions run_from_reach.

(** ** the dispatch: test after test, to the first case that matches *)
Lemma dispatch_reach : forall cfg e L sd cs i pre sl k s,
  ports cfg = [] -> sw_wf cfg e ->
  sl = pre ++ scases_code e L i cs (is_some sd) ++ stail L k sd -> k = (i + length cs)%nat ->
  NoDup (sdefs sl) -> Forall (sbody_ok cfg) (map sc_body cs) -> sdflt_ok cfg sd ->
  (forall cse, In cse cs -> forall v, In v (sc_vals cse) -> 0 <= v < 256) ->
  bytes_ok s ->
  reach cfg sl (length pre) s
    (fun (_ pc' : nat) (s' : mstate) =>
       pc' = length sl /\
       exists mid, same_mxys s mid /\ bytes_ok mid /\
         sexec cfg (switch_sem (sw_val cfg e s) cs sd) mid s' /\ bytes_ok s').
Proof.
  intros cfg e L sd cs. induction cs as [|cse r IH]; intros i pre sl k s Hp Hw Esl Hk Hnd Hok Hd Hv Hb.
  - (* no case left: the default, or nothing *)
    cbn [switch_sem]. cbn [length] in Hk. rewrite Nat.add_0_r in Hk. subst k.
    unfold sdflt_ok in Hd. destruct sd as [D|].
    + destruct Hd as (HnrD & HhaltD). destruct (HhaltD s Hb) as (N & s1 & Hh & Hb1).
      eapply (reach_lbl_mid cfg sl pre); [sw_split|reflexivity|].
      apply reach_seq.
      eapply (reach_body_nd cfg sl D (pre ++ [SLbl (sw_stmt L i)]) [SLbl (sw_end L)] _ N s s1);
        [exact Hnd|sw_split|rewrite app_length; cbn [length]; lia|exact Hh|exact HnrD|].
      intros n1 Hn1. cbv beta.
      replace (length (pre ++ [SLbl (sw_stmt L i)]) + length D)%nat
        with (length (pre ++ scases_code e L i [] (is_some (Some D)) ++ sdflt L i (Some D)))
        by (cbn [scases_code sdflt app]; rewrite ?app_length; cbn [length]; lia).
      apply (run_end cfg e L (Some D) i [] pre sl i s1
               (fun pc' s' => pc' = length sl /\
                  exists mid, same_mxys s mid /\ bytes_ok mid /\ sexec cfg [D] mid s' /\ bytes_ok s')
               Esl).
      split; [reflexivity|]. exists s. split; [apply same_mxys_refl|]. split; [exact Hb|].
      split; [exists N, s1; split; [exact Hh|reflexivity]|exact Hb1].
    + replace (length pre)
        with (length (pre ++ scases_code e L i [] (is_some (@None (list sline))) ++ sdflt L i None))
        by (cbn [scases_code sdflt app]; rewrite app_nil_r; reflexivity).
      apply (run_end cfg e L None i [] pre sl i s
               (fun pc' s' => pc' = length sl /\
                  exists mid, same_mxys s mid /\ bytes_ok mid /\ sexec cfg [] mid s' /\ bytes_ok s')
               Esl).
      split; [reflexivity|]. exists s. split; [apply same_mxys_refl|]. split; [exact Hb|].
      split; [reflexivity|exact Hb].
  - destruct cse as [vals B ft].
    cbn [map sc_body] in Hok.
    pose proof (Forall_inv Hok) as HokB. pose proof (Forall_inv_tail Hok) as Hokr.
    assert (Hks : find_label (sw_stmt L i) sl 0
                  = Some (length (pre ++ stest e vals (sw_stmt L i) (sw_next L i))))
      by (eapply (find_label_nodup sl _ (sw_stmt L i) _ Hnd); sw_split).
    assert (Hkn : find_label (sw_next L i) sl 0
                  = Some (length (pre ++ stest e vals (sw_stmt L i) (sw_next L i)
                            ++ [SLbl (sw_stmt L i)] ++ B
                            ++ (if ft then [] else [sjmp (sw_end L)])
                            ++ (if match r with [] => is_some sd | _ => true end
                                then [sjmp (sw_stmt L (S i))] else []))))
      by (eapply (find_label_nodup sl _ (sw_next L i) _ Hnd); sw_split).
    apply reach_seq.
    eapply reach_weaken;
      [|eapply (test_reach cfg e (sw_stmt L i) (sw_next L i) vals pre _ sl s _ _ Hp Hw
                  (Hv _ (or_introl eq_refl))); [sw_split|exact Hks|reflexivity|exact Hkn|exact Hb]].
    intros n pc1 s1 (Hsame & Hb1 & Hpc). cbv beta. cbn [switch_sem sc_vals].
    destruct (existsb (Z.eqb (sw_val cfg e s)) vals) eqn:Eex; subst pc1.
    + eapply reach_weaken;
        [|apply (run_from_reach cfg e L sd r (mkCase vals B ft) i pre sl k s1 Esl Hk Hnd Hok Hd Hb1)].
      intros n2 pc2 s2 (Hpc2 & Hx & Hb2). cbv beta. split; [exact Hpc2|].
      exists s1. split; [exact Hsame|]. split; [exact Hb1|]. split; [exact Hx|exact Hb2].
    + eapply (reach_lbl_mid cfg sl
                (pre ++ stest e vals (sw_stmt L i) (sw_next L i) ++ [SLbl (sw_stmt L i)] ++ B
                 ++ (if ft then [] else [sjmp (sw_end L)])
                 ++ (if match r with [] => is_some sd | _ => true end
                     then [sjmp (sw_stmt L (S i))] else [])));
        [sw_split|reflexivity|].
      eapply reach_weaken;
        [|replace (S (length (pre ++ stest e vals (sw_stmt L i) (sw_next L i)
                      ++ [SLbl (sw_stmt L i)] ++ B ++ (if ft then [] else [sjmp (sw_end L)])
                      ++ (if match r with [] => is_some sd | _ => true end
                          then [sjmp (sw_stmt L (S i))] else []))))
            with (length (pre ++ scase_code e L i (mkCase vals B ft)
                                   (match r with [] => is_some sd | _ => true end)))
            by (unfold scase_code; cbn [sc_vals sc_body sc_falls];
                rewrite ?app_length; cbn [length]; rewrite ?app_length; cbn [length]; lia);
          apply (IH (S i) (pre ++ scase_code e L i (mkCase vals B ft)
                                    (match r with [] => is_some sd | _ => true end)) sl k s1 Hp Hw);
          [rewrite Esl; cbn [scases_code]; rewrite <- !app_assoc; reflexivity
          |rewrite Hk; cbn [length]; lia|exact Hnd|exact Hokr|exact Hd
          |intros c' Hin; apply Hv; right; exact Hin|exact Hb1]].
      intros n2 pc2 s2 (Hpc2 & mid & Hs2 & Hbm & Hx & Hb2). cbv beta. split; [exact Hpc2|].
      exists mid. split; [apply (same_mxys_trans _ _ _ Hsame Hs2)|]. split; [exact Hbm|].
      split; [|exact Hb2]. rewrite <- (sw_val_same cfg e s s1 Hsame). exact Hx.
Qed.
Print Assumptions dispatch_reach.

(** ** [switch_tpl_correct] *)

(** all the bodies of a switch *)
Definition sw_bodies (cs : list (sw_case code)) (d : option code) : list code :=
  map sc_body cs ++ match d with Some D => [D] | None => [] end.

(** a body at code level: no RTS / RTI, halts from every byte-valued state *)
Definition body_total (cfg : config) (B : code) : Prop :=
  no_ret B /\ forall s, bytes_ok s -> exists s', halts_to cfg B s s'.

Lemma body_total_sbody_ok : forall cfg B slB, slines_of B = Some slB ->
  body_total cfg B -> sbody_ok cfg slB.
Proof.
  intros cfg B slB HslB (Hnr & Hh). split; [apply (slines_no_ret _ _ HslB Hnr)|].
  intros s Hb. destruct (Hh s Hb) as (s' & Hr).
  destruct (halts_to_sl_halts cfg B slB _ _ HslB Hr) as (N & HN).
  exists N, s'. split; [exact HN|apply (halts_to_bytes_ok cfg B _ _ Hr Hb)].
Qed.

Lemma asm_cases : forall cs : list (sw_case code),
  (forall cse, In cse cs -> exists sl, slines_of (sc_body cse) = Some sl) ->
  exists scs, Forall2 case_asm cs scs.
Proof.
  induction cs as [|cse r IH]; intros H; [exists []; constructor|].
  destruct (H cse (or_introl eq_refl)) as (slB & HslB).
  destruct (IH (fun c Hin => H c (or_intror Hin))) as (sr & Hr).
  exists (mkCase (sc_vals cse) slB (sc_falls cse) :: sr). constructor; [|exact Hr].
  repeat split. exact HslB.
Qed.

(** The switch halts from every byte-valued state [st]; with [mid] the state after the tests (equal
    to [st] on memory, X, Y, S), the final state is the one obtained by running from [mid], one
    after the other, exactly the bodies [switch_sem] gives for the value of the operand. *)
Theorem switch_tpl_correct : forall cfg e cs d L st,
  ports cfg = [] -> sw_wf cfg e -> labels_ne L ->
  NoDup (defs (switch_tpl_at e cs d L)) ->
  (forall cse, In cse cs -> forall v, In v (sc_vals cse) -> 0 <= v < 256) ->
  (forall B, In B (sw_bodies cs d) -> body_total cfg B) ->
  bytes_ok st ->
  exists mid st', same_mxys st mid /\ bytes_ok mid /\
    halts_to cfg (switch_tpl_at e cs d L) st st' /\
    exec_bodies cfg (switch_sem (sw_val cfg e st) cs d) mid st' /\ bytes_ok st'.
Proof.
  intros cfg e cs d L st Hp Hw HL Hnd Hv Hbodies Hb.
  assert (Hasm : forall B, In B (sw_bodies cs d) -> exists sl, slines_of B = Some sl).
  { intros B Hin. destruct (Hbodies B Hin) as (_ & Hh). destruct (Hh st Hb) as (s' & sl & Hsl & _).
    exists sl. exact Hsl. }
  destruct (asm_cases cs) as (scs & Hcs).
  { intros cse Hin. apply Hasm. unfold sw_bodies. apply in_or_app. left. apply in_map. exact Hin. }
  assert (Hd : exists sd, opt_asm d sd /\ sdflt_ok cfg sd).
  { destruct d as [D|]; [|exists None; split; exact I].
    assert (HinD : In D (sw_bodies cs (Some D))) by (unfold sw_bodies; apply in_or_app; right; left; reflexivity).
    destruct (Hasm D HinD) as (sD & HsD). exists (Some sD). split; [exact HsD|].
    apply (body_total_sbody_ok cfg D sD HsD (Hbodies D HinD)). }
  destruct Hd as (sd & Hd & Hdok).
  assert (Hok : Forall (sbody_ok cfg) (map sc_body scs)).
  { assert (Hb' : forall cse, In cse cs -> body_total cfg (sc_body cse)).
    { intros cse Hin. apply Hbodies. unfold sw_bodies. apply in_or_app. left. apply in_map. exact Hin. }
    clear - Hcs Hb'. induction Hcs as [|cse sc r sr (_ & _ & Eb) Hr IH]; [constructor|].
    cbn [map]. constructor.
    - apply (body_total_sbody_ok cfg (sc_body cse) _ Eb). apply Hb'. left. reflexivity.
    - apply IH. intros c Hin. apply Hb'. right. exact Hin. }
  assert (Hvs : forall sc, In sc scs -> forall v, In v (sc_vals sc) -> 0 <= v < 256).
  { clear - Hcs Hv. induction Hcs as [|cse sc r sr (Ev & _) Hr IH]; intros c [].
    - subst c. rewrite Ev. apply Hv. left. reflexivity.
    - apply IH; [intros c' Hin; apply Hv; right; exact Hin|assumption]. }
  pose proof (slines_switch_tpl cfg e L cs scs d sd Hw HL
                (fun cse Hin v Hvin => proj1 (Hv cse Hin v Hvin)) Hcs Hd) as Hsl.
  rewrite <- (slines_defs _ _ Hsl) in Hnd.
  assert (Hx : exists st', halts_to cfg (switch_tpl_at e cs d L) st st' /\
             exists mid, same_mxys st mid /\ bytes_ok mid /\
               sexec cfg (switch_sem (sw_val cfg e st) scs sd) mid st' /\ bytes_ok st').
  { eapply halts_to_reach; [exact Hsl|].
    eapply reach_weaken;
      [|apply (dispatch_reach cfg e L sd scs 0%nat [] _ (length scs) st Hp Hw eq_refl eq_refl
                 Hnd Hok Hdok Hvs Hb)].
    intros n pc' s' HP. exact HP. }
  destruct Hx as (st' & Hr & mid & Hs & Hbm & Hex & Hb').
  exists mid, st'. split; [exact Hs|]. split; [exact Hbm|]. split; [exact Hr|]. split; [|exact Hb'].
  apply (sexec_exec cfg _ _ _ _ (switch_sem_asm _ cs scs d sd Hcs Hd) Hex).
Qed.
Print Assumptions switch_tpl_correct.

(** the same with the compiler's labels *)
Lemma switch_labels_ne : forall n, labels_ne (switch_labels n).
Proof.
  intros n. split; [intros i; split|]; unfold switch_labels, lname; cbn [sw_stmt sw_next sw_end append];
    discriminate.
Qed.

Corollary switch_tpl_correct_n : forall cfg e cs d n st,
  ports cfg = [] -> sw_wf cfg e ->
  NoDup (defs (switch_tpl e cs d n)) ->
  (forall cse, In cse cs -> forall v, In v (sc_vals cse) -> 0 <= v < 256) ->
  (forall B, In B (sw_bodies cs d) -> body_total cfg B) ->
  bytes_ok st ->
  exists mid st', same_mxys st mid /\ bytes_ok mid /\
    halts_to cfg (switch_tpl e cs d n) st st' /\
    exec_bodies cfg (switch_sem (sw_val cfg e st) cs d) mid st' /\ bytes_ok st'.
Proof.
  intros cfg e cs d n st Hp Hw. unfold switch_tpl.
  apply switch_tpl_correct; [exact Hp|exact Hw|apply switch_labels_ne].
Qed.
Print Assumptions switch_tpl_correct_n.

(** ** switches whose statements are all [dst = k;]: the last assignment executed wins *)

Definition map_case {A B : Type} (f : A -> B) (c : sw_case A) : sw_case B :=
  mkCase (sc_vals c) (f (sc_body c)) (sc_falls c).

Lemma run_from_map : forall (A B : Type) (f : A -> B) cs d,
  run_from (map (map_case f) cs) (option_map f d) = map f (run_from cs d).
Proof.
  intros A B f cs d. induction cs as [|c r IH].
  - destruct d; reflexivity.
  - cbn [map run_from map_case sc_body sc_falls]. rewrite IH.
    destruct (sc_falls c); reflexivity.
Qed.

Lemma switch_sem_map : forall (A B : Type) (f : A -> B) v cs d,
  switch_sem v (map (map_case f) cs) (option_map f d) = map f (switch_sem v cs d).
Proof.
  intros A B f v cs d. induction cs as [|c r IH].
  - destruct d; reflexivity.
  - cbn [map switch_sem]. cbn [map_case sc_vals]. rewrite IH.
    destruct (existsb (Z.eqb v) (sc_vals c)); [|reflexivity].
    apply (run_from_map A B f (c :: r) d).
Qed.

Lemma last_cons : forall (r : list Z) k d, last (k :: r) d = last r k.
Proof.
  induction r as [|a r IH]; intros k d; [reflexivity|].
  change (last (k :: a :: r) d) with (last (a :: r) d). rewrite (IH a d), (IH a k). reflexivity.
Qed.

Lemma exec_assign8s : forall cfg dst pd ks s s',
  ports cfg = [] -> var_name dst -> layout cfg dst = Some pd -> 0 <= pd < 65536 ->
  (forall k, In k ks -> 0 <= k < 256) ->
  exec_bodies cfg (map (assign8 dst) ks) s s' ->
  mget (mem s') pd = last ks (mget (mem s) pd) /\ only_changes [pd] s s' /\ keeps_xys s s'.
Proof.
  intros cfg dst pd ks s s' Hp Vd Ld Rd. revert s.
  induction ks as [|k r IH]; intros s Hk Hx.
  - cbn [map exec_bodies] in Hx. subst s'.
    split; [reflexivity|]. split; [apply only_changes_refl|apply keeps_xys_refl].
  - cbn [map exec_bodies] in Hx. destruct Hx as (m & Hr & Hx).
    destruct (assign8_correct cfg dst k pd s Hp Vd Ld Rd (Hk k (or_introl eq_refl)))
      as (m' & Hr' & Hv & Hoc & Hkx).
    rewrite (halts_to_det cfg _ s m m' Hr (runs_to_halts_to _ _ _ _ Hr')) in Hx.
    destruct (IH m' (fun k' Hin => Hk k' (or_intror Hin)) Hx) as (Hv2 & Hoc2 & Hk2).
    split; [rewrite Hv2, Hv, last_cons; reflexivity|].
    split; [apply (only_changes_trans _ _ _ _ Hoc Hoc2)|apply (keeps_xys_trans _ _ _ Hkx Hk2)].
Qed.

Lemma assign8_total : forall cfg dst k pd,
  ports cfg = [] -> var_name dst -> layout cfg dst = Some pd -> 0 <= pd < 65536 -> 0 <= k < 256 ->
  body_total cfg (assign8 dst k).
Proof.
  intros cfg dst k pd Hp Vd Ld Rd Rk. split; [apply assign8_no_ret|].
  intros s _. destruct (assign8_correct cfg dst k pd s Hp Vd Ld Rd Rk) as (s' & Hr & _).
  exists s'. apply runs_to_halts_to. exact Hr.
Qed.

(** [ks], [dk]: the switch with the assigned constants in place of the statements *)
Theorem switch_assign_correct : forall cfg e (ks : list (sw_case Z)) (dk : option Z) dst pd L st,
  ports cfg = [] -> sw_wf cfg e -> labels_ne L ->
  var_name dst -> layout cfg dst = Some pd -> 0 <= pd < 65536 ->
  NoDup (defs (switch_tpl_at e (map (map_case (assign8 dst)) ks) (option_map (assign8 dst) dk) L)) ->
  (forall c, In c ks -> (forall v, In v (sc_vals c) -> 0 <= v < 256) /\ 0 <= sc_body c < 256) ->
  (forall k, dk = Some k -> 0 <= k < 256) ->
  bytes_ok st ->
  exists st',
    halts_to cfg (switch_tpl_at e (map (map_case (assign8 dst)) ks) (option_map (assign8 dst) dk) L)
      st st' /\
    mget (mem st') pd = last (switch_sem (sw_val cfg e st) ks dk) (mget (mem st) pd) /\
    only_changes [pd] st st' /\ keeps_xys st st'.
Proof.
  intros cfg e ks dk dst pd L st Hp Hw HL Vd Ld Rd Hnd Hks Hdk Hb.
  assert (Hsel : forall k, In k (switch_sem (sw_val cfg e st) ks dk) -> 0 <= k < 256).
  { generalize (sw_val cfg e st). intros v.
    assert (Hrun : forall cs, (forall c, In c cs -> In c ks) ->
              forall k, In k (run_from cs dk) -> 0 <= k < 256).
    { induction cs as [|c r IH]; intros Hsub k Hin.
      - cbn [run_from] in Hin. destruct dk as [k0|]; [|contradiction].
        destruct Hin as [<-|[]]. apply Hdk. reflexivity.
      - cbn [run_from] in Hin. destruct Hin as [<-|Hin].
        + apply (Hks c (Hsub c (or_introl eq_refl))).
        + destruct (sc_falls c); [|contradiction].
          apply (IH (fun c' H' => Hsub c' (or_intror H')) k Hin). }
    assert (Hsw : forall cs, (forall c, In c cs -> In c ks) ->
              forall k, In k (switch_sem v cs dk) -> 0 <= k < 256).
    { induction cs as [|c r IH]; intros Hsub k Hin.
      - apply (Hrun [] Hsub k Hin).
      - cbn [switch_sem] in Hin. destruct (existsb (Z.eqb v) (sc_vals c)).
        + apply (Hrun (c :: r) Hsub k Hin).
        + apply (IH (fun c' H' => Hsub c' (or_intror H')) k Hin). }
    apply (Hsw ks (fun c H => H)). }
  destruct (switch_tpl_correct cfg e (map (map_case (assign8 dst)) ks)
              (option_map (assign8 dst) dk) L st Hp Hw HL Hnd)
    as (mid & st' & Hs & Hbm & Hr & Hx & Hb'); [| |exact Hb|].
  - intros cse Hin v Hv. apply in_map_iff in Hin. destruct Hin as (c & <- & Hc).
    cbn [map_case sc_vals] in Hv. apply (proj1 (Hks c Hc) v Hv).
  - intros B Hin. unfold sw_bodies in Hin. apply in_app_or in Hin. destruct Hin as [Hin|Hin].
    + rewrite map_map in Hin. apply in_map_iff in Hin. destruct Hin as (c & <- & Hc).
      cbn [map_case sc_body]. apply (assign8_total cfg dst _ pd Hp Vd Ld Rd (proj2 (Hks c Hc))).
    + destruct dk as [k|]; [|contradiction]. destruct Hin as [<-|[]].
      apply (assign8_total cfg dst k pd Hp Vd Ld Rd (Hdk k eq_refl)).
  - rewrite switch_sem_map in Hx.
    destruct (exec_assign8s cfg dst pd _ mid st' Hp Vd Ld Rd Hsel Hx) as (Hv & Hoc & Hk).
    exists st'. split; [exact Hr|]. pose proof Hs as (Em & _).
    split; [rewrite Hv, Em; reflexivity|].
    split; [apply (only_changes_same _ _ _ _ Hs Hoc)|apply (keeps_xys_same _ _ _ Hs Hk)].
Qed.
Print Assumptions switch_assign_correct.

(** a checker for [NoDup] on concrete labels *)
Fixpoint nodupb (l : list string) : bool :=
  match l with
  | [] => true
  | x :: r => negb (existsb (String.eqb x) r) && nodupb r
  end.

Lemma nodupb_sound : forall l, nodupb l = true -> NoDup l.
Proof.
  induction l as [|x r IH]; intros H; [constructor|].
  cbn [nodupb] in H. apply andb_true_iff in H. destruct H as [H1 H2].
  constructor; [|apply IH; exact H2].
  intros Hin. apply negb_true_iff in H1.
  assert (Hex : existsb (String.eqb x) r = true)
    by (apply existsb_exists; exists x; split; [exact Hin|apply String.eqb_refl]).
  rewrite Hex in H1. discriminate H1.
Qed.

(** ** the four listings (the switch numbered 1), any addresses *)

(** [switch (x) { case 1: dst = 1; break; case 2: dst = 2; break; default: dst = 3; }] *)
Theorem switch_listing_07 : forall cfg x dst px pd st,
  ports cfg = [] -> var_name x -> var_name dst ->
  layout cfg x = Some px -> layout cfg dst = Some pd -> 0 <= px < 65536 -> 0 <= pd < 65536 ->
  bytes_ok st ->
  exists st',
    halts_to cfg (switch_tpl (SwMem x) [mkCase [1] (assign8 dst 1) false;
                                        mkCase [2] (assign8 dst 2) false]
                    (Some (assign8 dst 3)) 1) st st' /\
    mget (mem st') pd
    = (if mget (mem st) px =? 1 then 1 else if mget (mem st) px =? 2 then 2 else 3) /\
    only_changes [pd] st st' /\ keeps_xys st st'.
Proof.
  intros cfg x dst px pd st Hp Vx Vd Lx Ld Rx Rd Hb.
  destruct (switch_assign_correct cfg (SwMem x) [mkCase [1] 1 false; mkCase [2] 2 false] (Some 3)
              dst pd (switch_labels 1) st Hp (var_at_intro cfg x px Vx Lx Rx) (switch_labels_ne 1)
              Vd Ld Rd) as (st' & Hr & Hv & Hf); try exact Hb.
  - apply nodupb_sound. vm_compute. reflexivity.
  - intros c [<-|[<-|[]]]; cbn [sc_vals sc_body In]; (split; [intros v [<-|[]]|]; lia).
  - intros k E. inversion E. lia.
  - exists st'. split; [exact Hr|]. split; [|exact Hf].
    rewrite Hv. cbn [sw_val switch_sem run_from existsb sc_vals sc_body sc_falls].
    unfold var_val. rewrite Lx.
    destruct (mget (mem st) px =? 1); [reflexivity|].
    destruct (mget (mem st) px =? 2); reflexivity.
Qed.
Print Assumptions switch_listing_07.

(** [switch (x) { case 1: dst = 1; case 2: dst = 2; break; }]: the first case falls through *)
Theorem switch_listing_08 : forall cfg x dst px pd st,
  ports cfg = [] -> var_name x -> var_name dst ->
  layout cfg x = Some px -> layout cfg dst = Some pd -> 0 <= px < 65536 -> 0 <= pd < 65536 ->
  bytes_ok st ->
  exists st',
    halts_to cfg (switch_tpl (SwMem x) [mkCase [1] (assign8 dst 1) true;
                                        mkCase [2] (assign8 dst 2) false] None 1) st st' /\
    mget (mem st') pd
    = (if (mget (mem st) px =? 1) || (mget (mem st) px =? 2) then 2 else mget (mem st) pd) /\
    only_changes [pd] st st' /\ keeps_xys st st'.
Proof.
  intros cfg x dst px pd st Hp Vx Vd Lx Ld Rx Rd Hb.
  destruct (switch_assign_correct cfg (SwMem x) [mkCase [1] 1 true; mkCase [2] 2 false] None
              dst pd (switch_labels 1) st Hp (var_at_intro cfg x px Vx Lx Rx) (switch_labels_ne 1)
              Vd Ld Rd) as (st' & Hr & Hv & Hf); try exact Hb.
  - apply nodupb_sound. vm_compute. reflexivity.
  - intros c [<-|[<-|[]]]; cbn [sc_vals sc_body In]; (split; [intros v [<-|[]]|]; lia).
  - intros k E. discriminate E.
  - exists st'. split; [exact Hr|]. split; [|exact Hf].
    rewrite Hv. cbn [sw_val switch_sem run_from existsb sc_vals sc_body sc_falls].
    unfold var_val. rewrite Lx.
    destruct (mget (mem st) px =? 1); [reflexivity|].
    destruct (mget (mem st) px =? 2); reflexivity.
Qed.
Print Assumptions switch_listing_08.

(** [switch (x) { case 1: case 3: dst = 1; break; default: dst = 2; }]: two values on a case *)
Theorem switch_listing_09 : forall cfg x dst px pd st,
  ports cfg = [] -> var_name x -> var_name dst ->
  layout cfg x = Some px -> layout cfg dst = Some pd -> 0 <= px < 65536 -> 0 <= pd < 65536 ->
  bytes_ok st ->
  exists st',
    halts_to cfg (switch_tpl (SwMem x) [mkCase [1; 3] (assign8 dst 1) false]
                    (Some (assign8 dst 2)) 1) st st' /\
    mget (mem st') pd
    = (if (mget (mem st) px =? 1) || (mget (mem st) px =? 3) then 1 else 2) /\
    only_changes [pd] st st' /\ keeps_xys st st'.
Proof.
  intros cfg x dst px pd st Hp Vx Vd Lx Ld Rx Rd Hb.
  destruct (switch_assign_correct cfg (SwMem x) [mkCase [1; 3] 1 false] (Some 2)
              dst pd (switch_labels 1) st Hp (var_at_intro cfg x px Vx Lx Rx) (switch_labels_ne 1)
              Vd Ld Rd) as (st' & Hr & Hv & Hf); try exact Hb.
  - apply nodupb_sound. vm_compute. reflexivity.
  - intros c [<-|[]]; cbn [sc_vals sc_body In]; (split; [intros v [<-|[<-|[]]]|]; lia).
  - intros k E. inversion E. lia.
  - exists st'. split; [exact Hr|]. split; [|exact Hf].
    rewrite Hv. cbn [sw_val switch_sem run_from existsb sc_vals sc_body sc_falls].
    unfold var_val. rewrite Lx.
    destruct (mget (mem st) px =? 1); [reflexivity|].
    destruct (mget (mem st) px =? 3); reflexivity.
Qed.
Print Assumptions switch_listing_09.

(** [switch (X) { case 0: dst = 1; break; case 5: dst = 2; break; }]: on the X register *)
Theorem switch_listing_10 : forall cfg dst pd st,
  ports cfg = [] -> var_name dst -> layout cfg dst = Some pd -> 0 <= pd < 65536 ->
  bytes_ok st ->
  exists st',
    halts_to cfg (switch_tpl SwX [mkCase [0] (assign8 dst 1) false;
                                  mkCase [5] (assign8 dst 2) false] None 1) st st' /\
    mget (mem st') pd
    = (if rX st =? 0 then 1 else if rX st =? 5 then 2 else mget (mem st) pd) /\
    only_changes [pd] st st' /\ keeps_xys st st'.
Proof.
  intros cfg dst pd st Hp Vd Ld Rd Hb.
  destruct (switch_assign_correct cfg SwX [mkCase [0] 1 false; mkCase [5] 2 false] None
              dst pd (switch_labels 1) st Hp I (switch_labels_ne 1)
              Vd Ld Rd) as (st' & Hr & Hv & Hf); try exact Hb.
  - apply nodupb_sound. vm_compute. reflexivity.
  - intros c [<-|[<-|[]]]; cbn [sc_vals sc_body In]; (split; [intros v [<-|[]]|]; lia).
  - intros k E. discriminate E.
  - exists st'. split; [exact Hr|]. split; [|exact Hf].
    rewrite Hv. cbn [sw_val switch_sem run_from existsb sc_vals sc_body sc_falls].
    destruct (rX st =? 0); [reflexivity|].
    destruct (rX st =? 5); reflexivity.
Qed.
Print Assumptions switch_listing_10.

(** * Instances: the do-while listings *)

Lemma only_changes_incl : forall d d' s s', (forall a, In a d -> In a d') ->
  only_changes d s s' -> only_changes d' s s'.
Proof. intros d d' s s' Hi H a Ha Hn. apply (H a Ha). intros Hin. apply Hn. apply Hi. exact Hin. Qed.

Lemma lname_dowhile_ifhere : forall n m, lname ".dowhile" n <> lname ".ifhere" m.
Proof. intros n m. unfold lname. cbn [append]. discriminate. Qed.
Lemma lname_for_ifhere : forall n m, lname ".for" n <> lname ".ifhere" m.
Proof. intros n m. unfold lname. cbn [append]. discriminate. Qed.
Lemma lname_forend_ifhere : forall n m, lname ".forend" n <> lname ".ifhere" m.
Proof. intros n m. unfold lname. cbn [append]. discriminate. Qed.

(** [do { a++; } while (a != b);] (listing 02) halts from EVERY byte-valued state with [a = b]
    (after 256 iterations when [a = b] at the start) *)
Theorem dowhile_ne_inc_code_correct : forall cfg a b lhead lend here pa pb st,
  ports cfg = [] -> var_name a -> var_name b ->
  lhead <> ""%string -> here <> ""%string -> lhead <> here -> lhead <> lend ->
  layout cfg a = Some pa -> layout cfg b = Some pb ->
  0 <= pa < 65536 -> 0 <= pb < 65536 -> pa <> pb ->
  bytes_ok st ->
  exists st', halts_to cfg (dowhile_tpl_at (CVar RNeq a b) (template (SInc8 a)) lhead lend here) st st' /\
    mget (mem st') pa = mget (mem st) pb /\
    only_changes [pa] st st' /\ keeps_xys st st'.
Proof.
  intros cfg a b lhead lend here pa pb st Hp Va Vb Hh He Nhh Nhd La Lb Ra Rb Nab Hb.
  pose proof Hb as (_ & _ & _ & _ & HM0).
  destruct (dowhile_tpl_correct cfg (CVar RNeq a b) (template (SInc8 a)) lhead lend here
              (fun s => mget (mem s) pb = mget (mem st) pb /\ only_changes [pa] st s /\ keeps_xys st s)
              (fun s => mget (mem s) pb = mget (mem st) pb /\ only_changes [pa] st s /\ keeps_xys st s)
              (fun s => (mget (mem st) pb - mget (mem s) pa - 1) mod 256) st Hp)
    as (st' & Hr & (Hvb & Hoc & Hk) & Hc & _); try assumption.
  - split; [apply (var_at_intro cfg a pa)|apply (var_at_intro cfg b pb)]; assumption.
  - cbn. constructor; [intros [E|[]]; apply Nhd; symmetry; exact E|constructor; [intros []|constructor]].
  - reflexivity.
  - intros s s' Hs (H1 & H2). split; [destruct Hs as (Em & _); rewrite Em; exact H1|].
    apply (frame_same _ _ _ _ Hs H2).
  - intros s s' Hs (H1 & H2). split; [destruct Hs as (Em & _); rewrite Em; exact H1|].
    apply (frame_same _ _ _ _ Hs H2).
  - intros s s' (Em & _). cbv beta. rewrite Em. reflexivity.
  - intros s Hbs (H1 & H2 & H3).
    pose proof Hbs as (_ & _ & _ & _ & HM).
    pose proof (HM pa) as Ma. pose proof (HM0 pb) as Mb.
    destruct (inc8_correct cfg a pa s Hp Va La Ra) as (s' & Hr & Hv & Hoc & Hk).
    exists s'. split; [apply runs_to_halts_to; exact Hr|].
    assert (Hq : mget (mem s') pb = mget (mem st) pb /\ only_changes [pa] st s' /\ keeps_xys st s').
    { split; [rewrite (Hoc pb ltac:(lia) ltac:(cbn [In]; lia)); exact H1|].
      split; [apply (only_changes_trans _ _ _ _ H2 Hoc)|apply (keeps_xys_trans _ _ _ H3 Hk)]. }
    split; [exact Hq|]. intros Hc. split; [exact Hq|].
    rewrite (cond_holds_var cfg RNeq a b pa pb s' La Lb) in Hc. cbn [rel_holds] in Hc.
    rewrite (proj1 Hq), Hv in Hc. rewrite Hv.
    destruct (Z.eqb_spec ((mget (mem s) pa + 1) mod 256) (mget (mem st) pb)); [discriminate Hc|]. lia.
  - split; [reflexivity|]. split; [apply only_changes_refl|apply keeps_xys_refl].
  - exists st'. split; [exact Hr|]. split; [|split; assumption].
    rewrite (cond_holds_var cfg RNeq a b pa pb st' La Lb) in Hc. cbn [rel_holds] in Hc.
    rewrite Hvb in Hc.
    destruct (Z.eqb_spec (mget (mem st') pa) (mget (mem st) pb)); [assumption|discriminate Hc].
Qed.
Print Assumptions dowhile_ne_inc_code_correct.

Corollary dowhile_ne_inc_correct : forall cfg a b n pa pb st,
  ports cfg = [] -> var_name a -> var_name b ->
  layout cfg a = Some pa -> layout cfg b = Some pb ->
  0 <= pa < 65536 -> 0 <= pb < 65536 -> pa <> pb ->
  bytes_ok st ->
  exists st', halts_to cfg (dowhile_tpl (CVar RNeq a b) (template (SInc8 a)) n) st st' /\
    mget (mem st') pa = mget (mem st) pb /\
    only_changes [pa] st st' /\ keeps_xys st st'.
Proof.
  intros cfg a b n pa pb st Hp Va Vb. unfold dowhile_tpl.
  apply dowhile_ne_inc_code_correct; try assumption.
  - apply lname_nonempty_dowhile.
  - apply lname_ifhere_ne.
  - apply lname_dowhile_ifhere.
  - apply lname_dowhile_dowhileend.
Qed.
Print Assumptions dowhile_ne_inc_correct.

(** [do { c = 1; } while (a < b);] (listing 01): the body does not change the condition, so the
    loop ends iff [a < b] does not hold at the start; then [c = 1] *)
Theorem dowhile_lt_assign_correct : forall cfg a b c n pa pb pc st,
  ports cfg = [] -> var_name a -> var_name b -> var_name c ->
  layout cfg a = Some pa -> layout cfg b = Some pb -> layout cfg c = Some pc ->
  0 <= pa < 65536 -> 0 <= pb < 65536 -> 0 <= pc < 65536 -> pc <> pa -> pc <> pb ->
  bytes_ok st -> mget (mem st) pb <= mget (mem st) pa ->
  exists st', halts_to cfg (dowhile_tpl (CVar RLt a b) (assign8 c 1) n) st st' /\
    mget (mem st') pc = 1 /\ only_changes [pc] st st' /\ keeps_xys st st'.
Proof.
  intros cfg a b c n pa pb pc st Hp Va Vb Vc La Lb Lc Ra Rb Rc Nca Ncb Hb Hge.
  unfold dowhile_tpl.
  destruct (dowhile_tpl_correct cfg (CVar RLt a b) (assign8 c 1)
              (lname ".dowhile" n) (lname ".dowhileend" n) (lname ".ifhere" n)
              (fun s => only_changes [pc] st s /\ keeps_xys st s)
              (fun s => mget (mem s) pc = 1 /\ only_changes [pc] st s /\ keeps_xys st s)
              (fun _ => 0) st Hp)
    as (st' & Hr & (Hv & Hoc & Hk) & _ & _); try assumption.
  - split; [apply (var_at_intro cfg a pa)|apply (var_at_intro cfg b pb)]; assumption.
  - apply lname_nonempty_dowhile.
  - apply lname_ifhere_ne.
  - apply lname_dowhile_ifhere.
  - cbn. constructor; [intros [E|[]]; exact (lname_dowhile_dowhileend n (eq_sym E))
                      |constructor; [intros []|constructor]].
  - reflexivity.
  - intros s s' Hs H. apply (frame_same _ _ _ _ Hs H).
  - intros s s' Hs (H1 & H2). split; [destruct Hs as (Em & _); rewrite Em; exact H1|].
    apply (frame_same _ _ _ _ Hs H2).
  - reflexivity.
  - intros s Hbs (H2 & H3).
    destruct (assign8_correct cfg c 1 pc s Hp Vc Lc Rc ltac:(lia)) as (s' & Hr & Hv & Hoc & Hk).
    exists s'. split; [apply runs_to_halts_to; exact Hr|].
    assert (Hf : only_changes [pc] st s' /\ keeps_xys st s')
      by (split; [apply (only_changes_trans _ _ _ _ H2 Hoc)|apply (keeps_xys_trans _ _ _ H3 Hk)]).
    split; [split; [exact Hv|exact Hf]|].
    intros Hc. exfalso.
    rewrite (cond_holds_var cfg RLt a b pa pb s' La Lb) in Hc. cbn [rel_holds] in Hc.
    rewrite (proj1 Hf pa ltac:(lia) ltac:(cbn [In]; lia)) in Hc.
    rewrite (proj1 Hf pb ltac:(lia) ltac:(cbn [In]; lia)) in Hc. lia.
  - split; [apply only_changes_refl|apply keeps_xys_refl].
  - exists st'. split; [exact Hr|]. split; [exact Hv|]. split; assumption.
Qed.
Print Assumptions dowhile_lt_assign_correct.

(** [do { a++; } while (a <= b);] (listing 03, the two-branch form BCC / BEQ): for [b < 255] (with
    [b = 255] the condition always holds) [a] ends one above [b], or one above its initial value
    when that is already above [b]; the increment wraps: from [a = 255] the loop goes on from 0 *)
Theorem dowhile_le_inc_correct : forall cfg a b n pa pb st,
  ports cfg = [] -> var_name a -> var_name b ->
  layout cfg a = Some pa -> layout cfg b = Some pb ->
  0 <= pa < 65536 -> 0 <= pb < 65536 -> pa <> pb ->
  bytes_ok st -> mget (mem st) pb < 255 ->
  exists st', halts_to cfg (dowhile_tpl (CVar RLte a b) (template (SInc8 a)) n) st st' /\
    mget (mem st') pa
    = (if (mget (mem st) pa + 1) mod 256 <=? mget (mem st) pb
       then mget (mem st) pb + 1 else (mget (mem st) pa + 1) mod 256) /\
    only_changes [pa] st st' /\ keeps_xys st st'.
Proof.
  intros cfg a b n pa pb st Hp Va Vb La Lb Ra Rb Nab Hb Hb255.
  pose proof Hb as (_ & _ & _ & _ & HM0).
  pose proof (HM0 pa) as Ma0. pose proof (HM0 pb) as Mb0.
  set (a0 := mget (mem st) pa) in *. set (b0 := mget (mem st) pb) in *.
  set (a1 := (a0 + 1) mod 256).
  unfold dowhile_tpl.
  destruct (dowhile_tpl_correct cfg (CVar RLte a b) (template (SInc8 a))
              (lname ".dowhile" n) (lname ".dowhileend" n) (lname ".ifhere" n)
              (fun s => mget (mem s) pb = b0 /\
                        (mget (mem s) pa = a0 \/ (a1 <= b0 /\ a1 <= mget (mem s) pa <= b0)) /\
                        only_changes [pa] st s /\ keeps_xys st s)
              (fun s => mget (mem s) pb = b0 /\
                        (mget (mem s) pa = a1 \/ (a1 <= b0 /\ a1 < mget (mem s) pa <= b0 + 1)) /\
                        only_changes [pa] st s /\ keeps_xys st s)
              (fun s => if mget (mem s) pa <=? b0 then b0 + 1 - mget (mem s) pa
                        else if mget (mem s) pa =? 255 then b0 + 2 else 0) st Hp)
    as (st' & Hr & (Hvb & Hva & Hoc & Hk) & Hc & _); try assumption.
  - split; [apply (var_at_intro cfg a pa)|apply (var_at_intro cfg b pb)]; assumption.
  - apply lname_nonempty_dowhile.
  - apply lname_ifhere_ne.
  - apply lname_dowhile_ifhere.
  - cbn. constructor; [intros [E|[]]; exact (lname_dowhile_dowhileend n (eq_sym E))
                      |constructor; [intros []|constructor]].
  - reflexivity.
  - intros s s' Hs (H1 & H2 & H3). pose proof Hs as (Em & _). rewrite Em.
    split; [exact H1|]. split; [exact H2|]. apply (frame_same _ _ _ _ Hs H3).
  - intros s s' Hs (H1 & H2 & H3). pose proof Hs as (Em & _). rewrite Em.
    split; [exact H1|]. split; [exact H2|]. apply (frame_same _ _ _ _ Hs H3).
  - intros s s' (Em & _). cbv beta. rewrite Em. reflexivity.
  - intros s Hbs (H1 & H2 & H3 & H4).
    pose proof Hbs as (_ & _ & _ & _ & HM). pose proof (HM pa) as Ma.
    destruct (inc8_correct cfg a pa s Hp Va La Ra) as (s' & Hr & Hv & Hoc & Hk).
    exists s'. split; [apply runs_to_halts_to; exact Hr|].
    assert (Hvb' : mget (mem s') pb = b0)
      by (rewrite (Hoc pb ltac:(lia) ltac:(cbn [In]; lia)); exact H1).
    assert (Hf : only_changes [pa] st s' /\ keeps_xys st s')
      by (split; [apply (only_changes_trans _ _ _ _ H3 Hoc)|apply (keeps_xys_trans _ _ _ H4 Hk)]).
    split.
    + split; [exact Hvb'|]. split; [|exact Hf]. rewrite Hv. subst a1. lia.
    + intros Hc. rewrite (cond_holds_var cfg RLte a b pa pb s' La Lb) in Hc. cbn [rel_holds] in Hc.
      rewrite Hvb', Hv in Hc.
      split.
      * split; [exact Hvb'|]. split; [|exact Hf]. rewrite Hv. subst a1. right. lia.
      * rewrite Hv.
        destruct (Z.leb_spec ((mget (mem s) pa + 1) mod 256) b0); [|lia].
        destruct (Z.leb_spec (mget (mem s) pa) b0); [lia|].
        destruct (Z.eqb_spec (mget (mem s) pa) 255); subst a1; lia.
  - split; [reflexivity|]. split; [left; reflexivity|].
    split; [apply only_changes_refl|apply keeps_xys_refl].
  - exists st'. split; [exact Hr|]. split; [|split; assumption].
    rewrite (cond_holds_var cfg RLte a b pa pb st' La Lb) in Hc. cbn [rel_holds] in Hc.
    rewrite Hvb in Hc. fold a1.
    destruct (Z.leb_spec a1 b0); lia.
Qed.
Print Assumptions dowhile_le_inc_correct.

(** * Instances: the for listings *)

(** [for (i = 0; i != b; i++) c = 1;] (listing 04): [i] ends equal to [b]; [c] is set iff the
    body ran, i.e. iff [b <> 0] *)
Theorem for_ne_assign_code_correct : forall cfg i b c lfor lupd lend here pi pb pc st,
  ports cfg = [] -> var_name i -> var_name b -> var_name c ->
  lfor <> ""%string -> lend <> ""%string -> here <> ""%string -> lfor <> here -> lend <> here ->
  lfor <> lupd -> lfor <> lend -> lupd <> lend ->
  layout cfg i = Some pi -> layout cfg b = Some pb -> layout cfg c = Some pc ->
  0 <= pi < 65536 -> 0 <= pb < 65536 -> 0 <= pc < 65536 ->
  pi <> pb -> pc <> pi -> pc <> pb ->
  bytes_ok st ->
  exists st',
    halts_to cfg (for_tpl_at (assign8 i 0) (CVar RNeq i b) (template (SInc8 i)) (assign8 c 1)
                    lfor lupd lend here) st st' /\
    mget (mem st') pi = mget (mem st) pb /\
    mget (mem st') pc = (if mget (mem st) pb =? 0 then mget (mem st) pc else 1) /\
    only_changes [pi; pc] st st' /\ keeps_xys st st'.
Proof.
  intros cfg i b c lfor lupd lend here pi pb pc st Hp Vi Vb Vc Hf Hd Hh Nfh Ndh Nfu Nfd Nud
    Li Lb Lc Ri Rb Rc Nib Nci Ncb Hb.
  pose proof Hb as (_ & _ & _ & _ & HM0). pose proof (HM0 pb) as Mb0.
  set (b0 := mget (mem st) pb) in *. set (c0 := mget (mem st) pc) in *.
  destruct (for_tpl_correct cfg (assign8 i 0) (CVar RNeq i b) (template (SInc8 i)) (assign8 c 1)
              lfor lupd lend here
              (fun s => mget (mem s) pb = b0 /\ 0 <= mget (mem s) pi <= b0 /\
                        mget (mem s) pc = (if mget (mem s) pi =? 0 then c0 else 1) /\
                        only_changes [pi; pc] st s /\ keeps_xys st s)
              (fun s => b0 - mget (mem s) pi) st Hp)
    as (st' & Hr & (Hvb & Hvi & Hvc & Hoc & Hk) & Hc & _); try assumption.
  - split; [apply (var_at_intro cfg i pi)|apply (var_at_intro cfg b pb)]; assumption.
  - cbn. constructor; [intros [E|[E|[]]]; [apply Nfu|apply Nfd]; symmetry; exact E|].
    constructor; [intros [E|[]]; apply Nud; symmetry; exact E|].
    constructor; [intros []|constructor].
  - reflexivity.
  - reflexivity.
  - reflexivity.
  - eexists. unfold assign8. slines_tac.
  - apply inc8_assembles. exact Vi.
  - intros s s' Hs (H1 & H2 & H3 & H4). pose proof Hs as (Em & _). rewrite Em.
    split; [exact H1|]. split; [exact H2|]. split; [exact H3|]. apply (frame_same _ _ _ _ Hs H4).
  - intros s s' (Em & _). cbv beta. rewrite Em. reflexivity.
  - destruct (assign8_correct cfg i 0 pi st Hp Vi Li Ri ltac:(lia)) as (s0 & Hr0 & Hv0 & Hoc0 & Hk0).
    exists s0. split; [apply runs_to_halts_to; exact Hr0|].
    split; [apply (Hoc0 pb); [lia|cbn [In]; lia]|]. rewrite Hv0.
    split; [lia|]. split; [apply (Hoc0 pc); [lia|cbn [In]; lia]|].
    split; [apply (only_changes_incl [pi]); [intros x [<-|[]]; left; reflexivity|exact Hoc0]|exact Hk0].
  - intros s Hbs (H1 & H2 & H3 & H4 & H5) Hc.
    rewrite (cond_holds_var cfg RNeq i b pi pb s Li Lb) in Hc. cbn [rel_holds] in Hc. rewrite H1 in Hc.
    destruct (Z.eqb_spec (mget (mem s) pi) b0) as [|Hne]; [discriminate Hc|].
    split; [lia|].
    destruct (assign8_correct cfg c 1 pc s Hp Vc Lc Rc ltac:(lia)) as (s1 & Hr1 & Hv1 & Hoc1 & Hk1).
    exists s1. split; [apply runs_to_halts_to; exact Hr1|].
    destruct (inc8_correct cfg i pi s1 Hp Vi Li Ri) as (s2 & Hr2 & Hv2 & Hoc2 & Hk2).
    exists s2. split; [apply runs_to_halts_to; exact Hr2|].
    assert (Ei1 : mget (mem s1) pi = mget (mem s) pi) by (apply Hoc1; [lia|cbn [In]; lia]).
    rewrite Ei1 in Hv2. rewrite Z.mod_small in Hv2 by lia.
    split; [|rewrite Hv2; lia].
    split; [rewrite (Hoc2 pb ltac:(lia) ltac:(cbn [In]; lia)),
                    (Hoc1 pb ltac:(lia) ltac:(cbn [In]; lia)); exact H1|].
    rewrite Hv2. split; [lia|].
    split; [rewrite (Hoc2 pc ltac:(lia) ltac:(cbn [In]; lia)), Hv1;
            destruct (Z.eqb_spec (mget (mem s) pi + 1) 0); [lia|reflexivity]|].
    split.
    + apply (only_changes_trans _ _ s _ H4). apply (only_changes_trans _ _ s1).
      * apply (only_changes_incl [pc]); [intros x [<-|[]]; right; left; reflexivity|exact Hoc1].
      * apply (only_changes_incl [pi]); [intros x [<-|[]]; left; reflexivity|exact Hoc2].
    + apply (keeps_xys_trans _ _ _ H5). apply (keeps_xys_trans _ _ _ Hk1 Hk2).
  - exists st'. split; [exact Hr|].
    rewrite (cond_holds_var cfg RNeq i b pi pb st' Li Lb) in Hc. cbn [rel_holds] in Hc.
    rewrite Hvb in Hc.
    destruct (Z.eqb_spec (mget (mem st') pi) b0) as [Ei|]; [|discriminate Hc].
    split; [exact Ei|]. split; [rewrite Hvc, Ei; reflexivity|]. split; assumption.
Qed.
Print Assumptions for_ne_assign_code_correct.

Corollary for_ne_assign_correct : forall cfg i b c n pi pb pc st,
  ports cfg = [] -> var_name i -> var_name b -> var_name c ->
  layout cfg i = Some pi -> layout cfg b = Some pb -> layout cfg c = Some pc ->
  0 <= pi < 65536 -> 0 <= pb < 65536 -> 0 <= pc < 65536 ->
  pi <> pb -> pc <> pi -> pc <> pb ->
  bytes_ok st ->
  exists st',
    halts_to cfg (for_tpl (assign8 i 0) (CVar RNeq i b) (template (SInc8 i)) (assign8 c 1) n) st st' /\
    mget (mem st') pi = mget (mem st) pb /\
    mget (mem st') pc = (if mget (mem st) pb =? 0 then mget (mem st) pc else 1) /\
    only_changes [pi; pc] st st' /\ keeps_xys st st'.
Proof.
  intros cfg i b c n pi pb pc st Hp Vi Vb Vc. unfold for_tpl.
  apply for_ne_assign_code_correct; try assumption.
  - apply lname_nonempty_for.
  - apply lname_nonempty_forend.
  - apply lname_ifhere_ne.
  - apply lname_for_ifhere.
  - apply lname_forend_ifhere.
  - apply lname_for_forupdate.
  - apply lname_for_forend.
  - apply lname_forupdate_forend.
Qed.
Print Assumptions for_ne_assign_correct.

(** [for (i = a; i < b; i++) c = 1;] (listing 05): [i] ends as the larger of [a] and [b]; [c] is
    set iff [a < b] *)
Theorem for_lt_assign_code_correct : forall cfg i a b c lfor lupd lend here pi pa pb pc st,
  ports cfg = [] -> var_name i -> var_name a -> var_name b -> var_name c ->
  lfor <> ""%string -> lend <> ""%string -> here <> ""%string -> lfor <> here -> lend <> here ->
  lfor <> lupd -> lfor <> lend -> lupd <> lend ->
  layout cfg i = Some pi -> layout cfg a = Some pa -> layout cfg b = Some pb ->
  layout cfg c = Some pc ->
  0 <= pi < 65536 -> 0 <= pa < 65536 -> 0 <= pb < 65536 -> 0 <= pc < 65536 ->
  pi <> pb -> pc <> pi -> pc <> pb ->
  bytes_ok st ->
  exists st',
    halts_to cfg (for_tpl_at (template (SCopy8 i a)) (CVar RLt i b) (template (SInc8 i)) (assign8 c 1)
                    lfor lupd lend here) st st' /\
    mget (mem st') pi = Z.max (mget (mem st) pa) (mget (mem st) pb) /\
    mget (mem st') pc = (if mget (mem st) pa <? mget (mem st) pb then 1 else mget (mem st) pc) /\
    only_changes [pi; pc] st st' /\ keeps_xys st st'.
Proof.
  intros cfg i a b c lfor lupd lend here pi pa pb pc st Hp Vi Va Vb Vc Hf Hd Hh Nfh Ndh Nfu Nfd Nud
    Li La Lb Lc Ri Ra Rb Rc Nib Nci Ncb Hb.
  pose proof Hb as (_ & _ & _ & _ & HM0). pose proof (HM0 pb) as Mb0. pose proof (HM0 pa) as Ma0.
  set (a0 := mget (mem st) pa) in *. set (b0 := mget (mem st) pb) in *.
  set (c0 := mget (mem st) pc) in *.
  destruct (for_tpl_correct cfg (template (SCopy8 i a)) (CVar RLt i b) (template (SInc8 i))
              (assign8 c 1) lfor lupd lend here
              (fun s => mget (mem s) pb = b0 /\ a0 <= mget (mem s) pi <= Z.max a0 b0 /\
                        mget (mem s) pc = (if mget (mem s) pi =? a0 then c0 else 1) /\
                        only_changes [pi; pc] st s /\ keeps_xys st s)
              (fun s => b0 - mget (mem s) pi) st Hp)
    as (st' & Hr & (Hvb & Hvi & Hvc & Hoc & Hk) & Hc & _); try assumption.
  - split; [apply (var_at_intro cfg i pi)|apply (var_at_intro cfg b pb)]; assumption.
  - cbn. constructor; [intros [E|[E|[]]]; [apply Nfu|apply Nfd]; symmetry; exact E|].
    constructor; [intros [E|[]]; apply Nud; symmetry; exact E|].
    constructor; [intros []|constructor].
  - reflexivity.
  - reflexivity.
  - reflexivity.
  - eexists. unfold assign8. slines_tac.
  - apply inc8_assembles. exact Vi.
  - intros s s' Hs (H1 & H2 & H3 & H4). pose proof Hs as (Em & _). rewrite Em.
    split; [exact H1|]. split; [exact H2|]. split; [exact H3|]. apply (frame_same _ _ _ _ Hs H4).
  - intros s s' (Em & _). cbv beta. rewrite Em. reflexivity.
  - destruct (copy8_correct cfg i a pi pa st Hp Vi Va Li La Ri Ra) as (s0 & Hr0 & Hv0 & Hoc0 & Hk0).
    exists s0. split; [apply runs_to_halts_to; exact Hr0|].
    split; [apply (Hoc0 pb); [lia|cbn [In]; lia]|]. rewrite Hv0. fold a0.
    split; [lia|]. split; [rewrite Z.eqb_refl; apply (Hoc0 pc); [lia|cbn [In]; lia]|].
    split; [apply (only_changes_incl [pi]); [intros x [<-|[]]; left; reflexivity|exact Hoc0]|exact Hk0].
  - intros s Hbs (H1 & H2 & H3 & H4 & H5) Hc.
    rewrite (cond_holds_var cfg RLt i b pi pb s Li Lb) in Hc. cbn [rel_holds] in Hc. rewrite H1 in Hc.
    destruct (Z.ltb_spec (mget (mem s) pi) b0) as [Hlt|]; [|discriminate Hc].
    split; [lia|].
    destruct (assign8_correct cfg c 1 pc s Hp Vc Lc Rc ltac:(lia)) as (s1 & Hr1 & Hv1 & Hoc1 & Hk1).
    exists s1. split; [apply runs_to_halts_to; exact Hr1|].
    destruct (inc8_correct cfg i pi s1 Hp Vi Li Ri) as (s2 & Hr2 & Hv2 & Hoc2 & Hk2).
    exists s2. split; [apply runs_to_halts_to; exact Hr2|].
    assert (Ei1 : mget (mem s1) pi = mget (mem s) pi) by (apply Hoc1; [lia|cbn [In]; lia]).
    rewrite Ei1 in Hv2. rewrite Z.mod_small in Hv2 by lia.
    split; [|rewrite Hv2; lia].
    split; [rewrite (Hoc2 pb ltac:(lia) ltac:(cbn [In]; lia)),
                    (Hoc1 pb ltac:(lia) ltac:(cbn [In]; lia)); exact H1|].
    rewrite Hv2. split; [lia|].
    split; [rewrite (Hoc2 pc ltac:(lia) ltac:(cbn [In]; lia)), Hv1;
            destruct (Z.eqb_spec (mget (mem s) pi + 1) a0); [lia|reflexivity]|].
    split.
    + apply (only_changes_trans _ _ s _ H4). apply (only_changes_trans _ _ s1).
      * apply (only_changes_incl [pc]); [intros x [<-|[]]; right; left; reflexivity|exact Hoc1].
      * apply (only_changes_incl [pi]); [intros x [<-|[]]; left; reflexivity|exact Hoc2].
    + apply (keeps_xys_trans _ _ _ H5). apply (keeps_xys_trans _ _ _ Hk1 Hk2).
  - exists st'. split; [exact Hr|].
    rewrite (cond_holds_var cfg RLt i b pi pb st' Li Lb) in Hc. cbn [rel_holds] in Hc.
    rewrite Hvb in Hc.
    destruct (Z.ltb_spec (mget (mem st') pi) b0) as [|Hge]; [discriminate Hc|].
    split; [lia|]. split; [|split; assumption].
    rewrite Hvc.
    destruct (Z.ltb_spec a0 b0); destruct (Z.eqb_spec (mget (mem st') pi) a0); try reflexivity; lia.
Qed.
Print Assumptions for_lt_assign_code_correct.

Corollary for_lt_assign_correct : forall cfg i a b c n pi pa pb pc st,
  ports cfg = [] -> var_name i -> var_name a -> var_name b -> var_name c ->
  layout cfg i = Some pi -> layout cfg a = Some pa -> layout cfg b = Some pb ->
  layout cfg c = Some pc ->
  0 <= pi < 65536 -> 0 <= pa < 65536 -> 0 <= pb < 65536 -> 0 <= pc < 65536 ->
  pi <> pb -> pc <> pi -> pc <> pb ->
  bytes_ok st ->
  exists st',
    halts_to cfg (for_tpl (template (SCopy8 i a)) (CVar RLt i b) (template (SInc8 i)) (assign8 c 1) n)
      st st' /\
    mget (mem st') pi = Z.max (mget (mem st) pa) (mget (mem st) pb) /\
    mget (mem st') pc = (if mget (mem st) pa <? mget (mem st) pb then 1 else mget (mem st) pc) /\
    only_changes [pi; pc] st st' /\ keeps_xys st st'.
Proof.
  intros cfg i a b c n pi pa pb pc st Hp Vi Va Vb Vc. unfold for_tpl.
  apply for_lt_assign_code_correct; try assumption.
  - apply lname_nonempty_for.
  - apply lname_nonempty_forend.
  - apply lname_ifhere_ne.
  - apply lname_for_ifhere.
  - apply lname_forend_ifhere.
  - apply lname_for_forupdate.
  - apply lname_for_forend.
  - apply lname_forupdate_forend.
Qed.
Print Assumptions for_lt_assign_correct.

(** * [break] under an [if]: the body [if (c) break; B'] *)
Lemma break_if_exits : forall cfg c B' lbrk lcont here s (Nm Bk : mstate -> Prop),
  ports cfg = [] -> cond_wf cfg c ->
  lbrk <> ""%string -> here <> ""%string -> lbrk <> here ->
  no_ret B' -> (exists sl, slines_of B' = Some sl) -> bytes_ok s ->
  (cond_holds cfg c s = true -> Bk (cond_state cfg c s)) ->
  (cond_holds cfg c s = false -> exists s', halts_to cfg B' (cond_state cfg c s) s' /\ Nm s') ->
  body_exits cfg (break_if_at c lbrk here ++ B') lbrk lcont s Nm Bk (fun _ => False).
Proof.
  intros cfg c B' lbrk lcont here s Nm Bk Hp Hw Hl Hh Nlh Hnr (slB' & HslB') Hb Htrue Hfalse.
  exists (spcond_code c lbrk here ++ slB'). split.
  - unfold break_if_at. apply slines_app; [apply (slines_pcond_code cfg); assumption|exact HslB'].
  - intros sl pre post kb kc Esl Hnd Hkb _. unfold spcond_code in *.
    rewrite <- app_assoc in Esl.
    apply reach_seq.
    eapply reach_weaken;
      [|apply (cond_reach_nd cfg (cond_neg c) lbrk here sl pre (slB' ++ post) kb s Hp
                 (cond_neg_wf _ _ Hw) Nlh Hnd Esl Hkb Hb)].
    intros n pc' s1 (Hn & Hs & Hpc). cbv beta. subst s1.
    rewrite cond_neg_state. rewrite cond_neg_holds in Hpc.
    destruct (cond_holds cfg c s) eqn:Ec; cbn [negb] in Hpc.
    + apply reach_stop. right. left. split; [exact Hpc|apply Htrue; reflexivity].
    + destruct (Hfalse eq_refl) as (s' & Hr & HN).
      destruct (halts_to_sl_halts cfg B' slB' _ _ HslB' Hr) as (N & HN').
      eapply (reach_body_nd cfg sl slB' (pre ++ scond_code (cond_neg c) lbrk here) post _ N _ s');
        [exact Hnd|rewrite Esl; rewrite <- app_assoc; reflexivity|rewrite Hpc, app_length; reflexivity
        |exact HN'|apply (slines_no_ret _ _ HslB' Hnr)|].
      intros n1 _. left. split; [rewrite !app_length; lia|exact HN].
Qed.
Print Assumptions break_if_exits.

(** [for (i = 0; i != 4; i++) { if (a == b) break; c = 1; }] (listing 06): when [a = b] the loop
    is left at once, by the [break]: [i = 0], [c] unchanged; otherwise four iterations: [i = 4],
    [c = 1] *)
Theorem for_break_code_correct : forall cfg i a b c lfor lupd lend here pi pa pb pc st,
  ports cfg = [] -> var_name i -> var_name a -> var_name b -> var_name c ->
  lfor <> ""%string -> lend <> ""%string -> here <> ""%string -> lfor <> here -> lend <> here ->
  lfor <> lupd -> lfor <> lend -> lupd <> lend ->
  layout cfg i = Some pi -> layout cfg a = Some pa -> layout cfg b = Some pb ->
  layout cfg c = Some pc ->
  0 <= pi < 65536 -> 0 <= pa < 65536 -> 0 <= pb < 65536 -> 0 <= pc < 65536 ->
  pi <> pa -> pi <> pb -> pc <> pa -> pc <> pb -> pc <> pi ->
  bytes_ok st ->
  exists st',
    halts_to cfg (for_tpl_at (assign8 i 0) (CConst RNeq i 4) (template (SInc8 i))
                    (break_if_at (CVar REq a b) lend here ++ assign8 c 1)
                    lfor lupd lend here) st st' /\
    mget (mem st') pi = (if mget (mem st) pa =? mget (mem st) pb then 0 else 4) /\
    mget (mem st') pc = (if mget (mem st) pa =? mget (mem st) pb then mget (mem st) pc else 1) /\
    only_changes [pi; pc] st st' /\ keeps_xys st st'.
Proof.
  intros cfg i a b c lfor lupd lend here pi pa pb pc st Hp Vi Va Vb Vc Hf Hd Hh Nfh Ndh Nfu Nfd Nud
    Li La Lb Lc Ri Ra Rb Rc Nia Nib Nca Ncb Nci Hb.
  set (a0 := mget (mem st) pa) in *. set (b0 := mget (mem st) pb) in *.
  set (c0 := mget (mem st) pc) in *.
  pose (Fr := fun s : mstate => mget (mem s) pa = a0 /\ mget (mem s) pb = b0 /\
                                only_changes [pi; pc] st s /\ keeps_xys st s).
  assert (HFr : forall s s', same_mxys s s' -> Fr s -> Fr s').
  { intros s s' Hs (H1 & H2 & H3). pose proof Hs as (Em & _). unfold Fr. rewrite Em.
    split; [exact H1|]. split; [exact H2|]. apply (frame_same _ _ _ _ Hs H3). }
  assert (Wcb : cond_wf cfg (CVar REq a b))
    by (split; [apply (var_at_intro cfg a pa)|apply (var_at_intro cfg b pb)]; assumption).
  destruct (for_tpl_break_correct cfg (assign8 i 0) (CConst RNeq i 4) (template (SInc8 i))
              (break_if_at (CVar REq a b) lend here ++ assign8 c 1) lfor lupd lend here
              (fun s => Fr s /\ 0 <= mget (mem s) pi <= 4 /\
                        (a0 = b0 -> mget (mem s) pi = 0 /\ mget (mem s) pc = c0) /\
                        (a0 <> b0 -> mget (mem s) pc = (if mget (mem s) pi =? 0 then c0 else 1)))
              (fun s => Fr s /\ a0 = b0 /\ mget (mem s) pi = 0 /\ mget (mem s) pc = c0)
              (fun s s1 => Fr s1 /\ a0 <> b0 /\ mget (mem s1) pi = mget (mem s) pi /\
                           0 <= mget (mem s) pi < 4 /\ mget (mem s1) pc = 1)
              (fun s => 4 - mget (mem s) pi) st Hp)
    as (st' & Hr & _ & Hpost); try assumption.
  - split; [apply (var_at_intro cfg i pi); assumption|lia].
  - cbn. constructor; [intros [E|[E|[]]]; [apply Nfu|apply Nfd]; symmetry; exact E|].
    constructor; [intros [E|[]]; apply Nud; symmetry; exact E|].
    constructor; [intros []|constructor].
  - reflexivity.
  - reflexivity.
  - eexists. unfold break_if_at, pcond_code_at, assign8. cbn [cond_lhs cond_rhs cond_op branch_seq app].
    repeat first [ apply slines_nil | eapply slines_ins; [parse_tac|]
                 | apply slines_br; [reflexivity|assumption|] ].
  - apply inc8_assembles. exact Vi.
  - intros s s' Hs (H1 & H2). pose proof Hs as (Em & _). rewrite Em.
    split; [apply (HFr _ _ Hs H1)|exact H2].
  - intros s s' (Em & _). cbv beta. rewrite Em. reflexivity.
  - destruct (assign8_correct cfg i 0 pi st Hp Vi Li Ri ltac:(lia)) as (s0 & Hr0 & Hv0 & Hoc0 & Hk0).
    exists s0. split; [apply runs_to_halts_to; exact Hr0|].
    assert (Ec0 : mget (mem s0) pc = c0) by (apply (Hoc0 pc); [lia|cbn [In]; lia]).
    split; [|rewrite Hv0, Ec0; split; [lia|]; split; [intros _; split; reflexivity|intros _; reflexivity]].
    split; [apply (Hoc0 pa); [lia|cbn [In]; lia]|]. split; [apply (Hoc0 pb); [lia|cbn [In]; lia]|].
    split; [apply (only_changes_incl [pi]); [intros x [<-|[]]; left; reflexivity|exact Hoc0]|exact Hk0].
  - (* the body *)
    intros s Hbs (HF & H2 & H3 & H4) Hc.
    rewrite (cond_holds_const cfg RNeq i 4 pi s Li) in Hc. cbn [rel_holds] in Hc.
    destruct (Z.eqb_spec (mget (mem s) pi) 4) as [|Hne]; [discriminate Hc|].
    split; [lia|].
    pose proof HF as (Ea & Eb & Hoc & Hk).
    pose proof (cond_state_same cfg (CVar REq a b) s) as Hsame.
    eapply (body_exits_weaken cfg _ lend lupd s _ _ (fun _ => False));
      [intros x Hx; exact Hx|intros x Hx; exact Hx|intros x []|].
    apply break_if_exits; try assumption; try reflexivity.
    + eexists. unfold assign8. slines_tac.
    + intros Hcb. rewrite (cond_holds_var cfg REq a b pa pb s La Lb) in Hcb. cbn [rel_holds] in Hcb.
      rewrite Ea, Eb in Hcb. apply Z.eqb_eq in Hcb.
      split; [apply cond_state_bytes_ok; exact Hbs|].
      split; [apply (HFr _ _ Hsame HF)|]. split; [exact Hcb|].
      pose proof Hsame as (Em & _). rewrite Em. apply (H3 Hcb).
    + intros Hcb. rewrite (cond_holds_var cfg REq a b pa pb s La Lb) in Hcb. cbn [rel_holds] in Hcb.
      rewrite Ea, Eb in Hcb. apply Z.eqb_neq in Hcb.
      destruct (assign8_correct cfg c 1 pc (cond_state cfg (CVar REq a b) s) Hp Vc Lc Rc ltac:(lia))
        as (s1 & Hr1 & Hv1 & Hoc1 & Hk1).
      exists s1. split; [apply runs_to_halts_to; exact Hr1|].
      pose proof (runs_to_bytes_ok cfg _ _ _ Hr1 (cond_state_bytes_ok cfg _ s Hbs)) as Hb1.
      split; [exact Hb1|].
      pose proof (HFr _ _ Hsame HF) as (Ea' & Eb' & Hoc' & Hk').
      pose proof Hsame as (Em & _).
      split.
      * split; [rewrite (Hoc1 pa ltac:(lia) ltac:(cbn [In]; lia)); exact Ea'|].
        split; [rewrite (Hoc1 pb ltac:(lia) ltac:(cbn [In]; lia)); exact Eb'|].
        split; [apply (only_changes_trans _ _ _ _ Hoc');
                apply (only_changes_incl [pc]); [intros x [<-|[]]; right; left; reflexivity|exact Hoc1]
               |apply (keeps_xys_trans _ _ _ Hk' Hk1)].
      * split; [exact Hcb|]. split; [rewrite (Hoc1 pi ltac:(lia) ltac:(cbn [In]; lia)), Em; reflexivity|].
        split; [lia|exact Hv1].
  - (* the update *)
    intros s s1 Hb1 ((Ea & Eb & Hoc & Hk) & Hne & Ei & Hi & Ec).
    destruct (inc8_correct cfg i pi s1 Hp Vi Li Ri) as (s2 & Hr2 & Hv2 & Hoc2 & Hk2).
    exists s2. split; [apply runs_to_halts_to; exact Hr2|].
    rewrite Ei in Hv2. rewrite Z.mod_small in Hv2 by lia.
    split; [|rewrite Hv2; lia].
    split.
    + split; [rewrite (Hoc2 pa ltac:(lia) ltac:(cbn [In]; lia)); exact Ea|].
      split; [rewrite (Hoc2 pb ltac:(lia) ltac:(cbn [In]; lia)); exact Eb|].
      split; [apply (only_changes_trans _ _ _ _ Hoc);
              apply (only_changes_incl [pi]); [intros x [<-|[]]; left; reflexivity|exact Hoc2]
             |apply (keeps_xys_trans _ _ _ Hk Hk2)].
    + rewrite Hv2. split; [lia|]. split; [intros E; contradiction|].
      intros _. rewrite (Hoc2 pc ltac:(lia) ltac:(cbn [In]; lia)), Ec.
      destruct (Z.eqb_spec (mget (mem s) pi + 1) 0); [lia|reflexivity].
  - exists st'. split; [exact Hr|].
    destruct Hpost as [[((Ea & Eb & Hoc & Hk) & Hi & H3 & H4) Hc]|((Ea & Eb & Hoc & Hk) & Eab & Ei & Ec)].
    + rewrite (cond_holds_const cfg RNeq i 4 pi st' Li) in Hc. cbn [rel_holds] in Hc.
      destruct (Z.eqb_spec (mget (mem st') pi) 4) as [E4|]; [|discriminate Hc].
      destruct (Z.eqb_spec a0 b0) as [Eab|Nab].
      * destruct (H3 Eab) as (E0 & _). lia.
      * split; [exact E4|]. split; [rewrite (H4 Nab), E4; reflexivity|]. split; assumption.
    + destruct (Z.eqb_spec a0 b0) as [_|Nab]; [|contradiction].
      split; [exact Ei|]. split; [exact Ec|]. split; assumption.
Qed.
Print Assumptions for_break_code_correct.

Corollary for_break_correct : forall cfg i a b c n pi pa pb pc st,
  ports cfg = [] -> var_name i -> var_name a -> var_name b -> var_name c ->
  layout cfg i = Some pi -> layout cfg a = Some pa -> layout cfg b = Some pb ->
  layout cfg c = Some pc ->
  0 <= pi < 65536 -> 0 <= pa < 65536 -> 0 <= pb < 65536 -> 0 <= pc < 65536 ->
  pi <> pa -> pi <> pb -> pc <> pa -> pc <> pb -> pc <> pi ->
  bytes_ok st ->
  exists st',
    halts_to cfg (for_tpl (assign8 i 0) (CConst RNeq i 4) (template (SInc8 i))
                    (break_if (CVar REq a b) n ++ assign8 c 1) n) st st' /\
    mget (mem st') pi = (if mget (mem st) pa =? mget (mem st) pb then 0 else 4) /\
    mget (mem st') pc = (if mget (mem st) pa =? mget (mem st) pb then mget (mem st) pc else 1) /\
    only_changes [pi; pc] st st' /\ keeps_xys st st'.
Proof.
  intros cfg i a b c n pi pa pb pc st Hp Vi Va Vb Vc. unfold for_tpl, break_if.
  apply for_break_code_correct; try assumption.
  - apply lname_nonempty_for.
  - apply lname_nonempty_forend.
  - apply lname_ifhere_ne.
  - apply lname_for_ifhere.
  - apply lname_forend_ifhere.
  - apply lname_for_forupdate.
  - apply lname_for_forend.
  - apply lname_forupdate_forend.
Qed.
Print Assumptions for_break_correct.
