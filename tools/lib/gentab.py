"""corr-M for Model/GenTables.v: the branch skeleton the REAL generator emits for every cell of its
comparison lowering (operator x signedness x negation x operand swap x with/without CMP) is
compared with branch_seq / branch_seq_alt of the model after negate_op / switch_op.  The model
side is evaluated inside Coq (a generated cases file, vm_compute): no extraction involved."""
import os
import re
from .common import *

OPS = [('==', 'REq'), ('!=', 'RNeq'), ('<', 'RLt'), ('>', 'RGt'), ('<=', 'RLte'), ('>=', 'RGte')]


def cells():
    """-> list of dict(id, src, op, signed, alt, negate, switch)"""
    out = []
    for (cop, rop) in OPS:
        for signed in (False, True):
            ty = 'signed char' if signed else 'unsigned char'
            decl = '%s a; %s b; unsigned char c;\n' % (ty, ty)
            # with CMP: variable OP variable, variable OP constant, constant OP variable (swap)
            for shape, cond, switch in (('vv', 'a %s b' % cop, False), ('vk', 'a %s 5' % cop, False), ('kv', '5 %s a' % cop, True)):
                out.append(dict(id='if_%s_%s_%d' % (rop, shape, signed), src=decl + 'void main() { if (%s) { c = 1; } }\n' % cond,
                                op=rop, signed=signed, alt=False, negate=True, switch=switch, after='CMP'))
                out.append(dict(id='do_%s_%s_%d' % (rop, shape, signed), src=decl + 'void main() { do { c++; } while (%s); }\n' % cond,
                                op=rop, signed=signed, alt=False, negate=False, switch=switch, after='CMP'))
            # without CMP: the flags already describe a (just stored), compared with 0
            out.append(dict(id='ifz_%s_%d' % (rop, signed), src=decl + 'void main() { a = b; if (a %s 0) { c = 1; } }\n' % cop,
                            op=rop, signed=signed, alt=True, negate=True, switch=False, after='STA'))
            out.append(dict(id='ifzs_%s_%d' % (rop, signed), src=decl + 'void main() { a = b; if (0 %s a) { c = 1; } }\n' % cop,
                            op=rop, signed=signed, alt=True, negate=True, switch=True, after='STA'))
    return out


def skeleton(lines, after):
    """the run of conditional branches / .ifhere labels following the first `after` instruction of main"""
    out = []
    started = False
    for l in lines:
        if not started:
            if l[0] == 'I' and l[1] == after:
                started = True
            continue
        if l[0] == 'I' and l[1] in ('BCC', 'BCS', 'BEQ', 'BMI', 'BNE', 'BPL', 'JMP'):
            out.append((l[1], 1 if l[6].startswith('.ifhere') else 0, 1 if l[2] else 0))
        elif l[0] == 'L' and l[1].startswith('.ifhere'):
            out.append(('LBL', 1, 0))
        else:
            break
    return out


def run_gentab():
    """-> (ncells, mismatches[list of dict], observed{id: skeleton})"""
    cs = cells()
    jobs = ''.join(compile_job(c['id'], c['src'], args=['-O0'], want=['funcs']) for c in cs)
    res = run_ccv(jobs, tag='gentab')
    obs = {}
    bad = []
    for c, r in zip(cs, res):
        if r.get('status') != 'ok':
            bad.append({'id': c['id'], 'why': 'the probe program is rejected: %s' % (r.get('err') or r.get('status'),), 'source': c['src']})
            continue
        main = [f for f in r['funcs'] if f['name'] == 'main'][0]
        obs[c['id']] = skeleton([tuple(x) for x in main['gen']], c['after'])
    # the model side, inside Coq
    d = os.path.join(BUILD, 'gentab')
    os.makedirs(d, exist_ok=True)
    src = os.path.join(d, 'Cases_%d.v' % os.getpid())
    b = lambda x: 'true' if x else 'false'
    with open(src, 'w') as f:
        f.write('From Coq Require Import String List Bool NArith.\nFrom CC Require Import Asm.Lines Model.GenTables.\nImport ListNotations.\nOpen Scope string_scope.\n')
        f.write('Definition skel (l : list line) : list (string * N * bool) :=\n'
                '  map (fun x => match x with\n'
                '                | Ins i => (mnem_name (i_mn i), (if String.eqb (i_op i) "here" then 1 else 0)%N, i_prot i)\n'
                '                | Lbl _ => ("LBL", 1%N, false)\n'
                '                | _ => ("?", 9%N, false) end) l.\n')
        f.write('Definition expected (o : relop) (signed alt negate switch : bool) :=\n'
                '  let o1 := if negate then negate_op o else o in\n'
                '  let o2 := if switch then switch_op o1 else o1 in\n'
                '  skel (if alt then branch_seq_alt o2 signed "label" "here" else branch_seq o2 signed "label" "here").\n')
        f.write('Definition eqb3 (x y : string * N * bool) := let \'(a, b, c) := x in let \'(a2, b2, c2) := y in String.eqb a a2 && N.eqb b b2 && Bool.eqb c c2.\n')
        f.write('Fixpoint leqb (x y : list (string * N * bool)) := match x, y with [], [] => true | a :: r, b :: s => eqb3 a b && leqb r s | _, _ => false end.\n')
        f.write('Definition cases : list (N * relop * bool * bool * bool * bool * list (string * N * bool)) := [\n')
        rows = []
        ids = []
        for k, c in enumerate(cs):
            if c['id'] not in obs:
                continue
            sk = '; '.join('("%s", %d%%N, %s)' % (m, h, b(p)) for (m, h, p) in obs[c['id']])
            rows.append('  (%d%%N, %s, %s, %s, %s, %s, [%s])' % (k, c['op'], b(c['signed']), b(c['alt']), b(c['negate']), b(c['switch']), sk))
            ids.append(k)
        f.write(';\n'.join(rows) + '].\n')
        f.write('Definition bad := filter (fun c => let \'(k, o, s, a, n, w, obs) := c in negb (leqb (expected o s a n w) obs)) cases.\n')
        f.write('Goal True. idtac "BEGIN". Abort.\nEval vm_compute in map (fun c => let \'(k, o, s, a, n, w, obs) := c in (k, expected o s a n w)) bad.\nGoal True. idtac "END". Abort.\n')
    rc, out = sh(['timeout', '600', 'coqc', '-noglob', '-Q', COQ, 'CC', src], check=False)
    for ext in ('.v', '.vo', '.vok', '.vos', '.glob'):
        try:
            os.remove(src[:-2] + ext)
        except OSError:
            pass
    if rc != 0:
        raise HarnessError('coqc failed on the generator-table cases: ' + out[-1500:])
    body = out.split('BEGIN', 1)[1].split('END', 1)[0]
    flat = ' '.join(body.split())
    mism = list(bad)
    if not re.search(r'=\s*\[\s*\]', flat):
        for m in re.finditer(r'\((\d+)%N,\s*(\[.*?\])\)', flat):
            k = int(m.group(1))
            c = cs[k]
            mism.append({'id': c['id'], 'why': 'the generator emits another branch skeleton than Model/GenTables.v', 'source': c['src'],
                         'cell': {kk: c[kk] for kk in ('op', 'signed', 'alt', 'negate', 'switch')},
                         'implementation': obs.get(c['id']), 'model': m.group(2)})
        if len(mism) == len(bad):
            mism.append({'id': '?', 'why': 'unparsed Coq answer', 'answer': flat[:600]})
    return len(cs), mism, obs
