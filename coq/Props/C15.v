(** C15 — equivalent source forms behave identically.
    Two layers.  (1) In the C semantics (Src/CSem.v, the oracle of the co-execution checks) the
    rewrites the check applies are equivalences for ALL values: commuted operands of + & | ^ *,
    swapped comparisons, x + 1 as increment.  (2) In the generator's decision tables
    (Model/GenTables.v, compared with the real generator): exchanging the operands of a
    comparison goes through [switch_op], negating a condition through [negate_op]; both tables
    preserve the relation for all integers, so the two spellings select the same branch sequence
    semantics.  That the compiler emits equivalent code for two spellings is then CO-EXECUTED
    (tools/props/c15.py), not proved: partial. *)
From Coq Require Import String List Bool NArith ZArith Lia.
From CC Require Import Src.CSem Model.GenTables Proofs.CSemFacts Proofs.GenTablesFacts.
Import ListNotations.
Open Scope Z_scope.

Theorem C15_commute_operands : forall op a b, In op [Add; BAnd; BOr; BXor; Mul] -> arith op a b = arith op b a.
Proof. exact arith_comm. Qed.

Theorem C15_commute_equality : forall op a b, In op [OEq; ONe] -> arith op a b = arith op b a.
Proof. exact arith_eq_comm. Qed.

Theorem C15_swap_comparison : forall a b, arith OLt a b = arith OGt b a /\ arith OLe a b = arith OGe b a.
Proof. exact rel_swap. Qed.

Theorem C15_add_one_is_increment : forall a,
  arith Add a (mkVal 1 WLit false) = Ok (mk (wc a) (val a + 1) (taint a)).
Proof. exact arith_add_one_gen. Qed.

Theorem C15_swap_table_preserves_relation : forall o a b, rel_holds (switch_op o) b a = rel_holds o a b.
Proof. exact switch_op_correct. Qed.

Theorem C15_negate_table_preserves_relation : forall o a b, rel_holds (negate_op o) a b = negb (rel_holds o a b).
Proof. exact negate_op_correct. Qed.

Theorem C15_tables_involutive : forall o, negate_op (negate_op o) = o /\ switch_op (switch_op o) = o.
Proof. intro o. split; [exact (negate_op_involutive o) | exact (switch_op_involutive o)]. Qed.
