(** Truth values and conditional expressions as the code generator emits them at -O0 (after the
    repair of the forms stored into 16-bit objects).

    [truth_tpl e n] leaves the truth value (0 / 1) of the boolean expression [e] in A.  For a
    comparison it is the condition code with the branch taken when the comparison HOLDS (the
    NON-negated [branch_seq], [pcond_code_at] of Model/GenCtl.v) to [.elseN], where [LDA #1] sits;
    the fall-through is [LDA #0; JMP .ifendN]:
        load; CMP; Bxx .elseN; LDA #0; JMP .ifendN; .elseN: LDA #1; .ifendN:
    [x && y]: [LDA x; BEQ .ifstartN; LDA y; BNE .elseN; .ifstartN: LDA #0; JMP .ifendN; .elseN: ...];
    [x || y]: [LDA x; BNE .elseN; LDA y; BNE .elseN; LDA #0; ...]; [!x]: [LDA x; BNE .elseN] with the
    two constants exchanged.
    [store16_truth dst e n]: the truth value into a 16-bit object: [STA dst], then the HIGH byte is
    cleared: [LDA #0; STA dst+1] (before the repair the truth code was emitted a second time and
    its result stored into [dst+1]: 0x0101 for true).  [store8_truth]: into an 8-bit object.
    [store16_truth_plus]: [dst16 = e + k] (8-bit sum, high byte 0); [add16_truth]:
    [dst16 = x16 + e] (carry into the high byte).
    [tern16_tpl dst c x y n]: [dst16 = c ? x : y] for 16-bit alternatives (a variable: [LDA t] /
    [LDA t+1]; a constant k: [LDA #(k mod 256)] / [LDA #(k / 256)]): the condition (a comparison,
    or a variable tested against 0: [LDA c; BEQ]) is evaluated TWICE, once per byte, each time
    with the branch taken when it FAILS ([cond_code_at] of Model/GenIf.v) to its own [.elseK]:
    labels [.elseN] / [.ifendN] for the low byte, [.else(N+1)] / [.ifend(N+1)] for the high byte
    (before the repair the second pass loaded the LOW bytes again).
    The [.ifhere] labels of the [>] / [<=] forms are numbered after the statement's labels; no
    listing instance uses them.

    The [Example]s pin the templates to the listing, line for line. *)
From Coq Require Import String Ascii List Bool NArith ZArith.
From CC Require Import Base.Str Asm.Lines Model.GenTables Model.GenTemplates Model.GenLoops
  Model.GenIf Model.GenCtl.
Import ListNotations.
Open Scope string_scope.
Open Scope list_scope.

(** boolean expressions *)
Inductive bexp :=
| BCond (c : cond8)          (* a comparison *)
| BAnd (x y : string)        (* x && y *)
| BOr (x y : string)         (* x || y *)
| BNot (x : string).         (* !x *)

Definition truth_tpl_at (e : bexp) (lelse lend lstart here : string) : code :=
  match e with
  | BCond c =>
      pcond_code_at c lelse here
      ++ [ins LDA (imm 0); ins JMP lend; Lbl lelse; ins LDA (imm 1); Lbl lend]
  | BAnd x y =>
      [ins LDA x; ins BEQ lstart; ins LDA y; ins BNE lelse; Lbl lstart;
       ins LDA (imm 0); ins JMP lend; Lbl lelse; ins LDA (imm 1); Lbl lend]
  | BOr x y =>
      [ins LDA x; ins BNE lelse; ins LDA y; ins BNE lelse;
       ins LDA (imm 0); ins JMP lend; Lbl lelse; ins LDA (imm 1); Lbl lend]
  | BNot x =>
      [ins LDA x; ins BNE lelse; ins LDA (imm 1); ins JMP lend; Lbl lelse; ins LDA (imm 0); Lbl lend]
  end.

Definition truth_tpl (e : bexp) (n : N) : code :=
  truth_tpl_at e (lname ".else" n) (lname ".ifend" n) (lname ".ifstart" n) (lname ".ifhere" (n + 1)).

Definition store8_truth (dst : string) (e : bexp) (n : N) : code :=
  truth_tpl e n ++ [ins STA dst].

Definition store16_truth (dst : string) (e : bexp) (n : N) : code :=
  truth_tpl e n ++ [ins STA dst; ins LDA (imm 0); ins STA (hi dst)].

(** [dst16 = e + k] *)
Definition store16_truth_plus (dst : string) (e : bexp) (k : Z) (n : N) : code :=
  truth_tpl e n ++ [ins CLC ""; ins ADC (imm k); ins STA dst; ins LDA (imm 0); ins STA (hi dst)].

(** [dst16 = x16 + e] *)
Definition add16_truth (dst x : string) (e : bexp) (n : N) : code :=
  truth_tpl e n
  ++ [ins CLC ""; ins ADC x; ins STA dst; ins LDA (hi x); ins ADC (imm 0); ins STA (hi dst)].

(** the condition of a conditional expression: a comparison, or a variable tested against 0 *)
Inductive tcond := TCmp (c : cond8) | TNz (x : string).

(** jump to [lbl] when the condition FAILS *)
Definition tcond_code_at (c : tcond) (lbl here : string) : code :=
  match c with
  | TCmp c => cond_code_at c lbl here
  | TNz x => [ins LDA x; ins BEQ lbl]
  end.

(** a 16-bit operand: a variable or a constant *)
Inductive opnd16 := OVar (t : string) | OConst (k : Z).

Definition lo_text (o : opnd16) : string :=
  match o with OVar t => t | OConst k => imm (k mod 256) end.
Definition hi_text (o : opnd16) : string :=
  match o with OVar t => hi t | OConst k => imm (k / 256) end.

(** one byte of [dst = c ? x : y] *)
Definition tern_byte_at (c : tcond) (x y dst : string) (lelse lend here : string) : code :=
  tcond_code_at c lelse here
  ++ [ins LDA x; ins JMP lend; Lbl lelse; ins LDA y; Lbl lend; ins STA dst].

Definition tern16_tpl_at (dst : string) (c : tcond) (x y : opnd16)
    (lelse1 lend1 here1 lelse2 lend2 here2 : string) : code :=
  tern_byte_at c (lo_text x) (lo_text y) dst lelse1 lend1 here1
  ++ tern_byte_at c (hi_text x) (hi_text y) (hi dst) lelse2 lend2 here2.

Definition tern16_tpl (dst : string) (c : tcond) (x y : opnd16) (n : N) : code :=
  tern16_tpl_at dst c x y (lname ".else" n) (lname ".ifend" n) (lname ".ifhere" (n + 2))
    (lname ".else" (n + 1)) (lname ".ifend" (n + 1)) (lname ".ifhere" (n + 3)).

(** * The 12 listings *)
Local Open Scope Z_scope.
(** s = (a == b); *)
Example tlisting_01 : map show (store16_truth "s" (BCond (CVar REq "a" "b")) 1) =
  ["LDA a"; "CMP b"; "BEQ .else1"; "LDA #0"; "JMP .ifend1"; ".else1:"; "LDA #1"; ".ifend1:";
   "STA s"; "LDA #0"; "STA s+1"].
Proof. vm_compute. reflexivity. Qed.

(** s = (a < b); *)
Example tlisting_02 : map show (store16_truth "s" (BCond (CVar RLt "a" "b")) 1) =
  ["LDA a"; "CMP b"; "BCC .else1"; "LDA #0"; "JMP .ifend1"; ".else1:"; "LDA #1"; ".ifend1:";
   "STA s"; "LDA #0"; "STA s+1"].
Proof. vm_compute. reflexivity. Qed.

(** s = (a != 3); *)
Example tlisting_03 : map show (store16_truth "s" (BCond (CConst RNeq "a" 3)) 1) =
  ["LDA a"; "CMP #3"; "BNE .else1"; "LDA #0"; "JMP .ifend1"; ".else1:"; "LDA #1"; ".ifend1:";
   "STA s"; "LDA #0"; "STA s+1"].
Proof. vm_compute. reflexivity. Qed.

(** s = a && b; *)
Example tlisting_04 : map show (store16_truth "s" (BAnd "a" "b") 1) =
  ["LDA a"; "BEQ .ifstart1"; "LDA b"; "BNE .else1"; ".ifstart1:"; "LDA #0"; "JMP .ifend1";
   ".else1:"; "LDA #1"; ".ifend1:"; "STA s"; "LDA #0"; "STA s+1"].
Proof. vm_compute. reflexivity. Qed.

(** s = a || b; *)
Example tlisting_05 : map show (store16_truth "s" (BOr "a" "b") 1) =
  ["LDA a"; "BNE .else1"; "LDA b"; "BNE .else1"; "LDA #0"; "JMP .ifend1"; ".else1:"; "LDA #1";
   ".ifend1:"; "STA s"; "LDA #0"; "STA s+1"].
Proof. vm_compute. reflexivity. Qed.

(** s = !a; *)
Example tlisting_06 : map show (store16_truth "s" (BNot "a") 1) =
  ["LDA a"; "BNE .else1"; "LDA #1"; "JMP .ifend1"; ".else1:"; "LDA #0"; ".ifend1:"; "STA s";
   "LDA #0"; "STA s+1"].
Proof. vm_compute. reflexivity. Qed.

(** c = (a == b); *)
Example tlisting_07 : map show (store8_truth "c" (BCond (CVar REq "a" "b")) 1) =
  ["LDA a"; "CMP b"; "BEQ .else1"; "LDA #0"; "JMP .ifend1"; ".else1:"; "LDA #1"; ".ifend1:";
   "STA c"].
Proof. vm_compute. reflexivity. Qed.

(** s = c ? t : u; *)
Example tlisting_08 : map show (tern16_tpl "s" (TNz "c") (OVar "t") (OVar "u") 1) =
  ["LDA c"; "BEQ .else1"; "LDA t"; "JMP .ifend1"; ".else1:"; "LDA u"; ".ifend1:"; "STA s"; "LDA c";
   "BEQ .else2"; "LDA t+1"; "JMP .ifend2"; ".else2:"; "LDA u+1"; ".ifend2:"; "STA s+1"].
Proof. vm_compute. reflexivity. Qed.

(** s = c ? 1000 : 300; *)
Example tlisting_09 : map show (tern16_tpl "s" (TNz "c") (OConst 1000) (OConst 300) 1) =
  ["LDA c"; "BEQ .else1"; "LDA #232"; "JMP .ifend1"; ".else1:"; "LDA #44"; ".ifend1:"; "STA s";
   "LDA c"; "BEQ .else2"; "LDA #3"; "JMP .ifend2"; ".else2:"; "LDA #1"; ".ifend2:"; "STA s+1"].
Proof. vm_compute. reflexivity. Qed.

(** s = (a < b) ? t : 1000; *)
Example tlisting_10 : map show (tern16_tpl "s" (TCmp (CVar RLt "a" "b")) (OVar "t") (OConst 1000) 1) =
  ["LDA a"; "CMP b"; "BCS .else1"; "LDA t"; "JMP .ifend1"; ".else1:"; "LDA #232"; ".ifend1:";
   "STA s"; "LDA a"; "CMP b"; "BCS .else2"; "LDA t+1"; "JMP .ifend2"; ".else2:"; "LDA #3";
   ".ifend2:"; "STA s+1"].
Proof. vm_compute. reflexivity. Qed.

(** s = (a == b) + 1; *)
Example tlisting_11 : map show (store16_truth_plus "s" (BCond (CVar REq "a" "b")) 1 1) =
  ["LDA a"; "CMP b"; "BEQ .else1"; "LDA #0"; "JMP .ifend1"; ".else1:"; "LDA #1"; ".ifend1:";
   "CLC "; "ADC #1"; "STA s"; "LDA #0"; "STA s+1"].
Proof. vm_compute. reflexivity. Qed.

(** t = t + (a < b); *)
Example tlisting_12 : map show (add16_truth "t" "t" (BCond (CVar RLt "a" "b")) 1) =
  ["LDA a"; "CMP b"; "BCC .else1"; "LDA #0"; "JMP .ifend1"; ".else1:"; "LDA #1"; ".ifend1:";
   "CLC "; "ADC t"; "STA t"; "LDA t+1"; "ADC #0"; "STA t+1"].
Proof. vm_compute. reflexivity. Qed.
